/-
  Helper lemmas for C09 (no property statements here): the model's minimum-norm least squares `Fill.lstsq` ALWAYS answers.

  `lstsq n A b` solves `(G Gᵀ) z = G b` with `G = A Aᵀ` by the elimination `solveAny` and returns `x = Aᵀ z` after checking the
  normal equations.  `Lemmas/FillPerm.lean` proves that `solveAny` finds a solution whenever one exists and that a solution
  passes the check.  What was missing is that the system HAS a solution: for every matrix `M` over a linearly ordered field
  `M b ∈ range (M Mᵀ)` — `range (M Mᵀ) ⊆ range M` and both have the rank of `M` (Mathlib `Matrix.rank_self_mul_transpose`).
  The bridge from the list-of-lists representation to `Matrix (Fin m) (Fin k) α` is `dot_eq_sum`.
-/
import CijProofs.Lemmas.FillPerm
import Mathlib.LinearAlgebra.Matrix.Rank
set_option linter.unusedSectionVars false
namespace Cij.Fill
open Matrix

/-- `M b` is in the range of `M Mᵀ` (linearly ordered field): the range of a Gram-type product is the range of the factor -/
theorem exists_mul_transpose_mulVec {m k K : Type} [Fintype m] [Fintype k] [Field K] [LinearOrder K]
    [IsStrictOrderedRing K] (M : Matrix m k K) (b : k → K) : ∃ z : m → K, (M * Mᵀ) *ᵥ z = M *ᵥ b := by
  have hle : LinearMap.range (M * Mᵀ).mulVecLin ≤ LinearMap.range M.mulVecLin := by
    rintro _ ⟨z, rfl⟩
    exact ⟨Mᵀ *ᵥ z, by simp only [Matrix.mulVecLin_apply, Matrix.mulVec_mulVec]⟩
  have hrk : Module.finrank K (LinearMap.range (M * Mᵀ).mulVecLin) = Module.finrank K (LinearMap.range M.mulVecLin) :=
    Matrix.rank_self_mul_transpose M
  have heq := Submodule.eq_of_le_of_finrank_eq hle hrk
  have hb : M *ᵥ b ∈ LinearMap.range M.mulVecLin := ⟨b, rfl⟩
  rw [← heq] at hb
  obtain ⟨z, hz⟩ := hb
  exact ⟨z, hz⟩

variable {α : Type} [Field α] [LinearOrder α] [IsStrictOrderedRing α]

/-- the model's `dot` (which stops at the shorter list) as a sum over `Fin k`, `k` at least the length of one argument -/
theorem dot_eq_sum : ∀ (k : Nat) (u v : List α), u.length ≤ k →
    dot u v = ∑ j : Fin k, u.getD j 0 * v.getD j 0 := by
  intro k
  induction k with
  | zero =>
    intro u v hu
    have : u = [] := List.length_eq_zero_iff.mp (Nat.le_zero.mp hu)
    subst this
    simp [dot]
  | succ k ih =>
    intro u v hu
    cases u with
    | nil => simp [dot]
    | cons a u =>
      cases v with
      | nil => simp [dot]
      | cons c v =>
        have hu' : u.length ≤ k := by simpa using hu
        rw [Fin.sum_univ_succ]
        simp only [dot, Fin.val_zero, List.getD_cons_zero, Fin.val_succ, List.getD_cons_succ]
        rw [ih u v hu']

theorem getD_map_of_lt {β : Type} (f : β → α) (l : List β) (j : Nat) (hj : j < l.length) :
    (l.map f).getD j 0 = f l[j] := by
  rw [List.getD_eq_getElem?_getD, List.getElem?_map, List.getElem?_eq_getElem hj]
  rfl

theorem getD_ofFn {m : Nat} (z : Fin m → α) (j : Fin m) : (List.ofFn z).getD j 0 = z j := by
  rw [List.getD_eq_getElem?_getD, List.getElem?_ofFn]
  simp

/-- the system `lstsq` hands to `solveAny` — written for any rectangular `G` (rows of length `k`) — has a solution -/
theorem sys_solvable (G : List (List α)) (b : List α) (k : Nat) (hrows : ∀ g ∈ G, g.length = k) :
    ∃ z0 : List α, z0.length = G.length ∧
      ∀ p ∈ G.map (fun g => (G.map fun g' => dot g g', dot g b)), dot p.1 z0 = p.2 := by
  let M : Matrix (Fin G.length) (Fin k) α := Matrix.of fun i j => (G[i.val]).getD j 0
  have hM : ∀ i j, M i j = (G[i.val]).getD j 0 := fun _ _ => rfl
  obtain ⟨z, hz⟩ := exists_mul_transpose_mulVec M (fun j => b.getD j 0)
  refine ⟨List.ofFn z, by simp, ?_⟩
  intro p hp
  obtain ⟨g, hg, rfl⟩ := List.mem_map.mp hp
  obtain ⟨i, hi, rfl⟩ := List.getElem_of_mem hg
  have hzi := congrFun hz ⟨i, hi⟩
  simp only [Matrix.mulVec, dotProduct, Matrix.mul_apply, Matrix.transpose_apply, hM] at hzi
  simp only
  rw [dot_eq_sum G.length _ _ (by simp), dot_eq_sum k G[i] b (le_of_eq (hrows _ (List.getElem_mem hi)))]
  rw [← hzi]
  apply Finset.sum_congr rfl
  intro j _
  rw [getD_map_of_lt _ G j j.isLt, getD_ofFn, dot_eq_sum k G[i] G[j.val] (le_of_eq (hrows _ (List.getElem_mem hi)))]

/-- **`lstsq` always answers** on a well-shaped system: every row of `A` has (at most) `n` entries and there are as many
right-hand sides as rows.  (No rank assumption: the rank-deficient case is the minimum-norm solution.) -/
theorem lstsq_total' {n : Nat} {A : List (List α)} {b : List α} (hrows : ∀ a ∈ A, a.length ≤ n)
    (hb : b.length = A.length) : ∃ x, lstsq n A b = some x := by
  have hG : ∀ g ∈ gram A, g.length = A.length := by
    intro g hg
    obtain ⟨r, _, rfl⟩ := List.mem_map.mp hg
    simp
  obtain ⟨z0, hz0, hsol⟩ := sys_solvable (gram A) b A.length hG
  have hz0' : z0.length = A.length := by rw [hz0]; simp [gram]
  have hne : normalEqHold A b (padTo n (tmulVec A z0)) = true := by
    rw [normalEqHold_padTo n A b _ hrows]
    exact normalEq_of_sys_solved A b z0 hb hsol
  obtain ⟨z, _, hz, _⟩ := lstsq_isSome_of_exists hb hrows z0 hz0' hne
  exact ⟨_, hz⟩

theorem lstsq_total {n : Nat} {A : List (List α)} {b : List α} (hrows : ∀ r ∈ A, r.length = n)
    (hb : A.length = b.length) : ∃ x, lstsq n A b = some x :=
  lstsq_total' (fun a ha => le_of_eq (hrows a ha)) hb.symm

/-! ### consequences for the solve stage and for `fill` -/

theorem mapM_option_total {β γ : Type} (f : β → Option γ) :
    ∀ l : List β, (∀ b ∈ l, ∃ x, f b = some x) → ∃ ys, l.mapM f = some ys
  | [], _ => ⟨[], rfl⟩
  | b :: l, h => by
    obtain ⟨x, hx⟩ := h b (by simp)
    obtain ⟨ys, hys⟩ := mapM_option_total f l (fun b' hb' => h b' (by simp [hb']))
    exact ⟨x :: ys, by rw [List.mapM_cons, hx, hys]; rfl⟩

/-- the solve stage always hands a `Solved` record to the decision stage -/
theorem solveStage_total {A bs : List (List α)} (hrows : ∀ a ∈ A, a.length ≤ nsym)
    (hbs : ∀ b ∈ bs, b.length = A.length) : ∃ s, solveStage A bs = some s := by
  obtain ⟨xs, hxs⟩ := mapM_option_total (fun b => lstsq nsym A b) bs (fun b hb => lstsq_total' hrows (hbs b hb))
  unfold solveStage
  rw [hxs]
  exact ⟨_, rfl⟩

theorem stackA_rows_le (sel : List Nat) (rel : Rows) (hrel : ∀ r ∈ rel, r.coeffs.length ≤ nsym) :
    ∀ a ∈ stackA (α := α) sel rel, a.length ≤ nsym := by
  intro a ha
  unfold stackA at ha
  rcases List.mem_append.1 ha with ha | ha
  · obtain ⟨i, _, rfl⟩ := List.mem_map.1 ha
    exact le_of_eq (length_selectorRow i)
  · obtain ⟨r, hr, rfl⟩ := List.mem_map.1 ha
    rw [length_castRow]; exact hrel r hr

/-- as many value columns as recognised indices (the selector list is not longer than the table) -/
theorem length_selColsOf : ∀ (sel : List (Option Nat)) (t : Table α), sel.length ≤ t.length →
    (selColsOf sel t).length = (selIdxOf sel).length := by
  intro sel
  induction sel with
  | nil => intro t _; simp [selColsOf, selIdxOf]
  | cons o sel ih =>
    intro t ht
    cases t with
    | nil => simp at ht
    | cons c t =>
      have := ih t (by simpa using ht)
      simp only [selColsOf, selIdxOf] at this ⊢
      cases o <;> simp [this]

/-- the stacked system of `fillWith` is well shaped, so its solve stage answers -/
theorem solveStage_stack_total (rel : Rows) (sel : List (Option Nat)) (t : Table α)
    (hrel : ∀ r ∈ rel, r.coeffs.length ≤ nsym) (hlen : sel.length ≤ t.length) :
    ∃ s, solveStage (stackA (α := α) (selIdxOf sel) rel)
      ((List.range (nRows t)).map fun k => stackB (selColsOf sel t) rel k) = some s := by
  apply solveStage_total (stackA_rows_le _ rel hrel)
  intro b hb
  obtain ⟨k, _, rfl⟩ := List.mem_map.1 hb
  simp [stackA, stackB, length_selColsOf sel t hlen]

theorem fillXs_ne_solver (rel : Rows) (sel : List (Option Nat)) (P : Params α) (t : Table α)
    (hrel : ∀ r ∈ rel, r.coeffs.length ≤ nsym) (hlen : sel.length ≤ t.length) :
    fillXs rel sel P t ≠ .error .solver := by
  unfold fillXs
  split
  · split <;> simp
  · obtain ⟨s, hs⟩ := solveStage_stack_total rel sel t hrel hlen
    rw [hs]
    simp only
    rcases verdict_cases P s with hv | hv | hv <;> rw [hv] <;> simp

theorem fillWith_ne_solver (rel : Rows) (sel : List (Option Nat)) (P : Params α) (t : Table α)
    (hrel : ∀ r ∈ rel, r.coeffs.length ≤ nsym) (hlen : sel.length ≤ t.length) :
    fillWith rel sel P t ≠ .error .solver := by
  rw [fillWith_eq_fillXs]
  have := fillXs_ne_solver rel sel P t hrel hlen
  cases h : fillXs rel sel P t with
  | error e => rw [h] at this; simpa [Except.map] using this
  | ok xs => simp [Except.map]

theorem recognise_length {names : List String} {sel : List (Option Nat)} (h : recognise names = .ok sel) :
    sel.length = names.length := by
  rw [recognise_eq] at h
  split at h
  · cases h
  · injection h with h; subst h; simp

theorem fill_ne_solver (env : Env) (system : Option String) (P : Params α) (t : Table α)
    (huser : ∀ sys rows, env.userFile sys = some rows → ∀ r ∈ rows, r.coeffs.length ≤ nsym) :
    fill env system P t ≠ .error .solver := by
  cases system with
  | none => simp [fill]
  | some sys =>
    unfold fill
    simp only
    cases hrec : recognise (t.map (·.1)) with
    | error e =>
      simp only
      rw [recognise_eq] at hrec
      split at hrec
      · injection hrec with hrec; subst hrec; simp
      · cases hrec
    | ok sel =>
      simp only
      cases hres : resolve env sys with
      | error e =>
        simp only
        intro he
        injection he with he
        subst he
        unfold resolve at hres
        cases hp : packaged sys with
        | ok rows => rw [hp] at hres; cases hres
        | error e' =>
          rw [hp] at hres
          simp only at hres
          cases hu : env.userFile sys with
          | some rows => rw [hu] at hres; cases hres
          | none =>
            rw [hu] at hres
            injection hres with hres
            subst hres
            unfold packaged at hp
            split at hp
            · cases hp
            · cases hp
      | ok rel =>
        simp only
        exact fillWith_ne_solver rel sel P t (resolve_coeffs_length env sys (huser sys) rel hres)
          (le_of_eq (by rw [recognise_length hrec]; simp))

end Cij.Fill
