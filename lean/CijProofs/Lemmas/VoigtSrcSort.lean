/-
  `sorted((i, j))` on two SYMBOLIC integers, and what follows from it: `StrainRepresentation.from_standard(i, j)` of the translated
  source, for ALL integers, in every calling context (any remaining fuel ≥ 41, any call depth below the recursion limit).

  Plain kernel evaluation cannot decide `intLt j i` for two symbolic magnitudes of the same sign.  The way around it is a
  CONTINUATION EXTRACTION: `fs_spine` (checked by the kernel as a definitional equality between two stuck terms) says that the
  body of `from_standard` evaluates to `contFS … (sortByKeys [i, j] [i, j] [])`, where `contFS` is the evaluator's own continuation
  (bind the two names, run the remaining statements).  `sort2_ints` (an ordinary proof) rewrites the stuck sort under `i ≤ j` /
  `j < i`; after that the pair is (min, max), and the remaining test `(i, j) not in VOIGT_TO_STANDARD.values()` is decided by the
  constructors of the two integers (kernel evaluation per shape: negative, 0, 1, 2, 3, ≥ 4).

  Every `kernel_rfl` between two stuck terms carries a small `maxHeartbeats`: when such an equation is FALSE (a changed source) the
  kernel's search for a definitional unfolding does not terminate in reasonable time; the limit turns that into an error within
  seconds (a true instance needs < 2000).
-/
import CijProofs.Lemmas.PyLite
import CijProofs.Lemmas.Voigt
import CijModel.VoigtSrc

namespace Cij.VoigtSrc
open PyLite

/-! ### generic pieces -/

/-- exception kind of any result -/
def excK {α} (r : Result α) : Option String := match r with | .exc k _ => some k | _ => none
def excA {α} (r : Result α) : List Val := match r with | .exc _ a => a | _ => []

theorem excK_eq {α} {r : Result α} {k : String} (h : excK r = some k) : r = .exc k (excA r) := by
  cases r <;> simp_all [excK, excA]

theorem excKind_eq_excK (r : Result Val) : excKind r = excK r := by cases r <;> rfl

/-- the module's globals after import (the value every call of `PyLite.eval` starts from) -/
def genv0 : Env := match src.load fuel with | .ok g => g | _ => []
theorem load_ok : src.load fuel = .ok genv0 := by kernel_rfl

def noFun : FunDef := ⟨"", .method, [], none, []⟩
/-- function `f` of class `c` of the translated module -/
def funOf (c f : String) : FunDef := match src.findClass c with
  | some cd => (match cd.findFun f with | some fd => fd | none => noFun)
  | none => noFun

/-- the evaluator with `f` units of fuel, as the record the mutual block passes down -/
def recAt (f : Nat) : Rec :=
  ⟨evalExpr src 60 genv0 f, evalList src 60 genv0 f, evalDict src 60 genv0 f, evalKw src 60 genv0 f, evalBool src 60 genv0 f,
   evalFParts src 60 genv0 f, genLoop src 60 genv0 f, mapCall src 60 genv0 f, execStmts src 60 genv0 f, callFun src 60 genv0 f,
   callVal src 60 genv0 f, getAttr src 60 genv0 f⟩

/-! #### frames: the continuations the step functions wrap around a sub-evaluation (the same `do` blocks) -/

/-- `stepCallFun` around the body -/
def frFun (r : Result Flow) : Result Val := do
  match ← r with
  | .ret v => pure v
  | .next _ => pure .none
/-- `stepRet` around the returned expression -/
def frRet (r : Result Val) : Result Flow := do let v ← r; pure (.ret v)
/-- `stepIf` around the chosen branch (`ss` = the statements after the `if`) -/
def frIf (r : Rec) (d : Nat) (ss : List Stmt) (x : Result Flow) : Result Flow := do
  match ← x with
  | .ret v => pure (.ret v)
  | .next env' => r.stmts d env' ss
/-- `stepList` around the first (non-starred) element -/
def frHead (r : Rec) (d : Nat) (env : Env) (es : List Expr) (x : Result Val) : Result (List Val) := do
  let v ← x
  let rest ← r.list d env es
  pure (v :: rest)
/-- `stepList` around the first, starred, element -/
def frStar (r : Rec) (d : Nat) (env : Env) (es : List Expr) (x : Result Val) : Result (List Val) := do
  let v ← x
  let xs ← iterOf v
  let rest ← r.list d env es
  pure (xs ++ rest)
/-- `stepList` around the remaining elements -/
def frTail (v : Val) (x : Result (List Val)) : Result (List Val) := do let rest ← x; pure (v :: rest)
/-- `stepTuple` -/
def frTuple (x : Result (List Val)) : Result Val := do let vs ← x; pure (.tuple vs)
/-- `stepCall` around the argument list -/
def frArgs (r : Rec) (d : Nat) (env : Env) (kw : List (String × Expr)) (fv : Val) (x : Result (List Val)) : Result Val := do
  let avs ← x
  let kvs ← r.kw d env kw
  r.callVal d fv avs kvs

theorem frFun_frRet (r : Result Val) : frFun (frRet r) = r := by cases r <;> rfl

/-- entering a module function below the recursion limit -/
theorem callFun_enter (N d : Nat) (fd : FunDef) (recv : Val) (args : List Val) (h : d < 60) :
    callFun src 60 genv0 (N + 1) d fd recv args =
      (bindParams fd.params fd.vararg (recv :: args)).bind fun env => frFun (execStmts src 60 genv0 N (d + 1) env fd.body) := by
  show stepCallFun 60 _ d fd recv args = _
  unfold stepCallFun
  rw [if_neg (by omega)]
  rfl

/-! ### `sorted` of two integers -/

theorem sort2_ints (i j : Int) :
    sortByKeys [.int i, .int j] [.int i, .int j] [] = .ok (if j < i then [.int j, .int i] else [.int i, .int j]) := by
  by_cases h : j < i
  · simp [sortByKeys, insertSorted, pyOrd, ordAtom, Val.plain, numOf, OrdOp.onInt, intLt_eq_decide, bind, Result.bind, h]
  · simp [sortByKeys, insertSorted, pyOrd, ordAtom, Val.plain, numOf, OrdOp.onInt, intLt_eq_decide, bind, Result.bind, h, pure]

/-! ### `StrainRepresentation.from_standard` -/

def fdFS : FunDef := funOf "StrainRepresentation" "from_standard"
def SRc : Val := .cls "StrainRepresentation"

/-- `E_.from_standard(i, j)` with `N` units of fuel at call depth `d` -/
def callFS (N d : Nat) (i j : Int) : Result Val := callFun src 60 genv0 N d fdFS SRc [.int i, .int j]

def fsTarget : Target := match fdFS.body with | .assign t _ :: _ => t | _ => .name ""
def fsRest : List Stmt := fdFS.body.tail
def envFS (i j : Int) : Env := [("cls", SRc), ("i", .int i), ("j", .int j)]

theorem fs_params (i j : Int) : bindParams fdFS.params fdFS.vararg [SRc, .int i, .int j] = .ok (envFS i j) := by kernel_rfl

def bodyFS (N d : Nat) (i j : Int) : Result Flow := execStmts src 60 genv0 N d (envFS i j) fdFS.body
/-- what the evaluator does with the result of the sort: `i, j = <that list>`, then the remaining statements -/
def contFS (N d : Nat) (i j : Int) (S : Result (List Val)) : Result Flow :=
  (S.bind fun rs => .ok (.list rs)).bind fun v => (bindTarget fsTarget v (envFS i j)).bind fun env' =>
    execStmts src 60 genv0 N d env' fsRest

set_option maxHeartbeats 20000 in
/-- the body of `from_standard` up to the sort: it IS `i, j = sorted((i, j))` followed by the rest -/
theorem fs_spine (m d : Nat) (i j : Int) :
    bodyFS (m + 40) d i j = contFS (m + 39) d i j (sortByKeys [.int i, .int j] [.int i, .int j] []) := by kernel_rfl

abbrev RTE' : Option String := some "RuntimeError"

def isRetStrain (r : Result Flow) (lo hi : Int) : Bool :=
  match r with
  | .ok (.ret (.record "StrainRepresentation" [.int a, .int b])) => a == lo && b == hi
  | _ => false

theorem isRetStrain_eq {r : Result Flow} {lo hi : Int} (h : isRetStrain r lo hi = true) :
    r = .ok (.ret (Strain.toVal ⟨lo, hi⟩)) := by
  unfold isRetStrain at h
  split at h
  · simp only [Bool.and_eq_true, beq_iff_eq] at h
    obtain ⟨rfl, rfl⟩ := h
    rfl
  · exact absurd h (by simp)

/-! after the sort, per shape of (lo, hi); `i j` (the shadowed parameters), the fuel and the depth stay symbolic -/

theorem fs_lo_neg (m d : Nat) (i j : Int) (a : Nat) (hi : Int) :
    excK (contFS (m + 39) d i j (.ok [.int (Int.negSucc a), .int hi])) = RTE' := by kernel_rfl
theorem fs_lo_zero (m d : Nat) (i j : Int) (hi : Int) :
    excK (contFS (m + 39) d i j (.ok [.int 0, .int hi])) = RTE' := by kernel_rfl
theorem fs_lo_big (m d : Nat) (i j : Int) (a : Nat) (hi : Int) :
    excK (contFS (m + 39) d i j (.ok [.int (Int.ofNat (a + 4)), .int hi])) = RTE' := by kernel_rfl
theorem fs_hi_neg (m d : Nat) (i j : Int) (b : Nat) :
    (idx3.all fun lo => excK (contFS (m + 39) d i j (.ok [.int lo, .int (Int.negSucc b)])) == RTE') = true := by kernel_rfl
theorem fs_hi_zero (m d : Nat) (i j : Int) :
    (idx3.all fun lo => excK (contFS (m + 39) d i j (.ok [.int lo, .int 0])) == RTE') = true := by kernel_rfl
theorem fs_hi_big (m d : Nat) (i j : Int) (b : Nat) :
    (idx3.all fun lo => excK (contFS (m + 39) d i j (.ok [.int lo, .int (Int.ofNat (b + 4))])) == RTE') = true := by kernel_rfl
/-- the six sorted pairs inside 1..3 are accepted and returned as they are -/
theorem fs_good (m d : Nat) (i j : Int) :
    (idx3.all fun lo => idx3.all fun hi => decide (hi < lo) || isRetStrain (contFS (m + 39) d i j (.ok [.int lo, .int hi])) lo hi) = true := by
  kernel_rfl

/-- every integer is negative, one of 0..3, or at least 4 -/
theorem int_shape4 (v : Int) : (∃ n, v = Int.negSucc n) ∨ v = 0 ∨ v = 1 ∨ v = 2 ∨ v = 3 ∨ ∃ n, v = Int.ofNat (n + 4) := by
  cases v with
  | negSucc n => exact Or.inl ⟨n, rfl⟩
  | ofNat m =>
    rcases m with _ | _ | _ | _ | m
    · exact Or.inr (Or.inl rfl)
    · exact Or.inr (Or.inr (Or.inl rfl))
    · exact Or.inr (Or.inr (Or.inr (Or.inl rfl)))
    · exact Or.inr (Or.inr (Or.inr (Or.inr (Or.inl rfl))))
    · exact Or.inr (Or.inr (Or.inr (Or.inr (Or.inr ⟨m, rfl⟩))))

theorem all_idx3 {p : Int → Int → Bool} (h : (idx3.all fun i => idx3.all fun j => p i j) = true) :
    ∀ i ∈ idx3, ∀ j ∈ idx3, p i j = true := by
  intro i hi j hj; exact List.all_eq_true.mp (List.all_eq_true.mp h i hi) j hj

theorem all_idx3' {p : Int → Bool} (h : (idx3.all fun i => p i) = true) : ∀ i ∈ idx3, p i = true :=
  fun i hi => List.all_eq_true.mp h i hi

theorem negSucc_neg (a : Nat) : Int.negSucc a < 0 := Int.negSucc_lt_zero a
theorem four_le_ofNat (a : Nat) : (4 : Int) ≤ Int.ofNat (a + 4) := by
  have : (Int.ofNat (a + 4)) = ((a + 4 : Nat) : Int) := rfl
  omega

/-- after the sort: the pair (lo ≤ hi) is rejected unless it lies inside 1..3, and returned unchanged otherwise -/
theorem contFS_sorted (m d : Nat) (i j lo hi : Int) (hle : lo ≤ hi) :
    (¬(1 ≤ lo ∧ hi ≤ 3) → excK (contFS (m + 39) d i j (.ok [.int lo, .int hi])) = RTE') ∧
    ((1 ≤ lo ∧ hi ≤ 3) → contFS (m + 39) d i j (.ok [.int lo, .int hi]) = .ok (.ret (Strain.toVal ⟨lo, hi⟩))) := by
  by_cases hlo : 1 ≤ lo ∧ lo ≤ 3
  · have hlm : lo ∈ idx3 := (mem_idx3 lo).2 hlo
    by_cases hhi : hi ≤ 3
    · have hhm : hi ∈ idx3 := (mem_idx3 hi).2 ⟨by omega, hhi⟩
      refine ⟨fun h => absurd ⟨hlo.1, hhi⟩ h, fun _ => ?_⟩
      have := all_idx3 (fs_good m d i j) lo hlm hi hhm
      rw [Bool.or_eq_true] at this
      rcases this with h | h
      · exact absurd (of_decide_eq_true h) (by omega)
      · exact isRetStrain_eq h
    · refine ⟨fun _ => ?_, fun h => absurd h.2 hhi⟩
      rcases int_shape4 hi with ⟨b, rfl⟩ | rfl | rfl | rfl | rfl | ⟨b, rfl⟩
      · exact eq_of_beq (all_idx3' (fs_hi_neg m d i j b) lo hlm)
      · exact eq_of_beq (all_idx3' (fs_hi_zero m d i j) lo hlm)
      · exact absurd (by decide) hhi
      · exact absurd (by decide) hhi
      · exact absurd (by decide) hhi
      · exact eq_of_beq (all_idx3' (fs_hi_big m d i j b) lo hlm)
  · refine ⟨fun _ => ?_, fun h => absurd ⟨h.1, by omega⟩ hlo⟩
    rcases int_shape4 lo with ⟨a, rfl⟩ | rfl | rfl | rfl | rfl | ⟨a, rfl⟩
    · exact fs_lo_neg m d i j a hi
    · exact fs_lo_zero m d i j hi
    · exact absurd (by decide) hlo
    · exact absurd (by decide) hlo
    · exact absurd (by decide) hlo
    · exact fs_lo_big m d i j a hi

theorem frFun_exc {r : Result Flow} {k : String} (h : excK r = some k) : excK (frFun r) = some k := by
  rw [excK_eq h]; rfl

/-- **`E_.from_standard(i, j)` for ALL integers, in any context**: RuntimeError unless (min, max) lies inside 1..3 — i.e. unless it is
one of the six values of `VOIGT_TO_STANDARD` —, and the NamedTuple `(min, max)` otherwise -/
theorem callFS_spec (m d : Nat) (hd : d < 60) (i j : Int) :
    (¬(1 ≤ min i j ∧ max i j ≤ 3) → excK (callFS (m + 41) d i j) = RTE') ∧
    ((1 ≤ min i j ∧ max i j ≤ 3) → callFS (m + 41) d i j = .ok (Strain.toVal ⟨min i j, max i j⟩)) := by
  have e : callFS (m + 41) d i j = frFun (contFS (m + 39) (d + 1) i j (.ok (if j < i then [.int j, .int i] else [.int i, .int j]))) := by
    unfold callFS
    rw [callFun_enter (m + 40) d fdFS SRc _ hd, fs_params]
    show frFun (bodyFS (m + 40) (d + 1) i j) = _
    rw [fs_spine, sort2_ints]
  rw [e]
  by_cases h : j < i
  · rw [if_pos h, show min i j = j by omega, show max i j = i by omega]
    obtain ⟨h1, h2⟩ := contFS_sorted m (d + 1) i j j i (by omega)
    exact ⟨fun hn => frFun_exc (h1 hn), fun hy => by rw [h2 hy]; rfl⟩
  · have h' : i ≤ j := by omega
    rw [if_neg h, show min i j = i by omega, show max i j = j by omega]
    obtain ⟨h1, h2⟩ := contFS_sorted m (d + 1) i j i j h'
    exact ⟨fun hn => frFun_exc (h1 hn), fun hy => by rw [h2 hy]; rfl⟩

/-- the hand model's `Strain.fromStandard`, in the same closed form -/
theorem model_fromStandard (i j : Int) :
    Strain.fromStandard i j = if 1 ≤ min i j ∧ max i j ≤ 3 then some ⟨min i j, max i j⟩ else none := by
  by_cases h : 1 ≤ min i j ∧ max i j ≤ 3
  · rw [if_pos h]
    have hi : i ∈ idx3 := (mem_idx3 i).2 (by omega)
    have hj : j ∈ idx3 := (mem_idx3 j).2 (by omega)
    have key : ∀ i ∈ idx3, ∀ j ∈ idx3, Strain.fromStandard i j = some ⟨min i j, max i j⟩ := by decide +kernel
    exact key i hi j hj
  · rw [if_neg h]
    cases hm : Strain.fromStandard i j with
    | none => rfl
    | some s => exfalso; have := strain_fromStandard_range i j s hm; omega

/-! ### `ModulusRepresentation.from_standard` -/

def fdC4 : FunDef := funOf "ModulusRepresentation" "from_standard"
def MRc : Val := .cls "ModulusRepresentation"
def callC4 (N d : Nat) (i j k l : Int) : Result Val := callFun src 60 genv0 N d fdC4 MRc [.int i, .int j, .int k, .int l]
def env4 (i j k l : Int) : Env := [("cls", MRc), ("i", .int i), ("j", .int j), ("k", .int k), ("l", .int l)]
theorem c4_params (i j k l : Int) : bindParams fdC4.params fdC4.vararg [MRc, .int i, .int j, .int k, .int l] = .ok (env4 i j k l) := by
  kernel_rfl

def c4Ret : Expr := match fdC4.body with | [.ret (some e)] => e | _ => .const .none
def c4Sorted : Expr := match c4Ret with | .call _ [.starred e] _ => e | _ => .const .none
def c4Kw : List (String × Expr) := match c4Sorted with | .call _ _ kw => kw | _ => []
def c4Elts : List Expr := match c4Sorted with | .call _ [.tuple es] _ => es | _ => []

def bodyC4 (F d : Nat) (i j k l : Int) : Result Flow := execStmts src 60 genv0 F d (env4 i j k l) fdC4.body

/-- everything `C_.from_standard` does around the evaluation of the two-element tuple display -/
def outerC4 (F d : Nat) (env : Env) (x : Result (List Val)) : Result Flow :=
  frRet (frArgs (recAt (F - 2)) d env [] MRc (frStar (recAt (F - 3)) d env []
    (frArgs (recAt (F - 4)) d env c4Kw (.builtin "sorted") (frHead (recAt (F - 5)) d env [] (frTuple x)))))

set_option maxHeartbeats 4000 in
theorem c4_spine1 (m d : Nat) (i j k l : Int) : bodyC4 (m + 60) d i j k l =
    outerC4 (m + 60) d (env4 i j k l) (frHead (recAt (m + 53)) d (env4 i j k l) c4Elts.tail (callFS (m + 51) d i j)) := by
  kernel_rfl

set_option maxHeartbeats 4000 in
theorem c4_spine2 (m d : Nat) (i j k l : Int) (v1 : Val) :
    frHead (recAt (m + 53)) d (env4 i j k l) c4Elts.tail (.ok v1) =
      frTail v1 (frHead (recAt (m + 52)) d (env4 i j k l) [] (callFS (m + 50) d k l)) := by
  kernel_rfl

/-- both strains built: sort them by `.voigt` and construct — checked against the hand model for the 6 × 6 canonical strains -/
def finishOK (m d : Nat) (i j k l : Int) : Bool :=
  idx3.all fun a => idx3.all fun b => idx3.all fun c => idx3.all fun e => decide (b < a) || decide (e < c) ||
    agreeWith valToModulus (frFun (outerC4 (m + 60) d (env4 i j k l) (.ok [Strain.toVal ⟨a, b⟩, Strain.toVal ⟨c, e⟩])))
      (Modulus.sortByVoigt ⟨a, b⟩ ⟨c, e⟩)

theorem finish_d1 (m : Nat) (i j k l : Int) : finishOK m 1 i j k l = true := by kernel_rfl
theorem finish_d3 (m : Nat) (i j k l : Int) : finishOK m 3 i j k l = true := by kernel_rfl
theorem finish_d4 (m : Nat) (i j k l : Int) : finishOK m 4 i j k l = true := by kernel_rfl
theorem finish_d5 (m : Nat) (i j k l : Int) : finishOK m 5 i j k l = true := by kernel_rfl

theorem outerC4_exc (F d : Nat) (env : Env) (k : String) (a : List Val) : outerC4 F d env (.exc k a) = .exc k a := rfl
theorem frHead_exc (r : Rec) (d : Nat) (env : Env) (es : List Expr) (k : String) (a : List Val) :
    frHead r d env es (.exc k a) = .exc k a := rfl
theorem frTail_exc (v : Val) (k : String) (a : List Val) : frTail v (.exc k a) = .exc k a := rfl
theorem frHead_last (m d : Nat) (env : Env) (v : Val) : frHead (recAt (m + 1)) d env [] (.ok v) = .ok [v] := by kernel_rfl

def in3 (i j : Int) : Prop := 1 ≤ min i j ∧ max i j ≤ 3
instance (i j : Int) : Decidable (in3 i j) := by unfold in3; infer_instance

/-- **`C_.from_standard(i, j, k, l)` for ALL integers, in any context** (fuel ≥ 61, call depth `d` with the two inner calls still
below the recursion limit): RuntimeError as soon as one of the two pairs is not, after sorting, inside 1..3 -/
theorem callC4_rejects (m d : Nat) (hd : d + 1 < 60) (i j k l : Int) (h : ¬(in3 i j ∧ in3 k l)) :
    excK (callC4 (m + 61) d i j k l) = RTE' := by
  have e : callC4 (m + 61) d i j k l = frFun (bodyC4 (m + 60) (d + 1) i j k l) := by
    unfold callC4
    rw [callFun_enter (m + 60) d fdC4 MRc _ (by omega), c4_params]
    rfl
  rw [e, c4_spine1]
  obtain ⟨r1, a1⟩ := callFS_spec (m + 10) (d + 1) hd i j
  by_cases h1 : in3 i j
  · have h2 : ¬in3 k l := fun h2 => h ⟨h1, h2⟩
    rw [show m + 51 = m + 10 + 41 by omega, a1 h1, c4_spine2]
    obtain ⟨r2, _⟩ := callFS_spec (m + 9) (d + 1) hd k l
    rw [show m + 50 = m + 9 + 41 by omega, excK_eq (r2 h2), frHead_exc, frTail_exc, outerC4_exc]
    rfl
  · rw [show m + 51 = m + 10 + 41 by omega, excK_eq (r1 h1), frHead_exc, outerC4_exc]
    rfl

theorem model_fromStandard4 (i j k l : Int) : Modulus.fromStandard i j k l =
    if in3 i j ∧ in3 k l then Modulus.sortByVoigt ⟨min i j, max i j⟩ ⟨min k l, max k l⟩ else none := by
  unfold Modulus.fromStandard in3
  rw [model_fromStandard i j, model_fromStandard k l]
  by_cases h1 : 1 ≤ min i j ∧ max i j ≤ 3 <;> by_cases h2 : 1 ≤ min k l ∧ max k l ≤ 3 <;> simp [h1, h2]

/-- … and the model's key when both are (body depths 1, 3, 4, 5 = the calling contexts that exist: `C_.from_standard` directly,
`c_(i, j, k, l)`, `c_("ijkl")`, `c_(ijkl)`) -/
theorem callC4_accepts (m d : Nat) (hd : d = 0 ∨ d = 2 ∨ d = 3 ∨ d = 4) (i j k l : Int) (h : in3 i j ∧ in3 k l) :
    agreeWith valToModulus (callC4 (m + 61) d i j k l) (Modulus.fromStandard i j k l) = true := by
  have hd' : d + 1 < 60 := by omega
  have e : callC4 (m + 61) d i j k l = frFun (bodyC4 (m + 60) (d + 1) i j k l) := by
    unfold callC4
    rw [callFun_enter (m + 60) d fdC4 MRc _ (by omega), c4_params]
    rfl
  rw [e, c4_spine1, model_fromStandard4, if_pos h]
  obtain ⟨_, a1⟩ := callFS_spec (m + 10) (d + 1) hd' i j
  obtain ⟨_, a2⟩ := callFS_spec (m + 9) (d + 1) hd' k l
  rw [show m + 51 = m + 10 + 41 by omega, a1 h.1, c4_spine2, show m + 50 = m + 9 + 41 by omega, a2 h.2,
    show m + 52 = m + 51 + 1 by omega, frHead_last]
  show agreeWith valToModulus (frFun (outerC4 (m + 60) (d + 1) (env4 i j k l) (.ok [_, _]))) _ = true
  have fin : finishOK m (d + 1) i j k l = true := by
    rcases hd with rfl | rfl | rfl | rfl
    · exact finish_d1 m i j k l
    · exact finish_d3 m i j k l
    · exact finish_d4 m i j k l
    · exact finish_d5 m i j k l
  unfold in3 at h
  have q := List.all_eq_true.mp (List.all_eq_true.mp (List.all_eq_true.mp (List.all_eq_true.mp fin
    (min i j) ((mem_idx3 _).2 (by omega))) (max i j) ((mem_idx3 _).2 (by omega))) (min k l) ((mem_idx3 _).2 (by omega)))
    (max k l) ((mem_idx3 _).2 (by omega))
  simp only [Bool.or_eq_true, decide_eq_true_eq] at q
  rcases q with (q | q) | q
  · omega
  · omega
  · exact q

/-! ### the public spellings reach these calls -/

/-- the frames of `_` → `create` → (first `if` branch) → `return cls.from_…(…)` around the innermost call -/
def wrapTop (x : Result Val) : Result Val := frFun (frRet (frFun (frIf (recAt 1994) 2 [] (frRet x))))
theorem wrapTop_id (x : Result Val) : wrapTop x = x := by cases x <;> rfl

set_option maxHeartbeats 20000 in
theorem e2_spine (i j : Int) : srcCall "e_" [.int i, .int j] = wrapTop (callFS 1991 2 i j) := by kernel_rfl
set_option maxHeartbeats 20000 in
theorem fs_direct (i j : Int) : srcFun "StrainRepresentation" "from_standard" [.int i, .int j] = callFS 2000 0 i j := by kernel_rfl
set_option maxHeartbeats 20000 in
theorem c4_top_spine (i j k l : Int) : srcCall "c_" [.int i, .int j, .int k, .int l] = wrapTop (callC4 1991 2 i j k l) := by
  kernel_rfl
set_option maxHeartbeats 20000 in
theorem c4_direct (i j k l : Int) :
    srcFun "ModulusRepresentation" "from_standard" [.int i, .int j, .int k, .int l] = callC4 2000 0 i j k l := by kernel_rfl

end Cij.VoigtSrc
