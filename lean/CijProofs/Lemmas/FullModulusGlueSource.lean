/-
  C05 — `cij/core/full_modulus.py` and `Calculator._calculate_pressure_static` as translated on this run
  (`Generated/FullModulusGlue.lean`, by tools/gens/fullmodulus_src.py) against the hand-written model `CijModel/FullModulus.lean`:
  the model functions ARE the interpretation (`CijModel/FullModulusGlue.lean`) of the translated statements, for every field of
  scalars and all inputs.  Helper lemmas only; the property-level statements are the `c05_glue_is_source_*` theorems of
  Properties/C05.lean.
-/
import CijModel.FullModulusGlue
import Generated.FullModulusGlue
import Generated.FullModulusSpec
import Generated.StaticSpec
import CijProofs.Lemmas.FullModulus
import Mathlib.Tactic.Ring
import Mathlib.Tactic.FieldSimp

namespace Cij.FMGlue
open Cij Cij.LeastSq Cij.FullModulus Generated.FullModulusGlue

/-! ### the objects the theorems talk about -/

section
variable {α : Type}

/-- `[volume.volume for volume in elast_data.volumes]`: the static table's own volume column, in file order -/
def vols (C : Ctx α) : List α := C.calculator.elastData.volumes.map (·.volume)

/-- `[volume.static_elastic_modulus[key] for volume in elast_data.volumes]`: the values of one key per volume, in file order
(`none`: some volume has no such key — KeyError) -/
def columnOf (C : Ctx α) (k : Key) : Option (List α) :=
  allSomeL (C.calculator.elastData.volumes.map fun v => dictLookup v.moduli k)

/-- the instance attributes `__init__` assigns before it calls `calculate_phonon_contribution` are present -/
def Wired (attrs : Env α) : Prop :=
  lookup attrs "calculator" = some .calcObj ∧ lookup attrs "elast_data" = some .edata

end

section
variable {α : Type} [Add α] [Sub α] [Mul α] [Div α] [Neg α] [OfNat α 0] [OfNat α 1]

/-- what the model of `CijModel/FullModulus.lean` is run on, built from what the class reads: the Eulerian strains are those of
the static table's OWN volume column and of the grid, both referred to the table's first row -/
def inputsOf (C : Ctx α) (table : List (String × List α)) : Inputs α :=
  { strains := (vols C).map (C.strain (nth (vols C) 0)),
    strainArray := C.calculator.vArray.map (C.strain (nth (vols C) 0)),
    volumes := vols C,
    vArray := C.calculator.vArray,
    table := table,
    lattice := C.calculator.elastData.lattice,
    gpaFactor := C.gpa }

end

/-! ### list facts -/

section
variable {β γ : Type}

theorem allSomeL_map_some (f : β → γ) (l : List β) : allSomeL (l.map fun x => some (f x)) = some (l.map f) := by
  induction l with
  | nil => rfl
  | cons a t ih => simp [allSomeL, ih]

theorem allSomeL_length : ∀ (l : List (Option β)) (r : List β), allSomeL l = some r → r.length = l.length
  | [], r, h => by simp [allSomeL] at h; subst h; rfl
  | none :: _, r, h => by simp [allSomeL] at h
  | some x :: t, r, h => by
      simp only [allSomeL, Option.map_eq_some_iff] at h
      obtain ⟨r', hr', rfl⟩ := h
      simp [allSomeL_length t r' hr']

theorem allSomeL_congr (f g : β → Option γ) (l : List β) (h : ∀ x ∈ l, f x = g x) : allSomeL (l.map f) = allSomeL (l.map g) := by
  induction l with
  | nil => rfl
  | cons a t ih =>
      simp only [List.map_cons]
      rw [h a (by simp)]
      cases g a with
      | none => rfl
      | some y => simp only [allSomeL]; rw [ih fun x hx => h x (by simp [hx])]

end


/-! ### the three accessors -/

section
variable {α : Type} [Field α] [BEq α]

theorem find_volumes : findMethod cls "volumes" = some m_volumes := by decide
theorem find_v_array : findMethod cls "v_array" = some m_v_array := by decide
theorem find_modulus_keys : findMethod cls "modulus_keys" = some m_modulus_keys := by decide
theorem find_fit : findMethod cls "fit_modulus" = some m_fit_modulus := by decide
theorem find_static : findMethod cls "get_static_modulus" = some m_get_static_modulus := by decide
theorem find_init_strain : findMethod cls "_get_init_strain" = some m_get_init_strain := by decide
theorem find_axial : findMethod cls "get_axial_strains" = some m_get_axial_strains := by decide
theorem find_phonon : findMethod cls "calculate_phonon_contribution" = some m_calculate_phonon_contribution := by decide
theorem find_adiabatic : findMethod cls "modulus_adiabatic" = some m_modulus_adiabatic := by decide
theorem find_isothermal : findMethod cls "modulus_isothermal" = some m_modulus_isothermal := by decide
theorem find_init : findMethod cls "__init__" = some m_init := by decide

@[simp] theorem isProp_elast_data : isProp cls "elast_data" = false := by decide
@[simp] theorem isProp_calculator : isProp cls "calculator" = false := by decide
@[simp] theorem isProp_volumes : isProp cls "volumes" = true := by decide
@[simp] theorem isProp_v_array : isProp cls "v_array" = true := by decide
@[simp] theorem isProp_modulus_keys : isProp cls "modulus_keys" = true := by decide
@[simp] theorem isProp_task_list : isProp cls "_phonon_contribution_task_list" = false := by decide
@[simp] theorem isProp_adiabatic_store : isProp cls "_adiabatic_phonon_contribution" = false := by decide
@[simp] theorem isProp_isothermal_store : isProp cls "_isothermal_phonon_contribution" = false := by decide
@[simp] theorem isPure_fit : isPure cls "fit_modulus" = true := by decide
@[simp] theorem isPure_static : isPure cls "get_static_modulus" = true := by decide
@[simp] theorem isPure_axial : isPure cls "get_axial_strains" = true := by decide
@[simp] theorem isPure_init_strain : isPure cls "_get_init_strain" = true := by decide

/- from here on the name look-ups are used through the lemmas above / their equation lemmas only: `simp` must not evaluate string
comparisons by `whnf` when it inspects the discriminant of a `match` (String = ByteArray: tens of thousands of unfoldings each) -/
attribute [local irreducible] lookup isProp isPure findMethod

omit [Field α] [BEq α] in
theorem allSomeL_volAttr (l : List (ElastDat.ElastVolume α)) :
    allSomeL (l.map (volAttr "volume")) = some (l.map (·.volume)) := by
  have : (volAttr "volume" : ElastDat.ElastVolume α → Option α) = fun v => some v.volume := by
    funext v; simp [volAttr]
  rw [this]; exact allSomeL_map_some _ l

/-- `self.volumes` = the volume column of the static table, in file order -/
theorem volumes_src (C : Ctx α) (n : Nat) (attrs : Env α) (hw : Wired attrs) :
    callM cls C (n + 1) attrs "volumes" [] = some (attrs, .ar (vols C)) := by
  obtain ⟨_, h2⟩ := hw
  simp [callM, find_volumes, m_volumes, bindParams, runStmts, execStmt, evalX, X.eval, Kernel.hooks, h2, getPath, getattr,
    allSomeL_volAttr, fun1, vols]

/-- `self.v_array` = the calculator's grid -/
theorem v_array_src (C : Ctx α) (n : Nat) (attrs : Env α) (hw : Wired attrs) :
    callM cls C (n + 1) attrs "v_array" [] = some (attrs, .ar C.calculator.vArray) := by
  obtain ⟨h1, _⟩ := hw
  simp [callM, find_v_array, m_v_array, bindParams, runStmts, execStmt, evalX, X.eval, Kernel.hooks, h1, getPath, getattr]

/-- `self.modulus_keys` = the calculator's key list -/
theorem modulus_keys_src (C : Ctx α) (n : Nat) (attrs : Env α) (hw : Wired attrs) :
    callM cls C (n + 1) attrs "modulus_keys" [] = some (attrs, .keys C.calculator.modulusKeys) := by
  obtain ⟨h1, _⟩ := hw
  simp [callM, find_modulus_keys, m_modulus_keys, bindParams, runStmts, execStmt, evalX, X.eval, Kernel.hooks, h1, getPath, getattr]

/-! ### `fit_modulus` -/

omit [BEq α] in
theorem pyIndex_zero (l : List α) (h : l ≠ []) : pyIndex l 0 = some (nth l 0) := by
  cases l with
  | nil => exact absurd rfl h
  | cons a t => simp [pyIndex, nth]

/-- the environment `fit_modulus` runs in -/
theorem fit_body (C : Ctx α) (n : Nat) (attrs : Env α) (hw : Wired attrs) (table : List (String × List α)) (m : List α) (k : Nat)
    (hv : vols C ≠ []) (hm : m.length = (vols C).length) :
    runStmts C ⟨isProp cls, isPure cls, callM cls C (n + 1)⟩ ⟨attrs, [("moduli", .ar m), ("order", .nat k)]⟩ m_fit_modulus.body
      = (fitModulus (inputsOf C table) m k).map fun r => (attrs, .ar r) := by
  have hzip : zipSame (fun p q : α => p * q) (vols C) m = some (List.zipWith (fun v c => v * c) (vols C) m) := by
    simp [zipSame, hm]
  cases hp : polyfit ((vols C).map (C.strain (nth (vols C) 0))) (List.zipWith (fun v c => v * c) (vols C) m) (k + 1) with
  | none =>
      simp [m_fit_modulus, runStmts, execStmt, evalX, X.eval, Kernel.hooks, volumes_src C n attrs hw, v_array_src C n attrs hw,
        pyIndex_zero _ hv, fun2, fun3, bin, hzip, lookup, fitModulus, inputsOf, hp, getPath]
  | some p =>
      simp [m_fit_modulus, runStmts, execStmt, evalX, X.eval, Kernel.hooks, volumes_src C n attrs hw, v_array_src C n attrs hw,
        pyIndex_zero _ hv, fun2, fun3, bin, lookup, fitModulus, inputsOf, hp, zipSame, hm.symm, List.zipWith_map_left, getPath]

/-- **`fit_modulus(moduli, order)`** as translated = the model's `fitModulus` on the inputs the class reads -/
theorem fit_src (C : Ctx α) (n : Nat) (attrs : Env α) (hw : Wired attrs) (table : List (String × List α)) (m : List α) (k : Nat)
    (hv : vols C ≠ []) (hm : m.length = (vols C).length) :
    callM cls C (n + 2) attrs "fit_modulus" [.ar m, .nat k]
      = (fitModulus (inputsOf C table) m k).map fun r => (attrs, .ar r) := by
  rw [callM, find_fit]
  exact fit_body C n attrs hw table m k hv hm

/-- … with the default order of the source = the model's default -/
theorem fit_default_src (C : Ctx α) (n : Nat) (attrs : Env α) (hw : Wired attrs) (table : List (String × List α)) (m : List α)
    (hv : vols C ≠ []) (hm : m.length = (vols C).length) :
    callM cls C (n + 2) attrs "fit_modulus" [.ar m]
      = (fitModulus (inputsOf C table) m).map fun r => (attrs, .ar r) := by
  rw [callM, find_fit]
  exact fit_body C n attrs hw table m 2 hv hm

/-! ### `get_static_modulus` -/

omit [Field α] [BEq α] in
theorem columnOf_length (C : Ctx α) (key : Key) (col : List α) (h : columnOf C key = some col) : col.length = (vols C).length := by
  have := allSomeL_length _ _ h
  simpa [vols] using this

/-- **`get_static_modulus(key)`** as translated: the values of `key` per volume in file order, times the GPa factor, through
`fit_modulus` with its default order -/
theorem static_src (C : Ctx α) (n : Nat) (attrs : Env α) (hw : Wired attrs) (table : List (String × List α)) (key : Key)
    (hv : vols C ≠ []) :
    callM cls C (n + 3) attrs "get_static_modulus" [.key key]
      = ((columnOf C key).bind fun col => fitModulus (inputsOf C table) (fromGpa C.gpa col)).map fun r => (attrs, .ar r) := by
  obtain ⟨h1, h2⟩ := hw
  rw [callM, find_static]
  cases hc : columnOf C key with
  | none =>
      unfold columnOf at hc
      simp [m_get_static_modulus, bindParams, runStmts, execStmt, evalX, X.eval, Kernel.hooks, h2, getPath, getattr, lookup, hc]
  | some col =>
      have hl : (fromGpa C.gpa col).length = (vols C).length := by
        simp [fromGpa, columnOf_length C key col hc]
      have hfit := fit_default_src C n attrs ⟨h1, h2⟩ table (fromGpa C.gpa col) hv hl
      unfold columnOf at hc
      unfold fromGpa at hfit
      cases hf : fitModulus (inputsOf C table) (fromGpa C.gpa col) with
      | none =>
          unfold fromGpa at hf
          rw [hf] at hfit
          simp [m_get_static_modulus, bindParams, runStmts, execStmt, evalX, X.eval, Kernel.hooks, h2, getPath, getattr, lookup, hc,
            fun1, hfit, fromGpa, hf]
      | some r =>
          unfold fromGpa at hf
          rw [hf] at hfit
          simp [m_get_static_modulus, bindParams, runStmts, execStmt, evalX, X.eval, Kernel.hooks, h2, getPath, getattr, lookup, hc,
            fun1, hfit, fromGpa, hf]

/-! ### `_get_init_strain` -/

/-- the configuration has the two nested mappings `elast` / `settings` -/
def HasElastSettings (C : Ctx α) : Prop :=
  C.calculator.cfgLeaf ["elast"] = none ∧ C.calculator.cfgSection ["elast"] = true ∧
  C.calculator.cfgLeaf ["elast", "settings"] = none ∧ C.calculator.cfgSection ["elast", "settings"] = true

/-- without an `init_strain` entry (the schema of settings files allows none: `additionalProperties: false`): equal thirds -/
theorem init_strain_absent_src (C : Ctx α) (n : Nat) (attrs : Env α) (hw : Wired attrs) (hc : HasElastSettings C)
    (h1 : C.calculator.cfgLeaf ["elast", "settings", "init_strain"] = none)
    (h2 : C.calculator.cfgSection ["elast", "settings", "init_strain"] = false) :
    callM cls C (n + 1) attrs "_get_init_strain" [] = some (attrs, .ar [1 / 3, 1 / 3, 1 / 3]) := by
  obtain ⟨hcalc, _⟩ := hw
  obtain ⟨a, b, c, d⟩ := hc
  simp [callM, find_init_strain, m_get_init_strain, bindParams, runStmts, execStmt, evalX, X.eval, Kernel.hooks, hcalc, getPath,
    getattr, a, b, c, d, h1, h2, bin]

/-- with an entry: the entry divided by its sum (ZeroDivisionError when the sum is 0) -/
theorem init_strain_present_src (C : Ctx α) (n : Nat) (attrs : Env α) (hw : Wired attrs) (hc : HasElastSettings C) (l : List α)
    (h1 : C.calculator.cfgLeaf ["elast", "settings", "init_strain"] = some l) :
    callM cls C (n + 1) attrs "_get_init_strain" []
      = if pySum l == 0 then none else some (attrs, .ar (l.map fun x => x / pySum l)) := by
  obtain ⟨hcalc, _⟩ := hw
  obtain ⟨a, b, c, d⟩ := hc
  by_cases hz : (pySum l == 0) = true <;>
  simp [callM, find_init_strain, m_get_init_strain, bindParams, runStmts, execStmt, evalX, X.eval, Kernel.hooks, hcalc, getPath,
    getattr, a, b, c, d, h1, fun1, hz]

/-! ### `get_axial_strains` -/

/-- one column of the raw strain matrix in the model's `getAxialStrains` (axis `i`) -/
def axCol (inp : Inputs α) (i : Nat) : Option (List α) :=
  (fitModulus inp (inp.lattice.map fun row => nth row i)).map fun params =>
    let tmp := nth params 0 :: (params ++ [nth params (params.length - 1)])
    (List.range inp.vArray.length).map fun k => (nth tmp (k + 2) - nth tmp k) / (nth tmp (k + 2) + nth tmp k)

omit [BEq α] in
theorem nth_eq_getElem (l : List α) (i : Nat) (h : i < l.length) : nth l i = l[i] := by
  unfold nth
  rw [List.getD_eq_getElem _ _ h]

omit [BEq α] in
/-- `(tmp[2:] - tmp[:-2]) / (tmp[2:] + tmp[:-2])` entry by entry -/
theorem edge_lists (t : List α) (n : Nat) (ht : t.length = n + 2) :
    List.zipWith (fun p q => p / q) (List.zipWith (fun p q => p - q) (t.drop 2) (t.take (t.length - 2)))
        (List.zipWith (fun p q => p + q) (t.drop 2) (t.take (t.length - 2)))
      = (List.range n).map fun k => (nth t (k + 2) - nth t k) / (nth t (k + 2) + nth t k) := by
  apply List.ext_getElem
  · simp [ht]
  · intro i h1 h2
    have hi : i < n := by simpa using h2
    simp [nth_eq_getElem t (i + 2) (by omega), nth_eq_getElem t i (by omega), Nat.add_comm]

omit [BEq α] in
theorem head_getLast (p : List α) (h : p ≠ []) : p.head? = some (nth p 0) ∧ p.getLast? = some (nth p (p.length - 1)) := by
  constructor
  · cases p with
    | nil => exact absurd rfl h
    | cons a t => simp [nth]
  · rw [List.getLast?_eq_getElem?]
    have : p.length - 1 < p.length := by
      cases p with
      | nil => exact absurd rfl h
      | cons a t => simp
    rw [List.getElem?_eq_getElem this, nth_eq_getElem p _ this]

theorem fitModulus_length (inp : Inputs α) (m r : List α) (k : Nat) (h : fitModulus inp m k = some r) :
    r.length = min inp.strainArray.length inp.vArray.length := by
  unfold fitModulus at h
  simp only [bind, Option.bind_eq_some_iff, pure, Option.some.injEq] at h
  obtain ⟨p, _, rfl⟩ := h
  simp

omit [BEq α] in
/-- writing one column into a matrix given row by row -/
theorem setCol_rows (f : Nat → List α) (n i : Nat) (col : List α) (hcol : col.length = n) (hi : ∀ k, i < (f k).length) :
    setCol ((List.range n).map f) i col = some ((List.range n).map fun k => (f k).set i (nth col k)) := by
  unfold setCol
  rw [if_pos]
  · congr 1
    apply List.ext_getElem
    · simp [hcol]
    · intro k h1 h2
      have hk : k < n := by simpa using h2
      simp [nth_eq_getElem col k (by omega)]
  · constructor
    · simp [hcol]
    · simp [hi]

omit [Field α] [BEq α] in
theorem replicate_eq_range_map (n : Nat) (row : List α) : List.replicate n row = (List.range n).map fun _ => row := by
  apply List.ext_getElem <;> simp

end

end Cij.FMGlue
