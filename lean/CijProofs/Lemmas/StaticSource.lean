/-
  C18 — the block functions of `CijModel/Static.lean` ARE the blocks of `cij/cli/static.py::main` as the translator reads them on
  this run (`Generated/StaticSpec.lean`, from tools/gens/static_src.py), interpreted by `CijModel/StaticExpr.lean`.
  Every statement is for an arbitrary scalar type (no laws are used: both sides are the same term after unfolding the
  interpreter on the generated trees and a few list identities), hence also for the `Float` run of the driver.
-/
import CijModel.StaticExpr
import CijModel.StaticDefaults
import Generated.StaticSpec
import CijProofs.Lemmas.Static

set_option linter.unusedSectionVars false

namespace Cij.StaticSrc
open Cij Cij.Static

@[simp] theorem map_ar_bind_toAr {α : Type} (o : Option (List α)) : (o.map Val.ar).bind Val.toAr = o := by
  cases o <;> rfl

theorem map_ar_bind_toAr_bind {α β : Type} (o : Option (List α)) (k : List α → Option β) :
    ((o.map Val.ar).bind fun y => y.toAr.bind k) = o.bind k := by
  cases o <;> rfl

/-- the `k`-th block of `main` in source order -/
def blk (k : Nat) : Block := Generated.staticBlocks.getD k default

section
variable {α : Type} [Add α] [Sub α] [Mul α] [Div α] [Neg α] [OfNat α 0] [OfNat α 1] [NatCast α]
  [LE α] [DecidableLE α] [LT α] [DecidableLT α] [BEq α]

/-! ### evaluation rules on known values (so that the interpreter can be unfolded without case explosion) -/

@[simp] theorem toAr_ar (l : List α) : (Val.ar l).toAr = some l := rfl
@[simp] theorem toAr_sc (a : α) : (Val.sc a).toAr = none := rfl
@[simp] theorem toAr_nat (n : Nat) : (Val.nat n : Val α).toAr = none := rfl
@[simp] theorem toSc_sc (a : α) : (Val.sc a).toSc = some a := rfl
@[simp] theorem toSc_nat (n : Nat) : (Val.nat n : Val α).toSc = some (n : α) := rfl
@[simp] theorem toSc_ar (l : List α) : (Val.ar l).toSc = none := rfl
@[simp] theorem toNat_nat (n : Nat) : (Val.nat n : Val α).toNat = some n := rfl
@[simp] theorem toNat_sc (a : α) : (Val.sc a).toNat = none := rfl
@[simp] theorem toNat_ar (l : List α) : (Val.ar l).toNat = none := rfl
@[simp] theorem map1_nat (f : α → α) (n : Nat) : Val.map1 f (.nat n) = .sc (f (n : α)) := rfl
@[simp] theorem map1_sc (f : α → α) (a : α) : Val.map1 f (.sc a) = .sc (f a) := rfl
@[simp] theorem map1_ar (f : α → α) (l : List α) : Val.map1 f (.ar l) = .ar (l.map f) := rfl
@[simp] theorem bin_nat_nat_some (f : α → α → α) (g : Nat → Nat → Nat) (a b : Nat) :
    Val.bin f (some g) (.nat a) (.nat b) = .nat (g a b) := rfl
@[simp] theorem bin_nat_nat_none (f : α → α → α) (a b : Nat) :
    Val.bin f none (.nat a) (.nat b) = .sc (f (a : α) (b : α)) := rfl
@[simp] theorem bin_nat_sc (f : α → α → α) (g) (a : Nat) (b : α) : Val.bin f g (.nat a) (.sc b) = .sc (f (a : α) b) := rfl
@[simp] theorem bin_nat_ar (f : α → α → α) (g) (a : Nat) (l : List α) :
    Val.bin f g (.nat a) (.ar l) = .ar (l.map fun x => f (a : α) x) := rfl
@[simp] theorem bin_sc_nat (f : α → α → α) (g) (a : α) (b : Nat) : Val.bin f g (.sc a) (.nat b) = .sc (f a (b : α)) := rfl
@[simp] theorem bin_sc_sc (f : α → α → α) (g) (a b : α) : Val.bin f g (.sc a) (.sc b) = .sc (f a b) := rfl
@[simp] theorem bin_sc_ar (f : α → α → α) (g) (a : α) (l : List α) :
    Val.bin f g (.sc a) (.ar l) = .ar (l.map fun x => f a x) := rfl
@[simp] theorem bin_ar_nat (f : α → α → α) (g) (l : List α) (b : Nat) :
    Val.bin f g (.ar l) (.nat b) = .ar (l.map fun x => f x (b : α)) := rfl
@[simp] theorem bin_ar_sc (f : α → α → α) (g) (l : List α) (b : α) :
    Val.bin f g (.ar l) (.sc b) = .ar (l.map fun x => f x b) := rfl
@[simp] theorem bin_ar_ar (f : α → α → α) (g) (l m : List α) :
    Val.bin f g (.ar l) (.ar m) = .ar (List.zipWith f l m) := rfl

theorem lookup_cons {β : Type} (k : String) (v : β) (r : List (String × β)) (n : String) :
    lookup ((k, v) :: r) n = if k = n then some v else lookup r n := rfl

end

section
variable {α : Type} [Add α] [Sub α] [Mul α] [Div α] [Neg α] [OfNat α 0] [OfNat α 1] [NatCast α]
  [LE α] [DecidableLE α] [LT α] [DecidableLT α] [BEq α]

theorem execStmts_nil (I : Inp α) (st : St α) : execStmts I [] st = some st := rfl

theorem execStmts_cons (I : Inp α) (s : Stmt) (r : List Stmt) (st : St α) :
    execStmts I (s :: r) st = (execStmt I st s).bind (execStmts I r) := rfl

theorem step_some {I : Inp α} {s : Stmt} {r : List Stmt} {st st' : St α} (h : execStmt I st s = some st') :
    execStmts I (s :: r) st = execStmts I r st' := by rw [execStmts_cons, h]; rfl

theorem step_none {I : Inp α} {s : Stmt} {r : List Stmt} {st : St α} (h : execStmt I st s = none) :
    execStmts I (s :: r) st = none := by rw [execStmts_cons, h]; rfl

theorem execBlock_eq (I : Inp α) (st : St α) (b : Block) :
    execBlock I st b = if guardHolds I st b.guard then execStmts I b.body st else some st := rfl

end

/-- unfold the interpreter on a generated block (hypotheses of the context are used as rewrite rules) -/
macro "src_simp" : tactic => `(tactic| simp only [blk, Generated.staticBlocks, List.getD_cons_zero, List.getD_cons_succ,
  execBlock, guardHolds, List.all_nil, List.all_cons, execStmts, execStmt, eval, lookup_cons, optVal, unitFactor,
  toAr_ar, toAr_sc, toAr_nat, toSc_sc, toSc_nat, toSc_ar, toNat_nat, toNat_sc, toNat_ar, map1_nat, map1_sc, map1_ar,
  bin_nat_nat_some, bin_nat_nat_none, bin_nat_sc, bin_nat_ar, bin_sc_nat, bin_sc_sc, bin_sc_ar, bin_ar_nat, bin_ar_sc,
  bin_ar_ar, Option.bind_some, Option.bind_none, Option.map_some, Option.map_none, Option.pure_def, Option.bind_eq_bind,
  if_true, if_false, String.reduceEq, getCol_cons, getCol_nil, Bool.and_true, Bool.true_and, reduceCtorEq, List.getElem?_cons_zero, ↓reduceIte, getCol_setCol_self, getCol_setCol_ne,
  ne_eq, not_false_eq_true, *])

/-- unfold the model side with the same case hypotheses -/
macro "model_simp" "[" ls:Lean.Parser.Tactic.simpLemma,* "]" : tactic => `(tactic| simp only [execStmts_nil, bind, pure,
  Option.bind_some, Option.bind_none, Option.map_some, Option.map_none, Option.bind_eq_bind, Option.pure_def,
  $ls,*, *])

/-- run the statements of a block one at a time on a known state -/
macro "src_step" : tactic => `(tactic| first
  | refine Eq.trans (step_some (by src_simp <;> rfl)) ?_
  | refine Eq.trans (step_none (by src_simp)) ?_)
macro "src_run" : tactic => `(tactic| repeat src_step)

section
variable {α : Type} [Add α] [Sub α] [Mul α] [Div α] [Neg α] [OfNat α 0] [OfNat α 1] [NatCast α]
  [LE α] [DecidableLE α] [LT α] [DecidableLT α] [BEq α]

/-! ### the two helper functions -/

theorem fitModulus_is_source (I : Inp α) (vols vArr mod : List α) (order : Nat) :
    fitModulus I.fit I.E vols vArr mod order
      = (callFun I Generated.staticFitModulus [.ar vols, .ar vArr, .ar mod, .nat order]).bind Val.toAr := by
  cases vols <;>
    simp [fitModulus, callFun, callFun.bind, Generated.staticFitModulus, eval, lookup, Val.toAr, Val.toSc, Val.toNat]

/-- the default `order=2` of the source is the default of the model's `fitModulus` -/
theorem fitModulus_default_is_source (I : Inp α) (vols vArr mod : List α) :
    fitModulus I.fit I.E vols vArr mod
      = (callFun I Generated.staticFitModulus [.ar vols, .ar vArr, .ar mod]).bind Val.toAr := by
  cases vols <;>
    simp [fitModulus, callFun, callFun.bind, Generated.staticFitModulus, eval, lookup, Val.toAr, Val.toSc, Val.toNat]

theorem v2p1d_eq_v2pRow0 (x p pn : List α) : v2p1d x p pn = v2pRow0 x.reverse p.reverse pn := rfl

theorem v2p1d_is_source (I : Inp α) (x p pn : List α) :
    v2p1d x p pn = (callFun I Generated.staticV2p1d [.ar x, .ar p, .ar pn]).bind Val.toAr := by
  simp [v2p1d_eq_v2pRow0, callFun, callFun.bind, Generated.staticV2p1d, eval, lookup]

/-! ### blocks 0-2: reading the files, the frame of INPUT01, the EoS arrays -/

/-- the state after the EoS block: the frame of INPUT01 and the five locals -/
def stEos (st : St α) (ve : List α × List α) (e : Eos α) : St α :=
  { st with df := [("V", ve.1), ("F", ve.2)], index := none,
            loc := ("p_array", .ar e.pArray) :: ("f_array", .ar e.fArray) :: ("energies", .ar ve.2)
                   :: ("v_array", .ar e.vArray) :: ("volumes", .ar ve.1) :: st.loc }

theorem read_blocks_are_source (I : Inp α) (st : St α) :
    execBlock I st (blk 0) = some st ∧ execBlock I st (blk 1) = some st := by
  constructor
  · src_simp
  · src_simp
    simp

/-- the five assignments after the frame: `volumes`, `v_array`, `energies`, `f_array`, `p_array` -/
theorem eos_stmts_are_source (I : Inp α) (st : St α) (vols ens : List α) (hdf : st.df = [("V", vols), ("F", ens)]) :
    execStmts I ((blk 2).body.drop 1) st = (eos I.fit I.E I.o.vRatio I.o.ntv vols ens).map fun e =>
      { st with loc := ("p_array", .ar e.pArray) :: ("f_array", .ar e.fArray) :: ("energies", .ar ens)
                        :: ("v_array", .ar e.vArray) :: ("volumes", .ar vols) :: st.loc } := by
  have hV : getCol st.df "V" = some vols := by rw [hdf]; rfl
  have hF : getCol st.df "F" = some ens := by rw [hdf]; rfl
  simp only [blk, Generated.staticBlocks, List.getD_cons_zero, List.getD_cons_succ, List.drop_succ_cons, List.drop_zero]
  cases vols with
  | nil =>
    have hlo : V2P.listMin ([] : List α) = none := rfl
    src_run
    simp [eos, hlo]
  | cons v0 vs =>
    cases hlo : V2P.listMin (v0 :: vs) with
    | none => src_run; simp [eos, hlo]
    | some lo =>
    cases hhi : V2P.listMax (v0 :: vs) with
    | none => src_run; simp [eos, hlo, hhi]
    | some hi =>
    cases hfit : I.fit (List.map (I.E.strain v0) (v0 :: vs)) ens
        (List.map (I.E.strain v0) (linspace (lo / I.o.vRatio) (hi * I.o.vRatio) I.o.ntv)) 2 with
    | none => src_run; model_simp [eos, fitModulus]
    | some fA =>
    cases hgf : FullModulus.gradient fA with
    | none => src_run; model_simp [eos, fitModulus]
    | some gf =>
    cases hgv : FullModulus.gradient (linspace (lo / I.o.vRatio) (hi * I.o.vRatio) I.o.ntv) with
    | none => src_run; model_simp [eos, fitModulus]
    | some gv =>
      src_run
      model_simp [eos, fitModulus, List.zipWith_map_left]

theorem execStmts_append (I : Inp α) (a b : List Stmt) (st : St α) :
    execStmts I (a ++ b) st = (execStmts I a st).bind (execStmts I b) := by
  induction a generalizing st with
  | nil => rfl
  | cons s r ih =>
    rw [List.cons_append, execStmts_cons, execStmts_cons, Option.bind_assoc]
    cases execStmt I st s with
    | none => rfl
    | some st' => exact ih st'

/-- `df = DataFrame(index=range(input01.nv))`, `df.loc[i, "V"] = input01.volumes[i].volume`, `… "F" … .energy` -/
theorem frame_stmt_is_source (I : Inp α) (st : St α) :
    execStmts I ((blk 2).body.take 1) st = (input01Columns I.d1).map fun ve =>
      { st with df := [("V", ve.1), ("F", ve.2)], index := none } := by
  simp only [blk, Generated.staticBlocks, List.getD_cons_zero, List.getD_cons_succ, List.take_succ_cons, List.take_zero]
  by_cases h : I.d1.volumes.length < I.d1.nv
  · src_run
    simp [input01Columns, h]
  · have hn : (I.d1.volumes.length < I.d1.nv) = False := eq_false h
    refine Eq.trans (step_some (by
      src_simp
      simp only [attrOf, List.map_cons, List.map_nil, allSome, Option.map_some]
      rfl)) ?_
    simp [input01Columns, h, execStmts_nil]

/-- block 2 (unguarded): the frame of INPUT01 and the EoS arrays -/
theorem eos_block_is_source (I : Inp α) (st : St α) :
    execBlock I st (blk 2) = (input01Columns I.d1).bind fun ve =>
      (eos I.fit I.E I.o.vRatio I.o.ntv ve.1 ve.2).map (stEos st ve) := by
  have hg : guardHolds I st (blk 2).guard = true := by
    simp [blk, Generated.staticBlocks, guardHolds]
  rw [execBlock_eq, hg, if_pos rfl, ← List.take_append_drop 1 (blk 2).body, execStmts_append, frame_stmt_is_source]
  cases input01Columns I.d1 with
  | none => rfl
  | some ve =>
    simp only [Option.map_some, Option.bind_some]
    rw [eos_stmts_are_source I _ ve.1 ve.2 rfl]
    rfl

/-! ### blocks 3-6: the three `interp` branches and `v_array = df.loc[:, "V"]` -/

theorem interp_guards (I : Inp α) (st : St α) :
    guardHolds I st (blk 3).guard = (I.o.interp == .none) ∧
    guardHolds I st (blk 4).guard = (I.o.interp == .volume) ∧
    guardHolds I st (blk 5).guard = (I.o.interp == .pressure) := by
  cases h : I.o.interp <;>
    simp [blk, Generated.staticBlocks, guardHolds, Atom.holds, interpName, h]

/-- a block whose guard fails is skipped -/
theorem execBlock_skip (I : Inp α) (st : St α) (b : Block) (h : guardHolds I st b.guard = false) :
    execBlock I st b = some st := by rw [execBlock_eq, h]; rfl

theorem execBlock_run (I : Inp α) (st : St α) (b : Block) (h : guardHolds I st b.guard = true) :
    execBlock I st b = execStmts I b.body st := by rw [execBlock_eq, h]; rfl

/-- mode none: `df.loc[:, "P"] = InterpolatedUnivariateSpline(v_array, p_array)(volumes)` -/
theorem none_block_is_source (I : Inp α) (st : St α) (vA pA vols : List α) (hi : I.o.interp = .none)
    (h1 : lookup st.loc "v_array" = some (.ar vA)) (h2 : lookup st.loc "p_array" = some (.ar pA))
    (h3 : lookup st.loc "volumes" = some (.ar vols)) :
    execBlock I st (blk 3) = some { st with df := setCol st.df "P" (I.E.spline vA pA vols) } := by
  rw [execBlock_run _ _ _ (by rw [(interp_guards I st).1, hi]; rfl)]
  simp only [blk, Generated.staticBlocks, List.getD_cons_zero, List.getD_cons_succ]
  src_run
  exact execStmts_nil _ _

/-- mode volume: a new frame of `ntv` rows with `V, F, P = v_array, f_array, p_array` -/
theorem volume_block_is_source (I : Inp α) (st : St α) (vA fA pA : List α) (hi : I.o.interp = .volume)
    (h1 : lookup st.loc "v_array" = some (.ar vA)) (h2 : lookup st.loc "f_array" = some (.ar fA))
    (h3 : lookup st.loc "p_array" = some (.ar pA)) :
    execBlock I st (blk 4) = some { st with df := [("V", vA), ("F", fA), ("P", pA)], index := none } := by
  rw [execBlock_run _ _ _ (by rw [(interp_guards I st).2.1, hi]; rfl)]
  simp only [blk, Generated.staticBlocks, List.getD_cons_zero, List.getD_cons_succ]
  src_run
  simp [execStmts_nil, setCol]

/-- mode pressure: `_p_array = linspace(_from_gpa(p_min), _from_gpa(p_min + delta_p * (ntv - 1)), ntv)`, `V` and `F` by the
    same `v2p1d` with the same pressures, a new frame of `ntv` rows -/
theorem pressure_block_is_source (I : Inp α) (st : St α) (vA fA pA : List α) (hi : I.o.interp = .pressure)
    (h1 : lookup st.loc "v_array" = some (.ar vA)) (h2 : lookup st.loc "f_array" = some (.ar fA))
    (h3 : lookup st.loc "p_array" = some (.ar pA)) :
    execBlock I st (blk 5) =
      (v2p1d vA pA (requestedPressures I.U I.o)).bind fun v => (v2p1d fA pA (requestedPressures I.U I.o)).map fun f =>
        { st with df := [("V", v), ("F", f), ("P", requestedPressures I.U I.o)], index := none,
                  loc := ("_f_array", .ar f) :: ("_v_array", .ar v) :: ("_p_array", .ar (requestedPressures I.U I.o))
                         :: st.loc } := by
  rw [execBlock_run _ _ _ (by rw [(interp_guards I st).2.2, hi]; rfl)]
  simp only [blk, Generated.staticBlocks, List.getD_cons_zero, List.getD_cons_succ]
  have hp : linspace (I.o.pMin * I.U.fromGpa) ((I.o.pMin + I.o.deltaP * ((I.o.ntv - 1 : Nat) : α)) * I.U.fromGpa) I.o.ntv
      = requestedPressures I.U I.o := rfl
  cases hv : v2p1d vA pA (requestedPressures I.U I.o) with
  | none =>
    rw [v2p1d_eq_v2pRow0] at hv
    src_run
    rfl
  | some v =>
  cases hf : v2p1d fA pA (requestedPressures I.U I.o) with
  | none =>
    rw [v2p1d_eq_v2pRow0] at hv hf
    src_run
    rfl
  | some f =>
    rw [v2p1d_eq_v2pRow0] at hv hf
    src_run
    simp [execStmts_nil, setCol]

/-- block 6 (unguarded): `v_array = df.loc[:, "V"].to_numpy()` — the row volumes of the table being printed -/
theorem rowvolume_block_is_source (I : Inp α) (st : St α) (v : List α) (hV : getCol st.df "V" = some v) :
    execBlock I st (blk 6) = some { st with loc := ("v_array", .ar v) :: st.loc } := by
  rw [execBlock_run _ _ _ (by simp [blk, Generated.staticBlocks, guardHolds])]
  simp only [blk, Generated.staticBlocks, List.getD_cons_zero, List.getD_cons_succ]
  src_run
  exact execStmts_nil _ _

/-- the state after the mode blocks: the frame is `V, F, P` of the mode, `v_array` is its `V` column -/
def stMode (st : St α) (ve : List α × List α) (e : Eos α) (interp : Interp) (x : VFP α) : St α :=
  { stEos st ve e with
    df := x.table,
    loc := ("v_array", .ar x.v) ::
      ((match interp with
        | .pressure => [("_f_array", Val.ar x.f), ("_v_array", Val.ar x.v), ("_p_array", Val.ar x.p)]
        | _ => []) ++ (stEos st ve e).loc) }

/-- blocks 3-6 after the EoS block = `modeTable` -/
theorem mode_blocks_are_source (I : Inp α) (st : St α) (ve : List α × List α) (e : Eos α) :
    execBlocks I [blk 3, blk 4, blk 5, blk 6] (stEos st ve e)
      = (modeTable I.E I.U I.o ve.1 ve.2 e).map (stMode st ve e I.o.interp) := by
  have sk : ∀ (s : St α) (b : Block) (h : guardHolds I s b.guard = false), execBlock I s b = some s :=
    fun s b h => execBlock_skip I s b h
  cases hi : I.o.interp with
  | none =>
    have g4 : ∀ s : St α, guardHolds I s (blk 4).guard = false := fun s => by rw [(interp_guards I s).2.1, hi]; rfl
    have g5 : ∀ s : St α, guardHolds I s (blk 5).guard = false := fun s => by rw [(interp_guards I s).2.2, hi]; rfl
    simp only [execBlocks, Option.bind_some]
    rw [none_block_is_source I _ e.vArray e.pArray ve.1 hi rfl rfl rfl]
    simp only [Option.bind_some, sk _ _ (g4 _), sk _ _ (g5 _)]
    rw [rowvolume_block_is_source I _ ve.1 rfl]
    simp [modeTable, hi, stMode, stEos, VFP.table, setCol]
  | volume =>
    have g3 : ∀ s : St α, guardHolds I s (blk 3).guard = false := fun s => by rw [(interp_guards I s).1, hi]; rfl
    have g5 : ∀ s : St α, guardHolds I s (blk 5).guard = false := fun s => by rw [(interp_guards I s).2.2, hi]; rfl
    simp only [execBlocks, Option.bind_some, sk _ _ (g3 _)]
    rw [volume_block_is_source I _ e.vArray e.fArray e.pArray hi rfl rfl rfl]
    simp only [Option.bind_some, sk _ _ (g5 _)]
    rw [rowvolume_block_is_source I _ e.vArray rfl]
    simp [modeTable, hi, stMode, stEos, VFP.table]
  | pressure =>
    have g3 : ∀ s : St α, guardHolds I s (blk 3).guard = false := fun s => by rw [(interp_guards I s).1, hi]; rfl
    have g4 : ∀ s : St α, guardHolds I s (blk 4).guard = false := fun s => by rw [(interp_guards I s).2.1, hi]; rfl
    simp only [execBlocks, Option.bind_some, sk _ _ (g3 _), sk _ _ (g4 _)]
    rw [pressure_block_is_source I _ e.vArray e.fArray e.pArray hi rfl rfl rfl]
    simp only [modeTable, hi]
    cases hv : v2p1d e.vArray e.pArray (requestedPressures I.U I.o) with
    | none => rfl
    | some v =>
    cases hf : v2p1d e.fArray e.pArray (requestedPressures I.U I.o) with
    | none => rfl
    | some f =>
      simp only [Option.bind_some, Option.map_some]
      rw [rowvolume_block_is_source I _ v rfl]
      simp [stMode, stEos, VFP.table]

/-! ### block 7: density from the header of INPUT02, the per-key fit -/

theorem input02_guard (I : Inp α) (st : St α) (k : Nat) (hk : k = 7 ∨ k = 11 ∨ k = 14) :
    guardHolds I st (blk k).guard = I.d2.isSome := by
  rcases hk with rfl | rfl | rfl <;> simp [blk, Generated.staticBlocks, guardHolds, Atom.holds]

theorem moduli_block_is_source (I : Inp α) (st : St α) (rowV v : List α)
    (hv : lookup st.loc "v_array" = some (.ar rowV)) (hV : getCol st.df "V" = some v) :
    execBlock I st (blk 7) = match I.d2 with
      | none => some st
      | some d => (moduliColumns I.fit I.E d rowV).map fun cols =>
          { st with df := cols.foldl (fun t c => setCol t c.1 c.2)
                            (setCol st.df "density" (v.map fun x => d.cellmass / x)) } := by
  cases hd : I.d2 with
  | none => exact execBlock_skip _ _ _ (by rw [input02_guard I st 7 (Or.inl rfl), hd]; rfl)
  | some d =>
    rw [execBlock_run _ _ _ (by rw [input02_guard I st 7 (Or.inl rfl), hd]; rfl)]
    simp only [blk, Generated.staticBlocks, List.getD_cons_zero, List.getD_cons_succ]
    refine Eq.trans (step_some (by src_simp <;> rfl)) ?_
    rw [execStmts_cons]
    simp only [execStmt, hd, Option.bind_some, bind, pure]
    cases hvol : d.volumes with
    | nil => simp [moduliColumns, hvol]
    | cons v0 vr =>
      simp only [List.head?_cons, Option.bind_some, moduliColumns, hvol, Option.bind_assoc, execStmts_nil,
        Option.map_eq_bind, Function.comp_def]
      congr 3
      funext kv
      cases h1 : ElastDat.canonName kv.1 with
      | none => rfl
      | some name =>
      cases h2 : keyValues d kv.1 with
      | none => rfl
      | some vals =>
        src_simp
        simp only [hvol, List.map_cons, List.getElem?_cons_zero, Option.map_some, Option.bind_some, toSc_sc, toAr_ar,
          fitModulus, map_ar_bind_toAr_bind]

/-- … in the situation of the pipeline (frame = the mode columns, `v_array` = its `V`) block 7 is `addModuli` -/
theorem moduli_block_eq_addModuli (I : Inp α) (st : St α) (x : VFP α) (hdf : st.df = x.table)
    (hv : lookup st.loc "v_array" = some (.ar x.v)) :
    execBlock I st (blk 7) = (addModuli I.fit I.E I.d2 x).map fun t => { st with df := t } := by
  rw [moduli_block_is_source I st x.v x.v hv (by rw [hdf]; rfl)]
  cases hd : I.d2 with
  | none =>
    simp only [addModuli, Option.map_some, ← hdf]
  | some d =>
    simp only [addModuli, bind, pure, hdf]
    cases moduliColumns I.fit I.E d x.v <;> rfl

/-! ### blocks 8-9: `if system == None: warning  elif input02: df = fill_cij(df, system)` -/

theorem fill_blocks_are_source (I : Inp α) (st : St α) :
    execBlocks I [blk 8, blk 9] st = (applyFill I.E I.o.system I.d2.isSome st.df).map fun t => { st with df := t } := by
  have g8 : ∀ s : St α, guardHolds I s (blk 8).guard = I.o.system.isNone := fun s => by
    simp [blk, Generated.staticBlocks, guardHolds, Atom.holds]
  have g9 : ∀ s : St α, guardHolds I s (blk 9).guard = (!I.o.system.isNone && I.d2.isSome) := fun s => by
    simp [blk, Generated.staticBlocks, guardHolds, Atom.holds]
  simp only [execBlocks, execBlock_eq, g8, g9]
  cases hs : I.o.system with
  | none =>
    simp only [Option.isNone_none, if_true, Bool.not_true, Bool.false_and, Bool.false_eq_true, if_false,
      Option.bind_some, applyFill, Option.map_some]
    simp only [blk, Generated.staticBlocks, List.getD_cons_zero, List.getD_cons_succ]
    src_run
    rfl
  | some sys =>
    cases hd : I.d2 with
    | none => simp [applyFill]
    | some d =>
      simp only [Option.isNone_some, Bool.false_eq_true, if_false, Option.bind_some, Bool.not_false, Option.isSome_some,
        Bool.and_self, if_true, applyFill, Option.bind_fun_some]
      simp only [blk, Generated.staticBlocks, List.getD_cons_zero, List.getD_cons_succ]
      cases hf : I.E.fill sys st.df with
      | none => src_run; rfl
      | some t => src_run; rfl

/-! ### block 10: `if cellmass: df.loc[:, "density"] = cellmass / df.loc[:, "V"]` -/

theorem truthy_some (x : Option α) (m : α) (h : truthy x = some m) : x = some m := by
  cases x with
  | none => simp [truthy] at h
  | some v =>
    simp only [truthy] at h
    split at h
    · cases h
    · exact h

theorem cellmass_block_is_source (I : Inp α) (st : St α) :
    execBlock I st (blk 10) = (overrideDensity I.o.cellmass st.df).map fun t => { st with df := t } := by
  have g : guardHolds I st (blk 10).guard = (truthy I.o.cellmass).isSome := by
    simp [blk, Generated.staticBlocks, guardHolds, Atom.holds]
  rw [execBlock_eq, g]
  cases htr : truthy I.o.cellmass with
  | none => simp [overrideDensity, htr]
  | some m =>
    have hm := truthy_some _ _ htr
    simp only [Option.isSome_some, if_true, overrideDensity, htr]
    simp only [blk, Generated.staticBlocks, List.getD_cons_zero, List.getD_cons_succ]
    cases hV : getCol st.df "V" with
    | none => src_run; rfl
    | some v => src_run; rfl

/-! ### block 11: the private VRH block -/

theorem zipWith_map_map_same {β γ δ ε : Type} (f : γ → δ → ε) (g : β → γ) (h : β → δ) (l : List β) :
    List.zipWith f (l.map g) (l.map h) = l.map fun x => f (g x) (h x) := by
  induction l with
  | nil => rfl
  | cons a r ih => simp [ih]

/-- the assembly loop of the source (`"c%d%d" % tuple(sorted((i+1, j+1)))`, `if key in df.columns`, zeros otherwise) builds
    the model's `cMat` -/
theorem asmMat_is_source (t : Table α) (r : Nat) :
    asmMat { dim := 6, keyOffset := 1, sorted := true, viewOffset := 1 } t r = cMat t r := by
  rfl

theorem matCol_one (ms : List (List (List α))) (i j : Nat) : matCol ms 1 i j = ms.map fun m => at6 m i j := rfl

/-- unfold the interpreter on a formula of the VRH block -/
macro "vrh_simp" : tactic => `(tactic| simp only [execStmt, ofVExpr, propCol, Generated.staticVrh_bm_V,
  Generated.staticVrh_bm_R, Generated.staticVrh_bm_VRH, Generated.staticVrh_G_V, Generated.staticVrh_G_R,
  Generated.staticVrh_G_VRH, eval, matCol_one, Option.bind_some, Option.map_some, Option.pure_def, Option.bind_eq_bind,
  toAr_ar, bin_nat_ar, bin_ar_nat, bin_ar_ar, getCol_setCol_self, getCol_setCol_ne, ne_eq, String.reduceEq,
  not_false_eq_true, zipWith_map_map_same, List.map_map, Function.comp_def, List.map_zipWith, List.zipWith_map_left,
  List.zipWith_map_right, List.zipWith_self])

/-- the six formulas of the source, on the stacks `cs` (stiffness) and `ss` (its batched inverse), are the model's
    `vrhColumns` -/
theorem vrh_stmts_are_source (I : Inp α) (st : St α) (hview : st.view = 1) :
    execStmts I ((blk 11).body.drop 1) st
      = some { st with df := (vrhColumns st.cs st.ss).foldl (fun t c => setCol t c.1 c.2) st.df } := by
  rcases st with ⟨df, loc, cs, ss, view, kv, idx, out⟩
  simp only at hview
  subst hview
  simp only [blk, Generated.staticBlocks, List.getD_cons_zero, List.getD_cons_succ, List.drop_succ_cons, List.drop_zero]
  refine Eq.trans (step_some (st' := ⟨setCol df "bm_V" (cs.map fun c => bmV (at6 c)), loc, cs, ss, 1, kv, idx, out⟩)
    (by vrh_simp; rfl)) ?_
  refine Eq.trans (step_some (st' := ⟨setCol (setCol df "bm_V" (cs.map fun c => bmV (at6 c))) "bm_R"
    (ss.map fun s => bmR (at6 s)), loc, cs, ss, 1, kv, idx, out⟩) (by vrh_simp; rfl)) ?_
  refine Eq.trans (step_some (st' := ⟨setCol (setCol (setCol df "bm_V" (cs.map fun c => bmV (at6 c))) "bm_R"
    (ss.map fun s => bmR (at6 s))) "bm_VRH" (List.zipWith vrh (cs.map fun c => bmV (at6 c)) (ss.map fun s => bmR (at6 s))),
    loc, cs, ss, 1, kv, idx, out⟩) (by vrh_simp; rfl)) ?_
  refine Eq.trans (step_some (st' := ⟨setCol (setCol (setCol (setCol df "bm_V" (cs.map fun c => bmV (at6 c))) "bm_R"
    (ss.map fun s => bmR (at6 s))) "bm_VRH" (List.zipWith vrh (cs.map fun c => bmV (at6 c)) (ss.map fun s => bmR (at6 s))))
    "G_V" (cs.map fun c => gV (at6 c)), loc, cs, ss, 1, kv, idx, out⟩) (by vrh_simp; rfl)) ?_
  refine Eq.trans (step_some (st' := ⟨setCol (setCol (setCol (setCol (setCol df "bm_V" (cs.map fun c => bmV (at6 c))) "bm_R"
    (ss.map fun s => bmR (at6 s))) "bm_VRH" (List.zipWith vrh (cs.map fun c => bmV (at6 c)) (ss.map fun s => bmR (at6 s))))
    "G_V" (cs.map fun c => gV (at6 c))) "G_R" (ss.map fun s => gR (at6 s)), loc, cs, ss, 1, kv, idx, out⟩)
    (by vrh_simp; rfl)) ?_
  refine Eq.trans (step_some (st' := ⟨setCol (setCol (setCol (setCol (setCol (setCol df "bm_V" (cs.map fun c => bmV (at6 c)))
    "bm_R" (ss.map fun s => bmR (at6 s))) "bm_VRH" (List.zipWith vrh (cs.map fun c => bmV (at6 c)) (ss.map fun s => bmR (at6 s))))
    "G_V" (cs.map fun c => gV (at6 c))) "G_R" (ss.map fun s => gR (at6 s))) "G_VRH"
    (List.zipWith vrh (cs.map fun c => gV (at6 c)) (ss.map fun s => gR (at6 s))), loc, cs, ss, 1, kv, idx, out⟩)
    (by vrh_simp; rfl)) ?_
  rfl

theorem vrh_block_is_source (I : Inp α) (st : St α) :
    execBlock I st (blk 11) =
      if I.d2.isSome then
        (I.E.inv6 ((List.range (nRows st.df)).map (cMat st.df))).map fun ss =>
          { st with df := (vrhColumns ((List.range (nRows st.df)).map (cMat st.df)) ss).foldl
                            (fun t c => setCol t c.1 c.2) st.df,
                    cs := (List.range (nRows st.df)).map (cMat st.df), ss := ss, view := 1 }
      else some st := by
  rw [execBlock_eq, input02_guard I st 11 (Or.inr (Or.inl rfl))]
  cases hd : I.d2.isSome with
  | false => rfl
  | true =>
    simp only [if_true]
    simp only [blk, Generated.staticBlocks, List.getD_cons_zero, List.getD_cons_succ]
    have hasm : ∀ t : Table α, asmMat { dim := 6, keyOffset := 1, sorted := true, viewOffset := 1 } t = cMat t :=
      fun t => funext (asmMat_is_source t)
    cases hinv : I.E.inv6 ((List.range (nRows st.df)).map (cMat st.df)) with
    | none =>
      refine Eq.trans (step_none (by simp only [execStmt, hasm, hinv, Option.map_none])) ?_
      rfl
    | some ss =>
      refine Eq.trans (step_some (by simp only [execStmt, hasm, hinv, Option.map_some] <;> rfl)) ?_
      exact vrh_stmts_are_source I _ rfl

/-! ### blocks 12-13: unit conversion (`df[c] = _to_x(df[c].to_numpy())` overwrites the column in place) -/

theorem names_mapCol (t : Table α) (n : String) (f : α → α) : (mapCol t n f).map (·.1) = t.map (·.1) := by
  induction t with
  | nil => rfl
  | cons c r ih =>
    simp only [mapCol, List.map_cons, List.map_map] at ih ⊢
    refine congrArg₂ _ ?_ ih
    split <;> rfl

theorem mapCol_absent (t : Table α) (n : String) (f : α → α) (h : n ∉ t.map (·.1)) : mapCol t n f = t := by
  induction t with
  | nil => rfl
  | cons c r ih =>
    simp only [List.map_cons, List.mem_cons, not_or] at h
    have hr : mapCol r n f = r := ih h.2
    simp only [mapCol, List.map_cons] at hr ⊢
    rw [hr, if_neg (fun e => h.1 e.symm)]

/-- on a frame without duplicate labels, overwriting a column with a function of itself is `mapCol` -/
theorem setCol_map_eq_mapCol (t : Table α) (n : String) (v : List α) (g : α → α) (hnd : (t.map (·.1)).Nodup)
    (h : getCol t n = some v) : setCol t n (v.map g) = mapCol t n g := by
  induction t with
  | nil => cases h
  | cons c r ih =>
    simp only [List.map_cons, List.nodup_cons] at hnd
    rw [getCol_cons] at h
    by_cases hc : c.1 = n
    · rw [if_pos hc] at h
      cases h
      have hr := mapCol_absent r n g (hc ▸ hnd.1)
      simp only [mapCol] at hr
      simp only [setCol, mapCol, hc, if_true, List.map_cons, hr]
    · rw [if_neg hc] at h
      have := ih hnd.2 h
      simp only [mapCol] at this
      simp only [setCol, mapCol, hc, if_false, List.map_cons, this]

theorem hasCol_mapCol' (t : Table α) (name other : String) (f : α → α) :
    hasCol (mapCol t name f) other = hasCol t other := by
  unfold hasCol
  by_cases h : other = name
  · subst h; rw [getCol_mapCol_self]; cases getCol t other <;> rfl
  · rw [getCol_mapCol_ne _ _ _ _ h]

theorem units_blocks_are_source (I : Inp α) (st : St α) (hnd : (st.df.map (·.1)).Nodup)
    (hV : (getCol st.df "V").isSome) (hF : (getCol st.df "F").isSome) (hP : (getCol st.df "P").isSome) :
    execBlocks I [blk 12, blk 13] st = some { st with df := convertUnits I.U st.df } := by
  obtain ⟨v, hv⟩ := Option.isSome_iff_exists.mp hV
  obtain ⟨f, hf⟩ := Option.isSome_iff_exists.mp hF
  obtain ⟨p, hp⟩ := Option.isSome_iff_exists.mp hP
  have g12 : ∀ s : St α, guardHolds I s (blk 12).guard = true := fun s => by
    simp [blk, Generated.staticBlocks, guardHolds]
  have g13 : ∀ s : St α, guardHolds I s (blk 13).guard = hasCol s.df "density" := fun s => by
    simp [blk, Generated.staticBlocks, guardHolds, Atom.holds]
  let t1 := mapCol st.df "V" (· * I.U.toAng3)
  let t2 := mapCol t1 "F" (· * I.U.toEv)
  let t3 := mapCol t2 "P" (· * I.U.toGpa)
  have n1 : (t1.map (·.1)).Nodup := by rw [names_mapCol]; exact hnd
  have n2 : (t2.map (·.1)).Nodup := by rw [names_mapCol]; exact n1
  have n3 : (t3.map (·.1)).Nodup := by rw [names_mapCol]; exact n2
  have hf1 : getCol t1 "F" = some f := by rw [getCol_mapCol_ne _ _ _ _ (by decide)]; exact hf
  have hp2 : getCol t2 "P" = some p := by
    rw [getCol_mapCol_ne _ _ _ _ (by decide), getCol_mapCol_ne _ _ _ _ (by decide)]; exact hp
  have b12 : execBlock I st (blk 12) = some { st with df := t3 } := by
    rw [execBlock_run _ _ _ (g12 st)]
    simp only [blk, Generated.staticBlocks, List.getD_cons_zero, List.getD_cons_succ]
    refine Eq.trans (step_some (st' := { st with df := t1 }) (by
      src_simp
      rw [setCol_map_eq_mapCol _ _ _ _ hnd hv])) ?_
    refine Eq.trans (step_some (st' := { st with df := t2 }) (by
      src_simp
      rw [setCol_map_eq_mapCol _ _ _ _ n1 hf1])) ?_
    refine Eq.trans (step_some (st' := { st with df := t3 }) (by
      src_simp
      rw [setCol_map_eq_mapCol _ _ _ _ n2 hp2])) ?_
    rfl
  simp only [execBlocks, b12, Option.bind_some, execBlock_eq, g13]
  have hcu : convertUnits I.U st.df = if hasCol t3 "density" then mapCol t3 "density" (· * I.U.toGcm3) else t3 := rfl
  rw [hcu]
  cases hh : hasCol t3 "density" with
  | false => rfl
  | true =>
    obtain ⟨d, hd⟩ := Option.isSome_iff_exists.mp (show (getCol t3 "density").isSome = true from hh)
    simp only [if_true]
    simp only [blk, Generated.staticBlocks, List.getD_cons_zero, List.getD_cons_succ]
    refine Eq.trans (congrArg (fun o => Option.bind o _) (Eq.trans (step_some
      (st' := { st with df := mapCol t3 "density" (· * I.U.toGcm3) }) (by
        src_simp
        rw [setCol_map_eq_mapCol _ _ _ _ n3 hd])) (execStmts_nil _ _))) ?_
    rfl

/-! ### block 14: velocities -/

theorem setCol_setCol_same (t : Table α) (n : String) (a b : List α) : setCol (setCol t n a) n b = setCol t n b := by
  induction t with
  | nil => simp [setCol]
  | cons c r ih =>
    by_cases hc : c.1 = n
    · simp [setCol, hc]
    · simp [setCol, hc, ih]

/-- overwriting an EXISTING column commutes with setting another one (positions are fixed) -/
theorem setCol_comm_of_has (t : Table α) (n m : String) (a b : List α) (hnm : m ≠ n) (h : (getCol t n).isSome) :
    setCol (setCol t m b) n a = setCol (setCol t n a) m b := by
  induction t with
  | nil => cases h
  | cons c r ih =>
    by_cases hcn : c.1 = n
    · have hcm : ¬ c.1 = m := fun e => hnm (e.symm.trans hcn)
      simp [setCol, hcn, hcm, Ne.symm hnm]
    · rw [getCol_cons, if_neg hcn] at h
      by_cases hcm : c.1 = m
      · simp [setCol, hcn, hcm, hnm]
      · simp [setCol, hcn, hcm, ih h]

theorem isSome_getCol_setCol (t : Table α) (n m : String) (a : List α) (h : (getCol t n).isSome) :
    (getCol (setCol t m a) n).isSome := by
  by_cases e : n = m
  · subst e; rw [getCol_setCol_self]; rfl
  · rw [getCol_setCol_ne _ _ _ _ e]; exact h

theorem map_zipWith_zipWith_map (h : α → α) (D A : α → α → α) (m : α → α) (k g rho : List α) :
    List.map h (List.zipWith D (List.zipWith A k (g.map m)) rho) = zip3 (fun x y z => h (D (A x (m y)) z)) k g rho := by
  induction k generalizing g rho with
  | nil => simp [zip3]
  | cons x xs ih =>
    cases g with
    | nil => simp [zip3]
    | cons y ys =>
      cases rho with
      | nil => simp [zip3]
      | cons z zs =>
        have := ih ys zs
        simp only [zip3] at this ⊢
        simp [this]

/-- three columns written and then overwritten in the same order: only the last values remain, in the first positions -/
theorem setCol3_overwrite (t : Table α) (p s f : String) (hps : p ≠ s) (hpf : p ≠ f) (hsf : s ≠ f)
    (a1 a2 a3 b1 b2 b3 : List α) :
    setCol (setCol (setCol (setCol (setCol (setCol t p a1) s a2) f a3) p b1) s b2) f b3
      = setCol (setCol (setCol t p b1) s b2) f b3 := by
  have hp1 : (getCol (setCol t p a1) p).isSome := by rw [getCol_setCol_self]; rfl
  rw [setCol_comm_of_has (setCol (setCol t p a1) s a2) p f b1 a3 (Ne.symm hpf) (isSome_getCol_setCol _ _ _ _ hp1),
    setCol_comm_of_has (setCol t p a1) p s b1 a2 (Ne.symm hps) hp1, setCol_setCol_same]
  have hs1 : (getCol (setCol (setCol t p b1) s a2) s).isSome := by rw [getCol_setCol_self]; rfl
  rw [setCol_comm_of_has (setCol (setCol t p b1) s a2) s f b2 a3 (Ne.symm hsf) hs1, setCol_setCol_same,
    setCol_setCol_same]

theorem velocity_block_is_source (I : Inp α) (st : St α) :
    execBlock I st (blk 14) = (addVelocities I.E I.U I.d2.isSome st.df).map fun t => { st with df := t } := by
  rw [execBlock_eq, input02_guard I st 14 (Or.inr (Or.inr rfl))]
  cases hd : I.d2.isSome with
  | false => rfl
  | true =>
    simp only [if_true, addVelocities, Bool.not_true, Bool.false_eq_true, if_false]
    simp only [blk, Generated.staticBlocks, List.getD_cons_zero, List.getD_cons_succ]
    cases hk : getCol st.df "bm_VRH" with
    | none => src_run; rfl
    | some k =>
    cases hg : getCol st.df "G_VRH" with
    | none => src_run; rfl
    | some g =>
    cases hr : getCol st.df "density" with
    | none => src_run; rfl
    | some rho =>
      simp only [Option.map_some]
      src_run
      simp only [execStmts_nil]
      rw [setCol3_overwrite _ _ _ _ (by decide) (by decide) (by decide), List.map_map, List.map_map, List.map_map,
        map_zipWith_zipWith_map, List.map_zipWith, List.map_zipWith]
      rfl

/-! ### blocks 15-16: sampling and `sys.stdout.write(df.to_string())` -/

theorem sample_blocks_are_source (I : Inp α) (st : St α) (hidx : st.index = none) :
    (execBlocks I [blk 15, blk 16] st).bind (·.out) = sample I.E I.o st.df := by
  have g15 : ∀ s : St α, guardHolds I s (blk 15).guard
      = (I.o.interp == .pressure && (truthy I.o.deltaPSample).isSome) := fun s => by
    cases h : I.o.interp <;> simp [blk, Generated.staticBlocks, guardHolds, Atom.holds, interpName, h]
  have g16 : ∀ s : St α, guardHolds I s (blk 16).guard = true := fun s => by
    simp [blk, Generated.staticBlocks, guardHolds]
  have w : ∀ s : St α, execBlock I s (blk 16)
      = some { s with out := some ⟨s.index.getD (List.range (nRows s.df)), s.df⟩ } := fun s => by
    rw [execBlock_run _ _ _ (g16 s)]
    simp only [blk, Generated.staticBlocks, List.getD_cons_zero, List.getD_cons_succ]
    rfl
  simp only [execBlocks, w, Option.bind_assoc, Option.bind_some]
  by_cases hp : I.o.interp = .pressure
  · cases htr : truthy I.o.deltaPSample with
    | none =>
      rw [execBlock_skip _ _ _ (by rw [g15, htr]; simp)]
      simp [sample, hp, htr, hidx]
    | some dps =>
      have hd := truthy_some _ _ htr
      rw [execBlock_run _ _ _ (by rw [g15, htr, hp]; rfl)]
      simp only [sample, hp, htr]
      simp only [blk, Generated.staticBlocks, List.getD_cons_zero, List.getD_cons_succ]
      by_cases h0 : I.E.round (dps / I.o.deltaP) = 0
      · rw [step_none (by src_simp)]
        simp [h0]
      · rw [step_some (by src_simp <;> rfl)]
        simp [execStmts_nil, h0]
  · rw [execBlock_skip _ _ _ (by rw [g15]; simp [hp])]
    simp only [Option.bind_some, hidx, Option.getD_none]
    cases hi : I.o.interp with
    | pressure => exact absurd hi hp
    | none => simp [sample, hi]
    | volume => simp [sample, hi]

/-! ### the whole command -/

/-- a frame as pandas holds it here: no duplicate labels, and the three EoS columns present -/
def Good (t : Table α) : Prop :=
  (t.map (·.1)).Nodup ∧ (getCol t "V").isSome ∧ (getCol t "F").isSome ∧ (getCol t "P").isSome

/-- the part of the contract of `fill_cij(df, system)` the composition needs: on such a frame it returns such a frame.
    PROVED of the model `Fill.fill` for every scalar type (`fillFrame_model`, `fillFrame_of_model`, Lemmas/StaticFill.lean) and of the
    driver's `Float` environment (`fillFrame_driver`, Lemmas/StaticFillDriver.lean); kept as a predicate so that `run_is_source`
    covers any other `fill` with this contract. -/
def FillFrame (E : Ext α) : Prop := ∀ s t t', Good t → E.fill s t = some t' → Good t'

theorem mem_names_iff (t : Table α) (n : String) : n ∈ t.map (·.1) ↔ (getCol t n).isSome := by
  induction t with
  | nil => simp
  | cons c r ih =>
    rw [getCol_cons]
    by_cases hc : c.1 = n
    · simp [hc]
    · simp only [List.map_cons, List.mem_cons, hc, if_false, ← ih]
      constructor
      · rintro (h | h)
        · exact absurd h.symm hc
        · exact h
      · exact Or.inr

theorem nodup_setCol (t : Table α) (n : String) (c : List α) (h : (t.map (·.1)).Nodup) :
    ((setCol t n c).map (·.1)).Nodup := by
  induction t with
  | nil => simp [setCol]
  | cons a r ih =>
    simp only [List.map_cons, List.nodup_cons] at h
    by_cases hc : a.1 = n
    · simp only [setCol, hc, if_true, List.map_cons, List.nodup_cons]
      exact ⟨hc ▸ h.1, h.2⟩
    · simp only [setCol, hc, if_false, List.map_cons, List.nodup_cons]
      refine ⟨?_, ih h.2⟩
      intro hm
      rw [mem_names_iff] at hm
      rw [getCol_setCol_ne _ _ _ _ hc] at hm
      exact h.1 ((mem_names_iff r a.1).mpr hm)

theorem good_setCol (t : Table α) (n : String) (c : List α) (h : Good t) : Good (setCol t n c) :=
  ⟨nodup_setCol t n c h.1, isSome_getCol_setCol _ _ _ _ h.2.1, isSome_getCol_setCol _ _ _ _ h.2.2.1,
    isSome_getCol_setCol _ _ _ _ h.2.2.2⟩

theorem good_foldl_setCol (cols : List (String × List α)) (t : Table α) (h : Good t) :
    Good (cols.foldl (fun t c => setCol t c.1 c.2) t) := by
  induction cols generalizing t with
  | nil => exact h
  | cons c r ih => exact ih _ (good_setCol t c.1 c.2 h)

theorem good_table (x : VFP α) : Good x.table := by
  refine ⟨?_, rfl, rfl, rfl⟩
  simp [VFP.table]

theorem good_addModuli (fit : Fit α) (E : Ext α) (d2 : Option (ElastDat.ElastData α)) (x : VFP α) (t : Table α)
    (h : addModuli fit E d2 x = some t) : Good t := by
  cases d2 with
  | none =>
    simp only [addModuli, Option.some.injEq] at h
    exact h ▸ good_table x
  | some d =>
    simp only [addModuli, bind, pure] at h
    cases hc : moduliColumns fit E d x.v with
    | none => rw [hc] at h; cases h
    | some cols =>
      rw [hc] at h
      simp only [Option.bind_some, Option.some.injEq] at h
      exact h ▸ good_foldl_setCol _ _ (good_setCol _ _ _ (good_table x))

theorem good_applyFill (E : Ext α) (hf : FillFrame E) (sys : Option String) (w : Bool) (t t' : Table α)
    (h : applyFill E sys w t = some t') (ht : Good t) : Good t' := by
  cases sys with
  | none => simp only [applyFill, Option.some.injEq] at h; exact h ▸ ht
  | some s =>
    cases w with
    | false => simp only [applyFill, Bool.false_eq_true, if_false, Option.some.injEq] at h; exact h ▸ ht
    | true => simp only [applyFill, if_true] at h; exact hf s t t' ht h

theorem good_overrideDensity (cm : Option α) (t t' : Table α) (h : overrideDensity cm t = some t') (ht : Good t) :
    Good t' := by
  unfold overrideDensity at h
  cases htr : truthy cm with
  | none => rw [htr] at h; simp only [Option.some.injEq] at h; exact h ▸ ht
  | some m =>
    rw [htr] at h
    cases hV : getCol t "V" with
    | none => rw [hV] at h; cases h
    | some v =>
      rw [hV] at h
      simp only [Option.map_some, Option.some.injEq] at h
      exact h ▸ good_setCol _ _ _ ht

theorem good_addVrh (E : Ext α) (w : Bool) (t t' : Table α) (h : addVrh E w t = some t') (ht : Good t) : Good t' := by
  unfold addVrh at h
  cases w with
  | false => simp only [Bool.not_false, if_true, Option.some.injEq] at h; exact h ▸ ht
  | true =>
    simp only [Bool.not_true, Bool.false_eq_true, if_false] at h
    cases hi : E.inv6 ((List.range (nRows t)).map (cMat t)) with
    | none => rw [hi] at h; cases h
    | some ss =>
      rw [hi] at h
      simp only [Option.map_some, Option.some.injEq] at h
      exact h ▸ good_foldl_setCol _ _ ht

theorem execBlocks_append (I : Inp α) (a b : List Block) (st : St α) :
    execBlocks I (a ++ b) st = (execBlocks I a st).bind (execBlocks I b) := by
  induction a generalizing st with
  | nil => rfl
  | cons s r ih =>
    simp only [List.cons_append, execBlocks, Option.bind_assoc]
    cases execBlock I st s with
    | none => rfl
    | some st' => exact ih st'

theorem execBlocks_single (I : Inp α) (b : Block) (st : St α) : execBlocks I [b] st = execBlock I st b := by
  simp [execBlocks]

/-- blocks 11-16 from any state with a well-formed frame and the default row labels -/
theorem tail_blocks_are_source (I : Inp α) (st : St α) (hidx : st.index = none) (G : Good st.df) :
    ((execBlock I st (blk 11)).bind fun a => (execBlocks I [blk 12, blk 13] a).bind fun a =>
        (execBlock I a (blk 14)).bind fun y => (execBlocks I [blk 15, blk 16] y).bind fun a => a.out)
      = (addVrh I.E I.d2.isSome st.df).bind fun y =>
          (addVelocities I.E I.U I.d2.isSome (convertUnits I.U y)).bind fun a => sample I.E I.o a := by
  have rest : ∀ s : St α, s.index = none → Good s.df →
      ((execBlocks I [blk 12, blk 13] s).bind fun a =>
        (execBlock I a (blk 14)).bind fun y => (execBlocks I [blk 15, blk 16] y).bind fun a => a.out)
      = (addVelocities I.E I.U I.d2.isSome (convertUnits I.U s.df)).bind fun a => sample I.E I.o a := by
    intro s hi Gs
    rw [units_blocks_are_source I s Gs.1 Gs.2.1 Gs.2.2.1 Gs.2.2.2]
    simp only [Option.bind_some]
    rw [velocity_block_is_source]
    simp only []
    cases hv : addVelocities I.E I.U I.d2.isSome (convertUnits I.U s.df) with
    | none => rfl
    | some t6 =>
      simp only [Option.map_some, Option.bind_some]
      exact sample_blocks_are_source I _ hi
  rw [vrh_block_is_source]
  unfold addVrh
  cases hd : I.d2.isSome with
  | false =>
    simp only [Bool.false_eq_true, if_false, Option.bind_some, Bool.not_false, if_true]
    have r := rest st hidx G
    rw [hd] at r
    exact r
  | true =>
    simp only [if_true, Bool.not_true, Bool.false_eq_true, if_false]
    cases hinv : I.E.inv6 ((List.range (nRows st.df)).map (cMat st.df)) with
    | none => rfl
    | some ss =>
      simp only [Option.map_some, Option.bind_some]
      have r := rest { st with df := (vrhColumns ((List.range (nRows st.df)).map (cMat st.df)) ss).foldl
                                      (fun t c => setCol t c.1 c.2) st.df,
                               cs := (List.range (nRows st.df)).map (cMat st.df), ss := ss, view := 1 }
        hidx (good_foldl_setCol _ _ G)
      rw [hd] at r
      exact r

/-- `Static.runWith` — the function the driver runs and the theorems of C18 are about — IS the interpretation of the blocks
    of `main` as the translator reads them now, in source order, from the empty state. -/
theorem run_is_source (I : Inp α) (hfill : FillFrame I.E) :
    run I Generated.staticBlocks = runWith I.fit I.E I.U I.o I.d1 I.d2 := by
  have split : Generated.staticBlocks = [blk 0, blk 1, blk 2] ++ ([blk 3, blk 4, blk 5, blk 6] ++ ([blk 7] ++
      ([blk 8, blk 9] ++ ([blk 10] ++ ([blk 11] ++ ([blk 12, blk 13] ++ ([blk 14] ++ [blk 15, blk 16]))))))) := rfl
  have a1 : execBlocks I [blk 0, blk 1, blk 2] ({} : St α) = (input01Columns I.d1).bind fun ve =>
      (eos I.fit I.E I.o.vRatio I.o.ntv ve.1 ve.2).map (stEos {} ve) := by
    simp only [execBlocks, (read_blocks_are_source I _).1, (read_blocks_are_source I _).2, Option.bind_some,
      eos_block_is_source, Option.bind_fun_some]
  rw [run, split]
  simp only [execBlocks_append, execBlocks_single]
  rw [a1]
  unfold runWith tableWith
  simp only [bind, Option.bind_assoc]
  cases h1 : input01Columns I.d1 with
  | none => rfl
  | some ve =>
  simp only [Option.bind_some]
  cases h2 : eos I.fit I.E I.o.vRatio I.o.ntv ve.1 ve.2 with
  | none => rfl
  | some e =>
  simp only [Option.bind_some, Option.map_some]
  rw [mode_blocks_are_source]
  cases h3 : modeTable I.E I.U I.o ve.1 ve.2 e with
  | none => rfl
  | some x =>
  simp only [Option.bind_some, Option.map_some]
  rw [moduli_block_eq_addModuli I _ x rfl rfl]
  cases h4 : addModuli I.fit I.E I.d2 x with
  | none => rfl
  | some t1 =>
  have G1 := good_addModuli _ _ _ _ _ h4
  simp only [Option.bind_some, Option.map_some]
  rw [fill_blocks_are_source]
  simp only []
  cases h5 : applyFill I.E I.o.system I.d2.isSome t1 with
  | none => rfl
  | some t2 =>
  have G2 := good_applyFill _ hfill _ _ _ _ h5 G1
  simp only [Option.bind_some, Option.map_some]
  rw [cellmass_block_is_source]
  simp only []
  cases h6 : overrideDensity I.o.cellmass t2 with
  | none => rfl
  | some t3 =>
  have G3 := good_overrideDensity _ _ _ h6 G2
  simp only [Option.bind_some, Option.map_some]
  exact tail_blocks_are_source I _ rfl G3

/-! ### the six VRH formulas, point by point, through the evaluator of calculator.py's averages (`VExpr.eval`) -/

/-- what `VExpr.eval` needs from the scalar, taken from the parameters of the static model -/
@[reducible] def scalarOf (E : Ext α) : VRH.Scalar α := ⟨fun n => (n : α), E.sqrt, fun _ _ => false⟩

/-- one row: `c[i, j]`, `s[i, j]` and the four average columns already written -/
def rowEnv (c s : Nat → Nat → α) (kv kr gv gr : α) : VExpr.Env α :=
  { c := c, s := s, prop := fun p => match p with | .kV => kv | .kR => kr | .gV => gv | .gR => gr | _ => 0,
    V := 0, mass := 0, cellmass := 0, avogadro := 0, ryFactor := 0 }

theorem vrh_formulas_are_source (E : Ext α) (c s : Nat → Nat → α) (kv kr gv gr : α) :
    bmV c = @VExpr.eval α (scalarOf E) _ _ _ _ (rowEnv c s kv kr gv gr) Generated.staticVrh_bm_V ∧
    bmR s = @VExpr.eval α (scalarOf E) _ _ _ _ (rowEnv c s kv kr gv gr) Generated.staticVrh_bm_R ∧
    vrh kv kr = @VExpr.eval α (scalarOf E) _ _ _ _ (rowEnv c s kv kr gv gr) Generated.staticVrh_bm_VRH ∧
    gV c = @VExpr.eval α (scalarOf E) _ _ _ _ (rowEnv c s kv kr gv gr) Generated.staticVrh_G_V ∧
    gR s = @VExpr.eval α (scalarOf E) _ _ _ _ (rowEnv c s kv kr gv gr) Generated.staticVrh_G_R ∧
    vrh gv gr = @VExpr.eval α (scalarOf E) _ _ _ _ (rowEnv c s kv kr gv gr) Generated.staticVrh_G_VRH :=
  ⟨rfl, rfl, rfl, rfl, rfl, rfl⟩

end

/-! ### the click declaration -/

/-- the command, its parameters under the names `main` receives them, and the signature of `main` -/
theorem click_names_are_source :
    Generated.staticCommand = "run-static" ∧
    Generated.staticClick.map (·.pyName)
      = ["input01", "input02", "interp", "ntv", "p_min", "delta_p", "delta_p_sample", "cellmass", "v_ratio", "system"] ∧
    (∀ n ∈ Generated.staticClick.map (·.pyName), n ∈ Generated.staticMainParams.map (·.1)) ∧
    (∀ n ∈ Generated.staticMainParams.map (·.1), n ∈ Generated.staticClick.map (·.pyName)) ∧
    (∀ p ∈ Generated.staticMainParams, p.2 = PyLit.none) := by
  decide

/-- kinds, types and which parameters are required -/
theorem click_types_are_source :
    (Generated.staticClick.map fun p => (p.pyName, p.kind, p.type, p.required))
      = [("input01", "argument", "Path(exists=True)", true), ("input02", "argument", "Path(exists=True)", false),
         ("interp", "option", "Choice", false), ("ntv", "option", "INT", false), ("p_min", "option", "FLOAT", false),
         ("delta_p", "option", "FLOAT", false), ("delta_p_sample", "option", "FLOAT", false),
         ("cellmass", "option", "FLOAT", false), ("v_ratio", "option", "FLOAT", false), ("system", "option", "", false)] := by
  decide

/-- `-I` accepts exactly the three modes of the model -/
theorem interp_choices_are_source :
    ∀ s, (s ∈ ((clickParam? Generated.staticClick "interp").map (·.choices)).getD []) ↔
      (∃ i : Interp, interpName i = s) := by
  intro s
  have h : ((clickParam? Generated.staticClick "interp").map (·.choices)).getD [] = ["none", "pressure", "volume"] := by
    decide
  rw [h]
  constructor
  · intro hs
    simp only [List.mem_cons, List.not_mem_nil, or_false] at hs
    rcases hs with rfl | rfl | rfl
    · exact ⟨.none, rfl⟩
    · exact ⟨.pressure, rfl⟩
    · exact ⟨.volume, rfl⟩
  · rintro ⟨i, rfl⟩
    cases i <;> simp [interpName]

/-- the declared defaults -/
theorem click_defaults_are_source :
    clickDefault "interp" = .str "none" ∧ clickDefault "ntv" = .int 201 ∧ clickDefault "p_min" = .int 0 ∧
    clickDefault "delta_p" = .rat 1 1 ∧ clickDefault "v_ratio" = .rat 6 5 ∧ clickDefault "delta_p_sample" = .none ∧
    clickDefault "cellmass" = .none ∧ clickDefault "system" = .none ∧ clickDefault "input02" = .none := by
  decide

/-- the guards of the seventeen blocks, in source order -/
theorem guards_are_source :
    Generated.staticBlocks.map (·.guard) =
      [[], [(true, .input02)], [],
       [(true, .interpIs "none")], [(false, .interpIs "none"), (true, .interpIs "volume")],
       [(false, .interpIs "none"), (false, .interpIs "volume"), (true, .interpIs "pressure")], [],
       [(true, .input02)], [(true, .systemIsNone)], [(false, .systemIsNone), (true, .input02)], [(true, .cellmass)],
       [(true, .input02)], [], [(true, .hasCol "density")], [(true, .input02)],
       [(true, .interpIs "pressure"), (true, .deltaPSample)], []] := by
  decide

end Cij.StaticSrc
