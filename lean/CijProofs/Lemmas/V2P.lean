/- Helper lemmas for C06 (no property statements here). -/
import CijModel.V2P
import Mathlib.Order.Defs.LinearOrder
import Mathlib.Data.List.GetD
import Mathlib.Tactic.Linarith
import Mathlib.Tactic.Ring
import Mathlib.Tactic.FieldSimp
import Mathlib.Algebra.Order.Field.Basic

namespace Cij.V2P

/-! ### bisection -/
section
variable {α : Type} [LinearOrder α] [Zero α]

/-- Loop invariant of the bisection, in closed form: the returned index either never left the initial
    lower end or carries `a[k] ≤ v`; its successor is either the initial upper end or carries `v < a[k+1]`. -/
theorem bisect_inv (a : List α) (v : α) (lo up : Nat) (h : lo < up) :
    lo ≤ bisect a v lo up ∧ bisect a v lo up < up ∧
    (bisect a v lo up = lo ∨ nth a (bisect a v lo up) ≤ v) ∧
    (bisect a v lo up + 1 = up ∨ v < nth a (bisect a v lo up + 1)) := by
  fun_induction bisect a v lo up with
  | case1 lo up hgt mid hge ih =>
    have hm : mid < up := by omega
    obtain ⟨h1, h2, h3, h4⟩ := ih hm
    refine ⟨by omega, h2, ?_, h4⟩
    rcases h3 with h3 | h3
    · right; rw [h3]; exact hge
    · right; exact h3
  | case2 lo up hgt mid hge ih =>
    have hm : lo < mid := by omega
    obtain ⟨h1, h2, h3, h4⟩ := ih hm
    refine ⟨h1, by omega, h3, ?_⟩
    rcases h4 with h4 | h4
    · right; rw [h4]; exact not_le.mp hge
    · right; exact h4
  | case3 lo up hle =>
    exact ⟨le_refl _, h, Or.inl rfl, Or.inl (by omega)⟩

theorem findNearest_eq_bisect (a : List α) (v : α) : findNearest a v = bisect a v 0 (a.length - 1) := rfl

/-- a degenerate call (`up ≤ lo + 1`) returns `lo` -/
theorem bisect_base (a : List α) (v : α) (lo up : Nat) (h : up ≤ lo + 1) : bisect a v lo up = lo := by
  unfold bisect
  have : ¬ (up - lo > 1) := by omega
  simp [this]

end

/-! ### the padded row -/
section
variable {α : Type} [Zero α]

/-- index in the original row of the `i`-th entry of the padded row -/
def extIdx (n i : Nat) : Nat := if i = 0 then 3 else if i ≤ n then i - 1 else n - 4

theorem length_extend (p : List α) : (extend p).length = p.length + 2 := by
  simp [extend]

theorem nth_extend (p : List α) (i : Nat) (hi : i ≤ p.length + 1) :
    nth (extend p) i = nth p (extIdx p.length i) := by
  unfold extend nth extIdx
  cases i with
  | zero => simp
  | succ j =>
    simp only [List.getD_cons_succ, Nat.succ_ne_zero, if_false]
    by_cases hj : j < p.length
    · rw [List.getD_append _ _ _ _ hj]; simp [Nat.succ_le_of_lt hj]
    · have : j = p.length := by omega
      subst this
      rw [List.getD_append_right _ _ _ _ (le_refl _)]
      simp

theorem nth_map {β : Type} [Zero β] (f : α → β) (l : List α) (i : Nat) (hi : i < l.length) :
    nth (l.map f) i = f (nth l i) := by
  unfold nth
  rw [List.getD_eq_getElem _ _ (by simpa using hi), List.getD_eq_getElem _ _ hi]
  simp

theorem extend_map {β : Type} [Zero β] (f : α → β) (l : List α) (h : 4 ≤ l.length) :
    extend (l.map f) = (extend l).map f := by
  unfold extend
  simp only [List.map_cons, List.map_append, List.map_nil, List.length_map]
  rw [nth_map f l 3 (by omega), nth_map f l (l.length - 4) (by omega)]

theorem extIdx_mid (n k : Nat) (hk1 : 1 ≤ k) (hk2 : k ≤ n) : extIdx n k = k - 1 := by
  unfold extIdx
  rw [if_neg (by omega), if_pos hk2]

/-- the four entries of a window `k-1 … k+2` (1 ≤ k ≤ n-1) of the padded row come from four *different*
    positions of the original row, all in range -/
theorem extIdx_window (n k : Nat) (hn : 4 ≤ n) (hk1 : 1 ≤ k) (hk2 : k + 1 ≤ n) :
    extIdx n (k - 1) < n ∧ extIdx n k < n ∧ extIdx n (k + 1) < n ∧ extIdx n (k + 2) < n ∧
    extIdx n (k - 1) ≠ extIdx n k ∧ extIdx n (k - 1) ≠ extIdx n (k + 1) ∧ extIdx n (k - 1) ≠ extIdx n (k + 2) ∧
    extIdx n k ≠ extIdx n (k + 1) ∧ extIdx n k ≠ extIdx n (k + 2) ∧ extIdx n (k + 1) ≠ extIdx n (k + 2) := by
  unfold extIdx
  split_ifs <;> first | omega | contradiction

end

/-! ### strictly increasing rows (index form) -/
section
variable {α : Type} [LinearOrder α] [Zero α]

/-- the row is strictly increasing along the volume axis (qha: volumes decrease ⇒ pressure increases with index) -/
def StrictIncr (p : List α) : Prop := ∀ i j, i < j → j < p.length → nth p i < nth p j

theorem StrictIncr.ne {p : List α} (h : StrictIncr p) {i j : Nat} (hi : i < p.length) (hj : j < p.length)
    (hij : i ≠ j) : nth p i ≠ nth p j := by
  rcases Nat.lt_or_gt_of_ne hij with h' | h'
  · exact ne_of_lt (h i j h' hj)
  · exact ne_of_gt (h j i h' hi)

theorem StrictIncr.le {p : List α} (h : StrictIncr p) {i j : Nat} (hij : i ≤ j) (hj : j < p.length) :
    nth p i ≤ nth p j := by
  rcases Nat.eq_or_lt_of_le hij with h' | h'
  · rw [h']
  · exact le_of_lt (h i j h' hj)

theorem strictIncr_of_pairwise {p : List α} (h : p.Pairwise (· < ·)) : StrictIncr p := by
  intro i j hij hj
  have hi : i < p.length := by omega
  unfold nth
  rw [List.getD_eq_getElem _ _ hi, List.getD_eq_getElem _ _ hj]
  exact (List.pairwise_iff_getElem.mp h) i j hi hj hij

/-- The bracket found in the padded row: for `x₀ ≤ v < x_{n-1}` (entries of the original row) the index `k`
    returned on the padded row satisfies `1 ≤ k ≤ n-1` and `ext[k] ≤ v < ext[k+1]`.
    (No monotonicity needed; the bisection only reads interior entries of the padded row.) -/
theorem findNearest_extend (p : List α) (v : α) (hn : 4 ≤ p.length)
    (h0 : nth p 0 ≤ v) (h1 : v < nth p (p.length - 1)) :
    1 ≤ findNearest (extend p) v ∧ findNearest (extend p) v + 1 ≤ p.length ∧
    nth (extend p) (findNearest (extend p) v) ≤ v ∧ v < nth (extend p) (findNearest (extend p) v + 1) := by
  unfold findNearest
  simp only [length_extend]
  have hlt : 0 < p.length + 2 - 1 := by omega
  obtain ⟨_, h2, h3, h4⟩ := bisect_inv (extend p) v 0 (p.length + 2 - 1) hlt
  set k := bisect (extend p) v 0 (p.length + 2 - 1) with hk
  have e1 : nth (extend p) 1 = nth p 0 := by
    rw [nth_extend p 1 (by omega)]
    have : 1 ≤ p.length := by omega
    simp [extIdx, this]
  have en : nth (extend p) p.length = nth p (p.length - 1) := by
    rw [nth_extend p p.length (by omega)]
    have : p.length ≠ 0 := by omega
    simp [extIdx, this]
  have hk1 : 1 ≤ k := by
    by_contra hc
    have hk0 : k = 0 := by omega
    rcases h4 with h4 | h4
    · omega
    · rw [hk0] at h4; simp only [Nat.zero_add] at h4; rw [e1] at h4; exact absurd h0 (not_le.mpr h4)
  have hk2 : k + 1 ≤ p.length := by
    by_contra hc
    have hkn : k = p.length := by omega
    rcases h3 with h3 | h3
    · omega
    · rw [hkn, en] at h3; exact absurd h1 (not_lt.mpr h3)
  refine ⟨hk1, hk2, ?_, ?_⟩
  · rcases h3 with h3 | h3
    · omega
    · exact h3
  · rcases h4 with h4 | h4
    · omega
    · exact h4

end

/-! ### Lagrange -/
section
variable {α : Type} [Field α]

/-- `_lagrange4` in the usual normal form (one common orientation of the node differences) -/
theorem lagrange4_basis (x x0 x1 x2 x3 y0 y1 y2 y3 : α)
    (h01 : x0 ≠ x1) (h02 : x0 ≠ x2) (h03 : x0 ≠ x3) (h12 : x1 ≠ x2) (h13 : x1 ≠ x3) (h23 : x2 ≠ x3) :
    lagrange4 x x0 x1 x2 x3 y0 y1 y2 y3 =
      (x - x1) * (x - x2) * (x - x3) * y0 / ((x0 - x1) * (x0 - x2) * (x0 - x3))
      - (x - x0) * (x - x2) * (x - x3) * y1 / ((x0 - x1) * (x1 - x2) * (x1 - x3))
      + (x - x0) * (x - x1) * (x - x3) * y2 / ((x0 - x2) * (x1 - x2) * (x2 - x3))
      - (x - x0) * (x - x1) * (x - x2) * y3 / ((x0 - x3) * (x1 - x3) * (x2 - x3)) := by
  unfold lagrange4
  have e01 : x0 - x1 ≠ 0 := sub_ne_zero.mpr h01
  have e02 : x0 - x2 ≠ 0 := sub_ne_zero.mpr h02
  have e03 : x0 - x3 ≠ 0 := sub_ne_zero.mpr h03
  have e12 : x1 - x2 ≠ 0 := sub_ne_zero.mpr h12
  have e13 : x1 - x3 ≠ 0 := sub_ne_zero.mpr h13
  have e23 : x2 - x3 ≠ 0 := sub_ne_zero.mpr h23
  have r10 : x1 - x0 = -(x0 - x1) := by ring
  have r20 : x2 - x0 = -(x0 - x2) := by ring
  have r30 : x3 - x0 = -(x0 - x3) := by ring
  have r21 : x2 - x1 = -(x1 - x2) := by ring
  have r31 : x3 - x1 = -(x1 - x3) := by ring
  have r32 : x3 - x2 = -(x2 - x3) := by ring
  rw [r10, r20, r30, r21, r31, r32]
  field_simp
  ring

theorem lagrange4_cubic (a b c d x x0 x1 x2 x3 : α)
    (h01 : x0 ≠ x1) (h02 : x0 ≠ x2) (h03 : x0 ≠ x3) (h12 : x1 ≠ x2) (h13 : x1 ≠ x3) (h23 : x2 ≠ x3) :
    lagrange4 x x0 x1 x2 x3
      (a + b * x0 + c * x0 ^ 2 + d * x0 ^ 3) (a + b * x1 + c * x1 ^ 2 + d * x1 ^ 3)
      (a + b * x2 + c * x2 ^ 2 + d * x2 ^ 3) (a + b * x3 + c * x3 ^ 2 + d * x3 ^ 3)
      = a + b * x + c * x ^ 2 + d * x ^ 3 := by
  rw [lagrange4_basis x x0 x1 x2 x3 _ _ _ _ h01 h02 h03 h12 h13 h23]
  have e01 : x0 - x1 ≠ 0 := sub_ne_zero.mpr h01
  have e02 : x0 - x2 ≠ 0 := sub_ne_zero.mpr h02
  have e03 : x0 - x3 ≠ 0 := sub_ne_zero.mpr h03
  have e12 : x1 - x2 ≠ 0 := sub_ne_zero.mpr h12
  have e13 : x1 - x3 ≠ 0 := sub_ne_zero.mpr h13
  have e23 : x2 - x3 ≠ 0 := sub_ne_zero.mpr h23
  field_simp
  ring

end

/-! ### monadic plumbing -/
section
variable {β γ : Type}

theorem mapM_ok (f : β → Except Err γ) (g : β → γ) (l : List β) (h : ∀ x ∈ l, f x = .ok (g x)) :
    l.mapM f = .ok (l.map g) := by
  induction l with
  | nil => rfl
  | cons a t ih =>
    rw [List.mapM_cons, h a (List.mem_cons_self), ih (fun x hx => h x (List.mem_cons_of_mem _ hx))]
    rfl

end

/-! ### min / max of a list -/
section
variable {α : Type} [LinearOrder α]

theorem foldl_min_le (l : List α) (x : α) :
    l.foldl (fun m y => if y < m then y else m) x ≤ x ∧
    ∀ y ∈ l, l.foldl (fun m y => if y < m then y else m) x ≤ y := by
  induction l generalizing x with
  | nil => simp
  | cons a t ih =>
    simp only [List.foldl_cons, List.mem_cons]
    obtain ⟨h1, h2⟩ := ih (if a < x then a else x)
    have hx : (if a < x then a else x) ≤ x := by split_ifs with h; exact le_of_lt h; exact le_refl _
    have ha : (if a < x then a else x) ≤ a := by split_ifs with h; exact le_refl _; exact not_lt.mp h
    refine ⟨le_trans h1 hx, ?_⟩
    rintro y (rfl | hy)
    · exact le_trans h1 ha
    · exact h2 y hy

theorem foldl_min_mem (l : List α) (x : α) :
    l.foldl (fun m y => if y < m then y else m) x = x ∨
    l.foldl (fun m y => if y < m then y else m) x ∈ l := by
  induction l generalizing x with
  | nil => simp
  | cons a t ih =>
    simp only [List.foldl_cons, List.mem_cons]
    rcases ih (if a < x then a else x) with h | h
    · rw [h]; split_ifs
      · right; left; rfl
      · left; rfl
    · right; right; exact h

theorem foldl_max_ge (l : List α) (x : α) :
    x ≤ l.foldl (fun m y => if m < y then y else m) x ∧
    ∀ y ∈ l, y ≤ l.foldl (fun m y => if m < y then y else m) x := by
  induction l generalizing x with
  | nil => simp
  | cons a t ih =>
    simp only [List.foldl_cons, List.mem_cons]
    obtain ⟨h1, h2⟩ := ih (if x < a then a else x)
    have hx : x ≤ (if x < a then a else x) := by split_ifs with h; exact le_of_lt h; exact le_refl _
    have ha : a ≤ (if x < a then a else x) := by split_ifs with h; exact le_refl _; exact not_lt.mp h
    refine ⟨le_trans hx h1, ?_⟩
    rintro y (rfl | hy)
    · exact le_trans ha h1
    · exact h2 y hy

theorem foldl_max_mem (l : List α) (x : α) :
    l.foldl (fun m y => if m < y then y else m) x = x ∨
    l.foldl (fun m y => if m < y then y else m) x ∈ l := by
  induction l generalizing x with
  | nil => simp
  | cons a t ih =>
    simp only [List.foldl_cons, List.mem_cons]
    rcases ih (if x < a then a else x) with h | h
    · rw [h]; split_ifs
      · right; left; rfl
      · left; rfl
    · right; right; exact h

theorem listMin_spec {l : List α} {m : α} (h : listMin l = some m) : m ∈ l ∧ ∀ y ∈ l, m ≤ y := by
  cases l with
  | nil => simp [listMin] at h
  | cons x t =>
    simp only [listMin, Option.some.injEq] at h
    subst h
    obtain ⟨h1, h2⟩ := foldl_min_le t x
    refine ⟨?_, ?_⟩
    · rcases foldl_min_mem t x with h | h
      · rw [h]; exact List.mem_cons_self
      · exact List.mem_cons_of_mem _ h
    · intro y hy
      rcases List.mem_cons.mp hy with rfl | hy
      · exact h1
      · exact h2 y hy

theorem listMax_spec {l : List α} {m : α} (h : listMax l = some m) : m ∈ l ∧ ∀ y ∈ l, y ≤ m := by
  cases l with
  | nil => simp [listMax] at h
  | cons x t =>
    simp only [listMax, Option.some.injEq] at h
    subst h
    obtain ⟨h1, h2⟩ := foldl_max_ge t x
    refine ⟨?_, ?_⟩
    · rcases foldl_max_mem t x with h | h
      · rw [h]; exact List.mem_cons_self
      · exact List.mem_cons_of_mem _ h
    · intro y hy
      rcases List.mem_cons.mp hy with rfl | hy
      · exact h1
      · exact h2 y hy

theorem listMin_isSome {l : List α} (h : l ≠ []) : ∃ m, listMin l = some m := by
  cases l with
  | nil => exact absurd rfl h
  | cons x t => exact ⟨_, rfl⟩

theorem listMax_isSome {l : List α} (h : l ≠ []) : ∃ m, listMax l = some m := by
  cases l with
  | nil => exact absurd rfl h
  | cons x t => exact ⟨_, rfl⟩

end

end Cij.V2P
