/-
  Bridge for C20 (no property statements here): the model's complex numbers (pairs `Cx ℝ`) and vectors (lists of
  pairs) as Mathlib's `ℂ` and `EuclideanSpace ℂ (Fin n)`;  `overlap b t` — one entry of `numpy.conj(base) @ target.T`
  — IS Mathlib's `inner ℂ b t` (conjugate-linear in the FIRST argument, as in the Python), `Cx.abs` is the norm; the
  magnitude matrix inside `Evec.evecSort` entry by entry; `evecSort` on a matrix with a planted permutation.
-/
import CijProofs.Lemmas.Evec
import Mathlib.Analysis.InnerProductSpace.PiL2

set_option linter.unusedSectionVars false

namespace Cij.Evec
open ComplexConjugate

/-! ### pairs ↦ ℂ -/

/-- the complex number a model pair stands for -/
def Cx.toC (z : Cx ℝ) : ℂ := ⟨z.re, z.im⟩

@[simp] theorem toC_zero : Cx.toC Cx.zero = 0 := by
  apply Complex.ext <;> simp [Cx.toC, Cx.zero]

theorem toC_add (x y : Cx ℝ) : Cx.toC (Cx.add x y) = Cx.toC x + Cx.toC y := by
  apply Complex.ext <;> simp [Cx.toC, Cx.add]

theorem toC_mul (x y : Cx ℝ) : Cx.toC (Cx.mul x y) = Cx.toC x * Cx.toC y := by
  apply Complex.ext <;> simp [Cx.toC, Cx.mul]

theorem toC_conj (x : Cx ℝ) : Cx.toC (Cx.conj x) = conj (Cx.toC x) := by
  apply Complex.ext <;> simp [Cx.toC, Cx.conj]

theorem toC_injective : Function.Injective Cx.toC := by
  intro x y h
  have h1 := congrArg Complex.re h
  have h2 := congrArg Complex.im h
  exact cx_ext h1 h2

/-- `numpy.abs` on a pair is the complex norm -/
theorem abs_eq_norm (z : Cx ℝ) : Cx.abs z = ‖Cx.toC z‖ := by
  rw [Complex.norm_def, Complex.normSq_apply]; rfl

theorem normSq_eq_norm_sq (z : Cx ℝ) : Cx.normSq z = ‖Cx.toC z‖ ^ 2 := by
  rw [Complex.sq_norm, Complex.normSq_apply]; rfl

/-! ### lists of pairs ↦ ℂⁿ -/

/-- a model vector (list of pairs; a missing entry is 0) as a vector of the Euclidean space `ℂⁿ` -/
noncomputable def toVec (n : ℕ) (v : List (Cx ℝ)) : EuclideanSpace ℂ (Fin n) :=
  WithLp.toLp 2 fun k => Cx.toC (v.getD k Cx.zero)

@[simp] theorem toVec_apply (n : ℕ) (v : List (Cx ℝ)) (k : Fin n) : (toVec n v).ofLp k = Cx.toC (v.getD k Cx.zero) := rfl

theorem toC_foldl (l : List (Cx ℝ × Cx ℝ)) (acc : Cx ℝ) :
    Cx.toC (l.foldl (fun acc p => Cx.add acc (Cx.mul (Cx.conj p.1) p.2)) acc)
      = Cx.toC acc + (l.map fun p => conj (Cx.toC p.1) * Cx.toC p.2).sum := by
  induction l generalizing acc with
  | nil => simp
  | cons p l ih =>
    simp only [List.foldl_cons, ih, List.map_cons, List.sum_cons, toC_add, toC_mul, toC_conj]
    ring

/-- `overlap b t = Σ_k conj(b_k) · t_k` in ℂ -/
theorem toC_overlap (b t : List (Cx ℝ)) :
    Cx.toC (overlap b t) = ((b.zip t).map fun p => conj (Cx.toC p.1) * Cx.toC p.2).sum := by
  unfold overlap
  rw [toC_foldl]; simp

theorem zip_sum_eq_finsum : ∀ (n : ℕ) (b t : List (Cx ℝ)), b.length = n → t.length = n →
    ((b.zip t).map fun p => conj (Cx.toC p.1) * Cx.toC p.2).sum
      = ∑ k : Fin n, conj (Cx.toC (b.getD k Cx.zero)) * Cx.toC (t.getD k Cx.zero) := by
  intro n
  induction n with
  | zero =>
    intro b t hb ht
    have : b = [] := List.length_eq_zero_iff.mp hb
    subst this; simp
  | succ n ih =>
    intro b t hb ht
    cases b with
    | nil => simp at hb
    | cons x b =>
      cases t with
      | nil => simp at ht
      | cons y t =>
        rw [Fin.sum_univ_succ]
        simp only [List.zip_cons_cons, List.map_cons, List.sum_cons, Fin.val_zero, Fin.val_succ,
          List.getD_cons_zero, List.getD_cons_succ]
        rw [ih b t (by simpa using hb) (by simpa using ht)]

/-- **the bridge**: the model's overlap of two `n`-vectors is Mathlib's inner product of the corresponding vectors of
    `EuclideanSpace ℂ (Fin n)` — the FIRST argument (the base vector) is the conjugated one, as in
    `numpy.conj(base) @ target.T` -/
theorem toC_overlap_eq_inner (n : ℕ) (b t : List (Cx ℝ)) (hb : b.length = n) (ht : t.length = n) :
    Cx.toC (overlap b t) = inner ℂ (toVec n b) (toVec n t) := by
  rw [toC_overlap, zip_sum_eq_finsum n b t hb ht, PiLp.inner_apply]
  apply Finset.sum_congr rfl
  intro k _
  rw [RCLike.inner_apply, toVec_apply, toVec_apply, mul_comm]

/-- … hence the entry of the magnitude matrix is the norm of the inner product -/
theorem abs_overlap_eq_norm_inner (n : ℕ) (b t : List (Cx ℝ)) (hb : b.length = n) (ht : t.length = n) :
    Cx.abs (overlap b t) = ‖inner ℂ (toVec n b) (toVec n t)‖ := by
  rw [abs_eq_norm, toC_overlap_eq_inner n b t hb ht]

/-- `‖v‖² = Σ |v_k|²` -/
theorem norm_toVec_sq (n : ℕ) (v : List (Cx ℝ)) (hv : v.length = n) : ‖toVec n v‖ ^ 2 = sumNormSq v := by
  have h := toC_overlap_eq_inner n v v hv hv
  rw [overlap_self] at h
  rw [norm_sq_eq_re_inner (𝕜 := ℂ) (toVec n v), ← h]
  simp [Cx.toC]

theorem getD_zipWith {β γ δ : Type} (f : β → γ → δ) (l1 : List β) (l2 : List γ) (k : ℕ) (d1 : β) (d2 : γ) (d : δ)
    (h1 : k < l1.length) (h2 : k < l2.length) :
    (List.zipWith f l1 l2).getD k d = f (l1.getD k d1) (l2.getD k d2) := by
  simp [List.getD_eq_getElem?_getD, List.getElem?_zipWith, List.getElem?_eq_getElem h1, List.getElem?_eq_getElem h2]

/-- `c • b + δ`, component by component on pairs, is `c • b + δ` in `ℂⁿ` -/
theorem toVec_combination (n : ℕ) (c : Cx ℝ) (b d : List (Cx ℝ)) (hb : b.length = n) (hd : d.length = n) :
    toVec n (List.zipWith (fun bk dk => Cx.add (Cx.mul c bk) dk) b d) = Cx.toC c • toVec n b + toVec n d := by
  apply PiLp.ext
  intro k
  have hk1 : (k : ℕ) < b.length := hb ▸ k.isLt
  have hk2 : (k : ℕ) < d.length := hd ▸ k.isLt
  simp only [PiLp.add_apply, PiLp.smul_apply, toVec_apply, smul_eq_mul]
  rw [getD_zipWith _ b d k Cx.zero Cx.zero Cx.zero hk1 hk2, toC_add, toC_mul]

/-! ### the matrix inside `evecSort` -/

section run
variable {ι : Type}

/-- the magnitude matrix `numpy.abs(numpy.conj(base) @ target.T)` as `evecSort` builds it (0 outside the arrays) -/
noncomputable def magMat (T B : List (List (Cx ℝ))) : ℕ → ℕ → ℝ := fun i j =>
  (((B.toArray.map fun b => T.toArray.map fun t => Cx.abs (overlap b t))[i]?).bind (·[j]?)).getD 0

theorem evecSort_eq (items : List ι) (T B : List (List (Cx ℝ))) (hd : dimsOk items.length T B = true) :
    evecSort items T B =
      some ((evecSortRun items.length (magMat T B) (fun j => items[j]?)).map fun o => o.bind id) := by
  unfold evecSort magMat
  simp [hd]

theorem magMat_apply (T B : List (List (Cx ℝ))) (i j : ℕ) (hi : i < B.length) (hj : j < T.length) :
    magMat T B i j = Cx.abs (overlap B[i] T[j]) := by
  unfold magMat
  simp [hi, hj]

/-- `Planted` only looks at the entries with both indices below `n` -/
theorem Planted.congr {α : Type} [LinearOrder α] [Zero α] {n : ℕ} {a a' : ℕ → ℕ → α} {π : ℕ → ℕ}
    (h : Planted n a' π) (heq : ∀ i < n, ∀ j < n, a i j = a' i j) : Planted n a π := by
  refine ⟨h.range, h.inj, ?_, ?_⟩
  · intro i hi; rw [heq i hi _ (h.range i hi)]; exact h.pos i hi
  · intro i hi j hj hne
    rw [heq i hi j hj, heq i hi _ (h.range i hi)]; exact h.row i hi j hj hne

/-- a map of `{0,…,n-1}` into itself that is injective there lists a permutation of `range n` -/
theorem map_perm_range (n : ℕ) (π : ℕ → ℕ) (hrange : ∀ i < n, π i < n)
    (hinj : ∀ i < n, ∀ j < n, π i = π j → i = j) : ((List.range n).map π).Perm (List.range n) := by
  have hnd : ((List.range n).map π).Nodup := by
    rw [List.nodup_map_iff_inj_on (List.nodup_range)]
    intro i hi j hj h
    exact hinj i (List.mem_range.mp hi) j (List.mem_range.mp hj) h
  apply (List.perm_ext_iff_of_nodup hnd (List.nodup_range)).mpr
  intro x
  have hsub : ((List.range n).map π).toFinset ⊆ Finset.range n := by
    intro y hy
    simp only [List.mem_toFinset, List.mem_map, List.mem_range] at hy
    obtain ⟨i, hi, rfl⟩ := hy
    exact Finset.mem_range.mpr (hrange i hi)
  have hcard : (Finset.range n).card ≤ ((List.range n).map π).toFinset.card := by
    rw [List.toFinset_card_of_nodup hnd]; simp
  have heq := Finset.eq_of_subset_of_card_le hsub hcard
  constructor
  · intro hx
    have : x ∈ ((List.range n).map π).toFinset := List.mem_toFinset.mpr hx
    rw [heq] at this
    exact List.mem_range.mpr (Finset.mem_range.mp this)
  · intro hx
    have : x ∈ Finset.range n := Finset.mem_range.mpr (List.mem_range.mp hx)
    rw [← heq] at this
    exact List.mem_toFinset.mp this

/-- `evecSort` itself on vectors whose magnitude matrix has the planted permutation `π`: position `i` gets
    `items[π i]`, and the result is a permutation of the items -/
theorem evecSort_planted (items : List ι) (T B : List (List (Cx ℝ))) (π : ℕ → ℕ)
    (hd : dimsOk items.length T B = true) (hP : Planted items.length (magMat T B) π) :
    evecSort items T B = some ((List.range items.length).map fun i => items[π i]?) ∧
    ((List.range items.length).map fun i => items[π i]?).Perm (items.map some) := by
  constructor
  · rw [evecSort_eq items T B hd, evecSortRun_eq, List.map_map]
    congr 1
    apply List.map_congr_left
    intro i hi
    have h := (greedyLoop_elim items.length (magMat T B) π hP (fun j => items[j]?) items.length ∅
      (fun _ => none) (by simp) (by simp)).1 i (List.mem_range.mp hi) (by simp)
    rw [elim_empty] at h
    simp only [Function.comp, evecSortMag, h, Option.bind_some, id]
  · have h1 : ((List.range items.length).map fun i => items[π i]?) =
        ((List.range items.length).map π).map fun j => items[j]? := by rw [List.map_map]; rfl
    have h2 : items.map some = (List.range items.length).map fun j => items[j]? := by
      apply List.ext_getElem (by simp)
      intro k hk1 hk2
      simp at hk1
      simp [hk1]
    rw [h1, h2]
    exact (map_perm_range items.length π hP.range hP.inj).map _

theorem dimsOk_iff {β : Type} (n : ℕ) (T B : List (List β)) :
    dimsOk n T B = true ↔ T.length = n ∧ B.length = n ∧ ∀ v ∈ T ++ B, v.length = n := by
  unfold dimsOk
  simp only [List.all_cons, List.all_map, Bool.and_eq_true, beq_iff_eq, List.all_eq_true, Function.comp]

end run

end Cij.Evec
