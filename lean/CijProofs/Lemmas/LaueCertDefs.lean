/-
  Definitions for the kernel checks of the UNTRUSTED certificate data (`CijProofs/Certs/*.lean`, written by tools/gen_certs.py):

  * `defect_table g` — the literal table of a generator IS the matrix the model computes from `rotate`
    (`defectZ`, CijModel/Laue.lean): 441 entries, each an 81-term contraction over ℤ[√3], per generator;
  * `cert_<system>` — with K the relation rows translated from /repo on THIS run (`Generated.constraints_*`) and
    N the stacked tables of the Laue generators:  d₁·K = L₁·N  and  d₂·N = L₂·K  (d₁, d₂ ≠ 0), all rows have 21
    coefficients and zero right-hand side.

  No Mathlib here; everything is `decide +kernel` (axioms: none beyond propext).  An edited sign or factor in a
  constraints file makes the corresponding `cert_<system>` fail to check.
-/
import CijModel.Laue
import CijProofs.Certs.ActData
import CijProofs.Certs.SysData

namespace Cij.Laue
open Cij.Certs

def look (t : List (List (Int × Int))) (a b : Nat) : ZS :=
  let p := (t.getD a []).getD b (0, 0)
  ⟨p.1, p.2⟩

/-- relation rows as a matrix over ℤ[√3] (out of range = 0) -/
def Kmat (rows : List (List Int × Int)) : Nat → Nat → ZS := fun i j =>
  ZS.ofInt ((rows.getD i ([], 0)).1.getD j 0)

/-- the stacked literal tables: row `21·g + a` is row `a` of generator number `g` (out of range = 0) -/
def Nstack (gens : List Gen) : Nat → Nat → ZS := fun k j =>
  match gens[k / 21]? with
  | some g => look (defectLit g) (k % 21) j
  | none => 0

def zsOf (e : Nat × Int × Int) : ZS := ⟨e.2.1, e.2.2⟩

/-- `d·T[t] = Σ_{e ∈ L[t]} e.coef · S[e.src]` for all `t < nT`, all 21 columns; `d ≠ 0` -/
def combCheck (d : Int) (T : Nat → Nat → ZS) (nT : Nat) (S : Nat → Nat → ZS)
    (L : List (List (Nat × Int × Int))) : Bool :=
  decide (d ≠ 0) && (List.range nT).all fun t => (List.range 21).all fun j =>
    decide (ZS.ofInt d * T t j = (L.getD t []).foldr (fun e acc => zsOf e * S e.1 j + acc) 0)

def wellFormed (rows : List (List Int × Int)) : Bool :=
  rows.all fun r => decide (r.1.length = 21) && decide (r.2 = 0)

def certOK (name : String) (rows : List (List Int × Int)) : Bool :=
  let c := sysCert name
  let gens := laueGens name
  wellFormed rows
    && combCheck c.d1 (Kmat rows) rows.length (Nstack gens) c.l1
    && combCheck c.d2 (Nstack gens) (21 * gens.length) (Kmat rows) c.l2


end Cij.Laue
