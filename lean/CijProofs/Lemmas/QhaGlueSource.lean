/-
  C02 (also C13) — what `cij/core/qha_adapter.py` and `cij/util/units.py` say on this run (Generated/QhaGlue.lean, translated by
  tools/gens/qha_src.py), and what it means (CijModel/QhaGlue.lean):

    * INVENTORY: every def of both modules is translated as data; no statement outside the grammar; module-level statements by kind
    * OBJECT GRAPH: every field cij reads through the adapter is an attribute of ONE qha calculator object — the one
      `_load_qha_calculator` built — and the (T,V) fields, the volume grid and the temperature grid of the gap formula are
      `cv_tv_au`, `p_tv_au`, `finer_volumes_bohr3`, `temperature_array` of that object
    * `read_input`: the five fields are stored unchanged; a volume list that is not non-increasing is rejected with RuntimeError
    * `convert_unit`: value form and curried form; argument order
    * UNITS: every helper converts between like dimensions; `_from_x` undoes `_to_x`; dimensional analysis of the bodies of
      nonshear.py with the units of the fields handed over: every body is a pressure in Ry/bohr³, `Q` is dimensionless
-/
import CijModel.QhaGlue
import Generated.QhaGlue
import Generated.AdapterSpec
import Generated.AdapterGuard
import Generated.CalcGlueSpec
import Generated.NonShearGlue
import Generated.NonShearExprs
import Generated.StaticSpec
import CijProofs.Lemmas.StaticUnits
import CijProofs.Lemmas.NonShearCalculus
import Mathlib.Algebra.Order.Group.Defs
import Mathlib.Algebra.Order.Group.Unbundled.Basic
import Mathlib.Tactic.Ring
import Mathlib.Tactic.FieldSimp

namespace Cij.QhaGlue
open Generated.QhaGlue Cij.StaticSrc

/-! ### inventory -/

/-- the qualified names of the defs of qha_adapter.py -/
def adapterDefNames : List String := adapterDefs.map qualName

/-- **inventory of qha_adapter.py**: 38 defs, none defined twice; each is translated as data with every statement inside the grammar,
except `QHACalculator.desired_pressure_status`, which is the subject of tools/gens/adapter_guard.py; no class has class-level statements;
the only class with a base is `QHACalculator(qha.calculator.Calculator)`; the module level consists of imports, the logger and the four
classes -/
def AdapterInventory : Prop :=
  adapterDefs.length = 38 ∧ adapterDefNames.Nodup ∧
  (∀ d ∈ adapterDefs, d.how = .data → d.body.all (fun s => !s.isOther) = true) ∧
  (adapterDefs.filter (fun d => d.how != .data)).map qualName = ["QHACalculator.desired_pressure_status"] ∧
  (∀ d ∈ adapterDefs, d.kind ∈ ["method", "property", "staticmethod"]) ∧
  adapterClasses = [⟨"QHACalculator", ["qha.calculator.Calculator"], []⟩, ⟨"QHACalculatorAdapter", [], []⟩,
    ⟨"QHAVolumeBaseInterface", [], []⟩, ⟨"QHAPressureBaseInterface", [], []⟩] ∧
  (∀ d ∈ adapterDefs, adapterModule.isClass d.cls = true) ∧
  (adapterModuleStmts.filter (fun s => s.kind != "import")).map (fun s => (s.kind, s.name)) =
    [("assign", "logger"), ("class", "QHACalculator"), ("class", "QHACalculatorAdapter"), ("class", "QHAVolumeBaseInterface"),
     ("class", "QHAPressureBaseInterface")] ∧
  (adapterModuleStmts.filter (fun s => s.kind == "assign")).map (·.detail) = ["call:logging.getLogger(__name__)"]

instance : Decidable AdapterInventory := by unfold AdapterInventory; infer_instance

theorem adapter_inventory : AdapterInventory := by decide +kernel

/-- **inventory of units.py**: ten defs — `convert_unit` and nine helpers, every one translated as data (`convertUnit`, `unitHelpers`);
module level: docstring, two imports, `_T`, the default registry `units = pint.UnitRegistry()`, `__all__`, the defs — nothing else;
`__all__` lists `units` and defs of the module only, each once; the one def it does not export is `_to_kms` -/
def UnitsInventory : Prop :=
  unitsDefs = "convert_unit" :: unitHelpers.map (·.name) ∧ unitsDefs.Nodup ∧ unitsDefs.length = 10 ∧
  unitsModuleStmts.map (fun s => (s.kind, s.name)) =
    [("docstring", ""), ("import", "TypeVar"), ("import", "pint"), ("assign", "_T"), ("assign", "units"), ("assign", "__all__")]
      ++ unitsDefs.map (fun n => ("def", n)) ∧
  (unitsModuleStmts.filter (fun s => s.kind == "assign")).map (·.detail) = ["call:TypeVar('_T')", "call:pint.UnitRegistry()", "list"] ∧
  (∀ n ∈ unitsAll, n = "units" ∨ n ∈ unitsDefs) ∧ unitsAll.Nodup ∧
  unitsDefs.filter (fun n => !unitsAll.contains n) = ["_to_kms"]

instance : Decidable UnitsInventory := by unfold UnitsInventory; infer_instance

theorem units_inventory : UnitsInventory := by decide +kernel

/-! ### the object graph -/

/-- a `QHACalculatorAdapter(settings, qha_input)` -/
def adapterObj : Val := .new "QHACalculatorAdapter" (ofList [.opaque "settings", .opaque "qha_input"])

/-- the qha calculator `_load_qha_calculator` builds: `QHACalculator(copy.copy(DEFAULT_SETTINGS) …)` -/
def qhaObj : Val := .new "QHACalculator" (ofList [.ext ["copy", "copy"] (ofList [.opaque "DEFAULT_SETTINGS"])])

/-- the attribute of the qha calculator a chain of reads on the adapter ends in; `none` if it ends anywhere else -/
def fieldOf (chain : List String) : Option String :=
  match readChain adapterModule adapterObj chain with
  | some (.attr v a) => if v = qhaObj then some a else none
  | _ => none

/-- **the fields of the gap formula**: the adapter's own grid `v_array` and the volume interface's `v_array` are the SAME attribute
`finer_volumes_bohr3` of the same qha calculator object; `volume_base.heat_capacity` is its `cv_tv_au`, `volume_base.pressures` its
`p_tv_au`, `t_array` (both spellings) its `temperature_array`, `t_sample_array` its `temperature_sample_array`; `ntv` is the length of
`v_array`; `calculator` is the object `_load_qha_calculator` returned; `volume_base` / `pressure_base` are the interface objects made
once in `__init__` around that same object -/
def GapFields : Prop :=
  readChain adapterModule adapterObj ["calculator"] = some qhaObj ∧
  readChain adapterModule adapterObj ["v_array"] = some (.attr qhaObj "finer_volumes_bohr3") ∧
  readChain adapterModule adapterObj ["volume_base", "v_array"] = some (.attr qhaObj "finer_volumes_bohr3") ∧
  readChain adapterModule adapterObj ["volume_base", "heat_capacity"] = some (.attr qhaObj "cv_tv_au") ∧
  readChain adapterModule adapterObj ["volume_base", "pressures"] = some (.attr qhaObj "p_tv_au") ∧
  readChain adapterModule adapterObj ["t_array"] = some (.attr qhaObj "temperature_array") ∧
  readChain adapterModule adapterObj ["volume_base", "t_array"] = some (.attr qhaObj "temperature_array") ∧
  readChain adapterModule adapterObj ["pressure_base", "t_array"] = some (.attr qhaObj "temperature_array") ∧
  readChain adapterModule adapterObj ["t_sample_array"] = some (.attr qhaObj "temperature_sample_array") ∧
  readChain adapterModule adapterObj ["ntv"] = some (.len (.attr qhaObj "finer_volumes_bohr3")) ∧
  readChain adapterModule adapterObj ["volume_base"] = some (.new "QHAVolumeBaseInterface" (ofList [qhaObj])) ∧
  readChain adapterModule adapterObj ["pressure_base"] = some (.new "QHAPressureBaseInterface" (ofList [qhaObj]))

instance : Decidable GapFields := by unfold GapFields; infer_instance

theorem gap_fields : GapFields := by decide +kernel

/-- how often an attribute of `self` is assigned in all defs of a class -/
def assignCount (cls attr : String) : Nat :=
  ((adapterDefs.filter (·.cls == cls)).map fun d => (d.body.filter fun s => match s with
    | .assign t _ => t == ["self", attr] | _ => false).length).foldl (· + ·) 0

/-- **one object per adapter**: `calculator`, `volume_base_results`, `pressure_base_results` are assigned exactly once (in `__init__`),
and the interface classes assign their `calculator` once: every read returns the object made at construction (no fresh interface,
no second qha calculator); `v2p` is an empty method (`pass`) -/
def ObjectsStable : Prop :=
  assignCount "QHACalculatorAdapter" "calculator" = 1 ∧ assignCount "QHACalculatorAdapter" "volume_base_results" = 1 ∧
  assignCount "QHACalculatorAdapter" "pressure_base_results" = 1 ∧
  assignCount "QHAVolumeBaseInterface" "calculator" = 1 ∧ assignCount "QHAPressureBaseInterface" "calculator" = 1 ∧
  (adapterModule.find "QHACalculatorAdapter" "v2p").map (fun d => (d.kind, d.params, d.body)) = some ("method", ["self"], [.pass]) ∧
  (adapterModule.find "QHACalculator" "__init__").map (·.body) = some [.expr (.call ["super()", "__init__"] [["settings"]])]

instance : Decidable ObjectsStable := by unfold ObjectsStable; infer_instance

theorem objects_stable : ObjectsStable := by decide +kernel

/-- **the two translations of the interfaces agree**: for every row (property, attribute) of the tables `gen_adapter_spec` extracts,
the object-graph reading of `adapter.volume_base.<property>` / `adapter.pressure_base.<property>` is that attribute of the one qha
calculator (`""` = the property raises: no value) -/
def TablesAgree : Prop :=
  (∀ e ∈ Generated.qhaVolumeBaseAttrs, fieldOf ["volume_base", e.1] = if e.2 = "" then none else some e.2) ∧
  (∀ e ∈ Generated.qhaPressureBaseAttrs, fieldOf ["pressure_base", e.1] = if e.2 = "" then none else some e.2) ∧
  Generated.qhaVolumeBaseAttrs.length = 12 ∧ Generated.qhaPressureBaseAttrs.length = 12

instance : Decidable TablesAgree := by unfold TablesAgree; infer_instance

theorem tables_agree : TablesAgree := by decide +kernel

/-- the calls `_load_qha_calculator` makes on the calculator it is about to return, in order, as THIS translation reads them -/
def loadCalls : List (String × String) :=
  match adapterModule.find "QHACalculatorAdapter" "_load_qha_calculator" with
  | none => []
  | some d => d.body.filterMap fun s => match s with
    | .expr (.call ["calculator", m] args) => some (m, ",".intercalate (args.map fun a => ".".intercalate a))
    | _ => none

/-- … are the ones `adapter_guard.py` reads: `read_input(qha_input)` → `refine_grid()` → `desired_pressure_status()`; so the grid the
fields live on is the refined grid, and the volume-order guard of `read_input` runs before anything is computed -/
theorem load_calls_agree :
    loadCalls = Generated.adapterLoadCalls ∧
    loadCalls = [("read_input", "qha_input"), ("refine_grid", ""), ("desired_pressure_status", "")] := by decide +kernel

/-- **delegation**: cij's `Calculator` defines neither `v_array` nor `t_array`; its `__getattr__` hands unknown names to
`self.qha_calculator` (Generated.CalcGlue.calcDelegate), which `_load` assigns; the non-shear classes read `self.calculator.v_array`,
`self.calculator.t_array` and `self.calculator.qha_calculator` (Generated.NonShearGlue) — so the `V`, `T` of the gap are the adapter's
`v_array`, `t_array` above -/
def Delegation : Prop :=
  Generated.CalcGlue.calcDelegate = "qha_calculator" ∧
  (∀ c ∈ Generated.CalcGlue.classNames, c.1 = "Calculator" → "v_array" ∉ c.2 ∧ "t_array" ∉ c.2 ∧ "__getattr__" ∈ c.2) ∧
  (Generated.CalcGlue.classNames.filter (·.1 == "Calculator")).length = 1 ∧
  (∃ m ∈ Generated.CalcGlue.calcMethods, m.1 = "_load" ∧ "qha_calculator" ∈ m.2.2.1) ∧
  (Generated.NonShearGlue.accessors.filter (·.name == "v_array")).map (·.path) = [["calculator", "v_array"]] ∧
  (Generated.NonShearGlue.accessors.filter (·.name == "t_array")).map (·.path) = [["calculator", "t_array"]] ∧
  Generated.NonShearGlue.initStores.lookup "qha_calculator" = some (.selfPath ["calculator", "qha_calculator"])

instance : Decidable Delegation := by unfold Delegation; infer_instance

theorem delegation : Delegation := by decide +kernel

/-! ### `read_input` -/

/-- the translated statements of `QHACalculator.read_input` -/
def readInputBody : List Stmt := ((adapterModule.find "QHACalculator" "read_input").map (·.body)).getD []

/-- the five fields handed to qha, in order, each the file's field unchanged -/
def fiveFields : List (Path × Rhs) :=
  [(["self", "_formula_unit_number"], .path ["qha_input", "nm"]),
   (["self", "_volumes"], .arrayOfField "volume" ["qha_input", "volumes"]),
   (["self", "_static_energies"], .arrayOfField "energy" ["qha_input", "volumes"]),
   (["self", "_frequencies"], .arrayOfNestedPick 1 2 "q_points" ["qha_input", "volumes"]),
   (["self", "_q_weights"], .arrayOfPick 1 2 ["qha_input", "weights"])]

theorem readInputBody_eq : readInputBody =
    [.assign ["self", "_formula_unit_number"] (.path ["qha_input", "nm"]),
     .assign ["self", "_volumes"] (.arrayOfField "volume" ["qha_input", "volumes"]),
     .guardRaise true ["qha", "tools", "is_monotonic_decreasing"] [["self", "_volumes"]] "RuntimeError",
     .assign ["self", "_static_energies"] (.arrayOfField "energy" ["qha_input", "volumes"]),
     .assign ["self", "_frequencies"] (.arrayOfNestedPick 1 2 "q_points" ["qha_input", "volumes"]),
     .assign ["self", "_q_weights"] (.arrayOfPick 1 2 ["qha_input", "weights"])] := by decide +kernel

section
variable {α : Type} [Sub α] [LE α] [DecidableLE α] [OfNat α 0]

/-- **`read_input` is the source**: for every list of volumes (any ordered scalar type — also `Float`, where a NaN difference
rejects), the translated statements store exactly the five fields when `is_monotonic_decreasing(volumes)` and raise RuntimeError
otherwise; nothing else happens -/
theorem read_input_is_source (vols : List α) :
    runReadInput vols readInputBody [] =
      some (if isMonotonicDecreasing vols then .ok fiveFields else .error "RuntimeError") := by
  rw [readInputBody_eq]
  cases h : isMonotonicDecreasing vols <;>
    simp [runReadInput, predMeaning, List.lookup, fiveFields, h]

end

section
variable {α : Type} [AddCommGroup α] [LinearOrder α] [IsOrderedAddMonoid α]

theorem diff_all_nonpos_iff (xs : List α) :
    isMonotonicDecreasing xs = true ↔ ∀ i (h : i + 1 < xs.length), xs[i + 1] ≤ xs[i] := by
  induction xs with
  | nil => simp [isMonotonicDecreasing, diff]
  | cons a t ih =>
    cases t with
    | nil => simp [isMonotonicDecreasing, diff]
    | cons b t' =>
      have ih' : ((diff (b :: t')).all fun d => decide (d ≤ 0)) = true ↔
          ∀ i (h : i + 1 < (b :: t').length), (b :: t')[i + 1] ≤ (b :: t')[i] := ih
      simp only [isMonotonicDecreasing, diff, List.all_cons, Bool.and_eq_true, decide_eq_true_eq, sub_nonpos]
      rw [ih']
      constructor
      · rintro ⟨h0, hr⟩ i hi
        cases i with
        | zero => simpa using h0
        | succ j => exact hr j (by simp only [List.length_cons] at hi ⊢; omega)
      · intro hall
        refine ⟨by simpa using hall 0 (by simp), fun i hi => ?_⟩
        exact hall (i + 1) (by simp only [List.length_cons] at hi ⊢; omega)

/-- **volume blocks not in decreasing order are rejected**: over any linearly ordered additive group (ℝ, ℚ, ℤ) the translated
`read_input` accepts a list of volumes iff it is non-increasing (every next volume ≤ the previous one; equal neighbours pass, as in
`np.all(np.diff(v) <= 0)`), and raises RuntimeError as soon as one volume is larger than its predecessor -/
theorem read_input_accepts_iff (vols : List α) :
    (runReadInput vols readInputBody [] = some (.ok fiveFields) ↔ ∀ i (h : i + 1 < vols.length), vols[i + 1] ≤ vols[i]) ∧
    ((∃ i, ∃ h : i + 1 < vols.length, vols[i] < vols[i + 1]) → runReadInput vols readInputBody [] = some (.error "RuntimeError")) := by
  rw [read_input_is_source]
  constructor
  · rw [← diff_all_nonpos_iff]
    cases isMonotonicDecreasing vols <;> simp
  · rintro ⟨i, h, hlt⟩
    have : isMonotonicDecreasing vols = false := by
      by_contra hc
      have ht : isMonotonicDecreasing vols = true := by simpa using hc
      exact absurd ((diff_all_nonpos_iff vols).1 ht i h) (not_le.2 hlt)
    simp [this]

end

/-! ### `convert_unit` -/

/-- **`convert_unit` is the source**: for any type of units and any conversion `conv u u' x` (= pint's
`units.Quantity(x, u).to(u').magnitude`), `convert_unit(uFrom, uTo, v)` is `conv uFrom uTo v` — first argument the source unit, second
the target — and `convert_unit(uFrom, uTo)` is the function `conv uFrom uTo` -/
theorem convert_unit_is_source {U α : Type} (conv : U → U → α → α) (uFrom uTo : U) :
    (∀ v : α, convertUnit.meaning conv uFrom uTo (some v) = some (.value (conv uFrom uTo v))) ∧
    convertUnit.meaning conv uFrom uTo none = some (.function (conv uFrom uTo)) := by
  constructor
  · intro v; rfl
  · rfl

/-! ### the unit helpers -/

/-- the helper of that name in units.py -/
def helper? (n : String) : Option UnitHelper := unitHelpers.find? fun h => h.name = n

/-- dimension (in halves) of a pint unit expression -/
def uDim (e : UExpr) : Option Dim := (UExpr.mono2 e).bind Mono2.dim

/-- **every helper converts between units of one dimension** (ℤ-exponent vectors over length, mass, time, temperature, amount; unit
expressions → monomials → dimension), and the nine helpers are these -/
def HelpersDimensional : Prop :=
  unitHelpers.map (·.name) = ["_to_gpa", "_from_gpa", "_to_ang3", "_from_ang3", "_to_ev", "_from_ev", "_from_gcm3", "_to_gcm3", "_to_kms"] ∧
  (∀ h ∈ unitHelpers, (uDim h.src).isSome = true ∧ uDim h.src = uDim h.dst) ∧
  (helper? "_to_gpa").map (fun h => uDim h.dst) = some (some ⟨-2, 2, -4, 0, 0⟩) ∧
  (helper? "_to_ang3").map (fun h => uDim h.dst) = some (some ⟨6, 0, 0, 0, 0⟩) ∧
  (helper? "_to_ev").map (fun h => uDim h.dst) = some (some ⟨4, 2, -4, 0, 0⟩) ∧
  (helper? "_to_gcm3").map (fun h => uDim h.dst) = some (some ⟨-6, 2, 0, 0, 0⟩) ∧
  (helper? "_to_kms").map (fun h => uDim h.dst) = some (some ⟨2, 0, -2, 0, 0⟩)

instance : Decidable HelpersDimensional := by unfold HelpersDimensional uDim; infer_instance

theorem helpers_dimensional : HelpersDimensional := by decide +kernel

/-- the `_to_x` / `_from_x` pairs -/
def helperPairs : List (String × String) :=
  [("_to_gpa", "_from_gpa"), ("_to_ang3", "_from_ang3"), ("_to_ev", "_from_ev"), ("_to_gcm3", "_from_gcm3")]

/-- `_from_x` is `_to_x` with source and target exchanged, as unit expressions -/
def pairInverse (p : String × String) : Bool :=
  match helper? p.1, helper? p.2 with
  | some a, some b => a.src == b.dst && a.dst == b.src
  | _, _ => false

/-- **`_from_x` is `_to_x` with source and target exchanged**, for the four pairs -/
theorem pairs_inverse : helperPairs.all pairInverse = true := by decide +kernel

/-- hence `_from_x(_to_x(v)) = v` and `_to_x(_from_x(v)) = v` for every value, whatever non-zero values the unit names have
(`factor` = one source unit in target units, Lemmas/StaticUnits.lean) -/
theorem pair_roundtrip (base : String → ℝ) (p : String × String) (hp : p ∈ helperPairs) (a b : UnitHelper)
    (ha : helper? p.1 = some a) (hb : helper? p.2 = some b) (h1 : a.src.val base ≠ 0) (h2 : a.dst.val base ≠ 0) (v : ℝ) :
    v * a.factor base * b.factor base = v ∧ v * b.factor base * a.factor base = v := by
  have hpi := List.all_eq_true.1 pairs_inverse p hp
  simp only [pairInverse, ha, hb, Bool.and_eq_true, beq_iff_eq] at hpi
  obtain ⟨e1, e2⟩ := hpi
  unfold UnitHelper.factor
  rw [← e1, ← e2]
  constructor <;> field_simp

/-- C18's table of helpers (Generated.staticUnitHelpers) is a sub-table of this one: one reading of units.py -/
theorem helpers_agree_with_static : ∀ h ∈ Generated.staticUnitHelpers, h ∈ unitHelpers := by decide +kernel

/-! ### units of the fields and dimensional analysis of the gap -/

/-- Ry/bohr³, exponents in halves -/
def pressureAu : Mono2 := [("rydberg", 2), ("bohr", -6)]

/-- the unit of the qha field a chain of reads on the adapter ends in -/
def chainUnit (chain : List String) : Option Mono2 := (fieldOf chain).bind qhaFieldUnit

/-- the target unit of the conversion bound to `name` in `method` of the longitudinal class of nonshear.py (Generated.NonShearGlue) -/
def convUnit (method name : String) : Option Mono2 :=
  (Generated.NonShearGlue.unitConvs.find? fun c => c.cls == "LongitudinalElasticModulusPhononContribution" && c.method == method
    && c.name == name).map fun c => ofMono c.to

open Cij.NSExpr in
/-- unit of every symbol of the translated bodies, READ OFF the translated sources: `T`, `V`, `C_V`, `P` from the qha field the
adapter hands over (through the object graph), `k`, `h` from the `.to(…)` unit of their `units.Quantity` conversion in the method;
the static pressure and the partial results are pressures in Ry/bohr³; `na` is a number -/
def symUnit (method : String) : SSym → Option Mono2
  | .T => chainUnit ["t_array"]
  | .V => chainUnit ["v_array"]
  | .cv => chainUnit ["volume_base", "heat_capacity"]
  | .P => chainUnit ["volume_base", "pressures"]
  | .k => convUnit method "k"
  | .h => convUnit method "h"
  | .na => some Mono2.one
  | .pst | .zp | .th | .iso | .gap => some pressureAu

/-- phonon frequencies are wavenumbers in cm⁻¹ -/
def freqUnit : Mono2 := [("cm", -2)]

def isPressureAu (m : Option Mono2) : Bool :=
  match m with
  | some x => Mono2.eqv x pressureAu && (Mono2.dim x == some ⟨-2, 2, -4, 0, 0⟩)
  | none => false

/-- **dimension bookkeeping of the gap** (monomials over unit names, ℤ exponents; then SI dimension vectors).  With `T` in K, `V` in
bohr³, `C_V` in Ry/K (the units of the qha fields the translated adapter hands over) and `k_B` converted to Ry/K (the `.to(…)` of the
translated conversion), the translated body of `isothermal_to_adiabatic` — both classes — is a pressure in Ry/bohr³ exactly: the same
monomial as the `pressures` field, as the source unit of `_to_gpa`, and as the statement's `T·V·(∂P/∂T)²/C_V` with `P` in the unit of
`pressures`; `value_adiabatic = value_isothermal + gap` adds like units -/
def GapUnits : Prop :=
  chainUnit ["t_array"] = some [("K", 2)] ∧ chainUnit ["v_array"] = some [("bohr", 6)] ∧
  chainUnit ["volume_base", "heat_capacity"] = some [("rydberg", 2), ("K", -2)] ∧
  isPressureAu (chainUnit ["volume_base", "pressures"]) = true ∧
  convUnit "isothermal_to_adiabatic" "k" = some [("K", -2), ("rydberg", 2)] ∧
  isPressureAu (unitOfS (symUnit "isothermal_to_adiabatic") freqUnit Generated.nsGapLong.expr) = true ∧
  isPressureAu (unitOfS (symUnit "isothermal_to_adiabatic") freqUnit Generated.nsGapOff.expr) = true ∧
  isPressureAu (unitOfS (symUnit "value_adiabatic") freqUnit Generated.nsAdiaLong.expr) = true ∧
  isPressureAu (unitOfS (symUnit "value_adiabatic") freqUnit Generated.nsAdiaOff.expr) = true ∧
  isPressureAu ((helper? "_to_gpa").bind fun h => UExpr.mono2 h.src) = true ∧
  isPressureAu (do
    let t ← chainUnit ["t_array"]; let v ← chainUnit ["v_array"]; let c ← chainUnit ["volume_base", "heat_capacity"]
    let p ← chainUnit ["volume_base", "pressures"]
    let dpdt := Mono2.div p t
    pure (Mono2.div (Mono2.mul t (Mono2.mul v (Mono2.mul dpdt dpdt))) c)) = true

instance : Decidable GapUnits := by unfold GapUnits; infer_instance

theorem gap_units : GapUnits := by decide +kernel

/-- **every body of the non-shear classes is a pressure in Ry/bohr³** with the same assignments (`h` in Ry·cm, frequencies in cm⁻¹):
zero-point, thermal and isothermal value of both classes — so the isothermal value the gap is added to carries the gap's unit -/
def BodiesUnits : Prop :=
  isPressureAu (unitOfS (symUnit "zero_point_contribution") freqUnit Generated.nsZpLong.expr) = true ∧
  isPressureAu (unitOfS (symUnit "zero_point_contribution") freqUnit Generated.nsZpOff.expr) = true ∧
  isPressureAu (unitOfS (symUnit "thermal_contribution") freqUnit Generated.nsThLong.expr) = true ∧
  isPressureAu (unitOfS (symUnit "thermal_contribution") freqUnit Generated.nsThOff.expr) = true ∧
  isPressureAu (unitOfS (symUnit "value_isothermal") freqUnit Generated.nsIsoLong.expr) = true ∧
  isPressureAu (unitOfS (symUnit "value_isothermal") freqUnit Generated.nsIsoOff.expr) = true

instance : Decidable BodiesUnits := by unfold BodiesUnits; infer_instance

theorem bodies_units : BodiesUnits := by decide +kernel

/-- the `h_div_k` of nonshear.py: target unit of its conversion -/
def hdkUnit : Option Mono2 :=
  (Generated.NonShearGlue.unitConvs.find? fun c => c.name == "h_div_k").map fun c => ofMono c.to

/-- **`Q = ħω/k_BT` is dimensionless**: the translated `Q` with `h_div_k` in the unit its conversion targets (K·cm), ω in cm⁻¹ and `T`
in the unit of the adapter's `t_array` has the empty monomial; the conversion's source unit is that of `_h / _k` with `_h` in J·m
(= (molar Planck constant × c)/Avogadro constant of scipy's table) and `_k` in eV/K, of the same dimension as K·cm; `k_B` is converted
from eV/K to Ry/K and `h` from J·m to Ry·cm, like to like -/
def QUnits : Prop :=
  hdkUnit = some [("K", 2), ("cm", 2)] ∧
  (match hdkUnit, chainUnit ["t_array"] with
   | some hk, some t => (unitOfQ hk freqUnit t Generated.NonShearGlue.qDef).map (Mono2.eqv Mono2.one) = some true
   | _, _ => False) ∧
  (∀ c ∈ Generated.NonShearGlue.unitConvs, (Mono2.dim (ofMono c.frm)).isSome = true ∧ Mono2.dim (ofMono c.frm) = Mono2.dim (ofMono c.to)) ∧
  (∀ c ∈ Generated.NonShearGlue.unitConvs, c.name = "k" → c.value = "_k" ∧ ofMono c.frm = [("K", -2), ("eV", 2)] ∧
    ofMono c.to = [("K", -2), ("rydberg", 2)]) ∧
  (∀ c ∈ Generated.NonShearGlue.unitConvs, c.name = "h" → c.value = "_h" ∧ ofMono c.frm = [("J", 2), ("m", 2)] ∧
    ofMono c.to = [("cm", 2), ("rydberg", 2)]) ∧
  (∀ c ∈ Generated.NonShearGlue.unitConvs, c.name = "h" ∨ c.name = "k" ∨ c.name = "h_div_k") ∧
  Generated.NonShearGlue.constDefs = [("_h", .div (.phys "molar Planck constant times c" 0) (.phys "Avogadro constant" 0)),
    ("_k", .phys "Boltzmann constant in eV/K" 0)]

instance : Decidable QUnits := by
  unfold QUnits
  refine @instDecidableAnd _ _ _ (@instDecidableAnd _ _ ?_ _)
  cases hdkUnit <;> cases chainUnit ["t_array"] <;> infer_instance

theorem q_units : QUnits := by decide +kernel

/-! ### the same bookkeeping as a statement about NUMBERS: covariance under a change of units -/

/-- value of a monomial with whole exponents (every halves-exponent even) when one unit `u` is worth `lam u` -/
noncomputable def Mono2.val (lam : String → ℝ) (m : Mono2) : ℝ := (m.map fun p => lam p.1 ^ (p.2 / 2)).prod

open Cij.NSExpr in
/-- the environment of a body after a change of units: every symbol is multiplied by the value of its unit -/
noncomputable def rescale (lam : String → ℝ) (method : String) (e : SEnv ℝ) : SEnv ℝ :=
  let f := fun s => Mono2.val lam ((symUnit method s).getD [])
  { e with h := f .h * e.h, k := f .k * e.k, T := f .T * e.T, V := f .V * e.V, cv := f .cv * e.cv, P := f .P * e.P,
           pst := f .pst * e.pst, zp := f .zp * e.zp, th := f .th * e.th, iso := f .iso * e.iso, gap := f .gap * e.gap }

theorem chainUnit_T : chainUnit ["t_array"] = some [("K", 2)] := gap_units.1
theorem chainUnit_V : chainUnit ["v_array"] = some [("bohr", 6)] := gap_units.2.1
theorem chainUnit_cv : chainUnit ["volume_base", "heat_capacity"] = some [("rydberg", 2), ("K", -2)] := gap_units.2.2.1
theorem convUnit_k : convUnit "isothermal_to_adiabatic" "k" = some [("K", -2), ("rydberg", 2)] := gap_units.2.2.2.2.1

open Cij.NSExpr in
/-- **the translated gap is covariant**: measure temperature, length and energy in other units (K → lam K, bohr → lam bohr, rydberg →
lam rydberg, all non-zero), i.e. multiply `T`, `V`, `C_V`, `k_B` by the values of the units the sources give them; the translated body
of `isothermal_to_adiabatic` is multiplied by the value of Ry/bohr³ — it is a pressure in the atomic units of its inputs, for every
spectrum, weights and grid point -/
theorem gap_covariant (lam : String → ℝ) (hK : lam "K" ≠ 0) (hb : lam "bohr" ≠ 0) (hr : lam "rydberg" ≠ 0) (e : SEnv ℝ) :
    evalS (rescale lam "isothermal_to_adiabatic" e) Generated.nsGapLong.expr
      = Mono2.val lam pressureAu * evalS e Generated.nsGapLong.expr ∧
    evalS (rescale lam "isothermal_to_adiabatic" e) Generated.nsGapOff.expr
      = Mono2.val lam pressureAu * evalS e Generated.nsGapOff.expr := by
  have hT : symUnit "isothermal_to_adiabatic" .T = some [("K", 2)] := chainUnit_T
  have hV : symUnit "isothermal_to_adiabatic" .V = some [("bohr", 6)] := chainUnit_V
  have hc : symUnit "isothermal_to_adiabatic" .cv = some [("rydberg", 2), ("K", -2)] := chainUnit_cv
  have hk : symUnit "isothermal_to_adiabatic" .k = some [("K", -2), ("rydberg", 2)] := convUnit_k
  constructor <;>
  · simp only [Generated.nsGapLong, Generated.nsGapOff, evalS, SEnv.get, rescale, hT, hV, hc, hk, Option.getD_some, Mono2.val,
      pressureAu, List.map_cons, List.map_nil, List.prod_cons, List.prod_nil]
    norm_num [zpow_ofNat, zpow_neg]
    field_simp

open Cij.NSGlue in
/-- **the translated `Q` is invariant** under the same change of units: `h_div_k` in K·cm, ω in cm⁻¹, `T` in K -/
theorem q_invariant (lam : String → ℝ) (hK : lam "K" ≠ 0) (hc : lam "cm" ≠ 0) (hdk T f : ℝ) :
    evalQDef (Mono2.val lam (hdkUnit.getD []) * hdk) (Mono2.val lam ((chainUnit ["t_array"]).getD []) * T)
        (Mono2.val lam freqUnit * f) Generated.NonShearGlue.qDef
      = evalQDef hdk T f Generated.NonShearGlue.qDef := by
  have h1 : hdkUnit = some [("K", 2), ("cm", 2)] := q_units.1
  simp only [h1, chainUnit_T, Option.getD_some, Mono2.val, freqUnit, Generated.NonShearGlue.qDef, evalQDef, List.map_cons,
    List.map_nil, List.prod_cons, List.prod_nil]
  norm_num [zpow_ofNat, zpow_neg]
  field_simp

end Cij.QhaGlue
