/- Helper lemmas for C10 (no property statements here). -/
import CijModel.Voigt
namespace Cij

theorem mem_idx3 (i : Int) : i ∈ idx3 ↔ 1 ≤ i ∧ i ≤ 3 := by
  simp [idx3]; omega

theorem mem_idx6 (i : Int) : i ∈ idx6 ↔ 1 ≤ i ∧ i ≤ 6 := by
  simp [idx6]; omega

theorem mem_allTuples (i j k l : Int) :
    (i, j, k, l) ∈ allTuples ↔ (1 ≤ i ∧ i ≤ 3) ∧ (1 ≤ j ∧ j ≤ 3) ∧ (1 ≤ k ∧ k ≤ 3) ∧ (1 ≤ l ∧ l ≤ 3) := by
  simp only [allTuples, List.mem_flatMap, List.mem_map, mem_idx3, Prod.mk.injEq]
  constructor
  · rintro ⟨a, ha, b, hb, c, hc, d, hd, rfl, rfl, rfl, rfl⟩; exact ⟨ha, hb, hc, hd⟩
  · rintro ⟨ha, hb, hc, hd⟩; exact ⟨i, ha, j, hb, k, hc, l, hd, rfl, rfl, rfl, rfl⟩

theorem mem_allPairs (a b : Int) : (a, b) ∈ allPairs ↔ (1 ≤ a ∧ a ≤ 6) ∧ (1 ≤ b ∧ b ≤ 6) := by
  simp only [allPairs, List.mem_flatMap, List.mem_map, mem_idx6, Prod.mk.injEq]
  constructor
  · rintro ⟨x, hx, y, hy, rfl, rfl⟩; exact ⟨hx, hy⟩
  · rintro ⟨hx, hy⟩; exact ⟨a, hx, b, hy, rfl, rfl⟩

theorem strain_fromStandard_range (a b : Int) (s : Strain) (h : Strain.fromStandard a b = some s) :
    1 ≤ a ∧ a ≤ 3 ∧ 1 ≤ b ∧ b ≤ 3 := by
  unfold Strain.fromStandard at h
  simp only [voigtTable, Generated.voigtToStandard] at h
  split at h <;> simp at h <;> omega

theorem strain_fromVoigt_range (v : Int) (s : Strain) (h : Strain.fromVoigt v = some s) : 1 ≤ v ∧ v ≤ 6 := by
  by_cases hv : 1 ≤ v ∧ v ≤ 6
  · exact hv
  · exfalso
    have h1 : ((1:Int) == v) = false := by simp; omega
    have h2 : ((2:Int) == v) = false := by simp; omega
    have h3 : ((3:Int) == v) = false := by simp; omega
    have h4 : ((4:Int) == v) = false := by simp; omega
    have h5 : ((5:Int) == v) = false := by simp; omega
    have h6 : ((6:Int) == v) = false := by simp; omega
    simp [Strain.fromVoigt, voigtLookup, voigtTable, Generated.voigtToStandard, List.find?,
      h1, h2, h3, h4, h5, h6] at h

theorem modulus_fromStandard_some (i j k l : Int) (m : Modulus) (h : Modulus.fromStandard i j k l = some m) :
    ∃ a b, Strain.fromStandard i j = some a ∧ Strain.fromStandard k l = some b := by
  unfold Modulus.fromStandard at h
  cases ha : Strain.fromStandard i j with
  | none => simp [ha] at h
  | some a =>
    cases hb : Strain.fromStandard k l with
    | none => simp [ha, hb] at h
    | some b => exact ⟨a, b, rfl, rfl⟩

theorem modulus_fromVoigt_some (i j : Int) (m : Modulus) (h : Modulus.fromVoigt i j = some m) :
    ∃ a b, Strain.fromVoigt i = some a ∧ Strain.fromVoigt j = some b := by
  unfold Modulus.fromVoigt at h
  cases ha : Strain.fromVoigt i with
  | none => simp [ha] at h
  | some a =>
    cases hb : Strain.fromVoigt j with
    | none => simp [ha, hb] at h
    | some b => exact ⟨a, b, rfl, rfl⟩

end Cij
