/- Real-analysis helper lemmas about Q1(q) = q/(e^q − 1) and Q2(q) = q² e^q/(e^q − 1)²  (C12, also used by C01/C02). -/
import Mathlib.Analysis.SpecialFunctions.Trigonometric.DerivHyp
import Mathlib.Analysis.SpecialFunctions.Exp
import Mathlib.Tactic.Linarith
import Mathlib.Tactic.Positivity
import Mathlib.Tactic.FieldSimp
import Mathlib.Tactic.Ring
import CijModel.QExpr

namespace Cij
open Real

noncomputable def Q1r (q : ℝ) : ℝ := q / (Real.exp q - 1)
noncomputable def Q2r (q : ℝ) : ℝ := q ^ 2 * Real.exp q / (Real.exp q - 1) ^ 2

theorem exp_sub_one_pos {q : ℝ} (hq : 0 < q) : 0 < Real.exp q - 1 := by
  have := Real.add_one_lt_exp hq.ne'
  linarith

theorem one_sub_exp_neg_pos {q : ℝ} (hq : 0 < q) : 0 < 1 - Real.exp (-q) := by
  have : Real.exp (-q) < 1 := by
    rw [Real.exp_lt_one_iff]; linarith
  linarith

/-- the overflow-safe spelling equals the textbook one -/
theorem q2_forms_eq {q : ℝ} (hq : 0 < q) :
    q ^ 2 * Real.exp (-q) / (1 - Real.exp (-q)) ^ 2 = Q2r q := by
  unfold Q2r
  have h1 := exp_sub_one_pos hq
  have h2 := one_sub_exp_neg_pos hq
  have he : Real.exp (-q) = (Real.exp q)⁻¹ := Real.exp_neg q
  have hp : 0 < Real.exp q := Real.exp_pos q
  rw [he]
  have h3 : (1 - (Real.exp q)⁻¹) ≠ 0 := by rw [← he]; exact h2.ne'
  field_simp

theorem Q1r_pos {q : ℝ} (hq : 0 < q) : 0 < Q1r q := div_pos hq (exp_sub_one_pos hq)

theorem Q1r_lt_one {q : ℝ} (hq : 0 < q) : Q1r q < 1 := by
  unfold Q1r
  rw [div_lt_one (exp_sub_one_pos hq)]
  have := Real.add_one_lt_exp hq.ne'
  linarith

theorem Q2r_pos {q : ℝ} (hq : 0 < q) : 0 < Q2r q := by
  unfold Q2r
  have := exp_sub_one_pos hq
  positivity

/-- Q2 = ((q/2)/sinh(q/2))² ≤ 1 -/
theorem Q2r_le_one {q : ℝ} (hq : 0 < q) : Q2r q ≤ 1 := by
  unfold Q2r
  have h1 := exp_sub_one_pos hq
  rw [div_le_one (by positivity)]
  -- q e^{q/2} ≤ e^q − 1  ⇐  q/2 ≤ sinh (q/2)
  have hs : q / 2 ≤ Real.sinh (q / 2) := Real.self_le_sinh_iff.mpr (by linarith)
  rw [Real.sinh_eq] at hs
  have ha : Real.exp q = Real.exp (q / 2) * Real.exp (q / 2) := by rw [← Real.exp_add]; ring_nf
  have hb : Real.exp (-(q / 2)) = (Real.exp (q / 2))⁻¹ := Real.exp_neg _
  have hp : 0 < Real.exp (q / 2) := Real.exp_pos _
  have key : q * Real.exp (q / 2) ≤ Real.exp q - 1 := by
    rw [hb] at hs
    have : q ≤ Real.exp (q / 2) - (Real.exp (q / 2))⁻¹ := by linarith
    have h2 := mul_le_mul_of_nonneg_right this hp.le
    rw [sub_mul, inv_mul_cancel₀ hp.ne'] at h2
    rw [ha]; exact h2
  have hq0 : 0 ≤ q * Real.exp (q / 2) := by positivity
  calc q ^ 2 * Real.exp q = (q * Real.exp (q / 2)) ^ 2 := by rw [ha]; ring
    _ ≤ (Real.exp q - 1) ^ 2 := by
        apply sq_le_sq'
        · linarith
        · exact key

/-- the denominator of the overflow-safe spelling stays away from 0: 1 − e^{−q} ≥ q/(1+q) -/
theorem one_sub_exp_neg_lower {q : ℝ} (hq : 0 < q) : q / (1 + q) ≤ 1 - Real.exp (-q) := by
  have h1 : 1 + q ≤ Real.exp q := by have := Real.add_one_le_exp q; linarith
  have hp : 0 < Real.exp q := Real.exp_pos q
  have h2 : Real.exp (-q) ≤ 1 / (1 + q) := by
    rw [Real.exp_neg, inv_eq_one_div]
    exact one_div_le_one_div_of_le (by linarith) h1
  have : q / (1 + q) = 1 - 1 / (1 + q) := by field_simp; ring
  rw [this]; linarith

end Cij
