/- Helper lemmas for C19 (no property statements here). -/
import CijModel.Extract
import CijProofs.Lemmas.Writer
import Mathlib.Algebra.Order.Field.Basic
import Mathlib.Algebra.Order.AbsoluteValue.Basic
import Mathlib.Tactic.IntervalCases

namespace Cij.Extract

open Cij.Writer (dictGet dictSet optAll)

/-! ### first minimum -/

/-- `v` at index `r` is a first minimum of `l` -/
def FirstMin {β} [LT β] [LE β] (l : List β) (r : Nat) (v : β) : Prop :=
  l[r]? = some v ∧ ∀ j w, l[j]? = some w → v ≤ w ∧ (j < r → v < w)

theorem argminGo_spec {β} [LinearOrder β] (es pre : List β) (i bi : Nat) (bv : β)
    (hi : pre.length = i) (inv : FirstMin pre bi bv) :
    ∃ v, FirstMin (pre ++ es) (argminGo es i bi bv) v := by
  induction es generalizing pre i bi bv with
  | nil => exact ⟨bv, by simpa [argminGo] using inv⟩
  | cons e es ih =>
    obtain ⟨hb, hall⟩ := inv
    have hbi : bi < pre.length := by
      by_contra hcon
      rw [List.getElem?_eq_none (by omega)] at hb; cases hb
    have happ : pre ++ e :: es = (pre ++ [e]) ++ es := by simp
    unfold argminGo
    by_cases hlt : e < bv
    · simp only [hlt, if_true]
      rw [happ]
      apply ih (pre ++ [e]) (i + 1) i e (by simp [hi])
      refine ⟨by simp [← hi], fun j w hj => ?_⟩
      by_cases hjl : j < pre.length
      · rw [List.getElem?_append_left hjl] at hj
        have := (hall j w hj).1
        exact ⟨le_of_lt (lt_of_lt_of_le hlt this), fun _ => lt_of_lt_of_le hlt this⟩
      · have hjl' : pre.length ≤ j := by omega
        rw [List.getElem?_append_right hjl'] at hj
        by_cases hz : j - pre.length = 0
        · rw [hz] at hj; simp at hj; subst hj
          exact ⟨le_refl _, fun h => by omega⟩
        · rw [List.getElem?_eq_none (by simp; omega)] at hj; cases hj
    · simp only [hlt, if_false]
      rw [happ]
      apply ih (pre ++ [e]) (i + 1) bi bv (by simp [hi])
      refine ⟨by rw [List.getElem?_append_left hbi]; exact hb, fun j w hj => ?_⟩
      by_cases hjl : j < pre.length
      · rw [List.getElem?_append_left hjl] at hj
        exact hall j w hj
      · have hjl' : pre.length ≤ j := by omega
        rw [List.getElem?_append_right hjl'] at hj
        by_cases hz : j - pre.length = 0
        · rw [hz] at hj; simp at hj; subst hj
          exact ⟨not_lt.1 hlt, fun h => by omega⟩
        · rw [List.getElem?_eq_none (by simp; omega)] at hj; cases hj

theorem argminFirst_spec {β} [LinearOrder β] (l : List β) (r : Nat) (h : argminFirst l = some r) :
    ∃ v, FirstMin l r v := by
  cases l with
  | nil => cases h
  | cons d ds =>
    simp only [argminFirst, Option.some.injEq] at h
    subst h
    have := argminGo_spec ds [d] 1 0 d rfl ⟨by simp, fun j w hj => by
      cases j with
      | zero => simp at hj; subst hj; exact ⟨le_refl _, fun h => by omega⟩
      | succ n => simp at hj⟩
    simpa using this

theorem argminFirst_isSome {β} [LT β] [DecidableLT β] (l : List β) (h : l ≠ []) : (argminFirst l).isSome := by
  cases l with
  | nil => exact absurd rfl h
  | cons d ds => simp [argminFirst]

theorem absv_eq_abs {α} [Field α] [LinearOrder α] [IsStrictOrderedRing α] (x : α) : absv x = |x| := by
  unfold absv
  by_cases h : x < 0
  · simp [h, abs_of_neg h]
  · simp [h, abs_of_nonneg (not_lt.1 h)]

/-! ### columns of a rectangular matrix -/

theorem column_spec {α} (vals : List (List α)) (j : Nat) (h : ∀ row ∈ vals, j < row.length) :
    (vals.filterMap (·[j]?)).length = vals.length ∧
    ∀ (i : Nat) (row : List α), vals[i]? = some row → (vals.filterMap (·[j]?))[i]? = row[j]? := by
  induction vals with
  | nil => simp
  | cons r rs ih =>
    have hr : j < r.length := h r (by simp)
    obtain ⟨ih1, ih2⟩ := ih (fun row hrow => h row (by simp [hrow]))
    have hcons : (r :: rs).filterMap (·[j]?) = r[j] :: rs.filterMap (·[j]?) := by
      simp [List.getElem?_eq_getElem hr]
    rw [hcons]
    refine ⟨by simp [ih1], fun i row hi => ?_⟩
    cases i with
    | zero => simp at hi; subst hi; simp [List.getElem?_eq_getElem hr]
    | succ n => simp at hi; simpa using ih2 n row hi

/-! ### alignment of a series with its own labels -/

theorem align_self {α} [DecidableEq α] (labels row : List α) (hn : labels.Nodup) (hl : row.length = labels.length) :
    align labels (labels, row) = row.map some := by
  unfold align
  apply List.ext_getElem
  · simp [hl]
  · intro i h1 h2
    have hi : i < labels.length := by simpa using h1
    have hi' : i < row.length := by omega
    simp only [List.getElem_map]
    have hfind : (labels.zip row).find? (fun e => e.1 == labels[i]) = some (labels[i], row[i]) := by
      rw [List.find?_eq_some_iff_getElem]
      refine ⟨by simp, i, by simp [hi, hi'], by simp, fun j hj => ?_⟩
      have hjl : j < labels.length := by omega
      simp only [List.getElem_zip, Bool.not_eq_true', beq_eq_false_iff_ne, ne_eq]
      intro e
      have := (List.Nodup.getElem_inj_iff hn (hi := hjl) (hj := hi)).1 e
      omega
    simp [hfind]

theorem zip_map_self {β γ} (l : List β) (g : β → γ) : l.zip (l.map g) = l.map fun v => (v, g v) := by
  induction l with
  | nil => rfl
  | cons a t ih => simp [ih]

/-! ### dict lemmas used by geotherm -/

theorem dictGet_append_left {β} (d e : List (String × β)) (k : String) (v : β) (h : dictGet d k = some v) :
    dictGet (d ++ e) k = some v := by
  unfold dictGet at h ⊢
  rw [List.find?_append]
  cases hf : List.find? (fun e => e.1 == k) d with
  | none => rw [hf] at h; cases h
  | some x => rw [hf] at h; simpa using h

theorem dictGet_append_right {β} (d e : List (String × β)) (k : String) (h : k ∉ d.map (·.1)) :
    dictGet (d ++ e) k = dictGet e k := by
  unfold dictGet
  rw [List.find?_append]
  have : List.find? (fun e => e.1 == k) d = none := by
    rw [List.find?_eq_none]
    intro x hx
    simp only [beq_iff_eq]
    intro e; exact h (by rw [← e]; exact List.mem_map_of_mem hx)
  rw [this]; rfl

theorem dictGet_map_self {β} (vars : List String) (g : String → β) (v : String) (h : v ∈ vars) :
    dictGet (vars.map fun v => (v, g v)) v = some (g v) := by
  induction vars with
  | nil => cases h
  | cons a t ih =>
    by_cases e : a = v
    · subst e; simp [dictGet]
    · have hm : v ∈ t := by
        rcases List.mem_cons.1 h with h | h
        · exact absurd h.symm e
        · exact h
      have := ih hm
      unfold dictGet at this ⊢
      simp only [List.map_cons, List.find?_cons]
      have hb : (a == v) = false := by simpa using e
      simp only [hb]
      exact this

end Cij.Extract
