/-
  Lemmas about the model of `fill_cij` (`CijModel/Fill.lean`) — no property statements here.

  * `dot`/`axpy` algebra on lists (a missing entry is 0);
  * `kerWitness` is SOUND and COMPLETE: it returns a non-zero kernel vector iff one exists — so the model's
    "rank < 21" is exactly "the stacked system has a non-trivial kernel" (no numerical threshold);
  * the checked normal equations make the model's solution the exact least-squares solution (`lstsq_minimizes`),
    unique when there is no kernel (`lstsq_unique`), equal to any exactly consistent tensor (`lstsq_consistent`),
    and independent of the order of the equations (`lstsq_perm_invariant`);
  * the decision stage (`verdict`) case by case; `fillWith` in terms of the stages;
  * meaning of the stacked rows; dropping; lookup.
-/
import Mathlib.Algebra.Order.Field.Basic
import Mathlib.Tactic.Ring
import Mathlib.Tactic.Linarith
import Mathlib.Tactic.FieldSimp
import Mathlib.Tactic.LinearCombination
import CijModel.Fill

set_option linter.unusedSectionVars false
namespace Cij.Fill
variable {α : Type} [Field α] [DecidableEq α]

/-! ### dot / axpy -/
@[simp] theorem dot_nil_left (v : List α) : dot ([] : List α) v = 0 := by simp [dot]
@[simp] theorem dot_nil_right (u : List α) : dot u ([] : List α) = 0 := by cases u <;> simp [dot]
@[simp] theorem dot_cons (a b : α) (u v : List α) : dot (a :: u) (b :: v) = a * b + dot u v := by simp [dot]

theorem dot_comm (u v : List α) : dot u v = dot v u := by
  induction u generalizing v with
  | nil => simp
  | cons a u ih => cases v with
    | nil => simp
    | cons b v => simp [ih v, mul_comm]

theorem dot_axpy (k : α) (u v w : List α) : dot (axpy k u v) w = dot v w + k * dot u w := by
  induction u generalizing v w with
  | nil => simp [axpy]
  | cons a u ih =>
    cases v with
    | nil => cases w with
      | nil => simp
      | cons c w => simp [axpy, ih]; ring
    | cons b v => cases w with
      | nil => simp
      | cons c w => simp [axpy, ih]; ring

theorem dot_head_tail (s : List α) (v0 : α) (w : List α) : dot s (v0 :: w) = head0 s * v0 + dot s.tail w := by
  cases s <;> simp [head0]

theorem dot_zeros (u : List α) (n : Nat) : dot u (List.replicate n 0) = 0 := by
  induction u generalizing n with
  | nil => simp
  | cons a u ih => cases n <;> simp [List.replicate, ih]

theorem dot_all_zero (u v : List α) (h : ∀ x ∈ v, x = 0) : dot u v = 0 := by
  induction u generalizing v with
  | nil => simp
  | cons a u ih => cases v with
    | nil => simp
    | cons b v =>
      have hb : b = 0 := h b (by simp)
      simp [hb, ih v (fun x hx => h x (by simp [hx]))]

/-! ### kerWitness: sound and complete -/

theorem kerWitness_sound : ∀ (n : Nat) (rows : List (List α)) (w : List α), kerWitness n rows = some w →
    w.length = n ∧ (∃ x ∈ w, x ≠ 0) ∧ ∀ r ∈ rows, dot r w = 0 := by
  intro n
  induction n with
  | zero => intro rows w h; simp [kerWitness] at h
  | succ n ih =>
    intro rows w h
    unfold kerWitness at h
    split at h
    · -- no pivot: e₀
      rename_i hfind
      injection h with h; subst h
      refine ⟨by simp, ⟨1, by simp, one_ne_zero⟩, ?_⟩
      intro r hr
      have : ¬ (head0 r ≠ 0) := by
        have := List.find?_eq_none.mp hfind r hr
        simpa using this
      rw [dot_head_tail, dot_zeros]; simp at this; simp [this]
    · rename_i p hfind
      have hp : head0 p ≠ 0 := by simpa using List.find?_some hfind
      have hpm : p ∈ rows := List.mem_of_find?_eq_some hfind
      split at h
      · exact absurd h (by simp)
      · rename_i w' hw'
        injection h with h; subst h
        obtain ⟨hl, hne, hz⟩ := ih _ _ hw'
        refine ⟨by simp [hl], ?_, ?_⟩
        · obtain ⟨x, hx, hx0⟩ := hne; exact ⟨x, by simp [hx], hx0⟩
        · intro r hr
          have := hz _ (List.mem_map_of_mem (f := fun s => axpy (-(head0 s / head0 p)) p.tail s.tail) hr)
          rw [dot_axpy] at this
          rw [dot_head_tail]
          field_simp
          field_simp at this
          linear_combination this

theorem kerWitness_complete : ∀ (n : Nat) (rows : List (List α)), kerWitness n rows = none →
    ∀ v : List α, v.length = n → (∀ r ∈ rows, dot r v = 0) → ∀ x ∈ v, x = 0 := by
  intro n
  induction n with
  | zero => intro rows _ v hv _ x hx; simp at hv; subst hv; simp at hx
  | succ n ih =>
    intro rows h v hv hrows
    unfold kerWitness at h
    split at h
    · exact absurd h (by simp)
    · rename_i p hfind
      have hp : head0 p ≠ 0 := by simpa using List.find?_some hfind
      have hpm : p ∈ rows := List.mem_of_find?_eq_some hfind
      split at h
      · rename_i hw'
        cases v with
        | nil => simp at hv
        | cons v0 w =>
          have hwl : w.length = n := by simpa using hv
          have hpv := hrows p hpm
          rw [dot_head_tail] at hpv
          have hw0 : ∀ x ∈ w, x = 0 := by
            apply ih _ hw' w hwl
            intro r' hr'
            obtain ⟨s, hs, rfl⟩ := List.mem_map.mp hr'
            have hsv := hrows s hs
            rw [dot_head_tail] at hsv
            rw [dot_axpy]
            field_simp
            linear_combination (head0 p) * hsv - (head0 s) * hpv
          have hd : dot p.tail w = 0 := dot_all_zero _ _ hw0
          rw [hd, add_zero] at hpv
          have hv0 : v0 = 0 := (mul_eq_zero.mp hpv).resolve_left hp
          intro x hx
          rcases List.mem_cons.mp hx with rfl | hx
          · exact hv0
          · exact hw0 x hx
      · exact absurd h (by simp)


/-! ### least squares: the checked normal equations characterise the solution -/

theorem dot_all_zero_left (u v : List α) (h : ∀ x ∈ u, x = 0) : dot u v = 0 := by
  rw [dot_comm]; exact dot_all_zero v u h

theorem dot_tmulVec (A : List (List α)) (r d : List α) :
    dot (tmulVec A r) d = dot r (A.map fun a => dot a d) := by
  induction A generalizing r with
  | nil => simp [tmulVec]
  | cons a A ih =>
    cases r with
    | nil => simp [tmulVec]
    | cons ri r => simp [tmulVec, dot_axpy, ih]; ring

/-- what the model's check `normalEqHold` gives: `(A d)ᵀ (A x − b) = 0` for every direction `d` -/
theorem normalEq_weak {A : List (List α)} {b x : List α} (h : normalEqHold A b x = true) (d : List α) :
    dot (residualVec A b x) (A.map fun a => dot a d) = 0 := by
  rw [← dot_tmulVec]
  apply dot_all_zero_left
  simpa [normalEqHold] using h

/-- `y − x` as a list -/
def vsub (y x : List α) : List α := axpy (-1) x y

theorem dot_vsub (a y x : List α) : dot a (vsub y x) = dot a y - dot a x := by
  rw [vsub, dot_comm, dot_axpy, dot_comm y a, dot_comm x a]; ring

theorem length_axpy (k : α) (u v : List α) : (axpy k u v).length = max u.length v.length := by
  induction u generalizing v with
  | nil => simp [axpy]
  | cons a u ih => cases v <;> simp [axpy, ih]

theorem getD_axpy (k : α) (u v : List α) (i : Nat) : (axpy k u v).getD i 0 = v.getD i 0 + k * u.getD i 0 := by
  induction u generalizing v i with
  | nil => simp [axpy]
  | cons a u ih =>
    cases v with
    | nil => cases i with
      | zero => simp [axpy]
      | succ i => have := ih [] i; simp at this; simp [axpy, this]
    | cons b v => cases i with
      | zero => simp [axpy]
      | succ i => have := ih v i; simp at this; simp [axpy, this]

/-- residuals of two candidates differ by `A (y − x)`; hence the expansion of the sum of squares -/
theorem sumSq_residual_expand (A : List (List α)) (b x y : List α) (hb : b.length = A.length) :
    sumSq (residualVec A b y) = sumSq (residualVec A b x)
      + 2 * dot (residualVec A b x) (A.map fun a => dot a (vsub y x))
      + sumSq (A.map fun a => dot a (vsub y x)) := by
  induction A generalizing b with
  | nil => simp [sumSq, residualVec]
  | cons a A ih =>
    cases b with
    | nil => simp at hb
    | cons β b =>
      have hb' : b.length = A.length := by simpa using hb
      have := ih b hb'
      simp only [sumSq, residualVec, List.zipWith_cons_cons, List.map_cons, dot_cons] at this ⊢
      rw [dot_vsub]
      linear_combination this

end Cij.Fill

namespace Cij.Fill
variable {α : Type} [Field α] [LinearOrder α] [IsStrictOrderedRing α]

theorem getD_of_lt {β : Type} (l : List β) (i : Nat) (d : β) (h : i < l.length) : l.getD i d = l[i] := by
  simp [List.getD_eq_getElem?_getD, List.getElem?_eq_getElem h]

theorem getD_of_ge {β : Type} (l : List β) (i : Nat) (d : β) (h : l.length ≤ i) : l.getD i d = d := by
  simp [List.getD_eq_getElem?_getD, List.getElem?_eq_none h]

theorem sumSq_nonneg (u : List α) : 0 ≤ sumSq u := by
  induction u with
  | nil => simp [sumSq]
  | cons a u ih => simp only [sumSq, dot_cons] at ih ⊢; nlinarith [mul_self_nonneg a]

theorem le_sumSq_of_mem (u : List α) (x : α) (hx : x ∈ u) : x * x ≤ sumSq u := by
  induction u with
  | nil => simp at hx
  | cons a u ih =>
    simp only [sumSq, dot_cons]
    rcases List.mem_cons.mp hx with rfl | h
    · have := sumSq_nonneg u; simp only [sumSq] at this; linarith
    · have := ih h; simp only [sumSq] at this; nlinarith [mul_self_nonneg a]

theorem sumSq_eq_zero {u : List α} (h : sumSq u = 0) : ∀ x ∈ u, x = 0 := by
  intro x hx
  have h1 := le_sumSq_of_mem u x hx
  rw [h] at h1
  exact mul_self_eq_zero.mp (le_antisymm h1 (mul_self_nonneg x))

/-- the checked solution minimises the sum of squared residuals (exact least squares) -/
theorem lstsq_minimizes {A : List (List α)} {b x : List α} (hb : b.length = A.length)
    (h : normalEqHold A b x = true) (y : List α) :
    sumSq (residualVec A b x) ≤ sumSq (residualVec A b y) := by
  rw [sumSq_residual_expand A b x y hb, normalEq_weak h]
  have := sumSq_nonneg (A.map fun a => dot a (vsub y x))
  linarith

/-- weak normal equations: `(A d)ᵀ (A x − b) = 0` for every direction `d` -/
def WeakNE (A : List (List α)) (b x : List α) : Prop :=
  ∀ d : List α, dot (residualVec A b x) (A.map fun a => dot a d) = 0

/-- two solutions of the (weak) normal equations of a system without kernel coincide -/
theorem weakNE_unique {n : Nat} {A : List (List α)} {b x y : List α} (hb : b.length = A.length)
    (hker : kerWitness n A = none) (hx : WeakNE A b x) (hy : WeakNE A b y)
    (hxl : x.length = n) (hyl : y.length = n) : x = y := by
  have e1 := sumSq_residual_expand A b x y hb
  have e2 := sumSq_residual_expand A b y x hb
  have w1 := hx (vsub y x)
  have w2 := hy (vsub x y)
  rw [w1] at e1; rw [w2] at e2
  have n1 := sumSq_nonneg (A.map fun a => dot a (vsub y x))
  have n2 := sumSq_nonneg (A.map fun a => dot a (vsub x y))
  have hz : sumSq (A.map fun a => dot a (vsub y x)) = 0 := by linarith
  have hAd : ∀ r ∈ A, dot r (vsub y x) = 0 := by
    intro r hr
    exact sumSq_eq_zero hz _ (List.mem_map_of_mem hr)
  have hlen : (vsub y x).length = n := by simp [vsub, length_axpy, hxl, hyl]
  have hd := kerWitness_complete n A hker (vsub y x) hlen hAd
  apply List.ext_getElem (by rw [hxl, hyl])
  intro i h1 h2
  have hi : i < (vsub y x).length := by rw [hlen, ← hxl]; exact h1
  have := hd _ (List.getElem_mem hi)
  have g := getD_axpy (-1 : α) x y i
  rw [← vsub, getD_of_lt _ _ _ hi, this, getD_of_lt _ _ _ h1, getD_of_lt _ _ _ h2] at g
  linarith

/-- two checked solutions of a system without kernel coincide -/
theorem lstsq_unique {n : Nat} {A : List (List α)} {b x y : List α} (hb : b.length = A.length)
    (hker : kerWitness n A = none) (hx : normalEqHold A b x = true) (hy : normalEqHold A b y = true)
    (hxl : x.length = n) (hyl : y.length = n) : x = y :=
  weakNE_unique hb hker (normalEq_weak hx) (normalEq_weak hy) hxl hyl

/-- consistent data + no kernel ⇒ the checked solution IS the consistent tensor -/
theorem lstsq_consistent {n : Nat} {A : List (List α)} {b x t : List α} (hb : b.length = A.length)
    (hker : kerWitness n A = none) (hx : normalEqHold A b x = true) (hxl : x.length = n) (htl : t.length = n)
    (ht : ∀ e ∈ residualVec A b t, e = 0) : x = t := by
  apply lstsq_unique hb hker hx _ hxl htl
  simp only [normalEqHold, List.all_eq_true, decide_eq_true_eq]
  intro e he
  have : ∀ (A : List (List α)) (r : List α), (∀ e ∈ r, e = 0) → ∀ e ∈ tmulVec A r, e = 0 := by
    intro A
    induction A with
    | nil => intro r _ e he; simp [tmulVec] at he
    | cons a A ih =>
      intro r hr e he
      cases r with
      | nil => simp [tmulVec] at he
      | cons ri r =>
        have hri : ri = 0 := hr ri (by simp)
        have hrest := ih r (fun e he => hr e (by simp [he]))
        simp only [tmulVec] at he
        obtain ⟨i, hi, rfl⟩ := List.getElem_of_mem he
        have g := getD_axpy ri a (tmulVec A r) i
        rw [getD_of_lt _ _ _ hi] at g
        rw [g, hri, zero_mul, add_zero]
        by_cases h' : i < (tmulVec A r).length
        · rw [getD_of_lt _ _ _ h']; exact hrest _ (List.getElem_mem h')
        · exact getD_of_ge _ _ _ (Nat.le_of_not_lt h')
  exact this A _ ht e he


/-! ### the decision stage -/

theorem verdict_refuseRank_iff (P : Params α) (s : Solved α) :
    verdict P s = .error .refuseRank ↔ (s.rankDeficient = true ∧ P.ignoreRank = false) := by
  unfold verdict
  cases s.rankDeficient <;> cases P.ignoreRank <;> simp <;> split <;> simp

theorem verdict_refuseResidual_iff (P : Params α) (s : Solved α) :
    verdict P s = .error .refuseResidual ↔
      (¬(s.rankDeficient = true ∧ P.ignoreRank = false)) ∧ (∃ r ∈ s.residuals, P.residualAtol < r) ∧ P.ignoreResiduals = false := by
  unfold verdict
  cases s.rankDeficient <;> cases P.ignoreRank <;> cases P.ignoreResiduals <;> simp

theorem verdict_ok_iff (P : Params α) (s : Solved α) :
    verdict P s = .ok () ↔
      (¬(s.rankDeficient = true ∧ P.ignoreRank = false)) ∧ ¬((∃ r ∈ s.residuals, P.residualAtol < r) ∧ P.ignoreResiduals = false) := by
  unfold verdict
  cases s.rankDeficient <;> cases P.ignoreRank <;> cases P.ignoreResiduals <;> simp

/-- the only other outcomes of the decision stage are the two refusals -/
theorem verdict_cases (P : Params α) (s : Solved α) :
    verdict P s = .ok () ∨ verdict P s = .error .refuseRank ∨ verdict P s = .error .refuseResidual := by
  unfold verdict
  split
  · exact Or.inr (Or.inl rfl)
  · split
    · exact Or.inr (Or.inr rfl)
    · exact Or.inl rfl

theorem rankDeficient_iff {A : List (List α)} {bs : List (List α)} {s : Solved α} (h : solveStage A bs = some s) :
    s.rankDeficient = true ↔ ∃ v : List α, v.length = nsym ∧ (∃ x ∈ v, x ≠ 0) ∧ ∀ r ∈ A, dot r v = 0 := by
  have hs : s.rankDeficient = (kerWitness nsym A).isSome := by
    unfold solveStage at h
    cases hm : List.mapM (fun b => lstsq nsym A b) bs with
    | none => simp [hm] at h
    | some xs => simp [hm] at h; rw [← h]
  rw [hs]
  constructor
  · intro hk
    obtain ⟨w, hw⟩ := Option.isSome_iff_exists.mp hk
    exact ⟨w, kerWitness_sound _ _ _ hw⟩
  · rintro ⟨v, hl, ⟨x, hx, hx0⟩, hz⟩
    by_contra hnone
    have hn : kerWitness nsym A = none := by simpa using hnone
    exact hx0 (kerWitness_complete _ _ hn v hl hz x hx)


/-! ### `fillWith` in terms of the solve and decision stages -/

theorem fillWith_of_solved {rel : Rows} {sel : List (Option Nat)} {P : Params α} {t : Table α} {s : Solved α}
    (hsel : (selIdxOf sel).isEmpty = false)
    (hs : solveStage (stackA (α := α) (selIdxOf sel) rel)
            ((List.range (nRows t)).map fun k => stackB (selColsOf sel t) rel k) = some s) :
    fillWith rel sel P t = match verdict P s with
      | .error e => .error e
      | .ok () => .ok (finish P t s.xs) := by
  simp only [fillWith, hsel, hs, Bool.false_eq_true, if_false]
  rfl

/-- refused for rank (flag off) ⇔ some non-zero tensor satisfies the homogeneous relations and vanishes on every
    supplied component, i.e. two relation-compatible tensors agree on the supplied components yet differ -/
theorem fillWith_refuseRank_iff {rel : Rows} {sel : List (Option Nat)} {P : Params α} {t : Table α} {s : Solved α}
    (hsel : (selIdxOf sel).isEmpty = false)
    (hs : solveStage (stackA (α := α) (selIdxOf sel) rel)
            ((List.range (nRows t)).map fun k => stackB (selColsOf sel t) rel k) = some s) :
    fillWith rel sel P t = .error .refuseRank ↔
      (P.ignoreRank = false ∧ ∃ v : List α, v.length = nsym ∧ (∃ x ∈ v, x ≠ 0) ∧
        ∀ r ∈ stackA (α := α) (selIdxOf sel) rel, dot r v = 0) := by
  rw [fillWith_of_solved hsel hs, ← rankDeficient_iff hs]
  rcases verdict_cases P s with h | h | h
  · have := (verdict_refuseRank_iff P s).not.mp (by rw [h]; simp)
    rw [h]; simp only [reduceCtorEq, false_iff]; tauto
  · have := (verdict_refuseRank_iff P s).mp h
    rw [h]; simp only [true_iff]; tauto
  · have := (verdict_refuseRank_iff P s).not.mp (by rw [h]; simp)
    rw [h]; simp only [Except.error.injEq, reduceCtorEq, false_iff]; tauto

/-- the flags only disable refusals: whatever is accepted with both flags off is accepted, with the same table,
    under any setting of the flags -/
theorem flags_only_disable {rel : Rows} {sel : List (Option Nat)} (P : Params α) (t out : Table α)
    (h : fillWith rel sel { P with ignoreRank := false, ignoreResiduals := false } t = .ok out) :
    fillWith rel sel P t = .ok out := by
  unfold fillWith at h ⊢
  by_cases hsel : (selIdxOf sel).isEmpty = true
  · simp only [hsel, ↓reduceIte] at h; split at h <;> simp at h
  · simp only [hsel, ↓reduceIte, Bool.false_eq_true] at h ⊢
    cases hs : solveStage (stackA (α := α) (selIdxOf sel) rel)
        ((List.range (nRows t)).map fun k => stackB (selColsOf sel t) rel k) with
    | none => simp only [hs] at h; simp at h
    | some s =>
      simp only [hs] at h ⊢
      rcases verdict_cases { P with ignoreRank := false, ignoreResiduals := false } s with hv | hv | hv
      · have hok := (verdict_ok_iff _ s).mp hv
        simp only [and_true] at hok
        have : verdict P s = .ok () := by
          rw [verdict_ok_iff]
          constructor
          · intro hc; exact hok.1 hc.1
          · intro hc; exact hok.2 hc.1
        rw [hv] at h; rw [this]
        simpa [finish] using h
      · rw [hv] at h; simp at h
      · rw [hv] at h; simp at h

/-- with `ignore_rank` the rank refusal never happens; with `ignore_residuals` the residual refusal never happens -/
theorem ignoreRank_never_refuseRank {rel : Rows} {sel : List (Option Nat)} (P : Params α) (t : Table α)
    (h : P.ignoreRank = true) : fillWith rel sel P t ≠ .error .refuseRank := by
  unfold fillWith
  split
  · split <;> simp
  · simp only
    split
    · simp
    · rename_i s _
      rcases verdict_cases P s with hv | hv | hv
      · rw [hv]; simp
      · have := (verdict_refuseRank_iff P s).mp hv; rw [h] at this; simp at this
      · rw [hv]; simp

theorem ignoreResiduals_never_refuseResidual {rel : Rows} {sel : List (Option Nat)} (P : Params α) (t : Table α)
    (h : P.ignoreResiduals = true) : fillWith rel sel P t ≠ .error .refuseResidual := by
  unfold fillWith
  split
  · split <;> simp
  · simp only
    split
    · simp
    · rename_i s _
      rcases verdict_cases P s with hv | hv | hv
      · rw [hv]; simp
      · rw [hv]; simp
      · have := (verdict_refuseResidual_iff P s).mp hv; rw [h] at this; simp at this

/-! ### acceptance bounds -/

/-- when the table was accepted with the residual flag off — determined or not, any number of stacked rows — every
    entry `e` of every residual vector `A x − b` has `e² ≤ residual_atol` -/
theorem mem_zipWith_of_mem_zip {β γ δ : Type} (f : β → γ → δ) : ∀ {l1 : List β} {l2 : List γ} {p : β × γ},
    p ∈ List.zip l1 l2 → f p.1 p.2 ∈ List.zipWith f l1 l2
  | [], _, _, h => by simp at h
  | _ :: _, [], _, h => by simp at h
  | a :: l1, b :: l2, p, h => by
    simp only [List.zip_cons_cons, List.mem_cons] at h
    rcases h with rfl | h
    · simp
    · simp only [List.zipWith_cons_cons, List.mem_cons]; exact Or.inr (mem_zipWith_of_mem_zip f h)

theorem accept_residual_entries {A : List (List α)} {bs : List (List α)} {s : Solved α} {P : Params α}
    (hs : solveStage A bs = some s) (hv : verdict P s = .ok ()) (hflag : P.ignoreResiduals = false) :
    ∀ p ∈ List.zip bs s.xs, ∀ e ∈ residualVec A p.1 p.2, e * e ≤ P.residualAtol := by
  have hok := (verdict_ok_iff P s).mp hv
  have hres : s.residuals = s.ssq := rfl
  have hall : ∀ r ∈ s.ssq, r ≤ P.residualAtol := by
    intro r hr
    by_contra hc
    exact hok.2 ⟨⟨r, by rw [hres]; exact hr, not_le.mp hc⟩, hflag⟩
  have hssq : s.ssq = List.zipWith (fun b x => sumSq (residualVec A b x)) bs s.xs := by
    unfold solveStage at hs
    cases hmm : List.mapM (fun b => lstsq nsym A b) bs with
    | none => simp [hmm] at hs
    | some xs => simp [hmm] at hs; rw [← hs]
  intro p hp e he
  have hmem : sumSq (residualVec A p.1 p.2) ∈ s.ssq := by
    rw [hssq]; exact mem_zipWith_of_mem_zip _ hp
  exact le_trans (le_sumSq_of_mem _ e he) (hall _ hmem)


/-! ### what the stacked rows mean -/

theorem dot_indicator (i : Nat) : ∀ (n s : Nat) (v : List α),
    dot ((List.range' s n).map fun j => if j = i then (1 : α) else 0) v
      = if s ≤ i ∧ i < s + n then v.getD (i - s) 0 else 0 := by
  intro n
  induction n with
  | zero => intro s v; simp
  | succ n ih =>
    intro s v
    cases v with
    | nil => simp
    | cons b v =>
      simp only [List.range'_succ, List.map_cons, dot_cons, ih (s + 1) v]
      by_cases h1 : s = i
      · subst h1; simp
      · by_cases h2 : s < i
        · have e : i - s = (i - (s + 1)) + 1 := by omega
          have c1 : (s + 1 ≤ i ∧ i < s + 1 + n) ↔ (s ≤ i ∧ i < s + (n + 1)) := by omega
          simp only [h1, if_false, zero_mul, zero_add, c1]
          split
          · rw [e]; simp
          · rfl
        · have c1 : ¬(s + 1 ≤ i ∧ i < s + 1 + n) := by omega
          have c2 : ¬(s ≤ i ∧ i < s + (n + 1)) := by omega
          simp [h1, c1, c2]

/-- a selector row picks the supplied component -/
theorem dot_selectorRow (i : Nat) (hi : i < nsym) (v : List α) : dot (selectorRow (α := α) i) v = v.getD i 0 := by
  have := dot_indicator (α := α) i nsym 0 v
  simp only [List.range_eq_range', selectorRow] at this ⊢
  rw [this]; simp [hi]

/-- the stacked system: vanishing on it = vanishing on the supplied components and satisfying the homogeneous relations -/
theorem stackA_kernel_iff (sel : List Nat) (rel : Rows) (hsel : ∀ i ∈ sel, i < nsym) (v : List α) :
    (∀ r ∈ stackA (α := α) sel rel, dot r v = 0) ↔
      (∀ i ∈ sel, v.getD i 0 = 0) ∧ (∀ r ∈ rel, dot (castRow (α := α) r) v = 0) := by
  simp only [stackA, List.mem_append, List.mem_map]
  constructor
  · intro h
    refine ⟨fun i hi => ?_, fun r hr => h _ (Or.inr ⟨r, hr, rfl⟩)⟩
    rw [← dot_selectorRow i (hsel i hi)]; exact h _ (Or.inl ⟨i, hi, rfl⟩)
  · rintro ⟨h1, h2⟩ r (⟨i, hi, rfl⟩ | ⟨q, hq, rfl⟩)
    · rw [dot_selectorRow i (hsel i hi)]; exact h1 i hi
    · exact h2 q hq

/-- the residual vector of the stacked system: supplied-value displacements, then relation violations -/
theorem residualVec_stack (sel : List Nat) (selCols : List (List α)) (rel : Rows) (k : Nat) (x : List α)
    (hlen : sel.length = selCols.length) (hidx : ∀ i ∈ sel, i < nsym) :
    residualVec (stackA (α := α) sel rel) (stackB selCols rel k) x =
      List.zipWith (fun i c => x.getD i 0 - c.getD k 0) sel selCols ++
      rel.map (fun r => dot (castRow (α := α) r) x - (Int.cast r.rhs : α) / (Int.cast (Int.ofNat r.den) : α)) := by
  have h1 : ∀ (sel : List Nat) (selCols : List (List α)), (∀ i ∈ sel, i < nsym) →
      List.zipWith (fun r bi => dot r x - bi) (sel.map (selectorRow (α := α))) (selCols.map fun c => c.getD k 0)
        = List.zipWith (fun i c => x.getD i 0 - c.getD k 0) sel selCols := by
    intro sel
    induction sel with
    | nil => intro selCols _; simp
    | cons i sel ih =>
      intro selCols hi
      cases selCols with
      | nil => simp
      | cons c selCols =>
        simp only [List.map_cons, List.zipWith_cons_cons]
        rw [dot_selectorRow i (hi i (by simp)), ih selCols (fun j hj => hi j (by simp [hj]))]
  have h2 : ∀ rel : Rows,
      List.zipWith (fun r bi => dot r x - bi) (rel.map (castRow (α := α)))
          (rel.map fun r => (Int.cast r.rhs : α) / (Int.cast (Int.ofNat r.den) : α))
        = rel.map (fun r => dot (castRow (α := α) r) x - (Int.cast r.rhs : α) / (Int.cast (Int.ofNat r.den) : α)) := by
    intro rel
    induction rel with
    | nil => simp
    | cons r rel ih => simp only [List.map_cons, List.zipWith_cons_cons, ih]
  unfold residualVec stackA stackB
  rw [List.zipWith_append (by simp [hlen]), h1 sel selCols hidx, h2 rel]


/-! ### consistent data are reproduced -/

theorem mapM_some_zip {β γ : Type} (f : β → Option γ) : ∀ {l : List β} {ys : List γ}, l.mapM f = some ys →
    ∀ p ∈ List.zip l ys, f p.1 = some p.2
  | [], ys, h, p, hp => by simp at hp
  | a :: l, ys, h, p, hp => by
    rw [List.mapM_cons] at h
    cases hfa : f a with
    | none => simp [hfa] at h
    | some y =>
      cases hl : l.mapM f with
      | none => simp [hfa, hl] at h
      | some ys' =>
        simp [hfa, hl] at h
        subst h
        simp only [List.zip_cons_cons, List.mem_cons] at hp
        rcases hp with rfl | hp
        · exact hfa
        · exact mapM_some_zip f hl p hp

theorem lstsq_some {n : Nat} {A : List (List α)} {b x : List α} (h : lstsq n A b = some x) :
    normalEqHold A b x = true ∧ x.length = n := by
  unfold lstsq at h
  simp only at h
  split at h
  · rename_i hne
    injection h with h; subst h
    exact ⟨hne, by simp⟩
  · simp at h

theorem solveStage_xs {A : List (List α)} {bs : List (List α)} {s : Solved α} (hs : solveStage A bs = some s) :
    ∀ p ∈ List.zip bs s.xs, normalEqHold A p.1 p.2 = true ∧ p.2.length = nsym := by
  unfold solveStage at hs
  cases hm : List.mapM (fun b => lstsq nsym A b) bs with
  | none => simp [hm] at hs
  | some xs =>
    simp [hm] at hs
    intro p hp
    have : s.xs = xs := by rw [← hs]
    rw [this] at hp
    exact lstsq_some (mapM_some_zip _ hm p hp)

/-- every volume row: a tensor `t` that reproduces the supplied values and satisfies the relations exactly IS the
    solution the model writes back, whenever the stacked system has no kernel -/
theorem solveStage_consistent {A : List (List α)} {bs : List (List α)} {s : Solved α}
    (hs : solveStage A bs = some s) (hfull : s.rankDeficient = false) :
    ∀ p ∈ List.zip bs s.xs, p.1.length = A.length → ∀ t : List α, t.length = nsym →
      (∀ e ∈ residualVec A p.1 t, e = 0) → p.2 = t := by
  intro p hp hb t htl ht
  obtain ⟨hne, hxl⟩ := solveStage_xs hs p hp
  have hk : kerWitness nsym A = none := by
    have hsr : s.rankDeficient = (kerWitness nsym A).isSome := by
      unfold solveStage at hs
      cases hm : List.mapM (fun b => lstsq nsym A b) bs with
      | none => simp [hm] at hs
      | some xs => simp [hm] at hs; rw [← hs]
    rw [hsr] at hfull
    simpa using hfull
  exact lstsq_consistent hb hk hne hxl htl ht

/-! ### dropping -/

theorem allClose0_iff (a : α) (col : List α) : allClose0 a col = true ↔ ∀ x ∈ col, |x| ≤ a := by
  simp only [allClose0, List.all_eq_true, decide_eq_true_eq, abs_le]
  constructor
  · intro h x hx; have := h x hx; constructor <;> linarith [this.1, this.2]
  · intro h x hx; have := h x hx; constructor <;> linarith [this.1, this.2]

/-- the output keeps exactly the columns of the written-back table that are not modulus-like, or exceed `drop_atol`
    somewhere -/
theorem mem_finish_iff (P : Params α) (t : Table α) (xs : List (List α)) (c : String × List α) :
    c ∈ finish P t xs ↔ c ∈ writeAll t xs ∧ (matchesCdd c.1.toLower.toList = false ∨ ∃ x ∈ c.2, P.dropAtol < |x|) := by
  have hclose : allClose0 P.dropAtol c.2 = false ↔ ∃ x ∈ c.2, P.dropAtol < |x| := by
    rw [← Bool.not_eq_true, allClose0_iff]
    simp only [not_forall, not_le, exists_prop]
  simp only [finish, List.mem_filter, Bool.not_eq_true', Bool.and_eq_false_iff, hclose]

/-- the unit vector `e_j` -/
theorem getD_selectorRow (j i : Nat) (hi : i < nsym) :
    (selectorRow (α := α) j).getD i 0 = if i = j then 1 else 0 := by
  simp [selectorRow, List.getD_eq_getElem?_getD, List.getElem?_map, List.getElem?_range hi]

theorem length_selectorRow (j : Nat) : (selectorRow (α := α) j).length = nsym := by simp [selectorRow]

/-! ### order of the equations (hence of the columns) is irrelevant -/

theorem weak_as_sum (A : List (List α)) (b x : List α) (f : List α → α) :
    dot (residualVec A b x) (A.map f) = ((List.zip A b).map fun p => (dot p.1 x - p.2) * f p.1).sum := by
  induction A generalizing b with
  | nil => simp [residualVec]
  | cons a A ih =>
    cases b with
    | nil => simp [residualVec]
    | cons β b =>
      have := ih b
      simp only [residualVec] at this
      simp [residualVec, this]

/-- the weak normal equations only depend on the multiset of (row, right-hand side) pairs -/
theorem weakNE_perm {A A' : List (List α)} {b b' x : List α} (hp : (List.zip A b).Perm (List.zip A' b'))
    (h : WeakNE A b x) : WeakNE A' b' x := by
  intro d
  have := h d
  rw [weak_as_sum] at this ⊢
  rw [← this]
  exact ((hp.map _).sum_eq).symm

/-- rank refusal only depends on the SET of stacked rows -/
theorem kerWitness_isSome_congr {n : Nat} {A A' : List (List α)} (h : ∀ r, r ∈ A ↔ r ∈ A') :
    (kerWitness n A).isSome = (kerWitness n A').isSome := by
  have key : ∀ {B B' : List (List α)}, (∀ r, r ∈ B → r ∈ B') → (kerWitness n B').isSome = true →
      (kerWitness n B).isSome = true := by
    intro B B' hsub hk
    obtain ⟨w, hw⟩ := Option.isSome_iff_exists.mp hk
    obtain ⟨hl, ⟨x, hx, hx0⟩, hz⟩ := kerWitness_sound _ _ _ hw
    by_contra hnone
    have hn : kerWitness n B = none := by simpa using hnone
    exact hx0 (kerWitness_complete _ _ hn w hl (fun r hr => hz r (hsub r hr)) x hx)
  cases h1 : (kerWitness n A).isSome <;> cases h2 : (kerWitness n A').isSome <;> try rfl
  · have := key (fun r hr => (h r).mp hr) h2; rw [h1] at this; exact absurd this (by simp)
  · have := key (fun r hr => (h r).mpr hr) h1; rw [h2] at this; exact absurd this (by simp)

/-- permuting the equations (columns of the table in another order) does not change the solution of a determined
    system: both checked solutions coincide -/
theorem lstsq_perm_invariant {n : Nat} {A A' : List (List α)} {b b' x x' : List α}
    (hb : b.length = A.length) (hp : (List.zip A b).Perm (List.zip A' b'))
    (hker : kerWitness n A = none) (hx : normalEqHold A b x = true) (hx' : normalEqHold A' b' x' = true)
    (hxl : x.length = n) (hxl' : x'.length = n) : x = x' :=
  weakNE_unique hb hker (normalEq_weak hx) (weakNE_perm hp.symm (normalEq_weak hx')) hxl hxl'

end Cij.Fill

/-! ### lookup of the relations (no arithmetic) -/
namespace Cij.Fill

theorem recogniseLower_lt : ∀ (names : List String) (sel : List (Option Nat)), recogniseLower names = .ok sel →
    ∀ i ∈ selIdxOf sel, i < nsym := by
  intro names
  induction names with
  | nil => intro sel h i hi; simp [recogniseLower] at h; subst h; simp [selIdxOf] at hi
  | cons s rest ih =>
    intro sel h i hi
    unfold recogniseLower at h
    split at h
    · split at h
      · simp at h
      · rename_i k hk
        cases hr : recogniseLower rest with
        | error e => simp [hr, Except.map] at h
        | ok sel' =>
          simp [hr, Except.map] at h
          subst h
          simp only [selIdxOf, List.filterMap_cons, id] at hi
          rcases List.mem_cons.mp hi with rfl | hi
          · obtain ⟨hlt, _⟩ := List.idxOf?_eq_some_iff.mp hk; exact hlt
          · exact ih sel' hr i hi
    · cases hr : recogniseLower rest with
      | error e => simp [hr, Except.map] at h
      | ok sel' =>
        simp [hr, Except.map] at h
        subst h
        simp only [selIdxOf, List.filterMap_cons, id] at hi
        exact ih sel' hr i hi

theorem recognise_lt {names : List String} {sel : List (Option Nat)} (h : recognise names = .ok sel) :
    ∀ i ∈ selIdxOf sel, i < nsym := recogniseLower_lt _ _ h

/-- letter case is irrelevant: only the lower-cased names are looked at -/
theorem recognise_case (names names' : List String) (h : names.map String.toLower = names'.map String.toLower) :
    recognise names = recognise names' := by simp [recognise, h]

/-- writing back never touches a column whose lower-cased name is not a symbol -/
theorem writeBack_passthrough {α : Type} (t : Table α) (sym : String) (col : List α) (c : String × List α)
    (hc : c ∈ t) (hne : c.1.toLower ≠ sym) : c ∈ writeBack t sym col := by
  unfold writeBack
  split
  · rename_i hit hfind
    have hh : hit.1.toLower = sym := by simpa using List.find?_some hfind
    refine List.mem_map.mpr ⟨c, hc, ?_⟩
    have : (c.1 == hit.1) = false := by
      simp only [beq_eq_false_iff_ne, ne_eq]
      intro e; rw [e] at hne; exact hne hh
    simp [this]
  · exact List.mem_append_left _ hc


theorem writeAll_passthrough {α : Type} [OfNat α 0] (t : Table α) (xs : List (List α)) (c : String × List α)
    (hc : c ∈ t) (hne : c.1.toLower ∉ symbolNames) : c ∈ writeAll t xs := by
  unfold writeAll
  have key : ∀ (l : List (Nat × String)) (acc : Table α), (∀ p ∈ l, p.2 ∈ symbolNames) → c ∈ acc →
      c ∈ l.foldl (fun acc p => writeBack acc p.2 (xs.map fun x => x.getD p.1 0)) acc := by
    intro l
    induction l with
    | nil => intro acc _ h; exact h
    | cons p l ih =>
      intro acc hl h
      simp only [List.foldl_cons]
      apply ih
      · intro q hq; exact hl q (List.mem_cons_of_mem _ hq)
      · apply writeBack_passthrough _ _ _ _ h
        intro e; exact hne (e ▸ hl p (List.mem_cons_self))
  exact key _ _ (fun p hp => (List.of_mem_zip hp).2) hc


/-- every symbol name is modulus-like -/
theorem symbolNames_match : ∀ s ∈ symbolNames, matchesCdd s.toList = true := by decide +kernel

theorem resolve_cwd_irrelevant (pe pe' : String → Bool) (uf : String → Option Rows) (sys : String) :
    resolve ⟨pe, uf⟩ sys = resolve ⟨pe', uf⟩ sys := rfl

/-- a name that is not a packaged system and names a readable file: that file is the relations -/
theorem resolve_user_file (env : Env) (sys : String) (rows : Rows) (e : Err) (hp : packaged sys = .error e)
    (h : env.userFile sys = some rows) : resolve env sys = .ok rows := by simp [resolve, hp, h]

/-- a packaged system name means the packaged relations, whatever files exist -/
theorem resolve_packaged (env : Env) (sys : String) (rows : Rows) (h : packaged sys = .ok rows) :
    resolve env sys = .ok rows := by simp [resolve, h]

/-- … so for a packaged name the WHOLE environment (working directory) is irrelevant -/
theorem resolve_packaged_env_irrelevant (env env' : Env) (sys : String) (rows : Rows) (h : packaged sys = .ok rows) :
    resolve env sys = resolve env' sys := by simp [resolve, h]

end Cij.Fill
