/- Helper lemmas and auxiliary definitions for C05 (no property statements here). -/
import CijModel.FullModulus
import CijProofs.Lemmas.LeastSq
import Mathlib.Tactic.FieldSimp

namespace Cij.FullModulus
open Cij.LeastSq

section
variable {α : Type} [Field α]

/-- 1 GPa expressed in Ry/bohr³, from the Rydberg energy `ry` (= R∞hc, in J) and the Bohr radius `a0` (in m):
    1 Ry/bohr³ = ry / a0³ Pa, hence 1 GPa = 10⁹ / (ry / a0³) Ry/bohr³. -/
def gpaInAtomicUnits (ry a0 : α) : α := 10 ^ 9 / (ry / a0 ^ 3)

theorem addStatic_getElem? (st : List α) (p : List (List α)) (t v : Nat) (row : List α) (sv ptv : α)
    (ht : p[t]? = some row) (hv : row[v]? = some ptv) (hs : st[v]? = some sv) :
    ∃ mrow, (addStatic st p)[t]? = some mrow ∧ mrow[v]? = some (sv + ptv) := by
  unfold addStatic
  refine ⟨List.zipWith (fun s p => s + p) st row, ?_, ?_⟩
  · simp [ht]
  · simp [List.getElem?_zipWith, hs, hv]

theorem nth_map_lt (f : α → α) (l : List α) (i : Nat) (hi : i < l.length) :
    nth (l.map f) i = f (nth l i) := by
  unfold nth
  rw [List.getD_eq_getElem _ _ (by simpa using hi), List.getD_eq_getElem _ _ hi]
  simp

/-- `numpy.gradient` is compatible with affine maps of the ordinate: gradient(a − P0·v) = −P0·gradient(v) -/
theorem gradient_affine (a P0 : α) (v gv : List α) (h2 : (1 + 1 : α) ≠ 0) (hgv : gradient v = some gv) :
    gradient (v.map fun x => a - P0 * x) = some (gv.map fun g => -P0 * g) := by
  unfold gradient at hgv ⊢
  simp only [List.length_map] at hgv ⊢
  split_ifs at hgv with hn
  rw [if_neg hn]
  simp only [Option.some.injEq] at hgv ⊢
  subst hgv
  rw [List.map_map]
  apply List.map_congr_left
  intro i hi
  have hi' : i < v.length := List.mem_range.mp hi
  simp only [Function.comp]
  split_ifs with h0 h1
  · rw [nth_map_lt _ _ _ (by omega), nth_map_lt _ _ _ (by omega)]; ring
  · rw [nth_map_lt _ _ _ (by omega), nth_map_lt _ _ _ (by omega)]; ring
  · rw [nth_map_lt _ _ _ (by omega), nth_map_lt _ _ _ (by omega)]; field_simp; ring

theorem neg_grad_ratio_affine (P0 : α) (gv : List α) (hnz : ∀ g ∈ gv, g ≠ 0) :
    List.zipWith (fun a b => -a / b) (gv.map fun g => -P0 * g) gv = gv.map fun _ => P0 := by
  rw [List.zipWith_map_left, List.zipWith_self]
  apply List.map_congr_left
  intro g hg
  have := hnz g hg
  field_simp
theorem sumL_map_div (l : List α) (s : α) : sumL (l.map (· / s)) = sumL l / s := by
  induction l with
  | nil => simp [sumL]
  | cons a t ih => simp [sumL, ih, add_div]

theorem sumL_normaliseBySum (raw : List α) (h : sumL raw ≠ 0) : sumL (normaliseBySum raw) = 1 := by
  unfold normaliseBySum
  rw [sumL_map_div, div_self h]

end

section
variable {α : Type} [Field α] [BEq α]

/-- `fit_modulus` reads the volumes, the strains and the grid — not the table, not the lattice block -/
theorem fitModulus_congr (i1 i2 : Inputs α) (m : List α) (order : Nat)
    (h1 : i1.strains = i2.strains) (h2 : i1.strainArray = i2.strainArray) (h3 : i1.volumes = i2.volumes)
    (h4 : i1.vArray = i2.vArray) : fitModulus i1 m order = fitModulus i2 m order := by
  unfold fitModulus
  rw [h1, h2, h3, h4]

theorem getAxialStrains_congr (i1 i2 : Inputs α)
    (h1 : i1.strains = i2.strains) (h2 : i1.strainArray = i2.strainArray) (h3 : i1.volumes = i2.volumes)
    (h4 : i1.vArray = i2.vArray) (h5 : i1.lattice = i2.lattice) : getAxialStrains i1 = getAxialStrains i2 := by
  unfold getAxialStrains
  have : ∀ m, fitModulus i1 m = fitModulus i2 m := fun m => fitModulus_congr i1 i2 m 2 h1 h2 h3 h4
  simp only [this, h4, h5]

/-- with a lattice block every row of the result is a triple divided by its own sum -/
theorem getAxialStrains_rows (inp : Inputs α) (e : List (List α)) (hl : inp.lattice ≠ [])
    (h : getAxialStrains inp = some e) :
    ∀ row ∈ e, ∃ raw : List α, raw.length = 3 ∧ row = normaliseBySum raw := by
  unfold getAxialStrains at h
  have hne : inp.lattice.isEmpty = false := by
    cases hlat : inp.lattice with
    | nil => exact absurd hlat hl
    | cons a t => rfl
  simp only [hne, Bool.false_eq_true, if_false] at h
  simp only [List.mapM_cons, List.mapM_nil, bind, Option.bind_eq_some_iff, pure] at h
  obtain ⟨cols, hcols, hrows⟩ := h
  obtain ⟨c0, -, c12, hc12, hc⟩ := hcols
  obtain ⟨c1, -, c2', hc2, hc'⟩ := hc12
  obtain ⟨c2, -, hc2e⟩ := hc2
  obtain ⟨nil', hnil, hc2e⟩ := hc2e
  simp only [Option.some.injEq] at hc hc' hc2e hrows hnil
  subst hnil hc2e hc' hc hrows
  intro row hrow
  obtain ⟨k, _, rfl⟩ := List.mem_map.mp hrow
  exact ⟨_, by simp, rfl⟩

end

end Cij.FullModulus
