/-
  Meaning of the pressure-range guard translated from cij/core/qha_adapter.py (Generated/AdapterGuard.lean) on the two
  fields cij reads from qha, and the proof that the hand-written model `V2P.desiredPressureStatus` IS that meaning.
-/
import CijModel.V2P
import CijModel.GuardExpr
import Generated.AdapterGuard
namespace Cij.AdapterGuardSource
open Cij.V2P Cij.GuardExpr

section
variable {α : Type} [OfNat α 0] [LT α] [DecidableLT α]

/-- the array one side of the guard reduces: `none` = a field or a selection the (T,V)/(P) data of the model has no meaning for
(the tie is then broken: the theorem below cannot hold) -/
def sideArray (s : Side) (pTvGpa : List (List α)) (desiredGpa : List α) : Option (List α) :=
  if s.field = "p_tv_gpa" then
    match s.sel with
    | .lastColumn => some (lastColumn pTvGpa)
    | .firstColumn => some (pTvGpa.map fun row => row.headD 0)
    | .all => none
  else if s.field = "desired_pressures_gpa" then
    match s.sel with
    | .all => some desiredGpa
    | _ => none
  else none

/-- Python exception raised by the guard → the model's error enum -/
def errOf (name : String) : Option Err :=
  if name = "ValueError" then some .valueError else if name = "IndexError" then some .indexError
  else if name = "AttributeError" then some .attributeError else none

/-- semantics of `if <left> <op> <right>: raise E` on tables with non-empty rows (`a[:, -1]` of an empty row is an IndexError,
`min()`/`max()` of an empty array a ValueError, both as numpy) -/
def evalGuard (g : Guard) (pTvGpa : List (List α)) (desiredGpa : List α) : Option (Except Err Unit) :=
  match sideArray g.left pTvGpa desiredGpa, sideArray g.right pTvGpa desiredGpa, errOf g.raises with
  | some l, some r, some e =>
    if pTvGpa.any (fun row => row.isEmpty) then some (.error .indexError) else
    match reduce g.left.red l, reduce g.right.red r with
    | some a, some b => some (if cmp g.op a b then .error e else .ok ())
    | _, _ => some (.error .valueError)
  | _, _, _ => none

/-- **The model's range check is the guard written in qha_adapter.py now**, for every (T,V) pressure table and every requested
grid, over every ordered scalar. -/
theorem desiredPressureStatus_is_source (pTvGpa : List (List α)) (desiredGpa : List α) :
    evalGuard Generated.pressureGuard pTvGpa desiredGpa = some (desiredPressureStatus pTvGpa desiredGpa) := by
  unfold evalGuard desiredPressureStatus
  simp only [Generated.pressureGuard, sideArray, errOf, if_true]
  by_cases hemp : pTvGpa.any (fun row => row.isEmpty) = true
  · simp [hemp]
  · simp only [hemp]
    cases hl : lastColumn pTvGpa with
    | nil => simp [reduce, listMin]
    | cons x xs =>
      cases hr : desiredGpa with
      | nil => simp [reduce, listMin, listMax]
      | cons y ys => simp [reduce, listMin, listMax, cmp]

end

/-- the loading sequence: the file is handed to qha, the grid refined, and the range guard applied LAST, on the refined grid -/
theorem load_order_is_source :
    Generated.adapterLoadCalls = [("read_input", "qha_input"), ("refine_grid", ""), ("desired_pressure_status", "")] := by
  decide

end Cij.AdapterGuardSource
