/-
  The hand-written model functions of `CijModel/NonShear.lean` ARE the expressions that the translator extracts from
  `nonshear.py` on this run (`Generated/NonShearExprs.lean`, `Generated/QExprs.lean`) — for EVERY scalar type, hence also
  for the `Float` instance the correspondence run executes.  All by unfolding (`rfl`): if someone edits a sign, an index
  or a factor in the Python bodies, these stop checking.
-/
import CijModel.NSExpr
import Generated.NonShearExprs
import Generated.QExprs

namespace Cij.NSExpr
open Cij.NonShear

variable {α : Type} [Scalar α] [Add α] [Sub α] [Mul α] [Div α] [Neg α]

/-- the environment in which the translated bodies are evaluated at one (T, V) grid point -/
def envAt (c : Consts α) (w : List α) (T P cv : α) (s : VolSlice α) (g : ModeGamma α) (zp th iso gap : α) : SEnv α :=
  { h := c.h, k := c.k, T := T, V := s.V, cv := cv, na := c.na, P := P, pst := s.pstatic, zp := zp, th := th, iso := iso,
    gap := gap, w := w,
    m := { g := g, freq := s.freq, q1 := Q1arr c.hdk T s.freq, q2 := Q2arr c.hdk T s.freq } }

theorem zeroPointLong_is_source (c : Consts α) (w : List α) (T P cv : α) (s : VolSlice α) (g : ModeGamma α) (a b d e : α) :
    zeroPointLongAt c.h c.na s.V g s.freq w = evalBody (envAt c w T P cv s g a b d e) Generated.nsZpLong := rfl

theorem zeroPointOff_is_source (c : Consts α) (w : List α) (T P cv : α) (s : VolSlice α) (g : ModeGamma α) (a b d e : α) :
    zeroPointOffAt c.h c.na s.V g s.freq w = evalBody (envAt c w T P cv s g a b d e) Generated.nsZpOff := rfl

theorem thermalLong_is_source (c : Consts α) (w : List α) (T P cv : α) (s : VolSlice α) (g : ModeGamma α) (a b d e : α) :
    thermalLongAt c.k c.hdk c.na T s.V g s.freq w = evalBody (envAt c w T P cv s g a b d e) Generated.nsThLong := rfl

theorem thermalOff_is_source (c : Consts α) (w : List α) (T P cv : α) (s : VolSlice α) (g : ModeGamma α) (a b d e : α) :
    thermalOffAt c.k c.hdk c.na T s.V g s.freq w = evalBody (envAt c w T P cv s g a b d e) Generated.nsThOff := rfl

theorem isoToAdiaLong_is_source (c : Consts α) (w : List α) (T P cv : α) (s : VolSlice α) (g : ModeGamma α) (a b d e : α) :
    isoToAdiaAt c.k c.hdk c.na T s.V cv g s.freq w = evalBody (envAt c w T P cv s g a b d e) Generated.nsGapLong := rfl

theorem isoToAdiaOff_is_source (c : Consts α) (w : List α) (T P cv : α) (s : VolSlice α) (g : ModeGamma α) (a b d e : α) :
    isoToAdiaAt c.k c.hdk c.na T s.V cv g s.freq w = evalBody (envAt c w T P cv s g a b d e) Generated.nsGapOff := rfl

/-- `value_isothermal`, longitudinal: the translated body evaluated on the model's zero-point and thermal parts -/
theorem valueIsothermalLong_is_source (c : Consts α) (w : List α) (T P cv : α) (s : VolSlice α) (d e : α) :
    valueIsothermalLongAt c w T s =
      evalBody (envAt c w T P cv s (mgLong s)
        (zeroPointLongAt c.h c.na s.V (mgLong s) s.freq w) (thermalLongAt c.k c.hdk c.na T s.V (mgLong s) s.freq w) d e)
        Generated.nsIsoLong := rfl

theorem valueIsothermalOff_is_source (c : Consts α) (w : List α) (T P cv : α) (s : VolSlice α) (d e : α) :
    valueIsothermalOffAt c w T P s =
      evalBody (envAt c w T P cv s (mgOff s)
        (zeroPointOffAt c.h c.na s.V (mgOff s) s.freq w) (thermalOffAt c.k c.hdk c.na T s.V (mgOff s) s.freq w) d e)
        Generated.nsIsoOff := rfl

theorem valueAdiabaticLong_is_source (c : Consts α) (w : List α) (T P cv : α) (s : VolSlice α) (a b : α) :
    valueAdiabaticLongAt c w T cv s =
      evalBody (envAt c w T P cv s (mgLong s) a b (valueIsothermalLongAt c w T s)
        (isoToAdiaAt c.k c.hdk c.na T s.V cv (mgLong s) s.freq w)) Generated.nsAdiaLong := rfl

theorem valueAdiabaticOff_is_source (c : Consts α) (w : List α) (T P cv : α) (s : VolSlice α) (a b : α) :
    valueAdiabaticOffAt c w T P cv s =
      evalBody (envAt c w T P cv s (mgOff s) a b (valueIsothermalOffAt c w T P s)
        (isoToAdiaAt c.k c.hdk c.na T s.V cv (mgOff s) s.freq w)) Generated.nsAdiaOff := rfl

/-- `mode_gamma` wiring: (g0, g10, g11, g2) = (pref[0]·cmg[0], pref[1][0]·cmg[1], pref[1][1]·cmg[1], pref[2]·cmg[2]),
the wiring `NonShear.modeGamma` implements, in both classes -/
theorem modeGamma_wiring_is_source :
    Generated.mgWiringLong = [([0], 0), ([1, 0], 1), ([1, 1], 1), ([2], 2)] ∧
    Generated.mgWiringOff = [([0], 0), ([1, 0], 1), ([1, 1], 1), ([2], 2)] := by decide

end Cij.NSExpr
