/- Helper lemmas for C03 / C04 about `CijModel/Shear.lean` (no property statements here). -/
import CijModel.Shear
import Mathlib.LinearAlgebra.Matrix.NonsingularInverse
import Mathlib.Algebra.BigOperators.Fin
import Mathlib.Tactic.Ring
import Mathlib.Tactic.FieldSimp
import Mathlib.Tactic.FinCases
import Mathlib.Tactic.LinearCombination

/- the derived `BEq` of the key types is the structural equality (needed for `Decidable (k ∈ l)`) -/
deriving instance ReflBEq, LawfulBEq for Cij.Strain
deriving instance ReflBEq, LawfulBEq for Cij.Modulus

namespace Cij.Shear
open Finset

/-! ### sums -/

theorem sum3_eq {M} [AddCommMonoid M] (f : Fin 3 → M) : sum3 f = ∑ i, f i := by
  simp [sum3, Fin.sum_univ_three]

section swaps
variable {ι κ M : Type*} [Fintype ι] [Fintype κ] [AddCommMonoid M]

theorem sum_out2 (f : ι → ι → κ → M) : ∑ i, ∑ j, ∑ a, f i j a = ∑ a, ∑ i, ∑ j, f i j a := by
  calc ∑ i, ∑ j, ∑ a, f i j a = ∑ i, ∑ a, ∑ j, f i j a := sum_congr rfl fun i _ => sum_comm
    _ = ∑ a, ∑ i, ∑ j, f i j a := sum_comm

theorem sum_out3 (f : ι → ι → ι → κ → M) :
    ∑ i, ∑ j, ∑ k, ∑ a, f i j k a = ∑ a, ∑ i, ∑ j, ∑ k, f i j k a := by
  calc ∑ i, ∑ j, ∑ k, ∑ a, f i j k a = ∑ i, ∑ a, ∑ j, ∑ k, f i j k a :=
        sum_congr rfl fun i _ => sum_out2 (f i)
    _ = ∑ a, ∑ i, ∑ j, ∑ k, f i j k a := sum_comm

theorem sum_out4 (f : ι → ι → ι → ι → κ → M) :
    ∑ i, ∑ j, ∑ k, ∑ l, ∑ a, f i j k l a = ∑ a, ∑ i, ∑ j, ∑ k, ∑ l, f i j k l a := by
  calc ∑ i, ∑ j, ∑ k, ∑ l, ∑ a, f i j k l a = ∑ i, ∑ a, ∑ j, ∑ k, ∑ l, f i j k l a :=
        sum_congr rfl fun i _ => sum_out3 (f i)
    _ = ∑ a, ∑ i, ∑ j, ∑ k, ∑ l, f i j k l a := sum_comm

/-- `Σ_kl Σ_ij f = Σ_ij Σ_kl f` -/
theorem sum_swap22 (f : ι → ι → ι → ι → M) :
    ∑ k, ∑ l, ∑ i, ∑ j, f k l i j = ∑ i, ∑ j, ∑ k, ∑ l, f k l i j := by
  calc ∑ k, ∑ l, ∑ i, ∑ j, f k l i j = ∑ i, ∑ k, ∑ l, ∑ j, f k l i j :=
        sum_out2 (fun k l i => ∑ j, f k l i j)
    _ = ∑ i, ∑ j, ∑ k, ∑ l, f k l i j := sum_congr rfl fun i _ => sum_out2 (fun k l j => f k l i j)

end swaps

/-! ### the eigen contract in matrix form -/

section contract
variable {R : Type} [CommRing R]

theorem Contract.orth' {T : Mat3 R} {lam : Vec3 R} {e : Mat3 R} (h : Contract T lam e) (a b : Fin 3) :
    ∑ i, T i a * T i b = if a = b then 1 else 0 := by
  have := h.orth a b
  rw [sum3_eq] at this
  simpa using this

theorem Contract.diag' {T : Mat3 R} {lam : Vec3 R} {e : Mat3 R} (h : Contract T lam e) (a b : Fin 3) :
    ∑ i, ∑ j, T i a * e i j * T j b = if a = b then lam a else 0 := by
  have := h.diag a b
  simp only [sum3_eq] at this
  simpa using this

/-- rows of an orthogonal `T` are orthonormal too: `T Tᵀ = 1` -/
theorem Contract.rows {T : Mat3 R} {lam : Vec3 R} {e : Mat3 R} (h : Contract T lam e) (i j : Fin 3) :
    ∑ a, T i a * T j a = if i = j then 1 else 0 := by
  have h1 : (Matrix.of T).transpose * Matrix.of T = 1 := by
    ext a b
    simp only [Matrix.mul_apply, Matrix.transpose_apply, Matrix.of_apply, Matrix.one_apply]
    exact h.orth' a b
  have h2 : Matrix.of T * (Matrix.of T).transpose = 1 :=
    (Matrix.mul_eq_one_comm_of_card_eq (Fin 3) (Fin 3) R rfl).mp h1
  have := congrFun (congrFun h2 i) j
  simpa [Matrix.mul_apply, Matrix.one_apply] using this

/-- `e = T diag(lam) Tᵀ` -/
theorem Contract.decomp {T : Mat3 R} {lam : Vec3 R} {e : Mat3 R} (h : Contract T lam e) (i j : Fin 3) :
    e i j = ∑ a, T i a * lam a * T j a := by
  -- e_ij = Σ_{k l} (TTᵀ)_ik e_kl (TTᵀ)_lj = Σ_{a b} T_ia (TᵀeT)_ab T_jb
  have hI : e i j = ∑ k, ∑ l, (∑ a, T i a * T k a) * e k l * (∑ b, T l b * T j b) := by
    simp only [h.rows]
    simp [Finset.sum_ite_eq, Finset.sum_ite_eq']
  rw [hI]
  have : ∀ k l, (∑ a, T i a * T k a) * e k l * (∑ b, T l b * T j b) =
      ∑ a, ∑ b, T i a * (T k a * e k l * T l b) * T j b := by
    intro k l
    rw [Finset.sum_mul, Finset.sum_mul]
    refine sum_congr rfl fun a _ => ?_
    rw [Finset.mul_sum]
    refine sum_congr rfl fun b _ => by ring
  simp only [this]
  rw [sum_out2 (fun k l a => ∑ b, T i a * (T k a * e k l * T l b) * T j b)]
  refine sum_congr rfl fun a _ => ?_
  rw [sum_out2 (fun k l b => T i a * (T k a * e k l * T l b) * T j b)]
  have : ∀ b, ∑ k, ∑ l, T i a * (T k a * e k l * T l b) * T j b =
      T i a * (∑ k, ∑ l, T k a * e k l * T l b) * T j b := by
    intro b
    simp only [Finset.mul_sum, Finset.sum_mul]
  simp only [this, h.diag']
  simp [Finset.sum_ite_eq]

/-- the strain energy is frame independent: `Σ C_ijkl e_ij e_kl = Σ_ab C'_aabb λ_a λ_b` (Finset form) -/
theorem energy_invariant_sum {T : Mat3 R} {lam : Vec3 R} {e : Mat3 R} (h : Contract T lam e)
    (C : Fin 3 → Fin 3 → Fin 3 → Fin 3 → R) :
    ∑ i, ∑ j, ∑ k, ∑ l, C i j k l * e i j * e k l =
    ∑ a, ∑ b, (∑ i, ∑ j, ∑ k, ∑ l, T i a * T j a * T k b * T l b * C i j k l) * lam a * lam b := by
  have hterm : ∀ i j k l, C i j k l * e i j * e k l =
      ∑ a, ∑ b, T i a * T j a * T k b * T l b * C i j k l * lam a * lam b := by
    intro i j k l
    rw [h.decomp i j, h.decomp k l, mul_assoc, Finset.sum_mul_sum, Finset.mul_sum]
    refine sum_congr rfl fun a _ => ?_
    rw [Finset.mul_sum]
    refine sum_congr rfl fun b _ => by ring
  simp only [hterm]
  rw [sum_out4 (fun i j k l a => ∑ b, T i a * T j a * T k b * T l b * C i j k l * lam a * lam b)]
  refine sum_congr rfl fun a _ => ?_
  rw [sum_out4 (fun i j k l b => T i a * T j a * T k b * T l b * C i j k l * lam a * lam b)]
  refine sum_congr rfl fun b _ => ?_
  simp only [Finset.sum_mul]

/-- major symmetry is inherited by the rotated tensor -/
theorem rotate_major (T : Mat3 R) (C : Fin 3 → Fin 3 → Fin 3 → Fin 3 → R)
    (hC : ∀ i j k l, C i j k l = C k l i j) (a b c d : Fin 3) :
    rotate T C a b c d = rotate T C c d a b := by
  simp only [rotate, sum3_eq]
  rw [sum_swap22 (fun i j k l => T i c * T j d * T k a * T l b * C i j k l)]
  refine sum_congr rfl fun i _ => sum_congr rfl fun j _ => sum_congr rfl fun k _ => sum_congr rfl fun l _ => ?_
  rw [hC i j k l]; ring

/-- the model form of `energy_invariant_sum` -/
theorem energy_invariant_model {T : Mat3 R} {lam : Vec3 R} {e : Mat3 R} (h : Contract T lam e)
    (C : Fin 3 → Fin 3 → Fin 3 → Fin 3 → R) :
    (sum3 fun i => sum3 fun j => sum3 fun k => sum3 fun l => C i j k l * e i j * e k l) =
    sum3 fun a => sum3 fun b => rotate T C a a b b * lam a * lam b := by
  simp only [rotate, sum3_eq]
  exact energy_invariant_sum h C

end contract

end Cij.Shear

namespace Cij.Shear

/-! ### list sums -/

section lists
variable {X : Type} {R : Type}

theorem foldl_add_eq [AddCommMonoid R] (g : X → R) (l : List X) (z : R) :
    l.foldl (fun acc x => acc + g x) z = z + (l.map g).sum := by
  induction l generalizing z with
  | nil => simp
  | cons x xs ih => simp [ih, add_assoc]

theorem sum_map_div [DivisionRing R] (f : X → R) (d : R) (l : List X) :
    (l.map fun x => f x / d).sum = (l.map f).sum / d := by
  induction l with
  | nil => simp
  | cons x xs ih => simp [ih, add_div]

theorem sum_filter_split [AddCommMonoid R] (f : X → R) (p : X → Bool) (l : List X) :
    (l.map f).sum = ((l.filter fun x => !p x).map f).sum + ((l.filter p).map f).sum := by
  induction l with
  | nil => simp
  | cons x xs ih =>
    cases hp : p x <;> simp [hp, ih, add_assoc, add_left_comm]

theorem sum_filter_const [Semiring R] (f : X → R) (p : X → Bool) (v : R) (l : List X)
    (h : ∀ x ∈ l, p x = true → f x = v) : ((l.filter p).map f).sum = ((l.filter p).length : R) * v := by
  induction l with
  | nil => simp
  | cons x xs ih =>
    have ih' := ih (fun y hy => h y (List.mem_cons_of_mem _ hy))
    cases hp : p x
    · simp [hp, ih']
    · simp [hp, ih', h x (List.mem_cons_self) hp, add_mul, add_comm]

/-- dropping elements whose term vanishes does not change a sum -/
theorem sum_filter_of_zero [AddCommMonoid R] (f : X → R) (p : X → Bool) (l : List X)
    (h : ∀ x ∈ l, p x = false → f x = 0) : ((l.filter p).map f).sum = (l.map f).sum := by
  induction l with
  | nil => simp
  | cons x xs ih =>
    have ih' := ih (fun y hy => h y (List.mem_cons_of_mem _ hy))
    cases hp : p x
    · simp [hp, ih', h x (List.mem_cons_self) hp]
    · simp [hp, ih']

theorem mem_product {nz : List Pair} {pq : Pair × Pair} : pq ∈ product nz ↔ pq.1 ∈ nz ∧ pq.2 ∈ nz := by
  obtain ⟨p, q⟩ := pq
  simp only [product, List.mem_flatMap, List.mem_map, Prod.mk.injEq]
  constructor
  · rintro ⟨a, ha, b, hb, rfl, rfl⟩; exact ⟨ha, hb⟩
  · rintro ⟨hp, hq⟩; exact ⟨p, hp, q, hq, rfl, rfl⟩

end lists

end Cij.Shear

namespace Cij.Shear

/-! ### the model's lists for the fictitious strain of a key, as pure index combinatorics -/

/-- index pairs set to 1 by `fictitious_strain` -/
def maskPairs (key : Modulus) : List Pair := allPairs9.filter fun p => fictitiousMask key p.1 p.2

/-- loop iterations of the original-frame energy that are not skipped -/
def origPairs (key : Modulus) : List (Pair × Pair) :=
  (product (maskPairs key)).filter fun pq => !(decide (some (keyOfPairs pq) = some key))

/-- the skipped ones -/
def targetPairs (key : Modulus) : List (Pair × Pair) :=
  (product (maskPairs key)).filter fun pq => decide (some (keyOfPairs pq) = some key)

theorem key4_major : ∀ i j k l : Fin 3, key4 i j k l = key4 k l i j := by decide +kernel

/-- number of skipped iterations = multiplicity (4 or 8) -/
theorem targetPairs_length : ∀ key ∈ shearKeys, (targetPairs key).length = key.multiplicity := by
  decide +kernel

theorem product_mask : ∀ key ∈ shearKeys,
    (product allPairs9).filter (fun pq => fictitiousMask key pq.1.1 pq.1.2 && fictitiousMask key pq.2.1 pq.2.2) =
    product (maskPairs key) := by
  decide +kernel

/-- the key of a rotated-frame iteration read back through `rotatedLookup`'s indices -/
theorem key4_diag_idx : ∀ a b : Fin 3,
    (idx (key4 a a b b).i.i = a ∧ idx (key4 a a b b).i.j = a ∧ idx (key4 a a b b).j.i = b ∧ idx (key4 a a b b).j.j = b) ∨
    (idx (key4 a a b b).i.i = b ∧ idx (key4 a a b b).i.j = b ∧ idx (key4 a a b b).j.i = a ∧ idx (key4 a a b b).j.j = a) := by
  decide +kernel

theorem key4_diag_nonshear : ∀ a b : Fin 3, (key4 a a b b).isShear = false := by decide +kernel

theorem shearKeys_mult_pos : ∀ key ∈ shearKeys, key.multiplicity = 4 ∨ key.multiplicity = 8 := by decide +kernel

section field
variable {R : Type} [Field R]

theorem nzPairs_fict (isZero : R → Bool) (h0 : isZero (0 : R) = true) (h1 : isZero (1 : R) = false)
    (key : Modulus) : nzPairs isZero (fictitiousStrain key) = maskPairs key := by
  unfold nzPairs maskPairs
  apply List.filter_congr
  intro p _
  unfold fictitiousStrain
  cases fictitiousMask key p.1 p.2 <;> simp [h0, h1]

theorem nzPairs_diag (isZero : R → Bool) (h0 : isZero (0 : R) = true) (lam : Vec3 R) :
    nzPairs isZero (diagMat lam) = (fin3.filter fun a => !isZero (lam a)).map fun a => (a, a) := by
  cases hz0 : isZero (lam 0) <;> cases hz1 : isZero (lam 1) <;> cases hz2 : isZero (lam 2) <;>
    simp [nzPairs, allPairs9, fin3, diagMat, hz0, hz1, hz2, h0]

theorem energyPairs_fict (isZero : R → Bool) (h0 : isZero (0 : R) = true) (h1 : isZero (1 : R) = false)
    (key : Modulus) : energyPairs isZero (fictitiousStrain key) (some key) = origPairs key := by
  unfold energyPairs origPairs
  rw [nzPairs_fict isZero h0 h1]

theorem fict_one_of_mem (key : Modulus) {p : Pair} (hp : p ∈ maskPairs key) :
    fictitiousStrain (α := R) key p.1 p.2 = 1 := by
  have : fictitiousMask key p.1 p.2 = true := (List.mem_filter.mp hp).2
  simp [fictitiousStrain, this]

/-- the four-fold sum as a sum over the list of index-pair pairs -/
theorem sum3_four_eq_list (g : Fin 3 → Fin 3 → Fin 3 → Fin 3 → R) :
    (sum3 fun i => sum3 fun j => sum3 fun k => sum3 fun l => g i j k l) =
    ((product allPairs9).map fun pq => g pq.1.1 pq.1.2 pq.2.1 pq.2.2).sum := by
  simp only [sum3, product, allPairs9, fin3, List.flatMap_cons, List.flatMap_nil, List.map_cons, List.map_nil,
    List.append_nil, List.cons_append, List.nil_append, List.sum_cons, List.sum_nil]
  ring

end field

end Cij.Shear

namespace Cij.Shear

section energies
variable {R : Type} [Field R]

/-- original-frame energy of the model = half the sum of the requested values -/
theorem strainEnergy_orig (isZero : R → Bool) (h0 : isZero (0 : R) = true) (h1 : isZero (1 : R) = false)
    (key : Modulus) (c : Modulus → R) :
    strainEnergy isZero (fictitiousStrain key) c (some key) =
      ((origPairs key).map fun pq => c (keyOfPairs pq)).sum / 2 := by
  unfold strainEnergy
  rw [energyPairs_fict isZero h0 h1, foldl_add_eq]
  simp only [Nat.cast_zero, zero_add, Nat.cast_ofNat]
  rw [sum_map_div]
  congr 1
  apply congrArg
  apply List.map_congr_left
  intro pq hpq
  have hm := (mem_product.mp (List.mem_filter.mp hpq).1)
  rw [fict_one_of_mem key hm.1, fict_one_of_mem key hm.2]
  ring

/-- the full energy `Σ C_ijkl e_ij e_kl` of the fictitious strain = requested part + multiplicity × target -/
theorem full_energy_fict (key : Modulus) (hk : key ∈ shearKeys) (c : Modulus → R) :
    (sum3 fun i => sum3 fun j => sum3 fun k => sum3 fun l =>
        tensorOf c i j k l * fictitiousStrain key i j * fictitiousStrain key k l) =
      ((origPairs key).map fun pq => c (keyOfPairs pq)).sum + (key.multiplicity : R) * c key := by
  rw [sum3_four_eq_list]
  have hterm : ∀ pq : Pair × Pair,
      tensorOf c pq.1.1 pq.1.2 pq.2.1 pq.2.2 * fictitiousStrain key pq.1.1 pq.1.2 * fictitiousStrain key pq.2.1 pq.2.2 =
      if (fictitiousMask key pq.1.1 pq.1.2 && fictitiousMask key pq.2.1 pq.2.2) then c (keyOfPairs pq) else 0 := by
    intro pq
    unfold fictitiousStrain tensorOf keyOfPairs
    cases fictitiousMask key pq.1.1 pq.1.2 <;> cases fictitiousMask key pq.2.1 pq.2.2 <;> simp
  simp only [hterm]
  have hfil := sum_filter_of_zero
    (fun pq : Pair × Pair => if (fictitiousMask key pq.1.1 pq.1.2 && fictitiousMask key pq.2.1 pq.2.2) then c (keyOfPairs pq) else 0)
    (fun pq => fictitiousMask key pq.1.1 pq.1.2 && fictitiousMask key pq.2.1 pq.2.2) (product allPairs9)
    (by intro x _ hx; simp [hx])
  rw [← hfil, product_mask key hk]
  have hcongr : ((product (maskPairs key)).map fun pq : Pair × Pair =>
      if (fictitiousMask key pq.1.1 pq.1.2 && fictitiousMask key pq.2.1 pq.2.2) then c (keyOfPairs pq) else 0) =
      (product (maskPairs key)).map fun pq => c (keyOfPairs pq) := by
    apply List.map_congr_left
    intro pq hpq
    have hm := mem_product.mp hpq
    have h1 : fictitiousMask key pq.1.1 pq.1.2 = true := (List.mem_filter.mp hm.1).2
    have h2 : fictitiousMask key pq.2.1 pq.2.2 = true := (List.mem_filter.mp hm.2).2
    simp [h1, h2]
  rw [hcongr, sum_filter_split (fun pq => c (keyOfPairs pq)) (fun pq => decide (some (keyOfPairs pq) = some key))]
  have hconst := sum_filter_const (fun pq : Pair × Pair => c (keyOfPairs pq))
    (fun pq => decide (some (keyOfPairs pq) = some key)) (c key) (product (maskPairs key))
    (by intro x _ hx; simp at hx; rw [hx])
  rw [hconst]
  have hlen := targetPairs_length key hk
  unfold targetPairs at hlen
  rw [hlen]
  rfl

/-- `modulus_rotated[key]` for the key of a rotated-frame iteration is `C'_aabb` -/
theorem rotatedLookup_diag (T : Mat3 R) (c : Modulus → R) (a b : Fin 3) :
    rotatedLookup T c (key4 a a b b) = rotate T (tensorOf c) a a b b := by
  unfold rotatedLookup
  rcases key4_diag_idx a b with ⟨h1, h2, h3, h4⟩ | ⟨h1, h2, h3, h4⟩
  · rw [h1, h2, h3, h4]
  · rw [h1, h2, h3, h4]
    exact rotate_major T (tensorOf c) (fun i j k l => by unfold tensorOf; rw [key4_major]) b b a a

/-- rotated-frame energy of the model = half of `Σ_ab C'_aabb λ_a λ_b` -/
theorem strainEnergy_rot (isZero : R → Bool) (hz : ∀ x, isZero x = true ↔ x = 0)
    (T : Mat3 R) (lam : Vec3 R) (c : Modulus → R) :
    strainEnergy isZero (diagMat lam) (rotatedLookup T c) none =
      (sum3 fun a => sum3 fun b => rotate T (tensorOf c) a a b b * lam a * lam b) / 2 := by
  have h0 : isZero (0 : R) = true := (hz 0).2 rfl
  unfold strainEnergy energyPairs
  rw [nzPairs_diag isZero h0, foldl_add_eq]
  simp only [Nat.cast_zero, zero_add, Nat.cast_ofNat, reduceCtorEq, decide_false, Bool.not_false, List.filter_true]
  rw [sum_map_div]
  congr 1
  -- the list of iterations as a double sum over the non-zero eigenvalues
  have hprod : ∀ (l : List (Fin 3)) (g : Pair × Pair → R),
      ((product (l.map fun a => (a, a))).map g).sum = (l.map fun a => (l.map fun b => g ((a, a), (b, b))).sum).sum := by
    intro l g
    have gen : ∀ (l1 l2 : List Pair),
        ((l1.flatMap fun p => l2.map fun q => (p, q)).map g).sum = (l1.map fun p => (l2.map fun q => g (p, q)).sum).sum := by
      intro l1 l2
      induction l1 with
      | nil => simp
      | cons x xs ih => simp [List.flatMap_cons, List.map_append, List.sum_append, ih, List.map_map, Function.comp_def]
    unfold product
    rw [gen]
    simp [List.map_map, Function.comp_def]
  rw [hprod]
  set f : Fin 3 → Fin 3 → R := fun a b => rotate T (tensorOf c) a a b b * lam a * lam b with hf
  have hterm : ∀ a b : Fin 3,
      rotatedLookup T c (keyOfPairs ((a, a), (b, b))) * diagMat lam a a * diagMat lam b b = f a b := by
    intro a b
    simp only [keyOfPairs, rotatedLookup_diag, diagMat, if_true, hf]
  simp only [hterm]
  have hlam : ∀ a : Fin 3, (!isZero (lam a)) = false → lam a = 0 := by
    intro a ha
    apply (hz _).1
    simpa using ha
  have inner : ∀ a : Fin 3, ((fin3.filter fun b => !isZero (lam b)).map fun b => f a b).sum = (fin3.map fun b => f a b).sum := by
    intro a
    apply sum_filter_of_zero
    intro b _ hb
    simp [hf, hlam b hb]
  simp only [inner]
  rw [sum_filter_of_zero (fun a => (fin3.map fun b => f a b).sum) (fun a => !isZero (lam a)) fin3
    (by intro a _ ha; simp [hf, hlam a ha, fin3])]
  simp [fin3, sum3, hf, add_assoc]

end energies

end Cij.Shear

namespace Cij.Shear

section congr
variable {R : Type} [Field R]

/-- the energy reads `resolve` only at the keys the class asks for -/
theorem strainEnergy_congr (isZero : R → Bool) (e : Mat3 R) (target : Option Modulus) (r r' : Modulus → R)
    (h : ∀ k ∈ energyKeys isZero e target, r k = r' k) :
    strainEnergy isZero e r target = strainEnergy isZero e r' target := by
  unfold strainEnergy
  rw [foldl_add_eq, foldl_add_eq]
  congr 2
  apply List.map_congr_left
  intro pq hpq
  rw [h (keyOfPairs pq) (List.mem_map.mpr ⟨pq, hpq, rfl⟩)]

theorem target_entries_one (key : Modulus) :
    fictitiousStrain (α := R) key (idx key.i.i) (idx key.i.j) = 1 ∧
    fictitiousStrain (α := R) key (idx key.j.i) (idx key.j.j) = 1 := by
  simp [fictitiousStrain, fictitiousMask]

/-- the core identity behind `c03_exact` -/
theorem shearValue_exact [CharZero R] (isZero : R → Bool) (hz : ∀ x, isZero x = true ↔ x = 0)
    (key : Modulus) (hk : key ∈ shearKeys) (c : Modulus → R) (T : Mat3 R) (lam : Vec3 R)
    (h : Contract T lam (fictitiousStrain key)) :
    shearValue isZero key lam c (rotatedLookup T c) = c key := by
  have h0 : isZero (0 : R) = true := (hz 0).2 rfl
  have h1 : isZero (1 : R) = false := by
    cases hh : isZero (1 : R)
    · rfl
    · exact absurd ((hz 1).1 hh) one_ne_zero
  unfold shearValue targetModulus
  rw [strainEnergy_rot isZero hz, strainEnergy_orig isZero h0 h1, ← energy_invariant_model h (tensorOf c),
    full_energy_fict key hk c, (target_entries_one key).1, (target_entries_one key).2]
  have hm : ((key.multiplicity : Nat) : R) ≠ 0 := by
    rcases shearKeys_mult_pos key hk with h4 | h8
    · rw [h4]; norm_num
    · rw [h8]; norm_num
  simp only [Nat.cast_ofNat]
  field_simp
  ring

end congr

end Cij.Shear
