/-
  The translated source of `cij/util/voigt.py` (`Generated.VoigtSrc.module`, re-emitted from the working tree on every run and
  evaluated by `PyLite.eval`) against the hand-written model `CijModel/Voigt.lean`.

  * this file: the finite domain, `decide +kernel`, block by block (the 4-index blocks are in `VoigtSrcC4_0 … _4`), assembled
    into `domainC_agrees` / `domainE_agrees`;
  * `VoigtSrcTables`: the source's keys for the 81 tuples / 36 pairs / strains in the model's vocabulary, and the spellings;
  * `VoigtSrcViews`: every view (Voigt, standard, multiplicity, flags, calc_type, repr) of the 21 keys, canonical ordering;
  * `VoigtSrcInts`: rejection for ALL integers — the evaluator runs in the kernel with partly symbolic arguments (`kernel_rfl`);
  * `VoigtSrcSort`: `sorted((i, j))` on two symbolic integers (continuation extraction + case split), `from_standard` of both
    classes for all integers in any calling context;
  * `VoigtSrcDigits`: `str(n)`, the generator expression over a digit string of symbolic length, `create` by number of digits;
  * `VoigtSrcModelInts`: translated source = hand model for ALL integer spellings (one, two, four arguments).
  (Separate files so that `lake` checks them in parallel.)
-/
import CijProofs.Lemmas.PyLite
import CijProofs.Lemmas.Voigt
import CijProofs.Lemmas.VoigtSrcC4_0
import CijProofs.Lemmas.VoigtSrcC4_1
import CijProofs.Lemmas.VoigtSrcC4_2
import CijProofs.Lemmas.VoigtSrcC4_3
import CijProofs.Lemmas.VoigtSrcC4_4
import CijProofs.Lemmas.VoigtSrcTables
import CijProofs.Lemmas.VoigtSrcViews
import CijProofs.Lemmas.VoigtSrcInts
import CijProofs.Lemmas.VoigtSrcSort
import CijProofs.Lemmas.VoigtSrcDigits
import CijProofs.Lemmas.VoigtSrcModelInts

namespace Cij.VoigtSrc
open PyLite

/-! ### the finite domain -/

theorem domainE_agrees : domainE.all agreeE = true := by decide +kernel

theorem domainC1_agrees : domainC1.all agreeC = true := by decide +kernel

theorem blockC2_lo : ((rangeI 0 3).flatMap blockC2).all agreeC = true := by decide +kernel
theorem blockC2_hi : ((rangeI 4 7).flatMap blockC2).all agreeC = true := by decide +kernel

theorem rangeI_0_4 : rangeI 0 4 = [0, 1, 2, 3, 4] := by decide
theorem rangeI_0_7 : rangeI 0 7 = rangeI 0 3 ++ rangeI 4 7 := by decide

theorem domainC4_agrees : ∀ x ∈ domainC4, agreeC x = true := by
  intro x hx
  simp only [domainC4, rangeI_0_4, List.mem_flatMap, List.mem_cons, List.not_mem_nil, or_false] at hx
  obtain ⟨a, ha, b, hb, hx⟩ := hx
  rcases ha with rfl | rfl | rfl | rfl | rfl <;> rcases hb with rfl | rfl | rfl | rfl | rfl
  · exact List.all_eq_true.mp blockC4_0_0 x hx
  · exact List.all_eq_true.mp blockC4_0_1 x hx
  · exact List.all_eq_true.mp blockC4_0_2 x hx
  · exact List.all_eq_true.mp blockC4_0_3 x hx
  · exact List.all_eq_true.mp blockC4_0_4 x hx
  · exact List.all_eq_true.mp blockC4_1_0 x hx
  · exact List.all_eq_true.mp blockC4_1_1 x hx
  · exact List.all_eq_true.mp blockC4_1_2 x hx
  · exact List.all_eq_true.mp blockC4_1_3 x hx
  · exact List.all_eq_true.mp blockC4_1_4 x hx
  · exact List.all_eq_true.mp blockC4_2_0 x hx
  · exact List.all_eq_true.mp blockC4_2_1 x hx
  · exact List.all_eq_true.mp blockC4_2_2 x hx
  · exact List.all_eq_true.mp blockC4_2_3 x hx
  · exact List.all_eq_true.mp blockC4_2_4 x hx
  · exact List.all_eq_true.mp blockC4_3_0 x hx
  · exact List.all_eq_true.mp blockC4_3_1 x hx
  · exact List.all_eq_true.mp blockC4_3_2 x hx
  · exact List.all_eq_true.mp blockC4_3_3 x hx
  · exact List.all_eq_true.mp blockC4_3_4 x hx
  · exact List.all_eq_true.mp blockC4_4_0 x hx
  · exact List.all_eq_true.mp blockC4_4_1 x hx
  · exact List.all_eq_true.mp blockC4_4_2 x hx
  · exact List.all_eq_true.mp blockC4_4_3 x hx
  · exact List.all_eq_true.mp blockC4_4_4 x hx

theorem domainC2_agrees : ∀ x ∈ domainC2, agreeC x = true := by
  intro x hx
  simp only [domainC2, rangeI_0_7, List.flatMap_append, List.mem_append] at hx
  rcases hx with hx | hx
  · exact List.all_eq_true.mp blockC2_lo x hx
  · exact List.all_eq_true.mp blockC2_hi x hx

/-- on the complete finite domain of `c_`: translated source = model -/
theorem domainC_agrees : ∀ x ∈ domainC, agreeC x = true := by
  intro x hx
  simp only [domainC, List.mem_append] at hx
  rcases hx with (hx | hx) | hx
  · exact domainC4_agrees x hx
  · exact domainC2_agrees x hx
  · exact List.all_eq_true.mp domainC1_agrees x hx

end Cij.VoigtSrc
