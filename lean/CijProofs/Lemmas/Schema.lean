/-
  Helper lemmas for C16 (validation part).

  * `valid_applic`   — if a configuration is valid, the value at any path satisfies every schema that the
                       validation applies there (`applic`): the basis of all "invalid ⇒ rejected" theorems.
  * `valid_setPath`  — replacing / adding one value that satisfies every schema applying at its path keeps a
                       valid configuration valid: the basis of all "documented value ⇒ accepted" theorems.
  * `Spec`, `enforced`, `leafImplied`, `requiredAt`, `closedAt` — decidable checks on the *translated schema*
    that connect a documented constraint with the keywords found in the schema.
-/
import CijProofs.Lemmas.Config
import CijModel.Schema

namespace Cij.Schema
open Cij Cij.Config

/-! ### keyword dispatch -/
section kw
variable (rec : J → J → Bool) (root : J) (whole : KV) (a x : J)

theorem kwOk_type : kwOk rec root whole "type" a x = typeKw a x := by simp [kwOk]
theorem kwOk_required : kwOk rec root whole "required" a x = requiredKw a x := by simp [kwOk]
theorem kwOk_enum : kwOk rec root whole "enum" a x = enumKw a x := by simp [kwOk]
theorem kwOk_minimum : kwOk rec root whole "minimum" a x = minimumKw a x := by simp [kwOk]
theorem kwOk_ref : kwOk rec root whole "$ref" a x = refKw rec root a x := by simp [kwOk]
theorem kwOk_properties : kwOk rec root whole "properties" a x = propsKw rec a x := by simp [kwOk]
theorem kwOk_additional : kwOk rec root whole "additionalProperties" a x = apKw rec whole a x := by simp [kwOk]

theorem kwOk_cases (kw : String) :
    kw = "type" ∨ kw = "required" ∨ kw = "enum" ∨ kw = "minimum" ∨ kw = "$ref" ∨ kw = "properties" ∨
    kw = "additionalProperties" ∨ (∀ y, kwOk rec root whole kw a y = true) := by
  by_cases h1 : kw = "type"; · exact Or.inl h1
  by_cases h2 : kw = "required"; · exact Or.inr (Or.inl h2)
  by_cases h3 : kw = "enum"; · exact Or.inr (Or.inr (Or.inl h3))
  by_cases h4 : kw = "minimum"; · exact Or.inr (Or.inr (Or.inr (Or.inl h4)))
  by_cases h5 : kw = "$ref"; · exact Or.inr (Or.inr (Or.inr (Or.inr (Or.inl h5))))
  by_cases h6 : kw = "properties"; · exact Or.inr (Or.inr (Or.inr (Or.inr (Or.inr (Or.inl h6)))))
  by_cases h7 : kw = "additionalProperties"; · exact Or.inr (Or.inr (Or.inr (Or.inr (Or.inr (Or.inr (Or.inl h7))))))
  exact Or.inr (Or.inr (Or.inr (Or.inr (Or.inr (Or.inr (Or.inr (fun y => by simp [kwOk, h1, h2, h3, h4, h5, h6, h7])))))))
end kw

theorem valid_zero (root S x : J) : valid root 0 S x = false := by
  cases S <;> rfl

theorem valid_succ_obj (root : J) (n : Nat) (kws : KV) (x : J) :
    valid root (n + 1) (.obj kws) x = kws.all (fun e => kwOk (valid root n) root kws e.1 e.2 x) := rfl

theorem valid_succ_bool (root : J) (n : Nat) (b : Bool) (x : J) : valid root (n + 1) (.bool b) x = b := rfl

theorem valid_false_schema (root : J) (n : Nat) (x : J) : valid root n (.bool false) x = false := by
  cases n <;> rfl

/-- a valid instance: every keyword entry of the schema object holds -/
theorem valid_entry {root : J} {n : Nat} {kws : KV} {x : J} (h : valid root (n + 1) (.obj kws) x = true)
    {e : String × J} (he : e ∈ kws) : kwOk (valid root n) root kws e.1 e.2 x = true := by
  rw [valid_succ_obj, List.all_eq_true] at h
  exact h e he

/-- a schema that accepts something with fuel `m` is a schema object or `true`, and `m > 0` -/
theorem valid_true_cases {root : J} {m : Nat} {T x : J} (h : valid root m T x = true) :
    ∃ n, m = n + 1 ∧ (T = .bool true ∨ ∃ kws, T = .obj kws) := by
  cases m with
  | zero => rw [valid_zero] at h; cases h
  | succ n =>
    refine ⟨n, rfl, ?_⟩
    cases T with
    | bool b => simp [valid] at h; exact Or.inl (by rw [h])
    | obj kws => exact Or.inr ⟨kws, rfl⟩
    | null => simp [valid] at h
    | num _ _ _ => simp [valid] at h
    | str _ => simp [valid] at h
    | arr _ => simp [valid] at h

/-! ### membership in `childSchemas` / `refTargets` -/

theorem mem_childSchemas {kws : KV} {k : String} {C : J} :
    C ∈ childSchemas (.obj kws) k ↔ ∃ e ∈ kws,
      (e.1 = "properties" ∧ ∃ props, e.2 = .obj props ∧ ∃ q ∈ props, q.1 = k ∧ q.2 = C) ∨
      (e.1 = "additionalProperties" ∧ (propKeys kws).contains k = false ∧ C = e.2) := by
  simp only [childSchemas, List.mem_flatMap]
  constructor
  · rintro ⟨e, he, hC⟩
    refine ⟨e, he, ?_⟩
    by_cases h1 : e.1 = "properties"
    · left
      refine ⟨h1, ?_⟩
      simp only [h1, if_true] at hC
      cases h2 : e.2 with
      | obj props =>
        simp only [h2, List.mem_filterMap] at hC
        obtain ⟨q, hq, hqC⟩ := hC
        by_cases hk : q.1 = k
        · simp only [hk, if_true, Option.some.injEq] at hqC
          exact ⟨props, rfl, q, hq, hk, hqC⟩
        · simp [hk] at hqC
      | null => simp [h2] at hC
      | bool _ => simp [h2] at hC
      | num _ _ _ => simp [h2] at hC
      | str _ => simp [h2] at hC
      | arr _ => simp [h2] at hC
    · right
      simp only [h1, if_false] at hC
      by_cases h2 : e.1 = "additionalProperties"
      · have hC' : k ∉ propKeys kws ∧ C = e.2 := by simpa [h2] using hC
        exact ⟨h2, by simpa using hC'.1, hC'.2⟩
      · simp [h2] at hC
  · rintro ⟨e, he, h | h⟩
    · obtain ⟨h1, props, h2, q, hq, hk, hqC⟩ := h
      refine ⟨e, he, ?_⟩
      simp only [h1, if_true, h2, List.mem_filterMap]
      exact ⟨q, hq, by simp [hk, hqC]⟩
    · obtain ⟨h1, h2, h3⟩ := h
      refine ⟨e, he, ?_⟩
      have h2' : k ∉ propKeys kws := by simpa using h2
      simp [h1, h2', h3]

theorem childSchemas_nonobj {S : J} (h : isObj S = false) (k : String) : childSchemas S k = [] := by
  cases S <;> simp_all [childSchemas, isObj]

theorem mem_refTargets {root : J} {kws : KV} {T : J} :
    T ∈ refTargets root (.obj kws) ↔ ∃ e ∈ kws, e.1 = "$ref" ∧ ∃ r, e.2 = .str r ∧ resolve root r = some T := by
  simp only [refTargets, List.mem_filterMap]
  constructor
  · rintro ⟨e, he, h⟩
    refine ⟨e, he, ?_⟩
    by_cases h1 : e.1 = "$ref"
    · simp only [h1, if_true] at h
      cases h2 : e.2 <;> simp only [h2] at h <;> try (simp at h)
      exact ⟨h1, _, rfl, h⟩
    · simp [h1] at h
  · rintro ⟨e, he, h1, r, h2, h3⟩
    exact ⟨e, he, by simp [h1, h2, h3]⟩

theorem refTargets_nonobj {root S : J} (h : isObj S = false) : refTargets root S = [] := by
  cases S <;> simp_all [refTargets, isObj]

/-- validity of a dict instance passes to the value of key `k` under each child schema -/
theorem child_valid {root : J} {n : Nat} {S : J} {ikv : KV} {k : String} {y C : J}
    (h : valid root (n + 1) S (.obj ikv) = true) (hC : C ∈ childSchemas S k) (hk : lookup k ikv = some y) :
    valid root n C y = true := by
  cases hS : isObj S with
  | false => rw [childSchemas_nonobj hS] at hC; simp at hC
  | true =>
    cases S <;> simp [isObj] at hS
    rename_i kws
    obtain ⟨e, he, hcase⟩ := mem_childSchemas.1 hC
    have hv := valid_entry h he
    rcases hcase with ⟨h1, props, h2, q, hq, hqk, hqC⟩ | ⟨h1, h2, h3⟩
    · rw [h1, kwOk_properties, h2] at hv
      simp only [propsKw, List.all_eq_true] at hv
      have := hv q hq
      rw [hqk, hk] at this
      rw [← hqC]; exact this
    · rw [h1, kwOk_additional] at hv
      simp only [apKw, extrasOk, List.all_eq_true] at hv
      have := hv (k, y) (lookup_mem hk)
      simp only [h2, Bool.false_or] at this
      rw [h3]; exact this

/-- validity passes to the target of a `$ref` -/
theorem ref_valid {root : J} {n : Nat} {S x T : J}
    (h : valid root (n + 1) S x = true) (hT : T ∈ refTargets root S) : valid root n T x = true := by
  cases hS : isObj S with
  | false => rw [refTargets_nonobj hS] at hT; simp at hT
  | true =>
    cases S <;> simp [isObj] at hS
    rename_i kws
    obtain ⟨e, he, h1, r, h2, h3⟩ := mem_refTargets.1 hT
    have hv := valid_entry h he
    rw [h1, kwOk_ref, h2] at hv
    simpa [refKw, h3] using hv

theorem get_cons_some {x : J} {k : String} {q : List String} {v : J} (h : get x (k :: q) = some v) :
    ∃ ikv y, x = .obj ikv ∧ lookup k ikv = some y ∧ get y q = some v := by
  cases x <;> simp [Config.get] at h
  rename_i ikv
  cases hl : lookup k ikv with
  | none => simp [hl] at h
  | some y => exact ⟨ikv, y, rfl, hl, by simpa [hl] using h⟩

theorem applic_succ (root : J) (n : Nat) (S : J) (p : List String) :
    applic root (n + 1) S p =
      (match p with
       | [] => [(n + 1, S)]
       | k :: q => (childSchemas S k).flatMap (fun C => applic root n C q))
      ++ (refTargets root S).flatMap (fun T => applic root n T p) := rfl

/-- **Soundness of `applic`**: in a valid configuration the value at path `p` satisfies every schema that
applies there. -/
theorem valid_applic (root : J) : ∀ (n : Nat) (S x : J), valid root n S x = true →
    ∀ (p : List String) (v : J), get x p = some v → ∀ mT ∈ applic root n S p, valid root mT.1 mT.2 v = true := by
  intro n
  induction n with
  | zero => intro S x h; rw [valid_zero] at h; cases h
  | succ n ih =>
    intro S x h p v hg mT hm
    rw [applic_succ, List.mem_append] at hm
    rcases hm with hm | hm
    · cases p with
      | nil =>
        simp only [List.mem_singleton] at hm
        subst hm
        simp only [Config.get, Option.some.injEq] at hg
        subst hg; exact h
      | cons k q =>
        simp only [List.mem_flatMap] at hm
        obtain ⟨C, hC, hm⟩ := hm
        obtain ⟨ikv, y, rfl, hk, hy⟩ := get_cons_some hg
        exact ih C y (child_valid h hC hk) q v hy mT hm
    · simp only [List.mem_flatMap] at hm
      obtain ⟨T, hT, hm⟩ := hm
      exact ih T x (ref_valid h hT) p v hg mT hm

/-! ### replacing one value -/

theorem lookup_setKey (k k' : String) (v : J) : ∀ kv : KV,
    lookup k' (setKey k v kv) = if k' = k then some v else lookup k' kv
  | [] => by
      simp only [setKey, lookup]
      by_cases h : k = k' <;> by_cases h' : k' = k <;> simp_all
  | (k0, x) :: r => by
      simp only [setKey]
      by_cases h0 : k0 = k
      · subst h0
        by_cases h' : k' = k0
        · simp [lookup, h']
        · have : ¬ k0 = k' := fun e => h' e.symm
          simp [lookup, h', this]
      · simp only [h0, if_false, lookup]
        by_cases h1 : k0 = k'
        · subst h1
          simp [h0]
        · simp only [h1, if_false]
          exact lookup_setKey k k' v r

theorem mem_setKey {k : String} {v : J} {e : String × J} : ∀ {kv : KV}, e ∈ setKey k v kv → e = (k, v) ∨ e ∈ kv
  | [], h => by simp [setKey] at h; exact Or.inl h
  | (k0, x) :: r, h => by
      simp only [setKey] at h
      by_cases h0 : k0 = k
      · simp only [h0, if_true, List.mem_cons] at h
        rcases h with h | h
        · exact Or.inl h
        · exact Or.inr (List.mem_cons_of_mem _ h)
      · simp only [h0, if_false, List.mem_cons] at h
        rcases h with h | h
        · exact Or.inr (h ▸ List.mem_cons_self)
        · rcases mem_setKey h with h | h
          · exact Or.inl h
          · exact Or.inr (List.mem_cons_of_mem _ h)

theorem hasKey_setKey_of_hasKey {k n : String} {v : J} {kv : KV} (h : hasKey n kv = true) :
    hasKey n (setKey k v kv) = true := by
  simp only [hasKey, lookup_setKey] at h ⊢
  by_cases hn : n = k <;> simp [hn, h]

/-- the parent of the last key of `p` exists in `x` and is a dict (so `setPath x p v` only replaces or adds
one key of an existing dict) -/
def parentIsDict : J → List String → Bool
  | _, [] => true
  | .obj kv, k :: q => (match lookup k kv with
      | some y => parentIsDict y q
      | none => q.isEmpty)
  | _, _ :: _ => false

theorem typeKw_obj (a : J) (i1 i2 : KV) : typeKw a (.obj i1) = typeKw a (.obj i2) := by
  cases a <;> simp [typeKw, typeOk, isObj, isNumber, isInteger]

theorem enumKw_obj (a : J) (i : KV) : enumKw a (.obj i) = false := by
  cases a <;> simp [enumKw]
  intro e _
  cases e <;> simp [pyEqAtom]

theorem minimumKw_obj (a : J) (i1 i2 : KV) : minimumKw a (.obj i1) = minimumKw a (.obj i2) := by
  cases a <;> simp [minimumKw, minOk]

/-- one keyword keeps holding when the value of key `k` of a dict instance is replaced by `y'`, provided
`y'` satisfies the child schemas this keyword applies to `k` and (for `$ref`) the target accepts the new dict -/
theorem kwOk_setKey {rec : J → J → Bool} {root : J} {kws : KV} {e : String × J} {ikv : KV} {k : String} {y' : J}
    (he : e ∈ kws)
    (hx : kwOk rec root kws e.1 e.2 (.obj ikv) = true)
    (hchild : ∀ C ∈ childSchemas (.obj kws) k, rec C y' = true)
    (href : ∀ T ∈ refTargets root (.obj kws), rec T (.obj (setKey k y' ikv)) = true) :
    kwOk rec root kws e.1 e.2 (.obj (setKey k y' ikv)) = true := by
  obtain ⟨kw, a⟩ := e
  simp only at hx ⊢
  rcases kwOk_cases rec root kws a kw with h | h | h | h | h | h | h | h
  · subst h; rw [kwOk_type] at hx ⊢; rw [typeKw_obj a _ ikv]; exact hx
  · subst h; rw [kwOk_required] at hx ⊢
    cases a <;> simp only [requiredKw] at hx ⊢ <;> try exact hx
    rw [List.all_eq_true] at hx ⊢
    intro n hn
    have := hx n hn
    cases n <;> simp only at this ⊢ <;> try exact this
    exact hasKey_setKey_of_hasKey this
  · subst h; rw [kwOk_enum, enumKw_obj] at hx; cases hx
  · subst h; rw [kwOk_minimum] at hx ⊢; rw [minimumKw_obj a _ ikv]; exact hx
  · subst h; rw [kwOk_ref] at hx ⊢
    cases a <;> simp only [refKw] at hx ⊢ <;> try exact hx
    rename_i r
    cases hr : resolve root r with
    | none => simp [hr] at hx
    | some T =>
      simp only []
      exact href T (mem_refTargets.2 ⟨_, he, rfl, r, rfl, hr⟩)
  · subst h; rw [kwOk_properties] at hx ⊢
    cases a <;> simp only [propsKw] at hx ⊢ <;> try exact hx
    rename_i props
    rw [List.all_eq_true] at hx ⊢
    intro q hq
    rw [lookup_setKey]
    by_cases hqk : q.1 = k
    · simp only [hqk, if_true]
      exact hchild q.2 (mem_childSchemas.2 ⟨_, he, Or.inl ⟨rfl, props, rfl, q, hq, hqk, rfl⟩⟩)
    · simp only [hqk, if_false]
      exact hx q hq
  · subst h; rw [kwOk_additional] at hx ⊢
    simp only [apKw, extrasOk, List.all_eq_true] at hx ⊢
    intro kv hkv
    rcases mem_setKey hkv with h | h
    · subst h
      cases hc : (propKeys kws).contains k with
      | true => simp
      | false =>
        simp only [Bool.false_or]
        exact hchild a (mem_childSchemas.2 ⟨_, he, Or.inr ⟨rfl, hc, rfl⟩⟩)
    · exact hx kv h
  · exact h _

theorem setPath_cons_obj (ikv : KV) (k : String) (q : List String) (v : J) :
    setPath (.obj ikv) (k :: q) v =
      .obj (setKey k (setPath (match lookup k ikv with | some x => x | none => .obj []) q v) ikv) := by
  cases h : lookup k ikv <;> simp [setPath, h]

/-- **Replacement**: a valid configuration stays valid when the value at `p` is replaced (or a new key is
added to an existing dict) by a value that satisfies every schema applying at `p`. -/
theorem valid_setPath (root : J) : ∀ (n : Nat) (S x : J), valid root n S x = true →
    ∀ (p : List String) (v' : J), parentIsDict x p = true →
      (∀ mT ∈ applic root n S p, valid root mT.1 mT.2 v' = true) → valid root n S (setPath x p v') = true := by
  intro n
  induction n with
  | zero => intro S x h; rw [valid_zero] at h; cases h
  | succ n ih =>
    intro S x h p v' hp H
    cases p with
    | nil =>
      have := H (n + 1, S) (by rw [applic_succ]; simp)
      simpa [setPath] using this
    | cons k q =>
      -- the instance is a dict
      cases x <;> simp only [parentIsDict] at hp <;> try (cases hp)
      rename_i ikv
      -- new value of key k
      have hchildH : ∀ C ∈ childSchemas S k, ∀ mT ∈ applic root n C q, valid root mT.1 mT.2 v' = true := by
        intro C hC mT hm
        apply H
        rw [applic_succ, List.mem_append]
        exact Or.inl (List.mem_flatMap.2 ⟨C, hC, hm⟩)
      have hrefH : ∀ T ∈ refTargets root S, ∀ mT ∈ applic root n T (k :: q), valid root mT.1 mT.2 v' = true := by
        intro T hT mT hm
        apply H
        rw [applic_succ, List.mem_append]
        exact Or.inr (List.mem_flatMap.2 ⟨T, hT, hm⟩)
      have hpx : parentIsDict (.obj ikv) (k :: q) = true := by simpa [parentIsDict] using hp
      have hchild : ∀ C ∈ childSchemas S k,
          valid root n C (setPath (match lookup k ikv with | some x => x | none => .obj []) q v') = true := by
        intro C hC
        cases hl : lookup k ikv with
        | some y =>
          simp only [hl] at hp ⊢
          exact ih C y (child_valid h hC hl) q v' hp (hchildH C hC)
        | none =>
          simp only [hl, List.isEmpty_iff] at hp ⊢
          subst hp
          simp only [setPath]
          -- (n, C) or the poison entry (0, C) is in `applic root n C []`
          cases n with
          | zero => have := hchildH C hC (0, C) (by simp [applic]); rw [valid_zero] at this; cases this
          | succ m => exact hchildH C hC (m + 1, C) (by rw [applic_succ]; simp)
      have href : ∀ T ∈ refTargets root S, valid root n T (setPath (.obj ikv) (k :: q) v') = true := by
        intro T hT
        exact ih T (.obj ikv) (ref_valid h hT) (k :: q) v' hpx (hrefH T hT)
      rw [setPath_cons_obj] at href ⊢
      cases S with
      | bool b => simpa [valid] using h
      | obj kws =>
        rw [valid_succ_obj, List.all_eq_true]
        intro e he
        exact kwOk_setKey he (valid_entry h he) hchild href
      | null => simp [valid] at h
      | num _ _ _ => simp [valid] at h
      | str _ => simp [valid] at h
      | arr _ => simp [valid] at h

/-! ### documented constraints versus the keywords found in the schema -/

/-- a documented constraint of one field: JSON type, optional minimum (as the rational a/b), optional list
of admissible strings -/
structure Spec where
  type : String
  minimum : Option (Int × Nat) := none
  enum : Option (List String) := none

/-- the value satisfies the documented constraint -/
def Spec.holds (κ : Spec) (v : J) : Bool :=
  typeOk κ.type v &&
  (match κ.minimum with | some (a, b) => minOk a b v | none => true) &&
  (match κ.enum with
   | some L => (match v with | .str s => L.contains s | _ => false)
   | none => true)

def entries : J → KV
  | .obj kws => kws
  | _ => []

/-- some applicable schema carries `"type": κ.type` -/
def typeEnforced (κ : Spec) (Ts : List (Nat × J)) : Bool :=
  Ts.any (fun mT => (entries mT.2).any (fun e => decide (e.1 = "type") && decide (e.2 = .str κ.type)))

/-- some applicable schema carries `"minimum": a/b` (same numerator and denominator) -/
def minEnforced (a : Int) (b : Nat) (Ts : List (Nat × J)) : Bool :=
  Ts.any (fun mT => (entries mT.2).any (fun e => decide (e.1 = "minimum") &&
    (match e.2 with | .num n d _ => decide (n = a) && decide (d = b) | _ => false)))

/-- some applicable schema carries an `enum` all of whose entries are documented strings -/
def enumEnforced (L : List String) (Ts : List (Nat × J)) : Bool :=
  Ts.any (fun mT => (entries mT.2).any (fun e => decide (e.1 = "enum") &&
    (match e.2 with
     | .arr es => es.all (fun x => match x with | .str s => L.contains s | _ => false)
     | _ => false)))

/-- every part of the documented constraint is imposed by some schema applying at the field -/
def enforced (κ : Spec) (Ts : List (Nat × J)) : Bool :=
  typeEnforced κ Ts &&
  (match κ.minimum with | some (a, b) => minEnforced a b Ts | none => true) &&
  (match κ.enum with | some L => enumEnforced L Ts | none => true)

theorem pyEqAtom_str {s : String} {v : J} (h : pyEqAtom (.str s) v = true) : v = .str s := by
  cases v <;> simp [pyEqAtom] at h
  rw [h]

theorem entry_of_valid {root : J} {m : Nat} {T v : J} (h : valid root m T v = true) {e : String × J}
    (he : e ∈ entries T) : ∃ n kws, m = n + 1 ∧ T = .obj kws ∧ kwOk (valid root n) root kws e.1 e.2 v = true := by
  obtain ⟨n, rfl, hT | ⟨kws, rfl⟩⟩ := valid_true_cases h
  · subst hT; simp [entries] at he
  · exact ⟨n, kws, rfl, rfl, valid_entry h he⟩

/-- a value that satisfies all applicable schemas satisfies every documented constraint they enforce -/
theorem holds_of_enforced {root : J} {κ : Spec} {Ts : List (Nat × J)} {v : J}
    (henf : enforced κ Ts = true) (hv : ∀ mT ∈ Ts, valid root mT.1 mT.2 v = true) : κ.holds v = true := by
  simp only [enforced, Bool.and_eq_true] at henf
  obtain ⟨⟨ht, hm⟩, hen⟩ := henf
  simp only [Spec.holds, Bool.and_eq_true]
  refine ⟨⟨?_, ?_⟩, ?_⟩
  · simp only [typeEnforced, List.any_eq_true, Bool.and_eq_true, decide_eq_true_eq] at ht
    obtain ⟨mT, hmT, e, he, h1, h2⟩ := ht
    obtain ⟨n, kws, _, _, hk⟩ := entry_of_valid (hv mT hmT) he
    rw [h1, kwOk_type, h2] at hk
    simpa [typeKw] using hk
  · cases hmin : κ.minimum with
    | none => rfl
    | some ab =>
      obtain ⟨a, b⟩ := ab
      simp only [hmin] at hm ⊢
      simp only [minEnforced, List.any_eq_true, Bool.and_eq_true, decide_eq_true_eq] at hm
      obtain ⟨mT, hmT, e, he, h1, h2⟩ := hm
      obtain ⟨n, kws, _, _, hk⟩ := entry_of_valid (hv mT hmT) he
      rw [h1, kwOk_minimum] at hk
      cases he2 : e.2 <;> simp only [he2] at h2 <;> try (cases h2)
      simp only [Bool.and_eq_true, decide_eq_true_eq] at h2
      rw [he2] at hk
      simp only [minimumKw] at hk
      rw [← h2.1, ← h2.2]; exact hk
  · cases hen' : κ.enum with
    | none => rfl
    | some L =>
      simp only [hen'] at hen ⊢
      simp only [enumEnforced, List.any_eq_true, Bool.and_eq_true, decide_eq_true_eq] at hen
      obtain ⟨mT, hmT, e, he, h1, h2⟩ := hen
      obtain ⟨n, kws, _, _, hk⟩ := entry_of_valid (hv mT hmT) he
      rw [h1, kwOk_enum] at hk
      cases he2 : e.2 <;> simp only [he2] at h2 <;> try (cases h2)
      rename_i es
      rw [he2] at hk
      simp only [enumKw, List.any_eq_true] at hk
      obtain ⟨x, hx, hxv⟩ := hk
      rw [List.all_eq_true] at h2
      have hxL := h2 x hx
      cases x <;> simp only at hxL <;> try (cases hxL)
      rename_i s
      rw [pyEqAtom_str hxv]
      exact hxL

/-- the keyword entry only asks for (part of) the documented constraint, and does not descend -/
def entryImplied (κ : Spec) (e : String × J) : Bool :=
  if e.1 = "type" then decide (e.2 = .str κ.type)
  else if e.1 = "minimum" then
    (match e.2, κ.minimum with
     | .num n d _, some (a, b) => decide (n = a) && decide (d = b)
     | _, _ => false)
  else if e.1 = "enum" then
    (match e.2, κ.enum with
     | .arr es, some L => L.all (fun s => es.contains (.str s))
     | _, _ => false)
  else if e.1 = "required" ∨ e.1 = "$ref" ∨ e.1 = "properties" ∨ e.1 = "additionalProperties" then false
  else true

/-- the applicable schema is a schema object evaluated with fuel left, all of whose keywords are implied by κ -/
def leafImplied (κ : Spec) (mT : Nat × J) : Bool :=
  mT.1 != 0 && (match mT.2 with | .obj kws => kws.all (entryImplied κ) | _ => false)

theorem valid_of_leafImplied {root : J} {κ : Spec} {mT : Nat × J} {v : J}
    (hl : leafImplied κ mT = true) (hv : κ.holds v = true) : valid root mT.1 mT.2 v = true := by
  obtain ⟨m, T⟩ := mT
  simp only [leafImplied, Bool.and_eq_true, bne_iff_ne, ne_eq] at hl
  obtain ⟨hm, hT⟩ := hl
  cases m with
  | zero => exact absurd rfl hm
  | succ n =>
    cases T <;> simp only at hT <;> try (cases hT)
    rename_i kws
    simp only [Spec.holds, Bool.and_eq_true] at hv
    obtain ⟨⟨hvt, hvm⟩, hve⟩ := hv
    rw [valid_succ_obj, List.all_eq_true]
    intro e he
    rw [List.all_eq_true] at hT
    have hi := hT e he
    obtain ⟨kw, a⟩ := e
    simp only [entryImplied] at hi
    simp only
    rcases kwOk_cases (valid root n) root kws a kw with h | h | h | h | h | h | h | h
    · subst h
      simp only [if_true, decide_eq_true_eq] at hi
      rw [kwOk_type, hi]; simpa [typeKw] using hvt
    · subst h; simp at hi
    · subst h
      have h0 : ¬ ("enum" = "type") := by decide
      have h1 : ¬ ("enum" = "minimum") := by decide
      simp only [h0, h1, if_false, if_true] at hi
      rw [kwOk_enum]
      cases hL : κ.enum with
      | none => cases a <;> simp [hL] at hi
      | some L =>
        cases a with
        | arr es =>
          simp only [hL] at hi hve
          cases v with
          | str s =>
            simp only at hve
            rw [List.all_eq_true] at hi
            have := hi s (by simpa using hve)
            simp only [enumKw, List.any_eq_true]
            exact ⟨.str s, by simpa using this, by simp [pyEqAtom]⟩
          | null => simp at hve
          | bool _ => simp at hve
          | num _ _ _ => simp at hve
          | arr _ => simp at hve
          | obj _ => simp at hve
        | null => simp at hi
        | bool _ => simp at hi
        | num _ _ _ => simp at hi
        | str _ => simp at hi
        | obj _ => simp at hi
    · subst h
      have h0 : ¬ ("minimum" = "type") := by decide
      simp only [h0, if_false, if_true] at hi
      rw [kwOk_minimum]
      cases hM : κ.minimum with
      | none => cases a <;> simp [hM] at hi
      | some ab =>
        obtain ⟨a', b'⟩ := ab
        cases a with
        | num n d i =>
          simp only [hM, Bool.and_eq_true, decide_eq_true_eq] at hi hvm
          simp only [minimumKw]
          rw [hi.1, hi.2]; exact hvm
        | null => simp at hi
        | bool _ => simp at hi
        | str _ => simp at hi
        | arr _ => simp at hi
        | obj _ => simp at hi
    · subst h; simp at hi
    · subst h; simp at hi
    · subst h; simp at hi
    · exact h v

/-! ### sections, closed dictionaries -/

/-- some applicable schema lists `n` under `required` -/
def requiredAt (n : String) (Ts : List (Nat × J)) : Bool :=
  Ts.any (fun mT => (entries mT.2).any (fun e => decide (e.1 = "required") &&
    (match e.2 with | .arr ns => ns.contains (.str n) | _ => false)))

theorem hasKey_of_requiredAt {root : J} {n : String} {Ts : List (Nat × J)} {ikv : KV}
    (hr : requiredAt n Ts = true) (hv : ∀ mT ∈ Ts, valid root mT.1 mT.2 (.obj ikv) = true) :
    hasKey n ikv = true := by
  simp only [requiredAt, List.any_eq_true, Bool.and_eq_true, decide_eq_true_eq] at hr
  obtain ⟨mT, hmT, e, he, h1, h2⟩ := hr
  obtain ⟨m, kws, _, _, hk⟩ := entry_of_valid (hv mT hmT) he
  rw [h1, kwOk_required] at hk
  cases he2 : e.2 <;> simp only [he2] at h2 <;> try (cases h2)
  rename_i ns
  rw [he2] at hk
  simp only [requiredKw, List.all_eq_true] at hk
  have := hk (.str n) (by simpa using h2)
  simpa using this

/-- some applicable schema has `additionalProperties: false` and lists only keys from `L` under `properties` -/
def closedAt (L : List String) (Ts : List (Nat × J)) : Bool :=
  Ts.any (fun mT => (entries mT.2).any (fun e => decide (e.1 = "additionalProperties") && decide (e.2 = .bool false))
    && (propKeys (entries mT.2)).all (fun k => L.contains k))

theorem keys_of_closedAt {root : J} {L : List String} {Ts : List (Nat × J)} {ikv : KV}
    (hc : closedAt L Ts = true) (hv : ∀ mT ∈ Ts, valid root mT.1 mT.2 (.obj ikv) = true) :
    ∀ k y, lookup k ikv = some y → k ∈ L := by
  intro k y hk
  simp only [closedAt, List.any_eq_true, Bool.and_eq_true, decide_eq_true_eq, List.all_eq_true] at hc
  obtain ⟨mT, hmT, ⟨e, he, h1, h2⟩, hL⟩ := hc
  obtain ⟨m, kws, _, hT, hkw⟩ := entry_of_valid (hv mT hmT) he
  rw [h1, kwOk_additional, h2] at hkw
  simp only [apKw, extrasOk, List.all_eq_true] at hkw
  have := hkw (k, y) (lookup_mem hk)
  rw [valid_false_schema] at this
  simp only [Bool.or_false] at this
  rw [hT] at hL
  simp only [entries] at hL
  have hkL := hL k (by simpa using this)
  simpa using hkL

theorem get_append_singleton {x : J} {p : List String} {k : String} {y : J} (h : get x (p ++ [k]) = some y) :
    ∃ ikv, get x p = some (.obj ikv) ∧ lookup k ikv = some y := by
  induction p generalizing x with
  | nil =>
    obtain ⟨ikv, y', rfl, hk, hy⟩ := get_cons_some (by simpa using h)
    simp only [Config.get, Option.some.injEq] at hy
    subst hy
    exact ⟨ikv, rfl, hk⟩
  | cons k0 q ih =>
    obtain ⟨ikv, y', rfl, hk, hy⟩ := get_cons_some (by simpa using h)
    obtain ⟨ikv', h1, h2⟩ := ih hy
    exact ⟨ikv', by simp [Config.get, hk, h1], h2⟩

theorem get_setPath (v : J) : ∀ (p : List String) (x : J), get (setPath x p v) p = some v
  | [], x => by simp [setPath, Config.get]
  | k :: q, x => by
      cases x <;> simp [setPath, Config.get, lookup, lookup_setKey, get_setPath v q]

/-! ### where a valid user configuration can put a dictionary over a non-dictionary default -/

/-- all paths of `t` that end at a non-dict value (down to nesting depth `n`) -/
def leafPaths : Nat → J → List (List String)
  | n + 1, .obj kv => kv.flatMap (fun e => (leafPaths n e.2).map (e.1 :: ·))
  | 0, .obj _ => []
  | _, _ => [[]]

/-- dictionaries are nested at most `n` deep -/
def depthLe : Nat → J → Bool
  | n + 1, .obj kv => kv.all (fun e => depthLe n e.2)
  | 0, .obj _ => false
  | _, _ => true

theorem leafPaths_nonobj {t : J} (h : isObj t = false) (n : Nat) : leafPaths n t = [[]] := by
  cases t <;> cases n <;> simp_all [leafPaths, isObj]

/-- if following `p` in `t` ends at, or runs through, a non-dict value then a prefix of `p` is a leaf path -/
theorem exists_leafPath_prefix : ∀ (p : List String) (t : J) (n : Nat), depthLe n t = true →
    ((∃ v, walk t p = .leafAt v) ∨ walk t p = .shadowed) → ∃ q ∈ leafPaths n t, q <+: p := by
  intro p
  induction p with
  | nil =>
    intro t n _ h
    cases ht : isObj t with
    | false => exact ⟨[], by rw [leafPaths_nonobj ht]; simp, List.nil_prefix⟩
    | true =>
      cases t <;> simp [isObj] at ht
      simp [walk] at h
  | cons k q ih =>
    intro t n hd h
    cases ht : isObj t with
    | false => exact ⟨[], by rw [leafPaths_nonobj ht]; simp, List.nil_prefix⟩
    | true =>
      cases t <;> simp [isObj] at ht
      rename_i kv
      cases n with
      | zero => simp [depthLe] at hd
      | succ m =>
        simp only [depthLe, List.all_eq_true] at hd
        rw [walk_obj_cons] at h
        cases hl : lookup k kv with
        | none => simp [hl] at h
        | some x =>
          simp only [hl] at h
          have hx := hd (k, x) (lookup_mem hl)
          obtain ⟨q', hq', hpre⟩ := ih x m hx h
          refine ⟨k :: q', ?_, ?_⟩
          · simp only [leafPaths, List.mem_flatMap, List.mem_map]
            exact ⟨(k, x), lookup_mem hl, q', hq', rfl⟩
          · obtain ⟨r, hr⟩ := hpre
            exact ⟨r, by simp [← hr]⟩

theorem walk_dictAt_prefix {u : J} : ∀ (q r : List String), walk u (q ++ r) = .dictAt → walk u q = .dictAt := by
  intro q
  induction q generalizing u with
  | nil =>
    intro r h
    have := walk_dictAt_isObj h
    cases u <;> simp [isObj] at this
    simp [walk]
  | cons k q ih =>
    intro r h
    have := walk_dictAt_isObj h
    cases u <;> simp [isObj] at this
    rename_i kv
    simp only [List.cons_append, walk_obj_cons] at h ⊢
    cases hl : lookup k kv with
    | none => simp [hl] at h
    | some x => simp only [hl] at h ⊢; exact ih r h

/-- some applicable schema demands a JSON type other than "object" -/
def scalarTyped (Ts : List (Nat × J)) : Bool :=
  Ts.any (fun mT => (entries mT.2).any (fun e => decide (e.1 = "type") &&
    ["string", "number", "integer", "boolean", "array", "null"].any (fun t => decide (e.2 = .str t))))

theorem not_obj_of_scalarTyped {root : J} {Ts : List (Nat × J)} {ikv : KV} (hs : scalarTyped Ts = true)
    (hv : ∀ mT ∈ Ts, valid root mT.1 mT.2 (.obj ikv) = true) : False := by
  simp only [scalarTyped, List.any_eq_true, Bool.and_eq_true, decide_eq_true_eq] at hs
  obtain ⟨mT, hmT, e, he, h1, t, ht, h2⟩ := hs
  obtain ⟨n, kws, _, _, hk⟩ := entry_of_valid (hv mT hmT) he
  rw [h1, kwOk_type, h2] at hk
  simp only [List.mem_cons, List.not_mem_nil, or_false] at ht
  rcases ht with rfl | rfl | rfl | rfl | rfl | rfl <;> simp [typeKw, typeOk, isNumber, isInteger] at hk

/-- In a user configuration that is valid under `root`, a dictionary can stand over a non-dictionary value of the
default `D` only at one of the `free` leaf paths of `D`, provided every other leaf path of `D` is typed as a
non-object by the schema (`hleaves`, a decidable check on the translated data). -/
theorem takenWhole_free_of_valid {root D u : J} {n : Nat} {free : List (List String)}
    (hdepth : depthLe n D = true)
    (hleaves : ∀ q ∈ leafPaths n D, q ∈ free ∨ scalarTyped (applicable root q) = true)
    (hv : validate root u = true) {p : List String} (ht : TakenWhole u D p) :
    ∃ q ∈ free, q <+: p ∧ walk u q = .dictAt := by
  obtain ⟨q, r, v, hp, hu, hd⟩ := ht
  obtain ⟨q', hq', r', hr'⟩ := exists_leafPath_prefix q D n hdepth (Or.inl ⟨v, hd⟩)
  have huq : walk u q' = .dictAt := walk_dictAt_prefix q' r' (hr' ▸ hu)
  rcases hleaves q' hq' with h | h
  · exact ⟨q', h, ⟨r' ++ r, by rw [hp, ← hr', List.append_assoc]⟩, huq⟩
  · exfalso
    obtain ⟨ikv, hg⟩ := walk_eq_dictAt.1 huq
    exact not_obj_of_scalarTyped h (valid_applic root fuel root u hv q' _ hg)

end Cij.Schema
