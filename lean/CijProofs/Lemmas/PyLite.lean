/-
  Lemmas about the PyLite evaluator (`CijModel/PyLite.lean`) that do not depend on any translated module, and the tactic
  `kernel_rfl`.
-/
import Lean
import CijModel.PyLite

open Lean Elab Tactic Meta in
/-- `kernel_rfl` closes a goal `a = b` with `Eq.refl a`, leaving the definitional-equality check to the KERNEL — the same
division of labour as `decide +kernel`, but usable when the goal mentions local variables (a partly symbolic argument of the
evaluator).  Nothing is trusted: if `a` and `b` are not definitionally equal the kernel rejects the declaration. -/
elab "kernel_rfl" : tactic => do
  let g ← getMainGoal
  let t ← instantiateMVars (← g.getType)
  let some (_, a, _) := t.eq? | throwError "kernel_rfl: the goal is not an equality"
  g.assign (← mkEqRefl a)

namespace PyLite

/-- the constructor-wise comparison used by the evaluator is `<` on ℤ -/
theorem intLt_iff (a b : Int) : intLt a b = true ↔ a < b := by
  cases a <;> cases b <;> simp [intLt, Nat.blt] <;> omega

theorem intLt_eq_decide (a b : Int) : intLt a b = decide (a < b) := by
  by_cases h : a < b
  · simp [h, (intLt_iff a b).mpr h]
  · have : intLt a b = false := by
      cases h' : intLt a b with
      | false => rfl
      | true => exact absurd ((intLt_iff a b).mp h') h
    simp [h, this]

/-- `str(n)`: the evaluator's decimal digits are Lean's -/
theorem natCodes_small : ∀ n < 200, natCodes n = codes (toString n) := by decide +kernel

end PyLite
