/-
  C18 — the contract `FillFrame` (Lemmas/StaticSource.lean) is a THEOREM about the model of `fill_cij`
  (`Cij.Fill.fill`, CijModel/Fill.lean — the function C08/C09 are about and the driver runs), not an assumption:

    on a frame without duplicate labels `Fill.fill` (whenever it accepts: any lookup environment, any crystal system or
    `None`, any keyword parameters, any scalar type) returns a frame without duplicate labels in which every column
    that is not modulus-like — in particular V, F, P, density — is present with the values it had.

  Why (statement by statement of fill.py):
    * the write-back `elast.loc[:, key] = col` either overwrites the columns labelled like the first hit (labels
      unchanged) or appends the label `sym` — and this happens only when no existing label lower-cases to `sym`; since
      each of the 21 symbols IS its own lower-case form (`symbol_lower`, decided on `Generated.symbolPairs`), `sym` is
      then not among the labels: no duplicate is created;  no case / canonical-name side condition on the `c_ij` columns
      run-static wrote is needed;
    * the drop keeps a sub-list of the columns and only looks at labels matching `c\d\d`.

  `withModelFill E env P` is a library environment whose `fill` is that model; `run_is_source_model` is
  `run_is_source` for it WITHOUT the hypothesis, for every scalar type.  `fillFrame_driver` discharges the same
  hypothesis for the `Float` environment of the driver (`Ops.C18.extFloat`: the model over `Rat`, conjugated with the
  exact embedding of the doubles).
-/
import CijProofs.Lemmas.StaticSource

set_option linter.unusedSectionVars false

namespace Cij.StaticSrc
open Cij Cij.Static

/-- each of the 21 symbols of fill.py (`"c%d%d"` of `Generated.symbolPairs`) is its own lower-case form -/
theorem symbol_lower : ∀ s ∈ Fill.symbolNames, s.toLower = s := by decide +kernel

section names
variable {α : Type}

/-- the labels after `elast.loc[:, key] = col`: unchanged, or `sym` appended when no label lower-cases to `sym` -/
theorem names_writeBack (t : Table α) (sym : String) (col : List α) :
    (Fill.writeBack t sym col).map (·.1) = t.map (·.1) ∨
    ((Fill.writeBack t sym col).map (·.1) = t.map (·.1) ++ [sym] ∧ ∀ c ∈ t, c.1.toLower ≠ sym) := by
  unfold Fill.writeBack
  split
  · left
    rw [List.map_map]
    apply List.map_congr_left
    intro c _
    simp only [Function.comp_apply]
    split_ifs <;> rfl
  · rename_i hf
    right
    refine ⟨by simp, ?_⟩
    intro c hc e
    have := List.find?_eq_none.mp hf c hc
    simp [e] at this

theorem nodup_writeBack (t : Table α) (sym : String) (col : List α) (hs : sym.toLower = sym)
    (h : (t.map (·.1)).Nodup) : ((Fill.writeBack t sym col).map (·.1)).Nodup := by
  rcases names_writeBack t sym col with e | ⟨e, hno⟩
  · rw [e]; exact h
  · rw [e]
    refine List.Nodup.append h (List.nodup_singleton _) ?_
    intro a ha hb
    simp only [List.mem_singleton] at hb
    subst hb
    obtain ⟨c, hc, rfl⟩ := List.mem_map.mp ha
    exact hno c hc hs

end names

section fill
variable {α : Type} [Add α] [Sub α] [Mul α] [Div α] [Neg α] [OfNat α 0] [OfNat α 1] [IntCast α]
  [DecidableEq α] [LT α] [DecidableLT α] [LE α] [DecidableLE α]

theorem nodup_writeAll (t : Table α) (xs : List (List α)) (h : (t.map (·.1)).Nodup) :
    ((Fill.writeAll t xs).map (·.1)).Nodup := by
  unfold Fill.writeAll
  have key : ∀ (l : List (Nat × String)) (t : Table α), (∀ p ∈ l, p.2 ∈ Fill.symbolNames) → (t.map (·.1)).Nodup →
      ((l.foldl (fun acc p => Fill.writeBack acc p.2 (xs.map fun x => x.getD p.1 0)) t).map (·.1)).Nodup := by
    intro l
    induction l with
    | nil => intro t _ h; exact h
    | cons p r ih =>
      intro t hl h
      simp only [List.foldl_cons]
      exact ih _ (fun q hq => hl q (List.mem_cons_of_mem _ hq))
        (nodup_writeBack t p.2 _ (symbol_lower _ (hl p List.mem_cons_self)) h)
  exact key _ t (fun p hp => (List.of_mem_zip hp).2) h

/-- `writeAll_keeps` of Lemmas/Static.lean for every scalar type -/
theorem writeAll_keeps' (t : Table α) (xs : List (List α)) (name : String) (h : Untouched name) :
    getCol (Fill.writeAll t xs) name = getCol t name := by
  unfold Fill.writeAll
  have key : ∀ (l : List (Nat × String)) (t : Table α), (∀ p ∈ l, p.2 ∈ Fill.symbolNames) →
      getCol (l.foldl (fun acc p => Fill.writeBack acc p.2 (xs.map fun x => x.getD p.1 0)) t) name = getCol t name := by
    intro l
    induction l with
    | nil => intro t _; rfl
    | cons p r ih =>
      intro t hl
      simp only [List.foldl_cons]
      rw [ih _ (fun q hq => hl q (List.mem_cons_of_mem _ hq))]
      have hp := hl p List.mem_cons_self
      exact writeBack_keeps t p.2 _ name (fun e => h.lower (e ▸ hp)) (fun e => h.plain (e ▸ hp))
  apply key
  intro p hp
  exact (List.of_mem_zip hp).2

theorem nodup_finish (P : Fill.Params α) (t : Table α) (xs : List (List α)) (h : (t.map (·.1)).Nodup) :
    ((Fill.finish P t xs).map (·.1)).Nodup := by
  unfold Fill.finish
  exact List.Nodup.sublist (List.Sublist.map _ List.filter_sublist) (nodup_writeAll t xs h)

theorem finish_keeps' (P : Fill.Params α) (t : Table α) (xs : List (List α)) (name : String) (h : Untouched name) :
    getCol (Fill.finish P t xs) name = getCol t name := by
  unfold Fill.finish
  rw [getCol_filter _ _ name, writeAll_keeps' t xs name h]
  intro c _ hc
  rw [hc, h.noCdd]
  rfl

/-- whatever `fill_cij` returns is `elast` itself (`system is None`) or `finish` of it -/
theorem fill_ok_cases (env : Fill.Env) (system : Option String) (P : Fill.Params α) (t t' : Table α)
    (h : Fill.fill env system P t = .ok t') : t' = t ∨ ∃ xs, t' = Fill.finish P t xs := by
  unfold Fill.fill at h
  cases system with
  | none => simp only at h; cases h; exact Or.inl rfl
  | some sys =>
    simp only at h
    split at h
    · cases h
    · split at h
      · cases h
      · unfold Fill.fillWith at h
        split_ifs at h
        simp only at h
        split at h
        · cases h
        · rename_i s _
          split at h
          · cases h
          · exact Or.inr ⟨s.xs, (Except.ok.inj h).symm⟩

/-- The model of `fill_cij`, for every scalar type, every lookup environment, every system and every keyword parameters:
    an accepted frame without duplicate labels comes back without duplicate labels, and every untouched column (not
    modulus-like: V, F, P, density, …) comes back with the values it had. -/
theorem fill_model_frame (env : Fill.Env) (system : Option String) (P : Fill.Params α) (t t' : Table α)
    (h : Fill.fill env system P t = .ok t') :
    ((t.map (·.1)).Nodup → (t'.map (·.1)).Nodup) ∧ ∀ name, Untouched name → getCol t' name = getCol t name := by
  have hc := fill_ok_cases env system P t t' h
  clear h
  rcases hc with e | ⟨xs, e⟩
  · rw [e]; exact ⟨id, fun _ _ => rfl⟩
  · rw [e]; exact ⟨nodup_finish P t xs, fun name hn => finish_keeps' P t xs name hn⟩

/-- … hence `Good` frames (no duplicate labels; V, F, P present) are mapped to `Good` frames, V, F, P unchanged -/
theorem fill_model_good (env : Fill.Env) (system : Option String) (P : Fill.Params α) (t t' : Table α)
    (h : Fill.fill env system P t = .ok t') (G : Good t) :
    Good t' ∧ getCol t' "V" = getCol t "V" ∧ getCol t' "F" = getCol t "F" ∧ getCol t' "P" = getCol t "P" ∧
      getCol t' "density" = getCol t "density" := by
  obtain ⟨hnd, hk⟩ := fill_model_frame env system P t t' h
  obtain ⟨uV, uF, uP, uD⟩ := untouched_fixed
  refine ⟨⟨hnd G.1, ?_, ?_, ?_⟩, hk _ uV, hk _ uF, hk _ uP, hk _ uD⟩
  · rw [hk _ uV]; exact G.2.1
  · rw [hk _ uF]; exact G.2.2.1
  · rw [hk _ uP]; exact G.2.2.2

/-- the library environment `E` with `fill_cij(df, system)` := the model `Fill.fill` (lookup environment `env`, keyword
    parameters `P`; a refusal / exception of `fill_cij` ends the command) -/
def withModelFill (E : Ext α) (env : Fill.Env) (P : Fill.Params α) : Ext α :=
  { E with fill := fun s t => (Fill.fill env (some s) P t).toOption }

theorem toOption_eq_some {ε β : Type} (x : Except ε β) (b : β) (h : x.toOption = some b) : x = .ok b := by
  cases x with
  | error e => cases h
  | ok a => simp only [Except.toOption, Option.some.injEq] at h; rw [h]

/-- `FillFrame` holds of the model: no hypothesis -/
theorem fillFrame_model (E : Ext α) (env : Fill.Env) (P : Fill.Params α) : FillFrame (withModelFill E env P) := by
  intro s t t' G h
  exact (fill_model_good env (some s) P t t' (toOption_eq_some _ _ h) G).1

/-- every environment whose `fill` agrees with the model (the form of `C18.fill_contract_of_model`) -/
theorem fillFrame_of_model (E : Ext α) (env : Fill.Env) (P : Fill.Params α)
    (hE : ∀ s t, E.fill s t = (Fill.fill env (some s) P t).toOption) : FillFrame E := by
  intro s t t' G h
  rw [hE] at h
  exact (fill_model_good env (some s) P t t' (toOption_eq_some _ _ h) G).1

end fill

section whole
variable {α : Type} [Add α] [Sub α] [Mul α] [Div α] [Neg α] [OfNat α 0] [OfNat α 1] [NatCast α] [IntCast α]
  [LE α] [DecidableLE α] [LT α] [DecidableLT α] [BEq α] [DecidableEq α]

/-- `run_is_source` with `fill_cij` := its model: `Static.runWith` IS the interpretation of the blocks of `main` as the
    translator reads them now, for every input, every scalar type — no hypothesis. -/
theorem run_is_source_model (fit : Fit α) (E : Ext α) (env : Fill.Env) (P : Fill.Params α) (U : Static.Units α)
    (o : Options α) (d1 : QhaInput.Data α) (d2 : Option (ElastDat.ElastData α)) :
    run ⟨fit, withModelFill E env P, U, o, d1, d2⟩ Generated.staticBlocks
      = runWith fit (withModelFill E env P) U o d1 d2 :=
  run_is_source ⟨fit, withModelFill E env P, U, o, d1, d2⟩ (fillFrame_model E env P)

end whole

end Cij.StaticSrc
