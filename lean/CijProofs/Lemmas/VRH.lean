/-
  Helper lemmas for C07 (no property statements here): the model `CijModel/VRH.lean` at `α = ℝ`,
  lookups in the dictionaries, the assembled 6×6 as a function of the canonical values, tensor tables.
-/
import CijModel.VRH
import CijProofs.Lemmas.VRHMatrix
import CijProofs.Lemmas.Voigt
import Mathlib.Algebra.BigOperators.Fin
import Mathlib.Tactic.FieldSimp
import Mathlib.Tactic.NormNum
import Mathlib.Tactic.LinearCombination

namespace Cij.VRH
open Cij

/-- the model's scalar operations at `ℝ` -/
noncomputable instance : Scalar ℝ where
  ofNat n := (n : ℝ)
  sqrt := Real.sqrt
  absLt a b := decide (|a| < |b|)

@[simp] theorem nat_real (n : Nat) : (nat n : ℝ) = (n : ℝ) := rfl
@[simp] theorem sqrt_real (x : ℝ) : (Scalar.sqrt x : ℝ) = Real.sqrt x := rfl

/-! ### arrays -/

theorem fieldAt_grid (nt nv : Nat) (h : Nat → Nat → ℝ) (t v : Nat) (ht : t < nt) (hv : v < nv) :
    fieldAt (grid nt nv h) t v = h t v := by
  simp [fieldAt, grid, List.getD, ht, hv]

/-! ### dictionaries -/

theorem find_kvAt (d : Dict ℝ) (t v : Nat) (key : Modulus) :
    find (kvAt d t v) key = (find d key).map (fun f => fieldAt f t v) := by
  induction d with
  | nil => simp [kvAt, find]
  | cons e r ih =>
    obtain ⟨k, x⟩ := e
    simp only [kvAt, List.map_cons, find] at ih ⊢
    split
    · simp
    · exact ih

theorem find_none_of_not_mem {β : Type} (d : List (Modulus × β)) (key : Modulus)
    (h : key ∉ d.map (·.1)) : find d key = none := by
  induction d with
  | nil => simp [find]
  | cons e r ih =>
    obtain ⟨k, x⟩ := e
    simp only [List.map_cons, List.mem_cons, not_or] at h
    simp only [find]
    rw [if_neg (fun hk => h.1 hk.symm)]
    exact ih h.2

theorem find_some_of_mem {β : Type} (d : List (Modulus × β)) (key : Modulus)
    (h : key ∈ d.map (·.1)) : ∃ x, find d key = some x := by
  induction d with
  | nil => simp at h
  | cons e r ih =>
    obtain ⟨k, x⟩ := e
    simp only [find]
    by_cases hk : k = key
    · exact ⟨x, by simp [hk]⟩
    · simp only [List.map_cons, List.mem_cons] at h
      rcases h with h | h
      · exact absurd h.symm hk
      · rw [if_neg hk]; exact ih h

theorem map_fst_kvAt (d : Dict ℝ) (t v : Nat) : (kvAt d t v).map (·.1) = d.map (·.1) := by
  simp [kvAt, List.map_map, Function.comp_def]

/-- the nine components every crystal system has -/
def ortho9 : List (Int × Int) := [(1, 1), (2, 2), (3, 3), (1, 2), (2, 3), (1, 3), (4, 4), (5, 5), (6, 6)]

/-- what a `modulus_keys` list is: distinct canonical `C_` keys (C10: every `C_` is one of the 21),
containing the nine orthotropic ones -/
structure ValidKeys (keys : List Modulus) : Prop where
  canon : ∀ k ∈ keys, ∃ p ∈ keys21, k = keyOfVoigt p
  nodup : keys.Nodup
  ortho : ∀ p ∈ ortho9, keyOfVoigt p ∈ keys

/-- value of the canonical key `p` (a Voigt pair, `p.1 ≤ p.2`) at one grid point; absent = 0 -/
noncomputable def val (kv : KV ℝ) (p : Int × Int) : ℝ := (find kv (keyOfVoigt p)).getD 0

/-- canonical (sorted) form of a Voigt pair -/
def canon (p : Int × Int) : Int × Int := (min p.1 p.2, max p.1 p.2)

theorem attrKey_eq : ∀ p ∈ keys21, attrKey p.1 p.2 = some (keyOfVoigt p) := by
  decide +kernel

theorem ortho9_sub : ∀ p ∈ ortho9, p ∈ keys21 := by decide +kernel

/-- `self.cIJ` for one of the nine: defined, and its entries are the canonical values -/
theorem getC_val (d : Dict ℝ) (hk : ValidKeys (d.map (·.1))) (p : Int × Int) (hp : p ∈ ortho9) :
    ∃ f, getC d p.1 p.2 = some f ∧ ∀ t v, fieldAt f t v = val (kvAt d t v) p := by
  obtain ⟨f, hf⟩ := find_some_of_mem d (keyOfVoigt p) (hk.ortho p hp)
  refine ⟨f, ?_, ?_⟩
  · simp [getC, attrKey_eq p (ortho9_sub p hp), hf]
  · intro t v
    simp [val, find_kvAt, hf]

/-! ### the assembled matrix in terms of the canonical values -/

/-- which key writes position `q`: exactly the canonical key of the sorted pair -/
theorem writes_iff : ∀ p ∈ keys21, ∀ q ∈ allPairs,
    (q ∈ writes (keyOfVoigt p) ↔ keyOfVoigt p = keyOfVoigt (canon q)) := by
  decide +kernel

theorem assemble_fold (kv : KV ℝ) (i j : Int) (hij : (i, j) ∈ allPairs)
    (hc : ∀ k ∈ kv.map (·.1), ∃ p ∈ keys21, k = keyOfVoigt p) (hn : (kv.map (·.1)).Nodup) (acc : ℝ) :
    kv.foldl (fun acc e => if (i, j) ∈ writes e.1 then e.2 else acc) acc
      = (find kv (keyOfVoigt (canon (i, j)))).getD acc := by
  induction kv generalizing acc with
  | nil => simp [find]
  | cons e r ih =>
    obtain ⟨k, x⟩ := e
    simp only [List.map_cons, List.nodup_cons] at hn
    have hc' : ∀ k ∈ r.map (·.1), ∃ p ∈ keys21, k = keyOfVoigt p :=
      fun k' hk' => hc k' (by simp only [List.map_cons, List.mem_cons]; exact Or.inr hk')
    obtain ⟨p, hp, rfl⟩ := hc k (by simp)
    simp only [List.foldl_cons, find]
    rw [ih hc' hn.2]
    by_cases hw : (i, j) ∈ writes (keyOfVoigt p)
    · have hkey := (writes_iff p hp (i, j) hij).1 hw
      rw [if_pos hw, if_pos hkey]
      rw [← hkey, find_none_of_not_mem r _ hn.1]
      simp
    · have hkey : ¬ keyOfVoigt p = keyOfVoigt (canon (i, j)) :=
        fun h => hw ((writes_iff p hp (i, j) hij).2 h)
      rw [if_neg hw, if_neg hkey]

theorem assembleEntry_eq (kv : KV ℝ) (i j : Int) (hij : (i, j) ∈ allPairs)
    (hc : ∀ k ∈ kv.map (·.1), ∃ p ∈ keys21, k = keyOfVoigt p) (hn : (kv.map (·.1)).Nodup) :
    assembleEntry kv i j = val kv (canon (i, j)) := by
  unfold assembleEntry val
  rw [assemble_fold kv i j hij hc hn]; simp

theorem canon_comm (i j : Int) : canon (i, j) = canon (j, i) := by
  simp [canon, min_comm, max_comm]

theorem swap_mem_allPairs (i j : Int) (h : (i, j) ∈ allPairs) : (j, i) ∈ allPairs := by
  rw [mem_allPairs] at h ⊢; exact ⟨h.2, h.1⟩

/-- the assembled matrix is symmetric -/
theorem assembleEntry_symm (kv : KV ℝ) (i j : Int) (hij : (i, j) ∈ allPairs)
    (hc : ∀ k ∈ kv.map (·.1), ∃ p ∈ keys21, k = keyOfVoigt p) (hn : (kv.map (·.1)).Nodup) :
    assembleEntry kv i j = assembleEntry kv j i := by
  rw [assembleEntry_eq kv i j hij hc hn, assembleEntry_eq kv j i (swap_mem_allPairs i j hij) hc hn,
    canon_comm]

/-! ### tensor tables -/

/-- Voigt index of a pair of cartesian indices (the documented map 11,22,33,23,13,12 → 1..6) -/
def vidx (i j : Int) : Int := if i = j then i else 9 - i - j

theorem key4_eq : ∀ t ∈ allTuples, Modulus.fromStandard t.1 t.2.1 t.2.2.1 t.2.2.2
    = some (keyOfVoigt (canon (vidx t.1 t.2.1, vidx t.2.2.1 t.2.2.2))) := by
  decide +kernel

theorem canon_vidx_mem : ∀ t ∈ allTuples, canon (vidx t.1 t.2.1, vidx t.2.2.1 t.2.2.2) ∈ keys21 := by
  decide +kernel

theorem voigt_keyOfVoigt : ∀ p ∈ keys21, (keyOfVoigt p).voigt = some p := by
  decide +kernel

theorem create_ints_eq : ∀ p ∈ keys21, Modulus.create [.int p.1, .int p.2] = some (keyOfVoigt p) := by
  decide +kernel

theorem tensorOf_eq (kv : KV ℝ) (i j k l : Int) (h : (i, j, k, l) ∈ allTuples) :
    tensorOf kv i j k l = val kv (canon (vidx i j, vidx k l)) := by
  have := key4_eq (i, j, k, l) h
  simp only at this
  simp [tensorOf, this, val]

theorem complTensorOf_eq (s : Int → Int → ℝ) (i j k l : Int) (h : (i, j, k, l) ∈ allTuples) :
    complTensorOf s i j k l =
      sWeight (canon (vidx i j, vidx k l)).1 * sWeight (canon (vidx i j, vidx k l)).2 *
        s (canon (vidx i j, vidx k l)).1 (canon (vidx i j, vidx k l)).2 := by
  have h1 := key4_eq (i, j, k, l) h
  have h2 := voigt_keyOfVoigt _ (canon_vidx_mem (i, j, k, l) h)
  simp only at h1 h2
  simp only [complTensorOf, h1, h2]

theorem sWeight_le (p : Int) (h : p ≤ 3) : (sWeight p : ℝ) = 1 := by simp [sWeight, h]
theorem sWeight_gt (p : Int) (h : ¬ p ≤ 3) : (sWeight p : ℝ) = 1 / 2 := by simp [sWeight, h]

theorem sum_three (a b c : ℝ) : VRH.sum [a, b, c] = a + b + c := by simp [VRH.sum]

/-- `C_iijj` and `C_ijij` of the dictionary's tensor in terms of the canonical values -/
theorem contractIIJJ_tensorOf (kv : KV ℝ) :
    contractIIJJ (tensorOf kv) = val kv (1, 1) + val kv (2, 2) + val kv (3, 3)
      + 2 * (val kv (1, 2) + val kv (2, 3) + val kv (1, 3)) := by
  have e := tensorOf_eq kv
  simp only [contractIIJJ, idx3, List.map, sum_three]
  rw [e 1 1 1 1 (by decide), e 1 1 2 2 (by decide), e 1 1 3 3 (by decide), e 2 2 1 1 (by decide),
    e 2 2 2 2 (by decide), e 2 2 3 3 (by decide), e 3 3 1 1 (by decide), e 3 3 2 2 (by decide),
    e 3 3 3 3 (by decide)]
  norm_num [canon, vidx]; ring

theorem contractIJIJ_tensorOf (kv : KV ℝ) :
    contractIJIJ (tensorOf kv) = val kv (1, 1) + val kv (2, 2) + val kv (3, 3)
      + 2 * (val kv (4, 4) + val kv (5, 5) + val kv (6, 6)) := by
  have e := tensorOf_eq kv
  simp only [contractIJIJ, idx3, List.map, sum_three]
  rw [e 1 1 1 1 (by decide), e 1 2 1 2 (by decide), e 1 3 1 3 (by decide), e 2 1 2 1 (by decide),
    e 2 2 2 2 (by decide), e 2 3 2 3 (by decide), e 3 1 3 1 (by decide), e 3 2 3 2 (by decide),
    e 3 3 3 3 (by decide)]
  norm_num [canon, vidx]; ring

theorem contractIIJJ_complTensorOf (s : Int → Int → ℝ) :
    contractIIJJ (complTensorOf s) = s 1 1 + s 2 2 + s 3 3 + 2 * (s 1 2 + s 2 3 + s 1 3) := by
  have e := complTensorOf_eq s
  simp only [contractIIJJ, idx3, List.map, sum_three]
  rw [e 1 1 1 1 (by decide), e 1 1 2 2 (by decide), e 1 1 3 3 (by decide), e 2 2 1 1 (by decide),
    e 2 2 2 2 (by decide), e 2 2 3 3 (by decide), e 3 3 1 1 (by decide), e 3 3 2 2 (by decide),
    e 3 3 3 3 (by decide)]
  norm_num [canon, vidx, sWeight]; ring

theorem contractIJIJ_complTensorOf (s : Int → Int → ℝ) :
    contractIJIJ (complTensorOf s) = s 1 1 + s 2 2 + s 3 3 + (s 4 4 + s 5 5 + s 6 6) / 2 := by
  have e := complTensorOf_eq s
  simp only [contractIJIJ, idx3, List.map, sum_three]
  rw [e 1 1 1 1 (by decide), e 1 2 1 2 (by decide), e 1 3 1 3 (by decide), e 2 1 2 1 (by decide),
    e 2 2 2 2 (by decide), e 2 3 2 3 (by decide), e 3 1 3 1 (by decide), e 3 2 3 2 (by decide),
    e 3 3 3 3 (by decide)]
  norm_num [canon, vidx, sWeight]; ring

/-! ### lookups in the compliance dictionary -/

theorem find_filterMap_some {β γ : Type} (l : List β) (g : β → Option (Modulus × γ)) (key : Modulus)
    (b : β) (x : γ) (hb : b ∈ l) (hgb : g b = some (key, x))
    (huniq : ∀ b' ∈ l, ∀ y, g b' = some (key, y) → y = x) : find (l.filterMap g) key = some x := by
  induction l with
  | nil => simp at hb
  | cons a r ih =>
    have hu' : ∀ b' ∈ r, ∀ y, g b' = some (key, y) → y = x :=
      fun b' hb' => huniq b' (List.mem_cons_of_mem _ hb')
    cases hg : g a with
    | none =>
      have hab : b ≠ a := fun h => by rw [h, hg] at hgb; exact absurd hgb (by simp)
      have hbr : b ∈ r := by
        rcases List.mem_cons.1 hb with h | h
        · exact absurd h hab
        · exact h
      simpa [List.filterMap_cons, hg] using ih hbr hu'
    | some e =>
      obtain ⟨k, y⟩ := e
      simp only [List.filterMap_cons, hg, find]
      by_cases hk : k = key
      · rw [if_pos hk]
        have := huniq a (by simp) y (by rw [hg, hk])
        rw [this]
      · rw [if_neg hk]
        have hab : b ≠ a := fun h => by
          rw [h, hg] at hgb
          exact hk (by simpa using congrArg (fun o => o.map Prod.fst) hgb)
        have hbr : b ∈ r := by
          rcases List.mem_cons.1 hb with h | h
          · exact absurd h hab
          · exact h
        exact ih hbr hu'

/-- `c_(i, j)` is injective on the upper triangle -/
theorem create_inj : ∀ p ∈ allPairs, ∀ q ∈ allPairs, p.1 ≤ p.2 → q.1 ≤ q.2 →
    Modulus.create [.int p.1, .int p.2] = Modulus.create [.int q.1, .int q.2] → p = q := by
  decide +kernel

theorem keys21_sub : ∀ p ∈ keys21, p ∈ allPairs ∧ p.1 ≤ p.2 := by decide +kernel

/-- every `sIJ` (I ≤ J) is served by `__getattr__` and is the (I,J) entry of the batched inverse -/
theorem getS_complDict (S : Nat → Nat → Int → Int → ℝ) (nt nv : Nat) (p : Int × Int) (hp : p ∈ keys21) :
    getS (complDict S nt nv) p.1 p.2 = some (entryField S nt nv p.1 p.2) := by
  have hpa := keys21_sub p hp
  simp only [getS, attrKey_eq p hp, Option.bind_some, complDict]
  set g : Int × Int → Option (Modulus × Field ℝ) := fun p =>
    if p.1 > p.2 then none
    else (Modulus.create [.int p.1, .int p.2]).map fun k => (k, entryField S nt nv p.1 p.2) with hgdef
  apply find_filterMap_some allPairs g (keyOfVoigt p) p _ hpa.1
  · simp only [hgdef]
    rw [if_neg (by omega), create_ints_eq p hp]; rfl
  · intro q hq y hy
    simp only [hgdef] at hy
    by_cases h1 : q.1 > q.2
    · simp [h1] at hy
    · rw [if_neg h1] at hy
      cases hc : Modulus.create [.int q.1, .int q.2] with
      | none => simp [hc] at hy
      | some k =>
        simp only [hc, Option.map_some, Option.some.injEq, Prod.mk.injEq] at hy
        have hqp : q = p := create_inj q hq p hpa.1 (by omega) hpa.2
          (by rw [hc, create_ints_eq p hp, hy.1])
        subst hqp
        exact hy.2.symm

/-! ### the 6×6 Voigt matrices as Mathlib matrices -/

open Matrix

/-- position → 1-based Voigt index -/
def ix : Fin 6 → Int := ![1, 2, 3, 4, 5, 6]

/-- a 1-based 6×6 array as a Mathlib matrix -/
def toMat (f : Int → Int → ℝ) : Matrix (Fin 6) (Fin 6) ℝ := Matrix.of fun a b => f (ix a) (ix b)

/-- positive definiteness of a 6×6 Voigt matrix -/
def PosDef6 (f : Int → Int → ℝ) : Prop := ∀ x : Fin 6 → ℝ, x ≠ 0 → 0 < x ⬝ᵥ toMat f *ᵥ x

theorem ix_mem (a b : Fin 6) : (ix a, ix b) ∈ allPairs := by
  fin_cases a <;> fin_cases b <;> decide

theorem toMat_symm (f : Int → Int → ℝ) (h : ∀ i j, (i, j) ∈ allPairs → f i j = f j i) :
    (toMat f)ᵀ = toMat f := by
  ext a b
  simp only [toMat, Matrix.transpose_apply, Matrix.of_apply]
  exact (h (ix a) (ix b) (ix_mem a b)).symm

theorem toMat_symm_entries (f : Int → Int → ℝ) (h : (toMat f)ᵀ = toMat f) :
    f 2 1 = f 1 2 ∧ f 3 1 = f 1 3 ∧ f 3 2 = f 2 3 := by
  refine ⟨?_, ?_, ?_⟩
  · simpa [toMat, ix] using congrFun (congrFun h 0) 1
  · simpa [toMat, ix] using congrFun (congrFun h 0) 2
  · simpa [toMat, ix] using congrFun (congrFun h 1) 2

/-- the directions: hydrostatic, and five mutually orthogonal deviatoric ones, as strain-like (engineering
shear, `e`) and stress-like (`s`) Voigt vectors; `e_a · s_a = d_a : d_a` -/
def uH : Fin 6 → ℝ := ![1, 1, 1, 0, 0, 0]
def d1 : Fin 6 → ℝ := ![1, -1, 0, 0, 0, 0]
def d2 : Fin 6 → ℝ := ![1, 1, -2, 0, 0, 0]
def e4 : Fin 6 → ℝ := ![0, 0, 0, 2, 0, 0]
def s4 : Fin 6 → ℝ := ![0, 0, 0, 1, 0, 0]
def e5 : Fin 6 → ℝ := ![0, 0, 0, 0, 2, 0]
def s5 : Fin 6 → ℝ := ![0, 0, 0, 0, 1, 0]
def e6 : Fin 6 → ℝ := ![0, 0, 0, 0, 0, 2]
def s6 : Fin 6 → ℝ := ![0, 0, 0, 0, 0, 1]

theorem quad_uH (f : Int → Int → ℝ) : uH ⬝ᵥ toMat f *ᵥ uH =
    f 1 1 + f 2 2 + f 3 3 + (f 1 2 + f 2 1) + (f 2 3 + f 3 2) + (f 1 3 + f 3 1) := by
  simp [dotProduct, Matrix.mulVec, Fin.sum_univ_six, toMat, ix, uH]; ring

theorem quad_d1 (f : Int → Int → ℝ) : d1 ⬝ᵥ toMat f *ᵥ d1 = f 1 1 + f 2 2 - (f 1 2 + f 2 1) := by
  simp [dotProduct, Matrix.mulVec, Fin.sum_univ_six, toMat, ix, d1]; ring

theorem quad_d2 (f : Int → Int → ℝ) : d2 ⬝ᵥ toMat f *ᵥ d2 =
    f 1 1 + f 2 2 + 4 * f 3 3 + (f 1 2 + f 2 1) - 2 * (f 1 3 + f 3 1) - 2 * (f 2 3 + f 3 2) := by
  simp [dotProduct, Matrix.mulVec, Fin.sum_univ_six, toMat, ix, d2]; ring

theorem quad_e4 (f : Int → Int → ℝ) : e4 ⬝ᵥ toMat f *ᵥ e4 = 4 * f 4 4 := by
  simp [dotProduct, Matrix.mulVec, Fin.sum_univ_six, toMat, ix, e4]; ring
theorem quad_e5 (f : Int → Int → ℝ) : e5 ⬝ᵥ toMat f *ᵥ e5 = 4 * f 5 5 := by
  simp [dotProduct, Matrix.mulVec, Fin.sum_univ_six, toMat, ix, e5]; ring
theorem quad_e6 (f : Int → Int → ℝ) : e6 ⬝ᵥ toMat f *ᵥ e6 = 4 * f 6 6 := by
  simp [dotProduct, Matrix.mulVec, Fin.sum_univ_six, toMat, ix, e6]; ring
theorem quad_s4 (f : Int → Int → ℝ) : s4 ⬝ᵥ toMat f *ᵥ s4 = f 4 4 := by
  simp [dotProduct, Matrix.mulVec, Fin.sum_univ_six, toMat, ix, s4]
theorem quad_s5 (f : Int → Int → ℝ) : s5 ⬝ᵥ toMat f *ᵥ s5 = f 5 5 := by
  simp [dotProduct, Matrix.mulVec, Fin.sum_univ_six, toMat, ix, s5]
theorem quad_s6 (f : Int → Int → ℝ) : s6 ⬝ᵥ toMat f *ᵥ s6 = f 6 6 := by
  simp [dotProduct, Matrix.mulVec, Fin.sum_univ_six, toMat, ix, s6]

theorem dot_uH : uH ⬝ᵥ uH = 3 := by simp [dotProduct, Fin.sum_univ_six, uH]; norm_num
theorem dot_d1 : d1 ⬝ᵥ d1 = 2 := by simp [dotProduct, Fin.sum_univ_six, d1]; norm_num
theorem dot_d2 : d2 ⬝ᵥ d2 = 6 := by simp [dotProduct, Fin.sum_univ_six, d2]; norm_num
theorem dot_4 : e4 ⬝ᵥ s4 = 2 := by simp [dotProduct, Fin.sum_univ_six, e4, s4]
theorem dot_5 : e5 ⬝ᵥ s5 = 2 := by simp [dotProduct, Fin.sum_univ_six, e5, s5]
theorem dot_6 : e6 ⬝ᵥ s6 = 2 := by simp [dotProduct, Fin.sum_univ_six, e6, s6]

theorem uH_ne : uH ≠ 0 := fun h => by
  have := congrFun h 0; simp [uH] at this
theorem d1_ne : d1 ≠ 0 := fun h => by
  have := congrFun h 0; simp [d1] at this

theorem PosDef6.psd {f : Int → Int → ℝ} (h : PosDef6 f) (x : Fin 6 → ℝ) : 0 ≤ x ⬝ᵥ toMat f *ᵥ x := by
  by_cases hx : x = 0
  · simp [hx]
  · exact (h x hx).le

/-- bulk: `9 ≤ (uᵀCu)(uᵀSu)` and both factors are positive -/
theorem bulk_cs (c s : Int → Int → ℝ) (hc : (toMat c)ᵀ = toMat c) (hpd : PosDef6 c)
    (hinv : toMat c * toMat s = 1) :
    0 < uH ⬝ᵥ toMat c *ᵥ uH ∧ 0 < uH ⬝ᵥ toMat s *ᵥ uH ∧
      9 ≤ (uH ⬝ᵥ toMat c *ᵥ uH) * (uH ⬝ᵥ toMat s *ᵥ uH) := by
  have hX := hpd uH uH_ne
  have h9 := cauchy_schwarz_inv (toMat c) (toMat s) hc hpd.psd hinv uH uH
  rw [dot_uH] at h9
  have h9' : 9 ≤ (uH ⬝ᵥ toMat c *ᵥ uH) * (uH ⬝ᵥ toMat s *ᵥ uH) := by linarith
  refine ⟨hX, ?_, h9'⟩
  by_contra hY
  rw [not_lt] at hY
  nlinarith [mul_nonpos_of_nonneg_of_nonpos hX.le hY]

/-- shear: with `X = Σ wₐ eₐᵀCeₐ` and `Y = Σ wₐ sₐᵀSsₐ` over the five deviatoric directions, `25 ≤ X·Y` -/
theorem shear_cs (c s : Int → Int → ℝ) (hc : (toMat c)ᵀ = toMat c) (hpd : PosDef6 c)
    (hinv : toMat c * toMat s = 1) :
    let X := (1 / 2) * (d1 ⬝ᵥ toMat c *ᵥ d1) + (1 / 6) * (d2 ⬝ᵥ toMat c *ᵥ d2)
      + (1 / 2) * (e4 ⬝ᵥ toMat c *ᵥ e4) + (1 / 2) * (e5 ⬝ᵥ toMat c *ᵥ e5) + (1 / 2) * (e6 ⬝ᵥ toMat c *ᵥ e6)
    let Y := (1 / 2) * (d1 ⬝ᵥ toMat s *ᵥ d1) + (1 / 6) * (d2 ⬝ᵥ toMat s *ᵥ d2)
      + (1 / 2) * (s4 ⬝ᵥ toMat s *ᵥ s4) + (1 / 2) * (s5 ⬝ᵥ toMat s *ᵥ s5) + (1 / 2) * (s6 ⬝ᵥ toMat s *ᵥ s6)
    0 < X ∧ 0 < Y ∧ 25 ≤ X * Y := by
  intro X Y
  have h := cauchy_schwarz_inv5 (toMat c) (toMat s) hc hpd.psd hinv (1 / 2) (1 / 6) (1 / 2) (1 / 2) (1 / 2)
    (by norm_num) (by norm_num) (by norm_num) (by norm_num) (by norm_num) d1 d1 d2 d2 e4 s4 e5 s5 e6 s6
  rw [dot_d1, dot_d2, dot_4, dot_5, dot_6] at h
  have h25 : 25 ≤ X * Y := by
    have : ((1:ℝ) / 2 * 2 + 1 / 6 * 6 + 1 / 2 * 2 + 1 / 2 * 2 + 1 / 2 * 2) ^ 2 = 25 := by norm_num
    rw [this] at h; exact h
  have hX : 0 < X := by
    have a1 := hpd d1 d1_ne
    have a2 := hpd.psd d2
    have a4 := hpd.psd e4
    have a5 := hpd.psd e5
    have a6 := hpd.psd e6
    show 0 < (1 / 2) * (d1 ⬝ᵥ toMat c *ᵥ d1) + (1 / 6) * (d2 ⬝ᵥ toMat c *ᵥ d2)
      + (1 / 2) * (e4 ⬝ᵥ toMat c *ᵥ e4) + (1 / 2) * (e5 ⬝ᵥ toMat c *ᵥ e5) + (1 / 2) * (e6 ⬝ᵥ toMat c *ᵥ e6)
    linarith
  refine ⟨hX, ?_, h25⟩
  by_contra hY
  rw [not_lt] at hY
  nlinarith [mul_nonpos_of_nonneg_of_nonpos hX.le hY]

/-! ### what `report` returns, field by field -/

/-- the canonical values at a grid point, named as in the code -/
noncomputable def cv (d : Dict ℝ) (t v : Nat) (i j : Int) : ℝ := val (kvAt d t v) (i, j)

theorem bulkVoigt_eq (nt nv : Nat) (d : Dict ℝ) (hk : ValidKeys (d.map (·.1))) :
    bulkVoigt nt nv d = some (grid nt nv fun t v =>
      bulkVoigtPt (cv d t v 1 1) (cv d t v 2 2) (cv d t v 3 3) (cv d t v 1 2) (cv d t v 2 3) (cv d t v 1 3)) := by
  obtain ⟨f11, h11, e11⟩ := getC_val d hk (1, 1) (by decide)
  obtain ⟨f22, h22, e22⟩ := getC_val d hk (2, 2) (by decide)
  obtain ⟨f33, h33, e33⟩ := getC_val d hk (3, 3) (by decide)
  obtain ⟨f12, h12, e12⟩ := getC_val d hk (1, 2) (by decide)
  obtain ⟨f23, h23, e23⟩ := getC_val d hk (2, 3) (by decide)
  obtain ⟨f13, h13, e13⟩ := getC_val d hk (1, 3) (by decide)
  simp only at h11 h22 h33 h12 h23 h13
  simp only [bulkVoigt, h11, h22, h33, h12, h23, h13, Option.bind_some,
    bind, pure, e11, e22, e33, e12, e23, e13, cv]

theorem shearVoigt_eq (nt nv : Nat) (d : Dict ℝ) (hk : ValidKeys (d.map (·.1))) :
    shearVoigt nt nv d = some (grid nt nv fun t v =>
      shearVoigtPt (cv d t v 1 1) (cv d t v 2 2) (cv d t v 3 3) (cv d t v 1 2) (cv d t v 2 3) (cv d t v 1 3)
        (cv d t v 4 4) (cv d t v 5 5) (cv d t v 6 6)) := by
  obtain ⟨f11, h11, e11⟩ := getC_val d hk (1, 1) (by decide)
  obtain ⟨f22, h22, e22⟩ := getC_val d hk (2, 2) (by decide)
  obtain ⟨f33, h33, e33⟩ := getC_val d hk (3, 3) (by decide)
  obtain ⟨f12, h12, e12⟩ := getC_val d hk (1, 2) (by decide)
  obtain ⟨f23, h23, e23⟩ := getC_val d hk (2, 3) (by decide)
  obtain ⟨f13, h13, e13⟩ := getC_val d hk (1, 3) (by decide)
  obtain ⟨f44, h44, e44⟩ := getC_val d hk (4, 4) (by decide)
  obtain ⟨f55, h55, e55⟩ := getC_val d hk (5, 5) (by decide)
  obtain ⟨f66, h66, e66⟩ := getC_val d hk (6, 6) (by decide)
  simp only at h11 h22 h33 h12 h23 h13 h44 h55 h66
  simp only [shearVoigt, h11, h22, h33, h12, h23, h13, h44, h55, h66, Option.bind_some,
    bind, pure, e11, e22, e33, e12, e23, e13, e44, e55, e66, cv]

/-- entry of the inverse as read back through the reported field (equal to `S t v i j` inside the grid) -/
noncomputable def sv (S : Nat → Nat → Int → Int → ℝ) (nt nv : Nat) (t v : Nat) (i j : Int) : ℝ :=
  fieldAt (entryField S nt nv i j) t v

theorem sv_eq (S : Nat → Nat → Int → Int → ℝ) (nt nv t v : Nat) (ht : t < nt) (hv : v < nv) (i j : Int) :
    sv S nt nv t v i j = S t v i j := by
  simp [sv, entryField, fieldAt_grid _ _ _ _ _ ht hv]

theorem bulkReuss_eq (S : Nat → Nat → Int → Int → ℝ) (nt nv : Nat) :
    bulkReuss nt nv (complDict S nt nv) = some (grid nt nv fun t v =>
      bulkReussPt (sv S nt nv t v 1 1) (sv S nt nv t v 2 2) (sv S nt nv t v 3 3)
        (sv S nt nv t v 1 2) (sv S nt nv t v 2 3) (sv S nt nv t v 1 3)) := by
  have h11 := getS_complDict S nt nv (1, 1) (by decide)
  have h22 := getS_complDict S nt nv (2, 2) (by decide)
  have h33 := getS_complDict S nt nv (3, 3) (by decide)
  have h12 := getS_complDict S nt nv (1, 2) (by decide)
  have h23 := getS_complDict S nt nv (2, 3) (by decide)
  have h13 := getS_complDict S nt nv (1, 3) (by decide)
  simp only at h11 h22 h33 h12 h23 h13
  simp only [bulkReuss, h11, h22, h33, h12, h23, h13, Option.bind_some,
    bind, pure, sv]

theorem shearReuss_eq (S : Nat → Nat → Int → Int → ℝ) (nt nv : Nat) :
    shearReuss nt nv (complDict S nt nv) = some (grid nt nv fun t v =>
      shearReussPt (sv S nt nv t v 1 1) (sv S nt nv t v 2 2) (sv S nt nv t v 3 3)
        (sv S nt nv t v 1 2) (sv S nt nv t v 2 3) (sv S nt nv t v 1 3)
        (sv S nt nv t v 4 4) (sv S nt nv t v 5 5) (sv S nt nv t v 6 6)) := by
  have h11 := getS_complDict S nt nv (1, 1) (by decide)
  have h22 := getS_complDict S nt nv (2, 2) (by decide)
  have h33 := getS_complDict S nt nv (3, 3) (by decide)
  have h12 := getS_complDict S nt nv (1, 2) (by decide)
  have h23 := getS_complDict S nt nv (2, 3) (by decide)
  have h13 := getS_complDict S nt nv (1, 3) (by decide)
  have h44 := getS_complDict S nt nv (4, 4) (by decide)
  have h55 := getS_complDict S nt nv (5, 5) (by decide)
  have h66 := getS_complDict S nt nv (6, 6) (by decide)
  simp only at h11 h22 h33 h12 h23 h13 h44 h55 h66
  simp only [shearReuss, h11, h22, h33, h12, h23, h13, h44, h55, h66, Option.bind_some,
    bind, pure, sv]

theorem hill_some (nt nv : Nat) (r vo : Field ℝ) :
    hill nt nv (some r) (some vo) = some (grid nt nv fun t v => hillPt (fieldAt r t v) (fieldAt vo t v)) := by
  simp [hill, bind, pure]

/-! ### the compliance tensor built from the Voigt compliances is the fourth-rank inverse -/

/-- the symmetric fourth-rank identity `½(δ_im δ_jn + δ_in δ_jm)` -/
noncomputable def idTensor (i j m n : Int) : ℝ :=
  ((if i = m ∧ j = n then 1 else 0) + (if i = n ∧ j = m then 1 else 0)) / 2

theorem of_fin (P : Int → Int → Prop) (h : ∀ a b : Fin 6, P (ix a) (ix b)) :
    ∀ p r, (p, r) ∈ allPairs → P p r := by
  intro p r hpr
  rw [mem_allPairs] at hpr
  have hp : p = ix 0 ∨ p = ix 1 ∨ p = ix 2 ∨ p = ix 3 ∨ p = ix 4 ∨ p = ix 5 := by simp [ix]; omega
  have hr : r = ix 0 ∨ r = ix 1 ∨ r = ix 2 ∨ r = ix 3 ∨ r = ix 4 ∨ r = ix 5 := by simp [ix]; omega
  rcases hp with rfl | rfl | rfl | rfl | rfl | rfl <;> rcases hr with rfl | rfl | rfl | rfl | rfl | rfl <;>
    exact h _ _

theorem vidx_range (i j : Int) (hi : i ∈ idx3) (hj : j ∈ idx3) : 1 ≤ vidx i j ∧ vidx i j ≤ 6 := by
  rw [mem_idx3] at hi hj
  unfold vidx; split <;> omega

theorem sum_kl (G : Int → Int → ℝ) (F : Int → ℝ) (h : ∀ k ∈ idx3, ∀ l ∈ idx3, G k l = F (vidx k l)) :
    VRH.sum (idx3.map fun k => VRH.sum (idx3.map fun l => G k l))
      = F 1 + F 2 + F 3 + 2 * F 4 + 2 * F 5 + 2 * F 6 := by
  simp only [idx3, List.map, sum_three]
  rw [h 1 (by decide) 1 (by decide), h 1 (by decide) 2 (by decide), h 1 (by decide) 3 (by decide),
    h 2 (by decide) 1 (by decide), h 2 (by decide) 2 (by decide), h 2 (by decide) 3 (by decide),
    h 3 (by decide) 1 (by decide), h 3 (by decide) 2 (by decide), h 3 (by decide) 3 (by decide)]
  norm_num [vidx]; ring

theorem idTensor_eq (i j m n : Int) (hi : i ∈ idx3) (hj : j ∈ idx3) (hm : m ∈ idx3) (hn : n ∈ idx3) :
    idTensor i j m n = sWeight (vidx m n) * (if vidx i j = vidx m n then 1 else 0) := by
  simp only [idx3, List.mem_cons, List.mem_nil_iff, or_false] at hi hj hm hn
  rcases hi with rfl | rfl | rfl <;> rcases hj with rfl | rfl | rfl <;> rcases hm with rfl | rfl | rfl <;>
    rcases hn with rfl | rfl | rfl <;> norm_num [idTensor, vidx, sWeight]

theorem compl_tensor_inverse (kv : KV ℝ) (s : Int → Int → ℝ)
    (hc : ∀ k ∈ kv.map (·.1), ∃ p ∈ keys21, k = keyOfVoigt p) (hn : (kv.map (·.1)).Nodup)
    (hinv : toMat (assembleEntry kv) * toMat s = 1)
    (i j m n : Int) (hi : i ∈ idx3) (hj : j ∈ idx3) (hm : m ∈ idx3) (hn' : n ∈ idx3) :
    VRH.sum (idx3.map fun k => VRH.sum (idx3.map fun l => tensorOf kv i j k l * complTensorOf s k l m n))
      = idTensor i j m n := by
  have hCs : (toMat (assembleEntry kv))ᵀ = toMat (assembleEntry kv) :=
    toMat_symm _ (fun a b hab => assembleEntry_symm kv a b hab hc hn)
  have hSs := inv_symm _ _ hCs hinv
  -- Int-indexed symmetry of s and entry equations of C·S = 1
  have hsym : ∀ q r, (q, r) ∈ allPairs → s q r = s r q := by
    apply of_fin (fun q r => s q r = s r q)
    intro a b
    have := congrFun (congrFun hSs b) a
    simpa [toMat] using this
  have hent : ∀ p r, (p, r) ∈ allPairs →
      assembleEntry kv p 1 * s 1 r + assembleEntry kv p 2 * s 2 r + assembleEntry kv p 3 * s 3 r
      + assembleEntry kv p 4 * s 4 r + assembleEntry kv p 5 * s 5 r + assembleEntry kv p 6 * s 6 r
        = if p = r then 1 else 0 := by
    apply of_fin (fun p r => assembleEntry kv p 1 * s 1 r + assembleEntry kv p 2 * s 2 r
      + assembleEntry kv p 3 * s 3 r + assembleEntry kv p 4 * s 4 r + assembleEntry kv p 5 * s 5 r
      + assembleEntry kv p 6 * s 6 r = if p = r then 1 else 0)
    intro a b
    have := congrFun (congrFun hinv a) b
    simp only [Matrix.mul_apply, Fin.sum_univ_six, toMat, Matrix.of_apply, Matrix.one_apply] at this
    have hix : (ix a = ix b) ↔ a = b := by
      fin_cases a <;> fin_cases b <;> simp [ix]
    simp only [hix]
    simpa [ix] using this
  set p := vidx i j with hp
  set r := vidx m n with hr
  have hpR := vidx_range i j hi hj
  have hrR := vidx_range m n hm hn'
  have hG : ∀ k ∈ idx3, ∀ l ∈ idx3, tensorOf kv i j k l * complTensorOf s k l m n
      = (fun q => assembleEntry kv p q * (sWeight q * sWeight r * s q r)) (vidx k l) := by
    intro k hk l hl
    have hqR := vidx_range k l hk hl
    have hpq : (p, vidx k l) ∈ allPairs := (mem_allPairs _ _).2 ⟨hpR, hqR⟩
    have hqr : (vidx k l, r) ∈ allPairs := (mem_allPairs _ _).2 ⟨hqR, hrR⟩
    have t1 : (i, j, k, l) ∈ allTuples := (mem_allTuples i j k l).2
      ⟨(mem_idx3 i).1 hi, (mem_idx3 j).1 hj, (mem_idx3 k).1 hk, (mem_idx3 l).1 hl⟩
    have t2 : (k, l, m, n) ∈ allTuples := (mem_allTuples k l m n).2
      ⟨(mem_idx3 k).1 hk, (mem_idx3 l).1 hl, (mem_idx3 m).1 hm, (mem_idx3 n).1 hn'⟩
    rw [tensorOf_eq kv i j k l t1, complTensorOf_eq s k l m n t2, ← assembleEntry_eq kv p (vidx k l) hpq hc hn]
    simp only
    congr 1
    rcases le_total (vidx k l) r with hle | hle
    · simp [canon, min_eq_left hle, max_eq_right hle, ← hr]
    · simp only [canon, ← hr, min_eq_right hle, max_eq_left hle]
      rw [hsym r (vidx k l) (swap_mem_allPairs _ _ hqr)]; ring
  rw [sum_kl (fun k l => tensorOf kv i j k l * complTensorOf s k l m n)
    (fun q => assembleEntry kv p q * (sWeight q * sWeight r * s q r)) hG, idTensor_eq i j m n hi hj hm hn', ← hp, ← hr,
    ← hent p r ((mem_allPairs _ _).2 ⟨hpR, hrR⟩)]
  have w1 : (sWeight 1 : ℝ) = 1 := by norm_num [sWeight]
  have w2 : (sWeight 2 : ℝ) = 1 := by norm_num [sWeight]
  have w3 : (sWeight 3 : ℝ) = 1 := by norm_num [sWeight]
  have w4 : (sWeight 4 : ℝ) = 1 / 2 := by norm_num [sWeight]
  have w5 : (sWeight 5 : ℝ) = 1 / 2 := by norm_num [sWeight]
  have w6 : (sWeight 6 : ℝ) = 1 / 2 := by norm_num [sWeight]
  simp only [w1, w2, w3, w4, w5, w6]
  ring

/-! ### the bounds at one grid point -/

theorem kr_le_kv_pt (c s : Int → Int → ℝ) (hc : (toMat c)ᵀ = toMat c) (hpd : PosDef6 c)
    (hinv : toMat c * toMat s = 1) :
    0 < bulkReussPt (s 1 1) (s 2 2) (s 3 3) (s 1 2) (s 2 3) (s 1 3) ∧
    bulkReussPt (s 1 1) (s 2 2) (s 3 3) (s 1 2) (s 2 3) (s 1 3)
      ≤ bulkVoigtPt (c 1 1) (c 2 2) (c 3 3) (c 1 2) (c 2 3) (c 1 3) := by
  obtain ⟨hX, hY, h9⟩ := bulk_cs c s hc hpd hinv
  have hs := inv_symm _ _ hc hinv
  obtain ⟨c21, c31, c32⟩ := toMat_symm_entries c hc
  obtain ⟨s21, s31, s32⟩ := toMat_symm_entries s hs
  rw [quad_uH, c21, c31, c32] at hX h9
  rw [quad_uH, s21, s31, s32] at hY h9
  have hY' : 0 < s 1 1 + s 2 2 + s 3 3 + 2 * (s 1 2 + s 2 3 + s 1 3) := by linarith
  simp only [bulkReussPt, bulkVoigtPt, nat_real]
  push_cast
  refine ⟨by positivity, ?_⟩
  rw [div_le_div_iff₀ hY' (by norm_num)]
  nlinarith [h9]

theorem gr_le_gv_pt (c s : Int → Int → ℝ) (hc : (toMat c)ᵀ = toMat c) (hpd : PosDef6 c)
    (hinv : toMat c * toMat s = 1) :
    0 < shearReussPt (s 1 1) (s 2 2) (s 3 3) (s 1 2) (s 2 3) (s 1 3) (s 4 4) (s 5 5) (s 6 6) ∧
    shearReussPt (s 1 1) (s 2 2) (s 3 3) (s 1 2) (s 2 3) (s 1 3) (s 4 4) (s 5 5) (s 6 6)
      ≤ shearVoigtPt (c 1 1) (c 2 2) (c 3 3) (c 1 2) (c 2 3) (c 1 3) (c 4 4) (c 5 5) (c 6 6) := by
  obtain ⟨hX, hY, h25⟩ := shear_cs c s hc hpd hinv
  have hs := inv_symm _ _ hc hinv
  obtain ⟨c21, c31, c32⟩ := toMat_symm_entries c hc
  obtain ⟨s21, s31, s32⟩ := toMat_symm_entries s hs
  simp only [quad_d1, quad_d2, quad_e4, quad_e5, quad_e6, quad_s4, quad_s5, quad_s6, c21, c31, c32,
    s21, s31, s32] at hX hY h25
  have hD : 0 < 4 * (s 1 1 + s 2 2 + s 3 3) - 4 * (s 1 2 + s 2 3 + s 1 3) + 3 * (s 4 4 + s 5 5 + s 6 6) := by
    linarith
  simp only [shearReussPt, shearVoigtPt, nat_real]
  push_cast
  refine ⟨by positivity, ?_⟩
  rw [div_le_div_iff₀ hD (by norm_num)]
  nlinarith [h25]

/-- the mean of two numbers lies between them -/
theorem hill_between_pt (r vo : ℝ) (h : r ≤ vo) : r ≤ hillPt r vo ∧ hillPt r vo ≤ vo := by
  simp only [hillPt, nat_real]; push_cast
  constructor <;> linarith

/-! ### velocities at one grid point -/

theorem vs_sq_pt (G V f cm NA : ℝ) (hV : 0 < V) (hN : 0 < NA) (hm : 0 < cm) (hf : 0 ≤ f) (hG : 0 ≤ G) :
    cm / 1000 / (NA * V) * vsPt G V f (mass cm NA) ^ 2 = G * f := by
  have hmass : 0 < mass cm NA := by
    simp only [mass, nat_real]; push_cast; positivity
  simp only [vsPt, sqrt_real]
  rw [Real.sq_sqrt (by positivity)]
  simp only [mass, nat_real]; push_cast
  field_simp

theorem vp_sq_pt (K G V f cm NA : ℝ) (hV : 0 < V) (hN : 0 < NA) (hm : 0 < cm) (hf : 0 ≤ f)
    (hKG : 0 ≤ K + 4 / 3 * G) :
    cm / 1000 / (NA * V) * vpPt K G V f (mass cm NA) ^ 2 = (K + 4 * G / 3) * f := by
  have hmass : 0 < mass cm NA := by
    simp only [mass, nat_real]; push_cast; positivity
  simp only [vpPt, sqrt_real, nat_real]
  push_cast
  rw [Real.sq_sqrt (by positivity)]
  simp only [mass, nat_real]; push_cast
  field_simp

/-! ### vocabulary of the C07 statements -/

/-- `modulus_keys`: distinct canonical keys ⊇ the nine orthotropic ones -/
abbrev Keys (inp : Inputs ℝ) : Prop := ValidKeys (inp.modAd.map (·.1))

/-- the assembled 6×6 stiffness at a grid point (1-based Voigt indices) -/
noncomputable abbrev Cmat (inp : Inputs ℝ) (t v : Nat) : Int → Int → ℝ := assembleEntry (kvAt inp.modAd t v)

/-- the full fourth-rank stiffness / compliance at a grid point -/
noncomputable abbrev Ctensor (inp : Inputs ℝ) (t v : Nat) : Int → Int → Int → Int → ℝ :=
  tensorOf (kvAt inp.modAd t v)
noncomputable abbrev Stensor (S : Nat → Nat → Int → Int → ℝ) (t v : Nat) : Int → Int → Int → Int → ℝ :=
  complTensorOf (S t v)


/-- the hypotheses at one grid point: symmetric-positive-definite assembled stiffness and `S` its inverse -/
structure SPDPoint (inp : Inputs ℝ) (S : Nat → Nat → Int → Int → ℝ) (t v : Nat) : Prop where
  pd : PosDef6 (Cmat inp t v)
  inv : toMat (Cmat inp t v) * toMat (S t v) = 1

theorem Cmat_eq (inp : Inputs ℝ) (hk : Keys inp) (t v : Nat) (i j : Int) (hij : (i, j) ∈ allPairs) :
    Cmat inp t v i j = val (kvAt inp.modAd t v) (canon (i, j)) ∧ Cmat inp t v i j = Cmat inp t v j i := by
  have hc : ∀ k ∈ (kvAt inp.modAd t v).map (·.1), ∃ p ∈ keys21, k = keyOfVoigt p := by
    rw [map_fst_kvAt]; exact hk.canon
  have hn : ((kvAt inp.modAd t v).map (·.1)).Nodup := by rw [map_fst_kvAt]; exact hk.nodup
  exact ⟨assembleEntry_eq _ i j hij hc hn, assembleEntry_symm _ i j hij hc hn⟩

theorem Cmat_symm (inp : Inputs ℝ) (hk : Keys inp) (t v : Nat) : (toMat (Cmat inp t v))ᵀ = toMat (Cmat inp t v) :=
  toMat_symm _ (fun i j hij => (Cmat_eq inp hk t v i j hij).2)

theorem Cmat_cv (inp : Inputs ℝ) (hk : Keys inp) (t v : Nat) (p : Int × Int) (hp : p ∈ keys21) :
    Cmat inp t v p.1 p.2 = cv inp.modAd t v p.1 p.2 := by
  have h := keys21_sub p hp
  rw [(Cmat_eq inp hk t v p.1 p.2 h.1).1]
  simp [cv, canon, min_eq_left h.2, max_eq_right h.2]

/-! ### helpers for the concrete instances (non-vacuity examples, the witness of the known finding) -/

theorem sq_sum_pos (x : Fin 6 → ℝ) (hx : x ≠ 0) :
    0 < x 0 ^ 2 + x 1 ^ 2 + x 2 ^ 2 + x 3 ^ 2 + x 4 ^ 2 + x 5 ^ 2 := by
  by_contra h
  rw [not_lt] at h
  apply hx
  have h0 : x 0 = 0 := by nlinarith [sq_nonneg (x 0), sq_nonneg (x 1), sq_nonneg (x 2), sq_nonneg (x 3), sq_nonneg (x 4), sq_nonneg (x 5)]
  have h1 : x 1 = 0 := by nlinarith [sq_nonneg (x 0), sq_nonneg (x 1), sq_nonneg (x 2), sq_nonneg (x 3), sq_nonneg (x 4), sq_nonneg (x 5)]
  have h2 : x 2 = 0 := by nlinarith [sq_nonneg (x 0), sq_nonneg (x 1), sq_nonneg (x 2), sq_nonneg (x 3), sq_nonneg (x 4), sq_nonneg (x 5)]
  have h3 : x 3 = 0 := by nlinarith [sq_nonneg (x 0), sq_nonneg (x 1), sq_nonneg (x 2), sq_nonneg (x 3), sq_nonneg (x 4), sq_nonneg (x 5)]
  have h4 : x 4 = 0 := by nlinarith [sq_nonneg (x 0), sq_nonneg (x 1), sq_nonneg (x 2), sq_nonneg (x 3), sq_nonneg (x 4), sq_nonneg (x 5)]
  have h5 : x 5 = 0 := by nlinarith [sq_nonneg (x 0), sq_nonneg (x 1), sq_nonneg (x 2), sq_nonneg (x 3), sq_nonneg (x 4), sq_nonneg (x 5)]
  funext a
  fin_cases a <;> simp [h0, h1, h2, h3, h4, h5]

theorem toMat_congr (f g : Int → Int → ℝ) (h : ∀ i j, (i, j) ∈ allPairs → f i j = g i j) :
    toMat f = toMat g := by
  ext a b
  simp only [toMat, Matrix.of_apply]
  exact h _ _ (ix_mem a b)

end Cij.VRH
