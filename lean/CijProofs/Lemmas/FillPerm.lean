/-
  Helper lemmas for C09's `column_order_case_irrelevant` (no property statements here).

  Part 1 (linear algebra):  the model's `lstsq` (minimum-norm least squares, `x = Aᵀ z`, `(AAᵀ)² z = AAᵀ b`, result
  checked) only depends on the MULTISET of (row, right-hand side) pairs — in the determined AND in the rank-deficient
  branch: a vector of the row space that satisfies the normal equations is unique (`rowspace_normalEq_unique`), the
  elimination `solveAny` finds a solution whenever one exists (`solveAny_complete`), and a solution for one order of
  the equations is turned into one for any other order (`exists_coeffs_perm`).  Hence `lstsq_perm`: same outcome
  (also the same `none` = `Err.solver`) and the same vector.

  Part 2 (bookkeeping): closed form of the write-back/drop loop (`finish_closed`), recognition as a per-column map.
-/
import Mathlib.Data.List.Induction
import Mathlib.Data.List.Forall2
import CijProofs.Lemmas.FillIdem
set_option linter.unusedSectionVars false
namespace Cij.Fill
variable {α : Type} [Field α] [LinearOrder α] [IsStrictOrderedRing α]

/-! ### exactly `n` entries -/

/-- `(List.range n).map fun j => y.getD j 0` — the last step of `lstsq` -/
def padTo (n : Nat) (y : List α) : List α := (List.range n).map fun j => y.getD j 0

theorem length_padTo (n : Nat) (y : List α) : (padTo n y).length = n := by simp [padTo]

theorem padTo_succ (n : Nat) (y : List α) : padTo (n + 1) y = y.headD 0 :: padTo n y.tail := by
  unfold padTo
  rw [List.range_succ_eq_map, List.map_cons, List.map_map]
  congr 1
  · cases y <;> simp
  · apply List.map_congr_left
    intro j _
    cases y <;> simp

/-- a vector with at most `n` entries does not see the padding/truncation -/
theorem dot_padTo : ∀ (n : Nat) (d y : List α), d.length ≤ n → dot d (padTo n y) = dot d y := by
  intro n
  induction n with
  | zero => intro d y hd; have : d = [] := List.length_eq_zero_iff.mp (Nat.le_zero.mp hd); subst this; simp
  | succ n ih =>
    intro d y hd
    cases d with
    | nil => simp
    | cons a d =>
      have hd' : d.length ≤ n := by simpa using hd
      rw [padTo_succ]
      cases y with
      | nil => simp [ih d [] hd']
      | cons b y => simp [ih d y hd']

theorem allZero_iff_getD (l : List α) : (∀ e ∈ l, e = 0) ↔ ∀ j, l.getD j 0 = 0 := by
  constructor
  · intro h j
    by_cases hj : j < l.length
    · rw [getD_of_lt _ _ _ hj]; exact h _ (List.getElem_mem hj)
    · exact getD_of_ge _ _ _ (Nat.le_of_not_lt hj)
  · intro h e he
    obtain ⟨j, hj, rfl⟩ := List.getElem_of_mem he
    rw [← getD_of_lt _ _ 0 hj]; exact h j

theorem getD_tmulVec (A : List (List α)) (r : List α) (j : Nat) :
    (tmulVec A r).getD j 0 = ((List.zip A r).map fun p => p.2 * p.1.getD j 0).sum := by
  induction A generalizing r with
  | nil => simp [tmulVec]
  | cons a A ih =>
    cases r with
    | nil => simp [tmulVec]
    | cons ri r =>
      simp only [tmulVec, List.zip_cons_cons, List.map_cons, List.sum_cons]
      rw [getD_axpy, ih r, add_comm]

theorem zip_residualVec (A : List (List α)) (b x : List α) :
    List.zip A (residualVec A b x) = (List.zip A b).map fun p => (p.1, dot p.1 x - p.2) := by
  induction A generalizing b with
  | nil => simp [residualVec]
  | cons a A ih =>
    cases b with
    | nil => simp [residualVec]
    | cons β b =>
      have := ih b
      simp only [residualVec] at this
      simp [residualVec, this]

/-- the model's check as perm-invariant sums -/
theorem normalEqHold_iff (A : List (List α)) (b x : List α) :
    normalEqHold A b x = true ↔
      ∀ j, ((List.zip A b).map fun p => (dot p.1 x - p.2) * p.1.getD j 0).sum = 0 := by
  have h1 : normalEqHold A b x = true ↔ ∀ e ∈ tmulVec A (residualVec A b x), e = 0 := by
    simp [normalEqHold]
  rw [h1, allZero_iff_getD]
  constructor
  · intro h j
    have := h j
    rw [getD_tmulVec, zip_residualVec, List.map_map] at this
    exact this
  · intro h j
    rw [getD_tmulVec, zip_residualVec, List.map_map]
    exact h j

theorem normalEqHold_perm {A A' : List (List α)} {b b' x : List α} (hp : (List.zip A b).Perm (List.zip A' b'))
    (h : normalEqHold A b x = true) : normalEqHold A' b' x = true := by
  rw [normalEqHold_iff] at h ⊢
  intro j
  exact (List.Perm.sum_eq (hp.map fun p => (dot p.1 x - p.2) * p.1.getD j 0)).symm.trans (h j)

theorem mem_of_zip_perm {A A' : List (List α)} {b b' : List α} (hp : (List.zip A b).Perm (List.zip A' b'))
    (hb' : b'.length = A'.length) : ∀ a ∈ A', a ∈ A := by
  intro a ha
  obtain ⟨i, hi, rfl⟩ := List.getElem_of_mem ha
  have hi' : i < (List.zip A' b').length := by simp [hb', hi]
  have hm : (A'[i], b'[i]'(by omega)) ∈ List.zip A' b' := by
    rw [List.mem_iff_getElem]; exact ⟨i, hi', by simp⟩
  exact (List.of_mem_zip (hp.symm.subset hm)).1

/-! ### a vector of the row space that satisfies the normal equations is unique -/

theorem rowspace_normalEq_unique {n : Nat} {A A' : List (List α)} {b b' z z' : List α}
    (hb : b.length = A.length) (hb' : b'.length = A'.length) (hp : (List.zip A b).Perm (List.zip A' b'))
    (hx : normalEqHold A b (padTo n (tmulVec A z)) = true)
    (hx' : normalEqHold A' b' (padTo n (tmulVec A' z')) = true) :
    padTo n (tmulVec A z) = padTo n (tmulVec A' z') := by
  set x := padTo n (tmulVec A z) with hxd
  set x' := padTo n (tmulVec A' z') with hxd'
  have hxl : x.length = n := length_padTo _ _
  have hxl' : x'.length = n := length_padTo _ _
  have wx : WeakNE A b x := normalEq_weak hx
  have wx' : WeakNE A b x' := weakNE_perm hp.symm (normalEq_weak hx')
  have e1 := sumSq_residual_expand A b x x' hb
  have e2 := sumSq_residual_expand A b x' x hb
  rw [wx (vsub x' x)] at e1; rw [wx' (vsub x x')] at e2
  have n1 := sumSq_nonneg (A.map fun a => dot a (vsub x' x))
  have n2 := sumSq_nonneg (A.map fun a => dot a (vsub x x'))
  have hz : sumSq (A.map fun a => dot a (vsub x' x)) = 0 := by linarith
  have hAd : ∀ r ∈ A, dot r (vsub x' x) = 0 := fun r hr => sumSq_eq_zero hz _ (List.mem_map_of_mem hr)
  have hlen : (vsub x' x).length = n := by simp [vsub, length_axpy, hxl, hxl']
  -- d ⊥ row space
  have hd1 : dot x (vsub x' x) = 0 := by
    rw [dot_comm, hxd, dot_padTo n _ _ (le_of_eq hlen), dot_comm, dot_tmulVec]
    exact dot_all_zero _ _ (by
      intro e he
      obtain ⟨a, ha, rfl⟩ := List.mem_map.mp he
      exact hAd a ha)
  have hd2 : dot x' (vsub x' x) = 0 := by
    rw [dot_comm, hxd', dot_padTo n _ _ (le_of_eq hlen), dot_comm, dot_tmulVec]
    exact dot_all_zero _ _ (by
      intro e he
      obtain ⟨a, ha, rfl⟩ := List.mem_map.mp he
      exact hAd a (mem_of_zip_perm hp hb' a ha))
  have hss : sumSq (vsub x' x) = 0 := by
    unfold sumSq
    rw [dot_comm, dot_vsub, dot_comm, hd2, dot_comm, hd1]; ring
  have hd := sumSq_eq_zero hss
  apply List.ext_getElem (by rw [hxl, hxl'])
  intro i h1 h2
  have hi : i < (vsub x' x).length := by rw [hlen, ← hxl]; exact h1
  have := hd _ (List.getElem_mem hi)
  have g := getD_axpy (-1 : α) x x' i
  rw [← vsub, getD_of_lt _ _ _ hi, this, getD_of_lt _ _ _ h1, getD_of_lt _ _ _ h2] at g
  linarith

/-! ### `solveAny` finds a solution whenever there is one -/

theorem solveAny_length : ∀ (n : Nat) (rows : List (List α × α)), (solveAny n rows).length = n := by
  intro n
  induction n with
  | zero => intro rows; simp [solveAny]
  | succ n ih =>
    intro rows
    unfold solveAny
    split
    · simp [ih]
    · simp [ih]

theorem solveAny_complete : ∀ (n : Nat) (rows : List (List α × α)),
    (∃ z0 : List α, z0.length = n ∧ ∀ p ∈ rows, dot p.1 z0 = p.2) →
    ∀ p ∈ rows, dot p.1 (solveAny n rows) = p.2 := by
  intro n
  induction n with
  | zero =>
    rintro rows ⟨z0, hz0, h0⟩ p hp
    have : z0 = [] := List.length_eq_zero_iff.mp hz0
    subst this
    simpa [solveAny] using h0 p hp
  | succ n ih =>
    rintro rows ⟨z0, hz0, h0⟩ q hq
    cases z0 with
    | nil => simp at hz0
    | cons v0 w0 =>
    have hw0 : w0.length = n := by simpa using hz0
    unfold solveAny
    split
    · rename_i hfind
      have hq0 : head0 q.1 = 0 := by
        have := List.find?_eq_none.mp hfind q hq
        simpa using this
      have hall : ∀ p ∈ rows.map (fun r => (r.1.tail, r.2)), dot p.1 w0 = p.2 := by
        intro p hp
        obtain ⟨s, hs, rfl⟩ := List.mem_map.mp hp
        have h1 := h0 s hs
        have hs0 : head0 s.1 = 0 := by
          have := List.find?_eq_none.mp hfind s hs
          simpa using this
        rw [dot_head_tail, hs0] at h1
        simpa using h1
      have := ih _ ⟨w0, hw0, hall⟩ _ (List.mem_map_of_mem (f := fun r : List α × α => (r.1.tail, r.2)) hq)
      rw [dot_head_tail, hq0]
      simpa using this
    · rename_i p hfind
      have hp : head0 p.1 ≠ 0 := by simpa using List.find?_some hfind
      have hpm : p ∈ rows := List.mem_of_find?_eq_some hfind
      have hpz := h0 p hpm
      rw [dot_head_tail] at hpz
      have hall : ∀ r ∈ rows.map (fun s : List α × α =>
            (axpy (-(head0 s.1 / head0 p.1)) p.1.tail s.1.tail, s.2 + -(head0 s.1 / head0 p.1) * p.2)),
          dot r.1 w0 = r.2 := by
        intro r hr
        obtain ⟨s, hs, rfl⟩ := List.mem_map.mp hr
        have hsz := h0 s hs
        rw [dot_head_tail] at hsz
        simp only
        rw [dot_axpy]
        field_simp
        linear_combination (head0 p.1) * hsz - (head0 s.1) * hpz
      have hsol := ih _ ⟨w0, hw0, hall⟩ _ (List.mem_map_of_mem (f := fun s : List α × α =>
            (axpy (-(head0 s.1 / head0 p.1)) p.1.tail s.1.tail, s.2 + -(head0 s.1 / head0 p.1) * p.2)) hq)
      simp only at hsol ⊢
      generalize solveAny n _ = w at hsol ⊢
      rw [dot_axpy] at hsol
      rw [dot_head_tail]
      linear_combination hsol

/-! ### what the `(AAᵀ)² z = AAᵀ b` system says -/

/-- `A Aᵀ` -/
def gram (A : List (List α)) : List (List α) := A.map fun r => A.map fun r' => dot r r'

/-- the system `lstsq` hands to `solveAny` -/
def sysOf (A : List (List α)) (b : List α) : List (List α × α) :=
  (gram A).map fun g => ((gram A).map fun g' => dot g g', dot g b)

theorem lstsq_eq (n : Nat) (A : List (List α)) (b : List α) :
    lstsq n A b =
      if normalEqHold A b (padTo n (tmulVec A (solveAny A.length (sysOf A b)))) = true
      then some (padTo n (tmulVec A (solveAny A.length (sysOf A b)))) else none := rfl

theorem residualVec_eq_vsub (A : List (List α)) (b y : List α) (hb : b.length = A.length) :
    residualVec A b y = vsub (A.map fun a => dot a y) b := by
  induction A generalizing b with
  | nil =>
    have : b = [] := List.length_eq_zero_iff.mp (by simpa using hb)
    subst this; simp [residualVec, vsub, axpy]
  | cons a A ih =>
    cases b with
    | nil => simp at hb
    | cons β b =>
      have := ih b (by simpa using hb)
      simp only [residualVec, vsub] at this ⊢
      simp [axpy, this]; ring

theorem gram_row (A : List (List α)) (a : List α) :
    (gram A).map (fun g' => dot (A.map fun r' => dot a r') g') =
      A.map fun r => dot r (tmulVec A (A.map fun r' => dot a r')) := by
  unfold gram
  rw [List.map_map]
  apply List.map_congr_left
  intro r _
  simp only [Function.comp]
  rw [dot_comm r, dot_tmulVec]
  congr 1
  apply List.map_congr_left
  intro r' _
  exact dot_comm _ _

/-- equation `a` of the system, at `z`:  `a · Aᵀ(A y − b) = 0` with `y = Aᵀ z` -/
theorem sys_equation (A : List (List α)) (b z a : List α) (hb : b.length = A.length) :
    dot ((gram A).map fun g' => dot (A.map fun r' => dot a r') g') z - dot (A.map fun r' => dot a r') b
      = dot a (tmulVec A (residualVec A b (tmulVec A z))) := by
  rw [gram_row, residualVec_eq_vsub A b _ hb]
  set g := A.map fun r' => dot a r' with hg
  have e1 : dot (A.map fun r => dot r (tmulVec A g)) z = dot g (A.map fun r => dot r (tmulVec A z)) := by
    rw [dot_comm, ← dot_tmulVec, dot_comm, dot_tmulVec]
  have e2 : dot a (tmulVec A (vsub (A.map fun r => dot r (tmulVec A z)) b))
      = dot g (vsub (A.map fun r => dot r (tmulVec A z)) b) := by
    rw [dot_comm, dot_tmulVec, dot_comm, hg]
    congr 1
    apply List.map_congr_left
    intro r' _
    exact dot_comm _ _
  rw [e1, e2, dot_vsub]

theorem sys_solved_iff (A : List (List α)) (b z : List α) (hb : b.length = A.length) :
    (∀ p ∈ sysOf A b, dot p.1 z = p.2) ↔
      ∀ a ∈ A, dot a (tmulVec A (residualVec A b (tmulVec A z))) = 0 := by
  unfold sysOf gram
  simp only [List.mem_map, forall_exists_index, and_imp, forall_apply_eq_imp_iff₂]
  constructor
  · intro h a ha
    rw [← sys_equation A b z a hb]
    have := h a ha
    unfold gram
    rw [this]; ring
  · intro h a ha
    have := sys_equation A b z a hb
    rw [h a ha] at this
    unfold gram at this
    linear_combination this

theorem residualVec_padTo (n : Nat) (A : List (List α)) (b y : List α) (hrows : ∀ a ∈ A, a.length ≤ n) :
    residualVec A b (padTo n y) = residualVec A b y := by
  induction A generalizing b with
  | nil => simp [residualVec]
  | cons a A ih =>
    cases b with
    | nil => simp [residualVec]
    | cons β b =>
      have := ih b (fun a' ha' => hrows a' (by simp [ha']))
      simp only [residualVec] at this
      simp [residualVec, this, dot_padTo n a y (hrows a (by simp))]

theorem normalEqHold_padTo (n : Nat) (A : List (List α)) (b y : List α) (hrows : ∀ a ∈ A, a.length ≤ n) :
    normalEqHold A b (padTo n y) = normalEqHold A b y := by
  unfold normalEqHold
  rw [residualVec_padTo n A b y hrows]

/-- a solution of the system gives a vector that passes the check -/
theorem normalEq_of_sys_solved (A : List (List α)) (b z : List α) (hb : b.length = A.length)
    (h : ∀ p ∈ sysOf A b, dot p.1 z = p.2) : normalEqHold A b (tmulVec A z) = true := by
  have h' := (sys_solved_iff A b z hb).mp h
  set w := tmulVec A (residualVec A b (tmulVec A z)) with hw
  have hss : sumSq w = 0 := by
    unfold sumSq
    conv_lhs => rw [hw, dot_tmulVec]
    apply dot_all_zero
    intro e he
    obtain ⟨a, ha, rfl⟩ := List.mem_map.mp he
    rw [← hw]; exact h' a ha
  have := sumSq_eq_zero hss
  simp only [normalEqHold, List.all_eq_true, decide_eq_true_eq]
  exact this

/-- `lstsq` succeeds as soon as SOME coefficient vector `z0` yields a vector that passes the check -/
theorem lstsq_isSome_of_exists {n : Nat} {A : List (List α)} {b : List α} (hb : b.length = A.length)
    (hrows : ∀ a ∈ A, a.length ≤ n) (z0 : List α) (hz0 : z0.length = A.length)
    (h0 : normalEqHold A b (padTo n (tmulVec A z0)) = true) :
    ∃ z, z.length = A.length ∧ lstsq n A b = some (padTo n (tmulVec A z)) ∧
      normalEqHold A b (padTo n (tmulVec A z)) = true := by
  rw [normalEqHold_padTo n A b _ hrows] at h0
  have hsolv : ∀ p ∈ sysOf A b, dot p.1 z0 = p.2 := by
    rw [sys_solved_iff A b z0 hb]
    intro a _
    apply dot_all_zero
    simpa [normalEqHold] using h0
  have hlen : (sysOf A b).length = A.length := by simp [sysOf, gram]
  have hsol := solveAny_complete A.length (sysOf A b) ⟨z0, hz0, hsolv⟩
  have hne := normalEq_of_sys_solved A b _ hb hsol
  rw [← normalEqHold_padTo n A b _ hrows] at hne
  refine ⟨solveAny A.length (sysOf A b), solveAny_length _ _, ?_, hne⟩
  rw [lstsq_eq, if_pos hne]

theorem lstsq_some_form {n : Nat} {A : List (List α)} {b x : List α} (h : lstsq n A b = some x) :
    ∃ z, z.length = A.length ∧ x = padTo n (tmulVec A z) ∧ normalEqHold A b x = true := by
  rw [lstsq_eq] at h
  split at h
  · rename_i hne
    injection h with h
    exact ⟨_, solveAny_length _ _, h.symm, h ▸ hne⟩
  · simp at h

/-! ### transporting the coefficients along a permutation of the equations -/

theorem perm_lift {β γ : Type} (f : β → γ) : ∀ {m m' : List γ}, m.Perm m' → ∀ l : List β, l.map f = m →
    ∃ l' : List β, l.Perm l' ∧ l'.map f = m' := by
  intro m m' hp
  induction hp with
  | nil => intro l hl; exact ⟨l, List.Perm.refl _, hl⟩
  | cons x _ ih =>
    intro l hl
    cases l with
    | nil => simp at hl
    | cons a l =>
      simp only [List.map_cons, List.cons.injEq] at hl
      obtain ⟨l', h1, h2⟩ := ih l hl.2
      exact ⟨a :: l', h1.cons a, by simp [hl.1, h2]⟩
  | swap x y m =>
    intro l hl
    cases l with
    | nil => simp at hl
    | cons a l =>
      cases l with
      | nil => simp at hl
      | cons c l =>
        simp only [List.map_cons, List.cons.injEq] at hl
        exact ⟨c :: a :: l, List.Perm.swap c a l, by simp [hl.1, hl.2.1, hl.2.2]⟩
  | trans _ _ ih1 ih2 =>
    intro l hl
    obtain ⟨l1, h1, h2⟩ := ih1 l hl
    obtain ⟨l2, h3, h4⟩ := ih2 l1 h2
    exact ⟨l2, h1.trans h3, h4⟩

theorem zip_map_fst_snd {β γ : Type} : ∀ (l : List β) (m : List γ), l.length = m.length →
    (List.zip l m).map Prod.fst = l ∧ (List.zip l m).map Prod.snd = m
  | [], [], _ => by simp
  | [], _ :: _, h => by simp at h
  | _ :: _, [], h => by simp at h
  | a :: l, c :: m, h => by
    obtain ⟨h1, h2⟩ := zip_map_fst_snd l m (by simpa using h)
    simp [h1, h2]

/-- coefficients `z` for the equations in one order ⇒ coefficients `z'` for another order with the same `Aᵀ z` -/
theorem exists_coeffs_perm {A A' : List (List α)} {b b' : List α} (hb : b.length = A.length)
    (hb' : b'.length = A'.length) (hp : (List.zip A b).Perm (List.zip A' b')) (z : List α)
    (hz : z.length = A.length) :
    ∃ z', z'.length = A'.length ∧ ∀ j, (tmulVec A' z').getD j 0 = (tmulVec A z).getD j 0 := by
  -- triples (row, rhs, coefficient)
  set T := List.zip (List.zip A b) z with hT
  have hTl : (List.zip A b).length = z.length := by simp [hb, hz]
  obtain ⟨hT1, hT2⟩ := zip_map_fst_snd (List.zip A b) z hTl
  obtain ⟨T', hperm, hmap⟩ := perm_lift Prod.fst hp T hT1
  obtain ⟨hA1, _⟩ := zip_map_fst_snd A b hb.symm
  obtain ⟨hA1', _⟩ := zip_map_fst_snd A' b' hb'.symm
  refine ⟨T'.map Prod.snd, ?_, ?_⟩
  · have : T'.length = (List.zip A' b').length := by rw [← hmap]; simp
    simp [this, hb']
  · intro j
    rw [getD_tmulVec, getD_tmulVec]
    have eA' : A' = T'.map (fun t => t.1.1) := by
      rw [← hA1', ← hmap, List.map_map]; rfl
    have eA : A = T.map (fun t => t.1.1) := by
      conv_lhs => rw [← hA1, ← hT1, List.map_map]
      rfl
    have ez : z = T.map Prod.snd := hT2.symm
    have e1 : List.zip A' (T'.map Prod.snd) = T'.map (fun t => (t.1.1, t.2)) := by
      conv_lhs => rw [eA']
      rw [List.zip_map']
    have e2 : List.zip A z = T.map (fun t => (t.1.1, t.2)) := by
      conv_lhs => rw [eA, ez]
      rw [List.zip_map']
    rw [e1, e2, List.map_map, List.map_map]
    exact ((hperm.symm.map _).sum_eq)

/-- **`lstsq` only depends on the multiset of equations** — success is transported, and the vector is the same
    (determined or rank-deficient: the minimum-norm solution) -/
theorem lstsq_perm_some {n : Nat} {A A' : List (List α)} {b b' x : List α} (hb : b.length = A.length)
    (hb' : b'.length = A'.length) (hp : (List.zip A b).Perm (List.zip A' b'))
    (hrows : ∀ a ∈ A, a.length ≤ n) (h : lstsq n A b = some x) : lstsq n A' b' = some x := by
  obtain ⟨z, hz, hxz, hne⟩ := lstsq_some_form h
  obtain ⟨z0, hz0, hsame⟩ := exists_coeffs_perm hb hb' hp z hz
  have hpad : padTo n (tmulVec A' z0) = padTo n (tmulVec A z) := by
    unfold padTo
    apply List.map_congr_left
    intro j _
    exact hsame j
  have hrows' : ∀ a ∈ A', a.length ≤ n := fun a ha => hrows a (mem_of_zip_perm hp hb' a ha)
  have h0 : normalEqHold A' b' (padTo n (tmulVec A' z0)) = true := by
    rw [hpad, ← hxz]; exact normalEqHold_perm hp hne
  obtain ⟨z', _, hres, hne'⟩ := lstsq_isSome_of_exists hb' hrows' z0 hz0 h0
  rw [hres, hxz]
  congr 1
  rw [hxz] at hne
  exact (rowspace_normalEq_unique hb hb' hp hne hne').symm

theorem lstsq_perm {n : Nat} {A A' : List (List α)} {b b' : List α} (hb : b.length = A.length)
    (hb' : b'.length = A'.length) (hp : (List.zip A b).Perm (List.zip A' b'))
    (hrows : ∀ a ∈ A, a.length ≤ n) : lstsq n A b = lstsq n A' b' := by
  cases h : lstsq n A b with
  | some x => exact (lstsq_perm_some hb hb' hp hrows h).symm
  | none =>
    cases h' : lstsq n A' b' with
    | none => rfl
    | some x' =>
      have hrows' : ∀ a ∈ A', a.length ≤ n := fun a ha => hrows a (mem_of_zip_perm hp hb' a ha)
      have := lstsq_perm_some hb' hb hp.symm hrows' h'
      rw [h] at this; exact absurd this (by simp)

/-- the sum of squared residuals only depends on the multiset of equations -/
theorem sumSq_residual_perm {A A' : List (List α)} {b b' : List α} (x : List α)
    (hp : (List.zip A b).Perm (List.zip A' b')) :
    sumSq (residualVec A b x) = sumSq (residualVec A' b' x) := by
  have key : ∀ (A : List (List α)) (b : List α),
      sumSq (residualVec A b x) = ((List.zip A b).map fun p => (dot p.1 x - p.2) * (dot p.1 x - p.2)).sum := by
    intro A
    induction A with
    | nil => intro b; simp [sumSq, residualVec]
    | cons a A ih =>
      intro b
      cases b with
      | nil => simp [sumSq, residualVec]
      | cons β b =>
        have := ih b
        simp only [sumSq, residualVec] at this
        simp [sumSq, residualVec, this]
  rw [key, key]
  exact (hp.map _).sum_eq


/-! ## Part 2: bookkeeping -/

/-! ### recognition is a per-column map of the lower-cased name -/

/-- the symbol a column name stands for (only the lower-cased name is looked at) -/
def symIdx (name : String) : Option Nat := symbolNames.idxOf? name.toLower

/-- modulus-like but not one of the 21 symbols: `list.index` raises ValueError -/
def badName (name : String) : Bool := matchesCdd name.toLower.toList && (symIdx name).isNone

theorem idxOf?_matches {s : String} {i : Nat} (h : symbolNames.idxOf? s = some i) : matchesCdd s.toList = true := by
  obtain ⟨hlt, hget, _⟩ := List.idxOf?_eq_some_iff.1 h
  exact symbolNames_match s (hget ▸ List.getElem_mem hlt)

theorem recognise_eq (names : List String) :
    recognise names = if names.any badName then .error .valueError else .ok (names.map symIdx) := by
  unfold recognise
  induction names with
  | nil => simp [recogniseLower]
  | cons s rest ih =>
    rw [List.map_cons, recogniseLower, ih]
    cases hm : matchesCdd s.toLower.toList with
    | true =>
      cases hi : symbolNames.idxOf? s.toLower with
      | none => simp [badName, symIdx, hm, hi]
      | some i =>
        have hb : badName s = false := by simp [badName, symIdx, hi]
        simp only [if_true, List.any_cons, hb, Bool.false_or, List.map_cons]
        split <;> simp [Except.map, symIdx, hi]
    | false =>
      have hi : symbolNames.idxOf? s.toLower = none := by
        cases hi : symbolNames.idxOf? s.toLower with
        | none => rfl
        | some i => rw [idxOf?_matches hi] at hm; exact absurd hm (by simp)
      have hb : badName s = false := by simp [badName, hm]
      simp only [Bool.false_eq_true, if_false, List.any_cons, hb, Bool.false_or, List.map_cons]
      split <;> simp [Except.map, symIdx, hi]

/-- the supplied components: (symbol index, value column), in column order -/
def selPairs (t : Table α) : List (Nat × List α) := t.filterMap fun c => (symIdx c.1).map fun i => (i, c.2)

theorem selIdxOf_eq (t : Table α) : selIdxOf ((t.map (·.1)).map symIdx) = (selPairs t).map Prod.fst := by
  unfold selIdxOf selPairs
  rw [List.map_map, List.filterMap_map, List.map_filterMap]
  apply List.filterMap_congr
  intro c _
  simp only [Function.comp, id]
  cases symIdx c.1 <;> rfl

theorem selColsOf_eq (t : Table α) : selColsOf ((t.map (·.1)).map symIdx) t = (selPairs t).map Prod.snd := by
  induction t with
  | nil => simp [selColsOf, selPairs]
  | cons c t ih =>
    simp [selColsOf, selPairs] at ih ⊢
    cases h : symIdx c.1 <;> simp [h, ih]

/-- the stacked equations of volume row `k` as (row, right-hand side) pairs -/
theorem zip_stack (t : Table α) (rel : Rows) (k : Nat) :
    List.zip (stackA (α := α) ((selPairs t).map Prod.fst) rel) (stackB ((selPairs t).map Prod.snd) rel k)
      = (selPairs t).map (fun q => (selectorRow q.1, q.2.getD k 0)) ++
        rel.map (fun r => (castRow r, (Int.cast r.rhs : α) / (Int.cast (Int.ofNat r.den) : α))) := by
  unfold stackA stackB
  rw [List.zip_append (by simp), List.map_map, List.map_map, List.zip_map', List.zip_map']
  rfl

/-! ### two tables with the same columns: other order, other spelling -/

/-- same name up to letter case, same values -/
def SameCol (c c' : String × List α) : Prop := c.1.toLower = c'.1.toLower ∧ c.2 = c'.2

/-- column by column the same, names possibly re-cased -/
def Recased (t t' : Table α) : Prop := List.Forall₂ SameCol t t'

/-- `t'` = the columns of `t` in another order, names possibly re-cased -/
def Rearranged (t t' : Table α) : Prop := ∃ t'', Recased t t'' ∧ t''.Perm t'

theorem Recased.map_eq {β : Type} {f : String × List α → β} (hf : ∀ c c', SameCol c c' → f c = f c')
    {t t' : Table α} (h : Recased t t') : t.map f = t'.map f := by
  induction h with
  | nil => rfl
  | cons hc _ ih => simp [hf _ _ hc, ih]

theorem Rearranged.map_perm {β : Type} {f : String × List α → β} (hf : ∀ c c', SameCol c c' → f c = f c')
    {t t' : Table α} (h : Rearranged t t') : (t.map f).Perm (t'.map f) := by
  obtain ⟨t'', h1, h2⟩ := h
  rw [h1.map_eq hf]
  exact h2.map f

theorem Rearranged.refl (t : Table α) : Rearranged t t :=
  ⟨t, List.forall₂_same.2 (fun _ _ => ⟨rfl, rfl⟩), List.Perm.refl _⟩

theorem Rearranged.of_perm {t t' : Table α} (h : t.Perm t') : Rearranged t t' :=
  ⟨t, List.forall₂_same.2 (fun _ _ => ⟨rfl, rfl⟩), h⟩

theorem Rearranged.append_right {E E' : Table α} (h : Rearranged E E') (N : Table α) :
    Rearranged (E ++ N) (E' ++ N) := by
  obtain ⟨E'', h1, h2⟩ := h
  exact ⟨E'' ++ N, List.rel_append h1 (List.forall₂_same.2 (fun _ _ => ⟨rfl, rfl⟩)), h2.append_right N⟩

/-- as maps `lower-cased name ↦ values` the two tables are the same -/
theorem Rearranged.mem_iff {t t' : Table α} (h : Rearranged t t') (name : String) (vals : List α) :
    (∃ c ∈ t, c.1.toLower = name ∧ c.2 = vals) ↔ (∃ c' ∈ t', c'.1.toLower = name ∧ c'.2 = vals) := by
  have hp := h.map_perm (f := fun c => (c.1.toLower, c.2)) (fun c c' hc => by simp [hc.1, hc.2])
  have := hp.mem_iff (a := (name, vals))
  simp only [List.mem_map, Prod.mk.injEq] at this
  exact this

theorem symIdx_sameCol {c c' : String × List α} (h : SameCol c c') : symIdx c.1 = symIdx c'.1 := by
  simp [symIdx, h.1]

theorem Rearranged.selPairs_perm {t t' : Table α} (h : Rearranged t t') : (selPairs t).Perm (selPairs t') := by
  have hp := h.map_perm (f := fun c => (symIdx c.1).map fun i => (i, c.2))
    (fun c c' hc => by simp [symIdx_sameCol hc, hc.2])
  have := hp.filterMap id
  simpa [selPairs, List.filterMap_map] using this

theorem Rearranged.any_badName {t t' : Table α} (h : Rearranged t t') :
    (t.map (·.1)).any badName = (t'.map (·.1)).any badName := by
  have hp := h.map_perm (f := fun c => badName c.1) (fun c c' hc => by simp [badName, symIdx, hc.1])
  have := hp.any_eq (f := id)
  rw [List.any_map, List.any_map] at this
  rw [List.any_map, List.any_map]
  exact this

theorem Rearranged.any_lower {t t' : Table α} (h : Rearranged t t') (s : String) :
    t.any (fun c => c.1.toLower == s) = t'.any (fun c => c.1.toLower == s) := by
  have hp := h.map_perm (f := fun c => c.1.toLower == s) (fun c c' hc => by simp [hc.1])
  have := hp.any_eq (f := id)
  rw [List.any_map, List.any_map] at this
  exact this

theorem Rearranged.rect {t t' : Table α} (h : Rearranged t t') {n : Nat} (hr : ∀ c ∈ t, c.2.length = n) :
    ∀ c' ∈ t', c'.2.length = n := by
  have hp := h.map_perm (f := fun c => c.2) (fun c c' hc => hc.2)
  intro c' hc'
  have : c'.2 ∈ t.map (·.2) := hp.symm.subset (List.mem_map_of_mem hc')
  obtain ⟨c, hc, he⟩ := List.mem_map.1 this
  rw [← he]; exact hr c hc

theorem Rearranged.length_eq {t t' : Table α} (h : Rearranged t t') : t.length = t'.length := by
  obtain ⟨t'', h1, h2⟩ := h
  rw [h1.length_eq, h2.length_eq]

/-! ### closed form of the write-back loop and of the drop -/

/-- one write-back seen from one existing column -/
def upd1 (xs : List (List α)) (p : Nat × String) (c : String × List α) : String × List α :=
  if c.1.toLower == p.2 then (c.1, colOf xs p.1) else c

def updBy (xs : List (List α)) (l : List (Nat × String)) (c : String × List α) : String × List α :=
  l.foldl (fun c p => upd1 xs p c) c

def newBy (xs : List (List α)) (l : List (Nat × String)) (t : Table α) : Table α :=
  l.filterMap fun p => if t.any (fun c => c.1.toLower == p.2) then none else some (p.2, colOf xs p.1)

theorem upd1_fst (xs : List (List α)) (p : Nat × String) (c : String × List α) : (upd1 xs p c).1 = c.1 := by
  unfold upd1; split <;> rfl

theorem updBy_fst (xs : List (List α)) (l : List (Nat × String)) (c : String × List α) : (updBy xs l c).1 = c.1 := by
  induction l generalizing c with
  | nil => rfl
  | cons p l ih => simp only [updBy, List.foldl_cons] at ih ⊢; rw [ih, upd1_fst]

theorem updBy_snoc (xs : List (List α)) (l : List (Nat × String)) (p : Nat × String) (c : String × List α) :
    updBy xs (l ++ [p]) c = upd1 xs p (updBy xs l c) := by
  simp [updBy, List.foldl_append]

theorem foldl_writeBack_closed (xs : List (List α)) {t : Table α} (hnd : NoCaseDup t) (l : List (Nat × String)) :
    (∀ p ∈ l, p ∈ symPairs) → (l.map (·.2)).Nodup →
    l.foldl (fun acc p => writeBack acc p.2 (xs.map fun x => x.getD p.1 0)) t
      = t.map (updBy xs l) ++ newBy xs l t := by
  induction l using List.reverseRecOn with
  | nil =>
    intro _ _
    have : updBy xs [] = id := by funext c; rfl
    simp [this, newBy]
  | append_singleton l p ih =>
    intro hl hnodup
    have hl' : ∀ q ∈ l, q ∈ symPairs := fun q hq => hl q (List.mem_append_left _ hq)
    have hp : p ∈ symPairs := hl p (by simp)
    rw [List.map_append, List.nodup_append] at hnodup
    obtain ⟨hnd1, _, hdisj⟩ := hnodup
    have hpl : ∀ q ∈ l, q.2 ≠ p.2 := by
      intro q hq
      exact hdisj q.2 (List.mem_map_of_mem hq) p.2 (by simp)
    rw [List.foldl_append, List.foldl_cons, List.foldl_nil, ih hl' hnd1]
    have hnew : ∀ e ∈ newBy xs l t, e.1.toLower ≠ p.2 := by
      intro e he
      unfold newBy at he
      obtain ⟨q, hq, hqe⟩ := List.mem_filterMap.1 he
      split at hqe
      · simp at hqe
      · injection hqe with hqe
        rw [← hqe]
        simp only
        rw [symbols_lower q.2 (symPairs_names q (hl' q hq))]
        exact hpl q hq
    have hcol : (xs.map fun x => x.getD p.1 0) = colOf xs p.1 := rfl
    rw [hcol]
    unfold writeBack
    split
    · rename_i hit hfind
      have hh : hit.1.toLower = p.2 := by simpa using List.find?_some hfind
      have hhit := List.mem_of_find?_eq_some hfind
      obtain ⟨c1, hc1, hc1e⟩ : ∃ c1 ∈ t, hit.1 = c1.1 := by
        rcases List.mem_append.1 hhit with h | h
        · obtain ⟨c1, hc1, rfl⟩ := List.mem_map.1 h
          exact ⟨c1, hc1, updBy_fst xs l c1⟩
        · exact absurd hh (hnew hit h)
      have hc1l : c1.1.toLower = p.2 := by rw [← hc1e]; exact hh
      have key : ∀ c ∈ t, (c.1 == hit.1) = (c.1.toLower == p.2) := by
        intro c hc
        rw [Bool.eq_iff_iff]
        simp only [beq_iff_eq]
        constructor
        · intro h; rw [h]; exact hh
        · intro h; rw [hc1e]; exact hnd c hc c1 hc1 (by rw [h, hc1l])
      have hany : t.any (fun c => c.1.toLower == p.2) = true :=
        List.any_eq_true.2 ⟨c1, hc1, by simp [hc1l]⟩
      rw [List.map_append, List.map_map]
      congr 1
      · apply List.map_congr_left
        intro c hc
        simp only [Function.comp, updBy_snoc, upd1, updBy_fst, key c hc]
      · have h1 : (newBy xs l t).map (fun c => if c.1 == hit.1 then (c.1, colOf xs p.1) else c) = newBy xs l t := by
          conv_rhs => rw [← List.map_id (newBy xs l t)]
          apply List.map_congr_left
          intro e he
          have : ¬ (e.1 = hit.1) := fun h => hnew e he (by rw [h]; exact hh)
          simp [this]
        rw [h1]
        simp [newBy, List.filterMap_append, hany]
    · rename_i hnone
      have hno : ∀ c ∈ t, c.1.toLower ≠ p.2 := by
        intro c hc
        have := List.find?_eq_none.1 hnone (updBy xs l c) (List.mem_append_left _ (List.mem_map_of_mem hc))
        rw [updBy_fst] at this
        simpa using this
      have hany : t.any (fun c => c.1.toLower == p.2) = false := by
        rw [List.any_eq_false]
        intro c hc
        simpa using hno c hc
      have h1 : t.map (updBy xs (l ++ [p])) = t.map (updBy xs l) := by
        apply List.map_congr_left
        intro c hc
        rw [updBy_snoc, upd1, updBy_fst]
        have : ¬ (c.1.toLower = p.2) := hno c hc
        simp [this]
      rw [h1, List.append_assoc]
      simp [newBy, List.filterMap_append, hany]

theorem updBy_noop (xs : List (List α)) (l : List (Nat × String)) (c : String × List α)
    (h : ∀ q ∈ l, q.2 ≠ c.1.toLower) : updBy xs l c = c := by
  induction l with
  | nil => rfl
  | cons q l ih =>
    have hq : ¬ (c.1.toLower = q.2) := fun e => h q (by simp) e.symm
    have : upd1 xs q c = c := by simp [upd1, hq]
    simp only [updBy, List.foldl_cons, this]
    exact ih (fun q' hq' => h q' (by simp [hq']))

theorem updBy_hit (xs : List (List α)) (l : List (Nat × String)) (c : String × List α) (i : Nat)
    (hnd : (l.map (·.2)).Nodup) (hi : (i, c.1.toLower) ∈ l) : updBy xs l c = (c.1, colOf xs i) := by
  induction l with
  | nil => simp at hi
  | cons q l ih =>
    rw [List.map_cons, List.nodup_cons] at hnd
    rcases List.mem_cons.1 hi with hq | hi'
    · have : upd1 xs q c = (c.1, colOf xs i) := by simp [upd1, ← hq]
      simp only [updBy, List.foldl_cons, this]
      apply updBy_noop
      intro q' hq' e
      apply hnd.1
      rw [← hq]
      simp only
      exact e ▸ List.mem_map_of_mem hq'
    · have hq : ¬ (c.1.toLower = q.2) := by
        intro e
        apply hnd.1
        rw [← e]
        exact List.mem_map.2 ⟨_, hi', rfl⟩
      have : upd1 xs q c = c := by simp [upd1, hq]
      simp only [updBy, List.foldl_cons, this]
      exact ih hnd.2 hi'

/-- what the write-back does to an existing column: the values of a modulus column are replaced by the solved
    component, the name keeps its spelling; every other column is untouched -/
def updCol (xs : List (List α)) (c : String × List α) : String × List α :=
  match symIdx c.1 with
  | some i => (c.1, colOf xs i)
  | none => c

theorem updBy_symPairs (xs : List (List α)) (c : String × List α) : updBy xs symPairs c = updCol xs c := by
  unfold updCol
  cases h : symIdx c.1 with
  | some i => exact updBy_hit xs symPairs c i symPairs_names_nodup (idxOf?_symPairs h)
  | none =>
    apply updBy_noop
    intro q hq e
    have : c.1.toLower ∉ symbolNames := List.idxOf?_eq_none_iff.1 h
    exact this (e ▸ symPairs_names q hq)

/-- the drop test -/
def keepCol (P : Params α) (c : String × List α) : Bool :=
  !(matchesCdd c.1.toLower.toList && allClose0 P.dropAtol c.2)

/-- the input columns that survive, in input order, names as spelled, modulus values replaced by the solution -/
def existingPart (P : Params α) (xs : List (List α)) (t : Table α) : Table α :=
  (t.map (updCol xs)).filter (keepCol P)

/-- the appended columns: the symbols no input column stands for, lower-case, in symbol order, negligible ones dropped -/
def newPart (P : Params α) (xs : List (List α)) (t : Table α) : Table α :=
  (symPairs.filterMap fun p =>
    if t.any (fun c => c.1.toLower == p.2) then none else some (p.2, colOf xs p.1)).filter (keepCol P)

theorem finish_closed (P : Params α) (xs : List (List α)) {t : Table α} (hnd : NoCaseDup t) :
    finish P t xs = existingPart P xs t ++ newPart P xs t := by
  have h := foldl_writeBack_closed xs hnd symPairs (fun _ h => h) symPairs_names_nodup
  have hw : writeAll t xs = t.map (updBy xs symPairs) ++ newBy xs symPairs t := h
  rw [List.map_congr_left (fun c _ => updBy_symPairs xs c)] at hw
  unfold finish
  rw [hw, List.filter_append]
  rfl

theorem updCol_sameCol (xs : List (List α)) {c c' : String × List α} (h : SameCol c c') :
    SameCol (updCol xs c) (updCol xs c') := by
  unfold updCol
  rw [← symIdx_sameCol h]
  cases symIdx c.1 with
  | some i => exact ⟨h.1, rfl⟩
  | none => exact h

theorem keepCol_sameCol (P : Params α) {c c' : String × List α} (h : SameCol c c') : keepCol P c = keepCol P c' := by
  simp [keepCol, h.1, h.2]

theorem Recased.filter {p : String × List α → Bool} (hp : ∀ c c', SameCol c c' → p c = p c') {t t' : Table α}
    (h : Recased t t') : Recased (t.filter p) (t'.filter p) := by
  induction h with
  | nil => exact List.Forall₂.nil
  | @cons a b l1 l2 hc _ ih =>
    simp only [List.filter_cons, ← hp a b hc]
    split
    · exact List.Forall₂.cons hc ih
    · exact ih

theorem Recased.map {f : String × List α → String × List α} (hf : ∀ c c', SameCol c c' → SameCol (f c) (f c'))
    {t t' : Table α} (h : Recased t t') : Recased (t.map f) (t'.map f) := by
  induction h with
  | nil => exact List.Forall₂.nil
  | cons hc _ ih => exact List.Forall₂.cons (hf _ _ hc) ih

theorem Rearranged.existingPart (P : Params α) (xs : List (List α)) {t t' : Table α} (h : Rearranged t t') :
    Rearranged (existingPart P xs t) (existingPart P xs t') := by
  obtain ⟨t'', h1, h2⟩ := h
  exact ⟨Fill.existingPart P xs t'',
    (h1.map (fun _ _ hc => updCol_sameCol xs hc)).filter (fun _ _ hc => keepCol_sameCol P hc),
    (h2.map _).filter _⟩

theorem Rearranged.newPart (P : Params α) (xs : List (List α)) {t t' : Table α} (h : Rearranged t t') :
    newPart P xs t = newPart P xs t' := by
  unfold Fill.newPart
  congr 1
  apply List.filterMap_congr
  intro p _
  rw [h.any_lower p.2]


/-! ## Part 3: `fill` = (solve + decide) then (write back + drop); the first half ignores order and case -/

/-- `fillWith` up to the decision stage: the refusal, or the solved tensors (one per volume row) -/
def fillXs (rel : Rows) (sel : List (Option Nat)) (P : Params α) (t : Table α) : Except Err (List (List α)) :=
  if (selIdxOf sel).isEmpty then
    (if rel.isEmpty then .error .linAlgError else .error .indexError)
  else
  match solveStage (stackA (α := α) (selIdxOf sel) rel)
      ((List.range (nRows t)).map fun k => stackB (selColsOf sel t) rel k) with
  | none => .error .solver
  | some s =>
    match verdict P s with
    | .error e => .error e
    | .ok () => .ok s.xs

theorem fillWith_eq_fillXs (rel : Rows) (sel : List (Option Nat)) (P : Params α) (t : Table α) :
    fillWith rel sel P t = (fillXs rel sel P t).map (finish P t) := by
  unfold fillWith fillXs
  by_cases he : (selIdxOf sel).isEmpty = true
  · simp only [he, if_true]
    cases rel.isEmpty <;> rfl
  · simp only [he]
    generalize solveStage (stackA (α := α) (selIdxOf sel) rel)
      ((List.range (nRows t)).map fun k => stackB (selColsOf sel t) rel k) = o
    cases o with
    | none => rfl
    | some s =>
      simp only
      rcases verdict P s with e | ⟨⟨⟩⟩ <;> rfl

/-- the outcome of `fill` before the write-back: an error, or the solved tensors -/
def fillSol (env : Env) (sys : String) (P : Params α) (t : Table α) : Except Err (List (List α)) :=
  match recognise (t.map (·.1)) with
  | .error e => .error e
  | .ok sel =>
    match resolve env sys with
    | .error e => .error e
    | .ok rel => fillXs rel sel P t

theorem fill_eq_fillSol (env : Env) (sys : String) (P : Params α) (t : Table α) :
    fill env (some sys) P t = (fillSol env sys P t).map (finish P t) := by
  unfold fill fillSol
  simp only
  cases recognise (t.map (·.1)) with
  | error e => rfl
  | ok sel =>
    simp only
    cases resolve env sys with
    | error e => rfl
    | ok rel => exact fillWith_eq_fillXs _ _ _ _

theorem mapM_map_congr {β γ : Type} {f f' : β → Option γ} {g g' : Nat → β} (h : ∀ k, f (g k) = f' (g' k)) :
    ∀ l : List Nat, (l.map g).mapM f = (l.map g').mapM f'
  | [] => rfl
  | k :: l => by
    rw [List.map_cons, List.map_cons, List.mapM_cons, List.mapM_cons, h k, mapM_map_congr h l]

theorem zipWith_map_congr {β γ δ : Type} {F F' : β → γ → δ} {g g' : Nat → β} (h : ∀ k x, F (g k) x = F' (g' k) x) :
    ∀ (l : List Nat) (xs : List γ), List.zipWith F (l.map g) xs = List.zipWith F' (l.map g') xs
  | [], _ => rfl
  | _ :: _, [] => by simp
  | k :: l, x :: xs => by
    simp only [List.map_cons, List.zipWith_cons_cons, h k x, zipWith_map_congr h l xs]

theorem solveStage_congr {A A' : List (List α)} (l : List Nat) {g g' : Nat → List α}
    (h1 : ∀ k, lstsq nsym A (g k) = lstsq nsym A' (g' k))
    (h2 : (kerWitness nsym A).isSome = (kerWitness nsym A').isSome) (h3 : A.length = A'.length)
    (h4 : ∀ k x, sumSq (residualVec A (g k) x) = sumSq (residualVec A' (g' k) x)) :
    solveStage A (l.map g) = solveStage A' (l.map g') := by
  have hm := mapM_map_congr (f := fun b => lstsq nsym A b) (f' := fun b => lstsq nsym A' b) h1 l
  have hz := zipWith_map_congr (F := fun b x => sumSq (residualVec A b x))
    (F' := fun b x => sumSq (residualVec A' b x)) h4 l
  unfold solveStage
  rw [hm, h2, h3]
  cases (l.map g').mapM (fun b => lstsq nsym A' b) with
  | none => rfl
  | some xs => simp [hz xs]

theorem nRows_of_rect' {t : Table α} {n : Nat} (hrect : ∀ c ∈ t, c.2.length = n) (hne : t ≠ []) : nRows t = n := by
  cases t with
  | nil => exact absurd rfl hne
  | cons c r => simp [nRows, hrect c (by simp)]

theorem length_castRow (r : Rel) : (castRow (α := α) r).length = r.coeffs.length := by simp [castRow]

/-- **the solve + decision stages do not see the order or the spelling of the columns** -/
theorem fillXs_rearranged (rel : Rows) (P : Params α) {t t' : Table α} {n : Nat} (h : Rearranged t t')
    (hrect : ∀ c ∈ t, c.2.length = n) (hrel : ∀ r ∈ rel, r.coeffs.length ≤ nsym) :
    fillXs rel ((t.map (·.1)).map symIdx) P t = fillXs rel ((t'.map (·.1)).map symIdx) P t' := by
  have hS := h.selPairs_perm
  have hrect' := h.rect hrect
  unfold fillXs
  rw [selIdxOf_eq, selIdxOf_eq, selColsOf_eq, selColsOf_eq]
  by_cases hS0 : selPairs t = []
  · have hS0' : selPairs t' = [] := List.Perm.eq_nil (hS0 ▸ hS.symm)
    simp [hS0, hS0']
  · have hS0' : selPairs t' ≠ [] := fun e => hS0 (List.Perm.eq_nil (e ▸ hS))
    have e1 : ((selPairs t).map Prod.fst).isEmpty = false := by
      cases hs : selPairs t with
      | nil => exact absurd hs hS0
      | cons _ _ => rfl
    have e1' : ((selPairs t').map Prod.fst).isEmpty = false := by
      cases hs : selPairs t' with
      | nil => exact absurd hs hS0'
      | cons _ _ => rfl
    have ht : t ≠ [] := by rintro rfl; exact hS0 rfl
    have ht' : t' ≠ [] := by rintro rfl; exact hS0' rfl
    rw [nRows_of_rect' hrect ht, nRows_of_rect' hrect' ht']
    simp only [e1, e1', Bool.false_eq_true, if_false]
    have hzp : ∀ k, (List.zip (stackA (α := α) ((selPairs t).map Prod.fst) rel)
          (stackB ((selPairs t).map Prod.snd) rel k)).Perm
        (List.zip (stackA (α := α) ((selPairs t').map Prod.fst) rel)
          (stackB ((selPairs t').map Prod.snd) rel k)) := by
      intro k
      rw [zip_stack, zip_stack]
      exact (hS.map _).append_right _
    have hAp : (stackA (α := α) ((selPairs t).map Prod.fst) rel).Perm
        (stackA (α := α) ((selPairs t').map Prod.fst) rel) := by
      unfold stackA
      exact ((hS.map _).map _).append_right _
    have hb : ∀ (u : Table α) k, (stackB ((selPairs u).map Prod.snd) rel k).length =
        (stackA (α := α) ((selPairs u).map Prod.fst) rel).length := by
      intro u k; simp [stackA, stackB]
    have hrows : ∀ a ∈ stackA (α := α) ((selPairs t).map Prod.fst) rel, a.length ≤ nsym := by
      intro a ha
      unfold stackA at ha
      rcases List.mem_append.1 ha with ha | ha
      · obtain ⟨i, _, rfl⟩ := List.mem_map.1 ha
        exact le_of_eq (length_selectorRow i)
      · obtain ⟨r, hr, rfl⟩ := List.mem_map.1 ha
        rw [length_castRow]; exact hrel r hr
    rw [solveStage_congr (List.range n)
      (fun k => lstsq_perm (hb t k) (hb t' k) (hzp k) hrows)
      (kerWitness_isSome_congr (fun r => hAp.mem_iff)) hAp.length_eq
      (fun k x => sumSq_residual_perm x (hzp k))]

theorem fillSol_rearranged (env : Env) (sys : String) (P : Params α) {t t' : Table α} {n : Nat}
    (h : Rearranged t t') (hrect : ∀ c ∈ t, c.2.length = n)
    (henv : ∀ rel, resolve env sys = .ok rel → ∀ r ∈ rel, r.coeffs.length ≤ nsym) :
    fillSol env sys P t = fillSol env sys P t' := by
  unfold fillSol
  rw [recognise_eq, recognise_eq, h.any_badName]
  cases (t'.map (·.1)).any badName with
  | true => rfl
  | false =>
    simp only [Bool.false_eq_true, if_false]
    cases hres : resolve env sys with
    | error e => rfl
    | ok rel => exact fillXs_rearranged rel P h hrect (henv rel hres)

/-! ### the packaged relation rows have exactly 21 coefficients -/

def packagedLenOK (p : String × List (List Int × Int)) : Bool :=
  match packaged p.1 with
  | .ok rel => rel.all fun r => r.coeffs.length == nsym
  | .error _ => true

theorem packaged_len_all : Generated.constraintSystems.all packagedLenOK = true := by decide +kernel

theorem packaged_coeffs_length {sys : String} {rel : Rows} (h : packaged sys = .ok rel) :
    ∀ r ∈ rel, r.coeffs.length = nsym := by
  have hp : ∃ p ∈ Generated.constraintSystems, p.1 = sys := by
    unfold packaged at h
    split at h
    · rename_i p hfind
      exact ⟨p, List.mem_of_find?_eq_some hfind, by simpa using List.find?_some hfind⟩
    · simp at h
  obtain ⟨p, hpm, rfl⟩ := hp
  have := List.all_eq_true.mp packaged_len_all p hpm
  unfold packagedLenOK at this
  rw [h] at this
  intro r hr
  simpa using List.all_eq_true.mp this r hr

/-- the relation rows a system name resolves to have at most 21 coefficients as soon as the user-supplied relations
    file (if that is what the name means) has -/
theorem resolve_coeffs_length (env : Env) (sys : String)
    (huser : ∀ rows, env.userFile sys = some rows → ∀ r ∈ rows, r.coeffs.length ≤ nsym) :
    ∀ rel, resolve env sys = .ok rel → ∀ r ∈ rel, r.coeffs.length ≤ nsym := by
  intro rel hres
  unfold resolve at hres
  cases hp : packaged sys with
  | ok rows =>
    rw [hp] at hres
    injection hres with hres
    subst hres
    exact fun r hr => le_of_eq (packaged_coeffs_length hp r hr)
  | error e =>
    rw [hp] at hres
    simp only at hres
    cases hu : env.userFile sys with
    | none => rw [hu] at hres; simp at hres
    | some rows =>
      rw [hu] at hres
      injection hres with hres
      subst hres
      exact huser rows hu

end Cij.Fill
