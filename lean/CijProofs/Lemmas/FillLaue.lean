/-
  Bridge between the list-vectors of the fill model (`CijModel/Fill.lean`) and the component functions
  `Fin 21 → ℝ` of the Laue theorems (no property statements here).
-/
import CijProofs.Lemmas.Laue
import CijProofs.Lemmas.Fill
namespace Cij.Laue
open Finset Cij.Fill

theorem wellFormed_of_cert {name : String} {rows : List (List Int × Int)} (h : certOK name rows = true) :
    wellFormed rows = true := by
  simp only [certOK, Bool.and_eq_true] at h
  exact h.1.1

theorem dot_eq_finsum : ∀ (n : Nat) (u v : List ℝ), u.length ≤ n →
    dot u v = ∑ j : Fin n, u.getD j.val 0 * v.getD j.val 0 := by
  intro n
  induction n with
  | zero => intro u v hu; have : u = [] := List.eq_nil_of_length_eq_zero (Nat.le_zero.mp hu); subst this; simp
  | succ n ih =>
    intro u v hu
    cases u with
    | nil => simp
    | cons a u =>
      cases v with
      | nil => simp
      | cons b v =>
        rw [Fin.sum_univ_succ, dot_cons, ih u v (by simpa using hu)]
        simp

theorem dot_castRow (r : Rel) (τ : List ℝ) :
    dot (castRow (α := ℝ) r) τ = dot (r.coeffs.map fun z => ((z : Int) : ℝ)) τ / ((Int.ofNat r.den : Int) : ℝ) := by
  unfold castRow
  generalize r.coeffs = co
  induction co generalizing τ with
  | nil => simp
  | cons z co ih =>
    cases τ with
    | nil => simp
    | cons b τ => simp only [List.map_cons, dot_cons, ih τ]; ring

def packagedOK (p : String × List (List Int × Int)) : Bool :=
  match packaged p.1 with
  | .ok rel => decide ((rel.map fun r => (r.coeffs, r.rhs)) = p.2) && rel.all fun r => decide (r.den ≠ 0)
  | .error _ => false

theorem packaged_all_ok : Generated.constraintSystems.all packagedOK = true := by decide +kernel

/-- the packaged relations are the generated integer rows with non-zero denominators -/
theorem packaged_rows {p : String × List (List Int × Int)} (hp : p ∈ Generated.constraintSystems) :
    ∃ rel, packaged p.1 = .ok rel ∧ (rel.map fun r => (r.coeffs, r.rhs)) = p.2 ∧ ∀ r ∈ rel, r.den ≠ 0 := by
  have h := List.all_eq_true.mp packaged_all_ok p hp
  unfold packagedOK at h
  cases hk : packaged p.1 with
  | error e => simp [hk] at h
  | ok rel =>
    simp only [hk, Bool.and_eq_true, decide_eq_true_eq, List.all_eq_true] at h
    exact ⟨rel, rfl, h.1, h.2⟩

/-- a list-tensor that satisfies the stacked relation rows of a packaged system satisfies `relationsHold` -/
theorem relationsHold_of_rel {rows : List (List Int × Int)} {rel : Rows} (hw : wellFormed rows = true)
    (hmap : (rel.map fun r => (r.coeffs, r.rhs)) = rows) (hden : ∀ r ∈ rel, r.den ≠ 0)
    (τ : List ℝ) (h : ∀ r ∈ rel, dot (castRow (α := ℝ) r) τ - (Int.cast r.rhs : ℝ) / (Int.cast (Int.ofNat r.den) : ℝ) = 0) :
    relationsHold rows (fun j => τ.getD j.val 0) := by
  simp only [wellFormed, List.all_eq_true, Bool.and_eq_true, decide_eq_true_eq] at hw
  intro q hq
  rw [← hmap] at hq
  obtain ⟨r, hr, rfl⟩ := List.mem_map.mp hq
  have hq' : (r.coeffs, r.rhs) ∈ rows := by rw [← hmap]; exact List.mem_map_of_mem hr
  have hl := (hw _ hq').1
  have h0 := h r hr
  rw [dot_castRow] at h0
  have hd : ((Int.ofNat r.den : Int) : ℝ) ≠ 0 := by
    have := hden r hr
    simp only [Int.ofNat_eq_natCast, Int.cast_natCast, ne_eq, Nat.cast_eq_zero]; exact this
  have h1 : dot (r.coeffs.map fun z => ((z : Int) : ℝ)) τ = (r.rhs : ℝ) := by
    field_simp at h0; linarith
  rw [dot_eq_finsum 21 _ _ (by simp [hl])] at h1
  simp only at h1 ⊢
  rw [← h1]
  refine sum_congr rfl fun j _ => ?_
  congr 1
  by_cases hj : j.val < r.coeffs.length
  · simp [List.getD_eq_getElem?_getD, List.getElem?_map, List.getElem?_eq_getElem hj]
  · simp [List.getD_eq_getElem?_getD, List.getElem?_map, List.getElem?_eq_none (Nat.le_of_not_lt hj)]

end Cij.Laue
