/- Helper lemmas for C05: exact polynomial least squares (no property statements here). -/
import CijModel.LeastSq
import CijProofs.Lemmas.V2P
import Mathlib.Algebra.Order.BigOperators.Group.List
import Mathlib.Algebra.BigOperators.Group.Finset.Basic
import Mathlib.Algebra.BigOperators.Ring.List
import Mathlib.Algebra.BigOperators.Ring.Finset
import Mathlib.Algebra.Order.Field.Basic
import Mathlib.Tactic.Ring
import Mathlib.Tactic.Linarith
import Mathlib.Tactic.Positivity

namespace Cij.LeastSq

open Finset

section Basic
variable {α : Type} [Field α]

theorem sumL_eq_sum (l : List α) : sumL l = l.sum := by
  induction l with
  | nil => rfl
  | cons a t ih => simp [sumL, ih]

theorem powN_eq (x : α) (n : Nat) : powN x n = x ^ n := by
  induction n with
  | zero => simp [powN]
  | succ n ih => simp [powN, ih, pow_succ']

theorem zipWith_eq_map_zip {β γ δ : Type} (f : β → γ → δ) (xs : List β) (ys : List γ) :
    List.zipWith f xs ys = (xs.zip ys).map fun p => f p.1 p.2 := by
  induction xs generalizing ys with
  | nil => simp
  | cons a t ih => cases ys with
    | nil => simp
    | cons b u => simp [ih]

theorem polyval_nil (x : α) : polyval ([] : List α) x = 0 := rfl

theorem polyval_append (p : List α) (c x : α) : polyval (p ++ [c]) x = polyval p x * x + c := by
  simp [polyval, List.foldl_append]

/-- functions that are polynomials of degree < n -/
def IsPolyLT (n : Nat) (g : α → α) : Prop := ∃ a : ℕ → α, ∀ x, g x = ∑ j ∈ range n, a j * x ^ j

theorem isPolyLT_polyval (p : List α) : IsPolyLT p.length (polyval p) := by
  induction p using List.reverseRecOn with
  | nil => exact ⟨fun _ => 0, fun x => by simp [polyval_nil]⟩
  | append_singleton p c ih =>
    obtain ⟨a, ha⟩ := ih
    refine ⟨fun j => if j = 0 then c else a (j - 1), fun x => ?_⟩
    rw [polyval_append, ha x, List.length_append, List.length_singleton, sum_range_succ', Finset.sum_mul]
    simp only [Nat.add_eq_zero_iff, one_ne_zero, and_false, if_false, Nat.add_sub_cancel, if_true, pow_zero, mul_one]
    congr 1
    apply sum_congr rfl
    intro j _
    ring

theorem IsPolyLT.mono {n m : Nat} {g : α → α} (h : IsPolyLT n g) (hnm : n ≤ m) : IsPolyLT m g := by
  obtain ⟨a, ha⟩ := h
  refine ⟨fun j => if j < n then a j else 0, fun x => ?_⟩
  rw [ha x]
  obtain ⟨k, rfl⟩ := Nat.exists_eq_add_of_le hnm
  clear hnm
  induction k with
  | zero =>
    apply sum_congr rfl
    intro j hj
    simp [mem_range.mp hj]
  | succ k ih =>
    rw [← Nat.add_assoc, sum_range_succ, ← ih]
    simp

theorem IsPolyLT.sub {n : Nat} {g h : α → α} (hg : IsPolyLT n g) (hh : IsPolyLT n h) :
    IsPolyLT n (fun x => g x - h x) := by
  obtain ⟨a, ha⟩ := hg
  obtain ⟨b, hb⟩ := hh
  refine ⟨fun j => a j - b j, fun x => ?_⟩
  show g x - h x = _
  rw [ha x, hb x, ← sum_sub_distrib]
  apply sum_congr rfl
  intro j _
  ring

/-- the cubic `a + b x + c x² + d x³` as a Horner list -/
theorem polyval_cubic (a b c d x : α) : polyval [d, c, b, a] x = a + b * x + c * x ^ 2 + d * x ^ 3 := by
  simp [polyval]; ring

/-- a polynomial of degree < 4 that vanishes at four distinct points vanishes everywhere -/
theorem IsPolyLT.eq_zero_of_four_roots {g : α → α} (hg : IsPolyLT 4 g) (x0 x1 x2 x3 : α)
    (h01 : x0 ≠ x1) (h02 : x0 ≠ x2) (h03 : x0 ≠ x3) (h12 : x1 ≠ x2) (h13 : x1 ≠ x3) (h23 : x2 ≠ x3)
    (r0 : g x0 = 0) (r1 : g x1 = 0) (r2 : g x2 = 0) (r3 : g x3 = 0) (x : α) : g x = 0 := by
  obtain ⟨a, ha⟩ := hg
  have hform : ∀ y, g y = a 0 + a 1 * y + a 2 * y ^ 2 + a 3 * y ^ 3 := by
    intro y; rw [ha y]; simp [sum_range_succ]
  have h := Cij.V2P.lagrange4_cubic (a 0) (a 1) (a 2) (a 3) x x0 x1 x2 x3 h01 h02 h03 h12 h13 h23
  rw [← hform x0, ← hform x1, ← hform x2, ← hform x3, ← hform x, r0, r1, r2, r3] at h
  rw [← h]
  simp [Cij.V2P.lagrange4]

end Basic

section Orth
variable {α : Type} [Field α]

/-- orthogonality to the monomials lifts to every polynomial of degree < n -/
theorem sum_poly_mul_eq_zero {ι : Type} (pts : List ι) (X r : ι → α) (a : ℕ → α) (n : Nat)
    (h : ∀ j < n, (pts.map fun p => X p ^ j * r p).sum = 0) :
    (pts.map fun p => (∑ j ∈ range n, a j * X p ^ j) * r p).sum = 0 := by
  induction n with
  | zero => simp
  | succ n ih =>
    have e : (fun p => (∑ j ∈ range (n + 1), a j * X p ^ j) * r p)
        = fun p => (∑ j ∈ range n, a j * X p ^ j) * r p + a n * (X p ^ n * r p) := by
      funext p; rw [sum_range_succ]; ring
    rw [e, List.sum_map_add, ih (fun j hj => h j (Nat.lt_succ_of_lt hj)), List.sum_map_mul_left,
      h n (Nat.lt_succ_self n)]
    simp

end Orth

section Ordered
variable {α : Type} [Field α] [LinearOrder α] [IsStrictOrderedRing α]

/-- the core of least squares: if the residual `r` of `f` is orthogonal to `g - f`, then `f` is at least as
    good as `g` -/
theorem sum_sq_le_of_orthogonal {ι : Type} (pts : List ι) (r e : ι → α)
    (h : (pts.map fun p => e p * r p).sum = 0) :
    (pts.map fun p => r p * r p).sum ≤ (pts.map fun p => (r p + e p) * (r p + e p)).sum := by
  have e1 : (fun p => (r p + e p) * (r p + e p)) = fun p => (r p * r p + e p * e p) + 2 * (e p * r p) := by
    funext p; ring
  rw [e1, List.sum_map_add, List.sum_map_add, List.sum_map_mul_left, h]
  have : 0 ≤ (pts.map fun p => e p * e p).sum := by
    apply List.sum_nonneg
    intro x hx
    obtain ⟨p, _, rfl⟩ := List.mem_map.mp hx
    exact mul_self_nonneg _
  linarith

theorem sum_sq_eq_zero {ι : Type} (pts : List ι) (r : ι → α)
    (h : (pts.map fun p => r p * r p).sum = 0) : ∀ p ∈ pts, r p = 0 := by
  induction pts with
  | nil => intro p hp; exact absurd hp List.not_mem_nil
  | cons a t ih =>
    simp only [List.map_cons, List.sum_cons] at h
    have h1 : 0 ≤ r a * r a := mul_self_nonneg _
    have h2 : 0 ≤ (t.map fun p => r p * r p).sum := by
      apply List.sum_nonneg
      intro x hx
      obtain ⟨p, _, rfl⟩ := List.mem_map.mp hx
      exact mul_self_nonneg _
    have ha : r a * r a = 0 := by linarith
    have ht : (t.map fun p => r p * r p).sum = 0 := by linarith
    intro p hp
    rcases List.mem_cons.mp hp with rfl | hp
    · exact mul_self_eq_zero.mp ha
    · exact ih ht p hp

theorem sqResidual_nonneg (xs ys p : List α) : 0 ≤ sqResidual xs ys p := by
  unfold sqResidual
  rw [sumL_eq_sum]
  apply List.sum_nonneg
  intro x hx
  rw [zipWith_eq_map_zip] at hx
  obtain ⟨q, _, rfl⟩ := List.mem_map.mp hx
  exact mul_self_nonneg _

omit [IsStrictOrderedRing α] in
/-- what the certificate `normalEqHolds` certifies -/
theorem normalEqHolds_spec (xs ys : List α) (deg : Nat) (p : List α) (h : normalEqHolds xs ys deg p = true) :
    p.length = deg + 1 ∧ ∀ j < deg + 1, normalResidual xs ys p j = 0 := by
  unfold normalEqHolds at h
  simp only [Bool.and_eq_true, beq_iff_eq, List.all_eq_true, List.mem_range] at h
  exact h

omit [IsStrictOrderedRing α] in
theorem polyfit_spec (xs ys : List α) (deg : Nat) (p : List α) (h : polyfit xs ys deg = some p) :
    xs.length = ys.length ∧ p.length = deg + 1 ∧ ∀ j < deg + 1, normalResidual xs ys p j = 0 := by
  unfold polyfit at h
  split_ifs at h with h1
  simp only at h
  split_ifs at h with h2
  simp only [Option.some.injEq] at h
  subst h
  refine ⟨?_, normalEqHolds_spec xs ys deg _ h2⟩
  simpa using h1

/-- normal equations ⇒ minimal sum of squared residuals among all polynomials of degree ≤ deg -/
theorem normalEq_minimises (xs ys : List α) (deg : Nat) (p : List α) (hlen : p.length ≤ deg + 1)
    (hn : ∀ j < deg + 1, normalResidual xs ys p j = 0)
    (p' : List α) (hlen' : p'.length ≤ deg + 1) :
    sqResidual xs ys p ≤ sqResidual xs ys p' := by
  unfold sqResidual
  rw [sumL_eq_sum, sumL_eq_sum, zipWith_eq_map_zip, zipWith_eq_map_zip]
  have hpoly : IsPolyLT (deg + 1) (fun x => polyval p' x - polyval p x) :=
    ((isPolyLT_polyval p').mono hlen').sub ((isPolyLT_polyval p).mono hlen)
  obtain ⟨a, ha⟩ := hpoly
  have horth : ((xs.zip ys).map fun q =>
      (polyval p' q.1 - polyval p q.1) * (polyval p q.1 - q.2)).sum = 0 := by
    have e : (fun q : α × α => (polyval p' q.1 - polyval p q.1) * (polyval p q.1 - q.2))
        = fun q => (∑ j ∈ range (deg + 1), a j * q.1 ^ j) * (polyval p q.1 - q.2) := by
      funext q; rw [← ha q.1]
    rw [e]
    apply sum_poly_mul_eq_zero
    intro j hj
    have := hn j hj
    unfold normalResidual at this
    rw [sumL_eq_sum, zipWith_eq_map_zip] at this
    simpa [powN_eq] using this
  have h := sum_sq_le_of_orthogonal (xs.zip ys) (fun q => polyval p q.1 - q.2)
    (fun q => polyval p' q.1 - polyval p q.1) horth
  have e2 : (fun q : α × α => (polyval p q.1 - q.2 + (polyval p' q.1 - polyval p q.1)) *
      (polyval p q.1 - q.2 + (polyval p' q.1 - polyval p q.1)))
      = fun q => (polyval p' q.1 - q.2) * (polyval p' q.1 - q.2) := by
    funext q; ring
  rw [e2] at h
  exact h

end Ordered

end Cij.LeastSq
