/- Helper lemmas for C11 (no property statements here): the list-level `polyval`/`polyder`/Newton form of
`CijModel/Interp.lean` expressed through `Polynomial`, list-sum algebra for the normal equations, loop plumbing. -/
import CijModel.Interp
import Mathlib.Algebra.Polynomial.Roots
import Mathlib.Algebra.Polynomial.Derivative
import Mathlib.Algebra.Order.BigOperators.Ring.List
import Mathlib.Algebra.BigOperators.Ring.List
import Mathlib.Tactic.Ring
import Mathlib.Tactic.Linarith
import Mathlib.Tactic.FieldSimp
import Mathlib.Analysis.SpecialFunctions.Log.Basic
import Mathlib.Analysis.SpecialFunctions.Pow.Real

namespace Cij.Interp
open Polynomial

/-! ### `polyval` / `polyder` as polynomials -/
section PolyRing
variable {R : Type} [CommRing R]

theorem npow_eq_pow (x : R) (n : ℕ) : npow x n = x ^ n := by
  induction n with
  | zero => simp [npow]
  | succ n ih => simp [npow, ih, pow_succ]

/-- the polynomial denoted by a numpy coefficient list (highest power first) -/
noncomputable def toPoly : List R → R[X]
  | [] => 0
  | c :: cs => C c * X ^ cs.length + toPoly cs

theorem foldl_horner (x : R) (p : List R) (a : R) :
    p.foldl (fun acc c => acc * x + c) a = a * x ^ p.length + (toPoly p).eval x := by
  induction p generalizing a with
  | nil => simp [toPoly]
  | cons c cs ih =>
    simp only [List.foldl_cons, ih, toPoly, List.length_cons, eval_add, eval_mul, eval_C, eval_pow, eval_X]
    ring

theorem polyval_eq_eval (p : List R) (x : R) : polyval p x = (toPoly p).eval x := by
  unfold polyval
  rw [foldl_horner]; simp

theorem natDegree_toPoly_le (p : List R) : (toPoly p).natDegree ≤ p.length - 1 := by
  induction p with
  | nil => simp [toPoly]
  | cons c cs ih =>
    simp only [toPoly, List.length_cons, Nat.add_sub_cancel]
    refine (natDegree_add_le _ _).trans (max_le (natDegree_C_mul_X_pow_le _ _) (ih.trans (Nat.sub_le _ _)))

theorem natDegree_toPoly_lt (p : List R) (n : ℕ) (h : p.length ≤ n) (hn : 0 < n) : (toPoly p).natDegree < n := by
  have := natDegree_toPoly_le p
  omega

theorem toPoly_polyder (p : List R) : toPoly (polyder p) = derivative (toPoly p) := by
  induction p using polyder.induct with
  | case1 => simp [polyder, toPoly]
  | case2 c => simp [polyder, toPoly]
  | case3 c c' cs ih =>
    have hlen : (polyder (c' :: cs)).length = cs.length := by
      clear ih
      induction cs generalizing c' with
      | nil => simp [polyder]
      | cons d ds ih => simp [polyder, ih]
    rw [polyder, toPoly, ih, hlen]
    simp only [toPoly, List.length_cons, derivative_add, derivative_mul, derivative_C, zero_mul, zero_add,
      derivative_X_pow, Nat.add_sub_cancel, map_mul, map_natCast]
    push_cast
    ring

end PolyRing

/-! ### Newton form -/
section Newton
variable {K : Type} [Field K]

/-- `Π_j (X − x_j)` -/
noncomputable def nodePoly : List (K × K) → K[X]
  | [] => 1
  | n :: l => (X - C n.1) * nodePoly l

/-- `Σ_k c_k Π_{j<k} (X − x_j)` in nested form -/
noncomputable def newtonPoly : List (K × K) → K[X]
  | [] => 0
  | n :: l => C n.2 + (X - C n.1) * newtonPoly l

/-- the state of `newtonFold` denoted by a pair of polynomials: values and two derivatives at `x` -/
noncomputable def stOf (A W : K[X]) (x : K) : Triple K × Triple K :=
  ((A.eval x, (derivative A).eval x, (derivative (derivative A)).eval x),
   (W.eval x, (derivative W).eval x, (derivative (derivative W)).eval x))

theorem newtonFold_stOf (x : K) (l : List (K × K)) (A W : K[X]) :
    newtonFold x l (stOf A W x) = stOf (A + W * newtonPoly l) (W * nodePoly l) x := by
  induction l generalizing A W with
  | nil => simp [newtonFold, newtonPoly, nodePoly]
  | cons n l ih =>
    obtain ⟨xk, ck⟩ := n
    have step : ((A.eval x + ck * W.eval x, (derivative A).eval x + ck * (derivative W).eval x,
          (derivative (derivative A)).eval x + ck * (derivative (derivative W)).eval x),
         (W.eval x * (x - xk), (derivative W).eval x * (x - xk) + W.eval x,
          (derivative (derivative W)).eval x * (x - xk) + ((derivative W).eval x + (derivative W).eval x)))
        = stOf (A + C ck * W) (W * (X - C xk)) x := by
      simp only [stOf, derivative_add, derivative_mul, derivative_C, zero_mul, zero_add, eval_add, eval_mul, eval_C,
        derivative_sub, derivative_X, sub_zero, mul_one, eval_sub, eval_X, add_assoc]
    simp only [stOf] at step ⊢
    rw [newtonFold, step]
    have := ih (A + C ck * W) (W * (X - C xk))
    simp only [stOf] at this
    rw [this]
    simp only [newtonPoly, nodePoly]
    congr 2 <;> ring_nf

theorem newtonInit_eq (x : K) : (newtonInit : Triple K × Triple K) = stOf 0 1 x := by
  simp [newtonInit, stOf]

theorem newtonEval_eq (l : List (K × K)) (x : K) :
    newtonEval l x = ((newtonPoly l).eval x, (derivative (newtonPoly l)).eval x,
      (derivative (derivative (newtonPoly l))).eval x) := by
  unfold newtonEval
  rw [newtonInit_eq x, newtonFold_stOf]
  simp [stOf]

theorem newtonProd_eq (l : List (K × K)) (x : K) : newtonProd l x = (nodePoly l).eval x := by
  unfold newtonProd
  rw [newtonInit_eq x, newtonFold_stOf]
  simp [stOf]

theorem newtonPoly_append (l : List (K × K)) (n : K × K) :
    newtonPoly (l ++ [n]) = newtonPoly l + C n.2 * nodePoly l := by
  induction l with
  | nil => simp [newtonPoly, nodePoly]
  | cons m l ih => simp only [List.cons_append, newtonPoly, nodePoly, ih]; ring

theorem nodePoly_eval_mem (l : List (K × K)) (x : K) (h : x ∈ l.map Prod.fst) : (nodePoly l).eval x = 0 := by
  induction l with
  | nil => simp at h
  | cons m l ih =>
    simp only [List.map_cons, List.mem_cons] at h
    simp only [nodePoly, eval_mul, eval_sub, eval_X, eval_C]
    rcases h with h | h
    · simp [h]
    · simp [ih h]

theorem nodePoly_eval_ne (l : List (K × K)) (x : K) (h : x ∉ l.map Prod.fst) : (nodePoly l).eval x ≠ 0 := by
  induction l with
  | nil => simp [nodePoly]
  | cons m l ih =>
    simp only [List.map_cons, List.mem_cons, not_or] at h
    simp only [nodePoly, eval_mul, eval_sub, eval_X, eval_C]
    exact mul_ne_zero (sub_ne_zero.mpr h.1) (ih h.2)

theorem natDegree_newtonPoly_le (l : List (K × K)) : (newtonPoly l).natDegree ≤ l.length - 1 := by
  induction l with
  | nil => simp [newtonPoly]
  | cons m l ih =>
    simp only [newtonPoly, List.length_cons, Nat.add_sub_cancel]
    refine (natDegree_add_le _ _).trans (max_le (by simp) ?_)
    cases l with
    | nil => simp [newtonPoly]
    | cons m' l' =>
      refine natDegree_mul_le.trans ?_
      have h1 : (X - C m.1 : K[X]).natDegree = 1 := natDegree_X_sub_C _
      simp only [List.length_cons, Nat.add_sub_cancel] at ih ⊢
      omega

/-- incremental construction: after processing `data` on top of `built` (which interpolates `pre`), the result interpolates
`pre ++ data`, provided all abscissae are distinct -/
theorem newtonBuild_interp (data pre built : List (K × K))
    (hnodes : built.map Prod.fst = pre.map Prod.fst)
    (hint : ∀ p ∈ pre, (newtonPoly built).eval p.1 = p.2)
    (hnd : ((pre ++ data).map Prod.fst).Nodup) :
    (∀ p ∈ pre ++ data, (newtonPoly (newtonBuild data built)).eval p.1 = p.2) ∧
      (newtonBuild data built).length = pre.length + data.length := by
  induction data generalizing pre built with
  | nil =>
    have := congrArg List.length hnodes
    simp only [List.length_map] at this
    simpa [newtonBuild, this] using hint
  | cons d data ih =>
    obtain ⟨xk, yk⟩ := d
    rw [newtonBuild]
    have hx : xk ∉ built.map Prod.fst := by
      rw [hnodes]
      simp only [List.map_append, List.map_cons] at hnd
      have := (List.nodup_append.mp hnd).2.2
      intro hmem
      exact this xk hmem xk (by simp) rfl
    have hW := nodePoly_eval_ne built xk hx
    have key := ih (pre ++ [(xk, yk)]) (built ++ [(xk, (yk - (newtonEval built xk).1) / newtonProd built xk)])
      (by simp [hnodes])
      (by
        intro p hp
        rw [newtonPoly_append, newtonEval_eq, newtonProd_eq]
        simp only [eval_add, eval_mul, eval_C]
        rcases List.mem_append.mp hp with hp | hp
        · have : (nodePoly built).eval p.1 = 0 :=
            nodePoly_eval_mem built p.1 (by rw [hnodes]; exact List.mem_map_of_mem hp)
          rw [this, hint p hp]; ring
        · simp only [List.mem_singleton] at hp
          subst hp
          field_simp
          ring)
      (by simpa using hnd)
    constructor
    · intro p hp
      exact key.1 p (by simpa using hp)
    · rw [key.2]; simp; omega

end Newton

/-! ### list sums and the normal equations -/
section Lsq

theorem zipWith_eq_map_zip' {α β γ : Type} (f : α → β → γ) (xs : List α) (ys : List β) :
    List.zipWith f xs ys = (xs.zip ys).map fun p => f p.1 p.2 := by
  induction xs generalizing ys with
  | nil => simp
  | cons x xs ih => cases ys <;> simp [ih]

theorem zipWith_zipWith' {α β γ δ : Type} (g : α → γ → δ) (f : α → β → γ) (xs : List α) (ys : List β) :
    List.zipWith g xs (List.zipWith f xs ys) = (xs.zip ys).map fun p => g p.1 (f p.1 p.2) := by
  induction xs generalizing ys with
  | nil => simp
  | cons x xs ih => cases ys <;> simp [ih]

theorem zip_map_self {α β : Type} (g : α → β) (xs : List α) : xs.zip (xs.map g) = xs.map fun x => (x, g x) := by
  induction xs with
  | nil => simp
  | cons x xs ih => simp [ih]

variable {K : Type} [Field K]

theorem sumL_eq_sum (l : List K) : sumL l = l.sum := by
  induction l with
  | nil => simp [sumL]
  | cons x l ih => simp only [sumL, List.foldr_cons, List.sum_cons] at ih ⊢; rw [ih]

theorem moment_residuals (xs ys a : List K) (k : ℕ) :
    moment xs (residuals xs ys a) k = ((xs.zip ys).map fun p => p.1 ^ k * (polyval a p.1 - p.2)).sum := by
  unfold moment residuals
  rw [sumL_eq_sum, zipWith_zipWith']
  simp only [npow_eq_pow]

theorem list_sum_finset_sum {ι β : Type} (l : List β) (s : Finset ι) (f : ι → β → K) :
    (l.map fun p => ∑ i ∈ s, f i p).sum = ∑ i ∈ s, (l.map (f i)).sum := by
  induction l with
  | nil => simp
  | cons x l ih => simp [ih, Finset.sum_add_distrib]

/-- if the first `n` moments of `e` vanish, `e` is orthogonal to every polynomial of degree `< n` -/
theorem moments_kill {β : Type} (pts : List β) (x e : β → K) (n : ℕ)
    (h : ∀ k < n, (pts.map fun p => x p ^ k * e p).sum = 0) (Q : K[X]) (hQ : Q.natDegree < n) :
    (pts.map fun p => Q.eval (x p) * e p).sum = 0 := by
  have : (fun p => Q.eval (x p) * e p) = fun p => ∑ i ∈ Finset.range n, Q.coeff i * (x p ^ i * e p) := by
    funext p
    rw [eval_eq_sum_range' hQ, Finset.sum_mul]
    exact Finset.sum_congr rfl fun i _ => by ring
  rw [this, list_sum_finset_sum]
  refine Finset.sum_eq_zero fun i hi => ?_
  rw [List.sum_map_mul_left, h i (Finset.mem_range.mp hi), mul_zero]

theorem coeff_toPoly_length (p : List K) : (toPoly p).coeff p.length = 0 := by
  cases p with
  | nil => simp [toPoly]
  | cons c cs =>
    apply coeff_eq_zero_of_natDegree_lt
    have := natDegree_toPoly_le (c :: cs)
    simp only [List.length_cons, Nat.add_sub_cancel] at this ⊢
    omega

theorem toPoly_injective (a c : List K) (h : a.length = c.length) (heq : toPoly a = toPoly c) : a = c := by
  induction a generalizing c with
  | nil => cases c with
    | nil => rfl
    | cons _ _ => simp at h
  | cons a0 as ih => cases c with
    | nil => simp at h
    | cons c0 cs =>
      simp only [List.length_cons, Nat.add_right_cancel_iff] at h
      simp only [toPoly] at heq
      have hc := congrArg (fun q => q.coeff as.length) heq
      simp only [coeff_add, coeff_C_mul, coeff_X_pow, if_true, mul_one] at hc
      rw [coeff_toPoly_length, h, if_pos rfl, coeff_toPoly_length] at hc
      simp only [mul_one, add_zero] at hc
      subst hc
      rw [h] at heq
      rw [ih cs h (add_left_cancel heq)]

variable [LinearOrder K] [IsStrictOrderedRing K]

theorem list_sum_eq_zero_of_nonneg (l : List K) (hn : ∀ x ∈ l, 0 ≤ x) (hs : l.sum = 0) : ∀ x ∈ l, x = 0 := by
  induction l with
  | nil => simp
  | cons y l ih =>
    have hy : 0 ≤ y := hn y (by simp)
    have hl : 0 ≤ l.sum := List.sum_nonneg fun x hx => hn x (by simp [hx])
    rw [List.sum_cons] at hs
    have h0 := (add_eq_zero_iff_of_nonneg hy hl).mp hs
    intro x hx
    rcases List.mem_cons.mp hx with rfl | hx
    · exact h0.1
    · exact ih (fun z hz => hn z (by simp [hz])) h0.2 x hx

end Lsq

/-! ### loop plumbing -/
section Loop

theorem stride_map {β γ : Type} (f : β → γ) (i : ℕ) (l : List β) : stride i (l.map f) = (stride i l).map f := by
  unfold stride
  rw [List.map_filterMap, List.length_map]
  refine List.filterMap_congr fun k _ => ?_
  simp [List.getElem?_map]

theorem thin_map {β γ : Type} (f : β → γ) (order : ℕ) (l : List β) : thin order (l.map f) = (thin order l).map f := by
  unfold thin
  rw [List.length_map, stride_map]

theorem stride_nodup {β : Type} (i : ℕ) (l : List β) (h : l.Nodup) : (stride i l).Nodup := by
  unfold stride
  rcases Nat.eq_zero_or_pos i with rfl | hi
  · simp
  · refine List.Nodup.filterMap ?_ List.nodup_range
    intro a a' b hb hb'
    simp only [Option.mem_def] at hb hb'
    obtain ⟨h1, e1⟩ := List.getElem?_eq_some_iff.mp hb
    obtain ⟨h2, e2⟩ := List.getElem?_eq_some_iff.mp hb'
    have := (List.Nodup.getElem_inj_iff h).mp (e1.trans e2.symm)
    exact Nat.eq_of_mul_eq_mul_right hi this

theorem thin_nodup {β : Type} (order : ℕ) (l : List β) (h : l.Nodup) : (thin order l).Nodup :=
  stride_nodup _ l h

theorem thin_subset {β : Type} (order : ℕ) (l : List β) : ∀ x ∈ thin order l, x ∈ l := by
  intro x hx
  unfold thin stride at hx
  obtain ⟨k, _, hk⟩ := List.mem_filterMap.mp hx
  exact List.mem_of_getElem? hk

theorem collect_eq_ok {β : Type} (l : List (Except Err β)) (r : List β) :
    collect l = .ok r ↔ l = r.map .ok := by
  induction l generalizing r with
  | nil => cases r <;> simp [collect]
  | cons e l ih =>
    cases e with
    | error err => cases r <;> simp [collect]
    | ok v =>
      simp only [collect]
      cases hc : collect l with
      | error err =>
        cases r with
        | nil => simp
        | cons w ws =>
          simp only [List.map_cons, List.cons.injEq, Except.ok.injEq, reduceCtorEq, false_iff, not_and]
          intro _ hl
          have := (ih ws).mpr hl
          rw [hc] at this; cases this
      | ok vs =>
        have hvs := (ih vs).mp hc
        cases r with
        | nil => simp
        | cons w ws =>
          simp only [Except.ok.injEq, List.cons.injEq, List.map_cons]
          constructor
          · rintro ⟨rfl, rfl⟩; exact ⟨rfl, hvs⟩
          · rintro ⟨rfl, hl⟩
            refine ⟨rfl, ?_⟩
            have := (ih ws).mpr hl
            rw [hc] at this
            exact (Except.ok.inj this)

end Loop


/-! ### real scalar, mode tail, power laws -/
section Real

noncomputable instance : ExpLog ℝ := ⟨Real.exp, Real.log⟩


/-- the model's tail (`finishMode`) produces exactly the triple of `triple_consistent` from the kernel's samples -/
theorem finishMode_eq (I : Interpolant ℝ) (nodeVols nodeFreqs vArray : List ℝ) (s s' s'' : ℝ → ℝ)
    (hI : I (nodeVols.map Real.log) (nodeFreqs.map Real.log) (vArray.map Real.log)
        = .ok ((vArray.map Real.log).map fun x => (s x, s' x, s'' x))) :
    finishMode I nodeVols nodeFreqs vArray
      = .ok (vArray.map fun v => (Real.exp (s (Real.log v)), -s' (Real.log v), -s'' (Real.log v))) := by
  unfold finishMode
  simp only [ExpLog.log, ExpLog.exp]
  rw [hI]
  simp [List.map_map, Function.comp_def, bind, Except.bind, pure, Except.pure]


/-- a power law `ω = ω₀ (V/V₀)^(−γ)` is the degree-1 polynomial `[−γ, ln ω₀ + γ ln V₀]` in `ln V` -/
theorem power_law_log (w0 V0 g V : ℝ) (hw : 0 < w0) (hV0 : 0 < V0) (hV : 0 < V) :
    Real.log (w0 * (V / V0) ^ (-g)) = polyval [-g, Real.log w0 + g * Real.log V0] (Real.log V) := by
  have h1 : 0 < (V / V0) ^ (-g) := Real.rpow_pos_of_pos (div_pos hV hV0) _
  rw [Real.log_mul hw.ne' h1.ne', Real.log_rpow (div_pos hV hV0), Real.log_div hV.ne' hV0.ne']
  simp [polyval]; ring


theorem log_nodes_card (vols : List ℝ) (hpos : ∀ V ∈ vols, 0 < V) : (vols.map Real.log).toFinset.card = vols.toFinset.card := by
  have : (vols.map Real.log).toFinset = vols.toFinset.image Real.log := by ext x; simp
  rw [this]
  exact Finset.card_image_of_injOn fun a ha b hb hab =>
    Real.log_injOn_pos (Set.mem_Ioi.mpr (hpos a (List.mem_toFinset.mp ha))) (Set.mem_Ioi.mpr (hpos b (List.mem_toFinset.mp hb))) hab


end Real

section NormalEq
variable {K : Type} [Field K] [DecidableEq K]

/-- the prop form of the model's check `normalEq` (`Vᵀ(V a − y) = 0`, written column by column) -/
theorem normalEq_iff (xs ys : List K) (order : ℕ) (a : List K) :
    normalEq xs ys order a = true ↔
      a.length = order + 1 ∧
        ∀ k < order + 1, ((xs.zip ys).map fun p => p.1 ^ k * (polyval a p.1 - p.2)).sum = 0 := by
  simp only [normalEq, Bool.and_eq_true, beq_iff_eq, List.all_eq_true, List.mem_range, moment_residuals]


end NormalEq

section Entry
variable {α : Type} [Neg α] [Zero α] [ExpLog α]

/-- entry `[t][j][k]` of an assembled array -/
def entry (A : List (List (List α))) (t j k : ℕ) : Option α := (A[t]?.bind (·[j]?)).bind (·[k]?)

/-- the three output arrays at `[t][j][k]` are the `t`-th triple of the cell `(j, k)`, and that cell was computed from the
input series of `(j, k)` ALONE (`cell … j k (series freqs j k)`) -/
theorem modes_cell (m : Method) (order : ℕ) (I : Interpolant α) (vols vArray : List α) (nq np : ℕ)
    (freqs : List (List (List α))) (F G D : List (List (List α)))
    (h : interpolateModes m order I vols vArray nq np freqs = .ok (F, G, D))
    (t j k : ℕ) (ht : t < vArray.length) (hj : j < nq) (hk : k < np) :
    ∃ col, cell m order I vols vArray j k (series freqs j k) = .ok col ∧
      entry F t j k = some (col.getD t (0, 0, 0)).1 ∧ entry G t j k = some (col.getD t (0, 0, 0)).2.1 ∧
      entry D t j k = some (col.getD t (0, 0, 0)).2.2 := by
  unfold interpolateModes at h
  cases hc : cells m order I vols vArray nq np freqs with
  | error e => rw [hc] at h; cases h
  | ok c =>
    rw [hc] at h
    simp only [bind, Except.bind, pure, Except.pure, Except.ok.injEq, Prod.mk.injEq] at h
    obtain ⟨rfl, rfl, rfl⟩ := h
    unfold cells at hc
    rw [collect_eq_ok] at hc
    have hlen : c.length = nq := by simpa using (congrArg List.length hc).symm
    have hrow := congrArg (·[j]?) hc
    simp only [List.getElem?_map, List.getElem?_range hj, Option.map_some] at hrow
    have hjc : j < c.length := hlen ▸ hj
    rw [List.getElem?_eq_getElem hjc, Option.map_some, Option.some.injEq, collect_eq_ok] at hrow
    have hlen2 : c[j].length = np := by simpa using (congrArg List.length hrow).symm
    have hcol := congrArg (·[k]?) hrow
    simp only [List.getElem?_map, List.getElem?_range hk, Option.map_some] at hcol
    have hkc : k < c[j].length := hlen2 ▸ hk
    rw [List.getElem?_eq_getElem hkc, Option.map_some, Option.some.injEq] at hcol
    refine ⟨c[j][k], hcol, ?_, ?_, ?_⟩ <;>
      simp [entry, assemble, List.getElem?_map, List.getElem?_range ht, List.getElem?_eq_getElem hjc,
        List.getElem?_eq_getElem hkc]


end Entry

end Cij.Interp
