/-
  `ModePlotter.plot_modes` (cij/plot/modes.py) as translated on this run (Generated/PlotModesSpec.lean) and the list
  `Calculator.mode_gamma = [V∂γ/∂V, γ, γ²]` as translated from `_interpolate_modes` (Generated/CalcGlueSpec.lean): the model's
  `plotSelect` IS the interpretation of the two.
-/
import CijModel.Interp
import CijModel.CalcGlue
import Generated.PlotModesSpec
import Generated.CalcGlueSpec
namespace Cij.PlotModesSource
open Cij.Interp

/-- the member of the triple `(ω, γ, V∂γ/∂V)` returned by `interpolate_modes` (index, power) that an entry of `mode_gamma` holds -/
def tagOf (e : Nat × Int) : Option Quantity :=
  if e = (1, 1) then some .gamma else if e = (2, 1) then some .vdrDv else if e = (1, 2) then some .gammaSq else none

/-- what `self.calculator.<attr>[<idx>]` is, given how `_interpolate_modes` fills the calculator -/
def arrayOf (gamma : List (Nat × Int)) (freqAttr gammaAttr attr : String) (idx : Option Nat) : Option Quantity :=
  if attr = freqAttr then (if idx = none then some .omega else none)
  else if attr = gammaAttr then idx.bind fun i => (gamma[i]?).bind tagOf
  else none

/-- interpretation of the translated selection chain (first matching `n == k`; no match leaves `w_arrays` unbound) -/
def selectBy (sel : List (Int × String × Option Nat)) (gamma : List (Nat × Int)) (freqAttr gammaAttr : String) (n : Int) :
    Option Quantity :=
  match sel.find? (fun r => r.1 == n) with
  | none => none
  | some (_, attr, idx) => arrayOf gamma freqAttr gammaAttr attr idx

/-- the list the model calls `modeGammaTags` is the one `_interpolate_modes` builds now -/
theorem modeGammaTags_is_source :
    Generated.CalcGlue.interpolateModes.gamma.map tagOf = modeGammaTags.map some := by decide

/-- **plot_select_is_source**: for EVERY integer n the model's selection is the interpretation of the translated chain on the
calculator as `_interpolate_modes` fills it -/
theorem plotSelect_is_source (n : Int) :
    plotSelect n = selectBy Generated.PlotModes.selection Generated.CalcGlue.interpolateModes.gamma
      Generated.CalcGlue.interpolateModes.freqAttr Generated.CalcGlue.interpolateModes.gammaAttr n := by
  have key : ∀ m : Int, (m = 0 ∨ m = 1 ∨ m = 2) ∨ (m ≠ 0 ∧ m ≠ 1 ∧ m ≠ 2) := by intro m; omega
  rcases key n with h | ⟨h0, h1, h2⟩
  · rcases h with rfl | rfl | rfl <;> decide
  · have e0 : (n == 0) = false := beq_false_of_ne h0
    have e1 : (n == 1) = false := beq_false_of_ne h1
    have e2 : (n == 2) = false := beq_false_of_ne h2
    have f0 : ((0 : Int) == n) = false := beq_false_of_ne (Ne.symm h0)
    have f1 : ((1 : Int) == n) = false := beq_false_of_ne (Ne.symm h1)
    have f2 : ((2 : Int) == n) = false := beq_false_of_ne (Ne.symm h2)
    unfold plotSelect selectBy
    simp only [Generated.PlotModes.selection, List.find?, e0, e1, e2, f0, f1, f2]
    rfl

/-- the Γ-acoustic skip and the loops of `plot_modes` are the ones the model mirrors -/
theorem plot_loops_are_source : Generated.PlotModes.gammaSkip = 3 ∧ Generated.PlotModes.loopsCanonical = true ∧
    Generated.PlotModes.defaults = [0, 0] := by decide

/-- the command `cij modes` hands its `-n` option to the parameter `n` and its `-q` (`--iq`) option to `iq` of `plot_modes`, positionally in the
order the method declares them (after the axes object), as written in cij/cli/modes.py now -/
theorem cli_modes_wiring_is_source :
    Generated.PlotModes.plotParams = ["ax", "n", "iq"] ∧
    Generated.PlotModes.cliCallArgs.drop 1 = Generated.PlotModes.plotParams.drop 1 ∧
    (Generated.PlotModes.cliOptions.map (·.1)).filter (fun x => x = "n" ∨ x = "iq") = ["iq", "n"] ∧
    Generated.PlotModes.cliOptions.lookup "n" = some ("-n", "click.IntRange(0, 3)", "0") ∧
    Generated.PlotModes.cliOptions.lookup "iq" = some ("-q,--iq", "click.INT", "0") := by decide

end Cij.PlotModesSource
