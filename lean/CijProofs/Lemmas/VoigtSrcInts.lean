/-
  Out-of-range indices are rejected BY THE TRANSLATED SOURCE for all integers — not by enumeration: the PyLite evaluator runs in the
  kernel (`kernel_rfl`) on `Generated.VoigtSrc.module` with partly symbolic arguments.  An integer is `Int.negSucc n` (negative),
  a literal, or `Int.ofNat (n + k)` (large); every test the source performs on such a value (`==` against the table entries, `in`,
  `<` against 10) is decided by the constructors.

  Standard pairs (`e_(i, j)`, `c_(i, j, k, l)`): `sorted((i, j))` compares two symbolic magnitudes, which kernel evaluation alone
  cannot decide; `VoigtSrcSort` extracts the evaluator's continuation around the sort and splits on `i ≤ j` first, so the statements
  here hold for ALL integers, without exclusions.
-/
import CijProofs.Lemmas.PyLite
import CijProofs.Lemmas.Voigt
import CijModel.VoigtSrc
import CijProofs.Lemmas.VoigtSrcSort

namespace Cij.VoigtSrc
open PyLite

abbrev RTE : Option String := some "RuntimeError"

/-- every integer outside 1..6 is negative, 0, or at least 7 -/
theorem int_shape7 (v : Int) (h : ¬(1 ≤ v ∧ v ≤ 6)) : (∃ n, v = Int.negSucc n) ∨ v = 0 ∨ ∃ n, v = Int.ofNat (n + 7) := by
  cases v with
  | negSucc n => exact Or.inl ⟨n, rfl⟩
  | ofNat m =>
    by_cases h0 : m = 0
    · subst h0; exact Or.inr (Or.inl rfl)
    · refine Or.inr (Or.inr ⟨m - 7, ?_⟩)
      have : 7 ≤ m := by
        have : (Int.ofNat m) = (m : Int) := rfl
        omega
      congr 1; omega

theorem all_idx6 {p : Int → Bool} (h : (idx6.all fun i => p i) = true) : ∀ i ∈ idx6, p i = true :=
  fun i hi => List.all_eq_true.mp h i hi

/-! ### Voigt indices: `E_.from_voigt(v)`, `e_(v)`, `c_(i, j)` -/

theorem fv_neg (n : Nat) : excKind (srcFun "StrainRepresentation" "from_voigt" [.int (Int.negSucc n)]) = RTE := by kernel_rfl
theorem fv_zero : excKind (srcFun "StrainRepresentation" "from_voigt" [.int 0]) = RTE := by kernel_rfl
theorem fv_big (n : Nat) : excKind (srcFun "StrainRepresentation" "from_voigt" [.int (Int.ofNat (n + 7))]) = RTE := by kernel_rfl

theorem e1_neg (n : Nat) : excKind (srcCall "e_" [.int (Int.negSucc n)]) = RTE := by kernel_rfl
theorem e1_small : ([0, 7, 8, 9] : List Int).all (fun v => excKind (srcCall "e_" [.int v]) == RTE) = true := by kernel_rfl

theorem c2_fst_neg (n : Nat) (j : Int) : excKind (srcCall "c_" [.int (Int.negSucc n), .int j]) = RTE := by kernel_rfl
theorem c2_fst_zero (j : Int) : excKind (srcCall "c_" [.int 0, .int j]) = RTE := by kernel_rfl
theorem c2_fst_big (n : Nat) (j : Int) : excKind (srcCall "c_" [.int (Int.ofNat (n + 7)), .int j]) = RTE := by kernel_rfl
theorem c2_snd_neg (n : Nat) : (idx6.all fun i => excKind (srcCall "c_" [.int i, .int (Int.negSucc n)]) == RTE) = true := by
  kernel_rfl
theorem c2_snd_zero : (idx6.all fun i => excKind (srcCall "c_" [.int i, .int 0]) == RTE) = true := by kernel_rfl
theorem c2_snd_big (n : Nat) : (idx6.all fun i => excKind (srcCall "c_" [.int i, .int (Int.ofNat (n + 7))]) == RTE) = true := by
  kernel_rfl

/-! ### assembled: all integers -/

/-- `E_.from_voigt(v)` raises RuntimeError for EVERY integer outside 1..6 -/
theorem src_from_voigt_rejects (v : Int) (h : ¬(1 ≤ v ∧ v ≤ 6)) :
    excKind (srcFun "StrainRepresentation" "from_voigt" [.int v]) = RTE := by
  rcases int_shape7 v h with ⟨n, rfl⟩ | rfl | ⟨n, rfl⟩
  · exact fv_neg n
  · exact fv_zero
  · exact fv_big n

/-- `e_(v)` raises RuntimeError for every integer below 10 outside 1..6 (from 10 on the source spells the digits: decided domain) -/
theorem src_e1_rejects (v : Int) (h10 : v < 10) (h : ¬(1 ≤ v ∧ v ≤ 6)) : excKind (srcCall "e_" [.int v]) = RTE := by
  rcases int_shape7 v h with ⟨n, rfl⟩ | rfl | ⟨n, rfl⟩
  · exact e1_neg n
  · exact eq_of_beq (List.all_eq_true.mp e1_small 0 (by simp))
  · have hn : n = 0 ∨ n = 1 ∨ n = 2 := by
      have : (Int.ofNat (n + 7)) = ((n + 7 : Nat) : Int) := rfl
      omega
    rcases hn with rfl | rfl | rfl
    · exact eq_of_beq (List.all_eq_true.mp e1_small 7 (by simp))
    · exact eq_of_beq (List.all_eq_true.mp e1_small 8 (by simp))
    · exact eq_of_beq (List.all_eq_true.mp e1_small 9 (by simp))

/-- `c_(i, j)` raises RuntimeError for EVERY pair of integers not both in 1..6 -/
theorem src_c2_rejects (i j : Int) (h : ¬((1 ≤ i ∧ i ≤ 6) ∧ (1 ≤ j ∧ j ≤ 6))) :
    excKind (srcCall "c_" [.int i, .int j]) = RTE := by
  by_cases hi : 1 ≤ i ∧ i ≤ 6
  · have hj : ¬(1 ≤ j ∧ j ≤ 6) := fun hj => h ⟨hi, hj⟩
    have him : i ∈ idx6 := (mem_idx6 i).2 hi
    rcases int_shape7 j hj with ⟨n, rfl⟩ | rfl | ⟨n, rfl⟩
    · exact eq_of_beq (all_idx6 (c2_snd_neg n) i him)
    · exact eq_of_beq (all_idx6 c2_snd_zero i him)
    · exact eq_of_beq (all_idx6 (c2_snd_big n) i him)
  · rcases int_shape7 i hi with ⟨n, rfl⟩ | rfl | ⟨n, rfl⟩
    · exact c2_fst_neg n j
    · exact c2_fst_zero j
    · exact c2_fst_big n j

/-! ### standard pairs, all integers (from `VoigtSrcSort`) -/

theorem in3_iff (i j : Int) : in3 i j ↔ (1 ≤ i ∧ i ≤ 3) ∧ (1 ≤ j ∧ j ≤ 3) := by unfold in3; omega

/-- `e_(i, j)` for ALL integers: RuntimeError unless both lie in 1..3; the canonical strain (min, max) otherwise -/
theorem src_e2_all (i j : Int) :
    (¬in3 i j → excKind (srcCall "e_" [.int i, .int j]) = RTE) ∧
    (in3 i j → srcCall "e_" [.int i, .int j] = .ok (Strain.toVal ⟨min i j, max i j⟩)) := by
  rw [e2_spine, wrapTop_id, excKind_eq_excK]
  exact callFS_spec 1950 2 (by omega) i j

/-- `StrainRepresentation.from_standard(i, j)` called directly, for ALL integers -/
theorem src_fs_all (i j : Int) :
    (¬in3 i j → excKind (srcFun "StrainRepresentation" "from_standard" [.int i, .int j]) = RTE) ∧
    (in3 i j → srcFun "StrainRepresentation" "from_standard" [.int i, .int j] = .ok (Strain.toVal ⟨min i j, max i j⟩)) := by
  rw [fs_direct, excKind_eq_excK]
  exact callFS_spec 1959 0 (by omega) i j

/-- `c_(i, j, k, l)` raises RuntimeError for EVERY quadruple of integers not all in 1..3 -/
theorem src_c4_rejects (i j k l : Int) (h : ¬(in3 i j ∧ in3 k l)) :
    excKind (srcCall "c_" [.int i, .int j, .int k, .int l]) = RTE := by
  rw [c4_top_spine, wrapTop_id, excKind_eq_excK]
  exact callC4_rejects 1930 2 (by omega) i j k l h

theorem src_c4_direct_rejects (i j k l : Int) (h : ¬(in3 i j ∧ in3 k l)) :
    excKind (srcFun "ModulusRepresentation" "from_standard" [.int i, .int j, .int k, .int l]) = RTE := by
  rw [c4_direct, excKind_eq_excK]
  exact callC4_rejects 1939 0 (by omega) i j k l h

/-- … and for every quadruple in 1..3 the source builds the model's key (symbolic counterpart of the table `src_table4`) -/
theorem src_c4_accepts (i j k l : Int) (h : in3 i j ∧ in3 k l) :
    agreeWith valToModulus (srcCall "c_" [.int i, .int j, .int k, .int l]) (Modulus.fromStandard i j k l) = true := by
  rw [c4_top_spine, wrapTop_id]
  exact callC4_accepts 1930 2 (by omega) i j k l h

end Cij.VoigtSrc
