/-
  Out-of-range indices are rejected BY THE TRANSLATED SOURCE for all integers — not by enumeration: the PyLite evaluator runs in the
  kernel (`kernel_rfl`) on `Generated.VoigtSrc.module` with partly symbolic arguments.  An integer is `Int.negSucc n` (negative),
  a literal, or `Int.ofNat (n + k)` (large); every test the source performs on such a value (`==` against the table entries, `in`,
  `<` against 10, the comparison inside `sorted` when the two signs / magnitudes differ structurally) is decided by the constructors.

  What is NOT covered (kernel evaluation cannot compare two symbolic magnitudes): a standard pair whose two indices are BOTH
  negative or BOTH ≥ 4 (`sorted((i, j))` compares them with each other before the range check).  The statements carry these two
  exclusions explicitly; the decided ring (indices 0..4) and the differential run against CPython cover instances of them.

  The proofs of the `…_k` lemmas are generated text (one per argument shape); the assembled theorems are at the end.
-/
import CijProofs.Lemmas.PyLite
import CijProofs.Lemmas.Voigt
import CijModel.VoigtSrc

namespace Cij.VoigtSrc
open PyLite

abbrev RTE : Option String := some "RuntimeError"

/-- every integer is negative, one of 0..3, or at least 4 -/
theorem int_shape4 (v : Int) : (∃ n, v = Int.negSucc n) ∨ v = 0 ∨ v = 1 ∨ v = 2 ∨ v = 3 ∨ ∃ n, v = Int.ofNat (n + 4) := by
  cases v with
  | negSucc n => exact Or.inl ⟨n, rfl⟩
  | ofNat m =>
    rcases m with _ | _ | _ | _ | m
    · exact Or.inr (Or.inl rfl)
    · exact Or.inr (Or.inr (Or.inl rfl))
    · exact Or.inr (Or.inr (Or.inr (Or.inl rfl)))
    · exact Or.inr (Or.inr (Or.inr (Or.inr (Or.inl rfl))))
    · exact Or.inr (Or.inr (Or.inr (Or.inr (Or.inr ⟨m, rfl⟩))))

/-- every integer outside 1..6 is negative, 0, or at least 7 -/
theorem int_shape7 (v : Int) (h : ¬(1 ≤ v ∧ v ≤ 6)) : (∃ n, v = Int.negSucc n) ∨ v = 0 ∨ ∃ n, v = Int.ofNat (n + 7) := by
  cases v with
  | negSucc n => exact Or.inl ⟨n, rfl⟩
  | ofNat m =>
    by_cases h0 : m = 0
    · subst h0; exact Or.inr (Or.inl rfl)
    · refine Or.inr (Or.inr ⟨m - 7, ?_⟩)
      have : 7 ≤ m := by
        have : (Int.ofNat m) = (m : Int) := rfl
        omega
      congr 1; omega

theorem all_idx3 {p : Int → Int → Bool} (h : (idx3.all fun i => idx3.all fun j => p i j) = true) :
    ∀ i ∈ idx3, ∀ j ∈ idx3, p i j = true := by
  intro i hi j hj; exact List.all_eq_true.mp (List.all_eq_true.mp h i hi) j hj

theorem all_idx6 {p : Int → Bool} (h : (idx6.all fun i => p i) = true) : ∀ i ∈ idx6, p i = true :=
  fun i hi => List.all_eq_true.mp h i hi

/-! ### Voigt indices: `E_.from_voigt(v)`, `e_(v)`, `c_(i, j)` -/

theorem fv_neg (n : Nat) : excKind (srcFun "StrainRepresentation" "from_voigt" [.int (Int.negSucc n)]) = RTE := by kernel_rfl
theorem fv_zero : excKind (srcFun "StrainRepresentation" "from_voigt" [.int 0]) = RTE := by kernel_rfl
theorem fv_big (n : Nat) : excKind (srcFun "StrainRepresentation" "from_voigt" [.int (Int.ofNat (n + 7))]) = RTE := by kernel_rfl

theorem e1_neg (n : Nat) : excKind (srcCall "e_" [.int (Int.negSucc n)]) = RTE := by kernel_rfl
theorem e1_small : ([0, 7, 8, 9] : List Int).all (fun v => excKind (srcCall "e_" [.int v]) == RTE) = true := by kernel_rfl

theorem c2_fst_neg (n : Nat) (j : Int) : excKind (srcCall "c_" [.int (Int.negSucc n), .int j]) = RTE := by kernel_rfl
theorem c2_fst_zero (j : Int) : excKind (srcCall "c_" [.int 0, .int j]) = RTE := by kernel_rfl
theorem c2_fst_big (n : Nat) (j : Int) : excKind (srcCall "c_" [.int (Int.ofNat (n + 7)), .int j]) = RTE := by kernel_rfl
theorem c2_snd_neg (n : Nat) : (idx6.all fun i => excKind (srcCall "c_" [.int i, .int (Int.negSucc n)]) == RTE) = true := by
  kernel_rfl
theorem c2_snd_zero : (idx6.all fun i => excKind (srcCall "c_" [.int i, .int 0]) == RTE) = true := by kernel_rfl
theorem c2_snd_big (n : Nat) : (idx6.all fun i => excKind (srcCall "c_" [.int i, .int (Int.ofNat (n + 7))]) == RTE) = true := by
  kernel_rfl

/-! ### standard pairs: `e_(i, j)` and `c_(i, j, k, l)`, one lemma per argument shape -/

theorem e2_NP (a m : Nat): excKind (srcCall "e_" [.int (Int.negSucc a), .int (Int.ofNat m)]) = RTE := by kernel_rfl
theorem e2_PN (m b : Nat): excKind (srcCall "e_" [.int (Int.ofNat m), .int (Int.negSucc b)]) = RTE := by kernel_rfl
theorem e2_ZP (m : Nat): excKind (srcCall "e_" [.int 0, .int (Int.ofNat m)]) = RTE := by kernel_rfl
theorem e2_1Z : excKind (srcCall "e_" [.int 1, .int 0]) = RTE := by kernel_rfl
theorem e2_2Z : excKind (srcCall "e_" [.int 2, .int 0]) = RTE := by kernel_rfl
theorem e2_3Z : excKind (srcCall "e_" [.int 3, .int 0]) = RTE := by kernel_rfl
theorem e2_BZ (n : Nat): excKind (srcCall "e_" [.int (Int.ofNat (n + 4)), .int 0]) = RTE := by kernel_rfl
theorem e2_1B (n : Nat): excKind (srcCall "e_" [.int 1, .int (Int.ofNat (n + 4))]) = RTE := by kernel_rfl
theorem e2_2B (n : Nat): excKind (srcCall "e_" [.int 2, .int (Int.ofNat (n + 4))]) = RTE := by kernel_rfl
theorem e2_3B (n : Nat): excKind (srcCall "e_" [.int 3, .int (Int.ofNat (n + 4))]) = RTE := by kernel_rfl
theorem e2_B1 (n : Nat): excKind (srcCall "e_" [.int (Int.ofNat (n + 4)), .int 1]) = RTE := by kernel_rfl
theorem e2_B2 (n : Nat): excKind (srcCall "e_" [.int (Int.ofNat (n + 4)), .int 2]) = RTE := by kernel_rfl
theorem e2_B3 (n : Nat): excKind (srcCall "e_" [.int (Int.ofNat (n + 4)), .int 3]) = RTE := by kernel_rfl

theorem c4_fst_NP (a m : Nat) (k l : Int) : excKind (srcCall "c_" [.int (Int.negSucc a), .int (Int.ofNat m), .int k, .int l]) = RTE := by kernel_rfl
theorem c4_fst_PN (m b : Nat) (k l : Int) : excKind (srcCall "c_" [.int (Int.ofNat m), .int (Int.negSucc b), .int k, .int l]) = RTE := by kernel_rfl
theorem c4_fst_ZP (m : Nat) (k l : Int) : excKind (srcCall "c_" [.int 0, .int (Int.ofNat m), .int k, .int l]) = RTE := by kernel_rfl
theorem c4_fst_1Z  (k l : Int) : excKind (srcCall "c_" [.int 1, .int 0, .int k, .int l]) = RTE := by kernel_rfl
theorem c4_fst_2Z  (k l : Int) : excKind (srcCall "c_" [.int 2, .int 0, .int k, .int l]) = RTE := by kernel_rfl
theorem c4_fst_3Z  (k l : Int) : excKind (srcCall "c_" [.int 3, .int 0, .int k, .int l]) = RTE := by kernel_rfl
theorem c4_fst_BZ (n : Nat) (k l : Int) : excKind (srcCall "c_" [.int (Int.ofNat (n + 4)), .int 0, .int k, .int l]) = RTE := by kernel_rfl
theorem c4_fst_1B (n : Nat) (k l : Int) : excKind (srcCall "c_" [.int 1, .int (Int.ofNat (n + 4)), .int k, .int l]) = RTE := by kernel_rfl
theorem c4_fst_2B (n : Nat) (k l : Int) : excKind (srcCall "c_" [.int 2, .int (Int.ofNat (n + 4)), .int k, .int l]) = RTE := by kernel_rfl
theorem c4_fst_3B (n : Nat) (k l : Int) : excKind (srcCall "c_" [.int 3, .int (Int.ofNat (n + 4)), .int k, .int l]) = RTE := by kernel_rfl
theorem c4_fst_B1 (n : Nat) (k l : Int) : excKind (srcCall "c_" [.int (Int.ofNat (n + 4)), .int 1, .int k, .int l]) = RTE := by kernel_rfl
theorem c4_fst_B2 (n : Nat) (k l : Int) : excKind (srcCall "c_" [.int (Int.ofNat (n + 4)), .int 2, .int k, .int l]) = RTE := by kernel_rfl
theorem c4_fst_B3 (n : Nat) (k l : Int) : excKind (srcCall "c_" [.int (Int.ofNat (n + 4)), .int 3, .int k, .int l]) = RTE := by kernel_rfl

theorem c4_snd_NP (a m : Nat):
    (idx3.all fun i => idx3.all fun j => excKind (srcCall "c_" [.int i, .int j, .int (Int.negSucc a), .int (Int.ofNat m)]) == RTE) = true := by
  kernel_rfl
theorem c4_snd_PN (m b : Nat):
    (idx3.all fun i => idx3.all fun j => excKind (srcCall "c_" [.int i, .int j, .int (Int.ofNat m), .int (Int.negSucc b)]) == RTE) = true := by
  kernel_rfl
theorem c4_snd_ZP (m : Nat):
    (idx3.all fun i => idx3.all fun j => excKind (srcCall "c_" [.int i, .int j, .int 0, .int (Int.ofNat m)]) == RTE) = true := by
  kernel_rfl
theorem c4_snd_1Z :
    (idx3.all fun i => idx3.all fun j => excKind (srcCall "c_" [.int i, .int j, .int 1, .int 0]) == RTE) = true := by
  kernel_rfl
theorem c4_snd_2Z :
    (idx3.all fun i => idx3.all fun j => excKind (srcCall "c_" [.int i, .int j, .int 2, .int 0]) == RTE) = true := by
  kernel_rfl
theorem c4_snd_3Z :
    (idx3.all fun i => idx3.all fun j => excKind (srcCall "c_" [.int i, .int j, .int 3, .int 0]) == RTE) = true := by
  kernel_rfl
theorem c4_snd_BZ (n : Nat):
    (idx3.all fun i => idx3.all fun j => excKind (srcCall "c_" [.int i, .int j, .int (Int.ofNat (n + 4)), .int 0]) == RTE) = true := by
  kernel_rfl
theorem c4_snd_1B (n : Nat):
    (idx3.all fun i => idx3.all fun j => excKind (srcCall "c_" [.int i, .int j, .int 1, .int (Int.ofNat (n + 4))]) == RTE) = true := by
  kernel_rfl
theorem c4_snd_2B (n : Nat):
    (idx3.all fun i => idx3.all fun j => excKind (srcCall "c_" [.int i, .int j, .int 2, .int (Int.ofNat (n + 4))]) == RTE) = true := by
  kernel_rfl
theorem c4_snd_3B (n : Nat):
    (idx3.all fun i => idx3.all fun j => excKind (srcCall "c_" [.int i, .int j, .int 3, .int (Int.ofNat (n + 4))]) == RTE) = true := by
  kernel_rfl
theorem c4_snd_B1 (n : Nat):
    (idx3.all fun i => idx3.all fun j => excKind (srcCall "c_" [.int i, .int j, .int (Int.ofNat (n + 4)), .int 1]) == RTE) = true := by
  kernel_rfl
theorem c4_snd_B2 (n : Nat):
    (idx3.all fun i => idx3.all fun j => excKind (srcCall "c_" [.int i, .int j, .int (Int.ofNat (n + 4)), .int 2]) == RTE) = true := by
  kernel_rfl
theorem c4_snd_B3 (n : Nat):
    (idx3.all fun i => idx3.all fun j => excKind (srcCall "c_" [.int i, .int j, .int (Int.ofNat (n + 4)), .int 3]) == RTE) = true := by
  kernel_rfl

/-! ### assembled: all integers -/

/-- `E_.from_voigt(v)` raises RuntimeError for EVERY integer outside 1..6 -/
theorem src_from_voigt_rejects (v : Int) (h : ¬(1 ≤ v ∧ v ≤ 6)) :
    excKind (srcFun "StrainRepresentation" "from_voigt" [.int v]) = RTE := by
  rcases int_shape7 v h with ⟨n, rfl⟩ | rfl | ⟨n, rfl⟩
  · exact fv_neg n
  · exact fv_zero
  · exact fv_big n

/-- `e_(v)` raises RuntimeError for every integer below 10 outside 1..6 (from 10 on the source spells the digits: decided domain) -/
theorem src_e1_rejects (v : Int) (h10 : v < 10) (h : ¬(1 ≤ v ∧ v ≤ 6)) : excKind (srcCall "e_" [.int v]) = RTE := by
  rcases int_shape7 v h with ⟨n, rfl⟩ | rfl | ⟨n, rfl⟩
  · exact e1_neg n
  · exact eq_of_beq (List.all_eq_true.mp e1_small 0 (by simp))
  · have hn : n = 0 ∨ n = 1 ∨ n = 2 := by
      have : (Int.ofNat (n + 7)) = ((n + 7 : Nat) : Int) := rfl
      omega
    rcases hn with rfl | rfl | rfl
    · exact eq_of_beq (List.all_eq_true.mp e1_small 7 (by simp))
    · exact eq_of_beq (List.all_eq_true.mp e1_small 8 (by simp))
    · exact eq_of_beq (List.all_eq_true.mp e1_small 9 (by simp))

/-- `c_(i, j)` raises RuntimeError for EVERY pair of integers not both in 1..6 -/
theorem src_c2_rejects (i j : Int) (h : ¬((1 ≤ i ∧ i ≤ 6) ∧ (1 ≤ j ∧ j ≤ 6))) :
    excKind (srcCall "c_" [.int i, .int j]) = RTE := by
  by_cases hi : 1 ≤ i ∧ i ≤ 6
  · have hj : ¬(1 ≤ j ∧ j ≤ 6) := fun hj => h ⟨hi, hj⟩
    have him : i ∈ idx6 := (mem_idx6 i).2 hi
    rcases int_shape7 j hj with ⟨n, rfl⟩ | rfl | ⟨n, rfl⟩
    · exact eq_of_beq (all_idx6 (c2_snd_neg n) i him)
    · exact eq_of_beq (all_idx6 c2_snd_zero i him)
    · exact eq_of_beq (all_idx6 (c2_snd_big n) i him)
  · rcases int_shape7 i hi with ⟨n, rfl⟩ | rfl | ⟨n, rfl⟩
    · exact c2_fst_neg n j
    · exact c2_fst_zero j
    · exact c2_fst_big n j

theorem negSucc_neg (a : Nat) : Int.negSucc a < 0 := Int.negSucc_lt_zero a
theorem four_le_ofNat (a : Nat) : (4 : Int) ≤ Int.ofNat (a + 4) := by
  have : (Int.ofNat (a + 4)) = ((a + 4 : Nat) : Int) := rfl
  omega

/-- `e_(i, j)` raises RuntimeError for every pair of integers not both in 1..3, EXCEPT that pairs with both indices negative or
both ≥ 4 are not covered here (see the file header) -/
theorem src_e2_rejects (i j : Int) (h : ¬((1 ≤ i ∧ i ≤ 3) ∧ (1 ≤ j ∧ j ≤ 3))) (hneg : ¬(i < 0 ∧ j < 0)) (hbig : ¬(4 ≤ i ∧ 4 ≤ j)) :
    excKind (srcCall "e_" [.int i, .int j]) = RTE := by
  rcases int_shape4 i with ⟨a, rfl⟩ | rfl | rfl | rfl | rfl | ⟨a, rfl⟩
  · rcases int_shape4 j with ⟨b, rfl⟩ | rfl | rfl | rfl | rfl | ⟨b, rfl⟩
    · exact absurd ⟨negSucc_neg _, negSucc_neg _⟩ hneg
    · exact e2_NP a 0
    · exact e2_NP a 1
    · exact e2_NP a 2
    · exact e2_NP a 3
    · exact e2_NP a (b + 4)
  · rcases int_shape4 j with ⟨b, rfl⟩ | rfl | rfl | rfl | rfl | ⟨b, rfl⟩
    · exact e2_PN 0 b
    · exact e2_ZP 0
    · exact e2_ZP 1
    · exact e2_ZP 2
    · exact e2_ZP 3
    · exact e2_ZP (b + 4)
  · rcases int_shape4 j with ⟨b, rfl⟩ | rfl | rfl | rfl | rfl | ⟨b, rfl⟩
    · exact e2_PN 1 b
    · exact e2_1Z
    · exact absurd (by decide) h
    · exact absurd (by decide) h
    · exact absurd (by decide) h
    · exact e2_1B b
  · rcases int_shape4 j with ⟨b, rfl⟩ | rfl | rfl | rfl | rfl | ⟨b, rfl⟩
    · exact e2_PN 2 b
    · exact e2_2Z
    · exact absurd (by decide) h
    · exact absurd (by decide) h
    · exact absurd (by decide) h
    · exact e2_2B b
  · rcases int_shape4 j with ⟨b, rfl⟩ | rfl | rfl | rfl | rfl | ⟨b, rfl⟩
    · exact e2_PN 3 b
    · exact e2_3Z
    · exact absurd (by decide) h
    · exact absurd (by decide) h
    · exact absurd (by decide) h
    · exact e2_3B b
  · rcases int_shape4 j with ⟨b, rfl⟩ | rfl | rfl | rfl | rfl | ⟨b, rfl⟩
    · exact e2_PN (a + 4) b
    · exact e2_BZ a
    · exact e2_B1 a
    · exact e2_B2 a
    · exact e2_B3 a
    · exact absurd ⟨four_le_ofNat _, four_le_ofNat _⟩ hbig

theorem c4_fst_bad (i j k l : Int) (h : ¬((1 ≤ i ∧ i ≤ 3) ∧ (1 ≤ j ∧ j ≤ 3))) (hneg : ¬(i < 0 ∧ j < 0)) (hbig : ¬(4 ≤ i ∧ 4 ≤ j)) :
    excKind (srcCall "c_" [.int i, .int j, .int k, .int l]) = RTE := by
  rcases int_shape4 i with ⟨a, rfl⟩ | rfl | rfl | rfl | rfl | ⟨a, rfl⟩
  · rcases int_shape4 j with ⟨b, rfl⟩ | rfl | rfl | rfl | rfl | ⟨b, rfl⟩
    · exact absurd ⟨negSucc_neg _, negSucc_neg _⟩ hneg
    · exact c4_fst_NP a 0 k l
    · exact c4_fst_NP a 1 k l
    · exact c4_fst_NP a 2 k l
    · exact c4_fst_NP a 3 k l
    · exact c4_fst_NP a (b + 4) k l
  · rcases int_shape4 j with ⟨b, rfl⟩ | rfl | rfl | rfl | rfl | ⟨b, rfl⟩
    · exact c4_fst_PN 0 b k l
    · exact c4_fst_ZP 0 k l
    · exact c4_fst_ZP 1 k l
    · exact c4_fst_ZP 2 k l
    · exact c4_fst_ZP 3 k l
    · exact c4_fst_ZP (b + 4) k l
  · rcases int_shape4 j with ⟨b, rfl⟩ | rfl | rfl | rfl | rfl | ⟨b, rfl⟩
    · exact c4_fst_PN 1 b k l
    · exact c4_fst_1Z k l
    · exact absurd (by decide) h
    · exact absurd (by decide) h
    · exact absurd (by decide) h
    · exact c4_fst_1B b k l
  · rcases int_shape4 j with ⟨b, rfl⟩ | rfl | rfl | rfl | rfl | ⟨b, rfl⟩
    · exact c4_fst_PN 2 b k l
    · exact c4_fst_2Z k l
    · exact absurd (by decide) h
    · exact absurd (by decide) h
    · exact absurd (by decide) h
    · exact c4_fst_2B b k l
  · rcases int_shape4 j with ⟨b, rfl⟩ | rfl | rfl | rfl | rfl | ⟨b, rfl⟩
    · exact c4_fst_PN 3 b k l
    · exact c4_fst_3Z k l
    · exact absurd (by decide) h
    · exact absurd (by decide) h
    · exact absurd (by decide) h
    · exact c4_fst_3B b k l
  · rcases int_shape4 j with ⟨b, rfl⟩ | rfl | rfl | rfl | rfl | ⟨b, rfl⟩
    · exact c4_fst_PN (a + 4) b k l
    · exact c4_fst_BZ a k l
    · exact c4_fst_B1 a k l
    · exact c4_fst_B2 a k l
    · exact c4_fst_B3 a k l
    · exact absurd ⟨four_le_ofNat _, four_le_ofNat _⟩ hbig

theorem c4_snd_bad (i j k l : Int) (hi : i ∈ idx3) (hj : j ∈ idx3) (h : ¬((1 ≤ k ∧ k ≤ 3) ∧ (1 ≤ l ∧ l ≤ 3)))
    (hneg : ¬(k < 0 ∧ l < 0)) (hbig : ¬(4 ≤ k ∧ 4 ≤ l)) :
    excKind (srcCall "c_" [.int i, .int j, .int k, .int l]) = RTE := by
  rcases int_shape4 k with ⟨a, rfl⟩ | rfl | rfl | rfl | rfl | ⟨a, rfl⟩
  · rcases int_shape4 l with ⟨b, rfl⟩ | rfl | rfl | rfl | rfl | ⟨b, rfl⟩
    · exact absurd ⟨negSucc_neg _, negSucc_neg _⟩ hneg
    · exact eq_of_beq (all_idx3 (c4_snd_NP a 0) i hi j hj)
    · exact eq_of_beq (all_idx3 (c4_snd_NP a 1) i hi j hj)
    · exact eq_of_beq (all_idx3 (c4_snd_NP a 2) i hi j hj)
    · exact eq_of_beq (all_idx3 (c4_snd_NP a 3) i hi j hj)
    · exact eq_of_beq (all_idx3 (c4_snd_NP a (b + 4)) i hi j hj)
  · rcases int_shape4 l with ⟨b, rfl⟩ | rfl | rfl | rfl | rfl | ⟨b, rfl⟩
    · exact eq_of_beq (all_idx3 (c4_snd_PN 0 b) i hi j hj)
    · exact eq_of_beq (all_idx3 (c4_snd_ZP 0) i hi j hj)
    · exact eq_of_beq (all_idx3 (c4_snd_ZP 1) i hi j hj)
    · exact eq_of_beq (all_idx3 (c4_snd_ZP 2) i hi j hj)
    · exact eq_of_beq (all_idx3 (c4_snd_ZP 3) i hi j hj)
    · exact eq_of_beq (all_idx3 (c4_snd_ZP (b + 4)) i hi j hj)
  · rcases int_shape4 l with ⟨b, rfl⟩ | rfl | rfl | rfl | rfl | ⟨b, rfl⟩
    · exact eq_of_beq (all_idx3 (c4_snd_PN 1 b) i hi j hj)
    · exact eq_of_beq (all_idx3 (c4_snd_1Z) i hi j hj)
    · exact absurd (by decide) h
    · exact absurd (by decide) h
    · exact absurd (by decide) h
    · exact eq_of_beq (all_idx3 (c4_snd_1B b) i hi j hj)
  · rcases int_shape4 l with ⟨b, rfl⟩ | rfl | rfl | rfl | rfl | ⟨b, rfl⟩
    · exact eq_of_beq (all_idx3 (c4_snd_PN 2 b) i hi j hj)
    · exact eq_of_beq (all_idx3 (c4_snd_2Z) i hi j hj)
    · exact absurd (by decide) h
    · exact absurd (by decide) h
    · exact absurd (by decide) h
    · exact eq_of_beq (all_idx3 (c4_snd_2B b) i hi j hj)
  · rcases int_shape4 l with ⟨b, rfl⟩ | rfl | rfl | rfl | rfl | ⟨b, rfl⟩
    · exact eq_of_beq (all_idx3 (c4_snd_PN 3 b) i hi j hj)
    · exact eq_of_beq (all_idx3 (c4_snd_3Z) i hi j hj)
    · exact absurd (by decide) h
    · exact absurd (by decide) h
    · exact absurd (by decide) h
    · exact eq_of_beq (all_idx3 (c4_snd_3B b) i hi j hj)
  · rcases int_shape4 l with ⟨b, rfl⟩ | rfl | rfl | rfl | rfl | ⟨b, rfl⟩
    · exact eq_of_beq (all_idx3 (c4_snd_PN (a + 4) b) i hi j hj)
    · exact eq_of_beq (all_idx3 (c4_snd_BZ a) i hi j hj)
    · exact eq_of_beq (all_idx3 (c4_snd_B1 a) i hi j hj)
    · exact eq_of_beq (all_idx3 (c4_snd_B2 a) i hi j hj)
    · exact eq_of_beq (all_idx3 (c4_snd_B3 a) i hi j hj)
    · exact absurd ⟨four_le_ofNat _, four_le_ofNat _⟩ hbig

/-- `c_(i, j, k, l)` raises RuntimeError for every quadruple of integers not all in 1..3, EXCEPT that a pair (i, j) or (k, l) with
both indices negative or both ≥ 4 is not covered here (see the file header) -/
theorem src_c4_rejects (i j k l : Int)
    (h : ¬((1 ≤ i ∧ i ≤ 3) ∧ (1 ≤ j ∧ j ≤ 3) ∧ (1 ≤ k ∧ k ≤ 3) ∧ (1 ≤ l ∧ l ≤ 3)))
    (h1 : ¬(i < 0 ∧ j < 0)) (h2 : ¬(4 ≤ i ∧ 4 ≤ j)) (h3 : ¬(k < 0 ∧ l < 0)) (h4 : ¬(4 ≤ k ∧ 4 ≤ l)) :
    excKind (srcCall "c_" [.int i, .int j, .int k, .int l]) = RTE := by
  by_cases hij : (1 ≤ i ∧ i ≤ 3) ∧ (1 ≤ j ∧ j ≤ 3)
  · exact c4_snd_bad i j k l ((mem_idx3 i).2 hij.1) ((mem_idx3 j).2 hij.2) (fun hkl => h ⟨hij.1, hij.2, hkl.1, hkl.2⟩) h3 h4
  · exact c4_fst_bad i j k l hij h1 h2

end Cij.VoigtSrc
