/-
  Lemmas about the tiny regex matcher of `CijModel/Regex.lean` (no property statements here):
  greedy repetition without backtracking when the continuation cannot start with the repeated class,
  `str.split()` against `takeWhile`/`dropWhile`, and the three shapes
    `^\D*(\d+)$`,  `^(\d+)(\s+(\d+))ⁿ$`,  `\S=\s+(\S+)\s+\S=\s+(\S+)\s+\S=\s+(\S+)`
  against their regex-free recognisers.
-/
import CijModel.Regex

namespace Cij.Regex

/-! ### character classes -/

theorem isSp_of_digit {c : Char} (h : c.isDigit = true) : isSp c = false := by
  unfold Char.isDigit at h
  simp only [Bool.and_eq_true, decide_eq_true_eq, ge_iff_le] at h
  obtain ⟨h1, h2⟩ := h
  rw [UInt32.le_iff_toNat_le] at h1 h2
  unfold isSp Char.toNat
  have e1 : '0'.val.toNat = 48 := rfl
  have e2 : '9'.val.toNat = 57 := rfl
  rw [e1] at h1; rw [e2] at h2
  simp only [Bool.or_eq_false_iff, Bool.and_eq_false_iff, decide_eq_false_iff_not]
  omega

theorem digit_ne_newline {c : Char} (h : c.isDigit = true) : c ≠ '\n' := by
  intro hc; subst hc; exact absurd h (by decide)

theorem eq_not_sp : isSp '=' = false := by decide
theorem newline_sp : isSp '\n' = true := by decide

/-! ### Ctx bookkeeping -/

@[simp] theorem eatAll_nil (x : Ctx) : x.eatAll [] = x := rfl
@[simp] theorem eatAll_cons (x : Ctx) (c : Char) (cs : List Char) : x.eatAll (c :: cs) = (x.eat c).eatAll cs := rfl

theorem eatAll_append (x : Ctx) (a b : List Char) : x.eatAll (a ++ b) = (x.eatAll a).eatAll b := by
  simp [Ctx.eatAll, List.foldl_append]

theorem eatAll_groups (x : Ctx) (cs : List Char) : (x.eatAll cs).groups = x.groups := by
  induction cs generalizing x with
  | nil => rfl
  | cons c cs ih => simp [ih, Ctx.eat]

theorem eatAll_cur (x : Ctx) (cs : List Char) : (x.eatAll cs).cur = x.cur.map (· ++ cs) := by
  induction cs generalizing x with
  | nil => cases h : x.cur <;> simp [h]
  | cons c cs ih => cases h : x.cur <;> simp [ih, Ctx.eat, h]

theorem eat_none {x : Ctx} (h : x.cur = none) (c : Char) : x.eat c = x := by
  cases x; simp_all [Ctx.eat]

theorem eatAll_none {x : Ctx} (h : x.cur = none) (cs : List Char) : x.eatAll cs = x := by
  induction cs with
  | nil => rfl
  | cons c cs ih => simp [eat_none h, ih]

/-! ### greedy repetition -/

/-- (B) if the continuation fails at every earlier stop, the loop is the continuation at the maximal run -/
theorem starLoop_greedy (t : Char → Bool) (kont : Ctx → List Char → Option Groups) (cs : List Char) (x : Ctx)
    (h : ∀ pre c suf, cs = pre ++ c :: suf → (∀ d ∈ pre, t d = true) → t c = true → kont (x.eatAll pre) (c :: suf) = none) :
    starLoop t kont cs x = kont (x.eatAll (cs.takeWhile t)) (cs.dropWhile t) := by
  induction cs generalizing x with
  | nil => rfl
  | cons c r ih =>
    by_cases hc : t c = true
    · have h0 : kont x (c :: r) = none := h [] c r rfl (by simp) hc
      have ih' := ih (x.eat c) (by
        intro pre c' suf hr hpre hc'
        have := h (c :: pre) c' suf (by simp [hr]) (by
          intro d hd
          rcases List.mem_cons.1 hd with rfl | hd
          · exact hc
          · exact hpre d hd) hc'
        simpa using this)
      simp [starLoop, hc, ih', h0, List.takeWhile_cons, List.dropWhile_cons]
    · simp [starLoop, hc, List.takeWhile_cons, List.dropWhile_cons]

/-- (A) if the continuation succeeds at the maximal run, that is the answer -/
theorem starLoop_max (t : Char → Bool) (kont : Ctx → List Char → Option Groups) (cs : List Char) (x : Ctx) (g : Groups)
    (h : kont (x.eatAll (cs.takeWhile t)) (cs.dropWhile t) = some g) : starLoop t kont cs x = some g := by
  induction cs generalizing x with
  | nil => simpa [starLoop] using h
  | cons c r ih =>
    by_cases hc : t c = true
    · have := ih (x.eat c) (by simpa [List.takeWhile_cons, List.dropWhile_cons, hc] using h)
      simp [starLoop, hc, this]
    · simpa [starLoop, hc, List.takeWhile_cons, List.dropWhile_cons] using h

/-! ### `str.split()` against takeWhile / dropWhile -/

/-- the non-space test, as `takeWhile`/`dropWhile` see it -/
abbrev ns : Char → Bool := fun c => !isSp c

theorem test_nonSpace : Cls.nonSpace.test = ns := by funext c; rfl
theorem test_space : Cls.space.test = isSp := by funext c; rfl
theorem test_digit : Cls.digit.test = Char.isDigit := by funext c; rfl
theorem test_nonDigit : Cls.nonDigit.test = fun c => !c.isDigit := by funext c; rfl

/-- nothing follows, or a space follows -/
def Bnd (r : List Char) : Prop := ∀ c, r.head? = some c → isSp c = true

/-- the last character (if any) is not a space -/
def EndsNs (r : List Char) : Prop := ∀ c, r.getLast? = some c → isSp c = false

theorem bnd_nil : Bnd [] := by intro c h; simp at h

theorem bnd_dropWhile_ns (t : List Char) : Bnd (t.dropWhile ns) := by
  induction t with
  | nil => exact bnd_nil
  | cons c t ih =>
    by_cases hc : isSp c = true
    · intro d hd; simp [List.dropWhile_cons, hc] at hd; subst hd; exact hc
    · simpa [List.dropWhile_cons, hc] using ih

theorem head_dropWhile_sp {r : List Char} {c : Char} {t : List Char} (h : r.dropWhile isSp = c :: t) : isSp c = false := by
  induction r with
  | nil => simp at h
  | cons d r ih =>
    by_cases hd : isSp d = true
    · simp [List.dropWhile_cons, hd] at h; exact ih h
    · simp [List.dropWhile_cons, hd] at h; obtain ⟨rfl, _⟩ := h; simpa using hd

theorem splitWs_sp {c : Char} (r : List Char) (h : isSp c = true) : splitWs (c :: r) = splitWs r := by
  simp [splitWs, splitAux, h]

theorem splitWs_dropSp (r : List Char) : splitWs r = splitWs (r.dropWhile isSp) := by
  induction r with
  | nil => rfl
  | cons c r ih =>
    by_cases hc : isSp c = true
    · simp [List.dropWhile_cons, hc, splitWs_sp r hc, ih]
    · simp [List.dropWhile_cons, hc]

theorem splitAux_nonsp (t r cur : List Char) (ht : ∀ d ∈ t, isSp d = false) :
    splitAux (t ++ r) cur = splitAux r (cur ++ t) := by
  induction t generalizing cur with
  | nil => simp
  | cons d t ih =>
    have hd : isSp d = false := ht d (by simp)
    simp [splitAux, hd, ih (cur ++ [d]) (fun e he => ht e (by simp [he]))]

theorem splitWs_token (t r : List Char) (hne : t ≠ []) (ht : ∀ d ∈ t, isSp d = false) (hr : Bnd r) :
    splitWs (t ++ r) = t :: splitWs r := by
  unfold splitWs
  rw [splitAux_nonsp t r [] ht]
  have he : t.isEmpty = false := by cases t <;> simp_all
  cases r with
  | nil => simp [splitAux, he]
  | cons c r' =>
    have hc : isSp c = true := hr c rfl
    simp [splitAux, hc, he]

theorem mem_takeWhile {p : Char → Bool} {t : List Char} {d : Char} (h : d ∈ t.takeWhile p) : p d = true := by
  induction t with
  | nil => simp at h
  | cons c t ih =>
    by_cases hc : p c = true
    · simp [List.takeWhile_cons, hc] at h
      rcases h with rfl | h
      · exact hc
      · exact ih h
    · simp [List.takeWhile_cons, hc] at h

theorem mem_takeWhile_ns {t : List Char} {d : Char} (h : d ∈ t.takeWhile ns) : isSp d = false := by
  simpa [ns] using mem_takeWhile h

theorem splitWs_cons_ns (c : Char) (t : List Char) (hc : isSp c = false) :
    splitWs (c :: t) = (c :: t.takeWhile ns) :: splitWs (t.dropWhile ns) := by
  have h := splitWs_token (c :: t.takeWhile ns) (t.dropWhile ns) (by simp)
    (by intro d hd; rcases List.mem_cons.1 hd with rfl | hd
        · exact hc
        · exact mem_takeWhile_ns hd) (bnd_dropWhile_ns t)
  simpa [List.takeWhile_append_dropWhile] using h

/-- the next token of a line and what follows it -/
def nextTok (r : List Char) : Option (List Char × List Char) :=
  match r.dropWhile isSp with
  | [] => none
  | c :: t => some (c :: t.takeWhile ns, t.dropWhile ns)

theorem splitWs_next (r : List Char) :
    splitWs r = match nextTok r with
      | none => []
      | some (tok, r') => tok :: splitWs r' := by
  rw [splitWs_dropSp r]
  unfold nextTok
  cases h : r.dropWhile isSp with
  | nil => rfl
  | cons c t => simp [splitWs_cons_ns c t (head_dropWhile_sp h)]

theorem nextTok_bnd {r tok r' : List Char} (h : nextTok r = some (tok, r')) : Bnd r' := by
  unfold nextTok at h
  cases hd : r.dropWhile isSp with
  | nil => simp [hd] at h
  | cons c t => simp [hd] at h; rw [← h.2]; exact bnd_dropWhile_ns t

theorem getLast?_dropWhile {p : Char → Bool} (t : List Char) (c : Char) (h : (t.dropWhile p).getLast? = some c) :
    t.getLast? = some c := by
  induction t with
  | nil => simp at h
  | cons d t ih =>
    by_cases hd : p d = true
    · simp [List.dropWhile_cons, hd] at h
      have := ih h
      cases t with
      | nil => simp at this
      | cons e t' => simpa [List.getLast?_cons_cons] using this
    · simpa [List.dropWhile_cons, hd] using h

theorem endsNs_dropWhile {p : Char → Bool} {t : List Char} (h : EndsNs t) : EndsNs (t.dropWhile p) :=
  fun c hc => h c (getLast?_dropWhile t c hc)

theorem endsNs_tail {c : Char} {t : List Char} (h : EndsNs (c :: t)) : EndsNs t := by
  intro d hd
  cases t with
  | nil => simp at hd
  | cons e t' => exact h d (by simpa [List.getLast?_cons_cons] using hd)

theorem nextTok_endsNs {r tok r' : List Char} (hE : EndsNs r) (h : nextTok r = some (tok, r')) : EndsNs r' := by
  unfold nextTok at h
  cases hd : r.dropWhile isSp with
  | nil => simp [hd] at h
  | cons c t =>
    simp [hd] at h
    rw [← h.2]
    have h1 : EndsNs (c :: t) := by rw [← hd]; exact endsNs_dropWhile hE
    exact endsNs_dropWhile (endsNs_tail h1)

theorem dropWhile_sp_nil_endsNs {r : List Char} (hE : EndsNs r) (h : r.dropWhile isSp = []) : r = [] := by
  induction r with
  | nil => rfl
  | cons c r ih =>
    by_cases hc : isSp c = true
    · simp [List.dropWhile_cons, hc] at h
      have := ih (endsNs_tail hE) h
      subst this
      have := hE c (by simp)
      simp [hc] at this
    · simp [List.dropWhile_cons, hc] at h

/-! ### one step of the matcher -/

/-- `a+` then `K`, where `K` cannot start with a character of class `a`: the maximal run, no backtracking -/
theorem run_plus (a : Cls) (K : List Instr) (x : Ctx) (c : Char) (r : List Char) (hc : a.test c = true)
    (hK : ∀ y c' s, a.test c' = true → run K y (c' :: s) = none) :
    run (.plus a :: K) x (c :: r) = run K ((x.eat c).eatAll (r.takeWhile a.test)) (r.dropWhile a.test) := by
  simp only [run, hc, if_true]
  exact starLoop_greedy a.test (run K) r (x.eat c) (fun pre c' suf _ _ hc' => hK _ c' suf hc')

theorem run_star (a : Cls) (K : List Instr) (x : Ctx) (cs : List Char)
    (hK : ∀ y c' s, a.test c' = true → run K y (c' :: s) = none) :
    run (.star a :: K) x cs = run K (x.eatAll (cs.takeWhile a.test)) (cs.dropWhile a.test) := by
  simp only [run]
  exact starLoop_greedy a.test (run K) cs x (fun pre c' suf _ _ hc' => hK _ c' suf hc')

/-- `K` cannot start on a non-space character / on a space -/
def FailNs (K : List Instr) : Prop := ∀ (y : Ctx) (c' : Char) (s : List Char), isSp c' = false → run K y (c' :: s) = none
def FailSp (K : List Instr) : Prop := ∀ (y : Ctx) (c' : Char) (s : List Char), isSp c' = true → run K y (c' :: s) = none

theorem failNs_plus_space (K : List Instr) : FailNs (.plus .space :: K) := by
  intro y c' s h; simp [run, Cls.test, h]

theorem failNs_eos : FailNs [.eos] := by
  intro y c' s h
  have : c' ≠ '\n' := by intro e; subst e; simp [newline_sp] at h
  simp [run, this]

theorem failSp_group_ns (K : List Instr) : FailSp (.gopen :: .plus .nonSpace :: K) := by
  intro y c' s h; simp [run, Cls.test, h]

theorem failSp_group_digit (K : List Instr) : FailSp (.gopen :: .plus .digit :: K) := by
  intro y c' s h
  have : c'.isDigit = false := by
    cases hd : c'.isDigit with
    | false => rfl
    | true => rw [isSp_of_digit hd] at h; exact absurd h (by decide)
  simp [run, Cls.test, this]

theorem failSp_one_ns (K : List Instr) : FailSp (.one .nonSpace :: K) := by
  intro y c' s h; simp [run, Cls.test, h]

/-- `\s+` between two items: skips exactly the spaces -/
theorem run_ws (K : List Instr) (x : Ctx) (hx : x.cur = none) (c : Char) (r : List Char) (hc : isSp c = true)
    (hK : FailSp K) : run (.plus .space :: K) x (c :: r) = run K x (r.dropWhile isSp) := by
  rw [run_plus .space K x c r hc (fun y c' s h => hK y c' s h), test_space, eat_none hx, eatAll_none hx]

/-- `(a+)` then `K` -/
theorem run_group (a : Cls) (K : List Instr) (x : Ctx) (c : Char) (r : List Char) (hc : a.test c = true)
    (hK : ∀ y c' s, a.test c' = true → run K y (c' :: s) = none) :
    run (.gopen :: .plus a :: .gclose :: K) x (c :: r)
      = run K ⟨none, x.groups ++ [c :: r.takeWhile a.test]⟩ (r.dropWhile a.test) := by
  have hK' : ∀ y c' s, a.test c' = true → run (.gclose :: K) y (c' :: s) = none := by
    intro y c' s h; simp [run, hK _ c' s h]
  have h1 : run (.gopen :: .plus a :: .gclose :: K) x (c :: r)
      = run (.plus a :: .gclose :: K) { x with cur := some [] } (c :: r) := by simp [run]
  rw [h1, run_plus a _ _ c r hc hK']
  simp [run, eatAll_cur, eatAll_groups, Ctx.eat]

/-- `(a+)` at the end of the pattern: the maximal run -/
theorem run_group_last (a : Cls) (x : Ctx) (c : Char) (r : List Char) (hc : a.test c = true) :
    run [.gopen, .plus a, .gclose] x (c :: r) = some (x.groups ++ [c :: r.takeWhile a.test]) := by
  simp only [run, hc, if_true]
  apply starLoop_max
  simp [run, eatAll_cur, eatAll_groups, Ctx.eat]

/-! ### digit runs inside tokens -/

theorem digit_vs_ns (t : List Char) :
    (t.dropWhile Char.isDigit = [] ∧ t.takeWhile ns = t ∧ t.dropWhile ns = [] ∧ t.takeWhile Char.isDigit = t ∧
        t.all Char.isDigit = true) ∨
    (∃ y s, t.dropWhile Char.isDigit = y :: s ∧ isSp y = true ∧ t.takeWhile ns = t.takeWhile Char.isDigit ∧
        t.dropWhile ns = y :: s ∧ (t.takeWhile Char.isDigit).all Char.isDigit = true) ∨
    (∃ y s, t.dropWhile Char.isDigit = y :: s ∧ isSp y = false ∧ (t.takeWhile ns).all Char.isDigit = false) := by
  induction t with
  | nil => left; simp
  | cons d t ih =>
    by_cases hd : d.isDigit = true
    · have hs : isSp d = false := isSp_of_digit hd
      have e1 : (d :: t).dropWhile Char.isDigit = t.dropWhile Char.isDigit := by simp [List.dropWhile_cons, hd]
      have e2 : (d :: t).takeWhile Char.isDigit = d :: t.takeWhile Char.isDigit := by simp [List.takeWhile_cons, hd]
      have e3 : (d :: t).dropWhile ns = t.dropWhile ns := by simp [List.dropWhile_cons, ns, hs]
      have e4 : (d :: t).takeWhile ns = d :: t.takeWhile ns := by simp [List.takeWhile_cons, ns, hs]
      rw [e1, e2, e3, e4]
      rcases ih with ⟨h1, h2, h3, h4, h5⟩ | ⟨y, s, h1, h2, h3, h4, h5⟩ | ⟨y, s, h1, h2, h3⟩
      · left; rw [h2, h4]; exact ⟨h1, rfl, h3, rfl, by simp [hd, h5]⟩
      · right; left; exact ⟨y, s, h1, h2, by rw [h3], h4, by simp [hd, h5]⟩
      · right; right; exact ⟨y, s, h1, h2, by simp [h3]⟩
    · by_cases hs : isSp d = true
      · right; left; exact ⟨d, t, by simp [List.dropWhile_cons, List.takeWhile_cons, hd, hs, ns]⟩
      · right; right; exact ⟨d, t, by simp [List.dropWhile_cons, List.takeWhile_cons, hd, hs, ns]⟩

/-! ### `^\D*(\d+)$` -/

def patModulus : List Instr := [.bos, .star .nonDigit, .gopen, .plus .digit, .gclose, .eos]

theorem dropWhile_digit_nil_iff (r : List Char) : r.dropWhile Char.isDigit = [] ↔ r.all Char.isDigit = true := by
  induction r with
  | nil => simp
  | cons c r ih =>
    by_cases hc : c.isDigit = true
    · simp [List.dropWhile_cons, hc, ih]
    · simp [List.dropWhile_cons, hc]

theorem takeWhile_digit_all (r : List Char) (h : r.all Char.isDigit = true) : r.takeWhile Char.isDigit = r := by
  induction r with
  | nil => rfl
  | cons c r ih =>
    simp only [List.all_cons, Bool.and_eq_true] at h
    simp [List.takeWhile_cons, h.1, ih h.2]

theorem mem_of_mem_dropWhile {p : Char → Bool} {t : List Char} {c : Char} (h : c ∈ t.dropWhile p) : c ∈ t :=
  (List.dropWhile_sublist p).subset h

/-- on a string that holds no newline, `re.search(r"^\D*(\d+)$", s)` is the regex-free recogniser -/
theorem search_modulus (cs : List Char) (hnl : ∀ c ∈ cs, c ≠ '\n') : search patModulus cs = recogModulus cs := by
  have hK1 : ∀ (y : Ctx) (c' : Char) (s : List Char), Cls.nonDigit.test c' = true →
      run [.gopen, .plus .digit, .gclose, .eos] y (c' :: s) = none := by
    intro y c' s h
    have : c'.isDigit = false := by simpa [Cls.test] using h
    simp [run, Cls.test, this]
  have hK2 : ∀ (y : Ctx) (c' : Char) (s : List Char), Cls.digit.test c' = true → run [.eos] y (c' :: s) = none := by
    intro y c' s h
    have : c' ≠ '\n' := digit_ne_newline (by simpa [Cls.test] using h)
    simp [run, this]
  show run [.star .nonDigit, .gopen, .plus .digit, .gclose, .eos] start cs = recogModulus cs
  rw [run_star .nonDigit _ start cs hK1, test_nonDigit]
  unfold recogModulus
  have hmem : ∀ c ∈ cs.dropWhile (fun c => !c.isDigit), c ≠ '\n' := fun c hc => hnl c (mem_of_mem_dropWhile hc)
  cases hsuf : cs.dropWhile (fun c => !c.isDigit) with
  | nil => simp [run]
  | cons d r =>
    rw [hsuf] at hmem
    by_cases hd : d.isDigit = true
    · rw [run_group .digit [.eos] _ d r hd hK2, test_digit]
      simp only [run, start, eatAll_groups, List.nil_append]
      by_cases hall : r.all Char.isDigit = true
      · have h1 : r.dropWhile Char.isDigit = [] := (dropWhile_digit_nil_iff r).2 hall
        simp [h1, takeWhile_digit_all r hall, hd, hall]
      · have h1 : r.dropWhile Char.isDigit ≠ [] := fun h => hall ((dropWhile_digit_nil_iff r).1 h)
        have h2 : r.dropWhile Char.isDigit ≠ ['\n'] := by
          intro h
          have : '\n' ∈ r.dropWhile Char.isDigit := by rw [h]; simp
          exact hmem '\n' (by simp [mem_of_mem_dropWhile this]) rfl
        simp [h1, h2, hd, hall]
    · simp [run, Cls.test, hd]

/-! ### `^(\d+)\s+(\d+) … \s+(\d+)$` -/

/-- `(\d+)` then `K` at the beginning of a token: the WHOLE token must be digits -/
theorem run_GD (K : List Instr) (x : Ctx) (c : Char) (t : List Char) (hc : isSp c = false) (hK : FailNs K) :
    run (.gopen :: .plus .digit :: .gclose :: K) x (c :: t)
      = if (c :: t.takeWhile ns).all Char.isDigit = true
        then run K ⟨none, x.groups ++ [c :: t.takeWhile ns]⟩ (t.dropWhile ns) else none := by
  by_cases hd : c.isDigit = true
  · have hKd : ∀ (y : Ctx) (c' : Char) (s : List Char), Cls.digit.test c' = true → run K y (c' :: s) = none :=
      fun y c' s h => hK y c' s (isSp_of_digit (by simpa [Cls.test] using h))
    rw [run_group .digit K x c t hd hKd, test_digit]
    rcases digit_vs_ns t with ⟨h1, h2, h3, h4, h5⟩ | ⟨y, s, h1, h2, h3, h4, h5⟩ | ⟨y, s, h1, h2, h3⟩
    · simp [h1, h2, h3, h4, h5, hd]
    · rw [h3, h4, h1]; simp [hd, h5]
    · rw [h1, hK _ y s h2]; simp [h3]
  · simp [run, Cls.test, hd]

/-- `\s+(\d+)` then `K`, in terms of the next token of the line -/
theorem run_WD (K : List Instr) (x : Ctx) (hx : x.cur = none) (r : List Char) (hB : Bnd r) (hK : FailNs K) :
    run (.plus .space :: .gopen :: .plus .digit :: .gclose :: K) x r
      = match nextTok r with
        | none => none
        | some (tok, r') => if tok.all Char.isDigit = true then run K ⟨none, x.groups ++ [tok]⟩ r' else none := by
  cases r with
  | nil => simp [run, nextTok]
  | cons s r1 =>
    have hs : isSp s = true := hB s rfl
    rw [run_ws _ x hx s r1 hs (failSp_group_digit _)]
    unfold nextTok
    simp only [List.dropWhile_cons, hs, if_true]
    cases hd : r1.dropWhile isSp with
    | nil => simp [run]
    | cons c t => simp only []; exact run_GD K x c t (head_dropWhile_sp hd) hK

def infoTail : Nat → List Instr
  | 0 => [.eos]
  | n + 1 => .plus .space :: .gopen :: .plus .digit :: .gclose :: infoTail n

theorem failNs_infoTail (n : Nat) : FailNs (infoTail n) := by
  cases n with
  | zero => exact failNs_eos
  | succ n => exact failNs_plus_space _

theorem run_infoTail (n : Nat) (x : Ctx) (hx : x.cur = none) (r : List Char) (hB : Bnd r) (hE : EndsNs r) :
    run (infoTail n) x r
      = if ((splitWs r).length == n && (splitWs r).all (fun t => t.all Char.isDigit)) = true
        then some (x.groups ++ splitWs r) else none := by
  induction n generalizing x r with
  | zero =>
    cases r with
    | nil => simp [infoTail, run, splitWs, splitAux]
    | cons c t =>
      have h1 : c :: t ≠ ['\n'] := by
        intro h
        have := hE '\n' (by rw [h]; rfl)
        simp [newline_sp] at this
      have h2 : splitWs (c :: t) ≠ [] := by
        intro h
        rw [splitWs_next] at h
        cases hn : nextTok (c :: t) with
        | none =>
          unfold nextTok at hn
          cases hd : (c :: t).dropWhile isSp with
          | nil => exact absurd (dropWhile_sp_nil_endsNs hE hd) (by simp)
          | cons a b => simp [hd] at hn
        | some p => simp [hn] at h
      have h3 : (splitWs (c :: t)).length ≠ 0 := by simpa using h2
      simp [infoTail, run, h1, h3]
  | succ n ih =>
    show run (.plus .space :: .gopen :: .plus .digit :: .gclose :: infoTail n) x r = _
    rw [run_WD _ x hx r hB (failNs_infoTail n), splitWs_next r]
    cases hn : nextTok r with
    | none => simp
    | some p =>
      obtain ⟨tok, r'⟩ := p
      simp only []
      by_cases ht : tok.all Char.isDigit = true
      · rw [if_pos ht, ih ⟨none, x.groups ++ [tok]⟩ rfl r' (nextTok_bnd hn) (nextTok_endsNs hE hn)]
        simp [ht]
      · simp [ht]

def patInfo : List Instr := .bos :: .gopen :: .plus .digit :: .gclose :: infoTail 4

/-- on a stripped line, `re.search(REGEX_INFO_START, s)` = "exactly five tokens, all digits" -/
theorem search_info (cs : List Char) (hs : Stripped cs) : search patInfo cs = recogInfo cs := by
  show run (.gopen :: .plus .digit :: .gclose :: infoTail 4) start cs = recogInfo cs
  unfold recogInfo
  cases cs with
  | nil => simp [run, splitWs, splitAux]
  | cons c t =>
    have hc : isSp c = false := hs.1 c rfl
    have hE : EndsNs (c :: t) := hs.2
    rw [run_GD _ start c t hc (failNs_infoTail 4), splitWs_cons_ns c t hc]
    by_cases ht : (c :: t.takeWhile ns).all Char.isDigit = true
    · rw [if_pos ht, run_infoTail 4 _ rfl _ (bnd_dropWhile_ns t) (endsNs_dropWhile (endsNs_tail hE))]
      simp only [List.all_cons, Bool.and_eq_true] at ht
      simp [start, ht.1, ht.2]
    · rw [if_neg ht]
      simp only [List.all_cons, Bool.and_eq_true, not_and] at ht
      simp only [List.all_cons]
      by_cases h1 : c.isDigit = true
      · simp [h1, ht h1]
      · simp [h1]

/-! ### `\S=\s+(\S+)\s+\S=\s+(\S+)\s+\S=\s+(\S+)` -/

/-- `\s+(\S+)` then `K` / `\s+\S=` then `K` -/
abbrev WV (K : List Instr) : List Instr := .plus .space :: .gopen :: .plus .nonSpace :: .gclose :: K
abbrev WL (K : List Instr) : List Instr := .plus .space :: .one .nonSpace :: .one (.lit '=') :: K

def pveAfter : List Instr := WV (WL (WV (WL (WV []))))
def patPVE : List Instr := .one .nonSpace :: .one (.lit '=') :: pveAfter

theorem run_WV (K : List Instr) (x : Ctx) (hx : x.cur = none) (r : List Char) (hB : Bnd r) (hK : FailNs K) :
    run (WV K) x r = match nextTok r with
      | none => none
      | some (tok, r') => run K ⟨none, x.groups ++ [tok]⟩ r' := by
  cases r with
  | nil => simp [run, nextTok]
  | cons s r1 =>
    have hs : isSp s = true := hB s rfl
    rw [run_ws _ x hx s r1 hs (failSp_group_ns _)]
    unfold nextTok
    simp only [List.dropWhile_cons, hs, if_true]
    cases hd : r1.dropWhile isSp with
    | nil => simp [run]
    | cons c t =>
      have hc : isSp c = false := head_dropWhile_sp hd
      have := run_group .nonSpace K x c t (by simp [Cls.test, hc])
        (fun y c' s h => hK y c' s (by simpa [Cls.test] using h))
      rw [test_nonSpace] at this
      simpa using this

theorem run_WV_last (x : Ctx) (hx : x.cur = none) (r : List Char) (hB : Bnd r) :
    run (WV []) x r = match nextTok r with
      | none => none
      | some (tok, _) => some (x.groups ++ [tok]) := by
  cases r with
  | nil => simp [run, nextTok]
  | cons s r1 =>
    have hs : isSp s = true := hB s rfl
    rw [run_ws _ x hx s r1 hs (failSp_group_ns _)]
    unfold nextTok
    simp only [List.dropWhile_cons, hs, if_true]
    cases hd : r1.dropWhile isSp with
    | nil => simp [run]
    | cons c t =>
      have hc : isSp c = false := head_dropWhile_sp hd
      have := run_group_last .nonSpace x c t (by simp [Cls.test, hc])
      rw [test_nonSpace] at this
      simpa using this

theorem isLabel2c_two (c e : Char) : isLabel2c [c, e] = (e == '=') := by
  unfold isLabel2c
  by_cases he : e = '='
  · subst he; rfl
  · split
    · rename_i h; simp at h; exact absurd h.2 he
    · simp [he]

theorem isLabel2c_one (c : Char) : isLabel2c [c] = false := rfl
theorem isLabel2c_three (c e z : Char) (t : List Char) : isLabel2c (c :: e :: z :: t) = false := by
  simp [isLabel2c]

theorem run_WL (K : List Instr) (x : Ctx) (hx : x.cur = none) (r : List Char) (hB : Bnd r) (hK : FailNs K) :
    run (WL K) x r = match nextTok r with
      | none => none
      | some (tok, r') => if isLabel2c tok = true then run K x r' else none := by
  cases r with
  | nil => simp [run, nextTok]
  | cons s r1 =>
    have hs : isSp s = true := hB s rfl
    rw [run_ws _ x hx s r1 hs (failSp_one_ns _)]
    unfold nextTok
    simp only [List.dropWhile_cons, hs, if_true]
    cases hd : r1.dropWhile isSp with
    | nil => simp [run]
    | cons c t =>
      have hc : isSp c = false := head_dropWhile_sp hd
      simp only [run, Cls.test, hc, Bool.not_false, if_true, eat_none hx]
      cases t with
      | nil => simp [isLabel2c_one]
      | cons e t' =>
        by_cases he : e = '='
        · subst he
          have h0 : isSp '=' = false := eq_not_sp
          simp only [beq_self_eq_true, if_true, eat_none hx]
          cases t' with
          | nil => simp [ns, h0, isLabel2c_two]
          | cons z t'' =>
            by_cases hz : isSp z = true
            · simp [ns, h0, hz, isLabel2c_two, List.takeWhile_cons, List.dropWhile_cons]
            · have hz' : isSp z = false := by simpa using hz
              simp [ns, h0, hz', List.takeWhile_cons, List.dropWhile_cons, isLabel2c_three, hK _ z t'' hz']
        · have he' : (e == '=') = false := by simpa using he
          simp only [he', Bool.false_eq_true, if_false]
          by_cases hes : isSp e = true
          · simp [ns, hes, List.takeWhile_cons, isLabel2c_one]
          · have hes' : isSp e = false := by simpa using hes
            cases t' with
            | nil => simp [ns, hes', List.takeWhile_cons, isLabel2c_two, he']
            | cons z t'' =>
              by_cases hz : isSp z = true
              · simp [ns, hes', hz, List.takeWhile_cons, isLabel2c_two, he']
              · have hz' : isSp z = false := by simpa using hz
                simp [ns, hes', hz', List.takeWhile_cons, isLabel2c_three]

/-- what must follow the first label, at token level -/
def aft : List (List Char) → Option Groups
  | a :: l2 :: b :: l3 :: c :: _ => if (isLabel2c l2 && isLabel2c l3) = true then some [a, b, c] else none
  | _ => none

theorem failNs_WV (K : List Instr) : FailNs (WV K) := failNs_plus_space _
theorem failNs_WL (K : List Instr) : FailNs (WL K) := failNs_plus_space _

theorem run_pveAfter (r : List Char) (hB : Bnd r) : run pveAfter start r = aft (splitWs r) := by
  unfold pveAfter
  rw [run_WV _ start rfl r hB (failNs_WL _), splitWs_next r]
  cases h1 : nextTok r with
  | none => simp [aft]
  | some p1 =>
    obtain ⟨a, r1⟩ := p1
    simp only []
    rw [run_WL _ _ rfl r1 (nextTok_bnd h1) (failNs_WV _), splitWs_next r1]
    cases h2 : nextTok r1 with
    | none => simp [aft]
    | some p2 =>
      obtain ⟨l2, r2⟩ := p2
      simp only []
      by_cases hl2 : isLabel2c l2 = true
      · rw [if_pos hl2, run_WV _ _ rfl r2 (nextTok_bnd h2) (failNs_WL _), splitWs_next r2]
        cases h3 : nextTok r2 with
        | none => simp [aft]
        | some p3 =>
          obtain ⟨b, r3⟩ := p3
          simp only []
          rw [run_WL _ _ rfl r3 (nextTok_bnd h3) (failNs_WV _), splitWs_next r3]
          cases h4 : nextTok r3 with
          | none => simp [aft]
          | some p4 =>
            obtain ⟨l3, r4⟩ := p4
            simp only []
            by_cases hl3 : isLabel2c l3 = true
            · rw [if_pos hl3, run_WV_last _ rfl r4 (nextTok_bnd h4), splitWs_next r4]
              cases h5 : nextTok r4 with
              | none => simp [aft]
              | some p5 =>
                obtain ⟨c, r5⟩ := p5
                simp [aft, hl2, hl3, start]
            · rw [if_neg hl3, splitWs_next r4]
              cases h5 : nextTok r4 with
              | none => simp [aft]
              | some p5 => simp [aft, hl3]
      · rw [if_neg hl2, splitWs_next r2]
        cases h3 : nextTok r2 with
        | none => simp [aft]
        | some p3 =>
          obtain ⟨b, r3⟩ := p3
          simp only []
          rw [splitWs_next r3]
          cases h4 : nextTok r3 with
          | none => simp [aft]
          | some p4 =>
            obtain ⟨l3, r4⟩ := p4
            simp only []
            rw [splitWs_next r4]
            cases h5 : nextTok r4 with
            | none => simp [aft]
            | some p5 => simp [aft, hl2]

/-! #### the start position: only the last two characters of a token can start a match -/

theorem isLabel1c_nil : isLabel1c [] = false := rfl
theorem isLabel1c_one (y : Char) : isLabel1c [y] = false := by simp [isLabel1c]
theorem isLabel1c_two (y e : Char) : isLabel1c [y, e] = (e == '=') := by
  unfold isLabel1c
  by_cases he : e = '='
  · subst he; rfl
  · simp only [List.reverse_cons, List.reverse_nil, List.nil_append, List.cons_append]
    split
    · rename_i h; simp at h; exact absurd h.1 he
    · simp [he]

theorem isLabel1c_cons (y e : Char) (t : List Char) (ht : t ≠ []) : isLabel1c (y :: e :: t) = isLabel1c (e :: t) := by
  obtain ⟨a, b, hab⟩ : ∃ a b, t.reverse = a :: b := by
    cases h : t.reverse with
    | nil => exact absurd (List.reverse_eq_nil_iff.1 h) ht
    | cons a b => exact ⟨a, b, rfl⟩
  unfold isLabel1c
  simp only [List.reverse_cons, hab, List.cons_append]
  by_cases ha : a = '='
  · subst ha
    cases b <;> rfl
  · split
    · rename_i h; simp at h; exact absurd h.1 ha
    · split
      · rename_i h; simp at h; exact absurd h.1 ha
      · rfl

theorem matchPVEc_short (tl : List (List Char)) (h : tl.length ≤ 5) : matchPVEc tl = none := by
  match tl, h with
  | [], _ => rfl
  | [_], _ => rfl
  | [_, _], _ => rfl
  | [_, _, _], _ => rfl
  | [_, _, _, _], _ => rfl
  | [_, _, _, _, _], _ => rfl

theorem aft_short (tl : List (List Char)) (h : tl.length ≤ 4) : aft tl = none := by
  match tl, h with
  | [], _ => rfl
  | [_], _ => rfl
  | [_, _], _ => rfl
  | [_, _, _], _ => rfl
  | [_, _, _, _], _ => rfl

/-- the model's token-level search, one token at a time -/
theorem matchPVEc_cons (T : List Char) (tl : List (List Char)) :
    matchPVEc (T :: tl) = if isLabel1c T = true then (aft tl).orElse (fun _ => matchPVEc tl) else matchPVEc tl := by
  match tl with
  | a :: l2 :: b :: l3 :: c :: rest =>
    simp only [matchPVEc, aft]
    by_cases h1 : isLabel1c T = true
    · by_cases h2 : (isLabel2c l2 && isLabel2c l3) = true
      · simp [h1, h2]
      · simp [h1, h2]
    · simp [h1]
  | [] => simp [matchPVEc, aft]
  | [_] => simp [matchPVEc, aft]
  | [_, _] => simp [matchPVEc, aft]
  | [_, _, _] => simp [matchPVEc, aft]
  | [_, _, _, _] => simp [matchPVEc, aft]

/-- searching inside the rest `t` of a token that is followed by `r'` -/
theorem searchFrom_token (t r' : List Char) (ht : ∀ d ∈ t, isSp d = false) (hB : Bnd r')
    (H : searchFrom patPVE r' = matchPVEc (splitWs r')) :
    searchFrom patPVE (t ++ r')
      = if isLabel1c t = true then (aft (splitWs r')).orElse (fun _ => matchPVEc (splitWs r'))
        else matchPVEc (splitWs r') := by
  induction t with
  | nil => simpa [isLabel1c_nil] using H
  | cons y t' ih =>
    have hy : isSp y = false := ht y (by simp)
    have ih' := ih (fun d hd => ht d (by simp [hd]))
    have hstep : searchFrom patPVE (y :: t' ++ r')
        = (run (.one (.lit '=') :: pveAfter) start (t' ++ r')).orElse (fun _ => searchFrom patPVE (t' ++ r')) := by
      simp [searchFrom, patPVE, run, Cls.test, hy, eat_none (x := start) rfl]
    rw [hstep, ih']
    cases t' with
    | nil =>
      simp only [List.nil_append]
      have hrun : run (.one (.lit '=') :: pveAfter) start r' = none := by
        cases r' with
        | nil => simp [run]
        | cons s r1 =>
          have hs : isSp s = true := hB s rfl
          have : (s == '=') = false := by
            cases hq : (s == '=') with
            | false => rfl
            | true =>
              have : s = '=' := by simpa using hq
              subst this; rw [eq_not_sp] at hs; exact absurd hs (by decide)
          simp [run, Cls.test, this]
      simp [hrun, isLabel1c_nil, isLabel1c_one]
    | cons e t'' =>
      by_cases he : e = '='
      · subst he
        have hrun : run (.one (.lit '=') :: pveAfter) start ('=' :: t'' ++ r') = run pveAfter start (t'' ++ r') := by
          simp [run, Cls.test, eat_none (x := start) rfl]
        rw [hrun]
        cases t'' with
        | nil =>
          simp only [List.nil_append]
          rw [run_pveAfter r' hB]
          simp [isLabel1c_one, isLabel1c_two]
        | cons z t3 =>
          have hz : isSp z = false := ht z (by simp)
          have : run pveAfter start (z :: t3 ++ r') = none := failNs_WV _ start z (t3 ++ r') hz
          rw [this, isLabel1c_cons y '=' (z :: t3) (by simp)]
          simp
      · have he' : (e == '=') = false := by simpa using he
        have hrun : run (.one (.lit '=') :: pveAfter) start (e :: t'' ++ r') = none := by
          simp [run, Cls.test, he']
        rw [hrun]
        cases t'' with
        | nil => simp [isLabel1c_one, isLabel1c_two, he']
        | cons z t3 => rw [isLabel1c_cons y e (z :: t3) (by simp)]; simp

theorem searchFrom_pve_aux (n : Nat) : ∀ cs : List Char, cs.length ≤ n → searchFrom patPVE cs = matchPVEc (splitWs cs) := by
  induction n with
  | zero =>
    intro cs h
    have : cs = [] := List.length_eq_zero_iff.1 (by omega)
    subst this
    simp [searchFrom, patPVE, run, splitWs, splitAux, matchPVEc]
  | succ n ih =>
    intro cs h
    cases cs with
    | nil => simp [searchFrom, patPVE, run, splitWs, splitAux, matchPVEc]
    | cons c r =>
      have hr : r.length ≤ n := by simp at h; omega
      by_cases hc : isSp c = true
      · have : run patPVE start (c :: r) = none := by simp [patPVE, run, Cls.test, hc]
        rw [searchFrom, this, splitWs_sp r hc]
        simpa using ih r hr
      · have hc' : isSp c = false := by simpa using hc
        have hsplit : c :: r = (c :: r.takeWhile ns) ++ r.dropWhile ns := by
          simp [List.takeWhile_append_dropWhile]
        have hlen : (r.dropWhile ns).length ≤ n :=
          Nat.le_trans (List.dropWhile_sublist ns (l := r)).length_le hr
        rw [hsplit, searchFrom_token (c :: r.takeWhile ns) (r.dropWhile ns)
          (by intro d hd; rcases List.mem_cons.1 hd with rfl | hd
              · exact hc'
              · exact mem_takeWhile_ns hd)
          (bnd_dropWhile_ns r) (ih _ hlen), ← hsplit, splitWs_cons_ns c r hc', matchPVEc_cons]

/-- `re.search(REGEX_PVE, line)` on ANY line = the token-level search of the model -/
theorem searchFrom_pve (cs : List Char) : searchFrom patPVE cs = recogPVE cs :=
  searchFrom_pve_aux cs.length cs (Nat.le_refl _)

theorem search_pve (cs : List Char) : search patPVE cs = recogPVE cs := by
  rw [← searchFrom_pve]; rfl

end Cij.Regex
