/- Helper lemmas for C20 (evec_sort greedy loop, disp2eig algebra, loader structure): no property statements here. -/
import CijModel.Evec
import Mathlib.Data.Finset.Card
import Mathlib.Data.Finset.Image
import Mathlib.Order.Defs.LinearOrder
import Mathlib.Data.List.Perm.Basic
import Mathlib.Data.List.Range
import Mathlib.Data.Finset.Range
import Mathlib.Analysis.InnerProductSpace.Basic
import Mathlib.Tactic.Linarith
import Mathlib.Tactic.Ring
import Mathlib.Tactic.FieldSimp

set_option linter.unusedSectionVars false

namespace Cij.Evec

section greedy
variable {α : Type} [LinearOrder α] [Zero α] {ι : Type}

theorem mem_pairs (n : Nat) (p : Nat × Nat) : p ∈ pairs n ↔ p.1 < n ∧ p.2 < n := by
  obtain ⟨i, j⟩ := p
  simp only [pairs, List.mem_flatMap, List.mem_range, List.mem_map, Prod.mk.injEq]
  constructor
  · rintro ⟨a, ha, b, hb, rfl, rfl⟩; exact ⟨ha, hb⟩
  · rintro ⟨hi, hj⟩; exact ⟨i, hi, j, hj, rfl, rfl⟩

/-- the fold of `argmax2`: the result is the start value or a member, and it is ≥ the start value and every member -/
theorem foldl_argmax (a : Nat → Nat → α) (L : List (Nat × Nat)) (b0 : Nat × Nat) :
    let r := L.foldl (fun best p => if a best.1 best.2 < a p.1 p.2 then p else best) b0
    (r = b0 ∨ r ∈ L) ∧ a b0.1 b0.2 ≤ a r.1 r.2 ∧ ∀ p ∈ L, a p.1 p.2 ≤ a r.1 r.2 := by
  induction L generalizing b0 with
  | nil => simp
  | cons q L ih =>
    simp only [List.foldl_cons]
    by_cases h : a b0.1 b0.2 < a q.1 q.2
    · rw [if_pos h]
      obtain ⟨h1, h2, h3⟩ := ih q
      refine ⟨?_, le_trans (le_of_lt h) h2, ?_⟩
      · rcases h1 with h1 | h1
        · right; rw [h1]; simp
        · right; simp [h1]
      · intro p hp
        rcases List.mem_cons.mp hp with rfl | hp
        · exact h2
        · exact h3 p hp
    · rw [if_neg h]
      obtain ⟨h1, h2, h3⟩ := ih b0
      refine ⟨?_, h2, ?_⟩
      · rcases h1 with h1 | h1
        · left; exact h1
        · right; simp [h1]
      · intro p hp
        rcases List.mem_cons.mp hp with rfl | hp
        · exact le_trans (not_lt.mp h) h2
        · exact h3 p hp

/-- `argmax2` on a non-empty matrix: an index pair in range whose entry is ≥ every entry -/
theorem argmax2_spec (n : Nat) (hn : 0 < n) (a : Nat → Nat → α) :
    (argmax2 n a).1 < n ∧ (argmax2 n a).2 < n ∧ ∀ i < n, ∀ j < n, a i j ≤ a (argmax2 n a).1 (argmax2 n a).2 := by
  obtain ⟨h1, _, h3⟩ := foldl_argmax a (pairs n) (0, 0)
  have hmem : argmax2 n a ∈ pairs n := by
    rcases h1 with h1 | h1
    · unfold argmax2; rw [h1]; exact (mem_pairs n (0, 0)).2 ⟨hn, hn⟩
    · exact h1
  have := (mem_pairs n _).1 hmem
  exact ⟨this.1, this.2, fun i hi j hj => h3 (i, j) ((mem_pairs n (i, j)).2 ⟨hi, hj⟩)⟩

/-- the matrix after the rows `E` and their planted columns `π(E)` have been zeroed -/
def elim (a : Nat → Nat → α) (π : Nat → Nat) (E : Finset Nat) : Nat → Nat → α :=
  fun i j => if i ∈ E ∨ ∃ r ∈ E, j = π r then 0 else a i j

theorem elim_empty (a : Nat → Nat → α) (π : Nat → Nat) : elim a π ∅ = a := by
  funext i j; simp [elim]

theorem zeroRC_elim (a : Nat → Nat → α) (π : Nat → Nat) (E : Finset Nat) (r : Nat) :
    zeroRC (elim a π E) r (π r) = elim a π (insert r E) := by
  funext i j
  simp only [zeroRC, elim, Finset.mem_insert]
  by_cases h1 : i = r
  · simp [h1]
  · by_cases h2 : j = π r
    · simp [h2]
    · by_cases h3 : i ∈ E
      · simp [h3]
      · by_cases h4 : ∃ r' ∈ E, j = π r'
        · have : ∃ r_1, (r_1 = r ∨ r_1 ∈ E) ∧ j = π r_1 := by
            obtain ⟨r', hr', hj⟩ := h4; exact ⟨r', Or.inr hr', hj⟩
          simp [h1, h2, h3, h4, this]
        · have : ¬ ∃ r_1, (r_1 = r ∨ r_1 ∈ E) ∧ j = π r_1 := by
            rintro ⟨r', hr' | hr', hj⟩
            · exact h2 (hr' ▸ hj)
            · exact h4 ⟨r', hr', hj⟩
          simp [h1, h2, h3, h4, this]

/-- the dominance hypothesis: `π` permutes the indices below `n`, every planted entry is positive and strictly
larger than every other entry of its row -/
structure Planted (n : Nat) (a : Nat → Nat → α) (π : Nat → Nat) : Prop where
  range : ∀ i < n, π i < n
  inj : ∀ i < n, ∀ j < n, π i = π j → i = j
  pos : ∀ i < n, 0 < a i (π i)
  row : ∀ i < n, ∀ j < n, j ≠ π i → a i j < a i (π i)

/-- one round: while a row is left, the global argmax of the partly zeroed matrix is a planted pair of a row not
yet eliminated -/
theorem argmax_elim (n : Nat) (a : Nat → Nat → α) (π : Nat → Nat) (hP : Planted n a π) (E : Finset Nat)
    (hEn : ∀ r ∈ E, r < n) (i0 : Nat) (hi0 : i0 < n) (hi0E : i0 ∉ E) :
    (argmax2 n (elim a π E)).1 < n ∧ (argmax2 n (elim a π E)).1 ∉ E ∧
      (argmax2 n (elim a π E)).2 = π (argmax2 n (elim a π E)).1 := by
  obtain ⟨hr, hc, hmax⟩ := argmax2_spec n (lt_of_le_of_lt (Nat.zero_le _) hi0) (elim a π E)
  generalize argmax2 n (elim a π E) = p at hr hc hmax
  obtain ⟨r, c⟩ := p
  simp only at hr hc hmax ⊢
  -- a planted entry of a remaining row survives in the zeroed matrix
  have surv : ∀ i < n, i ∉ E → elim a π E i (π i) = a i (π i) := by
    intro i hi hiE
    have : ¬ ∃ r ∈ E, π i = π r := by
      rintro ⟨r', hrE, h⟩
      exact hiE (hP.inj i hi r' (hEn r' hrE) h ▸ hrE)
    simp [elim, hiE, this]
  -- the maximum is positive, hence not a zeroed entry
  have hpos : 0 < elim a π E r c := by
    have h1 := hmax i0 hi0 (π i0) (hP.range i0 hi0)
    rw [surv i0 hi0 hi0E] at h1
    exact lt_of_lt_of_le (hP.pos i0 hi0) h1
  have hnz : ¬ (r ∈ E ∨ ∃ r' ∈ E, c = π r') := by
    intro h
    simp [elim, h] at hpos
  have hrE : r ∉ E := fun h => hnz (Or.inl h)
  have hval : elim a π E r c = a r c := by simp [elim, hnz]
  refine ⟨hr, hrE, ?_⟩
  by_contra hne
  have h1 := hmax r hr (π r) (hP.range r hr)
  rw [surv r hr hrE, hval] at h1
  exact absurd (hP.row r hr c hc hne) (not_lt.mpr h1)

/-- the loop invariant: after the rows `E` are done, `k = n - |E|` further rounds assign every remaining row its
planted item and leave the rows of `E` (and everything beyond `n`) untouched -/
theorem greedyLoop_elim (n : Nat) (a : Nat → Nat → α) (π : Nat → Nat) (hP : Planted n a π) (target : Nat → ι) :
    ∀ (k : Nat) (E : Finset Nat) (s : Nat → Option ι), (∀ r ∈ E, r < n) → E.card + k = n →
      (∀ i < n, i ∉ E → greedyLoop n target k (elim a π E) s i = some (target (π i))) ∧
      (∀ i, (i ∈ E ∨ n ≤ i) → greedyLoop n target k (elim a π E) s i = s i) := by
  intro k
  induction k with
  | zero =>
    intro E s hEn hcard
    have hE : E = Finset.range n := by
      apply Finset.eq_of_subset_of_card_le
      · intro r hr; exact Finset.mem_range.mpr (hEn r hr)
      · simp at hcard; simp [hcard]
    refine ⟨?_, fun i _ => rfl⟩
    intro i hi hiE
    exact absurd (hE ▸ Finset.mem_range.mpr hi) hiE
  | succ k ih =>
    intro E s hEn hcard
    -- some row is left
    have hlt : E.card < (Finset.range n).card := by simp; omega
    obtain ⟨i0, hi0, hi0E⟩ : ∃ i0, i0 < n ∧ i0 ∉ E := by
      by_contra hcon
      push Not at hcon
      have : Finset.range n ⊆ E := fun i hi => hcon i (Finset.mem_range.mp hi)
      exact absurd (Finset.card_le_card this) (not_le.mpr hlt)
    obtain ⟨hr, hrE, hc⟩ := argmax_elim n a π hP E hEn i0 hi0 hi0E
    simp only [greedyLoop]
    rw [hc, zeroRC_elim]
    have hEn' : ∀ r' ∈ insert (argmax2 n (elim a π E)).1 E, r' < n := by
      intro r' hr'
      rcases Finset.mem_insert.mp hr' with rfl | h
      · exact hr
      · exact hEn r' h
    have hcard' : (insert (argmax2 n (elim a π E)).1 E).card + k = n := by
      rw [Finset.card_insert_of_notMem hrE]; omega
    obtain ⟨ih1, ih2⟩ := ih (insert (argmax2 n (elim a π E)).1 E)
      (setAt s (argmax2 n (elim a π E)).1 (target (π (argmax2 n (elim a π E)).1))) hEn' hcard'
    refine ⟨?_, ?_⟩
    · intro i hi hiE
      by_cases hir : i = (argmax2 n (elim a π E)).1
      · rw [ih2 i (Or.inl (by rw [hir]; exact Finset.mem_insert_self _ _))]
        simp [setAt, hir]
      · exact ih1 i hi (by simp [hir, hiE])
    · intro i hi
      have hne : i ≠ (argmax2 n (elim a π E)).1 := by
        rcases hi with hi | hi
        · exact fun h => hrE (h ▸ hi)
        · exact fun h => absurd (h ▸ hr) (not_lt.mpr hi)
      rw [ih2 i (by rcases hi with hi | hi; exact Or.inl (Finset.mem_insert_of_mem hi); exact Or.inr hi)]
      simp [setAt, hne]

/-- the list-of-pairs form of the loop (what the driver runs) is the loop -/
theorem greedyLoop_eq_assign (n : Nat) (target : Nat → ι) (k : Nat) (a : Nat → Nat → α) (s : Nat → Option ι) :
    greedyLoop n target k a s = assign target (greedyPairs n k a) s := by
  induction k generalizing a s with
  | zero => rfl
  | succ k ih => simp only [greedyLoop, greedyPairs, assign, List.foldl_cons]; rw [ih]; rfl

theorem evecSortRun_eq (n : Nat) (a : Nat → Nat → α) (target : Nat → ι) :
    evecSortRun n a target = (List.range n).map (evecSortMag n a target) := by
  unfold evecSortRun evecSortMag
  rw [greedyLoop_eq_assign]

end greedy

/-! ### the dominance hypothesis from orthonormality: permuted, re-phased, slightly perturbed copy -/

section margin
variable {𝕜 E : Type*} [RCLike 𝕜] [NormedAddCommGroup E] [InnerProductSpace 𝕜 E]

/-- overlaps of an orthonormal family `b` with `t j = c j • b (σ j) + δ j`, `‖c j‖ = 1`, `‖δ j‖ ≤ ε`:
the planted one is ≥ 1 - ε, every other one ≤ ε -/
theorem overlap_bounds (n : ℕ) (b t δ : ℕ → E) (c : ℕ → 𝕜) (σ : ℕ → ℕ) (ε : ℝ)
    (hnorm : ∀ i < n, ‖b i‖ = 1) (horth : ∀ i < n, ∀ k < n, i ≠ k → inner 𝕜 (b i) (b k) = 0)
    (hc : ∀ j < n, ‖c j‖ = 1) (ht : ∀ j < n, t j = c j • b (σ j) + δ j) (hδ : ∀ j < n, ‖δ j‖ ≤ ε)
    (hσ : ∀ j < n, σ j < n) (i j : ℕ) (hi : i < n) (hj : j < n) :
    (σ j = i → 1 - ε ≤ ‖inner 𝕜 (b i) (t j)‖) ∧ (σ j ≠ i → ‖inner 𝕜 (b i) (t j)‖ ≤ ε) := by
  have he : ‖inner 𝕜 (b i) (δ j)‖ ≤ ε := by
    calc ‖inner 𝕜 (b i) (δ j)‖ ≤ ‖b i‖ * ‖δ j‖ := norm_inner_le_norm _ _
      _ = ‖δ j‖ := by rw [hnorm i hi, one_mul]
      _ ≤ ε := hδ j hj
  rw [ht j hj, inner_add_right, inner_smul_right]
  constructor
  · intro h
    have h1 : inner 𝕜 (b i) (b (σ j)) = 1 := by
      rw [h, inner_self_eq_norm_sq_to_K, hnorm i hi]; simp
    rw [h1, mul_one]
    have := norm_sub_le (c j + inner 𝕜 (b i) (δ j)) (inner 𝕜 (b i) (δ j))
    rw [add_sub_cancel_right, hc j hj] at this
    linarith
  · intro h
    rw [horth i hi (σ j) (hσ j hj) (Ne.symm h), mul_zero, zero_add]
    exact he

/-- … hence the matrix of overlap magnitudes satisfies the dominance hypothesis when ε < 1/2
(margin between a planted entry and any other entry of its row or column: ≥ 1 - 2ε) -/
theorem planted_of_perturbed (n : ℕ) (b t δ : ℕ → E) (c : ℕ → 𝕜) (σ π : ℕ → ℕ) (ε : ℝ)
    (hnorm : ∀ i < n, ‖b i‖ = 1) (horth : ∀ i < n, ∀ k < n, i ≠ k → inner 𝕜 (b i) (b k) = 0)
    (hc : ∀ j < n, ‖c j‖ = 1) (ht : ∀ j < n, t j = c j • b (σ j) + δ j) (hδ : ∀ j < n, ‖δ j‖ ≤ ε) (hε : ε < 1 / 2)
    (hσ : ∀ j < n, σ j < n) (hπ : ∀ i < n, π i < n) (hσπ : ∀ i < n, σ (π i) = i) (hπσ : ∀ j < n, π (σ j) = j) :
    Planted n (fun i j => ‖inner 𝕜 (b i) (t j)‖) π := by
  have hb := overlap_bounds n b t δ c σ ε hnorm horth hc ht hδ hσ
  refine ⟨hπ, ?_, ?_, ?_⟩
  · intro i hi j hj h
    rw [← hσπ i hi, ← hσπ j hj, h]
  · intro i hi
    have := (hb i (π i) hi (hπ i hi)).1 (hσπ i hi)
    linarith
  · intro i hi j hj hne
    have h1 := (hb i (π i) hi (hπ i hi)).1 (hσπ i hi)
    have h2 := (hb i j hi hj).2 (fun h => hne (by rw [← h, hπσ j hj]))
    linarith

end margin

/-! ### disp2eig over ℝ-pairs -/

noncomputable instance : HasSqrt ℝ := ⟨Real.sqrt⟩

theorem sqrt_real (x : ℝ) : HasSqrt.sqrt x = Real.sqrt x := rfl

section disp

theorem cx_ext {x y : Cx ℝ} (h1 : x.re = y.re) (h2 : x.im = y.im) : x = y := by
  cases x; cases y; simp_all

/-- Σ |z_k|² -/
def sumNormSq (l : List (Cx ℝ)) : ℝ := (l.map Cx.normSq).sum

theorem normSq_nonneg (z : Cx ℝ) : 0 ≤ Cx.normSq z := by
  unfold Cx.normSq; nlinarith [mul_self_nonneg z.re, mul_self_nonneg z.im]

theorem sumNormSq_nonneg (l : List (Cx ℝ)) : 0 ≤ sumNormSq l := by
  induction l with
  | nil => simp [sumNormSq]
  | cons z l ih => simp only [sumNormSq, List.map_cons, List.sum_cons] at ih ⊢; linarith [normSq_nonneg z]

theorem foldl_normSq (l : List (Cx ℝ)) (acc : ℝ) :
    l.foldl (fun acc z => acc + Cx.normSq z) acc = acc + sumNormSq l := by
  induction l generalizing acc with
  | nil => simp [sumNormSq]
  | cons z l ih => simp only [List.foldl_cons, ih, sumNormSq, List.map_cons, List.sum_cons]; ring

theorem sumNormSq_divReal (l : List (Cx ℝ)) (s : ℝ) :
    sumNormSq (l.map fun z => Cx.divReal z s) = sumNormSq l / s ^ 2 := by
  induction l with
  | nil => simp [sumNormSq]
  | cons z l ih =>
    simp only [sumNormSq, List.map_cons, List.sum_cons] at ih ⊢
    rw [ih]
    simp only [Cx.normSq, Cx.divReal]
    by_cases hs : s = 0
    · simp [hs]
    · field_simp

/-- the rows of `a *= sqrt(m)` -/
noncomputable def scaledRow (m3 : List ℝ) (row : List (Cx ℝ)) : List (Cx ℝ) :=
  List.zipWith (fun z m => Cx.smul (HasSqrt.sqrt m) z) row m3

theorem disp2eigRow_eq (m3 : List ℝ) (row : List (Cx ℝ)) :
    disp2eigRow m3 row = (scaledRow m3 row).map fun z => Cx.divReal z (Real.sqrt (sumNormSq (scaledRow m3 row))) := by
  unfold disp2eigRow scaledRow
  simp only [foldl_normSq, zero_add, sqrt_real]

/-- a row whose mass-weighted norm is positive leaves `disp2eig` with unit norm -/
theorem disp2eigRow_unit (m3 : List ℝ) (row : List (Cx ℝ)) (hN : 0 < sumNormSq (scaledRow m3 row)) :
    sumNormSq (disp2eigRow m3 row) = 1 := by
  rw [disp2eigRow_eq, sumNormSq_divReal, Real.sq_sqrt (le_of_lt hN)]
  exact div_self (ne_of_gt hN)

theorem normSq_smul_sqrt (m : ℝ) (hm : 0 ≤ m) (z : Cx ℝ) : Cx.normSq (Cx.smul (Real.sqrt m) z) = m * Cx.normSq z := by
  simp only [Cx.normSq, Cx.smul]
  have := Real.mul_self_sqrt hm
  nlinarith [this]

theorem sumNormSq_scaled_pos (m3 : List ℝ) (row : List (Cx ℝ)) (hm : ∀ m ∈ m3, 0 < m) (hlen : row.length ≤ m3.length)
    (hz : ∃ z ∈ row, 0 < Cx.normSq z) : 0 < sumNormSq (scaledRow m3 row) := by
  induction row generalizing m3 with
  | nil => simp at hz
  | cons z row ih =>
    cases m3 with
    | nil => simp at hlen
    | cons m m3 =>
      have hmpos : 0 < m := hm m (by simp)
      have hrest : 0 ≤ sumNormSq (scaledRow m3 row) := sumNormSq_nonneg _
      have hfirst : Cx.normSq (Cx.smul (HasSqrt.sqrt m) z) = m * Cx.normSq z := normSq_smul_sqrt m (le_of_lt hmpos) z
      have hsplit : sumNormSq (scaledRow (m :: m3) (z :: row)) = m * Cx.normSq z + sumNormSq (scaledRow m3 row) := by
        simp only [scaledRow, List.zipWith_cons_cons, sumNormSq, List.map_cons, List.sum_cons] at hfirst ⊢
        rw [hfirst]
      rw [hsplit]
      obtain ⟨w, hw, hwpos⟩ := hz
      rcases List.mem_cons.mp hw with rfl | hw
      · have : 0 < m * Cx.normSq w := mul_pos hmpos hwpos
        linarith
      · have h1 := ih m3 (fun m' h => hm m' (by simp [h])) (by simpa using hlen) ⟨w, hw, hwpos⟩
        have : 0 ≤ m * Cx.normSq z := mul_nonneg (le_of_lt hmpos) (normSq_nonneg z)
        linarith

theorem mem_repeat3 (mass : List ℝ) (m : ℝ) (h : m ∈ repeat3 mass) : m ∈ mass := by
  simp only [repeat3, List.mem_flatMap] at h
  obtain ⟨x, hx, hm⟩ := h
  simp at hm
  rw [hm]; exact hx

theorem length_repeat3 (mass : List ℝ) : (repeat3 mass).length = 3 * mass.length := by
  induction mass with
  | nil => rfl
  | cons x l ih => simp only [repeat3, List.flatMap_cons, List.length_append, List.length_cons, List.length_nil] at ih ⊢; omega

/-! #### complex algebra on pairs -/

theorem mul_zero_cx (w : Cx ℝ) : Cx.mul w Cx.zero = Cx.zero := by
  apply cx_ext <;> simp [Cx.mul, Cx.zero]

/-- scaling both arguments scales the Hermitian product: ⟨u x, v y⟩ = conj(u) v ⟨x, y⟩ -/
theorem overlap_scaled (u v : Cx ℝ) (x y : List (Cx ℝ)) :
    overlap (x.map (Cx.mul u)) (y.map (Cx.mul v)) = Cx.mul (Cx.mul (Cx.conj u) v) (overlap x y) := by
  unfold overlap
  have key : ∀ (l : List (Cx ℝ × Cx ℝ)) (acc : Cx ℝ),
      (l.map fun p => (Cx.mul u p.1, Cx.mul v p.2)).foldl (fun acc p => Cx.add acc (Cx.mul (Cx.conj p.1) p.2))
          (Cx.mul (Cx.mul (Cx.conj u) v) acc)
        = Cx.mul (Cx.mul (Cx.conj u) v) (l.foldl (fun acc p => Cx.add acc (Cx.mul (Cx.conj p.1) p.2)) acc) := by
    intro l
    induction l with
    | nil => intro acc; rfl
    | cons p l ih =>
      intro acc
      simp only [List.map_cons, List.foldl_cons]
      rw [← ih]
      congr 1
      apply cx_ext <;> simp [Cx.mul, Cx.add, Cx.conj] <;> ring
  have hz : List.zip (x.map (Cx.mul u)) (y.map (Cx.mul v)) = (x.zip y).map fun p => (Cx.mul u p.1, Cx.mul v p.2) := by
    rw [List.zip_map]; rfl
  rw [hz, ← mul_zero_cx (Cx.mul (Cx.conj u) v), key]
  rw [mul_zero_cx]

/-- Σ|x_k|² is the (real) Hermitian product of a vector with itself -/
theorem overlap_self (x : List (Cx ℝ)) : overlap x x = ⟨sumNormSq x, 0⟩ := by
  unfold overlap
  have key : ∀ (l : List (Cx ℝ)) (acc : Cx ℝ),
      (l.zip l).foldl (fun acc p => Cx.add acc (Cx.mul (Cx.conj p.1) p.2)) acc = ⟨acc.re + sumNormSq l, acc.im⟩ := by
    intro l
    induction l with
    | nil => intro acc; simp [sumNormSq]
    | cons z l ih =>
      intro acc
      simp only [List.zip_cons_cons, List.foldl_cons, ih]
      apply cx_ext <;> simp [Cx.mul, Cx.add, Cx.conj, sumNormSq, Cx.normSq] <;> ring
  rw [key]
  simp [Cx.zero]

/-- the displacement row `c · M^{-1/2} e`: component k of `c e` divided by sqrt(m_k) -/
noncomputable def displace (m3 : List ℝ) (c : Cx ℝ) (e : List (Cx ℝ)) : List (Cx ℝ) :=
  List.zipWith (fun z m => Cx.smul (1 / Real.sqrt m) (Cx.mul c z)) e m3

/-- the phase `c / |c|` -/
noncomputable def unitOf (c : Cx ℝ) : Cx ℝ := Cx.divReal c (Cx.abs c)

theorem scaledRow_displace (m3 : List ℝ) (hm : ∀ m ∈ m3, 0 < m) (c : Cx ℝ) (e : List (Cx ℝ)) (hlen : e.length ≤ m3.length) :
    scaledRow m3 (displace m3 c e) = e.map (Cx.mul c) := by
  induction e generalizing m3 with
  | nil => simp [scaledRow, displace]
  | cons z e ih =>
    cases m3 with
    | nil => simp at hlen
    | cons m m3 =>
      have hmpos : 0 < m := hm m (by simp)
      have hs : Real.sqrt m ≠ 0 := ne_of_gt (Real.sqrt_pos.mpr hmpos)
      have ih' := ih m3 (fun m' h => hm m' (by simp [h])) (by simpa using hlen)
      simp only [scaledRow, displace, List.zipWith_cons_cons, List.map_cons] at ih' ⊢
      rw [ih']
      congr 1
      apply cx_ext <;> simp only [Cx.smul, sqrt_real] <;> field_simp

theorem length_displace (m3 : List ℝ) (c : Cx ℝ) (e : List (Cx ℝ)) (hlen : e.length = m3.length) :
    (displace m3 c e).length = m3.length := by
  simp [displace, hlen]

theorem zipWith_displace_props (m3 : List ℝ) (cs : List (Cx ℝ)) (es : List (List (Cx ℝ)))
    (hlen : cs.length = es.length) (hdim : ∀ e ∈ es, e.length = m3.length) :
    (List.zipWith (displace m3) cs es).length = es.length ∧
      ∀ r ∈ List.zipWith (displace m3) cs es, r.length = m3.length := by
  induction cs generalizing es with
  | nil => cases es with
    | nil => simp
    | cons e es => simp at hlen
  | cons c cs ih =>
    cases es with
    | nil => simp at hlen
    | cons e es =>
      obtain ⟨h1, h2⟩ := ih es (by simpa using hlen) (fun e' h => hdim e' (by simp [h]))
      refine ⟨by simp [h1], ?_⟩
      intro r hr
      simp only [List.zipWith_cons_cons, List.mem_cons] at hr
      rcases hr with rfl | hr
      · exact length_displace m3 c e (hdim e (by simp))
      · exact h2 r hr

theorem normSq_mul (c z : Cx ℝ) : Cx.normSq (Cx.mul c z) = Cx.normSq c * Cx.normSq z := by
  simp only [Cx.normSq, Cx.mul]; ring

theorem sumNormSq_map_mul (c : Cx ℝ) (e : List (Cx ℝ)) : sumNormSq (e.map (Cx.mul c)) = Cx.normSq c * sumNormSq e := by
  induction e with
  | nil => simp [sumNormSq]
  | cons z e ih =>
    simp only [sumNormSq, List.map_cons, List.sum_cons] at ih ⊢
    rw [ih, normSq_mul]; ring

theorem normSq_unitOf (c : Cx ℝ) (hc : 0 < Cx.normSq c) : Cx.normSq (unitOf c) = 1 := by
  have hs : Real.sqrt (Cx.normSq c) ≠ 0 := ne_of_gt (Real.sqrt_pos.mpr hc)
  have h2 : Real.sqrt (Cx.normSq c) ^ 2 = Cx.normSq c := Real.sq_sqrt (le_of_lt hc)
  simp only [unitOf, Cx.abs, sqrt_real, Cx.divReal]
  have : Cx.normSq ⟨c.re / Real.sqrt (Cx.normSq c), c.im / Real.sqrt (Cx.normSq c)⟩
      = Cx.normSq c / Real.sqrt (Cx.normSq c) ^ 2 := by
    simp only [Cx.normSq]; field_simp
  rw [this, h2]; exact div_self (ne_of_gt hc)

/-- a unit row scaled by `c ≠ 0` and by `M^{-1/2}` comes back as the row times the phase of `c` -/
theorem disp2eigRow_displace (m3 : List ℝ) (hm : ∀ m ∈ m3, 0 < m) (c : Cx ℝ)
    (e : List (Cx ℝ)) (hlen : e.length ≤ m3.length) (hunit : sumNormSq e = 1) :
    disp2eigRow m3 (displace m3 c e) = e.map (Cx.mul (unitOf c)) := by
  rw [disp2eigRow_eq, scaledRow_displace m3 hm c e hlen, sumNormSq_map_mul, hunit, mul_one, List.map_map]
  apply List.map_congr_left
  intro z _
  apply cx_ext <;> simp only [Function.comp, unitOf, Cx.abs, sqrt_real, Cx.divReal, Cx.mul] <;> ring

theorem conj_mul_self (u : Cx ℝ) : Cx.mul (Cx.conj u) u = ⟨Cx.normSq u, 0⟩ := by
  apply cx_ext <;> simp [Cx.mul, Cx.conj, Cx.normSq]
  ring

/-- a non-empty M × 3N array passes the shape check -/
theorem disp2eig_some (a : List (List (Cx ℝ))) (mass : List ℝ) (hne : a ≠ [])
    (hdim : ∀ r ∈ a, r.length = 3 * mass.length) :
    disp2eig a mass = some (a.map (disp2eigRow (repeat3 mass))) := by
  unfold disp2eig
  have h1 : a.isEmpty = false := by cases a with
    | nil => exact absurd rfl hne
    | cons _ _ => rfl
  have h2 : a.all (fun r => r.length == 3 * mass.length) = true := by
    rw [List.all_eq_true]; intro r hr; simpa using hdim r hr
  simp [h1, h2]

end disp

/-! ### loader: block structure and column slices -/

section load
variable {Num : Type}

/-- one mode as it stands in the file: the `freq` line with what it denotes, the vector lines with what they denote -/
structure ModeBlock (Num : Type) where
  freqLine : List Char
  head : Nat × Num × Num
  vecLines : List (List Char × List (Num × Num))

def ModeBlock.lines (m : ModeBlock Num) : List (List Char) := m.freqLine :: m.vecLines.map Prod.fst
def ModeBlock.value (m : ModeBlock Num) : (Nat × Num × Num) × List (Num × Num) := (m.head, m.vecLines.flatMap Prod.snd)
def ModeBlock.ok (R : LineReaders Num) (np : Nat) (m : ModeBlock Num) : Prop :=
  R.readFreq (strip m.freqLine) = some m.head ∧ (∀ lv ∈ m.vecLines, R.readVec lv.1 = some lv.2) ∧
    m.vecLines.length = np / 3

/-- one q-point block: two lines that are skipped, the q line, a separator, the modes, a closing separator -/
structure QBlock (Num : Type) where
  h1 : List Char
  h2 : List Char
  qLine : List Char
  sep1 : List Char
  sep2 : List Char
  q : List Num
  modes : List (ModeBlock Num)

def QBlock.lines (b : QBlock Num) : List (List Char) :=
  [b.h1, b.h2, b.qLine, b.sep1] ++ b.modes.flatMap ModeBlock.lines ++ [b.sep2]
def QBlock.value (b : QBlock Num) : List Num × List ((Nat × Num × Num) × List (Num × Num)) :=
  (b.q, b.modes.map ModeBlock.value)
def QBlock.ok (R : LineReaders Num) (np : Nat) (b : QBlock Num) : Prop :=
  R.readQ (strip b.qLine) = some b.q ∧ b.modes.length = np ∧ ∀ m ∈ b.modes, m.ok R np

theorem readVecs_block (R : LineReaders Num) (vl : List (List Char × List (Num × Num)))
    (h : ∀ lv ∈ vl, R.readVec lv.1 = some lv.2) (rest : List (List Char)) :
    readVecs R vl.length (vl.map Prod.fst ++ rest) = some (vl.flatMap Prod.snd, rest) := by
  induction vl with
  | nil => simp [readVecs]
  | cons lv vl ih =>
    have ih' := ih (fun lv' h' => h lv' (by simp [h']))
    simp [readVecs, h lv (by simp), ih']

theorem readModes_block (R : LineReaders Num) (np : Nat) (ms : List (ModeBlock Num)) (h : ∀ m ∈ ms, m.ok R np)
    (rest : List (List Char)) :
    readModes R np ms.length (ms.flatMap ModeBlock.lines ++ rest) = some (ms.map ModeBlock.value, rest) := by
  induction ms with
  | nil => simp [readModes]
  | cons m ms ih =>
    have ih' := ih (fun m' h' => h m' (by simp [h']))
    obtain ⟨h1, h2, h3⟩ := h m (by simp)
    have hv := readVecs_block R m.vecLines h2 (ms.flatMap ModeBlock.lines ++ rest)
    rw [h3] at hv
    simp only [List.flatMap_cons, ModeBlock.lines, List.cons_append, List.append_assoc, List.length_cons, readModes]
    simp [h1, hv, ih', ModeBlock.value]

theorem readQPoints_blocks (R : LineReaders Num) (np : Nat) (bs : List (QBlock Num)) (h : ∀ b ∈ bs, b.ok R np)
    (rest : List (List Char)) :
    readQPoints R np bs.length (bs.flatMap QBlock.lines ++ rest) = some (bs.map QBlock.value) := by
  induction bs with
  | nil => simp [readQPoints]
  | cons b bs ih =>
    have ih' := ih (fun b' h' => h b' (by simp [h']))
    obtain ⟨h1, h2, h3⟩ := h b (by simp)
    have hm := readModes_block R np b.modes h3 (b.sep2 :: (bs.flatMap QBlock.lines ++ rest))
    rw [h2] at hm
    simp only [List.flatMap_cons, QBlock.lines, List.cons_append, List.nil_append, List.append_assoc, List.length_cons,
      readQPoints]
    simp [h1, hm, ih', QBlock.value]

/-- `str.strip()` of a matdyn vector line: the leading blank goes, the closing parenthesis stays -/
theorem strip_vecline (body : List Char) :
    strip (' ' :: '(' :: (body ++ [')'])) = '(' :: (body ++ [')']) := by
  have h1 : isSpace ' ' = true := by decide
  have h2 : isSpace '(' = false := by decide
  have h3 : isSpace ')' = false := by decide
  simp [strip, List.dropWhile, h1, h2, h3]

theorem exists_cons_of_length {α} (l : List α) (n : Nat) (h : l.length = n + 1) : ∃ a t, l = a :: t ∧ t.length = n := by
  cases l with
  | nil => simp at h
  | cons a t => exact ⟨a, t, rfl, by simpa using h⟩

theorem len9 (l : List Char) (h : l.length = 9) : ∃ a b c d e f g h' i, l = [a, b, c, d, e, f, g, h', i] := by
  obtain ⟨a, t1, rfl, k1⟩ := exists_cons_of_length l 8 h
  obtain ⟨b, t2, rfl, k2⟩ := exists_cons_of_length t1 7 k1
  obtain ⟨c, t3, rfl, k3⟩ := exists_cons_of_length t2 6 k2
  obtain ⟨d, t4, rfl, k4⟩ := exists_cons_of_length t3 5 k3
  obtain ⟨e, t5, rfl, k5⟩ := exists_cons_of_length t4 4 k4
  obtain ⟨f, t6, rfl, k6⟩ := exists_cons_of_length t5 3 k5
  obtain ⟨g, t7, rfl, k7⟩ := exists_cons_of_length t6 2 k6
  obtain ⟨h', t8, rfl, k8⟩ := exists_cons_of_length t7 1 k7
  obtain ⟨i, t9, rfl, k9⟩ := exists_cons_of_length t8 0 k8
  have : t9 = [] := List.length_eq_zero_iff.mp k9
  subst this
  exact ⟨a, b, c, d, e, f, g, h', i, rfl⟩

/-- the Fortran record `(1x,'(',3(f10.6,1x,f10.6,3x),')')` with six 10-character fields `c_i :: T_i` -/
def vecLine (c1 : Char) (T1 : List Char) (c2 : Char) (T2 : List Char) (c3 : Char) (T3 : List Char)
    (c4 : Char) (T4 : List Char) (c5 : Char) (T5 : List Char) (c6 : Char) (T6 : List Char) : List Char :=
  [' ', '('] ++ (c1 :: T1) ++ [' '] ++ (c2 :: T2) ++ [' ', ' ', ' '] ++ (c3 :: T3) ++ [' '] ++ (c4 :: T4)
    ++ [' ', ' ', ' '] ++ (c5 :: T5) ++ [' '] ++ (c6 :: T6) ++ [' ', ' ', ' ', ')']

/-- the six slices `[2:12] [13:23] [26:36] [37:47] [50:60] [61:71]` of the STRIPPED line are the six fields WITHOUT
their first character, each followed by one separator blank (stripping moved everything one column left) -/
theorem slices_vecLine (c1 c2 c3 c4 c5 c6 : Char) (T1 T2 T3 T4 T5 T6 : List Char)
    (h1 : T1.length = 9) (h2 : T2.length = 9) (h3 : T3.length = 9) (h4 : T4.length = 9) (h5 : T5.length = 9)
    (h6 : T6.length = 9) :
    let line := strip (vecLine c1 T1 c2 T2 c3 T3 c4 T4 c5 T5 c6 T6)
    slice line 2 12 = T1 ++ [' '] ∧ slice line 13 23 = T2 ++ [' '] ∧ slice line 26 36 = T3 ++ [' '] ∧
    slice line 37 47 = T4 ++ [' '] ∧ slice line 50 60 = T5 ++ [' '] ∧ slice line 61 71 = T6 ++ [' '] := by
  obtain ⟨a1, a2, a3, a4, a5, a6, a7, a8, a9, rfl⟩ := len9 T1 h1
  obtain ⟨b1, b2, b3, b4, b5, b6, b7, b8, b9, rfl⟩ := len9 T2 h2
  obtain ⟨d1, d2, d3, d4, d5, d6, d7, d8, d9, rfl⟩ := len9 T3 h3
  obtain ⟨e1, e2, e3, e4, e5, e6, e7, e8, e9, rfl⟩ := len9 T4 h4
  obtain ⟨f1, f2, f3, f4, f5, f6, f7, f8, f9, rfl⟩ := len9 T5 h5
  obtain ⟨g1, g2, g3, g4, g5, g6, g7, g8, g9, rfl⟩ := len9 T6 h6
  have hs : strip (vecLine c1 [a1, a2, a3, a4, a5, a6, a7, a8, a9] c2 [b1, b2, b3, b4, b5, b6, b7, b8, b9]
      c3 [d1, d2, d3, d4, d5, d6, d7, d8, d9] c4 [e1, e2, e3, e4, e5, e6, e7, e8, e9]
      c5 [f1, f2, f3, f4, f5, f6, f7, f8, f9] c6 [g1, g2, g3, g4, g5, g6, g7, g8, g9])
      = '(' :: ([c1, a1, a2, a3, a4, a5, a6, a7, a8, a9, ' ', c2, b1, b2, b3, b4, b5, b6, b7, b8, b9, ' ', ' ', ' ',
          c3, d1, d2, d3, d4, d5, d6, d7, d8, d9, ' ', c4, e1, e2, e3, e4, e5, e6, e7, e8, e9, ' ', ' ', ' ',
          c5, f1, f2, f3, f4, f5, f6, f7, f8, f9, ' ', c6, g1, g2, g3, g4, g5, g6, g7, g8, g9, ' ', ' ', ' '] ++ [')']) := by
    rw [← strip_vecline]; rfl
  simp only [hs]
  refine ⟨rfl, rfl, rfl, rfl, rfl, rfl⟩

end load

/-- instance search gives up on the full nesting depth of the loader's result type; one intermediate step suffices -/
instance instDecEqQBlockValue : DecidableEq (List Rat × List ((Nat × Rat × Rat) × List (Rat × Rat))) := inferInstance

end Cij.Evec
