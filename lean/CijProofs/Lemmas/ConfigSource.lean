/-
  C16 — the hand-written configuration model IS the source code as it is written now.

  `Generated.ConfigSrc` is printed on every run from the abstract syntax of `cij/io/config/config.py` and
  `validate.py` (`tools/gens/config_src.py`).  Here:

  * `update_config_eq`: the printed `update_config` equals `Config.updateConfig` for ALL values (dictionaries of any
    nesting, non-dictionaries) and ALL iteration orders `ord` (no hypothesis on `ord` at all) — by well-founded
    induction on the first argument, one level of the loop body at a time (`body_src_eq`).
  * `apply_default_eq`: the printed `apply_default_config`, reading the packaged data files (`packagedData`), equals
    `Config.applyDefaultConfig`.
  * `parser_eq`: `Config.parserFor` is the printed suffix chain applied to `Path(fname).suffix`.
  * `read_config_ok_iff` / `read_config_error`: what the printed `read_config` returns / raises, for any parser and any
    validator.
  * `validate_config_eq`: the printed `validate_config` hands the instance and the packaged schema to `jsonschema.validate`.
-/
import CijProofs.Lemmas.Config
import CijModel.Schema
import Generated.ConfigSrc

namespace Cij.ConfigSource
open Cij Cij.Config Cij.ConfigPy
open Generated.ConfigSrc

/-- `cij.data.get_data_fname(name)` read and parsed: the two data files the configuration code opens, as translated on this
run (`tools/gen_tables.py: gen_config` reads `cij/data/<name>`; `get_data_fname` is compared with its canonical text by the
plug-in).  Any other name: not a packaged configuration file. -/
def packagedData (name : String) : J :=
  if name = "default/settings.yaml" then Generated.defaultSettings
  else if name = "schema/config.schema.json" then Generated.configSchema
  else .null

/-- two lists with the same elements (checked by evaluation) -/
theorem mem_iff_of_subsets {α : Type} [BEq α] [LawfulBEq α] {A B : List α}
    (h1 : A.all (fun a => B.contains a) = true) (h2 : B.all (fun b => A.contains b) = true) : ∀ n, n ∈ A ↔ n ∈ B := by
  intro n
  simp only [List.all_eq_true, List.contains_iff_mem] at h1 h2
  exact ⟨h1 n, h2 n⟩

/-! ### `update_config` -/

theorem lookupF_recs (ord : List String → List String) (k : String) :
    ∀ u : KV, lookupF k (update_config_recs ord u) = (lookup k u).map (update_config ord)
  | [] => by simp [update_config_recs, lookupF, lookup]
  | (k', v) :: r => by
      simp only [update_config_recs, lookupF, lookup]
      split
      · simp
      · exact lookupF_recs ord k r

/-- the printed function on two dictionaries, with the table of recursive calls replaced by the calls themselves:
one iteration of the loop stores what the hand model's `body'` stores, PROVIDED the recursive calls agree below. -/
theorem body_src_eq (ord : List String → List String) (u d : KV)
    (ih : ∀ k uv, lookup k u = some uv → ∀ dv, update_config ord uv dv = updateConfig ord uv dv) :
    update_config ord (.obj u) (.obj d) =
      match loop (body' ord u d) (ord (keyUnion u d)) with
      | .ok r => .ok (.obj r)
      | .error e => .error e := by
  rw [update_config]
  simp only [forAssign, keySet]
  congr 1
  congr 1
  funext k
  simp only [body', pyIf, pyAnd, pyTest, isDictOf, isDict, getItem, inKeys, hasKey, callOn, lookupF_recs]
  cases h1 : lookup k u with
  | none => cases h2 : lookup k d <;> simp
  | some uv =>
    cases h2 : lookup k d with
    | none => simp
    | some dv =>
      have := ih k uv h1 dv
      cases ho1 : isObj uv <;> cases ho2 : isObj dv <;> simp [this, ho1, ho2]

/-- **The printed `update_config` is the hand model**, for all values and all iteration orders. -/
theorem update_config_eq (ord : List String → List String) :
    ∀ (u d : J), update_config ord u d = updateConfig ord u d
  | .obj ukv, .obj dkv => by
      rw [updateConfig_obj]
      apply body_src_eq
      intro k uv h1 dv
      have hlt := sizeOf_lookup_lt h1
      exact update_config_eq ord uv dv
  | .obj _, .null => by simp [update_config, updateConfig]
  | .obj _, .bool _ => by simp [update_config, updateConfig]
  | .obj _, .num _ _ _ => by simp [update_config, updateConfig]
  | .obj _, .str _ => by simp [update_config, updateConfig]
  | .obj _, .arr _ => by simp [update_config, updateConfig]
  | .null, _ => by simp [update_config, updateConfig]
  | .bool _, _ => by simp [update_config, updateConfig]
  | .num _ _ _, _ => by simp [update_config, updateConfig]
  | .str _, _ => by simp [update_config, updateConfig]
  | .arr _, _ => by simp [update_config, updateConfig]
termination_by u => sizeOf u

/-! ### `apply_default_config` -/

theorem apply_default_eq (ord : List String → List String) (u : J) :
    apply_default_config ord packagedData u = applyDefaultConfig ord u := by
  simp only [apply_default_config, applyDefaultConfig, packagedData]
  exact update_config_eq ord _ _

/-! ### `read_config` -/

/-- `Config.parserFor` (the hand model of the suffix dispatch) is the printed chain applied to `Path(fname).suffix` -/
theorem parser_eq (fname : String) :
    parserFor fname = match read_config_parser (pathSuffix fname) with
      | some p => .ok p
      | none => .error .runtimeError := by
  simp only [parserFor, read_config_parser, List.mem_cons, List.mem_nil_iff, or_false]
  by_cases h1 : pathSuffix fname = ".yml" ∨ pathSuffix fname = ".yaml"
  · simp [h1]
  · by_cases h2 : pathSuffix fname = ".json" <;> simp [h1, h2]

/-- the printed chain as a table: which suffixes are read, and by which parser -/
theorem parser_some_iff (s : String) (p : Parser) :
    read_config_parser s = some p ↔
      ((s = ".yml" ∨ s = ".yaml") ∧ p = .yaml) ∨ (s = ".json" ∧ p = .json) := by
  simp only [read_config_parser, List.mem_cons, List.mem_nil_iff, or_false]
  by_cases h1 : s = ".yml"
  · subst h1; cases p <;> simp
  · by_cases h2 : s = ".yaml"
    · subst h2; cases p <;> simp
    · by_cases h3 : s = ".json"
      · subst h3; cases p <;> simp
      · simp [h1, h2, h3]

variable {ε : Type}

/-- **What `read_config` returns**: exactly the value its parser made of the file — for the parser the suffix selects —
and, when `validate` is set, only if `validate_config` accepted THAT value. -/
theorem read_config_ok_iff (raised : ε) (parse : Parser → Except ε J) (vc : J → Except ε Unit)
    (s : String) (v : Bool) (cfg : J) :
    read_config raised parse vc s v = .ok cfg ↔
      ∃ p, read_config_parser s = some p ∧ parse p = .ok cfg ∧ (v = true → vc cfg = .ok ()) := by
  unfold read_config andThen
  cases hp : read_config_parser s with
  | none => simp
  | some p =>
    have hex : (∃ p', some p = some p' ∧ parse p' = .ok cfg ∧ (v = true → vc cfg = .ok ())) ↔
        (parse p = .ok cfg ∧ (v = true → vc cfg = .ok ())) := by
      constructor
      · rintro ⟨p', hp', h⟩; cases hp'; exact h
      · intro h; exact ⟨p, rfl, h⟩
    rw [hex]
    cases hq : parse p with
    | error e => simp [hq]
    | ok c =>
      cases v with
      | false => simp [hq]
      | true =>
        cases hv : vc c with
        | error e =>
          simp only [hq, hv, if_true, true_implies, Except.ok.injEq]
          constructor
          · intro h; cases h
          · rintro ⟨rfl, h⟩; rw [hv] at h; cases h
        | ok u =>
          simp only [hq, hv, if_true, true_implies, Except.ok.injEq]
          constructor
          · rintro rfl; exact ⟨rfl, hv⟩
          · exact fun h => h.1

/-- … and what it raises: the else-branch exception for an unsupported suffix, the parser's exception, or — only when
`validate` is set — the exception `validate_config` raised on the parsed value. -/
theorem read_config_error (raised : ε) (parse : Parser → Except ε J) (vc : J → Except ε Unit)
    (s : String) (v : Bool) (e : ε) :
    read_config raised parse vc s v = .error e ↔
      (read_config_parser s = none ∧ e = raised) ∨
      (∃ p, read_config_parser s = some p ∧ parse p = .error e) ∨
      (∃ p c, read_config_parser s = some p ∧ parse p = .ok c ∧ v = true ∧ vc c = .error e) := by
  simp only [read_config, andThen]
  cases hp : read_config_parser s with
  | none => simp [eq_comm]
  | some p =>
    simp only [Option.some.injEq, exists_eq_left', reduceCtorEq, false_and, false_or]
    cases hq : parse p with
    | error e' => simp [hq]
    | ok c =>
      cases v with
      | false => simp
      | true =>
        cases hv : vc c with
        | error e' =>
          simp only [hv, if_true, Except.error.injEq, reduceCtorEq, false_or, true_and]
          constructor
          · rintro rfl; exact ⟨p, c, rfl, hq, hv⟩
          · rintro ⟨p', c', rfl, h1, h2⟩
            rw [hq] at h1; cases h1; rw [hv] at h2; cases h2; rfl
        | ok u =>
          simp only [hv, if_true, reduceCtorEq, false_or, true_and]
          constructor
          · intro h; cases h
          · rintro ⟨p', c', rfl, h1, h2⟩
            rw [hq] at h1; cases h1; rw [hv] at h2; cases h2

/-! ### `validate_config` -/

/-- the printed `validate_config` hands (instance = its argument, schema = the packaged schema file) to `jsonschema.validate` -/
theorem validate_config_eq (jsv : J → J → Except ε Unit) (cfg : J) :
    validate_config packagedData jsv cfg = jsv cfg Generated.configSchema := by
  simp [validate_config, packagedData]

/-! ### the file flow `read_config(fname)` with the modelled validator -/

/-- the exceptions of the file flow -/
inductive FileErr where
  | unsupportedSuffix     -- the `else: raise …` of `read_config`
  | parseError            -- whatever the YAML / JSON parser raises (parsers are not modelled)
  | validationError       -- `jsonschema.ValidationError`
  deriving DecidableEq, Repr

/-- `jsonschema.validate(instance=i, schema=s)` as modelled by `Schema.validate` (raises iff the evaluator rejects) -/
def jsonschemaValidate (i s : J) : Except FileErr Unit :=
  if Schema.validate s i = true then .ok () else .error .validationError

/-- `read_config(fname, validate)` as printed, on a file with suffix `sfx` that its parser reads as `content`, with
`validate_config` as printed and `jsonschema.validate` as modelled -/
def readFile (content : J) (sfx : String) (validate : Bool) : Except FileErr J :=
  read_config FileErr.unsupportedSuffix (fun _ => .ok content) (validate_config packagedData jsonschemaValidate) sfx validate

theorem readFile_eq (content : J) (sfx : String) (validate : Bool) :
    readFile content sfx validate =
      match read_config_parser sfx with
      | none => .error .unsupportedSuffix
      | some _ => if validate = true ∧ Schema.validateConfig content = false then .error .validationError else .ok content := by
  simp only [readFile, read_config, andThen, validate_config_eq, jsonschemaValidate, Schema.validateConfig]
  cases read_config_parser sfx with
  | none => rfl
  | some p =>
    cases validate with
    | false => simp
    | true =>
      simp only []
      by_cases h : Schema.validate Generated.configSchema content = true
      · simp [h]
      · have h' : Schema.validate Generated.configSchema content = false := by simpa using h
        simp [h']

end Cij.ConfigSource
