/-
  Helper lemmas for C14's `fill_idempotent` (no property statements here): a table that already carries a
  relation-compatible tensor — every modulus column equal to the tensor's component, every absent symbol a component
  that is dropped — is a FIXED POINT of `fill`, provided the supplied components still determine the tensor.
-/
import CijProofs.Lemmas.Fill
set_option linter.unusedSectionVars false
namespace Cij.Fill
variable {α : Type} [Field α] [LinearOrder α] [IsStrictOrderedRing α]

/-- component `j` of the tensors `xs` (one tensor per volume row) as a table column -/
def colOf (xs : List (List α)) (j : Nat) : List α := xs.map fun x => x.getD j 0

/-- `zip(range(21), symbols)` — the pairs `writeAll` iterates over -/
def symPairs : List (Nat × String) := List.zip (List.range nsym) symbolNames

theorem symbols_lower : ∀ s ∈ symbolNames, s.toLower = s := by decide +kernel
theorem symPairs_names_nodup : (symPairs.map (·.2)).Nodup := by decide +kernel
theorem symPairs_names : ∀ p ∈ symPairs, p.2 ∈ symbolNames := fun _ hp => (List.of_mem_zip hp).2

/-- `t` is what `fill` returns for the tensors `xs`: modulus columns carry the components, the absent components
are negligible (they were dropped), nothing droppable is present -/
structure IsFilled (P : Params α) (t : Table α) (xs : List (List α)) : Prop where
  cols : ∀ c ∈ t, ∀ p ∈ symPairs, c.1.toLower = p.2 → c.2 = colOf xs p.1
  missing : ∀ p ∈ symPairs, (∀ c ∈ t, c.1.toLower ≠ p.2) → allClose0 P.dropAtol (colOf xs p.1) = true
  kept : ∀ c ∈ t, matchesCdd c.1.toLower.toList = true → allClose0 P.dropAtol c.2 = false

/-- one write-back on a filled table (plus already appended negligible columns): nothing changes, or one more
negligible column is appended -/
theorem writeBack_filled {P : Params α} {t : Table α} {xs : List (List α)} (hf : IsFilled P t xs)
    (extra : Table α) (p : Nat × String) (hp : p ∈ symPairs)
    (hex : ∀ e ∈ extra, e.1 ∈ symbolNames ∧ e.1 ≠ p.2) :
    writeBack (t ++ extra) p.2 (colOf xs p.1) = t ++ extra ∨
    (writeBack (t ++ extra) p.2 (colOf xs p.1) = t ++ (extra ++ [(p.2, colOf xs p.1)]) ∧
      allClose0 P.dropAtol (colOf xs p.1) = true) := by
  unfold writeBack
  split
  · rename_i hit hfind
    left
    have hh : hit.1.toLower = p.2 := by simpa using List.find?_some hfind
    have hid : ∀ c ∈ t ++ extra, (if c.1 == hit.1 then (c.1, colOf xs p.1) else c) = c := by
      intro c hc
      by_cases hce : c.1 = hit.1
      · have hcl : c.1.toLower = p.2 := by rw [hce]; exact hh
        rcases List.mem_append.1 hc with hct | hce'
        · have := hf.cols c hct p hp hcl
          have hb : (c.1 == hit.1) = true := by simp [hce]
          rw [if_pos hb, ← this]
        · obtain ⟨hs, hne⟩ := hex c hce'
          rw [symbols_lower c.1 hs] at hcl
          exact absurd hcl hne
      · simp [hce]
    calc List.map (fun c => if c.1 == hit.1 then (c.1, colOf xs p.1) else c) (t ++ extra)
        = List.map id (t ++ extra) := List.map_congr_left hid
      _ = t ++ extra := List.map_id _
  · rename_i hnone
    right
    have hno : ∀ c ∈ t, c.1.toLower ≠ p.2 := by
      intro c hc
      have := List.find?_eq_none.1 hnone c (List.mem_append_left _ hc)
      simpa using this
    exact ⟨by rw [List.append_assoc], hf.missing p hp hno⟩

theorem foldl_filled {P : Params α} {t : Table α} {xs : List (List α)} (hf : IsFilled P t xs) :
    ∀ (l : List (Nat × String)), (∀ p ∈ l, p ∈ symPairs) → (l.map (·.2)).Nodup →
    ∀ extra : Table α, (∀ e ∈ extra, e.1 ∈ symbolNames ∧ e.1 ∉ l.map (·.2) ∧ allClose0 P.dropAtol e.2 = true) →
    ∃ extra', l.foldl (fun acc p => writeBack acc p.2 (xs.map fun x => x.getD p.1 0)) (t ++ extra) = t ++ extra' ∧
      ∀ e ∈ extra', e.1 ∈ symbolNames ∧ allClose0 P.dropAtol e.2 = true := by
  intro l
  induction l with
  | nil => intro _ _ extra hex; exact ⟨extra, rfl, fun e he => ⟨(hex e he).1, (hex e he).2.2⟩⟩
  | cons p l ih =>
    intro hl hnd extra hex
    simp only [List.foldl_cons]
    have hp : p ∈ symPairs := hl p List.mem_cons_self
    have hnd' : (l.map (·.2)).Nodup := (List.nodup_cons.1 (by simpa using hnd)).2
    have hpl : p.2 ∉ l.map (·.2) := (List.nodup_cons.1 (by simpa using hnd)).1
    have hex1 : ∀ e ∈ extra, e.1 ∈ symbolNames ∧ e.1 ≠ p.2 := by
      intro e he
      refine ⟨(hex e he).1, fun h => (hex e he).2.1 ?_⟩
      simp [h]
    rcases writeBack_filled hf extra p hp hex1 with h | ⟨h, hclose⟩
    · have h' : writeBack (t ++ extra) p.2 (xs.map fun x => x.getD p.1 0) = t ++ extra := h
      rw [h']
      exact ih (fun q hq => hl q (List.mem_cons_of_mem _ hq)) hnd' extra
        (fun e he => ⟨(hex e he).1, fun hm => (hex e he).2.1 (by simp [List.mem_map] at hm ⊢; exact Or.inr hm), (hex e he).2.2⟩)
    · have h' : writeBack (t ++ extra) p.2 (xs.map fun x => x.getD p.1 0) =
          t ++ (extra ++ [(p.2, colOf xs p.1)]) := h
      rw [h']
      apply ih (fun q hq => hl q (List.mem_cons_of_mem _ hq)) hnd'
      intro e he
      rcases List.mem_append.1 he with he | he
      · exact ⟨(hex e he).1, fun hm => (hex e he).2.1 (by simp [List.mem_map] at hm ⊢; exact Or.inr hm), (hex e he).2.2⟩
      · simp only [List.mem_singleton] at he
        subst he
        exact ⟨symPairs_names p hp, hpl, hclose⟩

/-- writing back what is already there and dropping what is already dropped is the identity -/
theorem finish_filled {P : Params α} {t : Table α} {xs : List (List α)} (hf : IsFilled P t xs) :
    finish P t xs = t := by
  obtain ⟨extra', hw, hex⟩ := foldl_filled hf symPairs (fun _ h => h) symPairs_names_nodup []
    (fun e he => by simp at he)
  have hwa : writeAll t xs = t ++ extra' := by
    unfold writeAll
    simpa [symPairs] using hw
  unfold finish
  rw [hwa, List.filter_append]
  have h1 : t.filter (fun c => !(matchesCdd c.1.toLower.toList && allClose0 P.dropAtol c.2)) = t := by
    apply List.filter_eq_self.2
    intro c hc
    cases hm : matchesCdd c.1.toLower.toList with
    | false => simp
    | true => simp [hf.kept c hc hm]
  have h2 : extra'.filter (fun c => !(matchesCdd c.1.toLower.toList && allClose0 P.dropAtol c.2)) = [] := by
    apply List.filter_eq_nil_iff.2
    intro e he
    obtain ⟨hs, hc⟩ := hex e he
    rw [symbols_lower e.1 hs, symbolNames_match e.1 hs, hc]
    simp
  rw [h1, h2, List.append_nil]

/-! ### the second solve returns the tensor the table already carries -/

theorem mapM_some_length {β γ : Type} (f : β → Option γ) : ∀ {l : List β} {ys : List γ}, l.mapM f = some ys →
    ys.length = l.length
  | [], ys, h => by simp at h; subst h; rfl
  | a :: l, ys, h => by
    rw [List.mapM_cons] at h
    cases hfa : f a with
    | none => simp [hfa] at h
    | some y =>
      cases hl : l.mapM f with
      | none => simp [hfa, hl] at h
      | some ys' =>
        simp [hfa, hl] at h
        subst h
        simp [mapM_some_length f hl]

theorem solveStage_unfold {A : List (List α)} {bs : List (List α)} {s : Solved α} (hs : solveStage A bs = some s) :
    bs.mapM (fun b => lstsq nsym A b) = some s.xs ∧
    s.ssq = List.zipWith (fun b x => sumSq (residualVec A b x)) bs s.xs := by
  unfold solveStage at hs
  cases hm : List.mapM (fun b => lstsq nsym A b) bs with
  | none => simp [hm] at hs
  | some xs =>
    simp [hm] at hs
    subst hs
    exact ⟨rfl, rfl⟩

theorem mem_zipWith_exists {β γ δ : Type} (f : β → γ → δ) : ∀ (l1 : List β) (l2 : List γ) (e : δ),
    e ∈ List.zipWith f l1 l2 → ∃ q ∈ List.zip l1 l2, e = f q.1 q.2
  | [], _, e, h => by simp at h
  | _ :: _, [], e, h => by simp at h
  | a :: l1, b :: l2, e, h => by
    simp only [List.zipWith_cons_cons, List.mem_cons] at h
    rcases h with rfl | h
    · exact ⟨(a, b), by simp, rfl⟩
    · obtain ⟨q, hq, he⟩ := mem_zipWith_exists f l1 l2 e h
      exact ⟨q, by simp [hq], he⟩

theorem idxOf?_symPairs {s : String} {i : Nat} (h : symbolNames.idxOf? s = some i) : (i, s) ∈ symPairs := by
  obtain ⟨hlt, hget, _⟩ := List.idxOf?_eq_some_iff.1 h
  unfold symPairs
  rw [List.mem_iff_getElem]
  have hl : i < (List.zip (List.range nsym) symbolNames).length := by
    simp only [List.length_zip, List.length_range]
    exact Nat.lt_min.2 ⟨hlt, hlt⟩
  exact ⟨i, hl, by rw [List.getElem_zip, List.getElem_range, hget]⟩

/-- the recognised columns: as many indices as value columns, each value column is a column of the table whose
lower-cased name is the symbol of the index -/
theorem recogniseLower_cols : ∀ (t : Table α) (sel : List (Option Nat)),
    recogniseLower ((t.map (·.1)).map String.toLower) = .ok sel →
    (selIdxOf sel).length = (selColsOf sel t).length ∧
    ∀ q ∈ List.zip (selIdxOf sel) (selColsOf sel t), ∃ c ∈ t, c.2 = q.2 ∧ (q.1, c.1.toLower) ∈ symPairs := by
  intro t
  induction t with
  | nil =>
    intro sel h
    simp [recogniseLower] at h
    subst h
    simp [selIdxOf, selColsOf]
  | cons c r ih =>
    intro sel h
    simp only [List.map_cons] at h
    unfold recogniseLower at h
    split at h
    · split at h
      · simp at h
      · rename_i i hi
        cases hr : recogniseLower ((r.map (·.1)).map String.toLower) with
        | error e => rw [hr] at h; simp [Except.map] at h
        | ok sel' =>
          rw [hr] at h; simp [Except.map] at h
          subst h
          obtain ⟨hl, hq⟩ := ih sel' hr
          have e1 : selIdxOf (some i :: sel') = i :: selIdxOf sel' := by simp [selIdxOf]
          have e2 : selColsOf (some i :: sel') (c :: r) = c.2 :: selColsOf sel' r := by simp [selColsOf]
          rw [e1, e2]
          refine ⟨by simp [hl], ?_⟩
          intro q hq'
          simp only [List.zip_cons_cons, List.mem_cons] at hq'
          rcases hq' with rfl | hq'
          · exact ⟨c, by simp, rfl, idxOf?_symPairs hi⟩
          · obtain ⟨c', hc', h1, h2⟩ := hq q hq'
            exact ⟨c', by simp [hc'], h1, h2⟩
    · cases hr : recogniseLower ((r.map (·.1)).map String.toLower) with
      | error e => rw [hr] at h; simp [Except.map] at h
      | ok sel' =>
        rw [hr] at h; simp [Except.map] at h
        subst h
        obtain ⟨hl, hq⟩ := ih sel' hr
        have e1 : selIdxOf (none :: sel') = selIdxOf sel' := by simp [selIdxOf]
        have e2 : selColsOf (none :: sel') (c :: r) = selColsOf sel' r := by simp [selColsOf]
        rw [e1, e2]
        refine ⟨hl, ?_⟩
        intro q hq'
        obtain ⟨c', hc', h1, h2⟩ := hq q hq'
        exact ⟨c', by simp [hc'], h1, h2⟩

theorem getD_colOf (xs : List (List α)) (j k : Nat) (hk : k < xs.length) :
    (colOf xs j).getD k 0 = (xs[k]).getD j 0 := by
  simp [colOf, List.getD_eq_getElem?_getD, hk]

/-- the tensor of row `k` has zero residual in the stacked system built from the filled table -/
theorem residual_zero_of_filled {P : Params α} {t : Table α} {xs : List (List α)} (hf : IsFilled P t xs)
    {sel : List (Option Nat)} (hrec : recognise (t.map (·.1)) = .ok sel) (rel : Rows)
    (hrel : ∀ x ∈ xs, ∀ r ∈ rel,
      dot (castRow (α := α) r) x = (Int.cast r.rhs : α) / (Int.cast (Int.ofNat r.den) : α))
    (k : Nat) (hk : k < xs.length) :
    ∀ e ∈ residualVec (stackA (α := α) (selIdxOf sel) rel) (stackB (selColsOf sel t) rel k) xs[k], e = 0 := by
  obtain ⟨hl, hq⟩ := recogniseLower_cols t sel hrec
  rw [residualVec_stack _ _ rel k _ hl (recognise_lt hrec)]
  intro e he
  rcases List.mem_append.1 he with he | he
  · obtain ⟨q, hqm, rfl⟩ := mem_zipWith_exists _ _ _ e he
    obtain ⟨c, hc, h1, h2⟩ := hq q hqm
    have := hf.cols c hc (q.1, c.1.toLower) h2 rfl
    rw [← h1, this, getD_colOf xs q.1 k hk]
    simp
  · obtain ⟨r, hr, rfl⟩ := List.mem_map.1 he
    rw [hrel xs[k] (List.getElem_mem hk) r hr]
    simp

/-- **fixed point.**  A table that carries relation-compatible tensors `xs` (one per volume row) and whose supplied
components still determine the tensor (`rankDeficient = false`) is returned unchanged by `fill`. -/
theorem fill_filled (env : Env) (sys : String) (P : Params α) (t : Table α) (xs : List (List α))
    {sel : List (Option Nat)} (hrec : recognise (t.map (·.1)) = .ok sel)
    {rel : Rows} (hres : resolve env sys = .ok rel)
    (hne : (selIdxOf sel).isEmpty = false)
    {s : Solved α} (hs : solveStage (stackA (α := α) (selIdxOf sel) rel)
            ((List.range (nRows t)).map fun k => stackB (selColsOf sel t) rel k) = some s)
    (hfull : s.rankDeficient = false)
    (hrows : xs.length = nRows t) (hlen : ∀ x ∈ xs, x.length = nsym)
    (hrel : ∀ x ∈ xs, ∀ r ∈ rel,
      dot (castRow (α := α) r) x = (Int.cast r.rhs : α) / (Int.cast (Int.ofNat r.den) : α))
    (hf : IsFilled P t xs) (hatol : 0 ≤ P.residualAtol) :
    fill env (some sys) P t = .ok t := by
  obtain ⟨hmap, hssq⟩ := solveStage_unfold hs
  have hsl : s.xs.length = nRows t := by rw [mapM_some_length _ hmap]; simp
  obtain ⟨hl, _⟩ := recogniseLower_cols t sel hrec
  -- the solution is the tensor the table carries
  have hxs : s.xs = xs := by
    apply List.ext_getElem (by rw [hsl, hrows])
    intro k h1 h2
    have hkn : k < nRows t := by rw [← hsl]; exact h1
    have hz : k < (List.zip ((List.range (nRows t)).map fun k => stackB (selColsOf sel t) rel k) s.xs).length := by
      simp [hsl, hkn]
    have hmem : (stackB (selColsOf sel t) rel k, s.xs[k]) ∈
        List.zip ((List.range (nRows t)).map fun k => stackB (selColsOf sel t) rel k) s.xs := by
      rw [List.mem_iff_getElem]
      exact ⟨k, hz, by simp [List.getElem_zip]⟩
    exact solveStage_consistent hs hfull _ hmem (by simp [stackA, stackB, hl]) xs[k]
      (hlen _ (List.getElem_mem h2)) (residual_zero_of_filled hf hrec rel hrel k h2)
  -- hence the residuals vanish and the verdict is "accept"
  have hres0 : ∀ r ∈ s.residuals, r = 0 := by
    intro r hr
    unfold Solved.residuals at hr
    rw [hssq, hxs] at hr
    obtain ⟨q, hq, rfl⟩ := mem_zipWith_exists _ _ _ r hr
    obtain ⟨k, hk, hqk⟩ := List.mem_iff_getElem.1 hq
    have hk2 : k < xs.length := by
      simp only [List.length_zip, List.length_map, List.length_range] at hk
      omega
    have hk1 : k < nRows t := by rw [← hrows]; exact hk2
    rw [List.getElem_zip] at hqk
    have e1 : q.1 = stackB (selColsOf sel t) rel k := by rw [← hqk]; simp
    have e2 : q.2 = xs[k] := by rw [← hqk]
    rw [e1, e2]
    unfold sumSq
    exact dot_all_zero _ _ (residual_zero_of_filled hf hrec rel hrel k hk2)
  have hv : verdict P s = .ok () := by
    unfold verdict
    have h1 : (s.residuals.any fun r => decide (P.residualAtol < r)) = false := by
      rw [List.any_eq_false]
      intro r hr
      rw [hres0 r hr]
      simpa using hatol
    simp [hfull, h1]
  simp only [fill, hrec, hres]
  rw [fillWith_of_solved hne hs, hv]
  simp only
  rw [hxs, finish_filled hf]

/-! ### what the first fill returns is a filled table -/

/-- no two columns differ by letter case only (with such a pair `fill_cij` updates only the first one) -/
def NoCaseDup (t : Table α) : Prop := ∀ c ∈ t, ∀ c' ∈ t, c.1.toLower = c'.1.toLower → c.1 = c'.1

theorem inj_of_nodup_map {β γ : Type} (f : β → γ) : ∀ {l : List β}, (l.map f).Nodup →
    ∀ {x y : β}, x ∈ l → y ∈ l → f x = f y → x = y
  | [], _, x, _, hx, _, _ => by simp at hx
  | a :: l, hn, x, y, hx, hy, h => by
    have hn' : (l.map f).Nodup := (List.nodup_cons.1 (by simpa using hn)).2
    have ha : f a ∉ l.map f := (List.nodup_cons.1 (by simpa using hn)).1
    rcases List.mem_cons.1 hx with hxa | hx1 <;> rcases List.mem_cons.1 hy with hya | hy1
    · rw [hxa, hya]
    · exact absurd (by rw [← hxa, h]; exact List.mem_map.2 ⟨y, hy1, rfl⟩) ha
    · exact absurd (by rw [← hya, ← h]; exact List.mem_map.2 ⟨x, hx1, rfl⟩) ha
    · exact inj_of_nodup_map f hn' hx1 hy1 h

theorem symPairs_inj {p q : Nat × String} (hp : p ∈ symPairs) (hq : q ∈ symPairs) (h : p.2 = q.2) : p = q :=
  inj_of_nodup_map (·.2) symPairs_names_nodup hp hq h

/-- invariant of the write-back loop after the pairs `done` -/
structure WInv (xs : List (List α)) (n : Nat) (done : List (Nat × String)) (acc : Table α) : Prop where
  nodup : NoCaseDup acc
  ex : ∀ p ∈ done, ∃ c ∈ acc, c.1.toLower = p.2
  val : ∀ c ∈ acc, ∀ p ∈ done, c.1.toLower = p.2 → c.2 = colOf xs p.1
  len : ∀ c ∈ acc, c.2.length = n

theorem writeBack_inv {xs : List (List α)} {n : Nat} (hn : xs.length = n) {done : List (Nat × String)}
    {acc : Table α} (hd : ∀ p ∈ done, p ∈ symPairs) (h : WInv xs n done acc) (p : Nat × String)
    (hp : p ∈ symPairs) : WInv xs n (done ++ [p]) (writeBack acc p.2 (colOf xs p.1)) := by
  have hcl : (colOf xs p.1).length = n := by simp [colOf, hn]
  unfold writeBack
  split
  · rename_i hit hfind
    have hh : hit.1.toLower = p.2 := by simpa using List.find?_some hfind
    have hhit : hit ∈ acc := List.mem_of_find?_eq_some hfind
    -- names are unchanged by the in-place update
    have hname : ∀ c' ∈ acc.map (fun c => if c.1 == hit.1 then (c.1, colOf xs p.1) else c),
        ∃ c ∈ acc, c'.1 = c.1 ∧ ((c.1 = hit.1 ∧ c'.2 = colOf xs p.1) ∨ (c.1 ≠ hit.1 ∧ c' = c)) := by
      intro c' hc'
      obtain ⟨c, hc, rfl⟩ := List.mem_map.1 hc'
      by_cases hce : c.1 = hit.1
      · exact ⟨c, hc, by simp [hce], Or.inl ⟨hce, by simp [hce]⟩⟩
      · exact ⟨c, hc, by simp [hce], Or.inr ⟨hce, by simp [hce]⟩⟩
    refine ⟨?_, ?_, ?_, ?_⟩
    · intro a ha b hb hab
      obtain ⟨a0, ha0, ea, _⟩ := hname a ha
      obtain ⟨b0, hb0, eb, _⟩ := hname b hb
      rw [ea, eb] at hab ⊢
      exact h.nodup a0 ha0 b0 hb0 hab
    · intro q hq
      rcases List.mem_append.1 hq with hq | hq
      · obtain ⟨c, hc, hcl'⟩ := h.ex q hq
        refine ⟨_, List.mem_map.2 ⟨c, hc, rfl⟩, ?_⟩
        by_cases hce : c.1 = hit.1 <;> simp [hce, ← hcl']
      · simp only [List.mem_singleton] at hq
        subst hq
        exact ⟨_, List.mem_map.2 ⟨hit, hhit, rfl⟩, by simp [hh]⟩
    · intro c' hc' q hq hcq
      obtain ⟨c, hc, ec, hcase⟩ := hname c' hc'
      rw [ec] at hcq
      rcases hcase with ⟨hce, hv⟩ | ⟨hce, rfl⟩
      · have : q = p := by
          have hq' : q ∈ symPairs := by
            rcases List.mem_append.1 hq with hq | hq
            · exact hd q hq
            · simp only [List.mem_singleton] at hq; rw [hq]; exact hp
          apply symPairs_inj hq' hp
          rw [← hcq, hce, hh]
        rw [hv, this]
      · rcases List.mem_append.1 hq with hq | hq
        · exact h.val c' hc q hq hcq
        · simp only [List.mem_singleton] at hq
          subst hq
          exact absurd (h.nodup c' hc hit hhit (by rw [hcq, hh])) hce
    · intro c' hc'
      obtain ⟨c, hc, _, hcase⟩ := hname c' hc'
      rcases hcase with ⟨_, hv⟩ | ⟨_, rfl⟩
      · rw [hv]; exact hcl
      · exact h.len c' hc
  · rename_i hnone
    have hno : ∀ c ∈ acc, c.1.toLower ≠ p.2 := by
      intro c hc
      simpa using List.find?_eq_none.1 hnone c hc
    have hpl : p.2.toLower = p.2 := symbols_lower p.2 (symPairs_names p hp)
    refine ⟨?_, ?_, ?_, ?_⟩
    · intro a ha b hb hab
      rcases List.mem_append.1 ha with ha | ha <;> rcases List.mem_append.1 hb with hb | hb
      · exact h.nodup a ha b hb hab
      · simp only [List.mem_singleton] at hb; subst hb
        exact absurd (by rw [hab, hpl]) (hno a ha)
      · simp only [List.mem_singleton] at ha; subst ha
        exact absurd (by rw [← hab, hpl]) (hno b hb)
      · simp only [List.mem_singleton] at ha hb; rw [ha, hb]
    · intro q hq
      rcases List.mem_append.1 hq with hq | hq
      · obtain ⟨c, hc, hcl'⟩ := h.ex q hq
        exact ⟨c, List.mem_append_left _ hc, hcl'⟩
      · simp only [List.mem_singleton] at hq
        subst hq
        exact ⟨(q.2, colOf xs q.1), by simp, hpl⟩
    · intro c hc0 q hq0 hcq
      have hq' : q ∈ symPairs := by
        rcases List.mem_append.1 hq0 with hq | hq
        · exact hd q hq
        · simp only [List.mem_singleton] at hq; rw [hq]; exact hp
      rcases List.mem_append.1 hc0 with hc1 | hc1
      · rcases List.mem_append.1 hq0 with hq | hq
        · exact h.val c hc1 q hq hcq
        · have hqp : q = p := by simpa using hq
          rw [hqp] at hcq
          exact absurd hcq (hno c hc1)
      · have hce : c = (p.2, colOf xs p.1) := by simpa using hc1
        rw [hce] at hcq ⊢
        have : q = p := symPairs_inj hq' hp (by rw [← hcq]; exact hpl)
        rw [this]
    · intro c hc
      rcases List.mem_append.1 hc with hc | hc
      · exact h.len c hc
      · simp only [List.mem_singleton] at hc; subst hc; exact hcl

theorem foldl_inv {xs : List (List α)} {n : Nat} (hn : xs.length = n) :
    ∀ (l done : List (Nat × String)) (acc : Table α), (∀ p ∈ l, p ∈ symPairs) → (∀ p ∈ done, p ∈ symPairs) →
      WInv xs n done acc →
      WInv xs n (done ++ l) (l.foldl (fun acc p => writeBack acc p.2 (xs.map fun x => x.getD p.1 0)) acc) := by
  intro l
  induction l with
  | nil => intro done acc _ _ h; simpa using h
  | cons p l ih =>
    intro done acc hl hd h
    simp only [List.foldl_cons]
    have hp : p ∈ symPairs := hl p List.mem_cons_self
    have step : WInv xs n (done ++ [p]) (writeBack acc p.2 (xs.map fun x => x.getD p.1 0)) :=
      writeBack_inv hn hd h p hp
    have := ih (done ++ [p]) _ (fun q hq => hl q (List.mem_cons_of_mem _ hq))
      (fun q hq => by
        rcases List.mem_append.1 hq with hq | hq
        · exact hd q hq
        · simp only [List.mem_singleton] at hq; rw [hq]; exact hp) step
    rw [List.append_assoc] at this
    exact this

/-- the table `fill` returns for the solution `xs` is a filled table for `xs` -/
theorem finish_isFilled (P : Params α) {t : Table α} (hnd : NoCaseDup t) {n : Nat} (hrect : ∀ c ∈ t, c.2.length = n)
    {xs : List (List α)} (hn : xs.length = n) :
    IsFilled P (finish P t xs) xs ∧ ∀ c ∈ finish P t xs, c.2.length = n := by
  have hw : WInv xs n symPairs (writeAll t xs) := by
    have := foldl_inv hn symPairs [] t (fun _ h => h) (fun _ h => by simp at h)
      ⟨hnd, fun _ h => by simp at h, fun _ _ _ h => by simp at h, hrect⟩
    simpa [writeAll, symPairs] using this
  have hmem : ∀ c, c ∈ finish P t xs ↔
      c ∈ writeAll t xs ∧ (matchesCdd c.1.toLower.toList && allClose0 P.dropAtol c.2) = false := by
    intro c
    simp only [finish, List.mem_filter, Bool.not_eq_true']
  refine ⟨⟨?_, ?_, ?_⟩, fun c hc => hw.len c ((hmem c).1 hc).1⟩
  · intro c hc p hp hcp
    exact hw.val c ((hmem c).1 hc).1 p hp hcp
  · intro p hp hno
    obtain ⟨c, hc, hcp⟩ := hw.ex p hp
    have hnot : c ∉ finish P t xs := fun h => hno c h hcp
    rw [hmem c] at hnot
    have hdrop : (matchesCdd c.1.toLower.toList && allClose0 P.dropAtol c.2) = true := by
      cases hb : (matchesCdd c.1.toLower.toList && allClose0 P.dropAtol c.2) with
      | true => rfl
      | false => exact absurd ⟨hc, hb⟩ hnot
    rw [← hw.val c hc p hp hcp]
    exact (Bool.and_eq_true _ _ ▸ hdrop).2
  · intro c hc hm
    have := ((hmem c).1 hc).2
    simpa [hm] using this

theorem mapM_some_mem {β γ : Type} (f : β → Option γ) : ∀ {l : List β} {ys : List γ}, l.mapM f = some ys →
    ∀ y ∈ ys, ∃ b ∈ l, f b = some y
  | [], ys, h, y, hy => by simp at h; subst h; simp at hy
  | a :: l, ys, h, y, hy => by
    rw [List.mapM_cons] at h
    cases hfa : f a with
    | none => simp [hfa] at h
    | some y0 =>
      cases hl : l.mapM f with
      | none => simp [hfa, hl] at h
      | some ys' =>
        simp [hfa, hl] at h
        subst h
        rcases List.mem_cons.1 hy with rfl | hy
        · exact ⟨a, by simp, hfa⟩
        · obtain ⟨b, hb, hfb⟩ := mapM_some_mem f hl y hy
          exact ⟨b, by simp [hb], hfb⟩

theorem nRows_of_rect {t : Table α} {n : Nat} (hrect : ∀ c ∈ t, c.2.length = n) {sel : List (Option Nat)}
    (hrec : recognise (t.map (·.1)) = .ok sel) (hne : (selIdxOf sel).isEmpty = false) : nRows t = n := by
  cases t with
  | nil =>
    simp [recognise, recogniseLower] at hrec
    subst hrec
    simp [selIdxOf] at hne
  | cons c r => simp [nRows, hrect c (by simp)]

/-- **fill ∘ fill = fill** on the model: if a rectangular table without case-duplicated columns is accepted, the
result satisfies the relations exactly, and the components that survive the drop still determine the tensor, then
filling the result again returns it unchanged. -/
theorem fill_fill (env : Env) (sys : String) (P : Params α) (t : Table α) (n : Nat)
    (hrect : ∀ c ∈ t, c.2.length = n) (hnd : NoCaseDup t)
    {sel₁ : List (Option Nat)} (hrec₁ : recognise (t.map (·.1)) = .ok sel₁)
    {rel : Rows} (hres : resolve env sys = .ok rel) (hne₁ : (selIdxOf sel₁).isEmpty = false)
    {s₁ : Solved α} (hs₁ : solveStage (stackA (α := α) (selIdxOf sel₁) rel)
            ((List.range (nRows t)).map fun k => stackB (selColsOf sel₁ t) rel k) = some s₁)
    (hv₁ : verdict P s₁ = .ok ())
    (hcons : ∀ x ∈ s₁.xs, ∀ r ∈ rel,
      dot (castRow (α := α) r) x = (Int.cast r.rhs : α) / (Int.cast (Int.ofNat r.den) : α))
    {sel₂ : List (Option Nat)} (hrec₂ : recognise ((finish P t s₁.xs).map (·.1)) = .ok sel₂)
    (hne₂ : (selIdxOf sel₂).isEmpty = false)
    {s₂ : Solved α} (hs₂ : solveStage (stackA (α := α) (selIdxOf sel₂) rel)
            ((List.range (nRows (finish P t s₁.xs))).map fun k =>
              stackB (selColsOf sel₂ (finish P t s₁.xs)) rel k) = some s₂)
    (hfull₂ : s₂.rankDeficient = false) (hatol : 0 ≤ P.residualAtol) :
    fill env (some sys) P t = .ok (finish P t s₁.xs) ∧
    fill env (some sys) P (finish P t s₁.xs) = .ok (finish P t s₁.xs) := by
  have hn : nRows t = n := nRows_of_rect hrect hrec₁ hne₁
  obtain ⟨hmap, _⟩ := solveStage_unfold hs₁
  have hxl : s₁.xs.length = n := by rw [mapM_some_length _ hmap]; simp [hn]
  have hxn : ∀ x ∈ s₁.xs, x.length = nsym := by
    intro x hx
    obtain ⟨b, _, hb⟩ := mapM_some_mem _ hmap x hx
    exact (lstsq_some hb).2
  obtain ⟨hfilled, hlen⟩ := finish_isFilled P hnd hrect hxl
  have hn₂ : nRows (finish P t s₁.xs) = n := nRows_of_rect hlen hrec₂ hne₂
  constructor
  · simp only [fill, hrec₁, hres]
    rw [fillWith_of_solved hne₁ hs₁, hv₁]
  · exact fill_filled env sys P _ s₁.xs hrec₂ hres hne₂ hs₂ hfull₂ (by rw [hxl, hn₂]) hxn hcons hfilled hatol

end Cij.Fill
