/-
  Linear-algebra lemmas for C07 (no property statements here): symmetric inverse, and the
  Cauchy–Schwarz inequality between a positive-semidefinite symmetric matrix `C` and a right inverse `S`,
  in the "energy" form used for the Reuss ≤ Voigt bounds:

      for strain-like vectors e_a and stress-like vectors s_a :
      0 ≤ (e − t S s)ᵀ C (e − t S s) = sᵀSs · t² − 2 (e·s) · t + eᵀCe     for every real t.
-/
import Mathlib.Algebra.QuadraticDiscriminant
import Mathlib.LinearAlgebra.Matrix.NonsingularInverse
import Mathlib.Analysis.Real.Sqrt
import Mathlib.Tactic.Linarith
import Mathlib.Tactic.Ring

namespace Cij.VRH
open Matrix

variable {n : Type*} [Fintype n] [DecidableEq n]

/-- a right inverse of a symmetric real matrix is symmetric -/
theorem inv_symm (C S : Matrix n n ℝ) (hC : Cᵀ = C) (h : C * S = 1) : Sᵀ = S := by
  have h1 : Sᵀ * C = 1 := by
    have := congrArg Matrix.transpose h
    rw [Matrix.transpose_mul, hC, Matrix.transpose_one] at this; exact this
  calc Sᵀ = Sᵀ * (C * S) := by rw [h, Matrix.mul_one]
    _ = (Sᵀ * C) * S := by rw [Matrix.mul_assoc]
    _ = S := by rw [h1, Matrix.one_mul]

/-- expansion of the stored energy of the strain `e − t·S s` -/
theorem energy_expand (C S : Matrix n n ℝ) (hC : Cᵀ = C) (h : C * S = 1) (e s : n → ℝ) (t : ℝ) :
    (e - t • (S *ᵥ s)) ⬝ᵥ C *ᵥ (e - t • (S *ᵥ s))
      = (s ⬝ᵥ S *ᵥ s) * (t * t) + (-2 * (e ⬝ᵥ s)) * t + e ⬝ᵥ C *ᵥ e := by
  have hCw : C *ᵥ (S *ᵥ s) = s := by rw [mulVec_mulVec, h, one_mulVec]
  have hwC : (S *ᵥ s) ᵥ* C = s := by
    have := vecMul_transpose Cᵀ (S *ᵥ s)
    rw [transpose_transpose, hC] at this
    rw [this, hCw]
  have h1 : (S *ᵥ s) ⬝ᵥ C *ᵥ e = e ⬝ᵥ s := by rw [dotProduct_mulVec, hwC, dotProduct_comm]
  have h2 : (S *ᵥ s) ⬝ᵥ s = s ⬝ᵥ S *ᵥ s := dotProduct_comm _ _
  simp only [mulVec_sub, mulVec_smul, hCw, sub_dotProduct, dotProduct_sub, smul_dotProduct,
    dotProduct_smul, smul_eq_mul, h1, h2]
  ring

/-- the quadratic in `t` is non-negative when `C` is positive semidefinite -/
theorem energy_nonneg (C S : Matrix n n ℝ) (hC : Cᵀ = C) (hpsd : ∀ x : n → ℝ, 0 ≤ x ⬝ᵥ C *ᵥ x)
    (h : C * S = 1) (e s : n → ℝ) (t : ℝ) :
    0 ≤ (s ⬝ᵥ S *ᵥ s) * (t * t) + (-2 * (e ⬝ᵥ s)) * t + e ⬝ᵥ C *ᵥ e := by
  rw [← energy_expand C S hC h e s t]; exact hpsd _

/-- Cauchy–Schwarz in the `C` inner product: `(e·s)² ≤ (eᵀCe)(sᵀSs)` -/
theorem cauchy_schwarz_inv (C S : Matrix n n ℝ) (hC : Cᵀ = C) (hpsd : ∀ x : n → ℝ, 0 ≤ x ⬝ᵥ C *ᵥ x)
    (h : C * S = 1) (e s : n → ℝ) :
    (e ⬝ᵥ s) ^ 2 ≤ (e ⬝ᵥ C *ᵥ e) * (s ⬝ᵥ S *ᵥ s) := by
  have := discrim_le_zero (energy_nonneg C S hC hpsd h e s)
  unfold discrim at this
  nlinarith [this]

/-- the same for five weighted pairs at once (weights ½, ⅙, ½, ½, ½ are what the shear bound needs; any
non-negative weights work): `(Σ wₐ eₐ·sₐ)² ≤ (Σ wₐ eₐᵀCeₐ)(Σ wₐ sₐᵀSsₐ)` -/
theorem cauchy_schwarz_inv5 (C S : Matrix n n ℝ) (hC : Cᵀ = C) (hpsd : ∀ x : n → ℝ, 0 ≤ x ⬝ᵥ C *ᵥ x)
    (h : C * S = 1) (w1 w2 w3 w4 w5 : ℝ) (hw1 : 0 ≤ w1) (hw2 : 0 ≤ w2) (hw3 : 0 ≤ w3) (hw4 : 0 ≤ w4)
    (hw5 : 0 ≤ w5) (e1 s1 e2 s2 e3 s3 e4 s4 e5 s5 : n → ℝ) :
    (w1 * (e1 ⬝ᵥ s1) + w2 * (e2 ⬝ᵥ s2) + w3 * (e3 ⬝ᵥ s3) + w4 * (e4 ⬝ᵥ s4) + w5 * (e5 ⬝ᵥ s5)) ^ 2 ≤
      (w1 * (e1 ⬝ᵥ C *ᵥ e1) + w2 * (e2 ⬝ᵥ C *ᵥ e2) + w3 * (e3 ⬝ᵥ C *ᵥ e3) + w4 * (e4 ⬝ᵥ C *ᵥ e4)
        + w5 * (e5 ⬝ᵥ C *ᵥ e5)) *
      (w1 * (s1 ⬝ᵥ S *ᵥ s1) + w2 * (s2 ⬝ᵥ S *ᵥ s2) + w3 * (s3 ⬝ᵥ S *ᵥ s3) + w4 * (s4 ⬝ᵥ S *ᵥ s4)
        + w5 * (s5 ⬝ᵥ S *ᵥ s5)) := by
  set X := w1 * (e1 ⬝ᵥ C *ᵥ e1) + w2 * (e2 ⬝ᵥ C *ᵥ e2) + w3 * (e3 ⬝ᵥ C *ᵥ e3) + w4 * (e4 ⬝ᵥ C *ᵥ e4)
        + w5 * (e5 ⬝ᵥ C *ᵥ e5) with hX
  set Y := w1 * (s1 ⬝ᵥ S *ᵥ s1) + w2 * (s2 ⬝ᵥ S *ᵥ s2) + w3 * (s3 ⬝ᵥ S *ᵥ s3) + w4 * (s4 ⬝ᵥ S *ᵥ s4)
        + w5 * (s5 ⬝ᵥ S *ᵥ s5) with hY
  set P := w1 * (e1 ⬝ᵥ s1) + w2 * (e2 ⬝ᵥ s2) + w3 * (e3 ⬝ᵥ s3) + w4 * (e4 ⬝ᵥ s4) + w5 * (e5 ⬝ᵥ s5) with hP
  have key : ∀ t : ℝ, 0 ≤ Y * (t * t) + (-2 * P) * t + X := by
    intro t
    have a1 := mul_nonneg hw1 (energy_nonneg C S hC hpsd h e1 s1 t)
    have a2 := mul_nonneg hw2 (energy_nonneg C S hC hpsd h e2 s2 t)
    have a3 := mul_nonneg hw3 (energy_nonneg C S hC hpsd h e3 s3 t)
    have a4 := mul_nonneg hw4 (energy_nonneg C S hC hpsd h e4 s4 t)
    have a5 := mul_nonneg hw5 (energy_nonneg C S hC hpsd h e5 s5 t)
    have : Y * (t * t) + (-2 * P) * t + X =
        w1 * ((s1 ⬝ᵥ S *ᵥ s1) * (t * t) + (-2 * (e1 ⬝ᵥ s1)) * t + e1 ⬝ᵥ C *ᵥ e1)
        + w2 * ((s2 ⬝ᵥ S *ᵥ s2) * (t * t) + (-2 * (e2 ⬝ᵥ s2)) * t + e2 ⬝ᵥ C *ᵥ e2)
        + w3 * ((s3 ⬝ᵥ S *ᵥ s3) * (t * t) + (-2 * (e3 ⬝ᵥ s3)) * t + e3 ⬝ᵥ C *ᵥ e3)
        + w4 * ((s4 ⬝ᵥ S *ᵥ s4) * (t * t) + (-2 * (e4 ⬝ᵥ s4)) * t + e4 ⬝ᵥ C *ᵥ e4)
        + w5 * ((s5 ⬝ᵥ S *ᵥ s5) * (t * t) + (-2 * (e5 ⬝ᵥ s5)) * t + e5 ⬝ᵥ C *ᵥ e5) := by
      rw [hX, hY, hP]; ring
    rw [this]; linarith
  have := discrim_le_zero key
  unfold discrim at this
  nlinarith [this]

end Cij.VRH
