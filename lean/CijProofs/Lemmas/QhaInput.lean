/- Helper lemmas for C17 (phonon data file): no property statements here. -/
import CijModel.QhaInput

namespace Cij.QhaInput
open Cij Cij.Lex

variable {Num : Type}

theorem parseNat_fmtNat (n : Nat) : parseNat (fmtNat n) = some n := by
  have hl : (fmtNat n).toList = Nat.toDigits 10 n := Nat.toList_repr
  have h1 : (fmtNat n).toList.all Char.isDigit = true := by
    rw [hl, List.all_eq_true]
    intro c hc
    exact Nat.isDigit_of_mem_toDigits (by decide) (by decide) hc
  have h2 : (fmtNat n).toList.isEmpty = false := by
    rw [hl]
    cases h : Nat.toDigits 10 n with
    | nil => exact absurd h Nat.toDigits_ne_nil
    | cons a l => rfl
  unfold parseNat
  rw [h1, h2]
  simp only [Bool.not_false, Bool.and_self, if_true]
  rw [hl, Nat.ofDigitChars_ten_toDigits]

theorem matchInfo_infoLine (d : Data Num) :
    matchInfo (infoLine d) = some (d.nv, d.nq, d.np, d.nm, d.na) := by
  simp [matchInfo, infoLine, parseNat_fmtNat]

theorem matchInfo_nil : matchInfo [] = none := rfl

theorem matchInfo_headerNames : matchInfo headerNames = none := by decide

theorem findInfo_header (d : Data Num) (comment : Line) (hc : matchInfo comment = none) (rest : List Line) :
    findInfo (comment :: [] :: headerNames :: infoLine d :: rest)
      = some ((d.nv, d.nq, d.np, d.nm, d.na), rest) := by
  simp [findInfo, hc, matchInfo_nil, matchInfo_headerNames, matchInfo_infoLine]

theorem mapM_parse_fmt (F : NumFmt Num) (hF : F.Lawful) (k : Nat) (xs : List Num) :
    (xs.map (F.fmt k)).mapM F.parse = some (xs.map (F.round k)) := by
  induction xs with
  | nil => rfl
  | cons x xs ih => simp [List.mapM_cons, hF k x, ih]

theorem readModes_write (F : NumFmt Num) (hF : F.Lawful) (ms : List Num) (rest : List Line) :
    readModes F ms.length (ms.map (modeLine F) ++ rest) = some (ms.map (F.round 6), rest) := by
  induction ms with
  | nil => simp [readModes]
  | cons m ms ih => simp [readModes, modeLine, hF 6 m] at ih ⊢; simp [ih]

theorem readQPoints_write (F : NumFmt Num) (hF : F.Lawful) (np : Nat) (qs : List (QPointData Num))
    (hq : ∀ q ∈ qs, q.modes.length = np) (rest : List Line) :
    readQPoints F np qs.length (qs.flatMap (qPointLines F) ++ rest) = some (qs.map (roundQPoint F), rest) := by
  induction qs with
  | nil => simp [readQPoints]
  | cons q qs ih =>
    have hlen : q.modes.length = np := hq q (by simp)
    have ih' := ih (fun q' h => hq q' (by simp [h]))
    have hm := readModes_write F hF q.modes (qs.flatMap (qPointLines F) ++ rest)
    rw [hlen] at hm
    simp only [List.flatMap_cons, qPointLines, List.length_cons, List.cons_append, List.append_assoc, readQPoints]
    rw [show (coordLine F q.coord).mapM F.parse = some (q.coord.map (F.round 4)) from mapM_parse_fmt F hF 4 q.coord]
    simp [hm, ih', roundQPoint]

theorem isLabels : isLabel1 "P=" = true ∧ isLabel2 "V=" = true ∧ isLabel2 "E=" = true := by decide

theorem matchPVE_pveLine (F : NumFmt Num) (p v e : Num) :
    matchPVE (pveLine F p v e) = some (F.fmt 6 p, F.fmt 6 v, F.fmt 6 e) := by
  simp [matchPVE, pveLine, isLabels]

theorem skipBlank_cons_ne (l : Line) (ls : List Line) (h : l ≠ []) : skipBlank (l :: ls) = l :: ls := by
  cases l with
  | nil => exact absurd rfl h
  | cons a t => rfl

theorem readVolumes_write (F : NumFmt Num) (hF : F.Lawful) (nq np : Nat) (vs : List (VolumeData Num))
    (hq : ∀ v ∈ vs, v.qPoints.length = nq) (hp : ∀ v ∈ vs, ∀ q ∈ v.qPoints, q.modes.length = np)
    (rest : List Line) :
    readVolumes F nq np vs.length (vs.flatMap (volumeLines F) ++ rest) = some (vs.map (roundVolume F), rest) := by
  induction vs with
  | nil => simp [readVolumes]
  | cons v vs ih =>
    have ih' := ih (fun v' h => hq v' (by simp [h])) (fun v' h => hp v' (by simp [h]))
    have hlen : v.qPoints.length = nq := hq v (by simp)
    have hqs := readQPoints_write F hF np v.qPoints (hp v (by simp)) (vs.flatMap (volumeLines F) ++ rest)
    rw [hlen] at hqs
    simp only [List.flatMap_cons, volumeLines, List.length_cons, List.cons_append, List.append_assoc, readVolumes]
    rw [skipBlank_cons_ne _ _ (by simp [pveLine])]
    simp [matchPVE_pveLine, hF 6, hqs, ih', roundVolume]

/-- one more blank line in front of a volume block is skipped -/
theorem readVolumes_blank (F : NumFmt Num) (nq np n : Nat) (ls : List Line) :
    readVolumes F nq np (n + 1) ([] :: ls) = readVolumes F nq np (n + 1) ls := by
  simp [readVolumes, skipBlank]

theorem scanWeight_marker (ws : List Line) : scanWeight ([] :: ["weight"] :: ws) = ws := by
  simp [scanWeight]

theorem readWeights_write (F : NumFmt Num) (hF : F.Lawful) (ws : List (QPointWeight Num))
    (h3 : ∀ w ∈ ws, w.coord.length = 3) :
    ∃ ls, ws.mapM (weightLine F) = some ls ∧ readWeights F ws.length ls = some (ws.map (roundWeight F)) := by
  have hF6 : ∀ x, F.parse (F.fmt 6 x) = some (F.round 6 x) := hF 6
  induction ws with
  | nil => exact ⟨[], rfl, by simp [readWeights]⟩
  | cons w ws ih =>
    obtain ⟨ls, hls, hr⟩ := ih (fun w' h => h3 w' (by simp [h]))
    have hw : w.coord.length = 3 := h3 w (by simp)
    obtain ⟨c, x⟩ := w
    match c, hw with
    | [a, b, c], _ =>
      refine ⟨[F.fmt 6 a, F.fmt 6 b, F.fmt 6 c, F.fmt 6 x] :: ls, ?_, ?_⟩
      · simp [List.mapM_cons, weightLine, hls]
      · simp [readWeights, List.mapM_cons, hF6, hr, roundWeight]

end Cij.QhaInput
