/- Helper lemmas for the degenerate keys c14, c25, c36 of the axis-permutation clause of C04. -/
import CijProofs.Lemmas.Permutation

set_option linter.unusedSectionVars false

namespace Cij.Tasks
open Cij Cij.Shear

section diag
variable {R : Type} [Field R]

/-- rotated-frame energy for ANY dictionary `g`: half of `Σ_ab g(c_aabb) λ_a λ_b` -/
theorem strainEnergy_diag (isZero : R → Bool) (hz : ∀ x, isZero x = true ↔ x = 0) (lam : Vec3 R) (g : Modulus → R) :
    strainEnergy isZero (diagMat lam) g none =
      (sum3 fun a => sum3 fun b => g (key4 a a b b) * lam a * lam b) / 2 := by
  have h0 : isZero (0 : R) = true := (hz 0).2 rfl
  unfold strainEnergy energyPairs
  rw [nzPairs_diag isZero h0, foldl_add_eq]
  simp only [Nat.cast_zero, zero_add, Nat.cast_ofNat, reduceCtorEq, decide_false, Bool.not_false, List.filter_true]
  rw [sum_map_div]
  congr 1
  have hprod : ∀ (l : List (Fin 3)) (gg : Pair × Pair → R),
      ((product (l.map fun a => (a, a))).map gg).sum = (l.map fun a => (l.map fun b => gg ((a, a), (b, b))).sum).sum := by
    intro l gg
    have gen : ∀ (l1 l2 : List Pair),
        ((l1.flatMap fun p => l2.map fun q => (p, q)).map gg).sum = (l1.map fun p => (l2.map fun q => gg (p, q)).sum).sum := by
      intro l1 l2
      induction l1 with
      | nil => simp
      | cons x xs ih => simp [List.flatMap_cons, List.map_append, List.sum_append, ih, List.map_map, Function.comp_def]
    unfold product
    rw [gen]
    simp [List.map_map, Function.comp_def]
  rw [hprod]
  set f : Fin 3 → Fin 3 → R := fun a b => g (key4 a a b b) * lam a * lam b with hf
  have hterm : ∀ a b : Fin 3, g (keyOfPairs ((a, a), (b, b))) * diagMat lam a a * diagMat lam b b = f a b := by
    intro a b
    simp only [keyOfPairs, diagMat, if_true, hf]
  simp only [hterm]
  have hlam : ∀ a : Fin 3, (!isZero (lam a)) = false → lam a = 0 := by
    intro a ha
    apply (hz _).1
    simpa using ha
  have inner : ∀ a : Fin 3, ((fin3.filter fun b => !isZero (lam b)).map fun b => f a b).sum = (fin3.map fun b => f a b).sum := by
    intro a
    apply sum_filter_of_zero
    intro b _ hb
    simp [hf, hlam b hb]
  simp only [inner]
  rw [sum_filter_of_zero (fun a => (fin3.map fun b => f a b).sum) (fun a => !isZero (lam a)) fin3
    (by intro a _ ha; simp [hf, hlam a ha, fin3])]
  simp [fin3, sum3, hf, add_assoc]

end diag

/-- (axis p, other axes q < r): c14 ↔ (0,1,2), c25 ↔ (1,0,2), c36 ↔ (2,0,1) -/
def degTriples : List (Fin 3 × Fin 3 × Fin 3) := [(0, 1, 2), (1, 0, 2), (2, 0, 1)]

/-- the key with a doubly degenerate fictitious strain, its pure-shear partner and its longitudinal partner -/
def degKey (t : Fin 3 × Fin 3 × Fin 3) : Modulus := key4 t.1 t.1 t.2.1 t.2.2
def degShear (t : Fin 3 × Fin 3 × Fin 3) : Modulus := key4 t.2.1 t.2.2 t.2.1 t.2.2
def degLong (t : Fin 3 × Fin 3 × Fin 3) : Modulus := key4 t.1 t.1 t.1 t.1

theorem deg_facts : ∀ t ∈ degTriples,
    degKey t ∈ shearKeys ∧ degShear t ∈ shearKeys ∧ degLong t ∈ allKeys ∧
    (degKey t).multiplicity = 4 ∧ (degShear t).multiplicity = 4 ∧
    ((origPairs (degKey t)).map keyOfPairs).Perm [degLong t, degShear t, degShear t, degShear t, degShear t] ∧
    (origPairs (degShear t)).map keyOfPairs = [] ∧
    (degLong t).isShear = false ∧ (degLong t).calcType = .longitudinal ∧
    idx (degLong t).i.i = t.1 ∧ idx (degLong t).j.i = t.1 ∧
    (degKey t).voigt = some ((t.1.val : Int) + 1, (t.1.val : Int) + 4) := by
  decide +kernel

/-- parameters of the rotated-frame keys -/
theorem key4_diag_params : ∀ a b : Fin 3,
    (key4 a a b b).isShear = false ∧
    (key4 a a b b).calcType = (if a = b then .longitudinal else .offDiagonal) ∧
    idx (key4 a a b b).i.i = (if a ≤ b then a else b) ∧ idx (key4 a a b b).j.i = (if a ≤ b then b else a) := by
  decide +kernel

end Cij.Tasks

namespace Cij.Tasks
open Cij Cij.Shear

section degen
variable {R : Type} [Field R] [CharZero R]

/-- mean of the two axial strains that are mixed by the fictitious strain -/
def mOf (t : Fin 3 × Fin 3 × Fin 3) (row : Vec3 R) : R := (row t.2.1 + row t.2.2) / 2

/-- the eigen-frames LAPACK returns for a degenerate key and for its pure-shear partner, described by what they do:
for `c_ppqr` (spectrum −1, 1, 1) the frame contains the coordinate axis `p` (third column) and the symmetric /
antisymmetric combinations of `q`, `r`; for `c_qrqr` (spectrum −1, 0, 1) the axis `p` is the middle column.
`rot*` state the squared entries of `T` through the rotated axial strains they produce. -/
structure DegFrames (eig : Eig R) (t : Fin 3 × Fin 3 × Fin 3) : Prop where
  lamD : (eig (degKey t)).2 0 = -1 ∧ (eig (degKey t)).2 1 = 1 ∧ (eig (degKey t)).2 2 = 1
  rotD : ∀ row : Vec3 R, strainRotated (eig (degKey t)).1 row 0 = mOf t row ∧
      strainRotated (eig (degKey t)).1 row 1 = mOf t row ∧ strainRotated (eig (degKey t)).1 row 2 = row t.1
  lamS : (eig (degShear t)).2 0 = -1 ∧ (eig (degShear t)).2 1 = 0 ∧ (eig (degShear t)).2 2 = 1
  rotS : ∀ row : Vec3 R, strainRotated (eig (degShear t)).1 row 0 = mOf t row ∧
      strainRotated (eig (degShear t)).1 row 1 = row t.1 ∧ strainRotated (eig (degShear t)).1 row 2 = mOf t row

theorem create_diag (F : SField R) (a b : Fin 3) :
    create F (key4 a a b b) = .nonshear (if a = b then .longitudinal else .offDiagonal)
      (component F (if a ≤ b then a else b)) (component F (if a ≤ b then b else a)) := by
  obtain ⟨h1, h2, h3, h4⟩ := key4_diag_params a b
  unfold create
  simp [h1, h2, h3, h4]

theorem component_rotated (T : Mat3 R) (s : SField R) (i : Fin 3) :
    component (rotatedField T s) i = s.map fun row => strainRotated T row i / sum3 (strainRotated T row) := by
  unfold component rotatedField
  rw [List.map_map]; rfl

theorem sum3_deg {t : Fin 3 × Fin 3 × Fin 3} (ht : t ∈ degTriples) (row : Vec3 R) :
    mOf t row + mOf t row + row t.1 = sum3 row := by
  simp only [degTriples, List.mem_cons, List.mem_nil_iff, or_false] at ht
  rcases ht with rfl | rfl | rfl <;> simp [mOf, sum3] <;> ring

/-- with such frames the degenerate component vanishes identically: for every strain field and all non-shear values -/
theorem degenerate_zero {isZero : R → Bool} (hz : ZeroSpec isZero) (eig : Eig R) (base : Params R → R)
    {t : Fin 3 × Fin 3 × Fin 3} (ht : t ∈ degTriples) (hf : DegFrames eig t) (s : SField R) :
    spec isZero eig base 2 (create s (degKey t)) = 0 := by
  obtain ⟨hkd, hks, hkl, hmd, hms, hperm, hnil, hlns, hlct, hli, hlj, _⟩ := deg_facts t ht
  -- the normalised components that occur
  set cm : CField R := s.map fun row => mOf t row / sum3 row with hcm
  set cp : CField R := s.map fun row => row t.1 / sum3 row with hcp
  have compD : component (rotatedField (eig (degKey t)).1 s) 0 = cm ∧
      component (rotatedField (eig (degKey t)).1 s) 1 = cm ∧ component (rotatedField (eig (degKey t)).1 s) 2 = cp := by
    refine ⟨?_, ?_, ?_⟩ <;> rw [component_rotated] <;> apply List.map_congr_left <;> intro row _ <;>
      simp only [sum3, (hf.rotD row).1, (hf.rotD row).2.1, (hf.rotD row).2.2] <;> rw [sum3_deg ht row] <;> rfl
  have compS : component (rotatedField (eig (degShear t)).1 s) 0 = cm ∧
      component (rotatedField (eig (degShear t)).1 s) 2 = cm := by
    refine ⟨?_, ?_⟩ <;> rw [component_rotated] <;> apply List.map_congr_left <;> intro row _ <;>
      simp only [sum3, (hf.rotS row).1, (hf.rotS row).2.1, (hf.rotS row).2.2] <;>
      rw [show mOf t row + row t.1 + mOf t row = mOf t row + mOf t row + row t.1 by ring, sum3_deg ht row] <;> rfl
  have compP : component s t.1 = cp := rfl
  -- the non-shear values that occur
  set Lm := base (.nonshear .longitudinal cm cm)
  set Lp := base (.nonshear .longitudinal cp cp)
  set Om := base (.nonshear .offDiagonal cm cm)
  set Omp := base (.nonshear .offDiagonal cm cp)
  -- value of the pure-shear partner
  have hshear : spec isZero eig base 2 (create s (degShear t)) = (Lm - Om) / 2 := by
    have hc : create s (degShear t) = .shear s (degShear t) := by
      unfold create; simp [(mem_shearKeys.1 hks).2]
    rw [hc, spec_fix hz eig base s hks, shearValue_unfold isZero hz, hnil, hms, strainEnergy_diag isZero hz]
    simp only [sum3, create_diag, spec_nonshear, hf.lamS.1, hf.lamS.2.1, hf.lamS.2.2]
    simp
    simp only [compS.1, compS.2]
    ring
  -- value of the longitudinal partner
  have hlong : spec isZero eig base 2 (create s (degLong t)) = Lp := by
    unfold create
    simp only [hlns, Bool.false_eq_true, if_false, hlct, hli, hlj, spec_nonshear, compP]
    rfl
  have hc : create s (degKey t) = .shear s (degKey t) := by
    unfold create; simp [(mem_shearKeys.1 hkd).2]
  rw [hc, spec_fix hz eig base s hkd, shearValue_unfold isZero hz, (hperm.map _).sum_eq, hmd,
    strainEnergy_diag isZero hz]
  simp only [List.map_cons, List.map_nil, List.sum_cons, List.sum_nil, hshear, hlong]
  simp only [sum3, create_diag, spec_nonshear, hf.lamD.1, hf.lamD.2.1, hf.lamD.2.2]
  simp
  simp only [compD.1, compD.2.1, compD.2.2]
  ring

end degen

end Cij.Tasks

namespace Cij.Tasks
open Cij Cij.Shear

/-- the twelve shear keys whose fictitious strain has a simple spectrum -/
def simpleShearKeys : List Modulus := shearKeys.filter fun k => !(degTriples.map degKey).contains k

theorem shearKeys_split : ∀ k ∈ shearKeys, (∃ t ∈ degTriples, k = degKey t) ∨ k ∈ simpleShearKeys := by
  decide +kernel

theorem permKey_deg : ∀ v ∈ permTriples, ∀ t ∈ degTriples, ∃ t' ∈ degTriples, permKey v (degKey t) = degKey t' := by
  decide +kernel

theorem simpleShearKeys_length : simpleShearKeys.length = 12 ∧
    (degTriples.map degKey).map Modulus.voigt = [some (1, 4), some (2, 5), some (3, 6)] := by
  decide +kernel

end Cij.Tasks
