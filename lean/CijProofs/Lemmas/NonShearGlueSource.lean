/-
  The glue of `cij/core/phonon_contribution/nonshear.py` IS what the model says (helper lemmas for C01 / C02; no property
  statements here).

  `tools/gens/nonshear_src.py` re-extracts the glue on every run (`Generated/NonShearGlue.lean`); `CijModel/NSGlue.lean` gives the
  data their meaning.  Here, for the data extracted NOW:
    * `NonShear.averageOverModes` is the evaluation of the translated reduction tree of the module function
      `average_over_modes`, through the translated method `average_over_modes(self, amount)` — for every scalar type and all lists;
    * `NonShear.prefactorsLong/Off` are the translated `prefactors` expressions, `NonShear.modeGamma` the translated wiring with
      its translated broadcasting, `NonShear.Qarr` the translated `Q`;
    * the translated `ret[numpy.where(self.t_array == 0), :] = 0` statements select rows by VALUE, on any temperature grid;
    * `Source.valueIsothermalAt` — a `value_isothermal` assembled from translated pieces only — equals the model function;
    * class table, coverage list, broadcasting table, unit conversions: decided on the generated data.
-/
import CijModel.NSGlue
import Generated.NonShearGlue
import Generated.NonShearExprs
import Generated.QExprs
import CijProofs.Lemmas.NonShearCalculus
import CijProofs.Lemmas.NonShearSource

namespace Cij.NSGlue
open Cij.NonShear Cij.NSExpr
open Generated.NonShearGlue

set_option linter.unusedSectionVars false

section Generic
variable {α : Type} [Scalar α] [Add α] [Sub α] [Mul α] [Div α] [Neg α]

/-! ### `clear_gamma_point` / `average_over_modes` -/

theorem setRange_ge (lo hi : Nat) (v : α) (i : Nat) (l : List α) (h : hi ≤ i) : setRange lo hi v i l = l := by
  induction l generalizing i with
  | nil => rfl
  | cons a l ih =>
    have h1 : ¬ (lo ≤ i ∧ i < hi) := by omega
    simp only [setRange, h1, if_false]
    rw [ih (i + 1) (by omega)]

/-- `mat[..., 0, 0:3] = 0` as translated = `clearGamma` of the model, for every array -/
theorem clearAt_gen (x : List (List α)) : clearAt clearSpec x = clearGamma x := by
  cases x with
  | nil => rfl
  | cons r rs =>
    show setRange 0 3 (nat 0) 0 r :: rs = zeroFirst 3 r :: rs
    congr 1
    match r with
    | [] => rfl
    | [a] => rfl
    | [a, b] => rfl
    | a :: b :: c :: rest =>
      show nat 0 :: nat 0 :: nat 0 :: setRange 0 3 (nat 0) 3 rest = nat 0 :: nat 0 :: nat 0 :: rest
      rw [setRange_ge 0 3 (nat 0) 3 rest (Nat.le_refl 3)]

/-- the module function as translated, on any `[q][m]` array and any weights -/
theorem evalRed_gen (x : List (List α)) (w : List α) :
    evalRed clearSpec w x avgTree = .a0 (averageOverModes x w) := by
  simp only [avgTree, evalRed, clearSpec, Bool.and_self, beq_self_eq_true, if_true]
  have h := clearAt_gen x
  simp only [clearSpec] at h
  rw [h]
  rfl

/-- the method `average_over_modes(self, amount)` as translated: the module function on `amount` and `self.q_weights` -/
theorem methodAvg_gen (x : List (List α)) (w : List α) :
    methodAvg avgMethod avgTree clearSpec x w = .a0 (averageOverModes x w) := by
  have h : (avgMethod.callee == "average_over_modes" && avgMethod.amountArg == .param "amount"
      && avgMethod.weightsArg == .selfPath ["q_weights"]) = true := by decide
  unfold methodAvg
  rw [if_pos h]
  exact evalRed_gen x w

/-! ### `prefactors`, `mode_gamma`, `Q` -/

theorem prefactorsLong_gen (e0 e1 : α) : prefactorsLong e0 e1 = evalPref prefExprsLong e0 e1 := rfl
theorem prefactorsOff_gen (e0 e1 : α) : prefactorsOff e0 e1 = evalPref prefExprsOff e0 e1 := rfl

theorem wiringGammaLong_gen (p : Pref α) (mg0 mg1 mg2 : List (List α)) :
    wiringGamma Generated.mgWiringLong mgBroadcastLong p mg0 mg1 mg2 = some (modeGamma p mg0 mg1 mg2) := by
  have h : (mgBroadcastLong.all (· == prefPattern) && mgBroadcastLong.length == 4) = true := by decide
  unfold wiringGamma
  rw [if_pos h]
  rfl

theorem wiringGammaOff_gen (p : Pref α) (mg0 mg1 mg2 : List (List α)) :
    wiringGamma Generated.mgWiringOff mgBroadcastOff p mg0 mg1 mg2 = some (modeGamma p mg0 mg1 mg2) := by
  have h : (mgBroadcastOff.all (· == prefPattern) && mgBroadcastOff.length == 4) = true := by decide
  unfold wiringGamma
  rw [if_pos h]
  rfl

theorem Qarr_gen (hdk T : α) (freq : List (List α)) :
    Qarr hdk T freq = map2 (fun f => evalQDef hdk T f qDef) freq := rfl

/-! ### bodies with the translated averaging -/

theorem evalSWith_model (e : SEnv α) (t : SExpr) :
    evalSWith (fun x w => some (averageOverModes x w)) e t = some (evalS e t) := by
  induction t with
  | sym s => rfl
  | lit n => rfl
  | avg m => rfl
  | neg a ih => simp only [evalSWith, ih, Option.map_some, evalS]
  | add a b iha ihb => simp only [evalSWith, iha, ihb, evalS]; rfl
  | sub a b iha ihb => simp only [evalSWith, iha, ihb, evalS]; rfl
  | mul a b iha ihb => simp only [evalSWith, iha, ihb, evalS]; rfl
  | div a b iha ihb => simp only [evalSWith, iha, ihb, evalS]; rfl
  | sq a ih => simp only [evalSWith, ih, evalS]; rfl

/-! ### masks -/

/-- the generated mask value: rows with `t_array == 0`, all columns, set to 0 -/
def t0Mask : MaskSpec := { target := "ret", rows := .whereCmp ["t_array"] "==" 0, colsFull := true, value := 0 }

theorem t0Mask_hits (i : Nat) (T : α) : t0Mask.hits i T = some (Scalar.isZero T) := by
  have h : ((["t_array"] : List String) == ["t_array"] && "==" == "==" && (0 : Int) == 0) = true := by decide
  simp only [MaskSpec.hits, t0Mask, Bool.not_true, Bool.false_eq_true, if_false]
  rw [if_pos h]

theorem maskAt_nil (T x : α) : maskAt ([] : List MaskSpec) T x = some x := rfl

theorem maskAt_t0 (T x : α) : maskAt [t0Mask] T x = some (if Scalar.isZero T then nat 0 else x) := by
  have h := t0Mask_hits (α := α) 0 T
  simp only [maskAt]
  show (match t0Mask.hits 0 T with
    | some b => maskAt [] T (if b = true then nat t0Mask.value else x)
    | none => none) = _
  rw [h]
  rfl

/-- a `numpy.where(self.t_array == 0)` mask on ANY temperature grid: exactly the rows whose temperature is 0 are
overwritten — wherever they are, however many there are (none, one, several) -/
theorem applyMaskFrom_t0 (i : Nat) (ts : List α) (grid : List (List α)) :
    applyMaskFrom t0Mask i ts grid
      = some (List.zipWith (fun T row => if Scalar.isZero T then row.map (fun _ => nat 0) else row) ts grid) := by
  induction ts generalizing i grid with
  | nil => cases grid <;> rfl
  | cons T ts ih =>
    cases grid with
    | nil => rfl
    | cons row rows =>
      simp only [applyMaskFrom, t0Mask_hits, ih (i + 1) rows, List.zipWith_cons_cons]
      rfl

theorem applyMasks_t0 (ts : List α) (grid : List (List α)) :
    applyMasks [t0Mask] ts grid
      = some (List.zipWith (fun T row => if Scalar.isZero T then row.map (fun _ => nat 0) else row) ts grid) := by
  simp only [applyMasks, applyMask, applyMaskFrom_t0, Option.bind_some]

theorem masks_gen :
    masksThLong = [t0Mask] ∧ masksThOff = [t0Mask] ∧ masksGapLong = [t0Mask] ∧ masksGapOff = [t0Mask] ∧
    masksZpLong = [] ∧ masksZpOff = [] ∧ masksIsoLong = [] ∧ masksIsoOff = [] ∧ masksAdiaLong = [] ∧ masksAdiaOff = [] := by
  decide

/-- unmasked `thermal_contribution[t][v]`: the translated body at every grid point -/
def rawGrid (b : Body) (mg : VolSlice α → ModeGamma α) (c : Consts α) (w : List α) (ts : List (TempRow α))
    (vs : List (VolSlice α)) : List (List α) :=
  ts.map fun r => vs.map fun s => evalS (envAt c w r.T (nat 0) (nat 0) s (mg s) (nat 0) (nat 0) (nat 0) (nat 0)) b.expr

private theorem zipWith_rows (f : α → List α → List α) (g : TempRow α → List α) (ts : List (TempRow α)) :
    List.zipWith f (ts.map (·.T)) (ts.map g) = ts.map fun r => f r.T (g r) := by
  induction ts with
  | nil => rfl
  | cons r ts ih => simp only [List.map_cons, List.zipWith_cons_cons, ih]

/-- the model's `thermalLong` grid = the translated mask applied to the grid of the translated (unmasked) body:
the model zeroes a row exactly when the translated statement does -/
theorem thermalLong_mask_gen (c : Consts α) (w : List α) (ts : List (TempRow α)) (vs : List (VolSlice α)) :
    applyMasks masksThLong (ts.map (·.T)) (rawGrid Generated.nsThLong mgLong c w ts vs) = some (thermalLong c w ts vs) := by
  rw [masks_gen.1, applyMasks_t0, rawGrid, zipWith_rows]
  congr 1
  refine List.map_congr_left (fun r _ => ?_)
  by_cases hT : Scalar.isZero r.T = true
  · simp only [hT, if_true, List.map_map]
    refine List.map_congr_left (fun s _ => ?_)
    simp [thermalLongAt, hT]
  · simp only [hT, Bool.false_eq_true, if_false]
    refine List.map_congr_left (fun s _ => ?_)
    rw [thermalLong_is_source c w r.T (nat 0) (nat 0) s (mgLong s) (nat 0) (nat 0) (nat 0) (nat 0)]
    have hT' : Scalar.isZero (envAt c w r.T (nat 0) (nat 0) s (mgLong s) (nat 0) (nat 0) (nat 0) (nat 0)).T = false := by
      show Scalar.isZero r.T = false
      simpa using hT
    unfold evalBody
    rw [hT', Bool.and_false]
    rfl

theorem thermalOff_mask_gen (c : Consts α) (w : List α) (ts : List (TempRow α)) (vs : List (VolSlice α)) :
    applyMasks masksThOff (ts.map (·.T)) (rawGrid Generated.nsThOff mgOff c w ts vs) = some (thermalOff c w ts vs) := by
  rw [masks_gen.2.1, applyMasks_t0, rawGrid, zipWith_rows]
  congr 1
  refine List.map_congr_left (fun r _ => ?_)
  by_cases hT : Scalar.isZero r.T = true
  · simp only [hT, if_true, List.map_map]
    refine List.map_congr_left (fun s _ => ?_)
    simp [thermalOffAt, hT]
  · simp only [hT, Bool.false_eq_true, if_false]
    refine List.map_congr_left (fun s _ => ?_)
    rw [thermalOff_is_source c w r.T (nat 0) (nat 0) s (mgOff s) (nat 0) (nat 0) (nat 0) (nat 0)]
    have hT' : Scalar.isZero (envAt c w r.T (nat 0) (nat 0) s (mgOff s) (nat 0) (nat 0) (nat 0) (nat 0)).T = false := by
      show Scalar.isZero r.T = false
      simpa using hT
    unfold evalBody
    rw [hT', Bool.and_false]
    rfl

/-! ### a whole `value_isothermal` from translated pieces only -/

/-- the longitudinal class as the translators read it on this run -/
def srcLong : Source :=
  { avgMethod := avgMethod, avgTree := avgTree, clear := clearSpec, pref := prefExprsLong,
    wiring := Generated.mgWiringLong, wiringBcast := mgBroadcastLong, qDef := qDef,
    zp := Generated.nsZpLong, th := Generated.nsThLong, iso := Generated.nsIsoLong,
    maskZp := masksZpLong, maskTh := masksThLong, maskIso := masksIsoLong }

/-- the off-diagonal class as the translators read it on this run (inherited methods resolved) -/
def srcOff : Source :=
  { avgMethod := avgMethod, avgTree := avgTree, clear := clearSpec, pref := prefExprsOff,
    wiring := Generated.mgWiringOff, wiringBcast := mgBroadcastOff, qDef := qDef,
    zp := Generated.nsZpOff, th := Generated.nsThOff, iso := Generated.nsIsoOff,
    maskZp := masksZpOff, maskTh := masksThOff, maskIso := masksIsoOff }

theorem srcLong_avg (x : List (List α)) (w : List α) : srcLong.avg x w = some (averageOverModes x w) := by
  show (methodAvg avgMethod avgTree clearSpec x w).scalar? = _
  rw [methodAvg_gen]; rfl

theorem srcOff_avg (x : List (List α)) (w : List α) : srcOff.avg x w = some (averageOverModes x w) := by
  show (methodAvg avgMethod avgTree clearSpec x w).scalar? = _
  rw [methodAvg_gen]; rfl

theorem srcLong_avg_fun : (srcLong.avg : List (List α) → List α → Option α) = fun x w => some (averageOverModes x w) := by
  funext x w; exact srcLong_avg x w

theorem srcOff_avg_fun : (srcOff.avg : List (List α) → List α → Option α) = fun x w => some (averageOverModes x w) := by
  funext x w; exact srcOff_avg x w

theorem srcLong_modeGamma (s : VolSlice α) : srcLong.modeGamma s = some (mgLong s) := by
  show wiringGamma Generated.mgWiringLong mgBroadcastLong (evalPref prefExprsLong s.e0 s.e1) s.mg0 s.mg1 s.mg2 = _
  rw [wiringGammaLong_gen]; rfl

theorem srcOff_modeGamma (s : VolSlice α) : srcOff.modeGamma s = some (mgOff s) := by
  show wiringGamma Generated.mgWiringOff mgBroadcastOff (evalPref prefExprsOff s.e0 s.e1) s.mg0 s.mg1 s.mg2 = _
  rw [wiringGammaOff_gen]; rfl

theorem srcLong_env (c : Consts α) (w : List α) (T P cv : α) (s : VolSlice α) (g : ModeGamma α) (a b d e : α) :
    srcLong.env q1 q2 c w T P cv s g a b d e = envAt c w T P cv s g a b d e := rfl

theorem srcOff_env (c : Consts α) (w : List α) (T P cv : α) (s : VolSlice α) (g : ModeGamma α) (a b d e : α) :
    srcOff.env q1 q2 c w T P cv s g a b d e = envAt c w T P cv s g a b d e := rfl

theorem srcLong_zeroPoint (c : Consts α) (w : List α) (T P cv : α) (s : VolSlice α) :
    srcLong.zeroPointAt q1 q2 c w T P cv s = some (zeroPointLongAt c.h c.na s.V (mgLong s) s.freq w) := by
  simp only [Source.zeroPointAt, srcLong_modeGamma, srcLong_avg_fun, srcLong_env, evalSWith_model, Option.bind_eq_bind,
    Option.bind_some]
  show maskAt masksZpLong T _ = _
  rw [masks_gen.2.2.2.2.1, maskAt_nil]
  rfl

theorem srcOff_zeroPoint (c : Consts α) (w : List α) (T P cv : α) (s : VolSlice α) :
    srcOff.zeroPointAt q1 q2 c w T P cv s = some (zeroPointOffAt c.h c.na s.V (mgOff s) s.freq w) := by
  simp only [Source.zeroPointAt, srcOff_modeGamma, srcOff_avg_fun, srcOff_env, evalSWith_model, Option.bind_eq_bind,
    Option.bind_some]
  show maskAt masksZpOff T _ = _
  rw [masks_gen.2.2.2.2.2.1, maskAt_nil]
  rfl

theorem srcLong_thermal (c : Consts α) (w : List α) (T P cv : α) (s : VolSlice α) :
    srcLong.thermalAt q1 q2 c w T P cv s = some (thermalLongAt c.k c.hdk c.na T s.V (mgLong s) s.freq w) := by
  simp only [Source.thermalAt, srcLong_modeGamma, srcLong_avg_fun, srcLong_env, evalSWith_model, Option.bind_eq_bind,
    Option.bind_some]
  show maskAt masksThLong T _ = _
  rw [masks_gen.1, maskAt_t0]
  rfl

theorem srcOff_thermal (c : Consts α) (w : List α) (T P cv : α) (s : VolSlice α) :
    srcOff.thermalAt q1 q2 c w T P cv s = some (thermalOffAt c.k c.hdk c.na T s.V (mgOff s) s.freq w) := by
  simp only [Source.thermalAt, srcOff_modeGamma, srcOff_avg_fun, srcOff_env, evalSWith_model, Option.bind_eq_bind,
    Option.bind_some]
  show maskAt masksThOff T _ = _
  rw [masks_gen.2.1, maskAt_t0]
  rfl

/-- `value_isothermal` of the longitudinal class assembled from translated pieces = the model function, all inputs, every scalar -/
theorem srcLong_valueIsothermal (c : Consts α) (w : List α) (T P cv : α) (s : VolSlice α) :
    srcLong.valueIsothermalAt q1 q2 c w T P cv s = some (valueIsothermalLongAt c w T s) := by
  simp only [Source.valueIsothermalAt, srcLong_modeGamma, srcLong_zeroPoint, srcLong_thermal, srcLong_avg_fun, srcLong_env,
    evalSWith_model, Option.bind_eq_bind, Option.bind_some]
  show maskAt masksIsoLong T _ = _
  rw [masks_gen.2.2.2.2.2.2.1, maskAt_nil]
  rfl

/-- `value_isothermal` of the off-diagonal class assembled from translated pieces = the model function -/
theorem srcOff_valueIsothermal (c : Consts α) (w : List α) (T P cv : α) (s : VolSlice α) :
    srcOff.valueIsothermalAt q1 q2 c w T P cv s = some (valueIsothermalOffAt c w T P s) := by
  simp only [Source.valueIsothermalAt, srcOff_modeGamma, srcOff_zeroPoint, srcOff_thermal, srcOff_avg_fun, srcOff_env,
    evalSWith_model, Option.bind_eq_bind, Option.bind_some]
  show maskAt masksIsoOff T _ = _
  rw [masks_gen.2.2.2.2.2.2.2.1, maskAt_nil]
  rfl

end Generic

/-! ### over ℝ -/

/-- the translated `Q1`, `Q2` return expressions as functions of `Q` -/
noncomputable def q1Src : ℝ → ℝ := fun x => Generated.q1Expr.eval Real.exp x
noncomputable def q2Src : ℝ → ℝ := fun x => Generated.q2Expr.eval Real.exp x

theorem q1Src_eq : q1Src = (q1 : ℝ → ℝ) := by
  funext x; simp [q1Src, q1, Generated.q1Expr, QExpr.eval]

theorem q2Src_eq : q2Src = (q2 : ℝ → ℝ) := by
  funext x; simp [q2Src, q2, Generated.q2Expr, QExpr.eval, List.replicate]

/-- the translated prefactors in closed form (longitudinal, both strains equal to `e`; off-diagonal) -/
theorem prefLong_closed (e : ℝ) (he : e ≠ 0) :
    (evalPref prefExprsLong e e).p0 = 1 / (5 * e ^ 2) ∧ (evalPref prefExprsLong e e).p2 = 1 / (5 * e ^ 2) ∧
    (evalPref prefExprsLong e e).p10 = 1 / (3 * e) ∧ (evalPref prefExprsLong e e).p11 = 1 / (3 * e) := by
  simp only [evalPref, prefExprsLong, PExpr.eval, nat_real]
  refine ⟨?_, ?_, ?_, ?_⟩ <;> (field_simp; try ring)

theorem prefOff_closed (ei ej : ℝ) (hi : ei ≠ 0) (hj : ej ≠ 0) :
    (evalPref prefExprsOff ei ej).p0 = 1 / (15 * (ei * ej)) ∧ (evalPref prefExprsOff ei ej).p2 = 1 / (15 * (ei * ej)) ∧
    (evalPref prefExprsOff ei ej).p10 = 1 / (3 * ei) ∧ (evalPref prefExprsOff ei ej).p11 = 1 / (3 * ej) := by
  simp only [evalPref, prefExprsOff, PExpr.eval, nat_real]
  refine ⟨?_, ?_, ?_, ?_⟩ <;> (field_simp; try ring)

/-! ### decided on the generated data -/

/-- every function of the module and of its three classes is in the coverage list; nothing is nested, no module-level
statement besides imports / defs / classes / assignments, no foreign global is read -/
def CoverageComplete : Prop :=
  definedFunctions.all (covered coverage) = true ∧ coverage.length = definedFunctions.length ∧
  nestedDefs = [] ∧ moduleOtherStatements = [] ∧ foreignGlobals = [] ∧
  moduleFunctions = ["average_over_modes", "clear_gamma_point"] ∧
  (classTable.map (·.1)) = ["ElasticModulus", "LongitudinalElasticModulusPhononContribution",
    "OffDiagonalElasticModulusPhononContribution"] ∧
  (classTable.all fun c => c.2.2.2 == []) = true ∧
  (definedFunctions.length = moduleFunctions.length + ((classTable.map (·.2.2.1.length)).foldl (· + ·) 0))

instance : Decidable CoverageComplete := by unfold CoverageComplete; infer_instance

/-- what the off-diagonal class overrides and what it inherits; the bases; same decorator on every override; no method is
defined twice in a class body -/
def HierarchyKnown : Prop :=
  offOverrides = ["prefactors", "mode_gamma", "zero_point_contribution", "thermal_contribution", "value_isothermal"] ∧
  offInherits = ["__init__", "v_array", "t_array", "freq_array", "q_weights", "Q", "Q1", "Q2", "isothermal_to_adiabatic",
    "value_adiabatic", "average_over_modes"] ∧
  offAdds = [] ∧
  (classTable.map (·.2.1)) = [[], ["ElasticModulus"], ["LongitudinalElasticModulusPhononContribution"]] ∧
  (classTable.all fun c => c.2.2.1.eraseDups.length == c.2.2.1.length) = true ∧
  (offOverrides.all fun m =>
    ((decorators.find? fun d => d.1 == "OffDiagonalElasticModulusPhononContribution" && d.2.1 == m).map (·.2.2))
      == ((decorators.find? fun d => d.1 == "LongitudinalElasticModulusPhononContribution" && d.2.1 == m).map (·.2.2))) = true ∧
  (decorators.all fun d => d.2.2 == "method" || d.2.2 == "property" || d.2.2 == "LazyProperty") = true

instance : Decidable HierarchyKnown := by unfold HierarchyKnown; infer_instance

/-- no module-level container: the only module-level bindings are the logger and the three scalar constants -/
def NoModuleState : Prop :=
  moduleAssigns = [("logger", "logger"), ("_h", "scalar-expr"), ("_k", "scalar-expr"), ("h_div_k", "scalar-expr")]

instance : Decidable NoModuleState := by unfold NoModuleState; infer_instance

/-- accessors return the calculator's attribute of the same name; `__init__` stores its arguments untouched -/
def AccessorsKnown : Prop :=
  (accessors.all fun a => a.path == ["calculator", a.name] && a.kind == "property") = true ∧
  accessors.map (·.name) = ["v_array", "t_array", "freq_array"] ∧
  initParams = ["self", "calculator", "e"] ∧
  lookupStore initStores "e" = some (.param "e") ∧
  lookupStore initStores "calculator" = some (.param "calculator") ∧
  lookupStore initStores "qha_calculator" = some (.selfPath ["calculator", "qha_calculator"]) ∧
  lookupStore initStores "na" = some (.selfPath ["calculator", "na"]) ∧
  (initStores.map (·.1)).eraseDups.length = initStores.length ∧
  qWeights.path = ["calculator", "qha_input", "weights"] ∧ qWeights.kind = "property"

instance : Decidable AccessorsKnown := by unfold AccessorsKnown; infer_instance

/-- the unit conversions: dimensionally consistent; every `h` is `_h` from J·m to Ry·cm, every `k` is `_k` from eV/K to Ry/K,
`h_div_k` is `_h / _k` whose source and target units are the quotients of those of `h` and `k` (so `h_div_k = h / k`);
`_h`, `_k` are the named entries of scipy's table -/
def UnitsKnown : Prop :=
  (unitConvs.all UnitConv.consistent) = true ∧
  (unitConvs.all fun c =>
    if c.name == "h" then c.value == "_h" && c.frm == [("J", 1), ("m", 1)] && c.to == [("cm", 1), ("rydberg", 1)]
    else if c.name == "k" then c.value == "_k" && c.frm == [("K", -1), ("eV", 1)] && c.to == [("K", -1), ("rydberg", 1)]
    else c.name == "h_div_k" && c.value == "_h / _k" && c.cls == "<module>"
      && monoIsQuotient c.frm [("J", 1), ("m", 1)] [("K", -1), ("eV", 1)]
      && monoIsQuotient c.to [("cm", 1), ("rydberg", 1)] [("K", -1), ("rydberg", 1)]) = true ∧
  (unitConvs.filter (·.name == "h_div_k")).length = 1 ∧
  constDefs = [("_h", .div (.phys "molar Planck constant times c" 0) (.phys "Avogadro constant" 0)),
               ("_k", .phys "Boltzmann constant in eV/K" 0)]

instance : Decidable UnitsKnown := by unfold UnitsKnown; infer_instance

end Cij.NSGlue
