/- Totality and correctness of the Gaussian elimination `Cij.Interp.solve` (`CijModel/Interp.lean`) over a field, and of
`lstsqPolyfit` on full-column-rank Vandermonde designs over an ordered field.  (No property statements here; they are in
`Properties/C11.lean`.)

`solve` searches, column by column, the first row with a NON-ZERO leading entry (`extractPivot`), so over a field with
decidable equality it is a complete decision procedure:
  * `solve_sound`      an answer solves every equation of the (square, `n × (n+1)` augmented) system;
  * `solve_none_kernel` no answer ⇒ the homogeneous system has a non-zero solution;
  * `solve_total`      trivial kernel ⇒ `solve` answers and the answer solves the system.
For the normal equations `VᵀV a = Vᵀy` of `V = vander(xs, order+1)` with ≥ order+1 distinct abscissae the kernel is trivial
(`a ↦ Σ_r polyval(a, x_r)²` is definite: root counting), hence `lstsqPolyfit_total`. -/
import CijProofs.Lemmas.Interp

namespace Cij.Interp
open Polynomial

/-! ### `dot` algebra on lists -/
section Dot
variable {K : Type} [Field K]

theorem dot_nil_left (v : List K) : dot [] v = 0 := by simp [dot, sumL]
theorem dot_nil_right (u : List K) : dot u [] = 0 := by simp [dot, sumL]

theorem dot_cons (a b : K) (u v : List K) : dot (a :: u) (b :: v) = a * b + dot u v := by
  simp [dot, sumL]

/-- `dot (u − c·v) y = dot u y − c · dot v y` for rows of equal length -/
theorem dot_zipWith_sub (c : K) (u v y : List K) (h : u.length = v.length) :
    dot (List.zipWith (fun a b => a - c * b) u v) y = dot u y - c * dot v y := by
  induction u generalizing v y with
  | nil => cases v <;> simp [dot_nil_left] at h ⊢
  | cons a u ih =>
    cases v with
    | nil => simp at h
    | cons b v =>
      cases y with
      | nil => simp [dot_nil_right]
      | cons t y =>
        simp only [List.zipWith_cons_cons, dot_cons]
        rw [ih v y (by simpa using h)]
        ring

theorem dot_replicate_zero (u : List K) (k : ℕ) : dot u (List.replicate k 0) = 0 := by
  induction u generalizing k with
  | nil => exact dot_nil_left _
  | cons a u ih =>
    cases k with
    | zero => exact dot_nil_right _
    | succ k => rw [List.replicate_succ, dot_cons, ih]; simp

/-- an augmented row against `(x, t)`: `dot (u ++ [b]) (x ++ [t]) = dot u x + b t` -/
theorem dot_append_singleton (u x : List K) (b t : K) (h : u.length = x.length) :
    dot (u ++ [b]) (x ++ [t]) = dot u x + b * t := by
  induction u generalizing x with
  | nil =>
    cases x with
    | nil => simp [dot, sumL]
    | cons _ _ => simp at h
  | cons a u ih =>
    cases x with
    | nil => simp at h
    | cons c x =>
      simp only [List.cons_append, dot_cons]
      rw [ih x (by simpa using h)]
      ring

/-- the same, reading the augmented row `v` as (first `n` entries | last entry) -/
theorem dot_aug (v x : List K) (t : K) (h : v.length = x.length + 1) :
    dot v (x ++ [t]) = dot (v.take x.length) x + v.getD x.length 0 * t := by
  induction x generalizing v with
  | nil =>
    match v, h with
    | [b], _ => simp [dot, sumL]
  | cons c x ih =>
    cases v with
    | nil => simp at h
    | cons a v =>
      simp only [List.cons_append, List.length_cons, List.take_succ_cons, dot_cons, List.getD_cons_succ]
      rw [ih v (by simpa using h)]
      ring

end Dot

/-! ### the elimination -/
section Solve
variable {K : Type} [Field K] [DecidableEq K]

theorem extractPivot_none (rows : List (List K)) (h : extractPivot rows = none) : ∀ r ∈ rows, r.headD 0 = 0 := by
  induction rows with
  | nil => simp
  | cons r rs ih =>
    unfold extractPivot at h
    split_ifs at h with hb
    · have h0 : r.headD 0 = 0 := beq_iff_eq.mp hb
      rw [Option.map_eq_none_iff] at h
      intro s hs
      rcases List.mem_cons.mp hs with rfl | hs
      · exact h0
      · exact ih h s hs

theorem extractPivot_some (rows : List (List K)) (p : List K) (rest : List (List K))
    (h : extractPivot rows = some (p, rest)) : p.headD 0 ≠ 0 ∧ rows.Perm (p :: rest) := by
  induction rows generalizing rest with
  | nil => simp [extractPivot] at h
  | cons r rs ih =>
    unfold extractPivot at h
    split_ifs at h with hb
    · simp only [Option.map_eq_some_iff, Prod.mk.injEq, Prod.exists] at h
      obtain ⟨p', rest', hex, rfl, rfl⟩ := h
      obtain ⟨hp, hperm⟩ := ih rest' hex
      exact ⟨hp, (hperm.cons r).trans (List.Perm.swap _ _ _)⟩
    · simp only [Option.some.injEq, Prod.mk.injEq] at h
      obtain ⟨rfl, rfl⟩ := h
      exact ⟨fun h0 => hb (beq_iff_eq.mpr h0), List.Perm.refl _⟩

/-- the rows after one elimination step (the `sub` of `solve`) -/
def subRows (p : List K) (rest : List (List K)) : List (List K) :=
  rest.map fun r => List.zipWith (fun a b => a - (r.headD 0 / p.headD 0) * b) r.tail p.tail

theorem solve_succ_some (n : ℕ) (rows : List (List K)) (p : List K) (rest : List (List K))
    (h : extractPivot rows = some (p, rest)) :
    solve (n + 1) rows = (solve n (subRows p rest)).map fun xs =>
      ((p.tail.getD n 0 - dot (p.tail.take n) xs) / p.headD 0) :: xs := by
  simp only [solve, h, subRows]
  split <;> simp_all

theorem solve_succ_none (n : ℕ) (rows : List (List K)) (h : extractPivot rows = none) : solve (n + 1) rows = none := by
  simp only [solve, h]

omit [DecidableEq K] in
/-- one elimination step, semantically: for the pivot row `p = p0 :: pt` (`p0 ≠ 0`), a row `r = r0 :: rt` and ANY vector
`x0 :: X`: if `p · (x0 :: X) = 0` then `r · (x0 :: X) = 0 ↔ (rt − (r0/p0) pt) · X = 0` -/
theorem step_row (p0 r0 x0 : K) (pt rt X : List K) (hp0 : p0 ≠ 0) (hl : rt.length = pt.length)
    (hp : p0 * x0 + dot pt X = 0) :
    r0 * x0 + dot rt X = dot (List.zipWith (fun a b => a - (r0 / p0) * b) rt pt) X := by
  rw [dot_zipWith_sub _ _ _ _ hl]
  have : dot pt X = -(p0 * x0) := by linear_combination hp
  rw [this]
  field_simp
  ring

/-- **soundness**: an answer of `solve` has `n` entries and solves every equation `r[0..n) · x = r[n]` -/
theorem solve_sound (n : ℕ) (rows : List (List K)) (x : List K) (hlen : rows.length = n)
    (hw : ∀ r ∈ rows, r.length = n + 1) (h : solve n rows = some x) :
    x.length = n ∧ ∀ r ∈ rows, dot r (x ++ [-1]) = 0 := by
  induction n generalizing rows x with
  | zero =>
    simp only [solve, Option.some.injEq] at h
    subst h
    have : rows = [] := List.length_eq_zero_iff.mp hlen
    subst this
    simp
  | succ n ih =>
    cases hex : extractPivot rows with
    | none => rw [solve_succ_none n rows hex] at h; cases h
    | some pr =>
      obtain ⟨p, rest⟩ := pr
      obtain ⟨hp0, hperm⟩ := extractPivot_some rows p rest hex
      rw [solve_succ_some n rows p rest hex] at h
      cases hs : solve n (subRows p rest) with
      | none => rw [hs] at h; cases h
      | some xs =>
        rw [hs, Option.map_some, Option.some.injEq] at h
        have hpw : p.length = n + 2 := hw p (hperm.mem_iff.mpr (by simp))
        have hrw : ∀ r ∈ rest, r.length = n + 2 := fun r hr => hw r (hperm.mem_iff.mpr (by simp [hr]))
        have hrl : rest.length = n := by
          have := hperm.length_eq
          simp only [List.length_cons] at this
          omega
        obtain ⟨p0, pt, rfl⟩ : ∃ p0 pt, p = p0 :: pt := by
          cases p with
          | nil => simp at hpw
          | cons a l => exact ⟨a, l, rfl⟩
        have hptl : pt.length = n + 1 := by simpa using hpw
        simp only [List.headD_cons, List.tail_cons] at h hp0
        obtain ⟨hxl, hsub⟩ := ih (subRows (p0 :: pt) rest) xs (by simp [subRows, hrl])
          (by
            intro s hs'
            simp only [subRows, List.mem_map] at hs'
            obtain ⟨r, hr, rfl⟩ := hs'
            have := hrw r hr
            simp [List.length_zipWith, hptl, this])
          hs
        subst h
        refine ⟨by simp [hxl], ?_⟩
        have hpx : p0 * ((pt.getD n 0 - dot (List.take n pt) xs) / p0) + dot pt (xs ++ [-1]) = 0 := by
          rw [dot_aug pt xs (-1) (by rw [hptl, hxl]), hxl]
          field_simp
          ring
        intro r hr
        rcases List.mem_cons.mp (hperm.mem_iff.mp hr) with rfl | hr'
        · simpa [dot_cons] using hpx
        · have hrl' := hrw r hr'
          obtain ⟨r0, rt, rfl⟩ : ∃ r0 rt, r = r0 :: rt := by
            cases r with
            | nil => simp at hrl'
            | cons a l => exact ⟨a, l, rfl⟩
          have hrtl : rt.length = pt.length := by rw [hptl]; simpa using hrl'
          have hmem : List.zipWith (fun a b => a - (r0 / p0) * b) rt pt ∈ subRows (p0 :: pt) rest := by
            simp only [subRows, List.mem_map]
            exact ⟨r0 :: rt, hr', by simp⟩
          simp only [List.cons_append, dot_cons]
          rw [step_row p0 r0 _ pt rt _ hp0 hrtl hpx]
          exact hsub _ hmem

/-- **completeness**: if `solve` does not answer, the homogeneous system has a non-zero solution -/
theorem solve_none_kernel (n : ℕ) (rows : List (List K)) (hlen : rows.length = n)
    (hw : ∀ r ∈ rows, r.length = n + 1) (h : solve n rows = none) :
    ∃ y : List K, y.length = n ∧ y ≠ List.replicate n 0 ∧ ∀ r ∈ rows, dot r (y ++ [0]) = 0 := by
  induction n generalizing rows with
  | zero => simp [solve] at h
  | succ n ih =>
    cases hex : extractPivot rows with
    | none =>
      refine ⟨1 :: List.replicate n 0, by simp, by simp [List.replicate_succ], fun r hr => ?_⟩
      have h0 := extractPivot_none rows hex r hr
      have hrl := hw r hr
      obtain ⟨r0, rt, rfl⟩ : ∃ r0 rt, r = r0 :: rt := by
        cases r with
        | nil => simp at hrl
        | cons a l => exact ⟨a, l, rfl⟩
      simp only [List.headD_cons] at h0
      have : List.replicate n (0 : K) ++ [0] = List.replicate (n + 1) 0 := by
        rw [List.replicate_succ']
      rw [List.cons_append, dot_cons, this, dot_replicate_zero, h0]
      simp
    | some pr =>
      obtain ⟨p, rest⟩ := pr
      obtain ⟨hp0, hperm⟩ := extractPivot_some rows p rest hex
      rw [solve_succ_some n rows p rest hex] at h
      have hs : solve n (subRows p rest) = none := by simpa using h
      have hpw : p.length = n + 2 := hw p (hperm.mem_iff.mpr (by simp))
      have hrw : ∀ r ∈ rest, r.length = n + 2 := fun r hr => hw r (hperm.mem_iff.mpr (by simp [hr]))
      have hrl : rest.length = n := by
        have := hperm.length_eq
        simp only [List.length_cons] at this
        omega
      obtain ⟨p0, pt, rfl⟩ : ∃ p0 pt, p = p0 :: pt := by
        cases p with
        | nil => simp at hpw
        | cons a l => exact ⟨a, l, rfl⟩
      have hptl : pt.length = n + 1 := by simpa using hpw
      simp only [List.headD_cons] at hp0
      obtain ⟨y, hyl, hy0, hsub⟩ := ih (subRows (p0 :: pt) rest) (by simp [subRows, hrl])
        (by
          intro s hs'
          simp only [subRows, List.mem_map] at hs'
          obtain ⟨r, hr, rfl⟩ := hs'
          have := hrw r hr
          simp [List.length_zipWith, hptl, this])
        hs
      refine ⟨(-(dot pt (y ++ [0])) / p0) :: y, by simp [hyl], ?_, ?_⟩
      · intro heq
        rw [List.replicate_succ, List.cons.injEq] at heq
        exact hy0 heq.2
      · have hpx : p0 * (-(dot pt (y ++ [0])) / p0) + dot pt (y ++ [0]) = 0 := by
          field_simp
          ring
        intro r hr
        rcases List.mem_cons.mp (hperm.mem_iff.mp hr) with rfl | hr'
        · simpa [dot_cons] using hpx
        · have hrl' := hrw r hr'
          obtain ⟨r0, rt, rfl⟩ : ∃ r0 rt, r = r0 :: rt := by
            cases r with
            | nil => simp at hrl'
            | cons a l => exact ⟨a, l, rfl⟩
          have hrtl : rt.length = pt.length := by rw [hptl]; simpa using hrl'
          have hmem : List.zipWith (fun a b => a - (r0 / p0) * b) rt pt ∈ subRows (p0 :: pt) rest := by
            simp only [subRows, List.mem_map]
            exact ⟨r0 :: rt, hr', by simp⟩
          simp only [List.cons_append, dot_cons]
          rw [step_row p0 r0 _ pt rt _ hp0 hrtl hpx]
          exact hsub _ hmem

/-- **totality + correctness on non-singular systems**: `rows` is an `n × (n+1)` augmented system `[A | b]` over a field.
If the homogeneous system `A y = 0` has only the zero solution, `solve` answers, and its answer `x` has `n` entries and
satisfies `A x = b` row by row. -/
theorem solve_total (n : ℕ) (rows : List (List K)) (hlen : rows.length = n) (hw : ∀ r ∈ rows, r.length = n + 1)
    (hker : ∀ y : List K, y.length = n → (∀ r ∈ rows, dot r (y ++ [0]) = 0) → y = List.replicate n 0) :
    ∃ x, solve n rows = some x ∧ x.length = n ∧ ∀ r ∈ rows, dot (r.take n) x = r.getD n 0 := by
  cases hs : solve n rows with
  | none =>
    obtain ⟨y, hyl, hy0, hy⟩ := solve_none_kernel n rows hlen hw hs
    exact absurd (hker y hyl hy) hy0
  | some x =>
    obtain ⟨hxl, hx⟩ := solve_sound n rows x hlen hw hs
    refine ⟨x, rfl, hxl, fun r hr => ?_⟩
    have := hx r hr
    rw [dot_aug r x (-1) (by rw [hw r hr, hxl]), hxl] at this
    linear_combination this

end Solve

/-! ### the normal equations of a Vandermonde design -/
section Normal
variable {K : Type} [Field K]

/-- a row of `numpy.vander(xs, n)` dotted with the coefficient vector is Horner's value: `(V a)_r = polyval(a, x_r)` -/
theorem dot_powersDesc (x : K) (a : List K) : dot (powersDesc x a.length) a = polyval a x := by
  rw [polyval_eq_eval]
  induction a with
  | nil => simp [powersDesc, dot, sumL, toPoly]
  | cons c cs ih =>
    simp only [dot, sumL, powersDesc, List.length_cons, List.zipWith_cons_cons, List.foldr_cons, npow_eq_pow] at ih ⊢
    rw [ih]
    simp [toPoly]; ring

theorem powersDesc_eq_map (x : K) (n : ℕ) : powersDesc x n = (List.range n).map fun j => x ^ (n - 1 - j) := by
  induction n with
  | zero => simp [powersDesc]
  | succ n ih =>
    rw [powersDesc, ih, List.range_succ_eq_map, List.map_cons, List.map_map, npow_eq_pow]
    congr 1
    refine List.map_congr_left fun j _ => ?_
    simp only [Function.comp_apply]
    congr 1
    omega

theorem dot_range_map (n : ℕ) (f : ℕ → K) (a : List K) (h : a.length = n) :
    dot ((List.range n).map f) a = ∑ j ∈ Finset.range n, f j * a.getD j 0 := by
  induction a generalizing n f with
  | nil => subst h; simp [dot_nil_right]
  | cons c cs ih =>
    subst h
    rw [List.length_cons, List.range_succ_eq_map, List.map_cons, List.map_map, dot_cons, ih _ _ rfl,
      Finset.sum_range_succ']
    simp [add_comm]

theorem polyval_eq_sum (a : List K) (x : K) :
    polyval a x = ∑ j ∈ Finset.range a.length, x ^ (a.length - 1 - j) * a.getD j 0 := by
  rw [← dot_powersDesc, powersDesc_eq_map, dot_range_map _ _ _ rfl]

theorem powerSum_eq (xs : List K) (k : ℕ) : powerSum xs k = (xs.map (· ^ k)).sum := by
  unfold powerSum
  rw [sumL_eq_sum]
  simp only [npow_eq_pow]

theorem moment_eq (xs ys : List K) (k : ℕ) : moment xs ys k = ((xs.zip ys).map fun p => p.1 ^ k * p.2).sum := by
  unfold moment
  rw [sumL_eq_sum, zipWith_eq_map_zip']
  simp only [npow_eq_pow]

/-- row `k` of `VᵀV` against a coefficient vector: `Σ_j (Σ_r x_r^(k + n−1−j)) a_j = Σ_r x_r^k · polyval(a, x_r)` -/
theorem normalRow_dot (xs a : List K) (n k : ℕ) (h : a.length = n) :
    dot ((List.range n).map fun j => powerSum xs (k + (n - 1 - j))) a = (xs.map fun x => x ^ k * polyval a x).sum := by
  rw [dot_range_map _ _ _ h]
  have e : (fun x : K => x ^ k * polyval a x)
      = fun x => ∑ j ∈ Finset.range n, x ^ (k + (n - 1 - j)) * a.getD j 0 := by
    funext x
    rw [polyval_eq_sum, h, Finset.mul_sum]
    exact Finset.sum_congr rfl fun j _ => by rw [pow_add]; ring
  rw [e, list_sum_finset_sum]
  refine Finset.sum_congr rfl fun j _ => ?_
  rw [powerSum_eq, List.sum_map_mul_right]

/-- the augmented normal system `[VᵀV | Vᵀy]` that `lstsqPolyfit` hands to `solve` -/
theorem normalAug_eq (xs ys : List K) (n : ℕ) :
    List.zipWith (fun r b => r ++ [b]) (normalMatrix xs n) (normalRhs xs ys n)
      = (List.range n).map fun i =>
          ((List.range n).map fun j => powerSum xs ((n - 1 - i) + (n - 1 - j))) ++ [moment xs ys (n - 1 - i)] := by
  unfold normalMatrix normalRhs
  rw [List.zipWith_map_left, List.zipWith_map_right, List.zipWith_self]

/-- every row of the augmented normal system against `(a, t)` -/
theorem normalAug_row (xs ys a : List K) (t : K) (n : ℕ) (h : a.length = n) (hl : xs.length = ys.length) :
    (∀ r ∈ List.zipWith (fun r b => r ++ [b]) (normalMatrix xs n) (normalRhs xs ys n), dot r (a ++ [t]) = 0) ↔
      ∀ k < n, ((xs.zip ys).map fun p => p.1 ^ k * (polyval a p.1 + p.2 * t)).sum = 0 := by
  rw [normalAug_eq]
  have row : ∀ k, dot (((List.range n).map fun j => powerSum xs (k + (n - 1 - j))) ++ [moment xs ys k]) (a ++ [t])
      = ((xs.zip ys).map fun p => p.1 ^ k * (polyval a p.1 + p.2 * t)).sum := by
    intro k
    rw [dot_append_singleton _ _ _ _ (by simp [h]), normalRow_dot xs a n k h, moment_eq]
    have e1 : (xs.map fun x => x ^ k * polyval a x).sum = ((xs.zip ys).map fun p => p.1 ^ k * polyval a p.1).sum := by
      have : (xs.zip ys).map (fun p => p.1 ^ k * polyval a p.1)
          = ((xs.zip ys).map Prod.fst).map fun x => x ^ k * polyval a x := by
        rw [List.map_map]; rfl
      rw [this, List.map_fst_zip (by omega)]
    rw [e1, ← List.sum_map_mul_right, ← List.sum_map_add]
    congr 1
    refine List.map_congr_left fun p _ => ?_
    ring
  constructor
  · intro hr k hk
    rw [← row]
    have := hr _ (List.mem_map.mpr ⟨n - 1 - k, List.mem_range.mpr (by omega), rfl⟩)
    have e : n - 1 - (n - 1 - k) = k := by omega
    rwa [e] at this
  · intro hk r hr
    obtain ⟨i, hi, rfl⟩ := List.mem_map.mp hr
    rw [row]
    exact hk _ (by have := List.mem_range.mp hi; omega)

theorem toPoly_replicate_zero (n : ℕ) : toPoly (List.replicate n (0 : K)) = 0 := by
  induction n with
  | zero => simp [toPoly]
  | succ n ih => simp [List.replicate_succ, toPoly, ih]

variable [LinearOrder K] [IsStrictOrderedRing K]

/-- `VᵀV` of a Vandermonde design with at least `n` distinct abscissae is definite: a coefficient vector whose first `n`
moments `Σ_r x_r^k · polyval(a, x_r)` vanish is the zero vector -/
theorem vander_normal_kernel (xs a : List K) (n : ℕ) (h : a.length = n) (hdist : n ≤ xs.toFinset.card)
    (hm : ∀ k < n, (xs.map fun x => x ^ k * polyval a x).sum = 0) : a = List.replicate n 0 := by
  rcases Nat.eq_zero_or_pos n with rfl | hn
  · simpa using h
  have hdeg : (toPoly a).natDegree < n := natDegree_toPoly_lt a n h.le hn
  have hm' : ∀ k < n, (xs.map fun x => x ^ k * (toPoly a).eval x).sum = 0 := by
    simpa only [polyval_eq_eval] using hm
  have hk := moments_kill xs (fun x => x) (fun x => (toPoly a).eval x) n hm' (toPoly a) hdeg
  have hz : ∀ v ∈ xs.map (fun x => (toPoly a).eval x * (toPoly a).eval x), v = 0 :=
    list_sum_eq_zero_of_nonneg _ (fun v hv => by
      obtain ⟨x, _, rfl⟩ := List.mem_map.mp hv
      exact mul_self_nonneg _) hk
  have hroot : ∀ x ∈ xs.toFinset, (toPoly a).eval x = 0 := fun x hx => by
    have := hz _ (List.mem_map_of_mem (f := fun x => (toPoly a).eval x * (toPoly a).eval x) (List.mem_toFinset.mp hx))
    exact mul_self_eq_zero.mp this
  have h0 : toPoly a = 0 :=
    eq_zero_of_natDegree_lt_card_of_eval_eq_zero' _ xs.toFinset hroot (lt_of_lt_of_le hdeg hdist)
  exact toPoly_injective a _ (by simp [h]) (by rw [h0, toPoly_replicate_zero])

/-- **totality of `lstsq_polyfit`**: for ANY data `ys` on abscissae `xs` with at least `order + 1` distinct values the
elimination answers, its answer passes the certificate, so `lstsqPolyfit` returns it. -/
theorem lstsqPolyfit_total (xs ys : List K) (order : ℕ) (hl : xs.length = ys.length)
    (hdist : order + 1 ≤ xs.toFinset.card) :
    ∃ a, lstsqPolyfit xs ys order = some a ∧ normalEq xs ys order a = true := by
  set aug := List.zipWith (fun r b => r ++ [b]) (normalMatrix xs (order + 1)) (normalRhs xs ys (order + 1)) with haug
  have hlen : aug.length = order + 1 := by simp [haug, normalMatrix, normalRhs]
  have hw : ∀ r ∈ aug, r.length = order + 1 + 1 := by
    intro r hr
    rw [haug, normalAug_eq] at hr
    obtain ⟨i, _, rfl⟩ := List.mem_map.mp hr
    simp
  have hker : ∀ y : List K, y.length = order + 1 → (∀ r ∈ aug, dot r (y ++ [0]) = 0) →
      y = List.replicate (order + 1) 0 := by
    intro y hy hr
    have := (normalAug_row xs ys y 0 (order + 1) hy hl).mp hr
    refine vander_normal_kernel xs y (order + 1) hy hdist fun k hk => ?_
    have hk' := this k hk
    simp only [mul_zero, add_zero] at hk'
    have e : (xs.zip ys).map (fun p => p.1 ^ k * polyval y p.1)
        = ((xs.zip ys).map Prod.fst).map fun x => x ^ k * polyval y x := by
      rw [List.map_map]; rfl
    rwa [e, List.map_fst_zip (by omega)] at hk'
  have hs := solve_sound (order + 1) aug
  cases hsol : solve (order + 1) aug with
  | none =>
    obtain ⟨y, hyl, hy0, hy⟩ := solve_none_kernel (order + 1) aug hlen hw hsol
    exact absurd (hker y hyl hy) hy0
  | some a =>
    obtain ⟨hal, hax⟩ := hs a hlen hw hsol
    have hne : normalEq xs ys order a = true := by
      rw [normalEq_iff]
      refine ⟨hal, fun k hk => ?_⟩
      have := (normalAug_row xs ys a (-1) (order + 1) hal hl).mp hax k hk
      rw [← this]
      congr 1
      refine List.map_congr_left fun p _ => ?_
      ring
    refine ⟨a, ?_, hne⟩
    unfold lstsqPolyfit
    simp only [← haug, hsol, hne, if_true]

end Normal

end Cij.Interp
