/-
  More about read-through memoisation (helper lemmas for C14, core Lean only):
  totality of histories under a rank, several objects, monotonicity of the memo table (a cached value is never
  replaced), existence and uniqueness of the pure denotation of a ranked property graph, and the graph built from a
  translated `(name, isLazy, reads)` table (`CijModel/LazyGraph.lean`).
-/
import CijProofs.Lemmas.Memo
import CijModel.LazyGraph
namespace Cij.Memo

variable {ν β : Type} [DecidableEq ν]

/-! ### histories: totality, concatenation -/

theorem history_total {rk : ν → Nat} {defs : ν → Body ν β} (hdefs : ∀ n, ReadsBelow rk (rk n) (defs n))
    (fuel : Nat) (hf : ∀ n, rk n < fuel) : ∀ (ns : List ν) (t : Table ν β), (history defs fuel ns t).isSome := by
  intro ns
  induction ns with
  | nil => intro t; simp [history]
  | cons n ns ih =>
    intro t
    unfold history
    have h1 := readProp_total hdefs fuel n t (hf n)
    cases hr : readProp defs fuel n t with
    | none => simp [hr] at h1
    | some p =>
      obtain ⟨v1, t1⟩ := p
      have h2 := ih t1
      cases hh : history defs fuel ns t1 with
      | none => simp [hh] at h2
      | some q => simp [hh]

theorem history_append (defs : ν → Body ν β) (fuel : Nat) : ∀ (a b : List ν) (t : Table ν β),
    history defs fuel (a ++ b) t =
      match history defs fuel a t with
      | some (va, t') => (history defs fuel b t').map fun (vb, t'') => (va ++ vb, t'')
      | none => none := by
  intro a
  induction a with
  | nil =>
    intro b t
    simp only [List.nil_append, history]
    cases history defs fuel b t with
    | none => rfl
    | some q => obtain ⟨vb, t''⟩ := q; rfl
  | cons n ns ih =>
    intro b t
    simp only [List.cons_append, history]
    cases hr : readProp defs fuel n t with
    | none => rfl
    | some p =>
      obtain ⟨v1, t1⟩ := p
      simp only [ih b t1]
      cases history defs fuel ns t1 with
      | none => rfl
      | some q =>
        obtain ⟨va, t'⟩ := q
        simp only [Option.map]
        cases history defs fuel b t' with
        | none => rfl
        | some r => obtain ⟨vb, t''⟩ := r; rfl

/-! ### several objects, each with its own table -/

theorem historyMulti_sound {ι : Type} [DecidableEq ι] {spec : ι → ν → β} {defs : ι → ν → Body ν β}
    (hspec : ∀ i n, spec i n = denote (spec i) (defs i n)) (fuel : Nat) :
    ∀ (ops : List (ι × ν)) (ts : ι → Table ν β) vs ts', (∀ i, Consistent (spec i) (ts i)) →
      historyMulti defs fuel ops ts = some (vs, ts') →
      vs = ops.map (fun o => spec o.1 o.2) ∧ ∀ i, Consistent (spec i) (ts' i) := by
  intro ops
  induction ops with
  | nil => intro ts vs ts' ht h; simp [historyMulti] at h; obtain ⟨rfl, rfl⟩ := h; exact ⟨rfl, ht⟩
  | cons o ops ih =>
    obtain ⟨i, n⟩ := o
    intro ts vs ts' ht h
    unfold historyMulti at h
    cases hr : readProp (defs i) fuel n (ts i) with
    | none => simp [hr] at h
    | some p =>
      obtain ⟨v1, t1⟩ := p
      simp [hr] at h
      obtain ⟨vs1, hh, rfl⟩ := h
      obtain ⟨hv, ht1⟩ := readProp_sound (hspec i) fuel n (ts i) v1 t1 (ht i) hr
      have hts : ∀ j, Consistent (spec j) (if j = i then t1 else ts j) := by
        intro j
        by_cases hji : j = i
        · subst hji; simpa using ht1
        · simpa [hji] using ht j
      obtain ⟨hvs, ht2⟩ := ih _ vs1 ts' hts hh
      exact ⟨by simp [hv, hvs], ht2⟩

theorem historyMulti_total {ι : Type} [DecidableEq ι] {rk : ι → ν → Nat} {defs : ι → ν → Body ν β}
    (hdefs : ∀ i n, ReadsBelow (rk i) (rk i n) (defs i n)) (fuel : Nat) (hf : ∀ i n, rk i n < fuel) :
    ∀ (ops : List (ι × ν)) (ts : ι → Table ν β), (historyMulti defs fuel ops ts).isSome := by
  intro ops
  induction ops with
  | nil => intro ts; simp [historyMulti]
  | cons o ops ih =>
    obtain ⟨i, n⟩ := o
    intro ts
    unfold historyMulti
    have h1 := readProp_total (hdefs i) fuel n (ts i) (hf i n)
    cases hr : readProp (defs i) fuel n (ts i) with
    | none => simp [hr] at h1
    | some p =>
      obtain ⟨v1, t1⟩ := p
      have h2 := ih (fun j => if j = i then t1 else ts j)
      cases hh : historyMulti defs fuel ops (fun j => if j = i then t1 else ts j) with
      | none => simp [hh] at h2
      | some q => simp [hh]

omit [DecidableEq ν] in
/-- the values of object `i` picked out of an interleaved run -/
theorem filter_zip_values {ι : Type} [DecidableEq ι] (spec : ι → ν → β) (i : ι) : ∀ (ops : List (ι × ν)),
    ((List.zip ops (ops.map fun o => spec o.1 o.2)).filter (fun p => decide (p.1.1 = i))).map (·.2) =
      ((ops.filter (fun o => decide (o.1 = i))).map (·.2)).map (spec i)
  | [] => by simp
  | (j, n) :: ops => by
    have ih := filter_zip_values spec i ops
    by_cases hji : j = i
    · subst hji; simpa using ih
    · simpa [hji] using ih

/-! ### the memo table only grows: a cached value is never replaced -/

theorem get?_cons (n : ν) (v : β) (t : Table ν β) (m : ν) :
    Table.get? ((n, v) :: t) m = if n = m then some v else Table.get? t m := by
  unfold Table.get?
  by_cases h : n = m <;> simp [List.find?, h]

/-- `t'` agrees with `t` on everything `t` has -/
def Extends (t t' : Table ν β) : Prop := ∀ m v, t.get? m = some v → t'.get? m = some v

theorem Extends.refl (t : Table ν β) : Extends t t := fun _ _ h => h
theorem Extends.trans {t t' t'' : Table ν β} (h : Extends t t') (h' : Extends t' t'') : Extends t t'' :=
  fun m v hm => h' m v (h m v hm)

def MonoReader (rd : ν → Table ν β → Option (β × Table ν β)) : Prop :=
  ∀ n t v t', rd n t = some (v, t') → Extends t t'

theorem runWith_extends {rd : ν → Table ν β → Option (β × Table ν β)} (hrd : MonoReader rd) :
    ∀ (b : Body ν β) (t : Table ν β) v t', runWith rd b t = some (v, t') → Extends t t' := by
  intro b
  induction b with
  | ret v0 =>
    intro t v t' h
    simp [runWith] at h
    obtain ⟨_, rfl⟩ := h
    exact Extends.refl _
  | read n k ih =>
    intro t v t' h
    unfold runWith at h
    cases hr : rd n t with
    | none => simp [hr] at h
    | some p =>
      obtain ⟨v1, t1⟩ := p
      simp [hr] at h
      exact (hrd n t v1 t1 hr).trans (ih v1 t1 v t' h)

theorem readProp_extends (defs : ν → Body ν β) : ∀ fuel, MonoReader (readProp defs fuel) := by
  intro fuel
  induction fuel with
  | zero => intro n t v t' h; simp [readProp] at h
  | succ f ih =>
    intro n t v t' h
    unfold readProp at h
    cases hg : t.get? n with
    | some v0 =>
      simp [hg] at h
      obtain ⟨_, rfl⟩ := h
      exact Extends.refl _
    | none =>
      simp [hg] at h
      cases hr : runWith (readProp defs f) (defs n) t with
      | none => simp [hr] at h
      | some p =>
        obtain ⟨v1, t1⟩ := p
        simp [hr] at h
        obtain ⟨rfl, rfl⟩ := h
        have h1 := runWith_extends ih (defs n) t v1 t1 hr
        intro m w hm
        rw [get?_cons]
        by_cases hnm : n = m
        · subst hnm; rw [hg] at hm; cases hm
        · simpa [hnm] using h1 m w hm

/-- after `obj.n` the value is in the cache -/
theorem readProp_cached (defs : ν → Body ν β) (fuel : Nat) (n : ν) (t : Table ν β) (v : β) (t' : Table ν β)
    (h : readProp defs fuel n t = some (v, t')) : t'.get? n = some v := by
  cases fuel with
  | zero => simp [readProp] at h
  | succ f =>
    unfold readProp at h
    cases hg : t.get? n with
    | some v0 =>
      simp [hg] at h
      obtain ⟨rfl, rfl⟩ := h
      exact hg
    | none =>
      simp [hg] at h
      cases hr : runWith (readProp defs f) (defs n) t with
      | none => simp [hr] at h
      | some p =>
        obtain ⟨v1, t1⟩ := p
        simp [hr] at h
        obtain ⟨rfl, rfl⟩ := h
        simp [get?_cons]

/-- a cached property is returned as it is, the table is untouched -/
theorem readProp_hit (defs : ν → Body ν β) (fuel : Nat) (n : ν) (t : Table ν β) (v : β)
    (h : t.get? n = some v) : readProp defs (fuel + 1) n t = some (v, t) := by
  unfold readProp; simp [h]

theorem history_extends (defs : ν → Body ν β) (fuel : Nat) :
    ∀ (ns : List ν) (t : Table ν β) vs t', history defs fuel ns t = some (vs, t') → Extends t t' := by
  intro ns
  induction ns with
  | nil => intro t vs t' h; simp [history] at h; obtain ⟨_, rfl⟩ := h; exact Extends.refl _
  | cons n ns ih =>
    intro t vs t' h
    unfold history at h
    cases hr : readProp defs fuel n t with
    | none => simp [hr] at h
    | some p =>
      obtain ⟨v1, t1⟩ := p
      simp [hr] at h
      obtain ⟨vs1, hh, _⟩ := h
      exact (readProp_extends defs fuel n t v1 t1 hr).trans (ih t1 vs1 t' hh)

/-- read `n`, then anything, then `n` again: the same value comes back — no hypothesis on the bodies at all -/
theorem read_twice_same (defs : ν → Body ν β) (fuel : Nat) (n : ν) (ns : List ν) (t : Table ν β)
    (vs : List β) (t' : Table ν β) (h : history defs fuel (n :: (ns ++ [n])) t = some (vs, t')) :
    ∃ v mid, vs = v :: (mid ++ [v]) := by
  unfold history at h
  cases hr : readProp defs fuel n t with
  | none => simp [hr] at h
  | some p =>
    obtain ⟨v1, t1⟩ := p
    simp [hr] at h
    obtain ⟨vs1, hh, rfl⟩ := h
    rw [history_append] at hh
    cases h2 : history defs fuel ns t1 with
    | none => simp [h2] at hh
    | some q =>
      obtain ⟨mid, t2⟩ := q
      simp only [h2] at hh
      have hc : t2.get? n = some v1 :=
        history_extends defs fuel ns t1 mid t2 h2 n v1 (readProp_cached defs fuel n t v1 t1 hr)
      cases fuel with
      | zero => simp [readProp] at hr
      | succ f =>
        have h3 : history defs (f + 1) [n] t2 = some ([v1], t2) := by
          simp [history, readProp_hit defs f n t2 v1 hc]
        rw [h3] at hh
        simp at hh
        exact ⟨v1, mid, by rw [hh.1]⟩

/-! ### the pure denotation of a ranked graph exists and is unique -/

omit [DecidableEq ν] in
theorem denote_congr {rk : ν → Nat} {r : Nat} {b : Body ν β} (hb : ReadsBelow rk r b) {s1 s2 : ν → β}
    (h : ∀ m, rk m < r → s1 m = s2 m) : denote s1 b = denote s2 b := by
  induction hb with
  | ret v => rfl
  | read n k hn _ ih =>
    simp only [denote]
    rw [h n hn]
    exact ih (s2 n)

/-- `k` rounds of "evaluate every body with the previous round's values" -/
def specN [Inhabited β] (defs : ν → Body ν β) : Nat → ν → β
  | 0, _ => default
  | k + 1, n => denote (specN defs k) (defs n)

omit [DecidableEq ν] in
theorem specN_stable [Inhabited β] {rk : ν → Nat} {defs : ν → Body ν β} (hdefs : ∀ n, ReadsBelow rk (rk n) (defs n)) :
    ∀ (r : Nat) (n : ν) (k k' : Nat), rk n ≤ r → rk n < k → rk n < k' → specN defs k n = specN defs k' n := by
  intro r
  induction r with
  | zero =>
    intro n k k' hr hk hk'
    cases k with
    | zero => omega
    | succ k =>
      cases k' with
      | zero => omega
      | succ k' =>
        simp only [specN]
        exact denote_congr (hdefs n) (fun m hm => by omega)
  | succ r ih =>
    intro n k k' hr hk hk'
    cases k with
    | zero => omega
    | succ k =>
      cases k' with
      | zero => omega
      | succ k' =>
        simp only [specN]
        exact denote_congr (hdefs n) (fun m hm => ih m k k' (by omega) (by omega) (by omega))

/-- the value of property `n` as a pure function of the object's inputs -/
def specOf [Inhabited β] (rk : ν → Nat) (defs : ν → Body ν β) (n : ν) : β := specN defs (rk n + 1) n

omit [DecidableEq ν] in
theorem specOf_spec [Inhabited β] {rk : ν → Nat} {defs : ν → Body ν β} (hdefs : ∀ n, ReadsBelow rk (rk n) (defs n))
    (n : ν) : specOf rk defs n = denote (specOf rk defs) (defs n) := by
  show denote (specN defs (rk n)) (defs n) = denote (specOf rk defs) (defs n)
  exact denote_congr (hdefs n) (fun m hm => specN_stable hdefs (rk m) m (rk n) (rk m + 1) (Nat.le_refl _) hm (by omega))

omit [DecidableEq ν] in
theorem spec_unique {rk : ν → Nat} {defs : ν → Body ν β} (hdefs : ∀ n, ReadsBelow rk (rk n) (defs n))
    {s1 s2 : ν → β} (h1 : ∀ n, s1 n = denote s1 (defs n)) (h2 : ∀ n, s2 n = denote s2 (defs n)) :
    ∀ n, s1 n = s2 n := by
  have key : ∀ (r : Nat) (n : ν), rk n ≤ r → s1 n = s2 n := by
    intro r
    induction r with
    | zero =>
      intro n hr
      rw [h1 n, h2 n]
      exact denote_congr (hdefs n) (fun m hm => by omega)
    | succ r ih =>
      intro n hr
      rw [h1 n, h2 n]
      exact denote_congr (hdefs n) (fun m hm => ih m (by omega))
  exact fun n => key (rk n) n (Nat.le_refl _)

end Cij.Memo

/-! ### the graph built from a translated `(name, isLazy, reads)` table -/
namespace Cij.LazyGraph
open Cij.Memo

theorem readsBelow_chain {ν β : Type} {rk : ν → Nat} {r : Nat} (f : List β → β) :
    ∀ (ds : List ν) (acc : List β), (∀ d ∈ ds, rk d < r) → ReadsBelow rk r (chain f ds acc) := by
  intro ds
  induction ds with
  | nil => intro acc _; exact ReadsBelow.ret _
  | cons d ds ih =>
    intro acc h
    exact ReadsBelow.read d _ (h d (by simp)) (fun v => ih (v :: acc) (fun d' hd' => h d' (by simp [hd'])))

/-- the body of a lazy property denotes `f (values of the properties it reads, in reading order)` -/
theorem denote_chain {ν β : Type} (spec : ν → β) (f : List β → β) :
    ∀ (ds : List ν) (acc : List β), denote spec (chain f ds acc) = f (acc.reverse ++ ds.map spec) := by
  intro ds
  induction ds with
  | nil => intro acc; simp [chain, denote]
  | cons d ds ih => intro acc; simp [chain, denote, ih]

theorem lookup_mem {tab : Tab} {n : String} {b : Bool} {deps : List String} (h : lookup tab n = some (b, deps)) :
    (n, b, deps) ∈ tab := by
  unfold lookup at h
  cases hf : tab.find? (fun r => r.1 == n) with
  | none => simp [hf] at h
  | some r =>
    simp [hf] at h
    have hm := List.mem_of_find?_eq_some hf
    have hn : r.1 = n := by simpa using List.find?_some hf
    obtain ⟨r1, r2⟩ := r
    simp at hn h
    subst hn; subst h
    exact hm

theorem lazyDeps_of_lookup_none {tab : Tab} {n : String} (h : lookup tab n = none) : lazyDeps tab n = [] := by
  simp [lazyDeps, h]

theorem rank_of_lookup_none {tab : Tab} {n : String} (h : lookup tab n = none) : rank tab n = 0 := by
  unfold rank
  cases tab.length <;> simp [rankFuel, h]

theorem ranked_row {tab : Tab} (h : ranked tab = true) {r : Row} (hr : r ∈ tab) :
    rank tab r.1 ≤ tab.length ∧ ∀ d ∈ lazyDeps tab r.1, rank tab d < rank tab r.1 := by
  unfold ranked at h
  have := (List.all_eq_true.1 h) r hr
  simp only [Bool.and_eq_true, decide_eq_true_eq, List.all_eq_true] at this
  exact this

theorem defsOf_readsBelow {β : Type} {tab : Tab} (h : ranked tab = true) (f : String → List β → β) (n : String) :
    ReadsBelow (rank tab) (rank tab n) (defsOf tab f n) := by
  unfold defsOf
  apply readsBelow_chain
  cases hl : lookup tab n with
  | none => simp [lazyDeps_of_lookup_none hl]
  | some p =>
    obtain ⟨b, deps⟩ := p
    exact (ranked_row h (lookup_mem hl)).2

theorem rank_lt_fuel {tab : Tab} (h : ranked tab = true) (n : String) : rank tab n < fuelOf tab := by
  unfold fuelOf
  cases hl : lookup tab n with
  | none => rw [rank_of_lookup_none hl]; omega
  | some p =>
    obtain ⟨b, deps⟩ := p
    have := (ranked_row h (lookup_mem hl)).1
    simp only at this
    omega

/-- every state the driver op reports is defined (the model never runs out of fuel on a ranked table) -/
theorem cacheStates_total {β : Type} {tab : Tab} (h : ranked tab = true) (f : String → List β → β) :
    ∀ (ops : List String) (t : Table String β), ∀ s ∈ cacheStates tab f ops t, s.isSome = true := by
  intro ops
  induction ops with
  | nil => intro t s hs; simp [cacheStates] at hs
  | cons op ops ih =>
    intro t s hs
    unfold cacheStates at hs
    have ht := history_total (defsOf_readsBelow h f) (fuelOf tab) (rank_lt_fuel h) (expandOp tab op) t
    cases hh : history (defsOf tab f) (fuelOf tab) (expandOp tab op) t with
    | none => simp [hh] at ht
    | some q =>
      obtain ⟨vs, t'⟩ := q
      simp only [hh, List.mem_cons] at hs
      rcases hs with rfl | hs
      · rfl
      · exact ih t' s hs

end Cij.LazyGraph
