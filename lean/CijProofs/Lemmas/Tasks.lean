/- Helper lemmas for C04 about `CijModel/Tasks.lean` (no property statements here). -/
import CijModel.Tasks
import CijProofs.Lemmas.Shear
import Mathlib.Tactic.Linarith

set_option linter.unusedSectionVars false

namespace Cij.Tasks
open Cij Cij.Shear

/-- the 21 canonical keys -/
def allKeys : List Modulus := keys21.map keyOfVoigt

/-! ### finite facts about keys, ranks and requested keys -/

theorem calcType_shear_iff (k : Modulus) : k.calcType = .shear ↔ k.isShear = true := by
  unfold Modulus.calcType Modulus.isOffDiagonal Modulus.isLongitudinal
  cases k.isShear <;> cases (k.i == k.j) <;> simp

theorem mem_shearKeys {k : Modulus} : k ∈ shearKeys ↔ k ∈ allKeys ∧ k.isShear = true := by
  unfold shearKeys allKeys
  simp [List.mem_filter]

theorem orig_keys_canon_rank : ∀ k ∈ shearKeys, ∀ d ∈ (origPairs k).map keyOfPairs, d ∈ allKeys ∧ rank d < rank k := by
  decide +kernel

theorem key4_diag_canon : ∀ a b : Fin 3, key4 a a b b ∈ allKeys ∧ rank (key4 a a b b) = 0 := by decide +kernel

theorem rank_le_two (k : Modulus) : rank k ≤ 2 := by
  unfold rank; split <;> [omega; (split <;> omega)]

theorem rank_pos_of_shear {k : Modulus} (h : k.isShear = true) : 1 ≤ rank k := by
  unfold rank; simp [h]; split <;> omega

theorem rank_zero_of_nonshear {k : Modulus} (h : k.isShear = false) : rank k = 0 := by
  unfold rank; simp [h]

section field
variable {R : Type} [Field R]

/-- zero test meeting its contract -/
def ZeroSpec (isZero : R → Bool) : Prop := ∀ x, isZero x = true ↔ x = 0

theorem ZeroSpec.zero {isZero : R → Bool} (hz : ZeroSpec isZero) : isZero (0 : R) = true := (hz 0).2 rfl
theorem ZeroSpec.one {isZero : R → Bool} (hz : ZeroSpec isZero) : isZero (1 : R) = false := by
  cases hh : isZero (1 : R)
  · rfl
  · exact absurd ((hz 1).1 hh) one_ne_zero

theorem modulusKeys_eq {isZero : R → Bool} (hz : ZeroSpec isZero) (k : Modulus) :
    modulusKeys isZero k = (origPairs k).map keyOfPairs := by
  unfold modulusKeys energyKeys
  rw [energyPairs_fict isZero hz.zero hz.one]

theorem mem_modulusKeysRotated {isZero : R → Bool} (hz : ZeroSpec isZero) (lam : Vec3 R) {d : Modulus}
    (hd : d ∈ modulusKeysRotated isZero lam) : ∃ a b : Fin 3, d = key4 a a b b := by
  unfold modulusKeysRotated energyKeys energyPairs at hd
  rw [nzPairs_diag isZero hz.zero] at hd
  obtain ⟨pq, hpq, rfl⟩ := List.mem_map.mp hd
  have hm := mem_product.mp (List.mem_filter.mp hpq).1
  obtain ⟨a, _, ha⟩ := List.mem_map.mp hm.1
  obtain ⟨b, _, hb⟩ := List.mem_map.mp hm.2
  obtain ⟨p, q⟩ := pq
  simp only at ha hb
  subst ha; subst hb
  exact ⟨a, b, rfl⟩

theorem depKeys_nonshear (isZero : R → Bool) (eig : Eig R) {k : Modulus} (h : k.isShear = false) :
    depKeys isZero eig k = [] := by
  unfold depKeys
  have : k.calcType ≠ .shear := fun hh => by rw [(calcType_shear_iff k).1 hh] at h; exact absurd h (by decide)
  split
  · contradiction
  · rfl

theorem depKeys_shear (isZero : R → Bool) (eig : Eig R) {k : Modulus} (h : k.isShear = true) :
    depKeys isZero eig k = modulusKeys isZero k ++ modulusKeysRotated isZero (eig k).2 := by
  unfold depKeys
  rw [(calcType_shear_iff k).2 h]

/-- dependencies of a canonical key are canonical keys of strictly smaller rank -/
theorem depKeys_canon_rank {isZero : R → Bool} (hz : ZeroSpec isZero) (eig : Eig R) {k : Modulus} (hk : k ∈ allKeys)
    {d : Modulus} (hd : d ∈ depKeys isZero eig k) : d ∈ allKeys ∧ rank d < rank k := by
  cases hs : k.isShear
  · rw [depKeys_nonshear isZero eig hs] at hd; simp at hd
  · rw [depKeys_shear isZero eig hs, List.mem_append] at hd
    rcases hd with hd | hd
    · rw [modulusKeys_eq hz] at hd
      exact orig_keys_canon_rank k (mem_shearKeys.2 ⟨hk, hs⟩) d hd
    · obtain ⟨a, b, rfl⟩ := mem_modulusKeysRotated hz _ hd
      have := key4_diag_canon a b
      exact ⟨this.1, by rw [this.2]; exact rank_pos_of_shear hs⟩

/-! ### weights: enough fuel -/

theorem weight_mono (isZero : R → Bool) (eig : Eig R) (n : Nat) (k : Modulus) :
    weight isZero eig n k ≤ weight isZero eig (n + 1) k := by
  induction n generalizing k with
  | zero => simp [weight]
  | succ n ih =>
    simp only [weight]
    apply Nat.add_le_add_left
    generalize depKeys isZero eig k = l
    induction l with
    | nil => simp
    | cons x xs ihx => simp only [List.map_cons, List.sum_cons]; exact Nat.add_le_add (ih x) ihx

theorem weight_mono' (isZero : R → Bool) (eig : Eig R) {m n : Nat} (h : m ≤ n) (k : Modulus) :
    weight isZero eig m k ≤ weight isZero eig n k := by
  induction h with
  | refl => exact Nat.le_refl _
  | step _ ih => exact Nat.le_trans ih (weight_mono isZero eig _ k)

theorem weight_pos (isZero : R → Bool) (eig : Eig R) (n : Nat) (k : Modulus) : 1 ≤ weight isZero eig n k := by
  cases n <;> simp [weight]

/-- the measure of one work-list item -/
def mu (isZero : R → Bool) (eig : Eig R) (k : Modulus) : Nat := weight isZero eig (rank k) k

theorem mu_deps {isZero : R → Bool} (hz : ZeroSpec isZero) (eig : Eig R) {k : Modulus} (hk : k ∈ allKeys) :
    ((depKeys isZero eig k).map (mu isZero eig)).sum + 1 ≤ mu isZero eig k := by
  unfold mu
  cases hr : rank k with
  | zero =>
    have : depKeys isZero eig k = [] := by
      cases hs : k.isShear
      · exact depKeys_nonshear isZero eig hs
      · have := rank_pos_of_shear hs; omega
    simp [this, weight]
  | succ n =>
    simp only [weight]
    have hle : ∀ d ∈ depKeys isZero eig k, weight isZero eig (rank d) d ≤ weight isZero eig n d := by
      intro d hd
      have := (depKeys_canon_rank hz eig hk hd).2
      exact weight_mono' isZero eig (by omega) d
    have : ((depKeys isZero eig k).map fun d => weight isZero eig (rank d) d).sum ≤
        ((depKeys isZero eig k).map (weight isZero eig n)).sum := by
      generalize depKeys isZero eig k = l at hle
      induction l with
      | nil => simp
      | cons x xs ih =>
        simp only [List.map_cons, List.sum_cons]
        exact Nat.add_le_add (hle x (List.mem_cons_self)) (ih fun d hd => hle d (List.mem_cons_of_mem _ hd))
    omega

end field

end Cij.Tasks

namespace Cij.Tasks
open Cij Cij.Shear

section resolve
variable {R : Type} [Field R]

/-- `some key` for shear parameters, `none` for non-shear ones -/
def Params.kind : Params R → Option Modulus
  | .nonshear _ _ _ => none
  | .shear _ k => some k

/-- what the theorems assume of `PhononContributionTaskParams.__eq__`: an equivalence that never identifies parameters
of different calculation kind / different shear keys (the Python code compares `calc_type` and the key first) -/
structure PeqSpec (peq : Params R → Params R → Bool) : Prop where
  refl : ∀ p, peq p p = true
  symm : ∀ p q, peq p q = true → peq q p = true
  trans : ∀ p q r, peq p q = true → peq q r = true → peq p r = true
  kind : ∀ p q, peq p q = true → p.kind = q.kind

/-- a task as `PhononContributionTask.__init__` builds it, for a canonical key -/
def WF (t : PTask R) : Prop := t.params = create t.strain t.key ∧ t.key ∈ allKeys

theorem kind_create (s : SField R) (k : Modulus) :
    (create s k).kind = if k.isShear then some k else none := by
  unfold create
  cases k.isShear <;> simp [Params.kind]

theorem deps_keys (isZero : R → Bool) (eig : Eig R) (t : PTask R) :
    (deps isZero eig t).map (·.2) = depKeys isZero eig t.key := by
  unfold deps depKeys
  split <;> simp [List.map_append, List.map_map, Function.comp_def]

theorem findTask_append {peq : Params R → Params R → Bool} {tasks : List (PTask R)} {q : Params R} {a : Nat}
    (h : findTask peq tasks q = some a) (extra : List (PTask R)) : findTask peq (tasks ++ extra) q = some a := by
  unfold findTask at h ⊢
  rw [List.findIdx?_append, h]
  rfl

theorem findTask_some {peq : Params R → Params R → Bool} {tasks : List (PTask R)} {q : Params R} {a : Nat}
    (h : findTask peq tasks q = some a) : ∃ t, tasks[a]? = some t ∧ peq t.params q = true := by
  unfold findTask at h
  obtain ⟨hlt, hp, _⟩ := List.findIdx?_eq_some_iff_getElem.mp h
  exact ⟨tasks[a], by simp [hlt], hp⟩

theorem findTask_isSome_of_mem {peq : Params R → Params R → Bool} {tasks : List (PTask R)} {q : Params R}
    {t : PTask R} (ht : t ∈ tasks) (hp : peq t.params q = true) : ∃ a, findTask peq tasks q = some a := by
  unfold findTask
  cases h : tasks.findIdx? fun t => peq t.params q with
  | some a => exact ⟨a, rfl⟩
  | none =>
    have := List.findIdx?_eq_none_iff.mp h t ht
    simp [hp] at this

/-- the facts about `currOf` the invariants need -/
theorem currOf_spec {peq : Params R → Params R → Bool} (hp : PeqSpec peq) (tasks : List (PTask R)) (it : Item R) :
    ∃ extra t, (currOf peq tasks it).1 = tasks ++ extra ∧ (extra = [] ∨ extra = [mkTask it.1 it.2.1]) ∧
      (currOf peq tasks it).1[(currOf peq tasks it).2]? = some t ∧
      peq t.params (create it.1 it.2.1) = true ∧
      findTask peq (currOf peq tasks it).1 (create it.1 it.2.1) = some (currOf peq tasks it).2 := by
  unfold currOf
  cases h : findTask peq tasks (create it.1 it.2.1) with
  | some i =>
    obtain ⟨t, ht, hpt⟩ := findTask_some h
    exact ⟨[], t, by simp, Or.inl rfl, ht, hpt, h⟩
  | none =>
    refine ⟨[mkTask it.1 it.2.1], mkTask it.1 it.2.1, rfl, Or.inr rfl, by simp, hp.refl _, ?_⟩
    unfold findTask at h ⊢
    rw [List.findIdx?_append, h]
    simp [mkTask, hp.refl]

theorem getElem?_append_some {X : Type} {l : List X} {i : Nat} {x : X} (h : l[i]? = some x) (extra : List X) :
    (l ++ extra)[i]? = some x := by
  have hlt : i < l.length := by
    by_contra hh
    rw [List.getElem?_eq_none (by omega)] at h
    cases h
  rw [List.getElem?_append_left hlt]; exact h

/-- invariant of the work list (`stack` = the queue seen from its end) -/
structure Inv (isZero : R → Bool) (peq : Params R → Params R → Bool) (eig : Eig R) (strain : SField R)
    (keys : List Modulus) (stack : List (Item R)) (st : RState R) : Prop where
  wf : ∀ t ∈ st.tasks, WF t
  stackKeys : ∀ it ∈ stack, it.2.1 ∈ allKeys
  stackDep : ∀ it ∈ stack, ∀ b, it.2.2 = some b → ∃ t, st.tasks[b]? = some t ∧ it.2.1 ∈ depKeys isZero eig t.key
  edgesRank : ∀ e ∈ st.edges, ∃ ta tb, st.tasks[e.1]? = some ta ∧ st.tasks[e.2]? = some tb ∧ rank ta.key < rank tb.key
  depsDone : ∀ b t, st.tasks[b]? = some t → ∀ sk ∈ deps isZero eig t,
      (sk.1, sk.2, some b) ∈ stack ∨ ∃ a, findTask peq st.tasks (create sk.1 sk.2) = some a ∧ (a, b) ∈ st.edges
  reqDone : ∀ k ∈ keys, (strain, k, (none : Option Nat)) ∈ stack ∨ ∃ a, findTask peq st.tasks (create strain k) = some a

theorem rank_of_peq {peq : Params R → Params R → Bool} (hp : PeqSpec peq) {t : PTask R} (ht : WF t)
    {s : SField R} {k : Modulus} (h : peq t.params (create s k) = true) :
    rank t.key = rank k ∧ (k.isShear = true → t.key = k) ∧ (k.isShear = false → t.key.isShear = false) := by
  have hk := hp.kind _ _ h
  rw [ht.1, kind_create, kind_create] at hk
  cases h1 : t.key.isShear <;> cases h2 : k.isShear <;> simp [h1, h2] at hk
  · exact ⟨by rw [rank_zero_of_nonshear h1, rank_zero_of_nonshear h2], by simp, by simp⟩
  · exact ⟨by rw [hk], fun _ => hk, by simp⟩

theorem edge_mem_addEdge {edges : List (Nat × Nat)} {curr : Nat} {dep : Option Nat} {e : Nat × Nat}
    (h : e ∈ addEdge edges curr dep) : e ∈ edges ∨ dep = some e.2 ∧ e.1 = curr := by
  unfold addEdge at h
  cases dep with
  | none => exact Or.inl h
  | some d =>
    rcases List.mem_append.mp h with h | h
    · exact Or.inl h
    · simp at h; subst h; exact Or.inr ⟨rfl, rfl⟩

theorem mem_addEdge_of_mem {edges : List (Nat × Nat)} {curr : Nat} {dep : Option Nat} {e : Nat × Nat}
    (h : e ∈ edges) : e ∈ addEdge edges curr dep := by
  unfold addEdge; cases dep <;> simp [h]

theorem mem_addEdge_self (edges : List (Nat × Nat)) (curr d : Nat) : (curr, d) ∈ addEdge edges curr (some d) := by
  simp [addEdge]

/-- one loop iteration preserves the invariant -/
theorem Inv.step {isZero : R → Bool} (hz : ZeroSpec isZero) {peq : Params R → Params R → Bool} (hp : PeqSpec peq)
    {eig : Eig R} {strain : SField R} {keys : List Modulus} {it : Item R} {rest : List (Item R)} {st : RState R}
    (h : Inv isZero peq eig strain keys (it :: rest) st) :
    Inv isZero peq eig strain keys ((resolveStep isZero peq eig it st).2.reverse ++ rest) (resolveStep isZero peq eig it st).1 := by
  obtain ⟨extra, t, htasks, hextra, hcurr, hpeq, hfind⟩ := currOf_spec hp st.tasks it
  have hitk : it.2.1 ∈ allKeys := h.stackKeys it (List.mem_cons_self)
  -- the task at `curr` is well formed
  have hwf' : ∀ u ∈ (currOf peq st.tasks it).1, WF u := by
    intro u hu
    rw [htasks] at hu
    rcases List.mem_append.mp hu with hu | hu
    · exact h.wf u hu
    · rcases hextra with he | he
      · rw [he] at hu; cases hu
      · rw [he] at hu; simp at hu; subst hu; exact ⟨rfl, hitk⟩
  have htwf : WF t := hwf' t (List.mem_of_getElem? hcurr)
  have hrank := rank_of_peq hp htwf hpeq
  have hold : ∀ {i : Nat} {u : PTask R}, st.tasks[i]? = some u → (currOf peq st.tasks it).1[i]? = some u := by
    intro i u hu; rw [htasks]; exact getElem?_append_some hu extra
  have hfindold : ∀ {q : Params R} {a : Nat}, findTask peq st.tasks q = some a →
      findTask peq (currOf peq st.tasks it).1 q = some a := by
    intro q a ha; rw [htasks]; exact findTask_append ha extra
  have hpushed : (resolveStep isZero peq eig it st).2 =
      (deps isZero eig t).map fun sk => (sk.1, sk.2, some (currOf peq st.tasks it).2) := by
    simp only [resolveStep, pushedOf, hcurr]
  constructor
  · exact hwf'
  · -- stackKeys
    intro it' hit'
    rcases List.mem_append.mp hit' with hit' | hit'
    · rw [List.mem_reverse, hpushed] at hit'
      obtain ⟨sk, hsk, rfl⟩ := List.mem_map.mp hit'
      have : sk.2 ∈ depKeys isZero eig t.key := by
        rw [← deps_keys]; exact List.mem_map.mpr ⟨sk, hsk, rfl⟩
      exact (depKeys_canon_rank hz eig htwf.2 this).1
    · exact h.stackKeys it' (List.mem_cons_of_mem _ hit')
  · -- stackDep
    intro it' hit' b hb
    rcases List.mem_append.mp hit' with hit' | hit'
    · rw [List.mem_reverse, hpushed] at hit'
      obtain ⟨sk, hsk, rfl⟩ := List.mem_map.mp hit'
      simp only [Option.some.injEq] at hb
      subst hb
      refine ⟨t, hcurr, ?_⟩
      rw [← deps_keys]; exact List.mem_map.mpr ⟨sk, hsk, rfl⟩
    · obtain ⟨u, hu, hk⟩ := h.stackDep it' (List.mem_cons_of_mem _ hit') b hb
      exact ⟨u, hold hu, hk⟩
  · -- edgesRank
    intro e he
    rcases edge_mem_addEdge he with he | ⟨hdep, he1⟩
    · obtain ⟨ta, tb, h1, h2, h3⟩ := h.edgesRank e he
      exact ⟨ta, tb, hold h1, hold h2, h3⟩
    · obtain ⟨u, hu, hk⟩ := h.stackDep it (List.mem_cons_self) e.2 hdep
      refine ⟨t, u, by rw [he1]; exact hcurr, hold hu, ?_⟩
      have hu_wf : WF u := h.wf u (List.mem_of_getElem? hu)
      have := (depKeys_canon_rank hz eig hu_wf.2 hk).2
      rw [hrank.1]; exact this
  · -- depsDone
    intro b u hu sk hsk
    change (currOf peq st.tasks it).1[b]? = some u at hu
    by_cases hb : b < st.tasks.length
    · have hu_old : st.tasks[b]? = some u := by
        rw [htasks, List.getElem?_append_left hb] at hu; exact hu
      rcases h.depsDone b u hu_old sk hsk with hin | ⟨a, ha, hab⟩
      · rcases List.mem_cons.mp hin with heq | hin
        · -- it is the popped item: now resolved
          right
          subst heq
          exact ⟨_, hfind, mem_addEdge_self _ _ _⟩
        · left; exact List.mem_append.mpr (Or.inr hin)
      · right; exact ⟨a, hfindold ha, mem_addEdge_of_mem hab⟩
    · -- a task appended in this iteration: it is `curr`, its dependencies were just pushed
      have hb' : st.tasks.length ≤ b := by omega
      rcases hextra with he | he
      · rw [htasks, he, List.append_nil] at hu
        rw [List.getElem?_eq_none hb'] at hu; cases hu
      · have hnew : (currOf peq st.tasks it).2 = st.tasks.length ∧ b = st.tasks.length ∧ u = t := by
          have hlen : (currOf peq st.tasks it).1.length = st.tasks.length + 1 := by rw [htasks, he]; simp
          have hblt : b < st.tasks.length + 1 := by
            by_contra hh
            rw [List.getElem?_eq_none (by omega)] at hu; cases hu
          have hbeq : b = st.tasks.length := by omega
          have hc : (currOf peq st.tasks it).2 = st.tasks.length := by
            have htl := htasks
            unfold currOf at htl ⊢
            cases hf : findTask peq st.tasks (create it.1 it.2.1) with
            | some i => rw [hf] at htl; simp [he] at htl
            | none => rfl
          refine ⟨hc, hbeq, ?_⟩
          rw [hbeq, ← hc, hcurr] at hu
          exact (Option.some.inj hu).symm
        left
        apply List.mem_append.mpr; left
        rw [List.mem_reverse, hpushed, hnew.1, hnew.2.1]
        rw [hnew.2.2] at hsk
        exact List.mem_map.mpr ⟨sk, hsk, rfl⟩
  · -- reqDone
    intro k hk
    rcases h.reqDone k hk with hin | ⟨a, ha⟩
    · rcases List.mem_cons.mp hin with heq | hin
      · right; subst heq; exact ⟨_, hfind⟩
      · left; exact List.mem_append.mpr (Or.inr hin)
    · right; exact ⟨a, hfindold ha⟩

end resolve

end Cij.Tasks

namespace Cij.Tasks
open Cij Cij.Shear

section loop
variable {R : Type} [Field R]

/-- total measure of a work list -/
def stackMu (isZero : R → Bool) (eig : Eig R) (stack : List (Item R)) : Nat :=
  (stack.map fun it => mu isZero eig it.2.1).sum

theorem pushed_measure {isZero : R → Bool} (hz : ZeroSpec isZero) {peq : Params R → Params R → Bool} (hp : PeqSpec peq)
    {eig : Eig R} {strain : SField R} {keys : List Modulus} {it : Item R} {rest : List (Item R)} {st : RState R}
    (h : Inv isZero peq eig strain keys (it :: rest) st) :
    stackMu isZero eig (resolveStep isZero peq eig it st).2 + 1 ≤ mu isZero eig it.2.1 := by
  obtain ⟨extra, t, htasks, hextra, hcurr, hpeq, hfind⟩ := currOf_spec hp st.tasks it
  have hitk : it.2.1 ∈ allKeys := h.stackKeys it (List.mem_cons_self)
  have htwf : WF t := by
    have hmem := List.mem_of_getElem? hcurr
    rw [htasks] at hmem
    rcases List.mem_append.mp hmem with hu | hu
    · exact h.wf t hu
    · rcases hextra with he | he
      · rw [he] at hu; cases hu
      · rw [he] at hu; simp at hu; subst hu; exact ⟨rfl, hitk⟩
  have hrank := rank_of_peq hp htwf hpeq
  have hpushed : (resolveStep isZero peq eig it st).2 =
      (deps isZero eig t).map fun sk => (sk.1, sk.2, some (currOf peq st.tasks it).2) := by
    simp only [resolveStep, pushedOf, hcurr]
  have hsum : stackMu isZero eig (resolveStep isZero peq eig it st).2 = ((depKeys isZero eig t.key).map (mu isZero eig)).sum := by
    unfold stackMu
    rw [hpushed, ← deps_keys, List.map_map, List.map_map]
    rfl
  rw [hsum]
  cases hs : it.2.1.isShear
  · rw [depKeys_nonshear isZero eig (hrank.2.2 hs)]
    simp [mu]; exact weight_pos _ _ _ _
  · rw [hrank.2.1 hs]; exact mu_deps hz eig hitk

theorem stackMu_append (isZero : R → Bool) (eig : Eig R) (a b : List (Item R)) :
    stackMu isZero eig (a ++ b) = stackMu isZero eig a + stackMu isZero eig b := by
  simp [stackMu, List.map_append, List.sum_append]

theorem stackMu_reverse (isZero : R → Bool) (eig : Eig R) (a : List (Item R)) :
    stackMu isZero eig a.reverse = stackMu isZero eig a := by
  simp [stackMu, List.map_reverse, List.sum_reverse]

/-- the loop terminates within the fuel given by the measure and the invariant holds at the end -/
theorem resolveLoop_inv {isZero : R → Bool} (hz : ZeroSpec isZero) {peq : Params R → Params R → Bool} (hp : PeqSpec peq)
    {eig : Eig R} {strain : SField R} {keys : List Modulus} :
    ∀ (fuel : Nat) (stack : List (Item R)) (st : RState R), Inv isZero peq eig strain keys stack st →
      stackMu isZero eig stack ≤ fuel →
      ∃ st', resolveLoop isZero peq eig fuel stack st = some st' ∧ Inv isZero peq eig strain keys [] st' := by
  intro fuel
  induction fuel with
  | zero =>
    intro stack st h hf
    cases stack with
    | nil => exact ⟨st, by simp [resolveLoop], h⟩
    | cons it rest =>
      exfalso
      have : 1 ≤ mu isZero eig it.2.1 := weight_pos _ _ _ _
      simp [stackMu] at hf
      omega
  | succ n ih =>
    intro stack st h hf
    cases stack with
    | nil => exact ⟨st, by simp [resolveLoop], h⟩
    | cons it rest =>
      have hstep := h.step hz hp
      have hm := pushed_measure hz hp h
      have hf' : stackMu isZero eig ((resolveStep isZero peq eig it st).2.reverse ++ rest) ≤ n := by
        rw [stackMu_append, stackMu_reverse]
        have : stackMu isZero eig (it :: rest) = mu isZero eig it.2.1 + stackMu isZero eig rest := by
          simp [stackMu]
        omega
      obtain ⟨st', hst', hinv'⟩ := ih _ _ hstep hf'
      exact ⟨st', by simpa [resolveLoop] using hst', hinv'⟩

theorem initial_inv (isZero : R → Bool) (peq : Params R → Params R → Bool) (eig : Eig R) (strain : SField R)
    (keys : List Modulus) (hkeys : ∀ k ∈ keys, k ∈ allKeys) :
    Inv isZero peq eig strain keys (initialStack strain keys) ⟨[], []⟩ := by
  constructor
  · intro t ht; cases ht
  · intro it hit
    simp only [initialStack, List.mem_reverse, List.mem_map] at hit
    obtain ⟨k, hk, rfl⟩ := hit
    exact hkeys k hk
  · intro it hit b hb
    simp only [initialStack, List.mem_reverse, List.mem_map] at hit
    obtain ⟨k, hk, rfl⟩ := hit
    cases hb
  · intro e he; cases he
  · intro b t ht; simp at ht
  · intro k hk
    left
    simp only [initialStack, List.mem_reverse, List.mem_map]
    exact ⟨k, hk, rfl⟩

theorem initial_fuel (isZero : R → Bool) (eig : Eig R) (strain : SField R) (keys : List Modulus) :
    stackMu isZero eig (initialStack strain keys) ≤ fuelFor isZero eig keys := by
  unfold initialStack fuelFor
  rw [stackMu_reverse]
  unfold stackMu
  rw [List.map_map]
  induction keys with
  | nil => simp
  | cons k ks ih =>
    simp only [List.map_cons, List.sum_cons, Function.comp]
    exact Nat.add_le_add (weight_mono' isZero eig (rank_le_two k) k) ih

end loop

end Cij.Tasks

namespace Cij.Tasks
open Cij Cij.Shear

section specs
variable {R : Type} [Field R]

/-- `≈` is compatible with everything the tasks compute from their parameters -/
structure PeqCongr (peq : Params R → Params R → Bool) (baseIso baseAdi : Params R → R) : Prop where
  iso : ∀ p q, peq p q = true → baseIso p = baseIso q
  adi : ∀ p q, peq p q = true → baseAdi p = baseAdi q
  create : ∀ s s' k, peq (.shear s k) (.shear s' k) = true → ∀ k', peq (create s k') (create s' k') = true
  rot : ∀ s s' k, peq (.shear s k) (.shear s' k) = true →
      ∀ T k', peq (Tasks.create (rotatedField T s) k') (Tasks.create (rotatedField T s') k') = true

theorem spec_nonshear (isZero : R → Bool) (eig : Eig R) (base : Params R → R) (n : Nat) (c : Modulus.CalcType)
    (a b : CField R) : spec isZero eig base n (.nonshear c a b) = base (.nonshear c a b) := by
  cases n <;> rfl

theorem spec_congr {isZero : R → Bool} {peq : Params R → Params R → Bool} (hp : PeqSpec peq) {eig : Eig R}
    {baseIso baseAdi : Params R → R} (hc : PeqCongr peq baseIso baseAdi) :
    ∀ (n : Nat) (p q : Params R), peq p q = true → spec isZero eig baseIso n p = spec isZero eig baseIso n q := by
  intro n
  induction n with
  | zero =>
    intro p q h
    cases p with
    | nonshear c a b =>
      cases q with
      | nonshear c' a' b' => rw [spec_nonshear, spec_nonshear]; exact hc.iso _ _ h
      | shear s' k' => have := hp.kind _ _ h; simp [Params.kind] at this
    | shear s k =>
      cases q with
      | nonshear c' a' b' => have := hp.kind _ _ h; simp [Params.kind] at this
      | shear s' k' => rfl
  | succ n ih =>
    intro p q h
    cases p with
    | nonshear c a b =>
      cases q with
      | nonshear c' a' b' => rw [spec_nonshear, spec_nonshear]; exact hc.iso _ _ h
      | shear s' k' => have := hp.kind _ _ h; simp [Params.kind] at this
    | shear s k =>
      cases q with
      | nonshear c' a' b' => have := hp.kind _ _ h; simp [Params.kind] at this
      | shear s' k' =>
        have hk : k = k' := by have := hp.kind _ _ h; simpa [Params.kind] using this
        subst hk
        simp only [spec]
        have h1 : (fun k' => spec isZero eig baseIso n (Tasks.create s k')) =
            fun k' => spec isZero eig baseIso n (Tasks.create s' k') := by
          funext k'; exact ih _ _ (hc.create s s' k h k')
        have h2 : (fun k' => spec isZero eig baseIso n (Tasks.create (rotatedField (eig k).1 s) k')) =
            fun k' => spec isZero eig baseIso n (Tasks.create (rotatedField (eig k).1 s') k') := by
          funext k'; exact ih _ _ (hc.rot s s' k h _ k')
        rw [h1, h2]

/-- rank of a parameter -/
def prank : Params R → Nat
  | .nonshear _ _ _ => 0
  | .shear _ k => rank k

/-- parameters of a canonical key -/
def Canon : Params R → Prop
  | .nonshear _ _ _ => True
  | .shear _ k => k ∈ shearKeys

theorem canon_create (s : SField R) {k : Modulus} (hk : k ∈ allKeys) : Canon (create s k) := by
  unfold create
  cases hs : k.isShear
  · simp [Canon]
  · simp only [if_true, Canon]; exact mem_shearKeys.2 ⟨hk, hs⟩

theorem prank_create (s : SField R) (k : Modulus) : prank (create s k) = rank k := by
  unfold create
  cases hs : k.isShear
  · simp [prank, rank_zero_of_nonshear hs]
  · simp [prank]

theorem shearValue_congr (isZero : R → Bool) (key : Modulus) (lam : Vec3 R) (r r' g g' : Modulus → R)
    (h1 : ∀ k ∈ modulusKeys isZero key, r k = r' k) (h2 : ∀ k ∈ modulusKeysRotated isZero lam, g k = g' k) :
    shearValue isZero key lam r g = shearValue isZero key lam r' g' := by
  unfold shearValue
  rw [strainEnergy_congr isZero (diagMat lam) none g g' h2,
    strainEnergy_congr isZero (fictitiousStrain key) (some key) r r' h1]

/-- unrolling deeper than the rank changes nothing -/
theorem spec_stable {isZero : R → Bool} (hz : ZeroSpec isZero) (eig : Eig R) (base : Params R → R) :
    ∀ (n : Nat) (p : Params R), Canon p → prank p ≤ n → spec isZero eig base n p = spec isZero eig base (n + 1) p := by
  intro n
  induction n with
  | zero =>
    intro p hc hr
    cases p with
    | nonshear c a b => rw [spec_nonshear, spec_nonshear]
    | shear s k =>
      exfalso
      have := rank_pos_of_shear (mem_shearKeys.1 hc).2
      simp [prank] at hr; omega
  | succ n ih =>
    intro p hc hr
    cases p with
    | nonshear c a b => rw [spec_nonshear, spec_nonshear]
    | shear s k =>
      have hk := mem_shearKeys.1 hc
      show shearValue isZero k (eig k).2 _ _ = shearValue isZero k (eig k).2 _ _
      apply shearValue_congr
      · intro k' hk'
        have hd : k' ∈ depKeys isZero eig k := by
          rw [depKeys_shear isZero eig hk.2]; exact List.mem_append.mpr (Or.inl hk')
        have := depKeys_canon_rank hz eig hk.1 hd
        exact ih _ (canon_create s this.1) (by rw [prank_create]; simp [prank] at hr; omega)
      · intro k' hk'
        have hd : k' ∈ depKeys isZero eig k := by
          rw [depKeys_shear isZero eig hk.2]; exact List.mem_append.mpr (Or.inr hk')
        have := depKeys_canon_rank hz eig hk.1 hd
        exact ih _ (canon_create _ this.1) (by rw [prank_create]; simp [prank] at hr; omega)

/-- the defining equation of the value of a shear key: the shear solver applied to the values of what it asks for -/
theorem spec_fix {isZero : R → Bool} (hz : ZeroSpec isZero) (eig : Eig R) (base : Params R → R)
    (s : SField R) {k : Modulus} (hk : k ∈ shearKeys) :
    spec isZero eig base 2 (.shear s k) =
      shearValue isZero k (eig k).2 (fun k' => spec isZero eig base 2 (create s k'))
        (fun k' => spec isZero eig base 2 (create (rotatedField (eig k).1 s) k')) := by
  have hk' := mem_shearKeys.1 hk
  show shearValue isZero k (eig k).2 _ _ = _
  apply shearValue_congr
  · intro k' hd'
    have hd : k' ∈ depKeys isZero eig k := by
      rw [depKeys_shear isZero eig hk'.2]; exact List.mem_append.mpr (Or.inl hd')
    have := depKeys_canon_rank hz eig hk'.1 hd
    exact spec_stable hz eig base 1 _ (canon_create s this.1) (by rw [prank_create]; have := rank_le_two k; omega)
  · intro k' hd'
    have hd : k' ∈ depKeys isZero eig k := by
      rw [depKeys_shear isZero eig hk'.2]; exact List.mem_append.mpr (Or.inr hd')
    have := depKeys_canon_rank hz eig hk'.1 hd
    exact spec_stable hz eig base 1 _ (canon_create _ this.1) (by rw [prank_create]; have := rank_le_two k; omega)

end specs

end Cij.Tasks

namespace Cij.Tasks
open Cij Cij.Shear

section calcsec
variable {R : Type} [Field R]

/-- adiabatic value of a parameter: the adiabatic base value for non-shear, the ISOTHERMAL shear value for shear -/
def specAdi (isZero : R → Bool) (eig : Eig R) (baseIso baseAdi : Params R → R) : Params R → R
  | .nonshear c a b => baseAdi (.nonshear c a b)
  | .shear s k => spec isZero eig baseIso 2 (.shear s k)

/-- the store after the tasks `done` (indices into `tasks`) were evaluated, if every task got the value `f params` -/
def entries (tasks : List (PTask R)) (f : Params R → R) (done : List Nat) : Store R :=
  done.filterMap fun i => (tasks[i]?).map fun t => (t.params, f t.params)

theorem entries_append (tasks : List (PTask R)) (f : Params R → R) (a b : List Nat) :
    entries tasks f (a ++ b) = entries tasks f a ++ entries tasks f b := by
  simp [entries, List.filterMap_append]

theorem entries_single (tasks : List (PTask R)) (f : Params R → R) {i : Nat} {t : PTask R} (h : tasks[i]? = some t) :
    entries tasks f [i] = [(t.params, f t.params)] := by
  simp [entries, h]

/-- a look-up in such a store succeeds as soon as SOME evaluated task is `≈` the query, and returns `f` of a parameter
`≈` the query -/
theorem entries_get {peq : Params R → Params R → Bool} (tasks : List (PTask R)) (f : Params R → R) (done : List Nat)
    (q : Params R) {a : Nat} {ta : PTask R} (ha : a ∈ done) (hta : tasks[a]? = some ta) (hpq : peq ta.params q = true) :
    ∃ p', peq p' q = true ∧ (entries tasks f done).get peq q = some (f p') := by
  unfold Store.get
  cases hfind : (entries tasks f done).find? fun e => peq e.1 q with
  | none =>
    exfalso
    have := List.find?_eq_none.mp hfind (ta.params, f ta.params)
      (by unfold entries; exact List.mem_filterMap.mpr ⟨a, ha, by simp [hta]⟩)
    simp [hpq] at this
  | some e =>
    have hmem := List.mem_of_find?_eq_some hfind
    have hpe := List.find?_some hfind
    unfold entries at hmem
    obtain ⟨i, _, hi⟩ := List.mem_filterMap.mp hmem
    cases hti : tasks[i]? with
    | none => simp [hti] at hi
    | some ti =>
      simp [hti] at hi
      subst hi
      exact ⟨ti.params, hpe, rfl⟩

theorem mapM_some {X Y : Type} (f : X → Option Y) (g : X → Y) (l : List X) (h : ∀ x ∈ l, f x = some (g x)) :
    l.mapM f = some (l.map g) := by
  induction l with
  | nil => rfl
  | cons x xs ih =>
    rw [List.mapM_cons, h x (List.mem_cons_self), ih fun y hy => h y (List.mem_cons_of_mem _ hy)]
    rfl

/-- what `resolve` guarantees about its final state (the part `calculate` needs) -/
structure Closed (isZero : R → Bool) (peq : Params R → Params R → Bool) (eig : Eig R) (st : RState R) : Prop where
  wf : ∀ t ∈ st.tasks, WF t
  deps : ∀ b t, st.tasks[b]? = some t → ∀ sk ∈ deps isZero eig t,
      ∃ a, findTask peq st.tasks (create sk.1 sk.2) = some a ∧ (a, b) ∈ st.edges

/-- `order` evaluates the source of every edge before its target (whatever occurrence of the target) -/
def RespectsEdges (edges : List (Nat × Nat)) (order : List Nat) : Prop :=
  ∀ e ∈ edges, ∀ pre post, order = pre ++ e.2 :: post → e.1 ∈ pre

/-- the value one task computes when everything evaluated so far got its `spec` value -/
theorem taskValue_spec {isZero : R → Bool} (hz : ZeroSpec isZero) {peq : Params R → Params R → Bool} (hp : PeqSpec peq)
    {eig : Eig R} {baseIso baseAdi : Params R → R} (hc : PeqCongr peq baseIso baseAdi) {st : RState R}
    (hcl : Closed isZero peq eig st) {b : Nat} {t : PTask R} (ht : st.tasks[b]? = some t) (done : List Nat)
    (hdone : ∀ a, (a, b) ∈ st.edges → a ∈ done) :
    taskValue isZero peq eig baseIso baseAdi (entries st.tasks (spec isZero eig baseIso 2) done) t =
      some (spec isZero eig baseIso 2 t.params, specAdi isZero eig baseIso baseAdi t.params) := by
  have hwf := hcl.wf t (List.mem_of_getElem? ht)
  -- every dependency is found in the store, with the right value
  have hlook : ∀ sk ∈ deps isZero eig t,
      (entries st.tasks (spec isZero eig baseIso 2) done).get peq (create sk.1 sk.2) =
        some (spec isZero eig baseIso 2 (create sk.1 sk.2)) := by
    intro sk hsk
    obtain ⟨a, ha, hab⟩ := hcl.deps b t ht sk hsk
    obtain ⟨ta, hta, hpa⟩ := findTask_some ha
    obtain ⟨p', hp', hget⟩ := entries_get st.tasks (spec isZero eig baseIso 2) done _ (hdone a hab) hta hpa
    rw [hget, spec_congr hp hc 2 _ _ hp']
  unfold taskValue
  cases hs : t.key.isShear
  · -- non-shear
    have hct : t.key.calcType ≠ .shear := fun hh => by rw [(calcType_shear_iff _).1 hh] at hs; cases hs
    have hpar : t.params = .nonshear t.key.calcType (component t.strain (idx t.key.i.i)) (component t.strain (idx t.key.j.i)) := by
      rw [hwf.1]; unfold create; simp [hs]
    split
    · contradiction
    · rw [hpar, spec_nonshear]; rfl
  · -- shear
    have hct := (calcType_shear_iff _).2 hs
    have hpar : t.params = .shear t.strain t.key := by rw [hwf.1]; unfold create; simp [hs]
    have hdeps : deps isZero eig t =
        (modulusKeys isZero t.key).map (fun k => (t.strain, k)) ++
        (modulusKeysRotated isZero (eig t.key).2).map (fun k => (rotatedField (eig t.key).1 t.strain, k)) := by
      unfold deps; rw [hct]
    have horig : ∀ k ∈ modulusKeys isZero t.key,
        (entries st.tasks (spec isZero eig baseIso 2) done).get peq (create t.strain k) =
          some (spec isZero eig baseIso 2 (create t.strain k)) := by
      intro k hk
      exact hlook (t.strain, k) (by rw [hdeps]; exact List.mem_append.mpr (Or.inl (List.mem_map.mpr ⟨k, hk, rfl⟩)))
    have hrot : ∀ k ∈ modulusKeysRotated isZero (eig t.key).2,
        (entries st.tasks (spec isZero eig baseIso 2) done).get peq (create (rotatedField (eig t.key).1 t.strain) k) =
          some (spec isZero eig baseIso 2 (create (rotatedField (eig t.key).1 t.strain) k)) := by
      intro k hk
      exact hlook (rotatedField (eig t.key).1 t.strain, k)
        (by rw [hdeps]; exact List.mem_append.mpr (Or.inr (List.mem_map.mpr ⟨k, hk, rfl⟩)))
    have hr1 : Store.results peq (entries st.tasks (spec isZero eig baseIso 2) done) t.strain (modulusKeys isZero t.key) =
        some ((modulusKeys isZero t.key).map fun k => (k, spec isZero eig baseIso 2 (create t.strain k))) := by
      unfold Store.results
      apply mapM_some
      intro k hk; rw [horig k hk]; rfl
    have hr2 : Store.results peq (entries st.tasks (spec isZero eig baseIso 2) done)
        (rotatedField (eig t.key).1 t.strain) (modulusKeysRotated isZero (eig t.key).2) =
        some ((modulusKeysRotated isZero (eig t.key).2).map fun k =>
          (k, spec isZero eig baseIso 2 (create (rotatedField (eig t.key).1 t.strain) k))) := by
      unfold Store.results
      apply mapM_some
      intro k hk; rw [hrot k hk]; rfl
    rw [hct]
    simp only [hr1, hr2]
    have hval : shearValue isZero t.key (eig t.key).2
        (fun k => ((entries st.tasks (spec isZero eig baseIso 2) done).get peq (create t.strain k)).getD ((0 : Nat) : R))
        (fun k => ((entries st.tasks (spec isZero eig baseIso 2) done).get peq
          (create (rotatedField (eig t.key).1 t.strain) k)).getD ((0 : Nat) : R)) =
        spec isZero eig baseIso 2 (.shear t.strain t.key) := by
      rw [spec_fix hz eig baseIso t.strain (mem_shearKeys.2 ⟨hwf.2, hs⟩)]
      apply shearValue_congr
      · intro k hk; rw [horig k hk]; rfl
      · intro k hk; rw [hrot k hk]; rfl
    rw [hval, hpar]
    rfl

end calcsec

end Cij.Tasks

namespace Cij.Tasks
open Cij Cij.Shear

section calcmain
variable {R : Type} [Field R]

theorem respectsFrom_spec (edges : List (Nat × Nat)) :
    ∀ (rest pre : List Nat), respectsFrom edges pre rest = true →
      ∀ e ∈ edges, ∀ p post, rest = p ++ e.2 :: post → e.1 ∈ pre ++ p := by
  intro rest
  induction rest with
  | nil => intro pre _ e _ p post h; simp at h
  | cons i rest ih =>
    intro pre h e he p post hsplit
    simp only [respectsFrom, Bool.and_eq_true, List.all_eq_true] at h
    cases p with
    | nil =>
      simp only [List.nil_append, List.cons.injEq] at hsplit
      have := h.1 e he
      simp only [Bool.or_eq_true, bne_iff_ne, ne_eq, List.contains_eq_mem, decide_eq_true_eq] at this
      rcases this with hne | hmem
      · exact absurd hsplit.1.symm hne
      · simpa using hmem
    | cons x p' =>
      simp only [List.cons_append, List.cons.injEq] at hsplit
      have := ih (pre ++ [i]) h.2 e he p' post hsplit.2
      rw [← hsplit.1]
      simpa [List.append_assoc] using this

theorem validOrder_spec {n : Nat} {edges : List (Nat × Nat)} {order : List Nat} (h : validOrder n edges order = true) :
    (∀ i ∈ order, i < n) ∧ (∀ i, i < n → i ∈ order) ∧ RespectsEdges edges order := by
  simp only [validOrder, Bool.and_eq_true, List.all_eq_true, decide_eq_true_eq, List.contains_eq_mem,
    List.mem_range] at h
  refine ⟨h.1.1.2, h.1.2, ?_⟩
  intro e he pre post hsplit
  simpa using respectsFrom_spec edges order [] h.2 e he pre post hsplit

/-- `calculate` over an order respecting the edges stores `spec` for every task, in evaluation order -/
theorem calculate_entries {isZero : R → Bool} (hz : ZeroSpec isZero) {peq : Params R → Params R → Bool} (hp : PeqSpec peq)
    {eig : Eig R} {baseIso baseAdi : Params R → R} (hc : PeqCongr peq baseIso baseAdi) {st : RState R}
    (hcl : Closed isZero peq eig st) (order : List Nat) (hres : RespectsEdges st.edges order)
    (hidx : ∀ i ∈ order, i < st.tasks.length) :
    ∀ (rest done : List Nat), order = done ++ rest →
      calculate isZero peq eig baseIso baseAdi st.tasks rest
        (entries st.tasks (spec isZero eig baseIso 2) done, entries st.tasks (specAdi isZero eig baseIso baseAdi) done) =
      some (entries st.tasks (spec isZero eig baseIso 2) (done ++ rest),
            entries st.tasks (specAdi isZero eig baseIso baseAdi) (done ++ rest)) := by
  intro rest
  induction rest with
  | nil => intro done _; simp [calculate]
  | cons i rest ih =>
    intro done hsplit
    have hi : i < st.tasks.length := hidx i (by rw [hsplit]; simp)
    have ht : st.tasks[i]? = some st.tasks[i] := by simp [hi]
    have hv := taskValue_spec hz hp hc hcl ht done (fun a hab => hres (a, i) hab done rest hsplit)
    unfold calculate
    simp only [ht, hv]
    have := ih (done ++ [i]) (by rw [hsplit]; simp)
    rw [entries_append, entries_append, entries_single _ _ ht, entries_single _ _ ht] at this
    rw [this]
    simp [List.append_assoc]

theorem specAdi_congr {isZero : R → Bool} {peq : Params R → Params R → Bool} (hp : PeqSpec peq) {eig : Eig R}
    {baseIso baseAdi : Params R → R} (hc : PeqCongr peq baseIso baseAdi) (p q : Params R) (h : peq p q = true) :
    specAdi isZero eig baseIso baseAdi p = specAdi isZero eig baseIso baseAdi q := by
  cases p with
  | nonshear c a b =>
    cases q with
    | nonshear c' a' b' => exact hc.adi _ _ h
    | shear s' k' => have := hp.kind _ _ h; simp [Params.kind] at this
  | shear s k =>
    cases q with
    | nonshear c' a' b' => have := hp.kind _ _ h; simp [Params.kind] at this
    | shear s' k' => exact spec_congr hp hc 2 _ _ h

/-- look-ups of requested keys in a store that holds `f params` for every task of a complete order -/
theorem results_of_entries {peq : Params R → Params R → Bool} (tasks : List (PTask R)) (f : Params R → R)
    (hf : ∀ p q, peq p q = true → f p = f q) (order : List Nat) (hcov : ∀ i, i < tasks.length → i ∈ order)
    (strain : SField R) (keys : List Modulus)
    (hreq : ∀ k ∈ keys, ∃ a, findTask peq tasks (create strain k) = some a) :
    Store.results peq (entries tasks f order) strain keys = some (keys.map fun k => (k, f (create strain k))) := by
  unfold Store.results
  apply mapM_some
  intro k hk
  obtain ⟨a, ha⟩ := hreq k hk
  obtain ⟨ta, hta, hpa⟩ := findTask_some ha
  have halt : a < tasks.length := by
    by_contra hh
    rw [List.getElem?_eq_none (by omega)] at hta; cases hta
  obtain ⟨p', hp', hget⟩ := entries_get tasks f order _ (hcov a halt) hta hpa
  rw [hget, hf _ _ hp']
  rfl

end calcmain

end Cij.Tasks
