/-
  `Tasks.create` IS `PhononContributionTaskParams._make_param_by_strain_key` as the source says it now: the translator
  (`tools/gen_tables.py: gen_tasks_spec`) extracts which strain columns (which of `i, j, k, l = key.s`, minus which offset),
  divided by the row sum, make the two parameters of a non-shear task.
-/
import CijModel.Tasks
import Generated.TasksSpec

namespace Cij.Tasks
open Cij Cij.Shear

/-- `i, j, k, l = key.s` -/
def sAt (key : Modulus) : String → Int
  | "i" => key.i.i | "j" => key.i.j | "k" => key.j.i | "l" => key.j.j | _ => 0

/-- 0-based strain column `<var> - <off>` of an extracted element -/
def colOf (key : Modulus) (c : String × Nat) : Fin 3 := ⟨(sAt key c.1 - (c.2 : Int)).toNat % 3, Nat.mod_lt _ (by decide)⟩

theorem create_is_source {α : Type} [Add α] [Div α] (strain : SField α) (key : Modulus) :
    match Generated.makeParamCols with
    | [c0, c1] => create strain key =
        if key.isShear then .shear strain key
        else .nonshear key.calcType (component strain (colOf key c0)) (component strain (colOf key c1))
    | _ => False := by
  simp only [Generated.makeParamCols]
  rfl

/-- `_STRAIN_RTOL` is a rounding-level tolerance: `0 < rtol ≤ 1e-9` (far below the 1e-5 that merged distinct tasks) -/
theorem strain_rtol_tight : 0 < Generated.strainRtol.1 ∧ Generated.strainRtol.1 * 1000000000 ≤ Generated.strainRtol.2 := by decide

end Cij.Tasks
