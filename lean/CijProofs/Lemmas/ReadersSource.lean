/-
  The record-level models of the two file readers/writers (`CijModel/QhaInput.lean`, `CijModel/ElastDat.lean`) ARE the source
  as it says now: `tools/gens/readers_src.py` extracts from `cij/io/traditional/{qha_input,elast_dat,__init__,models}.py`
  every regex literal, conversion function, loop count, field position / slice, sentinel, format specification, label and
  the package re-exports as DATA (`Generated/ReadersSpec.lean`); here each defining equation of the model is re-stated with
  every literal replaced by the generated datum and proved — so an edit of the source that changes a datum makes the
  corresponding theorem fail, and an edit anywhere else in the mirrored functions breaks the translator's canonical text.

  Helper definitions and lemmas only; the property-level statements are in `Properties/C17.lean`.
-/
import CijModel.QhaInput
import CijModel.ElastDat
import CijModel.Regex
import Generated.ReadersSpec
import CijProofs.Lemmas.Regex

namespace Cij.ReadersSource
open Cij Cij.Lex Cij.QhaInput Cij.ElastDat Cij.Regex Generated

variable {Num : Type}

/-! ### the generated regexes: parsed by Lean from their characters, and of the three proved shapes -/

/-- the instruction lists the translator wrote are what `Regex.parse` reads off the characters of the source literals -/
theorem regex_sources_parse :
    Regex.parse Readers.regexInfoStartSrc = some Readers.regexInfoStart ∧
    Regex.parse Readers.regexPVESrc = some Readers.regexPVE ∧
    Regex.parse Readers.regexModulusSrc = some Readers.regexModulus := by decide

/-- … and they are the three shapes `Lemmas/Regex.lean` is about -/
theorem regex_shapes :
    Readers.regexInfoStart = patInfo ∧ Readers.regexPVE = patPVE ∧ Readers.regexModulus = patModulus := by decide

theorem search_info_generated (cs : List Char) (hs : Stripped cs) :
    search Readers.regexInfoStart cs = recogInfo cs := by rw [regex_shapes.1]; exact search_info cs hs

theorem search_pve_generated (cs : List Char) : search Readers.regexPVE cs = recogPVE cs := by
  rw [regex_shapes.2.1]; exact search_pve cs

theorem search_modulus_generated (cs : List Char) (hnl : ∀ c ∈ cs, c ≠ '\n') :
    search Readers.regexModulus cs = recogModulus cs := by rw [regex_shapes.2.2]; exact search_modulus cs hnl

/-! ### tokens of a line -/

/-- `line.strip().split()` as the model's `Line` -/
def tokens (cs : List Char) : Line := (splitWs cs).map String.ofList

/-- the words of a literal piece of a format string -/
def litTokens (s : String) : Line := tokens s.toList

theorem splitAux_ne_nil (cs cur : List Char) : ∀ t ∈ splitAux cs cur, t ≠ [] := by
  induction cs generalizing cur with
  | nil =>
    intro t ht
    unfold splitAux at ht
    cases cur with
    | nil => simp at ht
    | cons a b => simp at ht; subst ht; simp
  | cons c r ih =>
    intro t ht
    unfold splitAux at ht
    by_cases hc : isSp c = true
    · cases cur with
      | nil => simp [hc] at ht; exact ih [] t ht
      | cons a b =>
        simp [hc] at ht
        rcases ht with rfl | ht
        · simp
        · exact ih [] t ht
    · simp [hc] at ht; exact ih _ t ht

theorem splitWs_ne_nil (cs : List Char) : ∀ t ∈ splitWs cs, t ≠ [] := splitAux_ne_nil cs []

/-! ### conversions named in the source -/

/-- `float` is the only conversion the number fields of the model go through (`F.parse`) -/
def convNum (F : NumFmt Num) (conv : String) (t : Token) : Option Num := if conv = "float" then F.parse t else none

/-- `int` on a `\d+` group -/
def convNat (conv : String) (t : Token) : Option Nat := if conv = "int" then Lex.parseNat t else none

/-- `int` on a word of the static table's second line -/
def convInt (conv : String) (t : Token) : Option Int := if conv = "int" then Lex.parseInt t else none

/-! ### `REGEX_INFO_START`, `REGEX_PVE`, `REGEX_MODULUS` against the token-level functions of the model -/

theorem parseNat_ofList (t : List Char) (hne : t ≠ []) :
    Lex.parseNat (String.ofList t) = if t.all Char.isDigit = true then some (Nat.ofDigitChars 10 t 0) else none := by
  unfold Lex.parseNat
  have : t.isEmpty = false := by cases t <;> simp_all
  simp [String.toList_ofList, this]

/-- `re.search(REGEX_INFO_START, line.strip())` then `map(int, groups)`: the model's `matchInfo` on the words of the line -/
theorem matchInfo_is_regex (cs : List Char) (hs : Stripped cs) :
    matchInfo (tokens cs) = (search Readers.regexInfoStart cs).bind fun gs =>
      match gs.map String.ofList with
      | [a, b, c, d, e] => do
          let a ← convNat Readers.headerConv a
          let b ← convNat Readers.headerConv b
          let c ← convNat Readers.headerConv c
          let d ← convNat Readers.headerConv d
          let e ← convNat Readers.headerConv e
          pure (a, b, c, d, e)
      | _ => none := by
  rw [search_info_generated cs hs]
  unfold recogInfo tokens
  have hne := splitWs_ne_nil cs
  match hts : splitWs cs with
  | [a, b, c, d, e] =>
    rw [hts] at hne
    have ha := parseNat_ofList a (hne a (by simp))
    have hb := parseNat_ofList b (hne b (by simp))
    have hc := parseNat_ofList c (hne c (by simp))
    have hd := parseNat_ofList d (hne d (by simp))
    have he := parseNat_ofList e (hne e (by simp))
    simp only [matchInfo, List.map, convNat, Readers.headerConv, if_true, ha, hb, hc, hd, he]
    cases h1 : a.all Char.isDigit <;> cases h2 : b.all Char.isDigit <;> cases h3 : c.all Char.isDigit <;>
      cases h4 : d.all Char.isDigit <;> cases h5 : e.all Char.isDigit <;> simp [h1, h2, h3, h4, h5, ha, hb, hc, hd, he]
  | [] => simp [matchInfo]
  | [_] => simp [matchInfo]
  | [_, _] => simp [matchInfo]
  | [_, _, _] => simp [matchInfo]
  | [_, _, _, _] => simp [matchInfo]
  | _ :: _ :: _ :: _ :: _ :: _ :: _ => simp [matchInfo]

theorem isLabel1_ofList (t : List Char) : isLabel1 (String.ofList t) = isLabel1c t := by
  rw [isLabel1, String.toList_ofList]; rfl

theorem isLabel2_ofList (t : List Char) : isLabel2 (String.ofList t) = isLabel2c t := by
  rw [isLabel2, String.toList_ofList]; rfl

theorem matchPVE_cons5 (l1 a l2 b l3 c : Token) (rest : List Token) :
    matchPVE (l1 :: a :: l2 :: b :: l3 :: c :: rest)
      = if (isLabel1 l1 && isLabel2 l2 && isLabel2 l3) = true then some (a, b, c) else matchPVE (a :: l2 :: b :: l3 :: c :: rest) := by
  rw [matchPVE]

theorem matchPVEc_cons5 (l1 a l2 b l3 c : List Char) (rest : List (List Char)) :
    matchPVEc (l1 :: a :: l2 :: b :: l3 :: c :: rest)
      = if (isLabel1c l1 && isLabel2c l2 && isLabel2c l3) = true then some [a, b, c] else matchPVEc (a :: l2 :: b :: l3 :: c :: rest) := by
  rw [matchPVEc]

theorem matchPVE_map (ts : List (List Char)) :
    matchPVE (ts.map String.ofList) = (matchPVEc ts).bind fun gs =>
      match gs with
      | [a, b, c] => some (String.ofList a, String.ofList b, String.ofList c)
      | _ => none := by
  induction ts with
  | nil => rfl
  | cons l1 tl ih =>
    match tl, ih with
    | a :: l2 :: b :: l3 :: c :: rest, ih =>
      simp only [List.map_cons] at ih ⊢
      rw [matchPVE_cons5, matchPVEc_cons5]
      simp only [isLabel1_ofList, isLabel2_ofList]
      by_cases h : (isLabel1c l1 && isLabel2c l2 && isLabel2c l3) = true
      · simp [h]
      · simp only [h, Bool.false_eq_true, if_false]; exact ih
    | [], _ => rfl
    | [_], _ => rfl
    | [_, _], _ => rfl
    | [_, _, _], _ => rfl
    | [_, _, _, _], _ => rfl

/-- `re.search(REGEX_PVE, line).groups()`: the model's `matchPVE` on the words of the line (any line, no stripping) -/
theorem matchPVE_is_regex (cs : List Char) :
    matchPVE (tokens cs) = (search Readers.regexPVE cs).bind fun gs =>
      match gs with
      | [a, b, c] => some (String.ofList a, String.ofList b, String.ofList c)
      | _ => none := by
  rw [search_pve_generated cs]; exact matchPVE_map (splitWs cs)

/-- `_find_modulus_key`: `re.search(REGEX_MODULUS, key)`; on a match `c_(res.group(n))`, else the key itself -/
theorem findModulusKey_is_regex (t : Token) (hnl : ∀ c ∈ t.toList, c ≠ '\n') :
    findModulusKey t = match search Readers.regexModulus t.toList with
      | some gs => (Modulus.create [.str (String.ofList (gs.getD (Readers.modulusGroup - 1) []))]).map Key.mod
      | none => some (Key.raw t) := by
  rw [search_modulus_generated t.toList hnl]
  unfold findModulusKey recogModulus
  by_cases h : (!(t.toList.dropWhile fun c => !c.isDigit).isEmpty && (t.toList.dropWhile fun c => !c.isDigit).all Char.isDigit) = true
  · simp [h, Readers.modulusGroup]
  · simp [h]

/-- a word of a split line holds no newline (so the hypothesis above is met by every column name) -/
theorem token_no_space (cs : List Char) : ∀ t ∈ splitWs cs, ∀ c ∈ t, isSp c = false := by
  suffices h : ∀ (cs cur : List Char), (∀ c ∈ cur, isSp c = false) → ∀ t ∈ splitAux cs cur, ∀ c ∈ t, isSp c = false from
    h cs [] (by simp)
  intro cs
  induction cs with
  | nil =>
    intro cur hcur t ht
    unfold splitAux at ht
    cases cur with
    | nil => simp at ht
    | cons a b => simp at ht; subst ht; exact hcur
  | cons c r ih =>
    intro cur hcur t ht
    unfold splitAux at ht
    by_cases hc : isSp c = true
    · cases cur with
      | nil => simp [hc] at ht; exact ih [] (by simp) t ht
      | cons a b =>
        simp [hc] at ht
        rcases ht with rfl | ht
        · exact hcur
        · exact ih [] (by simp) t ht
    · simp [hc] at ht
      refine ih _ ?_ t ht
      intro d hd
      rcases List.mem_append.1 hd with hd | hd
      · exact hcur d hd
      · simp at hd; subst hd; simpa using hc

/-! ### read_energy and its helpers, with the generated data in place of the literals -/

/-- header group → loop / field: position looked up in the generated tables (99 = absent, gives 0) -/
def pick (tbl : List (String × Nat)) (g : List Nat) (k : String) : Nat := g.getD ((tbl.lookup k).getD 99) 0

theorem readEnergy_is_source (F : NumFmt Num) (file : List Line) :
    readEnergy F file = (findInfo file).bind fun (h, rest) =>
      let g : List Nat := [h.1, h.2.1, h.2.2.1, h.2.2.2.1, h.2.2.2.2]
      (readVolumes F (pick Readers.loopCounts g "qpoints") (pick Readers.loopCounts g "modes")
          (pick Readers.loopCounts g "volumes") rest).bind fun (vols, rest') =>
        (readWeights F (pick Readers.loopCounts g "weights") (scanWeight rest')).bind fun ws =>
          some { nv := pick Readers.countFields g "nv", nq := pick Readers.countFields g "nq",
                 np := pick Readers.countFields g "np", nm := pick Readers.countFields g "nm",
                 na := pick Readers.countFields g "na", weights := ws, volumes := vols } := by
  unfold readEnergy
  cases findInfo file with
  | none => rfl
  | some p =>
    obtain ⟨⟨nv, nq, np, nm, na⟩, rest⟩ := p
    simp [pick, Readers.loopCounts, Readers.countFields, List.lookup]

/-- `for line in fp: if line.strip() in [...]: break` -/
theorem scanWeight_is_source (l : Line) (ls : List Line) :
    scanWeight (l :: ls) = if Readers.weightSentinels.any (fun w => l = litTokens w) = true then ls else scanWeight ls := by
  have h : Readers.weightSentinels.map litTokens = [["weight"], ["weights"]] := by decide
  simp only [Readers.weightSentinels, List.map_cons, List.map_nil, List.cons.injEq, and_true] at h
  simp only [scanWeight, Readers.weightSentinels, List.any_cons, List.any_nil, Bool.or_false, h.1, h.2]
  by_cases h1 : l = ["weight"] <;> by_cases h2 : l = ["weights"] <;> simp [h1, h2]

theorem readModes_is_source (F : NumFmt Num) (n : Nat) (t : Token) (ls : List Line) :
    readModes F (n + 1) ([t] :: ls) = (convNum F Readers.modeConv t).bind fun x =>
      (readModes F n ls).bind fun (xs, r) => some (x :: xs, r) := by
  simp [readModes, convNum, Readers.modeConv]

theorem readQPoints_is_source (F : NumFmt Num) (np n : Nat) (l : Line) (ls : List Line) :
    readQPoints F np (n + 1) (l :: ls) = (l.mapM (convNum F Readers.coordConv)).bind fun coord =>
      (readModes F np ls).bind fun (modes, r) =>
        (readQPoints F np n r).bind fun (qs, r') => some (⟨coord, modes⟩ :: qs, r') := by
  have : convNum F Readers.coordConv = F.parse := by funext t; simp [convNum, Readers.coordConv]
  rw [this]
  simp [readQPoints]

/-- a volume block: blank lines skipped, the three regex groups converted and stored in the fields the source names -/
theorem readVolumes_is_source (F : NumFmt Num) (nq np n : Nat) (ls : List Line) :
    readVolumes F nq np (n + 1) ls =
      match skipBlank ls with
      | [] => none
      | l :: rest => (matchPVE l).bind fun (a, b, c) =>
          let g : List Token := [a, b, c]
          let fld := fun (k : String) => g.getD ((Readers.pveFields.lookup k).getD 99) ""
          (convNum F Readers.pveConv (fld "pressure")).bind fun p =>
          (convNum F Readers.pveConv (fld "volume")).bind fun v =>
          (convNum F Readers.pveConv (fld "energy")).bind fun e =>
          (readQPoints F np nq rest).bind fun (qs, r) =>
          (readVolumes F nq np n r).bind fun (vs, r') => some (⟨p, v, e, qs⟩ :: vs, r') := by
  conv => lhs; unfold readVolumes
  cases skipBlank ls with
  | nil => rfl
  | cons l rest =>
    simp only []
    cases matchPVE l with
    | none => rfl
    | some t =>
      obtain ⟨a, b, c⟩ := t
      simp [convNum, Readers.pveConv, Readers.pveFields, List.lookup]

/-- a weight line: `words[lo:hi]` is the coordinate, `words[idx]` the weight -/
theorem readWeights_is_source (F : NumFmt Num) (n : Nat) (l : Line) (ls : List Line) :
    readWeights F (n + 1) (l :: ls) = (l[Readers.weightIndex]?).bind fun w =>
      (((l.drop Readers.weightCoordSlice.1).take (Readers.weightCoordSlice.2 - Readers.weightCoordSlice.1)).mapM
          (convNum F Readers.weightCoordConv)).bind fun coord =>
        (convNum F Readers.weightConv w).bind fun w =>
          (readWeights F n ls).bind fun ws => some (⟨coord, w⟩ :: ws) := by
  have : convNum F Readers.weightCoordConv = F.parse := by funext t; simp [convNum, Readers.weightCoordConv]
  rw [this]
  simp [readWeights, Readers.weightIndex, Readers.weightCoordSlice, convNum, Readers.weightConv]

/-! ### write_energy: every printed number through the generated format specification -/

abbrev Spec := String × Nat × Option Nat × Char

def Spec.prec (s : Spec) : Nat := s.2.2.1.getD 0

/-- the words a format list prints for the given values: the words of each literal piece, then the number with the
piece's precision (the width only pads with blanks, which `split()` removes again) -/
def fmtLine (F : NumFmt Num) (specs : List Spec) (xs : List Num) : Line :=
  (specs.zip xs).flatMap fun (s, x) => litTokens s.1 ++ [F.fmt s.prec x]

/-- all number formats are fixed-point `f` with an explicit precision (not `e`, `g`, not a bare `%s`) -/
theorem number_formats_fixed_point :
    ∀ s ∈ Readers.fmtPVE ++ Readers.fmtMode ++ Readers.fmtCoord ++ Readers.fmtWeight, s.2.2.2 = 'f' ∧ s.2.2.1.isSome = true := by
  decide

/-- the counts are printed with `%d`, the header words with `%s` -/
theorem count_formats :
    Readers.fmtCount.map (fun s => (s.1, s.2.2)) = [("", none, 'd')] ∧
    Readers.fmtWord.map (fun s => (s.1, s.2.2)) = [("", none, 's')] := by decide

theorem pveLine_is_source (F : NumFmt Num) (p v e : Num) : pveLine F p v e = fmtLine F Readers.fmtPVE [p, v, e] := by
  have h : Readers.fmtPVE.map (fun s => litTokens s.1) = [["P="], ["V="], ["E="]] := by decide
  simp only [Readers.fmtPVE, List.map_cons, List.map_nil, List.cons.injEq, and_true] at h
  simp [pveLine, fmtLine, Readers.fmtPVE, Spec.prec, h.1, h.2.1, h.2.2]

theorem modeLine_is_source (F : NumFmt Num) (m : Num) : modeLine F m = fmtLine F Readers.fmtMode [m] := by
  have h : Readers.fmtMode.map (fun s => litTokens s.1) = [[]] := by decide
  simp only [Readers.fmtMode, List.map_cons, List.map_nil, List.cons.injEq, and_true] at h
  simp [modeLine, fmtLine, Readers.fmtMode, Spec.prec, h]

theorem coordLine_is_source (F : NumFmt Num) (c : List Num) :
    coordLine F c = c.flatMap fun x => fmtLine F Readers.fmtCoord [x] := by
  have h : Readers.fmtCoord.map (fun s => litTokens s.1) = [[]] := by decide
  simp only [Readers.fmtCoord, List.map_cons, List.map_nil, List.cons.injEq, and_true] at h
  have hx : ∀ x, fmtLine F Readers.fmtCoord [x] = [F.fmt 4 x] := by
    intro x; simp [fmtLine, Readers.fmtCoord, Spec.prec, h]
  simp only [coordLine, hx]
  induction c with
  | nil => rfl
  | cons x c ih => simp [List.flatMap_cons, ih]

/-- `"%… %… %… %…" % (*coords, weight)`: as many values as specifications, else TypeError -/
theorem weightLine_is_source (F : NumFmt Num) (w : QPointWeight Num) :
    weightLine F w = if w.coord.length + 1 = Readers.fmtWeight.length
      then some (fmtLine F Readers.fmtWeight (w.coord ++ [w.weight])) else none := by
  have h : Readers.fmtWeight.map (fun s => litTokens s.1) = [[], [], [], []] := by decide
  simp only [Readers.fmtWeight, List.map_cons, List.map_nil, List.cons.injEq, and_true] at h
  unfold weightLine
  match hc : w.coord with
  | [a, b, c] => simp [fmtLine, Readers.fmtWeight, Spec.prec, h.1, h.2.1, h.2.2.1, h.2.2.2]
  | [] => simp [Readers.fmtWeight]
  | [_] => simp [Readers.fmtWeight]
  | [_, _] => simp [Readers.fmtWeight]
  | _ :: _ :: _ :: _ :: _ => simp [Readers.fmtWeight]

/-- the header words, the marker line and the default comment, as words -/
theorem header_words_is_source :
    (headerNames : Line) = Readers.headerWords ∧ (["weight"] : Line) = litTokens Readers.markerLine ∧
    (["QHA", "Input", "data"] : Line) = litTokens Readers.defaultComment := by decide

/-- the marker the writer prints opens the weight section for the reader -/
theorem marker_is_sentinel : Readers.markerLine ∈ Readers.weightSentinels := by decide

theorem writeEnergy_is_source (F : NumFmt Num) (d : Data Num) (comment : Line) :
    writeEnergy F d comment = (d.weights.mapM (weightLine F)).bind fun ws =>
      some ([comment, [], Readers.headerWords, infoLine d, []] ++ d.volumes.flatMap (volumeLines F)
        ++ [[], litTokens Readers.markerLine] ++ ws) := by
  rw [← header_words_is_source.1, ← header_words_is_source.2.1]
  unfold writeEnergy
  cases d.weights.mapM (weightLine F) <;> rfl

/-! #### what survives the file, in terms of the generated precisions -/

def precAt (specs : List Spec) (i : Nat) : Nat := (specs.getD i ("", 0, none, ' ')).prec

def roundQPointS (F : NumFmt Num) (q : QPointData Num) : QPointData Num :=
  ⟨q.coord.map (F.round (precAt Readers.fmtCoord 0)), q.modes.map (F.round (precAt Readers.fmtMode 0))⟩

def roundVolumeS (F : NumFmt Num) (v : VolumeData Num) : VolumeData Num :=
  ⟨F.round (precAt Readers.fmtPVE 0) v.pressure, F.round (precAt Readers.fmtPVE 1) v.volume,
   F.round (precAt Readers.fmtPVE 2) v.energy, v.qPoints.map (roundQPointS F)⟩

def roundWeightS (F : NumFmt Num) (w : QPointWeight Num) : QPointWeight Num :=
  ⟨w.coord.map (F.round (precAt Readers.fmtWeight 0)), F.round (precAt Readers.fmtWeight 3) w.weight⟩

/-- the data set rounded to the precisions the source's format strings specify now -/
def roundAllS (F : NumFmt Num) (d : Data Num) : Data Num :=
  { d with weights := d.weights.map (roundWeightS F), volumes := d.volumes.map (roundVolumeS F) }

/-- the three coordinates of a weight line share one precision (the model rounds them alike) -/
theorem weight_coord_precisions_uniform :
    precAt Readers.fmtWeight 1 = precAt Readers.fmtWeight 0 ∧ precAt Readers.fmtWeight 2 = precAt Readers.fmtWeight 0 := by
  decide

theorem roundAll_is_source (F : NumFmt Num) (d : Data Num) : roundAll F d = roundAllS F d := by
  have h : precAt Readers.fmtCoord 0 = 4 ∧ precAt Readers.fmtMode 0 = 6 ∧ precAt Readers.fmtPVE 0 = 6 ∧
      precAt Readers.fmtPVE 1 = 6 ∧ precAt Readers.fmtPVE 2 = 6 ∧ precAt Readers.fmtWeight 0 = 6 ∧
      precAt Readers.fmtWeight 3 = 6 := by decide
  obtain ⟨h1, h2, h3, h4, h5, h6, h7⟩ := h
  have hq : roundQPointS F = roundQPoint F := by funext q; simp [roundQPointS, roundQPoint, h1, h2]
  have hv : roundVolumeS F = roundVolume F := by funext v; simp [roundVolumeS, roundVolume, h3, h4, h5, hq]
  have hw : roundWeightS F = roundWeight F := by funext w; simp [roundWeightS, roundWeight, h6, h7]
  simp [roundAll, roundAllS, hv, hw]

/-! ### read_elast_data / apply_symetry_on_elast_data -/

def hdrConv (k : String) : String := ((Readers.headerFields.lookup k).getD ("", 99)).1
def hdrIdx (k : String) : Nat := ((Readers.headerFields.lookup k).getD ("", 99)).2

theorem readElastData_is_source (F : NumFmt Num) (l1 l2 l3 : Line) (rest : List Line) :
    readElastData F (l1 :: l2 :: l3 :: rest) =
      ((l2[hdrIdx "vref"]?).bind (convNum F (hdrConv "vref"))).bind fun vref =>
      ((l2[hdrIdx "nv"]?).bind (convInt (hdrConv "nv"))).bind fun nv =>
      ((l2[hdrIdx "cellmass"]?).bind (convNum F (hdrConv "cellmass"))).bind fun cellmass =>
      (l3.mapM findModulusKey).bind fun keys =>
      (readRows F keys nv.toNat rest).bind fun (vols, rest') =>
      (if rest'.headD [] ≠ [] then readLattice F nv.toNat rest'.tail else some []).bind fun lattice =>
        some { vref, nv, cellmass, volumes := vols, lattice } := by
  have h1 : convNum F (hdrConv "vref") = F.parse := by funext t; simp [convNum, hdrConv, Readers.headerFields, List.lookup]
  have h2 : convNum F (hdrConv "cellmass") = F.parse := by funext t; simp [convNum, hdrConv, Readers.headerFields, List.lookup]
  have h3 : convInt (hdrConv "nv") = Lex.parseInt := by funext t; simp [convInt, hdrConv, Readers.headerFields, List.lookup]
  have i1 : hdrIdx "vref" = 0 := by decide
  have i2 : hdrIdx "nv" = 1 := by decide
  have i3 : hdrIdx "cellmass" = 2 := by decide
  rw [h1, h2, h3, i1, i2, i3]
  simp only [readElastData, Option.bind_eq_bind, Option.pure_def]
  congr 1; funext vref; congr 1; funext nv; congr 1; funext cellmass; congr 1; funext keys; congr 1; funext x
  split <;> rfl

/-- a table row: all words through the generated conversion, `fields[i]` the volume, `zip(keys[a:], fields[b:])` the components -/
theorem readRows_is_source (F : NumFmt Num) (keys : List Key) (n : Nat) (ls : List Line) :
    readRows F keys (n + 1) ls = ((ls.headD []).mapM (convNum F Readers.rowConv)).bind fun fields =>
      (fields[Readers.rowVolumeIndex]?).bind fun v =>
        (readRows F keys n ls.tail).bind fun (vs, r) =>
          some (⟨v, dictOfZip (keys.drop Readers.rowKeySlice) (fields.drop Readers.rowValueSlice)⟩ :: vs, r) := by
  have : convNum F Readers.rowConv = F.parse := by funext t; simp [convNum, Readers.rowConv]
  rw [this]
  simp [readRows, Readers.rowVolumeIndex, Readers.rowKeySlice, Readers.rowValueSlice, List.head?_eq_getElem?]

theorem readLattice_is_source (F : NumFmt Num) (n : Nat) (ls : List Line) :
    readLattice F (n + 1) ls = ((ls.headD []).mapM (convNum F Readers.latticeConv)).bind fun fields =>
      (readLattice F n ls.tail).bind fun rest => some (fields :: rest) := by
  have : convNum F Readers.latticeConv = F.parse := by funext t; simp [convNum, Readers.latticeConv]
  rw [this]
  simp [readLattice]

/-- `"c%s%s" % key.v` -/
theorem canonName_is_source (m : Modulus) :
    canonName (.mod m) = m.voigt.map fun (a, b) =>
      Readers.columnLiterals.getD 0 "?" ++ toString a ++ Readers.columnLiterals.getD 1 "?" ++ toString b := by
  simp [canonName, Readers.columnLiterals]

/-- `c_(key[n:])` on the way back -/
theorem keyOfName_is_source (t : Token) :
    keyOfName t = (Modulus.create [.str (String.ofList (t.toList.drop Readers.backSlice))]).map Key.mod := rfl

/-- `fill_cij(df, **symmetry)`: the frame and the caller's dictionary as it is (no key removed, none renamed) —
the model's `fill` parameter is one function of the table for the whole call -/
theorem fill_call_is_source : Readers.fillPositional = 1 ∧ Readers.fillKeywords = ["**<symmetry>"] := by decide

/-! ### package glue -/

/-- `cij.io.traditional.read_energy` / `.read_elast_data` are the functions of the sub-modules themselves, imported under
their own names (`__init__.py` holds imports and `__all__` only: the translator refuses anything else) -/
theorem readers_reexported_directly :
    ("read_energy", "qha_input", "read_energy") ∈ Readers.packageImports ∧
    ("read_elast_data", "elast_dat", "read_elast_data") ∈ Readers.packageImports ∧
    (∀ e ∈ Readers.packageImports, e.1 = e.2.2) ∧ (∀ e ∈ Readers.modelsImports, e.1 = e.2.2) ∧
    Readers.readerCallSites.length = 7 := by decide

end Cij.ReadersSource
