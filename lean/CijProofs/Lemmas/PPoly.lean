/-
  Lemmas about `CijModel/PPoly.lean` (scipy's PchipInterpolator / Akima1DInterpolator as cubic Hermite pieces):
  piece location, the Hermite piece at its two ends, derivatives of a piece, the glued function, PCHIP's slope bounds,
  both slope rules on affine data.  Consumed by `CijProofs/Properties/C11.lean`.
-/
import CijModel.PPoly
import CijProofs.Lemmas.Interp
import Mathlib.Tactic.Ring
import Mathlib.Tactic.Linarith
import Mathlib.Tactic.FieldSimp
import Mathlib.Tactic.Positivity
import Mathlib.Algebra.Order.Field.Basic
import Mathlib.Analysis.Calculus.Deriv.Mul
import Mathlib.Analysis.Calculus.Deriv.Add
import Mathlib.Analysis.Calculus.Deriv.Pow
import Mathlib.Analysis.Calculus.Deriv.MeanValue
import Mathlib.Order.Monotone.Union

set_option linter.unusedSectionVars false

namespace Cij.PPoly
open Cij.Interp

/-! ### indexing a strictly increasing node list -/
section Order
variable {K : Type} [Field K] [LinearOrder K] [IsStrictOrderedRing K]

theorem getD_lt_of_pairwise (xs : List K) (h : xs.Pairwise (· < ·)) (i j : ℕ) (hij : i < j) (hj : j < xs.length) :
    xs.getD i 0 < xs.getD j 0 := by
  have hi : i < xs.length := lt_trans hij hj
  simp only [List.getD_eq_getElem?_getD, List.getElem?_eq_getElem hi, List.getElem?_eq_getElem hj, Option.getD_some]
  exact List.pairwise_iff_getElem.mp h i j hi hj hij

theorem getD_le_of_pairwise (xs : List K) (h : xs.Pairwise (· < ·)) (i j : ℕ) (hij : i ≤ j) (hj : j < xs.length) :
    xs.getD i 0 ≤ xs.getD j 0 := by
  rcases Nat.eq_or_lt_of_le hij with rfl | hlt
  · exact le_rfl
  · exact (getD_lt_of_pairwise xs h i j hlt hj).le

theorem head?_eq_getD (xs : List K) (h : 0 < xs.length) : xs.head? = some (xs.getD 0 0) := by
  cases xs with
  | nil => simp at h
  | cons a l => simp

theorem getLast?_eq_getD (xs : List K) (h : 0 < xs.length) : xs.getLast? = some (xs.getD (xs.length - 1) 0) := by
  rw [List.getLast?_eq_getElem?]
  simp [List.getD_eq_getElem?_getD, List.getElem?_eq_getElem (show xs.length - 1 < xs.length by omega)]

/-- `locateIn` returns the piece `i` with `x_i ≤ q < x_{i+1}` (no lower bound needed for `i = 0`) -/
theorem locateIn_eq (xs : List K) (h : xs.Pairwise (· < ·)) (q : K) (i : ℕ) (hi : i + 1 < xs.length)
    (hlo : i = 0 ∨ xs.getD i 0 ≤ q) (hhi : q < xs.getD (i + 1) 0) : locateIn xs q = i := by
  induction xs generalizing i with
  | nil => simp at hi
  | cons a l ih =>
    cases l with
    | nil => simp at hi
    | cons b rest =>
      have hp : (b :: rest).Pairwise (· < ·) := (List.pairwise_cons.mp h).2
      unfold locateIn
      by_cases hb : b ≤ q
      · rw [if_pos hb]
        cases i with
        | zero => simp at hhi; exact absurd hb (not_le.mpr hhi)
        | succ i' =>
          rw [ih hp i' (by simpa using hi) ?_ (by simpa using hhi)]
          rcases hlo with h0 | hlo
          · cases h0
          · rcases Nat.eq_zero_or_pos i' with rfl | hpos
            · exact Or.inl rfl
            · exact Or.inr (by simpa using hlo)
      · rw [if_neg hb]
        rcases Nat.eq_zero_or_pos i with rfl | hpos
        · rfl
        · exfalso
          rcases hlo with h0 | hlo
          · omega
          · have h1 : (a :: b :: rest).getD 1 0 ≤ (a :: b :: rest).getD i 0 :=
              getD_le_of_pairwise _ h 1 i hpos (by omega)
            simp only [List.getD_cons_succ, List.getD_cons_zero] at h1
            exact hb (h1.trans hlo)

/-- **piece location.**  On strictly increasing nodes (`n ≥ 2`) a query in the region of piece `i` — `x_i ≤ q < x_{i+1}`, where the
first piece also takes everything to the left and the last piece everything to the right (and `x_{n-1}` itself) — is assigned to piece `i`. -/
theorem locate_eq (xs : List K) (h : xs.Pairwise (· < ·)) (q : K) (i : ℕ) (hi : i + 2 ≤ xs.length)
    (hlo : i = 0 ∨ xs.getD i 0 ≤ q) (hhi : i + 2 = xs.length ∨ q < xs.getD (i + 1) 0) : locate xs q = some i := by
  unfold locate
  rw [head?_eq_getD xs (by omega), getLast?_eq_getD xs (by omega)]
  simp only
  by_cases h0 : q < xs.getD 0 0
  · rw [if_pos h0]
    rcases hlo with rfl | hlo
    · rfl
    · rcases Nat.eq_zero_or_pos i with rfl | hpos
      · rfl
      · exact absurd (lt_of_lt_of_le (getD_lt_of_pairwise xs h 0 i hpos (by omega)) hlo) (not_lt.mpr h0.le)
  · rw [if_neg h0]
    by_cases h1 : xs.getD (xs.length - 1) 0 ≤ q
    · rw [if_pos h1]
      rcases hhi with hn | hhi
      · congr 1; omega
      · rcases Nat.lt_or_ge (i + 2) xs.length with hlt | hge
        · exact absurd (lt_of_lt_of_le (getD_lt_of_pairwise xs h (i + 1) (xs.length - 1) (by omega) (by omega)) h1)
            (not_lt.mpr hhi.le)
        · congr 1; omega
    · rw [if_neg h1, if_pos (not_lt.mp h0)]
      congr 1
      refine locateIn_eq xs h q i (by omega) hlo ?_
      rcases hhi with hn | hhi
      · have : i + 1 = xs.length - 1 := by omega
        rw [this]; exact not_le.mp h1
      · exact hhi

/-- on a linear order `locate` always answers (the `none` branch is the NaN query of the float instance) and the answer is a valid piece -/
theorem locate_isSome (xs : List K) (h : xs.Pairwise (· < ·)) (hn : 2 ≤ xs.length) (q : K) :
    ∃ i, locate xs q = some i ∧ i + 2 ≤ xs.length := by
  by_cases h0 : q < xs.getD 1 0
  · exact ⟨0, locate_eq xs h q 0 hn (Or.inl rfl) (Or.inr h0), hn⟩
  · -- the last breakpoint `x_j ≤ q` with `1 ≤ j ≤ n - 2`, found by induction on the number of pieces
    have key : ∀ k, k + 2 ≤ xs.length → xs.getD k 0 ≤ q → ∃ i, locate xs q = some i ∧ i + 2 ≤ xs.length := by
      intro k
      induction hm : xs.length - (k + 2) generalizing k with
      | zero =>
        intro hk hq
        exact ⟨k, locate_eq xs h q k hk (Or.inr hq) (Or.inl (by omega)), hk⟩
      | succ m ih =>
        intro hk hq
        by_cases hq' : q < xs.getD (k + 1) 0
        · exact ⟨k, locate_eq xs h q k hk (Or.inr hq) (Or.inr hq'), hk⟩
        · exact ih (k + 1) (by omega) (by omega) (not_lt.mp hq')
    rcases Nat.lt_or_ge 2 xs.length with h3 | h2
    · exact key 1 (by omega) (not_lt.mp h0)
    · exact ⟨0, locate_eq xs h q 0 hn (Or.inl rfl) (Or.inl (by omega)), hn⟩

theorem increasing_iff (xs : List K) : increasing xs = true ↔ xs.Pairwise (· < ·) := by
  induction xs with
  | nil => simp [increasing]
  | cons a l ih =>
    cases l with
    | nil => simp [increasing]
    | cons b rest =>
      unfold increasing
      rw [Bool.and_eq_true, decide_eq_true_eq, ih, List.pairwise_cons (a := a)]
      constructor
      · rintro ⟨hab, hp⟩
        refine ⟨fun c hc => ?_, hp⟩
        rcases List.mem_cons.mp hc with rfl | hc
        · exact hab
        · exact lt_trans hab ((List.pairwise_cons.mp hp).1 c hc)
      · rintro ⟨ha, hp⟩
        exact ⟨ha b (by simp), hp⟩

theorem isFinite_true (x : K) : isFinite x = true := by simp [isFinite]

/-- over an ordered field the constructor accepts exactly: at least two nodes, as many values, strictly increasing abscissae -/
theorem validNodes_iff (xs ys : List K) :
    validNodes xs ys = true ↔ 2 ≤ xs.length ∧ xs.length = ys.length ∧ xs.Pairwise (· < ·) := by
  unfold validNodes
  simp only [Bool.and_eq_true, decide_eq_true_eq, beq_iff_eq, List.all_eq_true, isFinite_true, implies_true, and_true,
    increasing_iff]
  tauto

end Order

/-! ### one Hermite piece -/
section PieceAlgebra
variable {K : Type} [Field K]

theorem two_eq : (two : K) = 2 := by simp [two]
theorem three_eq : (three : K) = 3 := by simp [three]
theorem six_eq : (six : K) = 6 := by simp [six]

/-- value at the left node -/
theorem hermite_eval0_left (x0 x1 y0 y1 d0 d1 : K) : (hermiteCoeffs x0 x1 y0 y1 d0 d1).eval 0 x0 = y0 := by
  simp [hermiteCoeffs, Piece.eval]

/-- slope at the left node -/
theorem hermite_eval1_left (x0 x1 y0 y1 d0 d1 : K) : (hermiteCoeffs x0 x1 y0 y1 d0 d1).eval 1 x0 = d0 := by
  simp [hermiteCoeffs, Piece.eval]

/-- value at the right node -/
theorem hermite_eval0_right (x0 x1 y0 y1 d0 d1 : K) (h : x0 ≠ x1) : (hermiteCoeffs x0 x1 y0 y1 d0 d1).eval 0 x1 = y1 := by
  have hd : x1 - x0 ≠ 0 := sub_ne_zero.mpr h.symm
  simp only [hermiteCoeffs, Piece.eval, two_eq]
  field_simp
  ring

/-- slope at the right node -/
theorem hermite_eval1_right (x0 x1 y0 y1 d0 d1 : K) (h : x0 ≠ x1) : (hermiteCoeffs x0 x1 y0 y1 d0 d1).eval 1 x1 = d1 := by
  have hd : x1 - x0 ≠ 0 := sub_ne_zero.mpr h.symm
  simp only [hermiteCoeffs, Piece.eval, two_eq, three_eq]
  field_simp
  ring

/-- a piece whose end slopes both equal the secant of affine end values is that affine function, with derivative the slope and
second derivative zero -/
theorem hermite_affine (x0 x1 a b q : K) (h : x0 ≠ x1) :
    (hermiteCoeffs x0 x1 (a * x0 + b) (a * x1 + b) a a).eval 0 q = a * q + b ∧
      (hermiteCoeffs x0 x1 (a * x0 + b) (a * x1 + b) a a).eval 1 q = a ∧
      (hermiteCoeffs x0 x1 (a * x0 + b) (a * x1 + b) a a).eval 2 q = 0 := by
  have hd : x1 - x0 ≠ 0 := sub_ne_zero.mpr h.symm
  have hs : (a * x1 + b - (a * x0 + b)) / (x1 - x0) = a := by field_simp; ring
  simp only [hermiteCoeffs, Piece.eval, two_eq, three_eq, six_eq, hs]
  refine ⟨?_, ?_, ?_⟩ <;> ring

end PieceAlgebra

/-! ### calculus of one piece and of the glued function (ℝ) -/
section Calculus

/-- `nu = 1` is the derivative of `nu = 0`, `nu = 2` of `nu = 1` (and `nu = 3` of `nu = 2`) for a single cubic piece, everywhere -/
theorem Piece.hasDerivAt (p : Piece ℝ) (x : ℝ) :
    HasDerivAt (p.eval 0) (p.eval 1 x) x ∧ HasDerivAt (p.eval 1) (p.eval 2 x) x ∧ HasDerivAt (p.eval 2) (p.eval 3 x) x := by
  have hs : HasDerivAt (fun x : ℝ => x - p.x0) 1 x := (hasDerivAt_id x).sub_const _
  have hs2 : HasDerivAt (fun x : ℝ => (x - p.x0) * (x - p.x0)) (1 * (x - p.x0) + (x - p.x0) * 1) x := hs.mul hs
  have hs3 : HasDerivAt (fun x : ℝ => (x - p.x0) * (x - p.x0) * (x - p.x0))
      ((1 * (x - p.x0) + (x - p.x0) * 1) * (x - p.x0) + (x - p.x0) * (x - p.x0) * 1) x := hs2.mul hs
  refine ⟨?_, ?_, ?_⟩
  · have h := (((hs.const_mul p.c2).const_add p.c3).add (hs2.const_mul p.c1)).add (hs3.const_mul p.c0)
    have h' : HasDerivAt (p.eval 0) _ x := h
    refine h'.congr_deriv ?_
    simp only [Piece.eval, two_eq, three_eq]; ring
  · have h := (((hs.const_mul p.c1).mul_const (two : ℝ)).const_add p.c2).add ((hs2.const_mul p.c0).mul_const (three : ℝ))
    have h' : HasDerivAt (p.eval 1) _ x := h
    refine h'.congr_deriv ?_
    simp only [Piece.eval, two_eq, three_eq, six_eq]; ring
  · have h := ((hs.const_mul p.c0).mul_const (six : ℝ)).const_add (p.c1 * two)
    have h' : HasDerivAt (p.eval 2) _ x := h
    refine h'.congr_deriv ?_
    simp only [Piece.eval, six_eq]; ring

/-- the function scipy's object computes for derivative order `nu` (`interp(q, nu, extrapolate=True)`); `getD 0` is never used on
valid nodes (`evalAt_eq_spline`) -/
noncomputable def spline (xs ys ds : List ℝ) (nu : ℕ) (q : ℝ) : ℝ := (evalAt xs ys ds nu q).getD 0

theorem evalAt_of_locate {α : Type} [Add α] [Sub α] [Mul α] [Div α] [Neg α] [Zero α] [One α] [NatCast α] [LT α] [DecidableLT α]
    [LE α] [DecidableLE α] (xs ys ds : List α) (nu : ℕ) (q : α) (i : ℕ) (h : locate xs q = some i) :
    evalAt xs ys ds nu q = some ((pieceAt xs ys ds i).eval nu q) := by
  simp [evalAt, h]

theorem evalAt_eq_spline (xs ys ds : List ℝ) (h : xs.Pairwise (· < ·)) (hn : 2 ≤ xs.length) (nu : ℕ) (q : ℝ) :
    evalAt xs ys ds nu q = some (spline xs ys ds nu q) := by
  obtain ⟨i, hi, _⟩ := locate_isSome xs h hn q
  simp [spline, evalAt_of_locate xs ys ds nu q i hi]

/-- in the region of piece `i` the glued function is that piece -/
theorem spline_eq_piece (xs ys ds : List ℝ) (h : xs.Pairwise (· < ·)) (nu : ℕ) (q : ℝ) (i : ℕ) (hi : i + 2 ≤ xs.length)
    (hlo : i = 0 ∨ xs.getD i 0 ≤ q) (hhi : i + 2 = xs.length ∨ q < xs.getD (i + 1) 0) :
    spline xs ys ds nu q = (pieceAt xs ys ds i).eval nu q := by
  simp [spline, evalAt_of_locate xs ys ds nu q i (locate_eq xs h q i hi hlo hhi)]

/-- strictly inside the region of piece `i` (for the first/last piece: including the whole extrapolated side and the end node)
the glued function coincides with the piece on a neighbourhood -/
theorem spline_eventuallyEq (xs ys ds : List ℝ) (h : xs.Pairwise (· < ·)) (nu : ℕ) (q : ℝ) (i : ℕ) (hi : i + 2 ≤ xs.length)
    (hlo : i = 0 ∨ xs.getD i 0 < q) (hhi : i + 2 = xs.length ∨ q < xs.getD (i + 1) 0) :
    spline xs ys ds nu =ᶠ[nhds q] (pieceAt xs ys ds i).eval nu := by
  have h1 : ∀ᶠ y in nhds q, i = 0 ∨ xs.getD i 0 ≤ y := by
    rcases hlo with h0 | hlt
    · exact Filter.Eventually.of_forall fun _ => Or.inl h0
    · exact (lt_mem_nhds hlt).mono fun y hy => Or.inr hy.le
  have h2 : ∀ᶠ y in nhds q, i + 2 = xs.length ∨ y < xs.getD (i + 1) 0 := by
    rcases hhi with h0 | hlt
    · exact Filter.Eventually.of_forall fun _ => Or.inl h0
    · exact (gt_mem_nhds hlt).mono fun y hy => Or.inr hy
  exact (h1.and h2).mono fun y hy => spline_eq_piece xs ys ds h nu y i hi hy.1 hy.2

/-- **derivatives away from interior nodes.**  At every point strictly inside a piece, in both extrapolated regions and at the two
end nodes, the `nu = 1` evaluation is the derivative of the `nu = 0` evaluation and the `nu = 2` evaluation the derivative of the
`nu = 1` evaluation. -/
theorem spline_hasDerivAt (xs ys ds : List ℝ) (h : xs.Pairwise (· < ·)) (q : ℝ) (i : ℕ) (hi : i + 2 ≤ xs.length)
    (hlo : i = 0 ∨ xs.getD i 0 < q) (hhi : i + 2 = xs.length ∨ q < xs.getD (i + 1) 0) :
    HasDerivAt (spline xs ys ds 0) (spline xs ys ds 1 q) q ∧ HasDerivAt (spline xs ys ds 1) (spline xs ys ds 2 q) q := by
  have hlo' : i = 0 ∨ xs.getD i 0 ≤ q := hlo.imp id le_of_lt
  rw [spline_eq_piece xs ys ds h 1 q i hi hlo' hhi, spline_eq_piece xs ys ds h 2 q i hi hlo' hhi]
  obtain ⟨d0, d1, _⟩ := Piece.hasDerivAt (pieceAt xs ys ds i) q
  exact ⟨d0.congr_of_eventuallyEq (spline_eventuallyEq xs ys ds h 0 q i hi hlo hhi),
    d1.congr_of_eventuallyEq (spline_eventuallyEq xs ys ds h 1 q i hi hlo hhi)⟩

/-- the piece on `[x_i, x_{i+1}]` spelled out -/
theorem pieceAt_def {α : Type} [Add α] [Sub α] [Mul α] [Div α] [Neg α] [Zero α] [One α] [NatCast α] (xs ys ds : List α) (i : ℕ) :
    pieceAt xs ys ds i = hermiteCoeffs (xs.getD i 0) (xs.getD (i + 1) 0) (ys.getD i 0) (ys.getD (i + 1) 0) (ds.getD i 0)
      (ds.getD (i + 1) 0) := rfl

/-- value and slope of piece `j` at its right node `x_{j+1}` -/
theorem pieceAt_right {K : Type} [Field K] [LinearOrder K] [IsStrictOrderedRing K] (xs ys ds : List K) (h : xs.Pairwise (· < ·))
    (j : ℕ) (hj : j + 2 ≤ xs.length) :
    (pieceAt xs ys ds j).eval 0 (xs.getD (j + 1) 0) = ys.getD (j + 1) 0 ∧
      (pieceAt xs ys ds j).eval 1 (xs.getD (j + 1) 0) = ds.getD (j + 1) 0 := by
  have hne : xs.getD j 0 ≠ xs.getD (j + 1) 0 := (getD_lt_of_pairwise xs h j (j + 1) (by omega) (by omega)).ne
  exact ⟨hermite_eval0_right _ _ _ _ _ _ hne, hermite_eval1_right _ _ _ _ _ _ hne⟩

/-- value and slope of piece `i` at its left node `x_i` -/
theorem pieceAt_left {K : Type} [Field K] (xs ys ds : List K) (i : ℕ) :
    (pieceAt xs ys ds i).eval 0 (xs.getD i 0) = ys.getD i 0 ∧ (pieceAt xs ys ds i).eval 1 (xs.getD i 0) = ds.getD i 0 :=
  ⟨hermite_eval0_left _ _ _ _ _ _, hermite_eval1_left _ _ _ _ _ _⟩

/-- **at every node** the glued function takes the node value and its `nu = 1` evaluation is the node slope `dydx[i]` -/
theorem spline_node (xs ys ds : List ℝ) (h : xs.Pairwise (· < ·)) (i : ℕ) (hi : i < xs.length) (hn : 2 ≤ xs.length) :
    spline xs ys ds 0 (xs.getD i 0) = ys.getD i 0 ∧ spline xs ys ds 1 (xs.getD i 0) = ds.getD i 0 := by
  rcases Nat.lt_or_ge (i + 1) xs.length with h1 | h1
  · have hq := getD_lt_of_pairwise xs h i (i + 1) (by omega) h1
    rw [spline_eq_piece xs ys ds h 0 _ i (by omega) (Or.inr le_rfl) (Or.inr hq),
      spline_eq_piece xs ys ds h 1 _ i (by omega) (Or.inr le_rfl) (Or.inr hq)]
    exact pieceAt_left xs ys ds i
  · obtain ⟨j, rfl⟩ : ∃ j, i = j + 1 := ⟨i - 1, by omega⟩
    have hq := getD_lt_of_pairwise xs h j (j + 1) (by omega) hi
    rw [spline_eq_piece xs ys ds h 0 _ j (by omega) (Or.inr hq.le) (Or.inl (by omega)),
      spline_eq_piece xs ys ds h 1 _ j (by omega) (Or.inr hq.le) (Or.inl (by omega))]
    exact pieceAt_right xs ys ds h j (by omega)

/-- on the closed region of piece `j` up to AND INCLUDING its right node, value and first derivative of the glued function are the
piece's (at the node itself scipy evaluates the next piece; both pieces agree there in value and slope) -/
theorem spline_eq_left_piece (xs ys ds : List ℝ) (h : xs.Pairwise (· < ·)) (j : ℕ) (hj : j + 2 ≤ xs.length) (y : ℝ)
    (hlo : j = 0 ∨ xs.getD j 0 ≤ y) (hhi : y ≤ xs.getD (j + 1) 0) :
    spline xs ys ds 0 y = (pieceAt xs ys ds j).eval 0 y ∧ spline xs ys ds 1 y = (pieceAt xs ys ds j).eval 1 y := by
  rcases lt_or_eq_of_le hhi with hlt | rfl
  · exact ⟨spline_eq_piece xs ys ds h 0 y j hj hlo (Or.inr hlt), spline_eq_piece xs ys ds h 1 y j hj hlo (Or.inr hlt)⟩
  · have hn := spline_node xs ys ds h (j + 1) (by omega) (by omega)
    have hp := pieceAt_right xs ys ds h j hj
    exact ⟨hn.1.trans hp.1.symm, hn.2.trans hp.2.symm⟩

/-- **C¹ at an interior node** `x_{j+1}` (`j + 3 ≤ n`): the pieces on both sides have the node value and the node slope there, the glued
`nu = 0` function is differentiable AT the node with derivative the node slope `dydx[j+1]` (= its `nu = 1` evaluation there), and the
`nu = 1` function is continuous at the node. -/
theorem spline_C1_at_node (xs ys ds : List ℝ) (h : xs.Pairwise (· < ·)) (j : ℕ) (hj : j + 3 ≤ xs.length) :
    (pieceAt xs ys ds j).eval 1 (xs.getD (j + 1) 0) = ds.getD (j + 1) 0 ∧
      (pieceAt xs ys ds (j + 1)).eval 1 (xs.getD (j + 1) 0) = ds.getD (j + 1) 0 ∧
      HasDerivAt (spline xs ys ds 0) (ds.getD (j + 1) 0) (xs.getD (j + 1) 0) ∧
      ContinuousAt (spline xs ys ds 1) (xs.getD (j + 1) 0) := by
  set a := xs.getD (j + 1) 0 with ha
  have hL := pieceAt_right xs ys ds h j (by omega)
  have hR := pieceAt_left xs ys ds (j + 1)
  have hja : xs.getD j 0 < a := getD_lt_of_pairwise xs h j (j + 1) (by omega) (by omega)
  have haj : a < xs.getD (j + 2) 0 := getD_lt_of_pairwise xs h (j + 1) (j + 2) (by omega) (by omega)
  -- left of (and at) the node: piece j
  have evL : ∀ᶠ y in nhdsWithin a (Set.Iic a),
      spline xs ys ds 0 y = (pieceAt xs ys ds j).eval 0 y ∧ spline xs ys ds 1 y = (pieceAt xs ys ds j).eval 1 y := by
    have h1 : ∀ᶠ y in nhdsWithin a (Set.Iic a), xs.getD j 0 ≤ y :=
      ((lt_mem_nhds hja).mono fun y hy => hy.le).filter_mono nhdsWithin_le_nhds
    filter_upwards [h1, self_mem_nhdsWithin] with y hy hya
    exact spline_eq_left_piece xs ys ds h j (by omega) y (Or.inr hy) hya
  -- right of (and at) the node: piece j+1
  have evR : ∀ᶠ y in nhdsWithin a (Set.Ici a),
      spline xs ys ds 0 y = (pieceAt xs ys ds (j + 1)).eval 0 y ∧ spline xs ys ds 1 y = (pieceAt xs ys ds (j + 1)).eval 1 y := by
    have h1 : ∀ᶠ y in nhdsWithin a (Set.Ici a), y < xs.getD (j + 2) 0 :=
      (gt_mem_nhds haj).filter_mono nhdsWithin_le_nhds
    filter_upwards [h1, self_mem_nhdsWithin] with y hy hya
    exact ⟨spline_eq_piece xs ys ds h 0 y (j + 1) (by omega) (Or.inr hya) (Or.inr hy),
      spline_eq_piece xs ys ds h 1 y (j + 1) (by omega) (Or.inr hya) (Or.inr hy)⟩
  have hnode := spline_node xs ys ds h (j + 1) (by omega) (by omega)
  rw [← ha] at hnode hL hR
  refine ⟨hL.2, hR.2, ?_, ?_⟩
  · have dL : HasDerivWithinAt (spline xs ys ds 0) (ds.getD (j + 1) 0) (Set.Iic a) a := by
      have := (Piece.hasDerivAt (pieceAt xs ys ds j) a).1.hasDerivWithinAt (s := Set.Iic a)
      rw [hL.2] at this
      exact this.congr_of_eventuallyEq (evL.mono fun y hy => hy.1) (hnode.1.trans hL.1.symm)
    have dR : HasDerivWithinAt (spline xs ys ds 0) (ds.getD (j + 1) 0) (Set.Ici a) a := by
      have := (Piece.hasDerivAt (pieceAt xs ys ds (j + 1)) a).1.hasDerivWithinAt (s := Set.Ici a)
      rw [hR.2] at this
      exact this.congr_of_eventuallyEq (evR.mono fun y hy => hy.1) (hnode.1.trans hR.1.symm)
    have := dL.union dR
    rwa [Set.Iic_union_Ici, hasDerivWithinAt_univ] at this
  · rw [continuousAt_iff_continuous_left_right]
    constructor
    · have := (Piece.hasDerivAt (pieceAt xs ys ds j) a).2.1.continuousAt.continuousWithinAt (s := Set.Iic a)
      exact this.congr_of_eventuallyEq (evL.mono fun y hy => hy.2) (hnode.2.trans hL.2.symm)
    · have := (Piece.hasDerivAt (pieceAt xs ys ds (j + 1)) a).2.1.continuousAt.continuousWithinAt (s := Set.Ici a)
      exact this.congr_of_eventuallyEq (evR.mono fun y hy => hy.2) (hnode.2.trans hR.2.symm)

/-- the `nu = 1` evaluation is the derivative of the `nu = 0` evaluation at EVERY point (nodes included) -/
theorem spline_hasDerivAt_everywhere (xs ys ds : List ℝ) (h : xs.Pairwise (· < ·)) (hn : 2 ≤ xs.length) (q : ℝ) :
    HasDerivAt (spline xs ys ds 0) (spline xs ys ds 1 q) q := by
  obtain ⟨i, hi, hi2⟩ := locate_isSome xs h hn q
  -- the region of piece i, from the specification of `locate`: either strictly inside / extrapolated, or an interior node
  by_cases hnode : ∃ j, j + 3 ≤ xs.length ∧ q = xs.getD (j + 1) 0
  · obtain ⟨j, hj, rfl⟩ := hnode
    rw [(spline_node xs ys ds h (j + 1) (by omega) hn).2]
    exact (spline_C1_at_node xs ys ds h j hj).2.2.1
  · -- find the piece by bracketing
    have key : ∀ k, k + 2 ≤ xs.length → (k = 0 ∨ xs.getD k 0 < q) →
        HasDerivAt (spline xs ys ds 0) (spline xs ys ds 1 q) q := by
      intro k
      induction hm : xs.length - (k + 2) generalizing k with
      | zero =>
        intro hk hq
        exact (spline_hasDerivAt xs ys ds h q k hk hq (Or.inl (by omega))).1
      | succ m ih =>
        intro hk hq
        rcases lt_trichotomy q (xs.getD (k + 1) 0) with hlt | heq | hgt
        · exact (spline_hasDerivAt xs ys ds h q k hk hq (Or.inr hlt)).1
        · exact absurd ⟨k, by omega, heq⟩ hnode
        · exact ih (k + 1) (by omega) (by omega) (Or.inr hgt)
    exact key 0 hn (Or.inl rfl)

/-- a point that is not an interior node lies strictly inside the region of some piece (first/last piece: incl. the extrapolated side and
the end node) -/
theorem region_of_offnode (xs : List ℝ) (hn : 2 ≤ xs.length) (q : ℝ)
    (hoff : ∀ j, j + 3 ≤ xs.length → q ≠ xs.getD (j + 1) 0) :
    ∃ i, i + 2 ≤ xs.length ∧ (i = 0 ∨ xs.getD i 0 < q) ∧ (i + 2 = xs.length ∨ q < xs.getD (i + 1) 0) := by
  have key : ∀ k, k + 2 ≤ xs.length → (k = 0 ∨ xs.getD k 0 < q) →
      ∃ i, i + 2 ≤ xs.length ∧ (i = 0 ∨ xs.getD i 0 < q) ∧ (i + 2 = xs.length ∨ q < xs.getD (i + 1) 0) := by
    intro k
    induction hm : xs.length - (k + 2) generalizing k with
    | zero => intro hk hq; exact ⟨k, hk, hq, Or.inl (by omega)⟩
    | succ m ih =>
      intro hk hq
      rcases lt_trichotomy q (xs.getD (k + 1) 0) with hlt | heq | hgt
      · exact ⟨k, hk, hq, Or.inr hlt⟩
      · exact absurd heq (hoff k (by omega))
      · exact ih (k + 1) (by omega) (by omega) (Or.inr hgt)
  exact key 0 hn (Or.inl rfl)

/-- both derivative orders at every point that is not an interior node -/
theorem spline_hasDerivAt_offnode (xs ys ds : List ℝ) (h : xs.Pairwise (· < ·)) (hn : 2 ≤ xs.length) (q : ℝ)
    (hoff : ∀ j, j + 3 ≤ xs.length → q ≠ xs.getD (j + 1) 0) :
    HasDerivAt (spline xs ys ds 0) (spline xs ys ds 1 q) q ∧ HasDerivAt (spline xs ys ds 1) (spline xs ys ds 2 q) q := by
  obtain ⟨i, hi, hlo, hhi⟩ := region_of_offnode xs hn q hoff
  exact spline_hasDerivAt xs ys ds h q i hi hlo hhi

end Calculus

/-! ### node values over any ordered field -/
section NodesK
variable {K : Type} [Field K] [LinearOrder K] [IsStrictOrderedRing K]

/-- **the interpolant passes through every node** (any node slopes), and its `nu = 1` evaluation there is the node slope -/
theorem evalAt_node (xs ys ds : List K) (h : xs.Pairwise (· < ·)) (i : ℕ) (hi : i < xs.length) (hn : 2 ≤ xs.length) :
    evalAt xs ys ds 0 (xs.getD i 0) = some (ys.getD i 0) ∧ evalAt xs ys ds 1 (xs.getD i 0) = some (ds.getD i 0) := by
  rcases Nat.lt_or_ge (i + 1) xs.length with h1 | h1
  · have hq := getD_lt_of_pairwise xs h i (i + 1) (by omega) h1
    have hl := locate_eq xs h (xs.getD i 0) i (by omega) (Or.inr le_rfl) (Or.inr hq)
    rw [evalAt_of_locate xs ys ds 0 _ i hl, evalAt_of_locate xs ys ds 1 _ i hl, (pieceAt_left xs ys ds i).1,
      (pieceAt_left xs ys ds i).2]
    exact ⟨rfl, rfl⟩
  · obtain ⟨j, rfl⟩ : ∃ j, i = j + 1 := ⟨i - 1, by omega⟩
    have hq := getD_lt_of_pairwise xs h j (j + 1) (by omega) hi
    have hl := locate_eq xs h (xs.getD (j + 1) 0) j (by omega) (Or.inr hq.le) (Or.inl (by omega))
    rw [evalAt_of_locate xs ys ds 0 _ j hl, evalAt_of_locate xs ys ds 1 _ j hl, (pieceAt_right xs ys ds h j (by omega)).1,
      (pieceAt_right xs ys ds h j (by omega)).2]
    exact ⟨rfl, rfl⟩

theorem evalAt_isSome (xs ys ds : List K) (h : xs.Pairwise (· < ·)) (hn : 2 ≤ xs.length) (nu : ℕ) (q : K) :
    evalAt xs ys ds nu q = some ((evalAt xs ys ds nu q).getD 0) := by
  obtain ⟨i, hi, _⟩ := locate_isSome xs h hn q
  simp [evalAt_of_locate xs ys ds nu q i hi]

end NodesK

/-! ### PCHIP slopes -/
section Pchip
variable {K : Type} [Field K] [LinearOrder K] [IsStrictOrderedRing K]

theorem sgn_pos {x : K} (h : 0 < x) : sgn x = 1 := by simp [sgn, h]
theorem sgn_neg {x : K} (h : x < 0) : sgn x = -1 := by simp [sgn, h, not_lt.mpr h.le]
theorem sgn_zero : sgn (0 : K) = 0 := by simp [sgn]
theorem abs'_eq_abs (x : K) : abs' x = |x| := by
  unfold abs'
  split_ifs with h
  · exact (abs_of_neg h).symm
  · exact (abs_of_nonneg (not_lt.mp h)).symm

theorem getD_map_range {β : Type} [Zero β] (f : ℕ → β) (n k : ℕ) (hk : k < n) : ((List.range n).map f).getD k 0 = f k := by
  simp [List.getD_eq_getElem?_getD, List.getElem?_map, List.getElem?_range hk]

theorem pchipSlopes_getD (xs ys : List K) (k : ℕ) (hk : k < xs.length) : (pchipSlopes xs ys).getD k 0 = pchipSlopeAt xs ys k :=
  getD_map_range _ _ _ hk

theorem pchipSlopeAt_interior (xs ys : List K) (k : ℕ) (h0 : 0 < k) (hk : k + 1 < xs.length) :
    pchipSlopeAt xs ys k = pchipInterior (hAt xs (k - 1)) (hAt xs k) (mAt xs ys (k - 1)) (mAt xs ys k) := by
  unfold pchipSlopeAt
  simp only
  rw [if_neg (by omega), if_neg (by omega), if_neg (by omega)]

/-- opposite signs, or one secant zero: the slope is zero -/
theorem pchipInterior_zero (h0 h1 m0 m1 : K) (h : m0 * m1 ≤ 0) : pchipInterior h0 h1 m0 m1 = 0 := by
  unfold pchipInterior
  rcases lt_trichotomy m0 0 with a | a | a <;> rcases lt_trichotomy m1 0 with b | b | b
  · exact absurd (mul_pos_of_neg_of_neg a b) (not_lt.mpr h)
  · simp [b, sgn_zero]
  · simp [sgn_neg a, sgn_pos b]
  · simp [a, sgn_zero]
  · simp [a, sgn_zero]
  · simp [a, sgn_zero]
  · simp [sgn_pos a, sgn_neg b]
  · simp [b, sgn_zero]
  · exact absurd (mul_pos a b) (not_lt.mpr h)

/-- the weighted harmonic mean, as one fraction -/
theorem pchipInterior_same_sign (h0 h1 m0 m1 : K) (h : 0 < m0 * m1) :
    pchipInterior h0 h1 m0 m1 = 1 / (((two * h1 + h0) / m0 + (h1 + two * h0) / m1) / (two * h1 + h0 + (h1 + two * h0))) := by
  unfold pchipInterior
  rcases lt_trichotomy m0 0 with a | a | a
  · have b : m1 < 0 := by
      by_contra hb
      exact absurd h (not_lt.mpr (mul_nonpos_of_nonpos_of_nonneg a.le (not_lt.mp hb)))
    simp [sgn_neg a, sgn_neg b]
  · simp [a] at h
  · have b : 0 < m1 := by
      by_contra hb
      exact absurd h (not_lt.mpr (mul_nonpos_of_nonneg_of_nonpos a.le (not_lt.mp hb)))
    simp [sgn_pos a, sgn_pos b]

/-- both secants positive: `0 < d ≤ 3·min(m0, m1)` -/
theorem pchipInterior_pos (h0 h1 m0 m1 : K) (hh0 : 0 < h0) (hh1 : 0 < h1) (a : 0 < m0) (b : 0 < m1) :
    0 < pchipInterior h0 h1 m0 m1 ∧ pchipInterior h0 h1 m0 m1 ≤ 3 * m0 ∧ pchipInterior h0 h1 m0 m1 ≤ 3 * m1 := by
  rw [pchipInterior_same_sign h0 h1 m0 m1 (mul_pos a b), two_eq]
  set w1 := 2 * h1 + h0 with hw1
  set w2 := h1 + 2 * h0 with hw2
  have p1 : 0 < w1 := by positivity
  have p2 : 0 < w2 := by positivity
  have hden : 0 < w1 * m1 + w2 * m0 := by positivity
  have e : 1 / ((w1 / m0 + w2 / m1) / (w1 + w2)) = (w1 + w2) * m0 * m1 / (w1 * m1 + w2 * m0) := by
    field_simp
  rw [e]
  refine ⟨by positivity, ?_, ?_⟩
  · rw [div_le_iff₀ hden]
    have : w2 ≤ 2 * w1 := by rw [hw1, hw2]; linarith
    nlinarith [mul_pos a b, mul_pos a a, mul_pos p2 (mul_pos a a), mul_nonneg (sub_nonneg.mpr this) (mul_pos a b).le]
  · rw [div_le_iff₀ hden]
    have : w1 ≤ 2 * w2 := by rw [hw1, hw2]; linarith
    nlinarith [mul_pos a b, mul_pos b b, mul_pos p1 (mul_pos b b), mul_nonneg (sub_nonneg.mpr this) (mul_pos a b).le]

theorem sgn_neg_eq (x : K) : sgn (-x) = -sgn x := by
  rcases lt_trichotomy x 0 with a | a | a
  · rw [sgn_neg a, sgn_pos (neg_pos.mpr a)]; rfl
  · simp [a, sgn_zero]
  · rw [sgn_pos a, sgn_neg (neg_neg_of_pos a)]

/-- the rule is odd in the data -/
theorem pchipInterior_neg_neg (h0 h1 m0 m1 : K) : pchipInterior h0 h1 (-m0) (-m1) = -pchipInterior h0 h1 m0 m1 := by
  rcases le_or_gt (m0 * m1) 0 with h | h
  · rw [pchipInterior_zero _ _ _ _ (by simpa using h), pchipInterior_zero _ _ _ _ h, neg_zero]
  · rw [pchipInterior_same_sign _ _ _ _ (by simpa using h), pchipInterior_same_sign _ _ _ _ h]
    rw [div_neg, div_neg, ← neg_add, neg_div, div_neg]

/-- both secants negative: `3·max(m0, m1) ≤ d < 0` -/
theorem pchipInterior_neg (h0 h1 m0 m1 : K) (hh0 : 0 < h0) (hh1 : 0 < h1) (a : m0 < 0) (b : m1 < 0) :
    pchipInterior h0 h1 m0 m1 < 0 ∧ 3 * m0 ≤ pchipInterior h0 h1 m0 m1 ∧ 3 * m1 ≤ pchipInterior h0 h1 m0 m1 := by
  have hp := pchipInterior_pos h0 h1 (-m0) (-m1) hh0 hh1 (neg_pos.mpr a) (neg_pos.mpr b)
  rw [pchipInterior_neg_neg] at hp
  refine ⟨by linarith [hp.1], by linarith [hp.2.1], by linarith [hp.2.2]⟩

/-- equal secants are reproduced (interior rule) -/
theorem pchipInterior_same (h0 h1 a : K) (hh0 : 0 < h0) (hh1 : 0 < h1) : pchipInterior h0 h1 a a = a := by
  rcases eq_or_ne a 0 with rfl | ha
  · exact pchipInterior_zero _ _ _ _ (by simp)
  · rw [pchipInterior_same_sign _ _ _ _ (mul_self_pos.mpr ha), two_eq]
    have : (2 * h1 + h0 + (h1 + 2 * h0)) ≠ 0 := by positivity
    field_simp

/-- equal secants are reproduced (end rule) -/
theorem pchipEdge_same (h0 h1 a : K) (hh0 : 0 < h0) (hh1 : 0 < h1) : pchipEdge h0 h1 a a = a := by
  have hd : ((two * h0 + h1) * a - h0 * a) / (h0 + h1) = a := by
    have : h0 + h1 ≠ 0 := by positivity
    rw [two_eq]; field_simp; ring
  unfold pchipEdge
  simp only [hd]
  simp

/-- the end rule never changes sign against the first secant and stays within `3·|m0|` -/
theorem pchipEdge_bound (h0 h1 m0 m1 : K) (hh0 : 0 < h0) (hh1 : 0 < h1) :
    0 ≤ pchipEdge h0 h1 m0 m1 * m0 ∧ |pchipEdge h0 h1 m0 m1| ≤ 3 * |m0| := by
  unfold pchipEdge
  set d := ((two * h0 + h1) * m0 - h0 * m1) / (h0 + h1) with hd
  simp only
  by_cases hs : sgn d = sgn m0
  · rw [if_neg (by simp [hs])]
    have hdm : 0 ≤ d * m0 := by
      rcases lt_trichotomy m0 0 with a | a | a
      · rw [sgn_neg a] at hs
        have : d < 0 := by
          by_contra hc
          rcases lt_or_eq_of_le (not_lt.mp hc) with c | c
          · rw [sgn_pos c] at hs; cases hs
          · rw [← c, sgn_zero] at hs; cases hs
        exact (mul_pos_of_neg_of_neg this a).le
      · simp [a]
      · rw [sgn_pos a] at hs
        have : 0 < d := by
          by_contra hc
          rcases lt_or_eq_of_le (not_lt.mp hc) with c | c
          · rw [sgn_neg c] at hs; cases hs
          · rw [c, sgn_zero] at hs; cases hs
        exact (mul_pos this a).le
    by_cases h2 : sgn m0 ≠ sgn m1 ∧ three * abs' m0 < abs' d
    · rw [if_pos (by simpa using h2)]
      rw [three_eq]
      refine ⟨by nlinarith [mul_self_nonneg m0], ?_⟩
      rw [abs_mul]; simp
    · rw [if_neg (by simpa using h2)]
      refine ⟨hdm, ?_⟩
      rw [not_and_or, not_not, not_lt, abs'_eq_abs, abs'_eq_abs, three_eq] at h2
      rcases h2 with h2 | h2
      · -- same sign of m0 and m1: |d| < 2|m0|
        have hpos : 0 < h0 + h1 := by positivity
        rcases lt_trichotomy m0 0 with a | a | a
        · have b : m1 < 0 := by
            rw [sgn_neg a] at h2
            by_contra hc
            rcases lt_or_eq_of_le (not_lt.mp hc) with c | c
            · rw [sgn_pos c] at h2; cases h2
            · rw [← c, sgn_zero] at h2; cases h2
          have hdn : d ≤ 0 := by
            by_contra hc
            exact absurd hdm (not_le.mpr (mul_neg_of_pos_of_neg (not_le.mp hc) a))
          rw [abs_of_nonpos hdn, abs_of_neg a, hd, two_eq, ← neg_div, div_le_iff₀ hpos]
          nlinarith [mul_pos_of_neg_of_neg (neg_neg_of_pos hh0) b, mul_pos_of_neg_of_neg (neg_neg_of_pos hh0) a,
            mul_pos_of_neg_of_neg (neg_neg_of_pos hh1) a]
        · subst a
          have : d = 0 := by
            rw [sgn_zero] at hs
            rcases lt_trichotomy d 0 with c | c | c
            · rw [sgn_neg c] at hs; cases hs
            · exact c
            · rw [sgn_pos c] at hs; cases hs
          simp [this]
        · have b : 0 < m1 := by
            rw [sgn_pos a] at h2
            by_contra hc
            rcases lt_or_eq_of_le (not_lt.mp hc) with c | c
            · rw [sgn_neg c] at h2; cases h2
            · rw [c, sgn_zero] at h2; cases h2
          have hdn : 0 ≤ d := by
            by_contra hc
            exact absurd hdm (not_le.mpr (mul_neg_of_neg_of_pos (not_le.mp hc) a))
          rw [abs_of_nonneg hdn, abs_of_pos a, hd, two_eq, div_le_iff₀ hpos]
          nlinarith [mul_pos hh0 b, mul_pos hh0 a, mul_pos hh1 a]
      · exact h2
  · rw [if_pos (by simpa using hs)]
    simp

end Pchip

/-! ### affine data: both slope rules return the common secant -/
section Affine
variable {K : Type} [Field K] [LinearOrder K] [IsStrictOrderedRing K]

theorem getD_map' (f : K → K) (xs : List K) (i : ℕ) (hi : i < xs.length) : (xs.map f).getD i 0 = f (xs.getD i 0) := by
  simp [List.getD_eq_getElem?_getD, List.getElem?_map, List.getElem?_eq_getElem hi]

theorem hAt_pos (xs : List K) (h : xs.Pairwise (· < ·)) (i : ℕ) (hi : i + 1 < xs.length) : 0 < hAt xs i :=
  sub_pos.mpr (getD_lt_of_pairwise xs h i (i + 1) (by omega) hi)

theorem mAt_affine (xs : List K) (h : xs.Pairwise (· < ·)) (a b : K) (i : ℕ) (hi : i + 1 < xs.length) :
    mAt xs (xs.map fun x => a * x + b) i = a := by
  have hp := hAt_pos xs h i hi
  unfold mAt
  rw [getD_map' _ xs (i + 1) hi, getD_map' _ xs i (by omega)]
  unfold hAt at hp ⊢
  field_simp
  ring

theorem pchipSlopeAt_affine (xs : List K) (h : xs.Pairwise (· < ·)) (hn : 2 ≤ xs.length) (a b : K) (k : ℕ) (hk : k < xs.length) :
    pchipSlopeAt xs (xs.map fun x => a * x + b) k = a := by
  have hm : ∀ i, i + 1 < xs.length → mAt xs (xs.map fun x => a * x + b) i = a := mAt_affine xs h a b
  unfold pchipSlopeAt
  simp only
  split_ifs with h2 h0 hl
  · exact hm 0 (by omega)
  · rw [hm 0 (by omega), hm 1 (by omega)]
    exact pchipEdge_same _ _ _ (hAt_pos xs h 0 (by omega)) (hAt_pos xs h 1 (by omega))
  · rw [hm _ (by omega), hm _ (by omega)]
    exact pchipEdge_same _ _ _ (hAt_pos xs h _ (by omega)) (hAt_pos xs h _ (by omega))
  · rw [hm _ (by omega), hm _ (by omega)]
    exact pchipInterior_same _ _ _ (hAt_pos xs h _ (by omega)) (hAt_pos xs h _ (by omega))

theorem akimaM_affine (xs : List K) (h : xs.Pairwise (· < ·)) (hn : 3 ≤ xs.length) (a b : K) (j : ℕ) :
    akimaM xs (xs.map fun x => a * x + b) j = a := by
  have hm : ∀ i, i + 1 < xs.length → mAt xs (xs.map fun x => a * x + b) i = a := mAt_affine xs h a b
  unfold akimaM
  simp only
  split_ifs with h0 h1 hle hn1
  · rw [hm 0 (by omega), hm 1 (by omega), two_eq]; ring
  · rw [hm 0 (by omega), hm 1 (by omega), two_eq]; ring
  · exact hm _ (by omega)
  · rw [hm _ (by omega), hm _ (by omega), two_eq]; ring
  · rw [hm _ (by omega), hm _ (by omega), two_eq]; ring

theorem maxL_const (c : K) : ∀ l : List K, l ≠ [] → (∀ x ∈ l, x = c) → maxL l = c := by
  intro l hne hl
  cases l with
  | nil => exact absurd rfl hne
  | cons x l =>
    have hx : x = c := hl x (by simp)
    subst hx
    unfold maxL
    have : ∀ l : List K, (∀ y ∈ l, y = x) → l.foldl (fun acc b => if acc < b then b else acc) x = x := by
      intro l
      induction l with
      | nil => intro _; rfl
      | cons y l ih =>
        intro hy
        have : y = x := hy y (by simp)
        subst this
        simp only [List.foldl_cons, lt_irrefl, if_false]
        exact ih fun z hz => hy z (List.mem_cons_of_mem _ hz)
    exact this l fun y hy => hl y (List.mem_cons_of_mem _ hy)

theorem akimaSlopes_affine (xs : List K) (h : xs.Pairwise (· < ·)) (hn : 2 ≤ xs.length) (a b : K) (k : ℕ) (hk : k < xs.length) :
    (akimaSlopes xs (xs.map fun x => a * x + b)).getD k 0 = a := by
  unfold akimaSlopes
  split_ifs with h2
  · have := mAt_affine xs h a b 0 (by omega)
    rw [this]
    have : k = 0 ∨ k = 1 := by omega
    rcases this with rfl | rfl <;> simp
  · have h3 : 3 ≤ xs.length := by omega
    simp only
    rw [getD_map_range _ _ _ hk]
    have hf : ∀ i, akimaF12 xs (xs.map fun x => a * x + b) i = 0 := by
      intro i
      simp [akimaF12, akimaF1, akimaF2, akimaM_affine xs h h3 a b, abs']
    have hmax : akimaMax xs (xs.map fun x => a * x + b) = 0 := by
      unfold akimaMax
      refine maxL_const 0 _ ?_ ?_
      · intro he
        have := congrArg List.length he
        simp only [List.length_map, List.length_range, List.length_nil] at this; omega
      · intro x hx
        obtain ⟨i, _, rfl⟩ := List.mem_map.mp hx
        exact hf i
    unfold akimaSlopeWith
    rw [hmax, hf k, mul_zero, if_neg (lt_irrefl _)]
    simp only [akimaM_affine xs h h3 a b, two_eq]
    ring

theorem pchipSlopes_affine (xs : List K) (h : xs.Pairwise (· < ·)) (hn : 2 ≤ xs.length) (a b : K) (k : ℕ) (hk : k < xs.length) :
    (pchipSlopes xs (xs.map fun x => a * x + b)).getD k 0 = a := by
  rw [pchipSlopes_getD _ _ _ (by simpa using hk)]
  exact pchipSlopeAt_affine xs h hn a b k hk

theorem mapM_some {β γ : Type} (f : β → Option γ) (g : β → γ) (hf : ∀ x, f x = some (g x)) (l : List β) :
    l.mapM f = some (l.map g) := by
  induction l with
  | nil => rfl
  | cons x l ih => simp [List.mapM_cons, hf, ih]

/-- the kernel answers with the three evaluations whenever every query is located -/
theorem hermiteInterpolant_ok (slopes : List K → List K → List K) (xs ys pts : List K) (hv : validNodes xs ys = true)
    (f : K → Triple K) (hf : ∀ q, sample xs ys (slopes xs ys) q = some (f q)) :
    hermiteInterpolant slopes xs ys pts = .ok (pts.map f) := by
  unfold hermiteInterpolant
  rw [if_pos hv]
  simp only [mapM_some _ f hf]

/-- **affine data are reproduced** by any slope rule that returns the common secant at every node: value `a q + b`, first
derivative `a`, second derivative `0` at EVERY query point (inside, at nodes, extrapolated) -/
theorem hermiteInterpolant_affine (slopes : List K → List K → List K) (xs pts : List K) (h : xs.Pairwise (· < ·))
    (hn : 2 ≤ xs.length) (a b : K)
    (hsl : ∀ k, k < xs.length → (slopes xs (xs.map fun x => a * x + b)).getD k 0 = a) :
    hermiteInterpolant slopes xs (xs.map fun x => a * x + b) pts = .ok (pts.map fun q => (a * q + b, a, 0)) := by
  refine hermiteInterpolant_ok slopes xs _ pts ((validNodes_iff _ _).mpr ⟨hn, by simp, h⟩) _ fun q => ?_
  obtain ⟨i, hi, hi2⟩ := locate_isSome xs h hn q
  have hne : xs.getD i 0 ≠ xs.getD (i + 1) 0 := (getD_lt_of_pairwise xs h i (i + 1) (by omega) (by omega)).ne
  have hp : pieceAt xs (xs.map fun x => a * x + b) (slopes xs (xs.map fun x => a * x + b)) i
      = hermiteCoeffs (xs.getD i 0) (xs.getD (i + 1) 0) (a * xs.getD i 0 + b) (a * xs.getD (i + 1) 0 + b) a a := by
    rw [pieceAt_def, getD_map' _ xs i (by omega), getD_map' _ xs (i + 1) (by omega), hsl i (by omega), hsl (i + 1) (by omega)]
  obtain ⟨e0, e1, e2⟩ := hermite_affine (xs.getD i 0) (xs.getD (i + 1) 0) a b q hne
  simp [-List.getD_eq_getElem?_getD, sample, evalAt_of_locate _ _ _ _ q i hi, hp, e0, e1, e2]

end Affine

/-! ### thinning keeps the order -/
section Thin

theorem stride_pairwise {β : Type} (R : β → β → Prop) (k : ℕ) (hk : 0 < k) (l : List β) (h : l.Pairwise R) :
    (stride k l).Pairwise R := by
  unfold stride
  refine List.Pairwise.filterMap _ ?_ (List.pairwise_lt_range)
  intro i i' hii b hb b' hb'
  obtain ⟨h1, rfl⟩ := List.getElem?_eq_some_iff.mp hb
  obtain ⟨h2, rfl⟩ := List.getElem?_eq_some_iff.mp hb'
  exact List.pairwise_iff_getElem.mp h _ _ h1 h2 (Nat.mul_lt_mul_of_pos_right hii hk)

theorem thin_pairwise {β : Type} (R : β → β → Prop) (order : ℕ) (l : List β) (h : l.Pairwise R) :
    (thin order l).Pairwise R := by
  unfold thin
  rcases Nat.eq_zero_or_pos (thinInterval l.length order) with h0 | hpos
  · rw [h0]; simp [stride]
  · exact stride_pairwise R _ hpos l h

theorem thin_length_congr {β γ : Type} (order : ℕ) (l : List β) (l' : List γ) (h : l.length = l'.length) :
    (thin order l).length = (thin order l').length := by
  have e1 : (thin order l).length = (thin order (l.map fun _ => ())).length := by rw [thin_map, List.length_map]
  have e2 : (thin order l').length = (thin order (l'.map fun _ => ())).length := by rw [thin_map, List.length_map]
  rw [e1, e2, List.map_const', List.map_const', h]

end Thin

/-! ### shape preservation (Fritsch–Carlson) -/
section Shape
variable {K : Type} [Field K] [LinearOrder K] [IsStrictOrderedRing K]

/-- interior rule, symmetric form: the slope never opposes either adjacent secant and is at most three times each in size -/
theorem pchipInterior_shape (h0 h1 m0 m1 : K) (hh0 : 0 < h0) (hh1 : 0 < h1) :
    (0 ≤ pchipInterior h0 h1 m0 m1 * m0 ∧ |pchipInterior h0 h1 m0 m1| ≤ 3 * |m0|) ∧
      (0 ≤ pchipInterior h0 h1 m0 m1 * m1 ∧ |pchipInterior h0 h1 m0 m1| ≤ 3 * |m1|) := by
  rcases le_or_gt (m0 * m1) 0 with h | h
  · rw [pchipInterior_zero _ _ _ _ h]
    simp
  · rcases lt_trichotomy m0 0 with a | a | a
    · have b : m1 < 0 := by
        by_contra hb
        exact absurd h (not_lt.mpr (mul_nonpos_of_nonpos_of_nonneg a.le (not_lt.mp hb)))
      obtain ⟨p0, p1, p2⟩ := pchipInterior_neg h0 h1 m0 m1 hh0 hh1 a b
      rw [abs_of_neg p0, abs_of_neg a, abs_of_neg b]
      exact ⟨⟨(mul_pos_of_neg_of_neg p0 a).le, by linarith⟩, ⟨(mul_pos_of_neg_of_neg p0 b).le, by linarith⟩⟩
    · simp [a] at h
    · have b : 0 < m1 := by
        by_contra hb
        exact absurd h (not_lt.mpr (mul_nonpos_of_nonneg_of_nonpos a.le (not_lt.mp hb)))
      obtain ⟨p0, p1, p2⟩ := pchipInterior_pos h0 h1 m0 m1 hh0 hh1 a b
      rw [abs_of_pos p0, abs_of_pos a, abs_of_pos b]
      exact ⟨⟨(mul_pos p0 a).le, p1⟩, ⟨(mul_pos p0 b).le, p2⟩⟩

/-- **every PCHIP node slope is shape-compatible with the secant of each adjacent piece**: it never has the opposite sign and is at
most three times the secant in size (the Fritsch–Carlson box), at interior nodes AND at both ends, for all data -/
theorem pchipSlopeAt_shape (xs ys : List K) (h : xs.Pairwise (· < ·)) (i : ℕ) (hi : i + 2 ≤ xs.length) :
    (0 ≤ pchipSlopeAt xs ys i * mAt xs ys i ∧ |pchipSlopeAt xs ys i| ≤ 3 * |mAt xs ys i|) ∧
      (0 ≤ pchipSlopeAt xs ys (i + 1) * mAt xs ys i ∧ |pchipSlopeAt xs ys (i + 1)| ≤ 3 * |mAt xs ys i|) := by
  have hp : ∀ j, j + 1 < xs.length → 0 < hAt xs j := hAt_pos xs h
  have triv : ∀ m : K, 0 ≤ m * m ∧ |m| ≤ 3 * |m| := fun m => ⟨mul_self_nonneg m, by linarith [abs_nonneg m]⟩
  unfold pchipSlopeAt
  simp only
  by_cases h2 : xs.length = 2
  · have : i = 0 := by omega
    subst this
    simp only [if_pos h2]
    exact ⟨triv _, triv _⟩
  · simp only [if_neg h2]
    constructor
    · by_cases h0 : i = 0
      · subst h0
        rw [if_pos rfl]
        exact pchipEdge_bound _ _ _ _ (hp 0 (by omega)) (hp 1 (by omega))
      · rw [if_neg h0, if_neg (by omega)]
        exact (pchipInterior_shape _ _ _ _ (hp (i - 1) (by omega)) (hp i (by omega))).2
    · rw [if_neg (by omega)]
      by_cases hl : i + 1 + 1 = xs.length
      · rw [if_pos hl]
        have e : xs.length - 2 = i := by omega
        rw [e]
        exact pchipEdge_bound _ _ _ _ (hp i (by omega)) (hp (xs.length - 3) (by omega))
      · rw [if_neg hl]
        have := (pchipInterior_shape (hAt xs i) (hAt xs (i + 1)) (mAt xs ys i) (mAt xs ys (i + 1)) (hp i (by omega))
          (hp (i + 1) (by omega))).1
        simpa using this

/-- a Hermite piece whose end slopes lie in the box `[0, 3Δ]²` (Δ ≥ 0 the secant) has a non-negative derivative on the piece:
`h²·p'(x) = (3Δ−d1)u² + (3Δ−d0)s² + (d0+d1−3Δ)(u−s)² = d0 u² + d1 s² + 2su(3Δ−d0−d1)` with `s = x−x0`, `u = x1−x` -/
theorem hermite_deriv_nonneg (x0 x1 y0 y1 d0 d1 x : K) (hx : x0 < x1) (hx0 : x0 ≤ x) (hx1 : x ≤ x1)
    (h00 : 0 ≤ d0) (h01 : d0 ≤ 3 * ((y1 - y0) / (x1 - x0))) (h10 : 0 ≤ d1) (h11 : d1 ≤ 3 * ((y1 - y0) / (x1 - x0))) :
    0 ≤ (hermiteCoeffs x0 x1 y0 y1 d0 d1).eval 1 x := by
  set D := (y1 - y0) / (x1 - x0) with hD
  have hh : 0 < x1 - x0 := sub_pos.mpr hx
  have hs : 0 ≤ x - x0 := sub_nonneg.mpr hx0
  have hu : 0 ≤ x1 - x := sub_nonneg.mpr hx1
  have key : (hermiteCoeffs x0 x1 y0 y1 d0 d1).eval 1 x
      = (d0 * (x1 - x) ^ 2 + d1 * (x - x0) ^ 2 + 2 * (x - x0) * (x1 - x) * (3 * D - d0 - d1)) / (x1 - x0) ^ 2 := by
    simp only [hermiteCoeffs, Piece.eval, two_eq, three_eq, ← hD]
    field_simp
    ring
  rw [key]
  refine div_nonneg ?_ (by positivity)
  rcases le_or_gt (d0 + d1) (3 * D) with hc | hc
  · have : 0 ≤ 3 * D - d0 - d1 := by linarith
    positivity
  · have e : d0 * (x1 - x) ^ 2 + d1 * (x - x0) ^ 2 + 2 * (x - x0) * (x1 - x) * (3 * D - d0 - d1)
        = (3 * D - d1) * (x1 - x) ^ 2 + (3 * D - d0) * (x - x0) ^ 2 + (d0 + d1 - 3 * D) * ((x1 - x) - (x - x0)) ^ 2 := by ring
    rw [e]
    have a1 : 0 ≤ 3 * D - d1 := by linarith
    have a2 : 0 ≤ 3 * D - d0 := by linarith
    have a3 : 0 ≤ d0 + d1 - 3 * D := by linarith
    positivity

/-- the Hermite piece is odd in (values, slopes) -/
theorem hermite_eval_neg (x0 x1 y0 y1 d0 d1 x : K) (nu : ℕ) :
    (hermiteCoeffs x0 x1 (-y0) (-y1) (-d0) (-d1)).eval nu x = -(hermiteCoeffs x0 x1 y0 y1 d0 d1).eval nu x := by
  rcases nu with _ | _ | _ | _ | nu <;> simp only [hermiteCoeffs, Piece.eval, two_eq, three_eq, six_eq] <;> ring

/-- sign form: whenever the end slopes are shape-compatible with the secant `Δ` (never opposite, at most `3|Δ|`), the derivative of the
piece never opposes `Δ` on the piece -/
theorem hermite_deriv_sign (x0 x1 y0 y1 d0 d1 x : K) (hx : x0 < x1) (hx0 : x0 ≤ x) (hx1 : x ≤ x1)
    (h0 : 0 ≤ d0 * ((y1 - y0) / (x1 - x0)) ∧ |d0| ≤ 3 * |(y1 - y0) / (x1 - x0)|)
    (h1 : 0 ≤ d1 * ((y1 - y0) / (x1 - x0)) ∧ |d1| ≤ 3 * |(y1 - y0) / (x1 - x0)|) :
    (0 ≤ (y1 - y0) / (x1 - x0) → 0 ≤ (hermiteCoeffs x0 x1 y0 y1 d0 d1).eval 1 x) ∧
      ((y1 - y0) / (x1 - x0) ≤ 0 → (hermiteCoeffs x0 x1 y0 y1 d0 d1).eval 1 x ≤ 0) := by
  -- the non-negative case, for arbitrary data
  have pos : ∀ y0 y1 d0 d1 : K, 0 ≤ (y1 - y0) / (x1 - x0) →
      (0 ≤ d0 * ((y1 - y0) / (x1 - x0)) ∧ |d0| ≤ 3 * |(y1 - y0) / (x1 - x0)|) →
      (0 ≤ d1 * ((y1 - y0) / (x1 - x0)) ∧ |d1| ≤ 3 * |(y1 - y0) / (x1 - x0)|) →
      0 ≤ (hermiteCoeffs x0 x1 y0 y1 d0 d1).eval 1 x := by
    intro y0 y1 d0 d1 hD h0 h1
    have box : ∀ d : K, (0 ≤ d * ((y1 - y0) / (x1 - x0)) ∧ |d| ≤ 3 * |(y1 - y0) / (x1 - x0)|) →
        0 ≤ d ∧ d ≤ 3 * ((y1 - y0) / (x1 - x0)) := by
      intro d hd
      rw [abs_of_nonneg hD] at hd
      rcases lt_or_eq_of_le hD with hpos | hz
      · have : 0 ≤ d := by
          by_contra hc
          exact absurd hd.1 (not_le.mpr (mul_neg_of_neg_of_pos (not_le.mp hc) hpos))
        exact ⟨this, (le_abs_self d).trans hd.2⟩
      · rw [← hz] at hd ⊢
        have : d = 0 := abs_eq_zero.mp (le_antisymm (by simpa using hd.2) (abs_nonneg d))
        simp [this]
    exact hermite_deriv_nonneg x0 x1 y0 y1 d0 d1 x hx hx0 hx1 (box d0 h0).1 (box d0 h0).2 (box d1 h1).1 (box d1 h1).2
  refine ⟨fun hD => pos y0 y1 d0 d1 hD h0 h1, fun hD => ?_⟩
  have e : (-y1 - -y0) / (x1 - x0) = -((y1 - y0) / (x1 - x0)) := by ring
  have := pos (-y0) (-y1) (-d0) (-d1) (by rw [e]; linarith)
    (by rw [e, neg_mul_neg, abs_neg, abs_neg]; exact h0) (by rw [e, neg_mul_neg, abs_neg, abs_neg]; exact h1)
  rw [hermite_eval_neg] at this
  linarith

end Shape

section Monotone

/-- gluing: monotone on each closed node interval ⇒ monotone on the node range -/
theorem monotoneOn_nodes (f : ℝ → ℝ) (xs : List ℝ) (h : xs.Pairwise (· < ·)) (hn : 2 ≤ xs.length)
    (hp : ∀ i, i + 2 ≤ xs.length → MonotoneOn f (Set.Icc (xs.getD i 0) (xs.getD (i + 1) 0))) :
    MonotoneOn f (Set.Icc (xs.getD 0 0) (xs.getD (xs.length - 1) 0)) := by
  have key : ∀ k, k + 2 ≤ xs.length → MonotoneOn f (Set.Icc (xs.getD 0 0) (xs.getD (k + 1) 0)) := by
    intro k
    induction k with
    | zero => intro hk; exact hp 0 hk
    | succ k ih =>
      intro hk
      have h1 : xs.getD 0 0 ≤ xs.getD (k + 1) 0 := getD_le_of_pairwise xs h 0 (k + 1) (by omega) (by omega)
      have h2 : xs.getD (k + 1) 0 ≤ xs.getD (k + 2) 0 := getD_le_of_pairwise xs h (k + 1) (k + 2) (by omega) (by omega)
      have := (ih (by omega)).union_right (hp (k + 1) hk) (isGreatest_Icc h1) (isLeast_Icc h2)
      rwa [Set.Icc_union_Icc_eq_Icc h1 h2] at this
  have := key (xs.length - 2) (by omega)
  rwa [show xs.length - 2 + 1 = xs.length - 1 by omega] at this

/-- one PCHIP piece on its closed node interval, as part of the glued function: derivative sign = sign of the secant -/
theorem pchip_piece_mono (xs ys : List ℝ) (h : xs.Pairwise (· < ·)) (i : ℕ) (hi : i + 2 ≤ xs.length) :
    (ys.getD i 0 ≤ ys.getD (i + 1) 0 →
        MonotoneOn (spline xs ys (pchipSlopes xs ys) 0) (Set.Icc (xs.getD i 0) (xs.getD (i + 1) 0))) ∧
      (ys.getD (i + 1) 0 ≤ ys.getD i 0 →
        AntitoneOn (spline xs ys (pchipSlopes xs ys) 0) (Set.Icc (xs.getD i 0) (xs.getD (i + 1) 0))) := by
  set p := pieceAt xs ys (pchipSlopes xs ys) i with hpdef
  have hx : xs.getD i 0 < xs.getD (i + 1) 0 := getD_lt_of_pairwise xs h i (i + 1) (by omega) (by omega)
  have heq : ∀ y ∈ Set.Icc (xs.getD i 0) (xs.getD (i + 1) 0), spline xs ys (pchipSlopes xs ys) 0 y = p.eval 0 y :=
    fun y hy => (spline_eq_left_piece xs ys _ h i hi y (Or.inr hy.1) hy.2).1
  have hsh := pchipSlopeAt_shape xs ys h i hi
  rw [← pchipSlopes_getD xs ys i (by omega), ← pchipSlopes_getD xs ys (i + 1) (by omega)] at hsh
  have hsign := fun y (hy : y ∈ Set.Icc (xs.getD i 0) (xs.getD (i + 1) 0)) =>
    hermite_deriv_sign (xs.getD i 0) (xs.getD (i + 1) 0) (ys.getD i 0) (ys.getD (i + 1) 0)
      ((pchipSlopes xs ys).getD i 0) ((pchipSlopes xs ys).getD (i + 1) 0) y hx hy.1 hy.2 hsh.1 hsh.2
  have hder : ∀ y, HasDerivAt (p.eval 0) (p.eval 1 y) y := fun y => (Piece.hasDerivAt p y).1
  have hcont : ContinuousOn (p.eval 0) (Set.Icc (xs.getD i 0) (xs.getD (i + 1) 0)) :=
    fun y _ => (hder y).continuousAt.continuousWithinAt
  have hdiff : DifferentiableOn ℝ (p.eval 0) (interior (Set.Icc (xs.getD i 0) (xs.getD (i + 1) 0))) :=
    fun y _ => (hder y).differentiableAt.differentiableWithinAt
  constructor
  · intro hy
    have hD : 0 ≤ (ys.getD (i + 1) 0 - ys.getD i 0) / (xs.getD (i + 1) 0 - xs.getD i 0) :=
      div_nonneg (sub_nonneg.mpr hy) (sub_pos.mpr hx).le
    have hm : MonotoneOn (p.eval 0) (Set.Icc (xs.getD i 0) (xs.getD (i + 1) 0)) :=
      monotoneOn_of_deriv_nonneg (convex_Icc _ _) hcont hdiff fun y hyi => by
        rw [(hder y).deriv]
        exact (hsign y (interior_subset hyi)).1 hD
    intro a ha b hb hab
    rw [heq a ha, heq b hb]
    exact hm ha hb hab
  · intro hy
    have hD : (ys.getD (i + 1) 0 - ys.getD i 0) / (xs.getD (i + 1) 0 - xs.getD i 0) ≤ 0 :=
      div_nonpos_of_nonpos_of_nonneg (sub_nonpos.mpr hy) (sub_pos.mpr hx).le
    have hm : AntitoneOn (p.eval 0) (Set.Icc (xs.getD i 0) (xs.getD (i + 1) 0)) :=
      antitoneOn_of_deriv_nonpos (convex_Icc _ _) hcont hdiff fun y hyi => by
        rw [(hder y).deriv]
        exact (hsign y (interior_subset hyi)).2 hD
    intro a ha b hb hab
    rw [heq a ha, heq b hb]
    exact hm ha hb hab

/-- gluing, decreasing version -/
theorem antitoneOn_nodes (f : ℝ → ℝ) (xs : List ℝ) (h : xs.Pairwise (· < ·)) (hn : 2 ≤ xs.length)
    (hp : ∀ i, i + 2 ≤ xs.length → AntitoneOn f (Set.Icc (xs.getD i 0) (xs.getD (i + 1) 0))) :
    AntitoneOn f (Set.Icc (xs.getD 0 0) (xs.getD (xs.length - 1) 0)) := by
  have := monotoneOn_nodes (fun x => -f x) xs h hn fun i hi a ha b hb hab => neg_le_neg (hp i hi ha hb hab)
  exact fun a ha b hb hab => neg_le_neg_iff.mp (this ha hb hab)

end Monotone

/-! ### the kernel as a whole -/
section Kernel

/-- over ℝ the kernel returns, for any query list, the three evaluations of the glued function -/
theorem hermiteInterpolant_eq_spline (slopes : List ℝ → List ℝ → List ℝ) (xs ys pts : List ℝ) (h : xs.Pairwise (· < ·))
    (hn : 2 ≤ xs.length) (hl : xs.length = ys.length) :
    hermiteInterpolant slopes xs ys pts
      = .ok (pts.map fun q => (spline xs ys (slopes xs ys) 0 q, spline xs ys (slopes xs ys) 1 q, spline xs ys (slopes xs ys) 2 q)) := by
  refine hermiteInterpolant_ok slopes xs ys pts ((validNodes_iff _ _).mpr ⟨hn, hl, h⟩) _ fun q => ?_
  simp [sample, evalAt_eq_spline xs ys _ h hn]

/-- evaluated at its own nodes the kernel returns the node values (any slope rule, any ordered field) -/
theorem hermiteInterpolant_nodes {K : Type} [Field K] [LinearOrder K] [IsStrictOrderedRing K]
    (slopes : List K → List K → List K) (xs ys : List K) (h : xs.Pairwise (· < ·)) (hn : 2 ≤ xs.length)
    (hl : xs.length = ys.length) :
    ∃ r, hermiteInterpolant slopes xs ys xs = .ok r ∧ r.map (·.1) = ys := by
  set ds := slopes xs ys with hds
  refine ⟨_, hermiteInterpolant_ok slopes xs ys xs ((validNodes_iff _ _).mpr ⟨hn, hl, h⟩)
    (fun q => ((evalAt xs ys ds 0 q).getD 0, (evalAt xs ys ds 1 q).getD 0, (evalAt xs ys ds 2 q).getD 0)) fun q => ?_, ?_⟩
  · rw [sample, evalAt_isSome xs ys ds h hn 0 q, evalAt_isSome xs ys ds h hn 1 q, evalAt_isSome xs ys ds h hn 2 q]
    simp
  · refine List.ext_getElem (by simpa using hl) fun i h1 h2 => ?_
    have hi : i < xs.length := by simpa using h1
    have hx : xs[i] = xs.getD i 0 := by simp [List.getD_eq_getElem?_getD, List.getElem?_eq_getElem hi]
    have hy : ys[i] = ys.getD i 0 := by simp [List.getD_eq_getElem?_getD, List.getElem?_eq_getElem h2]
    simp only [List.getElem_map, List.map_map, Function.comp_apply]
    rw [hx, (evalAt_node xs ys ds h i hi hn).1, hy]
    rfl

/-- the node abscissae `interpolate_mode_ppoly` hands to scipy (thinned, flipped, logged) are strictly increasing when the sampled
volumes are positive and strictly decreasing (file order) -/
theorem log_nodes_increasing (order : ℕ) (vols : List ℝ) (hpos : ∀ V ∈ vols, 0 < V) (hdec : vols.Pairwise (· > ·)) :
    (((thin order vols).reverse).map Real.log).Pairwise (· < ·) := by
  rw [List.pairwise_map, List.pairwise_reverse]
  refine (thin_pairwise _ order vols hdec).imp_of_mem fun {a b} ha hb hab => ?_
  exact Real.log_lt_log (hpos b (thin_subset order vols b hb)) hab

/-- the node slopes scipy's class computes for a method -/
noncomputable def ppolySlopes (m : Method) (xs ys : List ℝ) : List ℝ :=
  if m = .pchip then pchipSlopes xs ys else akimaSlopes xs ys

end Kernel

end Cij.PPoly
