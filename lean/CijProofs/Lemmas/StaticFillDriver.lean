/-
  C18 — the `Float` environment of the driver (`Ops.C18.extFloat`; `fill_cij` = `Ops.C18.fillViaRat`: the model `Fill.fill` over `Rat`
  on the exact values of the doubles, default keyword arguments, no user file) satisfies `FillFrame`, so the interpretation of the
  translated blocks that the op `c18.run` executes with `"check_source": true` equals `runWith` on EVERY input: the flag
  `source_agrees` the harness reads can only be `true` (`sameOut_self`-style reflexivity is all that is left).
-/
import CijProofs.Lemmas.StaticFill
import CijModel.Ops.C18

namespace Cij.StaticSrc
open Cij Cij.Static

/-- `mem_names_iff` without the operator classes of the interpreter -/
theorem mem_names_iff' {α : Type} (t : Table α) (n : String) : n ∈ t.map (·.1) ↔ (getCol t n).isSome := by
  induction t with
  | nil => simp [getCol]
  | cons c r ih =>
    rw [getCol_cons]
    by_cases hc : c.1 = n
    · simp [hc]
    · simp only [List.map_cons, List.mem_cons, hc, if_false, ← ih]
      constructor
      · rintro (h | h)
        · exact absurd h.symm hc
        · exact h
      · exact Or.inr

/-- frames with the same labels are `Good` together (whatever the cell types) -/
theorem good_of_names {α β : Type} (t : Table α) (t' : Table β) (h : t'.map (·.1) = t.map (·.1)) (G : Good t) : Good t' := by
  have m : ∀ n, (getCol t n).isSome → (getCol t' n).isSome := fun n hn => by
    rw [← mem_names_iff', h, mem_names_iff']; exact hn
  exact ⟨h ▸ G.1, m _ G.2.1, m _ G.2.2.1, m _ G.2.2.2⟩

/-- converting the cells column by column keeps the labels -/
theorem names_mapM_cells {α β : Type} (f : α → Option β) (t : Table α) (tq : Table β)
    (h : t.mapM (fun c => (c.2.mapM f).map fun col => (c.1, col)) = some tq) : tq.map (·.1) = t.map (·.1) := by
  induction t generalizing tq with
  | nil => simp only [List.mapM_nil, pure, Option.some.injEq] at h; subst h; rfl
  | cons c r ih =>
    simp only [List.mapM_cons, bind, Option.bind_eq_some_iff, Option.map_eq_some_iff, pure, Option.some.injEq] at h
    obtain ⟨c', ⟨col, _, rfl⟩, r', hr, rfl⟩ := h
    simp only [List.map_cons, ih r' hr]

/-- `fill_cij` as the driver runs it keeps `Good` frames `Good` -/
theorem fillFrame_driver : FillFrame Ops.C18.extFloat := by
  intro s t t' G h
  change Ops.C18.fillViaRat s t = some t' at h
  unfold Ops.C18.fillViaRat at h
  split at h
  · cases h
  · rename_i tq htq
    have Gq : Good tq := good_of_names t tq (names_mapM_cells _ t tq htq) G
    simp only at h
    split at h
    · rename_i out hout
      simp only [Option.some.injEq] at h
      subst h
      refine good_of_names out _ ?_ (fill_model_good _ _ _ tq out hout Gq).1
      rw [List.map_map]
      rfl
    · cases h

attribute [local instance] Cij.Ops.C18.natCastFloat

/-- the two runs the op `c18.run` compares under `"check_source": true` (the definitions the handler calls) are equal, on
    every input -/
theorem run_is_source_driver (u : Static.Units Float) (o : Options Float) (d1 : QhaInput.Data Float)
    (d2 : Option (ElastDat.ElastData Float)) : Ops.C18.runSource u o d1 d2 = Ops.C18.runModel u o d1 d2 :=
  run_is_source ⟨Ops.C18.fitViaRat, Ops.C18.extFloat, u, o, d1, d2⟩ fillFrame_driver

end Cij.StaticSrc
