/-
  The glue of `cij/core/tasks.py` IS what the model says (helper lemmas for C04; no property statements here).

  `tools/gens/tasks_src.py` re-extracts the glue as data on every run (`Generated/TasksGlue.lean`); `CijModel/TasksGlue.lean`
  gives the data their meaning (interpreters, generic in the data).  Here, for the data extracted NOW:
    * `runResolve_gen`     the work-list program of `resolve` means `Tasks.resolveLoop` (LIFO, lookup by the equality RELATION, edge
                           dependency → dependant), for every relation, strain field, key list, eigen table and fuel;
    * `deps_gen`           `get_dependencies` means `Tasks.deps`;
    * `calculate_gen`      `calculate` + `get_modulus_*` + `get_results_by_strain_keys` + `__getitem__` mean `Tasks.calculate`;
    * `getItem_gen`, `results_gen`, `getResults_gen`, `normKey_gen`   the result stores;
    * `peqOfSpec_gen`, `peqModel_spec`, hash lemmas   `__eq__` and `__hash__`.
-/
import CijModel.TasksGlue
import Generated.TasksGlue
import Generated.TasksSpec
import CijProofs.Lemmas.Tasks

set_option linter.unusedSectionVars false
set_option linter.unusedSimpArgs false

namespace Cij.TasksGlue
open Cij Cij.Shear Cij.Tasks
open Generated.TasksGlue

section resolve
variable {α : Type} [Add α] [Sub α] [Mul α] [Div α] [NatCast α]

theorem deps_gen (isZero : α → Bool) (eig : Eig α) (t : PTask α) :
    depsOfSpec depsSpec isZero eig t = deps isZero eig t := by
  unfold depsOfSpec deps
  cases h : t.key.calcType <;> simp [depsSpec, calcTypeName, strainAttr, keysMethod]

def encDep : Option Nat → Val α
  | none => .none
  | some n => .idx n

def enc (it : Item α) : List (Val α) := [.field it.1, .key it.2.1, encDep it.2.2]

theorem finish_gen (depsOf : PTask α → List (SField α × Modulus)) (c : Nat) (d : Option Nat) (rest : Env α)
    (tasks : List (PTask α)) (edges : List (Nat × Nat)) (task : Option (PTask α)) :
    finishStep workList depsOf ((workList.currVar, .idx c) :: (workList.edgeGuard, encDep d) :: rest) tasks edges task =
      some ((⟨tasks, addEdge edges c d⟩ : RState α),
        (match task with
          | some t => depsOf t
          | none => []).map fun (sk : SField α × Modulus) => enc (sk.1, sk.2, some c)) := by
  have hm : ∀ ds : List (SField α × Modulus),
      ds.mapM (pushedItem workList ((workList.currVar, Val.idx c) :: (workList.edgeGuard, encDep d) :: rest)) =
        some (ds.map fun sk => enc (sk.1, sk.2, some c)) := by
    intro ds
    apply mapM_some
    intro sk _
    simp [pushedItem, workList, enc, encDep, Env.bindAll, Env.set, evalAtom, Env.get]
  have he : edgesAfter workList ((workList.currVar, Val.idx c) :: (workList.edgeGuard, encDep d) :: rest) edges = some (addEdge edges c d) := by
    cases d <;> simp [edgesAfter, workList, encDep, Env.get, asIdx, addEdge]
  unfold finishStep
  rw [he, hm]
  rfl

theorem step_gen (peq : Params α → Params α → Bool) (depsOf : PTask α → List (SField α × Modulus)) (e0 : Env α)
    (it : Item α) (st : RState α) :
    stepSpec workList peq depsOf e0 (enc it) st =
      some ((⟨(currOf peq st.tasks it).1, addEdge st.edges (currOf peq st.tasks it).2 it.2.2⟩ : RState α),
        ((match (currOf peq st.tasks it).1[(currOf peq st.tasks it).2]? with
          | some t => depsOf t
          | none => []).map fun (sk : SField α × Modulus) => enc (sk.1, sk.2, some (currOf peq st.tasks it).2))) := by
  obtain ⟨s, k, d⟩ := it
  -- the locals are spelled canonically by the translator (`_l<n>` in order of first binding); `strain` is the parameter the loop rebinds
  have h1 : workList.popTargets = ["strain", "_l3", "_l4"] := rfl
  have h2 : workList.createArgs = ["strain", "_l3"] := rfl
  have h3 : workList.lookupCandidateLeft = true := rfl
  have h4 : workList.newTaskArgs = ["strain", "_l3", "self.calculator"] := rfl
  have h6 : workList.currNewOffset = -1 := rfl
  have h7 : ∀ (c : Nat) (rest : Env α) (tasks : List (PTask α)) (edges : List (Nat × Nat)) (task : Option (PTask α)),
      finishStep workList depsOf ((workList.currVar, .idx c) :: ("_l4", encDep d) :: rest) tasks edges task =
        some ((⟨tasks, addEdge edges c d⟩ : RState α),
          (match task with
            | some t => depsOf t
            | none => []).map fun (sk : SField α × Modulus) => enc (sk.1, sk.2, some c)) :=
    fun c rest tasks edges task => finish_gen depsOf c d rest tasks edges task
  unfold stepSpec currOf findTask
  rw [h1, h2, h3, h4, h6]
  cases h : List.findIdx? (fun t => peq t.params (create s k)) st.tasks with
  | some i =>
    simp only [enc, Env.bindAll]
    simp [h, h7, enc, Env.set, args2, evalAtom, Env.get, asField, asKey]
  | none =>
    simp only [enc, Env.bindAll]
    simp [h, h7, enc, Env.set, args2, args3, evalAtom, Env.get, asField, asKey]

theorem popQ_last_concat {X : Type} (l : List X) (x : X) : popQ .last (l ++ [x]) = some (x, l) := by
  simp [popQ]

theorem popQ_last_nil {X : Type} : popQ .last ([] : List X) = none := by
  simp [popQ]

theorem foldl_pushQ_last {X : Type} (xs q : List X) : xs.foldl (pushQ .last) q = q ++ xs := by
  induction xs generalizing q with
  | nil => simp
  | cons x xs ih => simp [List.foldl_cons, pushQ, ih]

theorem pushed_enc (isZero : α → Bool) (eig : Eig α) (tasks : List (PTask α)) (curr : Nat) :
    ((match tasks[curr]? with
      | some t => deps isZero eig t
      | none => []).map fun (sk : SField α × Modulus) => enc (sk.1, sk.2, some curr)) =
      (pushedOf isZero eig tasks curr).map enc := by
  unfold pushedOf
  cases tasks[curr]? <;> simp [Function.comp_def]

theorem loop_gen (isZero : α → Bool) (peq : Params α → Params α → Bool) (eig : Eig α) (e0 : Env α) :
    ∀ (n : Nat) (stack : List (Item α)) (st : RState α),
      loopSpec workList peq (deps isZero eig) e0 n ((stack.map enc).reverse) st = resolveLoop isZero peq eig n stack st := by
  have hpop : workList.popEnd = .last := rfl
  have hpush : workList.pushEnd = .last := rfl
  intro n
  induction n with
  | zero =>
    intro stack st
    cases stack with
    | nil => rw [loopSpec, hpop]; simp [popQ_last_nil, resolveLoop]
    | cons it rest =>
      rw [loopSpec, hpop, List.map_cons, List.reverse_cons, popQ_last_concat]
      simp [resolveLoop]
  | succ n ih =>
    intro stack st
    cases stack with
    | nil => rw [loopSpec, hpop]; simp [popQ_last_nil, resolveLoop]
    | cons it rest =>
      rw [loopSpec, hpop, List.map_cons, List.reverse_cons, popQ_last_concat]
      simp only [step_gen, hpush, foldl_pushQ_last, pushed_enc]
      rw [resolveLoop]
      simp only [resolveStep]
      rw [← ih]
      simp [List.map_append, List.map_reverse]


theorem product3 {X : Type} (a c : X) (ks : List X) : product [[a], ks, [c]] = ks.map fun k => [a, k, c] := by
  induction ks with
  | nil => simp [product]
  | cons k ks ih => simp [product] at ih ⊢; exact ih

theorem runResolve_gen (isZero : α → Bool) (peq : Params α → Params α → Bool) (eig : Eig α) (fuel : Nat)
    (strain : SField α) (keys : List Modulus) :
    runResolve workList peq (depsOfSpec depsSpec isZero eig) fuel strain keys =
      resolveLoop isZero peq eig fuel (initialStack strain keys) ⟨[], []⟩ := by
  have hd : depsOfSpec depsSpec isZero eig = deps isZero eig := funext (deps_gen isZero eig)
  have hp : workList.params = ["strain", "keys"] := rfl
  have hq : workList.queueInit = [.single "strain", .each "keys", .single "None"] := rfl
  unfold runResolve
  rw [hd, hp, hq]
  simp only [Env.bindAll, Env.set]
  have hf : [QFactor.single "strain", QFactor.each "keys", QFactor.single "None"].mapM
      (factorVals ([("keys", Val.keys keys), ("strain", Val.field strain)] : Env α)) =
      some [[Val.field strain], keys.map Val.key, [Val.none]] := by
    simp [factorVals, evalAtom, Env.get]
  rw [hf]
  simp only [product3]
  rw [← loop_gen]
  congr 1
  simp [initialStack, enc, encDep, List.map_reverse, Function.comp_def]

end resolve
section stores
variable {α : Type} [Add α] [Sub α] [Mul α] [Div α] [NatCast α]

theorem getItem_gen (peq : Params α → Params α → Bool) (s : Store α) (p : Params α) :
    getItemOf getitemSearch peq s p = s.get peq p := rfl

theorem results_gen (gi : Params α → Option α) (strain : SField α) (keys : List Modulus) :
    resultsOf resultsSpec gi strain keys = keys.mapM fun k => (gi (create strain k)).map fun v => (k, v) := by
  have h1 : resultsSpec.params = ["strain", "keys"] := rfl
  have h2 : resultsSpec.iterates = "keys" := rfl
  have h3 : resultsSpec.loopVar = "_l1" := rfl
  have h4 : resultsSpec.createArgs = ["strain", "_l1"] := rfl
  have h5 : resultsSpec.keyedBy = "_l1" := rfl
  unfold resultsOf
  rw [h1, h2, h3, h4, h5]
  simp [Env.bindAll, Env.set, Env.get, args2, evalAtom, asField, asKey]

theorem store_results_gen (peq : Params α → Params α → Bool) (s : Store α) (strain : SField α) (keys : List Modulus) :
    resultsOf resultsSpec (getItemOf getitemSearch peq s) strain keys = s.results peq strain keys := by
  rw [results_gen]; rfl

theorem normKey_gen (strain : SField α) (key : Modulus) :
    normKey setitemNorm strain key = some (create strain key) ∧ normKey getitemNorm strain key = some (create strain key) := by
  constructor <;> simp [normKey, setitemNorm, getitemNorm, Env.bindAll, Env.set, Env.get, args2, evalAtom, asField, asKey]


theorem find?_unique {X : Type} (l : List X) (p : X → Bool) (x : X) (hex : ∃ e ∈ l, p e = true)
    (huniq : ∀ e ∈ l, p e = true → e = x) : l.find? p = some x := by
  obtain ⟨e, he, hpe⟩ := hex
  cases h : l.find? p with
  | none =>
    have := List.find?_eq_none.mp h e he
    simp [hpe] at this
  | some y => rw [huniq y (List.mem_of_find?_eq_some h) (List.find?_some h)]

theorem mapM_pairs {f : Modulus → Option α} : ∀ (keys : List Modulus) (d : Dict α),
    keys.mapM (fun k => (f k).map fun v => (k, v)) = some d →
      (∀ e ∈ d, f e.1 = some e.2) ∧ (∀ k ∈ keys, ∃ v, (k, v) ∈ d) := by
  intro keys
  induction keys with
  | nil => intro d h; simp at h; subst h; simp
  | cons k ks ih =>
    intro d h
    rw [List.mapM_cons] at h
    cases hk : f k with
    | none => simp [hk] at h
    | some v =>
      cases hr : ks.mapM (fun k => (f k).map fun v => (k, v)) with
      | none => simp [hk, hr] at h
      | some d' =>
        simp [hk, hr] at h
        subst h
        obtain ⟨h1, h2⟩ := ih d' hr
        constructor
        · intro e he
          rcases List.mem_cons.mp he with rfl | he
          · exact hk
          · exact h1 e he
        · intro k' hk'
          rcases List.mem_cons.mp hk' with rfl | hk'
          · exact ⟨v, by simp⟩
          · obtain ⟨v', hv'⟩ := h2 k' hk'
            exact ⟨v', List.mem_cons_of_mem _ hv'⟩

theorem dict_get_of_mapM {f : Modulus → Option α} (keys : List Modulus) (d : Dict α)
    (h : keys.mapM (fun k => (f k).map fun v => (k, v)) = some d) (k : Modulus) (hk : k ∈ keys) : d.get k = f k := by
  obtain ⟨h1, h2⟩ := mapM_pairs keys d h
  obtain ⟨v, hv⟩ := h2 k hk
  have hfv : f k = some v := h1 (k, v) hv
  unfold Dict.get
  rw [find?_unique d.reverse (fun e => decide (e.1 = k)) (k, v) ⟨(k, v), by simpa using hv, by simp⟩, hfv]
  · rfl
  · intro e he hpe
    have hek : e.1 = k := by simpa using hpe
    have := h1 e (by simpa using he)
    rw [hek, hfv] at this
    cases e
    simp at hek this
    simp [hek, this]

end stores

section calcsec
variable {R : Type} [Field R]

theorem feedDicts_gen (isZero : R → Bool) (peq : Params R → Params R → Bool) (eig : Eig R) (st : Store R × Store R) (t : PTask R) :
    feedDicts calcSpec resultsSpec getitemSearch isZero peq eig st t =
      match st.1.results peq t.strain (modulusKeys (α := R) isZero t.key),
            st.1.results peq (rotatedField (eig t.key).1 t.strain) (modulusKeysRotated isZero (eig t.key).2) with
      | some d1, some d2 => some [("modulus_results", d1), ("modulus_results_rotated", d2)]
      | _, _ => none := by
  have hf : calcSpec.feeds = [⟨"modulus_results", "modulus_isothermal_values", "strain", "get_modulus_keys"⟩,
      ⟨"modulus_results_rotated", "modulus_isothermal_values", "strain_rotated", "get_modulus_keys_rotated"⟩] := rfl
  unfold feedDicts
  rw [hf]
  simp only [List.mapM_cons, List.mapM_nil, storeNamed, strainAttr, keysMethod, store_results_gen]
  cases st.1.results peq t.strain (modulusKeys (α := R) isZero t.key) <;>
    cases st.1.results peq (rotatedField (eig t.key).1 t.strain) (modulusKeysRotated isZero (eig t.key).2) <;> rfl

theorem calcTask_gen (isZero : R → Bool) (peq : Params R → Params R → Bool) (eig : Eig R) (baseIso baseAdi : Params R → R)
    (st : Store R × Store R) (t : PTask R) :
    calcTask calcSpec getModulus resultsSpec getitemSearch shearIface isZero peq eig baseIso baseAdi st t =
      (taskValue isZero peq eig baseIso baseAdi st.1 t).map fun v =>
        (st.1 ++ [(t.params, v.1)], st.2 ++ [(t.params, v.2)]) := by
  have hg : calcSpec.guardType = "SHEAR" := rfl
  have hw : calcSpec.writes = [("modulus_isothermal_values", "task_params", "get_modulus_isothermal"),
      ("modulus_adiabatic_values", "task_params", "get_modulus_adiabatic")] := rfl
  unfold calcTask taskValue
  rw [hg, hw]
  cases h : t.key.calcType with
  | longitudinal => simp [calcTypeName, taskMethod, getModulus, appendNamed, List.foldlM_cons, h]
  | offDiagonal => simp [calcTypeName, taskMethod, getModulus, appendNamed, List.foldlM_cons, h]
  | shear =>
    simp only [calcTypeName, beq_self_eq_true, if_true, feedDicts_gen]
    cases h1 : st.1.results peq t.strain (modulusKeys (α := R) isZero t.key) with
    | none => rfl
    | some d1 =>
      cases h2 : st.1.results peq (rotatedField (eig t.key).1 t.strain) (modulusKeysRotated isZero (eig t.key).2) with
      | none => rfl
      | some d2 =>
        have e1 : ∀ k ∈ modulusKeys (α := R) isZero t.key,
            (Dict.get d1 k).getD ((0 : Nat) : R) = ((st.1.get peq (create t.strain k)).getD ((0 : Nat) : R)) := by
          intro k hk
          rw [dict_get_of_mapM (f := fun k => st.1.get peq (create t.strain k)) _ d1 h1 k hk]
        have e2 : ∀ k ∈ modulusKeysRotated isZero (eig t.key).2,
            (Dict.get d2 k).getD ((0 : Nat) : R) =
              ((st.1.get peq (create (rotatedField (eig t.key).1 t.strain) k)).getD ((0 : Nat) : R)) := by
          intro k hk
          rw [dict_get_of_mapM (f := fun k => st.1.get peq (create (rotatedField (eig t.key).1 t.strain) k)) _ d2 h2 k hk]
        have hv := shearValue_congr isZero t.key (eig t.key).2 _ _ _ _ e1 e2
        simp only [Nat.cast_zero] at hv
        simp [taskMethod, getModulus, shearIface, appendNamed, List.foldlM_cons, h, calcTypeName, attrGet, hv]

theorem calculate_gen (isZero : R → Bool) (peq : Params R → Params R → Bool) (eig : Eig R) (baseIso baseAdi : Params R → R)
    (tasks : List (PTask R)) : ∀ (order : List Nat) (st : Store R × Store R),
    calculateSpec calcSpec getModulus resultsSpec getitemSearch shearIface isZero peq eig baseIso baseAdi tasks order st =
      calculate isZero peq eig baseIso baseAdi tasks order st := by
  intro order
  induction order with
  | nil => intro st; rfl
  | cons i rest ih =>
    intro st
    obtain ⟨iso, adi⟩ := st
    unfold calculateSpec calculate
    cases tasks[i]? with
    | none => rfl
    | some t =>
      simp only [calcTask_gen]
      cases taskValue isZero peq eig baseIso baseAdi iso t with
      | none => rfl
      | some v => simp [ih]

end calcsec

section eqhash
variable {α : Type} [Add α] [Sub α] [Mul α] [Div α] [NatCast α]

theorem peqOfSpec_gen (close : List α → List α → Bool) (p q : Params α) (hp : p.Proper) (hq : q.Proper) :
    peqOfSpec eqSpec close p q = peqModel close p q := by
  cases p with
  | nonshear c a b =>
    cases q with
    | nonshear c' a' b' =>
      cases c <;> cases c' <;>
        simp_all [Params.Proper, peqOfSpec, eqSpec, runTests, EqTest.fires, Params.calcType, calcTypeName, Params.whole, peqModel] <;>
        (generalize close _ _ = z; cases z <;> rfl)
    | shear s' k' =>
      cases c <;> simp_all [Params.Proper, peqOfSpec, eqSpec, runTests, EqTest.fires, Params.calcType, calcTypeName, peqModel]
  | shear s k =>
    cases q with
    | nonshear c' a' b' =>
      cases c' <;> simp_all [Params.Proper, peqOfSpec, eqSpec, runTests, EqTest.fires, Params.calcType, calcTypeName, peqModel]
    | shear s' k' =>
      by_cases hk : k = k' <;>
        simp [peqOfSpec, eqSpec, runTests, EqTest.fires, Params.calcType, calcTypeName, Params.object, Params.array, peqModel, hk]
      generalize close _ _ = z; cases z <;> rfl

theorem hashOf_nonshear {H : Type} (hc : Modulus.CalcType → H) (hf : List α → H) (hk : Modulus → H) (x : H → H → H)
    (c : Modulus.CalcType) (hne : c ≠ .shear) (a b : List α) :
    hashOf hashSpec hc hf hk x (.nonshear c a b) = some (x (x (hc c) (hf a)) (hf b)) := by
  cases c <;> simp_all [hashOf, hashSpec, HExpr.eval, Params.calcType, calcTypeName, Params.array]

theorem hashOf_shear {H : Type} (hc : Modulus.CalcType → H) (hf : List α → H) (hk : Modulus → H) (x : H → H → H)
    (s : SField α) (k : Modulus) :
    hashOf hashSpec hc hf hk x (.shear s k) = some (x (x (hc .shear) (hf (flat s))) (hk k)) := by
  simp [hashOf, hashSpec, HExpr.eval, Params.calcType, calcTypeName, Params.array, Params.object]

theorem proper_create (s : SField α) (k : Modulus) : (create s k).Proper := by
  unfold create
  cases h : k.isShear
  · simp only [Bool.false_eq_true, if_false, Params.Proper]
    intro hc
    have := (calcType_shear_iff k).mp hc
    rw [h] at this; cases this
  · simp [Params.Proper]


theorem getResults_gen (peq : Params α → Params α → Bool) (st : Store α × Store α) (strain : SField α) (keys : List Modulus) :
    getResultsOf resultGetters resultsSpec getitemSearch peq st strain keys "get_isothermal_results" = st.1.results peq strain keys ∧
    getResultsOf resultGetters resultsSpec getitemSearch peq st strain keys "get_adiabatic_results" = st.2.results peq strain keys := by
  constructor <;> simp [getResultsOf, resultGetters, storeNamed, store_results_gen]

/-- `__getitem__` returns the FIRST entry equal to the query: entries stored later never shadow it -/
theorem store_get_append_of_some (peq : Params α → Params α → Bool) (s extra : Store α) (q : Params α) (v : α)
    (h : s.get peq q = some v) : (s ++ extra).get peq q = some v := by
  unfold Store.get at h ⊢
  rw [List.find?_append]
  cases hf : s.find? fun e => peq e.1 q with
  | none => rw [hf] at h; cases h
  | some e => rw [hf] at h; simpa using h

/-- what was stored under `p` is found again under any `q` with `p == q`, unless an EARLIER entry is equal to `q` as well -/
theorem store_get_append_new (peq : Params α → Params α → Bool) (s : Store α) (p q : Params α) (v : α)
    (hnone : s.get peq q = none) (hpq : peq p q = true) : (s ++ [(p, v)]).get peq q = some v := by
  unfold Store.get at hnone ⊢
  rw [List.find?_append]
  cases hf : s.find? fun e => peq e.1 q with
  | none => simp [hpq]
  | some e => rw [hf] at hnone; cases hnone

end eqhash

section peqspec
variable {R : Type} [Field R]

/-- the closeness test on flattened arrays is an equivalence (true of exact equality; `numpy.allclose` with a rounding-level
tolerance is treated as one, see ASSUMPTIONS of the harness) -/
structure CloseEquiv (close : List R → List R → Bool) : Prop where
  refl : ∀ a, close a a = true
  symm : ∀ a b, close a b = true → close b a = true
  trans : ∀ a b c, close a b = true → close b c = true → close a c = true

theorem peqModel_spec (close : List R → List R → Bool) (hc : CloseEquiv close) : PeqSpec (peqModel close) := by
  constructor
  · intro p; cases p <;> simp [peqModel, hc.refl]
  · intro p q h
    cases p <;> cases q <;> simp_all [peqModel]
    · exact hc.symm _ _ h.2
    · exact hc.symm _ _ h.2
  · intro p q r h1 h2
    cases p <;> cases q <;> cases r <;> simp [peqModel] at h1 h2 ⊢
    · exact ⟨h1.1.trans h2.1, hc.trans _ _ _ h1.2 h2.2⟩
    · exact ⟨h1.1.trans h2.1, hc.trans _ _ _ h1.2 h2.2⟩
  · intro p q h
    cases p <;> cases q <;> simp_all [peqModel, Params.kind]

/-- consistency of `__hash__` with `__eq__` where it matters for `dict` storage: equal parameters whose arrays are IDENTICAL hash alike -/
theorem hash_consistent {H : Type} (hcT : Modulus.CalcType → H) (hf : List R → H) (hk : Modulus → H) (x : H → H → H)
    (close : List R → List R → Bool) (p q : Params R) (hp : p.Proper) (hq : q.Proper)
    (heq : peqModel close p q = true) (harr : ∀ i, p.array i = q.array i) :
    hashOf hashSpec hcT hf hk x p = hashOf hashSpec hcT hf hk x q ∧ (hashOf hashSpec hcT hf hk x p).isSome = true := by
  cases p with
  | nonshear c a b =>
    cases q with
    | nonshear c' a' b' =>
      have h0 := harr 0; have h1 := harr 1
      simp [Params.array] at h0 h1
      simp [peqModel] at heq
      subst h0 h1
      rw [← heq.1, hashOf_nonshear _ _ _ _ c hp]
      exact ⟨rfl, rfl⟩
    | shear s' k' => simp [peqModel] at heq
  | shear s k =>
    cases q with
    | nonshear c' a' b' => simp [peqModel] at heq
    | shear s' k' =>
      have h0 := harr 0
      simp [Params.array] at h0
      simp [peqModel] at heq
      rw [hashOf_shear, hashOf_shear, h0, heq.1]
      exact ⟨rfl, rfl⟩

/-- every longitudinal task hashes to `hash(LONGITUDINAL)`: both parameters are the same array and `h ^ x ^ x = h` -/
theorem hash_longitudinal {H : Type} (hcT : Modulus.CalcType → H) (hf : List R → H) (hk : Modulus → H) (x : H → H → H)
    (hx : ∀ u v, x (x u v) v = u) (s : SField R) (k : Modulus) (hk' : k ∈ allKeys) (hl : k.calcType = .longitudinal) :
    hashOf hashSpec hcT hf hk x (create s k) = some (hcT .longitudinal) := by
  have hidx : ∀ k ∈ allKeys, k.calcType = .longitudinal → k.isShear = false ∧ idx k.i.i = idx k.j.i := by decide +kernel
  obtain ⟨hs, hi⟩ := hidx k hk' hl
  unfold create
  rw [hs]
  simp only [Bool.false_eq_true, if_false]
  rw [hashOf_nonshear _ _ _ _ _ (by rw [hl]; decide), hi, hx, hl]

end peqspec

/-! ### concrete instances and structural facts used by the property theorems -/

/-- an extracted tolerance `(numerator, denominator)` as a rational -/
def ratOf (f : Nat × Nat) : Rat := (f.1 : Rat) / (f.2 : Rat)

def absQ (x : Rat) : Rat := if x < 0 then -x else x

/-- `numpy.allclose(a, b, rtol, atol)` on flattened arrays over ℚ: equal length and `|a − b| ≤ atol + rtol·|b|` element by element -/
def closeQ (rtol atol : Rat) (a b : List Rat) : Bool :=
  a.length == b.length && (a.zip b).all fun p => decide (absQ (p.1 - p.2) ≤ atol + rtol * absQ p.2)

/-- a toy hash of a tuple of floats that tells `(1,)` from everything else -/
def hfEx (l : List Rat) : Nat := if l = [1] then 1 else 2

/-- `*self.params` of a shear task is `(strain, key)` (the shear branch of `_make_param_by_strain_key`, pinned by both translators) -/
def expandArgs (args : List String) : List String :=
  args.flatMap fun a => if a = "*self.params" then ["strain", "key"] else [a]

/-- every `def` of the four classes is tied, and tied in a known way -/
def MethodsComplete : Prop :=
  methodTies.map (fun t => (t.1, t.2.1)) = allMethods ∧
  (∀ t ∈ methodTies, t.2.2 = "translated" ∨ t.2.2 = "TasksSpec") ∧
  nestedDefinitions = [] ∧ otherClasses = [] ∧
  ("PhononContributionTask", "__eq__") ∉ allMethods ∧ ("PhononContributionTask", "__hash__") ∉ allMethods

instance : Decidable MethodsComplete := by unfold MethodsComplete; infer_instance

/-- nothing outlives a task list except the module constants: the two result stores are two constructor calls inside
`PhononContributionTaskList.__init__`; no class-level binding besides the two NamedTuple fields; no mutable default; no `global` -/
def StoresPerList : Prop :=
  listInit = [("calculator", "param:calculator"), ("modulus_isothermal_values", "new:PhononContributionTaskResults"),
    ("modulus_adiabatic_values", "new:PhononContributionTaskResults")] ∧
  listInitSuperCalls = 1 ∧
  classStatements = [("PhononContributionTaskParams", "field", "calc_type"), ("PhononContributionTaskParams", "field", "params")] ∧
  classBases = [("PhononContributionTaskParams", ["NamedTuple"]), ("PhononContributionTaskResults", ["UserDict"]),
    ("PhononContributionTask", []), ("PhononContributionTaskList", ["UserList"])] ∧
  nonConstDefaults = [] ∧ scopeDeclarations = [] ∧ moduleOtherStatements = [] ∧
  moduleAssigns = [("logger", "call:logging.getLogger"), ("_STRAIN_RTOL", "const")]

instance : Decidable StoresPerList := by unfold StoresPerList; infer_instance

/-- `PhononContributionTask.__init__`: key predicate ↦ class, and the argument list of every constructor call lines up with the
parameter list of the `__init__` it runs (`self.params` is the parameter pair `e` of the non-shear classes) -/
def DispatchOk : Prop :=
  taskInit.dispatch.map (fun d => (d.1, d.2.1)) =
    [("is_longitudinal", "LongitudinalElasticModulusPhononContribution"),
     ("is_off_diagonal", "OffDiagonalElasticModulusPhononContribution"),
     ("is_shear", "ShearElasticModulusPhononContribution")] ∧
  taskInit.dispatch.map (fun d => (d.2.1, (expandArgs d.2.2).map fun a => if a = "self.params" then "e" else a)) =
    ctorParams.map (fun c => (c.1, c.2.2)) ∧
  taskInit.params = ["strain", "key", "calculator"] ∧ taskInit.createArgs = ["strain", "key"] ∧
  taskInit.keyAttr = "key" ∧ taskInit.keyValue = "key" ∧ taskInit.paramsAttr = "_task_params" ∧
  taskProps = [("calc_type", "property", "self.key.calc_type"), ("task_params", "property", "self._task_params"),
    ("params", "property", "self.task_params.params")] ∧
  (("strain", "strain") ∈ shearInitBinds ∧ ("key", "key") ∈ shearInitBinds) ∧
  contributionExports.map (fun e => (e.1, e.2.2)) = ctorParams.map (fun c => (c.1, c.1))

instance : Decidable DispatchOk := by unfold DispatchOk; infer_instance

/-- `resolve` binds `self.strain` / `self.keys` to its two parameters BEFORE the loop (the loop rebinds the local `strain`), nothing
else writes them, and the result getters read exactly these two attributes -/
def SelfBindingsOk : Prop :=
  workList.params = ["strain", "keys"] ∧
  resolveAttrWrites.filter (fun w => w.1 = "strain" ∨ w.1 = "keys") = [("strain", "strain", "before"), ("keys", "keys", "before")] ∧
  "strain" ∈ resolveLoopRebinds ∧
  resultGetters = [("get_adiabatic_results", "modulus_adiabatic_values", "strain", "keys"),
    ("get_isothermal_results", "modulus_isothermal_values", "strain", "keys")] ∧
  workList.sortFn = "nx.topological_sort" ∧ workList.dataAttr = calcSpec.loopOver ∧ workList.pushMethod = "get_dependencies" ∧
  workList.lookupAttr = "task_params" ∧ calcSpec.writes.map (fun w => w.2.1) = ["task_params", "task_params"] ∧
  setitemStores = "super().__setitem__(<normalised key>, <value parameter>)" ∧ getitemSearch.hasDefault = false ∧
  getitemSearch.over = "self.data.items()"

instance : Decidable SelfBindingsOk := by unfold SelfBindingsOk; infer_instance

end Cij.TasksGlue
