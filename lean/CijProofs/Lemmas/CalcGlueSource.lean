/-
  The glue of `cij/core/calculator.py` IS what the models say (helper lemmas for C07, no property statements here).

  `tools/gens/calc_src.py` re-extracts the glue as data on every run (`Generated/CalcGlueSpec.lean`); `CijModel/CalcGlue.lean`
  gives the data their meaning (evaluators).  Here:
    * generic facts about the evaluators, for ANY extracted data: the name matcher is sound and complete for the
      renderings of the well-formed parses, and under decidable side conditions a name has at most one parse;
    * facts about the data extracted NOW: the hand-written assembly / labelling / lookup models of `CijModel/VRH.lean`
      are the evaluation of the generated index data and dispatch tables, for all inputs;
    * the read-through-memo corollary for the generated property graph of `CijVolumeBaseInterface`.
-/
import CijModel.CalcGlue
import Generated.CalcGlueSpec
import CijProofs.Lemmas.VRH
import CijProofs.Lemmas.OrderFree
import CijProofs.Lemmas.MemoHistory
import Mathlib.Tactic.IntervalCases

namespace Cij.CalcGlue
open Cij Cij.VRH

/-! ### `_calculate_compliances`: the generated index data evaluate to the hand-written model -/


theorem keyPairs_gen (k : Modulus) :
    keyPairs Generated.CalcGlue.complSpec k = k.voigt.map fun v => [(v.1, v.2), (v.2, v.1)] := by
  unfold keyPairs
  cases k.voigt with
  | none => rfl
  | some v => rfl

theorem writesCell_gen (k : Modulus) (i j : Int) :
    writesCell Generated.CalcGlue.complSpec k (i - 1) (j - 1) = decide ((i, j) ∈ writes k) := by
  unfold writesCell writes
  rw [keyPairs_gen]
  cases k.voigt with
  | none => simp
  | some v =>
    obtain ⟨a, b⟩ := v
    simp only [Option.map_some, List.any_cons, List.any_nil, Bool.or_false, Generated.CalcGlue.complSpec, Affine.eval]
    rw [Bool.eq_iff_iff]
    simp only [Bool.or_eq_true, Bool.and_eq_true, beq_iff_eq, decide_eq_true_eq, List.mem_cons, Prod.mk.injEq,
      List.not_mem_nil, or_false, if_true, if_false, one_ne_zero]
    constructor
    · rintro (⟨h1, h2⟩ | ⟨h1, h2⟩)
      · left; constructor <;> omega
      · right; constructor <;> omega
    · rintro (⟨h1, h2⟩ | ⟨h1, h2⟩)
      · left; constructor <;> omega
      · right; constructor <;> omega

theorem assembleSpec_gen {α : Type} [Scalar α] (kv : KV α) (i j : Int) :
    assembleSpec Generated.CalcGlue.complSpec kv (i - 1) (j - 1) = assembleEntry kv i j := by
  unfold assembleSpec assembleEntry
  congr 1
  funext acc e
  rw [writesCell_gen]
  by_cases h : (i, j) ∈ writes e.1 <;> simp [h]

theorem allPairs_eq_product : allPairs = (product 6 6).map fun p => (p.1 + 1, p.2 + 1) := by decide

theorem complDictSpec_gen {α : Type} (S : Nat → Nat → Int → Int → α) (nt nv : Nat) :
    complDictSpec Generated.CalcGlue.complSpec S nt nv = complDict S nt nv := by
  unfold complDictSpec complDict
  rw [allPairs_eq_product, List.filterMap_map]
  congr 1
  funext p
  simp only [Generated.CalcGlue.complSpec, Affine.eval, cmpOp, Function.comp]
  by_cases h : p.1 > p.2
  · have h' : p.1 + 1 > p.2 + 1 := by omega
    simp [h, h']
  · have h' : ¬ p.1 + 1 > p.2 + 1 := by omega
    simp [h, h']


/-! ### the name matcher, for any extracted pattern -/


/-- the string a parse stands for -/
def render (rx : RegexParts) (q : Parsed) (withSep : Bool) : List Char :=
  q.pre :: ((if withSep then [rx.sep] else []) ++ (q.digits ++ q.suf.toList))

/-- a parse the pattern allows -/
def WellFormed (rx : RegexParts) (q : Parsed) : Prop :=
  rx.prefixes.contains q.pre = true ∧ rx.alts.any (inAlt · q.digits) = true ∧
    (match q.suf with
     | some c => rx.suffixes.contains c = true
     | none => rx.suffixOptional = true)

theorem afterSep_mem (rx : RegexParts) (r r1 : List Char) (h : r1 ∈ afterSep rx r) :
    r = rx.sep :: r1 ∨ (rx.sepOptional = true ∧ r = r1) := by
  unfold afterSep at h
  rcases List.mem_append.1 h with h | h
  · cases r with
    | nil => simp at h
    | cons c r' =>
      by_cases hc : c = rx.sep
      · simp [hc] at h; left; rw [hc, h]
      · simp [hc] at h
  · by_cases ho : rx.sepOptional = true
    · simp [ho] at h; right; exact ⟨ho, h.symm⟩
    · simp [ho] at h

theorem sufSplits_mem (rx : RegexParts) (r : List Char) (ds : List Char × Option Char) (h : ds ∈ sufSplits rx r) :
    r = ds.1 ++ ds.2.toList ∧
      (match ds.2 with
       | some c => rx.suffixes.contains c = true
       | none => rx.suffixOptional = true) := by
  unfold sufSplits at h
  rcases List.mem_append.1 h with h | h
  · cases hl : r.getLast? with
    | none => rw [hl] at h; simp at h
    | some c =>
      rw [hl] at h
      dsimp only at h
      by_cases hc : rx.suffixes.contains c = true
      · rw [if_pos hc, List.mem_singleton] at h
        subst h
        obtain ⟨ys, rfl⟩ := List.getLast?_eq_some_iff.1 hl
        exact ⟨by simp, hc⟩
      · rw [if_neg hc] at h; simp at h
  · by_cases ho : rx.suffixOptional = true
    · rw [if_pos ho, List.mem_singleton] at h
      subst h
      exact ⟨by simp, ho⟩
    · rw [if_neg ho] at h; simp at h

theorem matchCore_sound (rx : RegexParts) (name : List Char) (q : Parsed) (h : matchCore rx name = some q) :
    WellFormed rx q ∧ (name = render rx q true ∨ (rx.sepOptional = true ∧ name = render rx q false)) := by
  cases name with
  | nil => simp [matchCore] at h
  | cons p r =>
    simp only [matchCore] at h
    by_cases hp : rx.prefixes.contains p = true
    · rw [if_pos hp] at h
      obtain ⟨r1, hr1, h1⟩ := List.exists_of_findSome?_eq_some h
      obtain ⟨ds, hds, h2⟩ := List.exists_of_findSome?_eq_some h1
      by_cases ha : rx.alts.any (inAlt · ds.1) = true
      · rw [if_pos ha] at h2
        cases h2
        obtain ⟨e1, e2⟩ := sufSplits_mem rx r1 ds hds
        refine ⟨⟨hp, ha, e2⟩, ?_⟩
        rcases afterSep_mem rx r r1 hr1 with e | ⟨ho, e⟩
        · left; simp [render, e, e1]
        · right; exact ⟨ho, by simp [render, e, e1]⟩
      · rw [if_neg ha] at h2; cases h2
    · rw [if_neg hp] at h; cases h

theorem matchCore_complete (rx : RegexParts) (q : Parsed) (hq : WellFormed rx q) (withSep : Bool)
    (hs : withSep = false → rx.sepOptional = true) : (matchCore rx (render rx q withSep)).isSome = true := by
  obtain ⟨hp, ha, hsuf⟩ := hq
  simp only [render, matchCore]
  rw [if_pos hp, List.findSome?_isSome_iff]
  refine ⟨q.digits ++ q.suf.toList, ?_, ?_⟩
  · unfold afterSep
    cases withSep with
    | true => simp
    | false => simp [hs rfl]
  · rw [List.findSome?_isSome_iff]
    refine ⟨(q.digits, q.suf), ?_, by simp [ha]⟩
    unfold sufSplits
    cases hsf : q.suf with
    | none =>
      rw [hsf] at hsuf
      simp only [Option.toList_none, List.append_nil]
      exact List.mem_append_right _ (by simp [hsuf])
    | some c =>
      rw [hsf] at hsuf
      simp only at hsuf
      have hm : c ∈ rx.suffixes := by simpa using hsuf
      apply List.mem_append_left
      simp [hm]

/-! ### at most one parse -/

/-- `c` is in one of the digit classes -/
def isDigitChar (rx : RegexParts) (c : Char) : Bool := rx.alts.any fun a => decide (a.lo ≤ c) && decide (c ≤ a.hi)

/-- side conditions under which a string has at most one parse: every alternative of group 2 needs at least one
character; neither the separator nor a suffix character is in a digit class -/
def Unambiguous (rx : RegexParts) : Bool :=
  rx.alts.all (fun a => decide (1 ≤ a.min)) && !isDigitChar rx rx.sep && rx.suffixes.all fun c => !isDigitChar rx c

theorem wf_digits (rx : RegexParts) (hu : Unambiguous rx = true) (q : Parsed) (hq : WellFormed rx q) :
    q.digits ≠ [] ∧ (∀ c ∈ q.digits, isDigitChar rx c = true) ∧ ∀ c ∈ q.suf.toList, isDigitChar rx c = false := by
  obtain ⟨_, ha, hs⟩ := hq
  simp only [Unambiguous, Bool.and_eq_true, List.all_eq_true, decide_eq_true_eq, Bool.not_eq_true'] at hu
  obtain ⟨⟨hmin, _⟩, hsuf⟩ := hu
  obtain ⟨a, hma, hin⟩ := List.any_eq_true.1 ha
  simp only [inAlt, Bool.and_eq_true, decide_eq_true_eq, List.all_eq_true] at hin
  refine ⟨?_, ?_, ?_⟩
  · intro h0
    have := hmin a hma
    rw [h0] at hin
    simp at hin
    omega
  · intro c hc
    exact List.any_eq_true.2 ⟨a, hma, by simpa using hin.2 c hc⟩
  · intro c hc
    cases hsf : q.suf with
    | none => rw [hsf] at hc; simp at hc
    | some c' =>
      rw [hsf] at hc hs
      simp only [Option.toList_some, List.mem_singleton] at hc
      subst hc
      have hm : c ∈ rx.suffixes := by simpa using hs
      simpa using hsuf c hm

theorem split_unique (P : Char → Bool) (d d' s s' : List Char) (hd : ∀ c ∈ d, P c = true) (hd' : ∀ c ∈ d', P c = true)
    (hs : ∀ c ∈ s, P c = false) (hs' : ∀ c ∈ s', P c = false) (h : d ++ s = d' ++ s') : d = d' ∧ s = s' := by
  have key : ∀ (d s : List Char), (∀ c ∈ d, P c = true) → (∀ c ∈ s, P c = false) → (d ++ s).takeWhile P = d := by
    intro d s hd hs
    rw [List.takeWhile_append_of_pos hd]
    cases s with
    | nil => simp
    | cons c r => simp [List.takeWhile, hs c (by simp)]
  have e : d = d' := by rw [← key d s hd hs, h, key d' s' hd' hs']
  subst e
  exact ⟨rfl, List.append_cancel_left h⟩

theorem toList_inj (a b : Option Char) (h : a.toList = b.toList) : a = b := by
  cases a <;> cases b <;> simp_all

theorem render_inj (rx : RegexParts) (hu : Unambiguous rx = true) (q q' : Parsed) (hq : WellFormed rx q)
    (hq' : WellFormed rx q') (b b' : Bool) (h : render rx q b = render rx q' b') : q = q' ∧ b = b' := by
  obtain ⟨hne, hd, hs⟩ := wf_digits rx hu q hq
  obtain ⟨hne', hd', hs'⟩ := wf_digits rx hu q' hq'
  have hsep : isDigitChar rx rx.sep = false := by
    simp only [Unambiguous, Bool.and_eq_true, Bool.not_eq_true'] at hu
    exact hu.1.2
  simp only [render, List.cons.injEq] at h
  obtain ⟨hpre, ht⟩ := h
  have same : ∀ (x y : Parsed), x.pre = y.pre → x.digits ++ x.suf.toList = y.digits ++ y.suf.toList →
      (∀ c ∈ x.digits, isDigitChar rx c = true) → (∀ c ∈ y.digits, isDigitChar rx c = true) →
      (∀ c ∈ x.suf.toList, isDigitChar rx c = false) → (∀ c ∈ y.suf.toList, isDigitChar rx c = false) → x = y := by
    intro x y h1 h2 a1 a2 a3 a4
    obtain ⟨e1, e2⟩ := split_unique (isDigitChar rx) _ _ _ _ a1 a2 a3 a4 h2
    cases x; cases y
    simp only at h1 e1 e2
    rw [h1, e1, toList_inj _ _ e2]
  have mixed : ∀ (x y : Parsed), y.digits ≠ [] → (∀ c ∈ y.digits, isDigitChar rx c = true) →
      [rx.sep] ++ (x.digits ++ x.suf.toList) = y.digits ++ y.suf.toList → False := by
    intro x y hn a2 h2
    cases hy : y.digits with
    | nil => exact hn hy
    | cons c r =>
      rw [hy] at h2 a2
      simp only [List.cons_append, List.cons.injEq] at h2
      have := a2 c (by simp)
      rw [← h2.1, hsep] at this
      cases this
  cases b <;> cases b'
  · exact ⟨same q q' hpre (by simpa using ht) hd hd' hs hs', rfl⟩
  · exact (mixed q' q hne hd (by simpa using ht.symm)).elim
  · exact (mixed q q' hne' hd' (by simpa using ht)).elim
  · exact ⟨same q q' hpre (by simpa using ht) hd hd' hs hs', rfl⟩

/-- `matchCore` returns THE parse of a well-formed rendering -/
theorem matchCore_render (rx : RegexParts) (hu : Unambiguous rx = true) (q : Parsed) (hq : WellFormed rx q) (withSep : Bool)
    (hs : withSep = false → rx.sepOptional = true) : matchCore rx (render rx q withSep) = some q := by
  have h := matchCore_complete rx q hq withSep hs
  cases hm : matchCore rx (render rx q withSep) with
  | none => rw [hm] at h; cases h
  | some q' =>
    obtain ⟨hq', hr⟩ := matchCore_sound rx _ q' hm
    rcases hr with hr | ⟨_, hr⟩
    · rw [(render_inj rx hu q q' hq hq' _ _ hr).1]
    · rw [(render_inj rx hu q q' hq hq' _ _ hr).1]

/-! ### `re.search` / `re.match` / `re.fullmatch` on the anchored pattern -/

/-- a newline is not a character of the pattern (so `$` before a trailing newline is the only way to accept one) -/
def nlFree (rx : RegexParts) : Bool :=
  !rx.prefixes.contains '\n' && !(rx.sep == '\n') && !isDigitChar rx '\n' && !rx.suffixes.contains '\n'

theorem render_no_nl (rx : RegexParts) (hn : nlFree rx = true) (q : Parsed) (hq : WellFormed rx q) (b : Bool) :
    '\n' ∉ render rx q b := by
  simp only [nlFree, Bool.and_eq_true, Bool.not_eq_true', beq_eq_false_iff_ne, ne_eq] at hn
  obtain ⟨⟨⟨h1, h2⟩, h3⟩, h4⟩ := hn
  obtain ⟨hp, ha, hs⟩ := hq
  intro hm
  simp only [render, List.mem_cons, List.mem_append] at hm
  rcases hm with hm | hm | hm | hm
  · rw [← hm, h1] at hp; cases hp
  · cases b
    · simp at hm
    · simp only [if_true, List.mem_singleton] at hm; exact h2 hm.symm
  · obtain ⟨a, hma, hin⟩ := List.any_eq_true.1 ha
    simp only [inAlt, Bool.and_eq_true, decide_eq_true_eq, List.all_eq_true] at hin
    have : isDigitChar rx '\n' = true := List.any_eq_true.2 ⟨a, hma, by simpa using hin.2 _ hm⟩
    rw [h3] at this; cases this
  · cases hsf : q.suf with
    | none => rw [hsf] at hm; simp at hm
    | some c =>
      rw [hsf] at hm hs
      simp only [Option.toList_some, List.mem_singleton] at hm
      rw [← hm] at hs
      dsimp only at hs
      rw [h4] at hs; cases hs

/-- the names accepted, with their groups: exactly the renderings of the well-formed parses, optionally followed by one
newline unless `fullmatch` is used -/
theorem matchName_iff (rx : RegexParts) (fn : String) (hanch : rx.anchoredStart = true ∧ rx.anchoredEnd = true)
    (hu : Unambiguous rx = true) (hn : nlFree rx = true) (name : List Char) (q : Parsed) :
    matchName rx fn name = some q ↔
      WellFormed rx q ∧ ∃ b : Bool, (b = false → rx.sepOptional = true) ∧
        (name = render rx q b ∨ (fn ≠ "fullmatch" ∧ name = render rx q b ++ ['\n'])) := by
  unfold matchName
  rw [hanch.1, hanch.2]
  simp only [Bool.and_self, if_true]
  constructor
  · intro h
    cases hm : matchCore rx name with
    | some q' =>
      rw [hm] at h
      cases h
      obtain ⟨hq, hr⟩ := matchCore_sound rx name q hm
      refine ⟨hq, ?_⟩
      rcases hr with hr | ⟨ho, hr⟩
      · exact ⟨true, by simp, Or.inl hr⟩
      · exact ⟨false, fun _ => ho, Or.inl hr⟩
    | none =>
      rw [hm] at h
      simp only at h
      by_cases hc : (fn != "fullmatch" && name.getLast? == some '\n') = true
      · rw [if_pos hc] at h
        simp only [Bool.and_eq_true, bne_iff_ne, ne_eq, beq_iff_eq] at hc
        obtain ⟨ys, rfl⟩ := List.getLast?_eq_some_iff.1 hc.2
        simp only [List.dropLast_concat] at h
        obtain ⟨hq, hr⟩ := matchCore_sound rx ys q h
        refine ⟨hq, ?_⟩
        rcases hr with hr | ⟨ho, hr⟩
        · exact ⟨true, by simp, Or.inr ⟨hc.1, by rw [hr]⟩⟩
        · exact ⟨false, fun _ => ho, Or.inr ⟨hc.1, by rw [hr]⟩⟩
      · rw [if_neg hc] at h; cases h
  · rintro ⟨hq, b, hb, hr | ⟨hf, hr⟩⟩
    · rw [hr, matchCore_render rx hu q hq b hb]
    · have hnone : matchCore rx name = none := by
        cases hm : matchCore rx name with
        | none => rfl
        | some q' =>
          obtain ⟨hq', hr'⟩ := matchCore_sound rx name q' hm
          have hmem : '\n' ∈ name := by rw [hr]; simp
          rcases hr' with hr' | ⟨_, hr'⟩
          · rw [hr'] at hmem; exact (render_no_nl rx hn q' hq' _ hmem).elim
          · rw [hr'] at hmem; exact (render_no_nl rx hn q' hq' _ hmem).elim
      rw [hnone]
      simp only
      have hl : name.getLast? = some '\n' := by rw [hr]; simp
      have hc : (fn != "fullmatch" && name.getLast? == some '\n') = true := by
        simp only [Bool.and_eq_true, bne_iff_ne, ne_eq, beq_iff_eq]; exact ⟨hf, hl⟩
      rw [if_pos hc, hr]
      simp only [List.dropLast_concat]
      exact matchCore_render rx hu q hq b hb

/-! ### the pattern, the match function and the dispatch extracted NOW -/

open Generated.CalcGlue

theorem gen_anchored : regexParts.anchoredStart = true ∧ regexParts.anchoredEnd = true := by decide
theorem gen_unambiguous : Unambiguous regexParts = true := by decide
theorem gen_nlFree : nlFree regexParts = true := by decide

/-- a parse the CURRENT `REGEX_CIJ` allows, spelled out -/
def GoodParse (q : Parsed) : Prop :=
  (q.pre = 'c' ∨ q.pre = 's') ∧
  ((q.digits.length = 2 ∧ ∀ c ∈ q.digits, '1' ≤ c ∧ c ≤ '6') ∨ (q.digits.length = 4 ∧ ∀ c ∈ q.digits, '1' ≤ c ∧ c ≤ '3')) ∧
  (q.suf = none ∨ q.suf = some 's' ∨ q.suf = some 't')

theorem wf_gen (q : Parsed) : WellFormed regexParts q ↔ GoodParse q := by
  obtain ⟨p, d, s⟩ := q
  simp only [WellFormed, GoodParse, regexParts, inAlt, List.contains_cons, List.contains_nil, Bool.or_false, Bool.or_eq_true,
    beq_iff_eq, List.any_cons, List.any_nil, Bool.and_eq_true, decide_eq_true_eq, List.all_eq_true]
  refine and_congr Iff.rfl (and_congr ?_ ?_)
  · constructor
    · rintro (⟨⟨h1, h2⟩, h3⟩ | ⟨⟨h1, h2⟩, h3⟩)
      · exact Or.inl ⟨by omega, h3⟩
      · exact Or.inr ⟨by omega, h3⟩
    · rintro (⟨h1, h3⟩ | ⟨h1, h3⟩)
      · exact Or.inl ⟨⟨by omega, by omega⟩, h3⟩
      · exact Or.inr ⟨⟨by omega, by omega⟩, h3⟩
  · cases s with
    | none => simp
    | some c => simp

/-- the names the CURRENT pattern and match function accept, with their groups -/
theorem matchName_gen (name : List Char) (q : Parsed) :
    matchName regexParts getattrMatchFn name = some q ↔
      GoodParse q ∧ ∃ u, (u = [] ∨ u = ['_']) ∧ ∃ nl, (nl = [] ∨ nl = ['\n']) ∧
        name = q.pre :: (u ++ (q.digits ++ q.suf.toList)) ++ nl := by
  rw [matchName_iff regexParts getattrMatchFn gen_anchored gen_unambiguous gen_nlFree, wf_gen]
  refine and_congr Iff.rfl ?_
  have hfn : getattrMatchFn ≠ "fullmatch" := by decide
  constructor
  · rintro ⟨b, _, h | ⟨_, h⟩⟩
    · cases b
      · exact ⟨[], Or.inl rfl, [], Or.inl rfl, by simp [h, render]⟩
      · exact ⟨['_'], Or.inr rfl, [], Or.inl rfl, by simp [h, render, regexParts]⟩
    · cases b
      · exact ⟨[], Or.inl rfl, ['\n'], Or.inr rfl, by simp [h, render]⟩
      · exact ⟨['_'], Or.inr rfl, ['\n'], Or.inr rfl, by simp [h, render, regexParts]⟩
  · rintro ⟨u, hu, nl, hnl, h⟩
    rcases hu with rfl | rfl <;> rcases hnl with rfl | rfl
    · exact ⟨false, fun _ => rfl, Or.inl (by simp [h, render])⟩
    · exact ⟨false, fun _ => rfl, Or.inr ⟨hfn, by simp [h, render]⟩⟩
    · exact ⟨true, by simp, Or.inl (by simp [h, render, regexParts])⟩
    · exact ⟨true, by simp, Or.inr ⟨hfn, by simp [h, render, regexParts]⟩⟩

/-! ### `c_(res.group(2))` never raises on an accepted name -/

theorem char_between (lo hi c : Char) (h1 : lo ≤ c) (h2 : c ≤ hi) :
    c ∈ (List.range (hi.toNat + 1 - lo.toNat)).map fun k => Char.ofNat (lo.toNat + k) := by
  have e1 : lo.toNat ≤ c.toNat := UInt32.le_iff_toNat_le.1 (Char.le_def.1 h1)
  have e2 : c.toNat ≤ hi.toNat := UInt32.le_iff_toNat_le.1 (Char.le_def.1 h2)
  refine List.mem_map.2 ⟨c.toNat - lo.toNat, List.mem_range.2 (by omega), ?_⟩
  rw [show lo.toNat + (c.toNat - lo.toNat) = c.toNat by omega, Char.ofNat_toNat]

theorem char_16 (c : Char) (h1 : '1' ≤ c) (h2 : c ≤ '6') : c ∈ ['1', '2', '3', '4', '5', '6'] := by
  obtain ⟨a, ha, rfl⟩ : ∃ a < 6, Char.ofNat (49 + a) = c := by simpa using char_between '1' '6' c h1 h2
  interval_cases a <;> decide

theorem char_13 (c : Char) (h1 : '1' ≤ c) (h2 : c ≤ '3') : c ∈ ['1', '2', '3'] := by
  obtain ⟨a, ha, rfl⟩ : ∃ a < 3, Char.ofNat (49 + a) = c := by simpa using char_between '1' '3' c h1 h2
  interval_cases a <;> decide

/-- all strings of length `n` over `cs` -/
def strsOver (cs : List Char) : Nat → List (List Char)
  | 0 => [[]]
  | n + 1 => cs.flatMap fun c => (strsOver cs n).map (c :: ·)

theorem mem_strsOver (cs : List Char) : ∀ (d : List Char), (∀ c ∈ d, c ∈ cs) → d ∈ strsOver cs d.length
  | [], _ => by simp [strsOver]
  | c :: r, h => by
    simp only [List.length_cons, strsOver, List.mem_flatMap, List.mem_map]
    exact ⟨c, h c (by simp), r, mem_strsOver cs r (fun x hx => h x (by simp [hx])), rfl⟩

/-- the digit strings of the current pattern, enumerated -/
def digitStrings : List (List Char) := strsOver ['1', '2', '3', '4', '5', '6'] 2 ++ strsOver ['1', '2', '3'] 4

theorem good_digits (q : Parsed) (hq : GoodParse q) : q.digits ∈ digitStrings := by
  obtain ⟨_, hd, _⟩ := hq
  unfold digitStrings
  rcases hd with ⟨hl, hc⟩ | ⟨hl, hc⟩
  · apply List.mem_append_left
    rw [← hl]
    exact mem_strsOver _ _ (fun c hm => char_16 c (hc c hm).1 (hc c hm).2)
  · apply List.mem_append_right
    rw [← hl]
    exact mem_strsOver _ _ (fun c hm => char_13 c (hc c hm).1 (hc c hm).2)

/-- the Voigt pair a digit string names: `IJ` ↦ (I, J); `ijkl` ↦ (voigt ij, voigt kl) -/
def pairOfDigits (d : List Char) : Int × Int :=
  let n (c : Char) : Int := Int.ofNat (c.toNat - '0'.toNat)
  match d with
  | [a, b] => (n a, n b)
  | [a, b, c, e] => (vidx (n a) (n b), vidx (n c) (n e))
  | _ => (0, 0)

/-- every accepted digit string is a key: the canonical key of the unordered Voigt pair it names -/
theorem create_digits : ∀ d ∈ digitStrings,
    Modulus.create [.str (String.ofList d)] = some (keyOfVoigt (canon (pairOfDigits d))) ∧
      canon (pairOfDigits d) ∈ keys21 := by
  decide +kernel

/-! ### `__getattr__`: which store serves an accepted name -/

/-- what `__getattr__` does with an accepted name, as a function of its groups: `c…` names need the key in
`modulus_keys` and are served from `modulus_isothermal` exactly when the suffix is `t`, otherwise from `modulus_adiabatic`;
`s…` names need the key in `_compliances` (the inverse of the ADIABATIC stiffness) and are served from it for suffix `s` or none;
with suffix `t` AttributeError (there is no isothermal compliance table).  (Before the repair of the source the inner test read
`res.group(1) == 't'`, which never holds, and `s11t` returned the adiabatic compliance: that spelling no longer checks against this.) -/
def expected (hasKey : String → Modulus → Bool) (q : Parsed) : Outcome :=
  let key := keyOfVoigt (canon (pairOfDigits q.digits))
  if q.pre = 'c' then
    if hasKey "modulus_keys" key then
      (if q.suf = some 't' then .served "modulus_isothermal" key else .served "modulus_adiabatic" key)
    else .attributeError
  else
    if hasKey "_compliances" key then
      (if q.suf = some 't' then .attributeError else .served "_compliances" key)
    else .attributeError

theorem resolve_gen (hasKey : String → Modulus → Bool) (name : String) :
    resolve regexParts getattrMatchFn getattrBranches hasKey name =
      match matchName regexParts getattrMatchFn name.toList with
      | none => .attributeError
      | some q => expected hasKey q := by
  unfold resolve
  cases hm : matchName regexParts getattrMatchFn name.toList with
  | none => rfl
  | some q =>
    obtain ⟨hq, _⟩ := (matchName_gen _ q).1 hm
    have hk := (create_digits q.digits (good_digits q hq)).1
    obtain ⟨hp, _, hs⟩ := hq
    obtain ⟨p, d, s⟩ := q
    simp only at hp hs hk
    rcases hp with rfl | rfl <;> rcases hs with rfl | rfl | rfl <;>
      simp [getattrBranches, groupVal, hk, expected] <;> (split <;> simp_all)

/-! ### the lookups of the hand-written model (`getC`, `getS`: the names `cIJ`, `sIJ`) are this dispatch -/

theorem hasKey_modulus_keys {β : Type} (s : Stores β) (k : Modulus) : s.hasKey "modulus_keys" k = s.keys.any fun k' => decide (k' = k) := by
  unfold Stores.hasKey; rw [if_pos rfl]

theorem get_adiabatic {β : Type} (s : Stores β) : s.get "modulus_adiabatic" = some s.adiabatic := by
  unfold Stores.get; rw [if_pos rfl]

theorem get_isothermal {β : Type} (s : Stores β) : s.get "modulus_isothermal" = some s.isothermal := by
  unfold Stores.get; rw [if_neg (by decide), if_pos rfl]

theorem get_compliances {β : Type} (s : Stores β) : s.get "_compliances" = some s.compliances := by
  unfold Stores.get; rw [if_neg (by decide), if_neg (by decide), if_pos rfl]

theorem hasKey_compliances {β : Type} (s : Stores β) (k : Modulus) :
    s.hasKey "_compliances" k = (find s.compliances k).isSome := by
  unfold Stores.hasKey; rw [if_neg (by decide), get_compliances]

theorem lookup_c_gen {β : Type} (s : Stores β) (hkeys : s.keys = s.adiabatic.map (·.1)) (name : String) (d : List Char)
    (suf : Option Char) (hsuf : suf ≠ some 't')
    (hm : matchName regexParts getattrMatchFn name.toList = some ⟨'c', d, suf⟩) :
    lookup regexParts getattrMatchFn getattrBranches s name = find s.adiabatic (keyOfVoigt (canon (pairOfDigits d))) := by
  unfold lookup
  rw [resolve_gen, hm]
  show (match expected s.hasKey ⟨'c', d, suf⟩ with
    | .served st key => (s.get st).bind fun d => find d key
    | _ => none) = _
  unfold expected
  rw [if_pos rfl, hasKey_modulus_keys, hkeys, if_neg hsuf]
  by_cases hmem : keyOfVoigt (canon (pairOfDigits d)) ∈ s.adiabatic.map (·.1)
  · rw [if_pos (List.any_eq_true.2 ⟨_, hmem, by simp⟩)]
    show (s.get "modulus_adiabatic").bind _ = _
    rw [get_adiabatic]; rfl
  · rw [if_neg (fun h => hmem (by obtain ⟨x, hx, e⟩ := List.any_eq_true.1 h; rw [← of_decide_eq_true e]; exact hx)),
      find_none_of_not_mem _ _ hmem]

theorem lookup_s_gen {β : Type} (s : Stores β) (name : String) (d : List Char) (suf : Option Char) (hsuf : suf ≠ some 't')
    (hm : matchName regexParts getattrMatchFn name.toList = some ⟨'s', d, suf⟩) :
    lookup regexParts getattrMatchFn getattrBranches s name = find s.compliances (keyOfVoigt (canon (pairOfDigits d))) := by
  unfold lookup
  rw [resolve_gen, hm]
  show (match expected s.hasKey ⟨'s', d, suf⟩ with
    | .served st key => (s.get st).bind fun d => find d key
    | _ => none) = _
  unfold expected
  have hsc : ¬ (⟨'s', d, suf⟩ : Parsed).pre = 'c' := by show ¬ 's' = 'c'; decide
  rw [if_neg hsc, hasKey_compliances, if_neg hsuf]
  cases hf : find s.compliances (keyOfVoigt (canon (pairOfDigits d))) with
  | none => rfl
  | some x =>
    rw [Option.isSome_some, if_pos rfl]
    show (s.get "_compliances").bind _ = _
    rw [get_compliances]; exact hf

/-- an accepted `s…t` name raises AttributeError whatever the dictionaries hold -/
theorem resolve_s_t_gen (hasKey : String → Modulus → Bool) (name : String) (d : List Char)
    (hm : matchName regexParts getattrMatchFn name.toList = some ⟨'s', d, some 't'⟩) :
    resolve regexParts getattrMatchFn getattrBranches hasKey name = .attributeError := by
  rw [resolve_gen, hm]
  show expected hasKey ⟨'s', d, some 't'⟩ = _
  unfold expected
  have hsc : ¬ (⟨'s', d, some 't'⟩ : Parsed).pre = 'c' := by show ¬ 's' = 'c'; decide
  rw [if_neg hsc]
  split
  · rw [if_pos rfl]
  · rfl

/-- the names `cIJ` / `sIJ` the averages read: accepted, with these groups, and `attrKey` is the key they name -/
theorem names_IJ : ∀ p ∈ allPairs,
    matchName regexParts getattrMatchFn ("c" ++ toString p.1 ++ toString p.2).toList
        = some ⟨'c', (toString p.1 ++ toString p.2).toList, none⟩ ∧
    matchName regexParts getattrMatchFn ("s" ++ toString p.1 ++ toString p.2).toList
        = some ⟨'s', (toString p.1 ++ toString p.2).toList, none⟩ ∧
    attrKey p.1 p.2 = some (keyOfVoigt (canon (pairOfDigits (toString p.1 ++ toString p.2).toList))) := by
  decide +kernel

/-! ### the reported compliance under a label is the entry of THE inverse, whatever the order of the keys -/

theorem keys_perm (inp inp' : Inputs ℝ) (hk : Keys inp) (hp : inp.modAd.Perm inp'.modAd) : Keys inp' :=
  ⟨fun k hk1 => hk.canon k ((hp.map _).mem_iff.2 hk1), (hp.map _).nodup_iff.1 hk.nodup,
   fun p hp1 => (hp.map _).mem_iff.1 (hk.ortho p hp1)⟩

/-- the assembled 6×6 does not see the order of `modulus_keys` -/
theorem Cmat_perm (inp inp' : Inputs ℝ) (hk : Keys inp) (hp : inp.modAd.Perm inp'.modAd) (t v : Nat) (i j : Int)
    (hij : (i, j) ∈ allPairs) : Cmat inp t v i j = Cmat inp' t v i j := by
  rw [(Cmat_eq inp hk t v i j hij).1, (Cmat_eq inp' (keys_perm inp inp' hk hp) t v i j hij).1]
  unfold val
  have hperm : (kvAt inp.modAd t v).Perm (kvAt inp'.modAd t v) := hp.map _
  have hnd : ((kvAt inp.modAd t v).map (·.1)).Nodup := by rw [map_fst_kvAt]; exact hk.nodup
  rw [OrderFree.find_perm hperm hnd]

open Matrix in
/-- a right inverse IS the inverse -/
theorem right_inv_eq_inv (C S : Matrix (Fin 6) (Fin 6) ℝ) (h : C * S = 1) : S = C⁻¹ :=
  (Matrix.inv_eq_right_inv h).symm

/-! ### shared state, in-place operations, `__init__` -/

open Generated.CalcGlue in
/-- nothing in the module can carry state from one object (or one call) to another: no class has a base class, a
metaclass or a class decorator; class bodies contain only definitions and constants; the module level only constants
and the logger; no mutable default argument; no `global` / `nonlocal`; every decorator is `property` or `LazyProperty`
(the one of the `lazy_property` package: cache in the INSTANCE attribute `_<name>`); no name is defined twice in a
class; the only special methods are `__init__`, `__getattr__`, `__getitem__` -/
def NoSharedState : Prop :=
  (∀ e ∈ classBases, e.2 = []) ∧ (∀ e ∈ classAssigns, immutableKind e.2.2 = true) ∧ classOtherStatements = [] ∧
  (∀ e ∈ moduleAssigns, immutableKind e.2 = true) ∧ moduleOtherStatements = [] ∧ nonConstDefaults = [] ∧
  scopeDeclarations = [] ∧ lazyPropertyImport = ["lazy_property.LazyProperty"] ∧
  (∀ m ∈ methodFacts, m.kind = "method" ∨ m.kind = "property" ∨ m.kind = "LazyProperty") ∧
  (∀ e ∈ classNames, e.2.Nodup) ∧
  (∀ e ∈ classDunders, ∀ n ∈ e.2, n = "__init__" ∨ n = "__getattr__" ∨ n = "__getitem__")

instance : Decidable NoSharedState := by unfold NoSharedState; infer_instance

open Generated.CalcGlue in
/-- no property body (plain or lazy) of any class performs an in-place operation on anything reachable from `self`
without a copy, nor rebinds an attribute; the only METHOD that writes into an existing container is
`_calculate_compliances`, which fills the dict it has just created and assigned (`self._compliances = {}`) -/
def NoInplace : Prop :=
  (∀ m ∈ methodFacts, m.kind ≠ "method" → m.inplace = []) ∧
  (methodFacts.filter fun m => !m.inplace.isEmpty).map (fun m => (m.cls, m.name)) = [("Calculator", "_calculate_compliances")]

instance : Decidable NoInplace := by unfold NoInplace; infer_instance

/-! ### the property graph of `CijVolumeBaseInterface` as a read-through memo -/

open Cij.Memo Cij.LazyGraph in
/-- whatever was read before (`before`: any list of property names, repeated or not), the values the read of `p` sees
from the cache / computes are the pure denotations — for any ranked table -/
theorem reads_history_free {β : Type} [Inhabited β] (tab : Tab) (hr : ranked tab = true) (f : String → List β → β)
    (before : List String) (p : String) :
    ∃ vs t', history (defsOf tab f) (fuelOf tab) (before.flatMap (expandOp tab) ++ expandOp tab p) [] = some (vs, t') ∧
      vs.drop (before.flatMap (expandOp tab)).length = (expandOp tab p).map (specOf (rank tab) (defsOf tab f)) := by
  have hdefs := defsOf_readsBelow (β := β) hr f
  have htot := history_total hdefs (fuelOf tab) (rank_lt_fuel hr) (before.flatMap (expandOp tab) ++ expandOp tab p) []
  cases h : history (defsOf tab f) (fuelOf tab) (before.flatMap (expandOp tab) ++ expandOp tab p) [] with
  | none => simp [h] at htot
  | some q =>
    obtain ⟨vs, t'⟩ := q
    obtain ⟨hv, _⟩ := history_sound (specOf_spec hdefs) (fuelOf tab) _ [] vs t' (consistent_nil _) h
    refine ⟨vs, t', rfl, ?_⟩
    rw [hv, List.map_append, ← List.length_map (f := specOf (rank tab) (defsOf tab f)) (as := before.flatMap (expandOp tab)),
      List.drop_left]

/-! ### normal attribute lookup versus `__getattr__` -/

open Generated.CalcGlue

/-- the two interface classes as translated NOW -/
def volumeBaseShape : AttrShape := shapeOf classNames initAttrs laterAttrs lazyCacheAttrs "CijVolumeBaseInterface"
def pressureBaseShape : AttrShape := shapeOf classNames initAttrs laterAttrs lazyCacheAttrs "CijPressureBaseInterface"

/-- every name the class or one of its methods can put in the way of `__getattr__` -/
def AttrShape.all (sh : AttrShape) : List String := sh.classNames ++ sh.initAttrs ++ sh.laterAttrs ++ sh.lazyCaches

theorem defined_mem (sh : AttrShape) (name : String) (h : sh.defined name = true) : name ∈ sh.all := by
  simp only [AttrShape.defined, AttrShape.always, AttrShape.sometimes, Bool.or_eq_true, Bool.and_eq_true,
    List.contains_iff_mem] at h
  simp only [AttrShape.all, List.mem_append]
  rcases h with (h | h) | ⟨_, h | h⟩
  · exact Or.inl (Or.inl (Or.inl h))
  · exact Or.inl (Or.inl (Or.inr h))
  · exact Or.inl (Or.inr h)
  · exact Or.inr h

/-- normal lookup is not dynamic: no base class (so the MRO is the class and `object`), no `__getattribute__` / `__setattr__` /
`__slots__` / `__dict__` / `setattr` / `delattr` / `vars` anywhere in the classes, no attribute stored on another object than `self`,
`LazyProperty` is the one of the `lazy_property` package (cache attribute `_<name>` on the instance) -/
def StaticLookup : Prop :=
  (∀ e ∈ classBases, e.2 = []) ∧ dynamicAttrUses = [] ∧ foreignAttrStores = [] ∧
  (∀ e ∈ classNames, ∀ n ∈ e.2, n ≠ "__getattribute__" ∧ n ≠ "__setattr__" ∧ n ≠ "__delattr__" ∧ n ≠ "__slots__" ∧ n ≠ "__dict__") ∧
  lazyPropertyImport = ["lazy_property.LazyProperty"] ∧
  (∀ e ∈ lazyCacheAttrs, e.2 = ((methodFacts.filter fun m => m.cls == e.1 && m.kind == "LazyProperty").map fun m => "_" ++ m.name))

instance : Decidable StaticLookup := by unfold StaticLookup; infer_instance

/-- an accepted name begins with the prefix letter, never with an underscore -/
theorem accepted_not_dunder (name : String) (q : Parsed) (h : matchName regexParts getattrMatchFn name.toList = some q) :
    dunderLike name = false := by
  obtain ⟨⟨hp, _, _⟩, u, _, nl, _, hn⟩ := (matchName_gen _ q).1 h
  unfold dunderLike
  rw [hn]
  rcases hp with hp | hp <;> rw [hp] <;> cases u <;> simp

/-- if none of the finitely many names of the shape is in the language of the pattern, no name of the language is defined -/
theorem accepted_not_defined (sh : AttrShape) (hall : ∀ d ∈ sh.all, matchName regexParts getattrMatchFn d.toList = none)
    (name : String) (q : Parsed) (h : matchName regexParts getattrMatchFn name.toList = some q) : sh.defined name = false := by
  cases hd : sh.defined name with
  | false => rfl
  | true => rw [hall name (defined_mem sh name hd)] at h; cases h

theorem not_defined_split (sh : AttrShape) (name : String) (h : sh.defined name = false) :
    sh.always name = false ∧ sh.sometimes name = false := by
  simp only [AttrShape.defined, Bool.or_eq_false_iff] at h
  exact h

/-- `getattr` on a name the shape does not define and the interpreter does not provide IS `__getattr__` -/
theorem getattrOf_undefined {ρ : Type} (sh : AttrShape) (builtin : String → Bool) (f : String → ρ) (name : String)
    (hd : sh.defined name = false) (hb : builtin name = false) : getattrOf sh builtin f name = .fallback (f name) := by
  obtain ⟨h1, h2⟩ := not_defined_split sh name hd
  simp [getattrOf, h1, h2, hb]

theorem getattrOf_always {ρ : Type} (sh : AttrShape) (builtin : String → Bool) (f : String → ρ) (name : String)
    (hd : sh.always name = true) : getattrOf sh builtin f name = .attribute name := by
  simp [getattrOf, hd]

/-- the names of the CURRENT interface classes are outside the language of the CURRENT pattern (each checked with the model's matcher) -/
theorem volumeBase_names_rejected : ∀ d ∈ volumeBaseShape.all, matchName regexParts getattrMatchFn d.toList = none := by decide
theorem pressureBase_names_rejected : ∀ d ∈ pressureBaseShape.all, matchName regexParts getattrMatchFn d.toList = none := by decide

end Cij.CalcGlue
