/-
  C05 — `get_axial_strains`, `calculate_phonon_contribution`, `__init__`, `modulus_adiabatic` / `modulus_isothermal` and
  `Calculator._calculate_pressure_static` as translated on this run against the model (continuation of
  Lemmas/FullModulusGlueSource.lean); the sibling `fit_modulus` of `cij/cli/static.py`.
-/
import CijProofs.Lemmas.FullModulusGlueSource

namespace Cij.FMGlue
open Cij Cij.LeastSq Cij.FullModulus Generated.FullModulusGlue

section
variable {α : Type} [Field α] [BEq α]

/- see Lemmas/FullModulusGlueSource.lean: string comparisons only through lemmas, never by `whnf` inside `simp` -/
attribute [local irreducible] lookup isProp isPure findMethod

/-- the class as a method with `n` levels of calls left sees it -/
def Kn (C : Ctx α) (n : Nat) : Kernel α := ⟨isProp cls, isPure cls, callM cls C n⟩

/-- `tmp = params[[0, *range(len(params)), -1]]` -/
def tmpOf (p : List α) : List α := nth p 0 :: (p ++ [nth p (p.length - 1)])

/-- `(tmp[2:] - tmp[:-2]) / (tmp[2:] + tmp[:-2])` on `n` grid points -/
def colF (n : Nat) (p : List α) : List α :=
  (List.range n).map fun k => (nth (tmpOf p) (k + 2) - nth (tmpOf p) k) / (nth (tmpOf p) (k + 2) + nth (tmpOf p) k)

/-- the body of `for i in range(3)` in `get_axial_strains`, as translated -/
def axBody : List LStmt :=
  match m_get_axial_strains.body with
  | [_, _, _, _, .forRange _ _ b, _, _] => b
  | _ => []

omit [BEq α] in
theorem colOf_lattice (lat : List (List α)) (i : Nat) (hi : i < 3) (hrow : ∀ row ∈ lat, row.length = 3) :
    allSomeL (lat.map fun row => row[i]?) = some (lat.map fun row => nth row i) := by
  rw [allSomeL_congr (fun row => row[i]?) (fun row => some (nth row i)) lat]
  · exact allSomeL_map_some _ lat
  · intro row hr
    have := hrow row hr
    rw [List.getElem?_eq_getElem (by omega), nth_eq_getElem row i (by omega)]

/-- one pass of the loop: axis `i` -/
theorem axial_iter (C : Ctx α) (n : Nat) (attrs : Env α) (hw : Wired attrs) (table : List (String × List α)) (loc : Env α)
    (i : Nat) (hi : i < 3) (f : Nat → List α) (hf : ∀ k, (f k).length = 3)
    (hv : vols C ≠ []) (hg : C.calculator.vArray ≠ [])
    (hlat : C.calculator.elastData.lattice.length = (vols C).length)
    (hrow : ∀ row ∈ C.calculator.elastData.lattice, row.length = 3)
    (h1 : lookup loc "_l1" = some (.mat C.calculator.elastData.lattice))
    (h2 : lookup loc "_l2" = some (.mat ((List.range C.calculator.vArray.length).map f))) :
    execLs C (Kn C (n + 2)) axBody ⟨attrs, ("_l3", .nat i) :: loc⟩
      = (fitModulus (inputsOf C table) (C.calculator.elastData.lattice.map fun row => nth row i)).map fun p =>
          ⟨attrs, ("_l2", .mat ((List.range C.calculator.vArray.length).map fun k =>
                      (f k).set i (nth (colF C.calculator.vArray.length p) k)))
                  :: ("_l5", .ar (tmpOf p)) :: ("_l4", .ar p) :: ("_l3", .nat i) :: loc⟩ := by
  have hcol := colOf_lattice C.calculator.elastData.lattice i hi hrow
  have hl : (C.calculator.elastData.lattice.map fun row => nth row i).length = (vols C).length := by simp [hlat]
  have hfit := fit_default_src C n attrs hw table _ hv hl
  cases hp : fitModulus (inputsOf C table) (C.calculator.elastData.lattice.map fun row => nth row i) with
  | none =>
      rw [hp] at hfit
      simp [axBody, m_get_axial_strains, execLs, execL, evalX, X.eval, Kn, Kernel.hooks, lookup, h1, hcol, hfit]
  | some p =>
      rw [hp] at hfit
      have hlen : p.length = C.calculator.vArray.length := by
        have := fitModulus_length _ _ _ _ hp
        simpa [inputsOf] using this
      have hne : p ≠ [] := by
        intro h; rw [h] at hlen; exact hg (List.length_eq_zero_iff.mp hlen.symm)
      obtain ⟨hh, hl'⟩ := head_getLast p hne
      have ht : (tmpOf p).length = C.calculator.vArray.length + 2 := by simp [tmpOf, hlen]
      have hedge : List.zipWith (fun p q => p / q)
            (List.zipWith (fun p q => p - q) ((tmpOf p).drop 2) ((tmpOf p).take ((tmpOf p).length - 2)))
            (List.zipWith (fun p q => p + q) ((tmpOf p).drop 2) ((tmpOf p).take ((tmpOf p).length - 2)))
          = colF C.calculator.vArray.length p := edge_lists (tmpOf p) _ ht
      have hset := setCol_rows f C.calculator.vArray.length i (colF C.calculator.vArray.length p) (by simp [colF])
        (fun k => by rw [hf k]; exact hi)
      have s1 : execL C (Kn C (n + 2)) ⟨attrs, ("_l3", .nat i) :: loc⟩
            (.assign "_l4" (.callSelf1 "fit_modulus" (.colOf (.loc "_l1") (.loc "_l3"))))
          = some ⟨attrs, ("_l4", .ar p) :: ("_l3", .nat i) :: loc⟩ := by
        simp [execL, evalX, X.eval, Kn, Kernel.hooks, lookup, h1, hcol, hfit]
      have s2 : execL C (Kn C (n + 2)) ⟨attrs, ("_l4", .ar p) :: ("_l3", .nat i) :: loc⟩ (.assign "_l5" (.edgeRep (.loc "_l4")))
          = some ⟨attrs, ("_l5", .ar (tmpOf p)) :: ("_l4", .ar p) :: ("_l3", .nat i) :: loc⟩ := by
        simp [execL, evalX, X.eval, lookup, hh, hl', tmpOf]
      have s3 : execL C (Kn C (n + 2)) ⟨attrs, ("_l5", .ar (tmpOf p)) :: ("_l4", .ar p) :: ("_l3", .nat i) :: loc⟩
            (.setCol "_l2" (.loc "_l3") (.div (.sub (.dropFirst (.loc "_l5") 2) (.dropLast (.loc "_l5") 2))
              (.add (.dropFirst (.loc "_l5") 2) (.dropLast (.loc "_l5") 2))))
          = some ⟨attrs, ("_l2", .mat ((List.range C.calculator.vArray.length).map fun k =>
                      (f k).set i (nth (colF C.calculator.vArray.length p) k)))
                  :: ("_l5", .ar (tmpOf p)) :: ("_l4", .ar p) :: ("_l3", .nat i) :: loc⟩ := by
        have e1 : ((tmpOf p).drop 2).length = ((tmpOf p).take ((tmpOf p).length - 2)).length := by simp [ht]
        simp [execL, evalX, X.eval, lookup, h2, bin, zipSame, e1, hedge, hset]
      simp [axBody, m_get_axial_strains, execLs, s1, s2, s3]

/-- the raw strain matrix after the loop: row `k` = the three columns at grid point `k` -/
def rows3 (n : Nat) (c0 c1 c2 : List α) : List (List α) := (List.range n).map fun k => [nth c0 k, nth c1 k, nth c2 k]

/-- the three passes -/
theorem axial_loop (C : Ctx α) (n : Nat) (attrs : Env α) (hw : Wired attrs) (table : List (String × List α)) (loc : Env α)
    (hv : vols C ≠ []) (hg : C.calculator.vArray ≠ [])
    (hlat : C.calculator.elastData.lattice.length = (vols C).length)
    (hrow : ∀ row ∈ C.calculator.elastData.lattice, row.length = 3)
    (h1 : lookup loc "_l1" = some (.mat C.calculator.elastData.lattice))
    (h2 : lookup loc "_l2" = some (.mat ((List.range C.calculator.vArray.length).map fun _ => [0, 0, 0]))) :
    ∃ L : List α → List α → List α → Env α,
      runLoop C (Kn C (n + 2)) "_l3" axBody [.nat 0, .nat 1, .nat 2] ⟨attrs, loc⟩
        = (fitModulus (inputsOf C table) (C.calculator.elastData.lattice.map fun row => nth row 0)).bind fun p0 =>
          (fitModulus (inputsOf C table) (C.calculator.elastData.lattice.map fun row => nth row 1)).bind fun p1 =>
          (fitModulus (inputsOf C table) (C.calculator.elastData.lattice.map fun row => nth row 2)).map fun p2 =>
            ⟨attrs, ("_l2", .mat (rows3 C.calculator.vArray.length (colF C.calculator.vArray.length p0)
                (colF C.calculator.vArray.length p1) (colF C.calculator.vArray.length p2))) :: L p0 p1 p2⟩ := by
  let N := C.calculator.vArray.length
  refine ⟨fun p0 p1 p2 =>
    ("_l5", .ar (tmpOf p2)) :: ("_l4", .ar p2) :: ("_l3", .nat 2) ::
    ("_l2", .mat ((List.range N).map fun k => ([0, 0, 0].set 0 (nth (colF N p0) k)).set 1 (nth (colF N p1) k))) ::
    ("_l5", .ar (tmpOf p1)) :: ("_l4", .ar p1) :: ("_l3", .nat 1) ::
    ("_l2", .mat ((List.range N).map fun k => [0, 0, 0].set 0 (nth (colF N p0) k))) ::
    ("_l5", .ar (tmpOf p0)) :: ("_l4", .ar p0) :: ("_l3", .nat 0) :: loc, ?_⟩
  have i0 := axial_iter C n attrs hw table loc 0 (by omega) (fun _ => [0, 0, 0]) (fun _ => rfl) hv hg hlat hrow h1 h2
  simp only [runLoop]
  rw [i0]
  cases hp0 : fitModulus (inputsOf C table) (C.calculator.elastData.lattice.map fun row => nth row 0) with
  | none => simp
  | some p0 =>
    have i1 := axial_iter C n attrs hw table
      (("_l2", .mat ((List.range N).map fun k => [0, 0, 0].set 0 (nth (colF N p0) k))) ::
        ("_l5", .ar (tmpOf p0)) :: ("_l4", .ar p0) :: ("_l3", .nat 0) :: loc)
      1 (by omega) (fun k => [0, 0, 0].set 0 (nth (colF N p0) k)) (fun _ => by simp) hv hg hlat hrow
      (by simp [lookup, h1]) (by simp [lookup, N])
    simp only [Option.map_some, Option.bind_some]
    rw [i1]
    cases hp1 : fitModulus (inputsOf C table) (C.calculator.elastData.lattice.map fun row => nth row 1) with
    | none => simp
    | some p1 =>
      have i2 := axial_iter C n attrs hw table
        (("_l2", .mat ((List.range N).map fun k => ([0, 0, 0].set 0 (nth (colF N p0) k)).set 1 (nth (colF N p1) k))) ::
          ("_l5", .ar (tmpOf p1)) :: ("_l4", .ar p1) :: ("_l3", .nat 1) ::
          ("_l2", .mat ((List.range N).map fun k => [0, 0, 0].set 0 (nth (colF N p0) k))) ::
          ("_l5", .ar (tmpOf p0)) :: ("_l4", .ar p0) :: ("_l3", .nat 0) :: loc)
        2 (by omega) (fun k => ([0, 0, 0].set 0 (nth (colF N p0) k)).set 1 (nth (colF N p1) k)) (fun _ => by simp) hv hg hlat hrow
        (by simp [lookup, h1]) (by simp [lookup, N])
      simp only [Option.map_some, Option.bind_some]
      rw [i2]
      cases hp2 : fitModulus (inputsOf C table) (C.calculator.elastData.lattice.map fun row => nth row 2) with
      | none => simp
      | some p2 => simp [rows3, N]

/-- the model's `getAxialStrains` with a lattice block, written out -/
theorem getAxialStrains_nonempty (inp : Inputs α) (h : inp.lattice ≠ []) :
    getAxialStrains inp
      = (fitModulus inp (inp.lattice.map fun row => nth row 0)).bind fun p0 =>
        (fitModulus inp (inp.lattice.map fun row => nth row 1)).bind fun p1 =>
        (fitModulus inp (inp.lattice.map fun row => nth row 2)).map fun p2 =>
          (rows3 inp.vArray.length (colF inp.vArray.length p0) (colF inp.vArray.length p1) (colF inp.vArray.length p2)).map
            normaliseBySum := by
  have hne : inp.lattice.isEmpty = false := by
    cases hl : inp.lattice with
    | nil => exact absurd hl h
    | cons a t => rfl
  unfold getAxialStrains
  simp only [hne, Bool.false_eq_true, if_false, List.mapM_cons, List.mapM_nil, bind, pure]
  cases fitModulus inp (inp.lattice.map fun row => nth row 0) with
  | none => rfl
  | some p0 =>
    cases fitModulus inp (inp.lattice.map fun row => nth row 1) with
    | none => rfl
    | some p1 =>
      cases fitModulus inp (inp.lattice.map fun row => nth row 2) with
      | none => rfl
      | some p2 => simp [rows3, colF, tmpOf]

omit [BEq α] in
theorem fun1_array_rows (C : Ctx α) (l : List (List α)) (h : ∀ row ∈ l, row.length = 3) :
    fun1 C "numpy.array" (.rows l) = some (.mat l) := by
  cases l with
  | nil => simp [fun1]
  | cons r0 rest =>
      have hall : ((r0 :: rest).all fun x => x.length == r0.length) = true := by
        rw [List.all_eq_true]
        intro x hx
        simp [h x hx, h r0 (by simp)]
      simp only [fun1, hall, if_true]

omit [BEq α] in
theorem div_rowSum (M : List (List α)) :
    List.zipWith (fun row x => row.map fun y => y / x) M (M.map sumL) = M.map normaliseBySum := by
  rw [List.zipWith_map_right, List.zipWith_self]
  rfl

/-- **`get_axial_strains()`** as translated = the model's `getAxialStrains`: ones without a lattice block; otherwise per axis the
fitted axis length, the edge replication, the centred ratio, and every row divided by its own sum -/
theorem axial_src (C : Ctx α) (n : Nat) (attrs : Env α) (hw : Wired attrs) (table : List (String × List α))
    (hv : vols C ≠ []) (hg : C.calculator.vArray ≠ [])
    (hlat : C.calculator.elastData.lattice = [] ∨
      (C.calculator.elastData.lattice.length = (vols C).length ∧ ∀ row ∈ C.calculator.elastData.lattice, row.length = 3)) :
    callM cls C (n + 3) attrs "get_axial_strains" []
      = (getAxialStrains (inputsOf C table)).map fun e => (attrs, .mat e) := by
  have hva := v_array_src C (n + 1) attrs hw
  have hw' := hw
  obtain ⟨_, hed⟩ := hw
  rw [callM, find_axial]
  simp only [show bindParams m_get_axial_strains.params ([] : List (Val α)) = some [] from rfl]
  have hempty : C.calculator.elastData.lattice = [] →
      runStmts C ⟨isProp cls, isPure cls, callM cls C (n + 2)⟩ ⟨attrs, []⟩ m_get_axial_strains.body
        = (getAxialStrains (inputsOf C table)).map fun e => (attrs, .mat e) := by
    intro hnil
    have : getAxialStrains (inputsOf C table) = some (List.replicate C.calculator.vArray.length [1, 1, 1]) := by
      unfold getAxialStrains; simp [inputsOf, hnil]
    rw [this]
    simp [m_get_axial_strains, runStmts, execStmt, evalX, X.eval, Kernel.hooks, hva, hed, getPath, getattr, hnil, lookup]
  rcases hlat with hnil | ⟨hlen, hrow⟩
  · exact hempty hnil
  · by_cases hne : C.calculator.elastData.lattice = []
    · exact hempty hne
    · have hcond : (C.calculator.elastData.lattice.length == 0) = false := by
        simp [hne]
      have harr := fun1_array_rows C _ hrow
      obtain ⟨L, hL⟩ := axial_loop C n attrs hw' table
        [("_l2", .mat ((List.range C.calculator.vArray.length).map fun _ => [0, 0, 0])),
         ("_l1", .mat C.calculator.elastData.lattice), ("_l0", .nat C.calculator.vArray.length)]
        hv hg hlen hrow (by simp [lookup]) (by simp [lookup])
      simp only [axBody, m_get_axial_strains, Kn] at hL
      have hr : (List.range 3).map (Val.nat (α := α)) = [.nat 0, .nat 1, .nat 2] := rfl
      rw [getAxialStrains_nonempty _ (by simpa [inputsOf] using hne)]
      -- the four statements before the loop
      have e0 : execStmt C ⟨isProp cls, isPure cls, callM cls C (n + 2)⟩ ⟨attrs, []⟩ (.assign "_l0" (.shape (.self ["v_array"]) 0))
          = some (.cont ⟨attrs, [("_l0", .nat C.calculator.vArray.length)]⟩) := by
        simp [execStmt, evalX, X.eval, Kernel.hooks, hva, getPath]
      have e1 : execStmt C ⟨isProp cls, isPure cls, callM cls C (n + 2)⟩ ⟨attrs, [("_l0", .nat C.calculator.vArray.length)]⟩
            (.retIf (.eq (.len (.self ["elast_data", "lattice_parmeters"])) (.lit 0)) (.full 1 (.loc "_l0") (.lit 3)))
          = some (.cont ⟨attrs, [("_l0", .nat C.calculator.vArray.length)]⟩) := by
        simp [execStmt, evalX, X.eval, Kernel.hooks, hed, getPath, getattr, hcond]
      have e2 : execStmt C ⟨isProp cls, isPure cls, callM cls C (n + 2)⟩ ⟨attrs, [("_l0", .nat C.calculator.vArray.length)]⟩
            (.assign "_l1" (.fn1 "numpy.array" (.self ["elast_data", "lattice_parmeters"])))
          = some (.cont ⟨attrs, [("_l1", .mat C.calculator.elastData.lattice), ("_l0", .nat C.calculator.vArray.length)]⟩) := by
        simp [execStmt, evalX, X.eval, Kernel.hooks, hed, getPath, getattr, harr]
      have e3 : execStmt C ⟨isProp cls, isPure cls, callM cls C (n + 2)⟩
            ⟨attrs, [("_l1", .mat C.calculator.elastData.lattice), ("_l0", .nat C.calculator.vArray.length)]⟩
            (.assign "_l2" (.full 0 (.loc "_l0") (.lit 3)))
          = some (.cont ⟨attrs, [("_l2", .mat ((List.range C.calculator.vArray.length).map fun _ => [0, 0, 0])),
              ("_l1", .mat C.calculator.elastData.lattice), ("_l0", .nat C.calculator.vArray.length)]⟩) := by
        simp [execStmt, evalX, X.eval, lookup]
      simp only [m_get_axial_strains, runStmts, e0, e1, e2, e3]
      simp only [execStmt, hr, hL, inputsOf]
      generalize fitModulus _ (C.calculator.elastData.lattice.map fun row => nth row 0) = o0
      generalize fitModulus _ (C.calculator.elastData.lattice.map fun row => nth row 1) = o1
      generalize fitModulus _ (C.calculator.elastData.lattice.map fun row => nth row 2) = o2
      cases o0 with
      | none => simp
      | some p0 =>
        cases o1 with
        | none => simp
        | some p1 =>
          cases o2 with
          | none => simp
          | some p2 => simp [evalX, X.eval, lookup, bin, div_rowSum]

/-! ### `calculate_phonon_contribution`, `__init__` -/

omit [Field α] [BEq α] in
theorem wired_cons (attrs : Env α) (a : String) (v : Val α) (hw : Wired attrs) (h1 : a ≠ "calculator") (h2 : a ≠ "elast_data") :
    Wired ((a, v) :: attrs) := by
  obtain ⟨x, y⟩ := hw
  exact ⟨by simp [lookup, h1, x], by simp [lookup, h2, y]⟩

/-- what the task list hands back for a list of keys (adiabatic / isothermal): `none` if it fails for one of them -/
def results (ph : List (List α) → Key → Option (List (List α))) (e : List (List α)) (ks : List Key) :
    Option (List (Key × List (List α))) :=
  allSomeL (ks.map fun k => (ph e k).map fun r => (k, r))

/-- **`calculate_phonon_contribution()`** as translated: the logged `_get_init_strain()` is evaluated and dropped; the axial strains
of `get_axial_strains()` and `self.modulus_keys` go to `resolve` of a fresh task list built on `self.calculator`; then `calculate()`;
the adiabatic results are stored under `_adiabatic_phonon_contribution`, the isothermal ones under `_isothermal_phonon_contribution` -/
theorem phonon_src (C : Ctx α) (n : Nat) (attrs : Env α) (hw : Wired attrs) (table : List (String × List α))
    (hv : vols C ≠ []) (hg : C.calculator.vArray ≠ [])
    (hlat : C.calculator.elastData.lattice = [] ∨
      (C.calculator.elastData.lattice.length = (vols C).length ∧ ∀ row ∈ C.calculator.elastData.lattice, row.length = 3))
    (hinit : ∃ v, callM cls C (n + 3) attrs "_get_init_strain" [] = some (attrs, v)) :
    callM cls C (n + 4) attrs "calculate_phonon_contribution" []
      = (getAxialStrains (inputsOf C table)).bind fun e =>
        (results C.phA e C.calculator.modulusKeys).bind fun dA =>
        (results C.phI e C.calculator.modulusKeys).map fun dI =>
          (("_isothermal_phonon_contribution", .dict dI) :: ("_adiabatic_phonon_contribution", .dict dA) ::
           ("_phonon_contribution_task_list", .tl (.calculated e C.calculator.modulusKeys)) ::
           ("_phonon_contribution_task_list", .tl (.resolved e C.calculator.modulusKeys)) ::
           ("_phonon_contribution_task_list", .tl .fresh) :: attrs, .unit) := by
  obtain ⟨v0, hinit⟩ := hinit
  have hax := axial_src C n attrs hw table hv hg hlat
  have hw1 : Wired (("_phonon_contribution_task_list", Val.tl TLState.fresh) :: attrs) := wired_cons _ _ _ hw (by decide) (by decide)
  have hk : callM cls C (n + 3) (("_phonon_contribution_task_list", Val.tl TLState.fresh) :: attrs) "modulus_keys" []
      = some (("_phonon_contribution_task_list", Val.tl TLState.fresh) :: attrs, .keys C.calculator.modulusKeys) :=
    modulus_keys_src C (n + 2) _ hw1
  obtain ⟨hcalc, _⟩ := hw
  rw [callM, find_phonon]
  simp only [show bindParams m_calculate_phonon_contribution.params ([] : List (Val α)) = some [] from rfl]
  have e0 : execStmt C ⟨isProp cls, isPure cls, callM cls C (n + 3)⟩ ⟨attrs, []⟩ (.log [.callSelf0 "_get_init_strain"])
      = some (.cont ⟨attrs, []⟩) := by
    simp [execStmt, evalArgs, evalX, X.eval, Kernel.hooks, hinit, allSomeL]
  cases he : getAxialStrains (inputsOf C table) with
  | none =>
      rw [he] at hax
      have e1 : execStmt C ⟨isProp cls, isPure cls, callM cls C (n + 3)⟩ ⟨attrs, []⟩ (.assign "_l0" (.callSelf0 "get_axial_strains"))
          = none := by
        simp [execStmt, evalX, X.eval, Kernel.hooks, hax]
      simp only [m_calculate_phonon_contribution, runStmts, e0, e1]
      rfl
  | some e =>
      rw [he] at hax
      have e1 : execStmt C ⟨isProp cls, isPure cls, callM cls C (n + 3)⟩ ⟨attrs, []⟩ (.assign "_l0" (.callSelf0 "get_axial_strains"))
          = some (.cont ⟨attrs, [("_l0", .mat e)]⟩) := by
        simp [execStmt, evalX, X.eval, Kernel.hooks, hax]
      have e2 : execStmt C ⟨isProp cls, isPure cls, callM cls C (n + 3)⟩ ⟨attrs, [("_l0", .mat e)]⟩
            (.setSelf "_phonon_contribution_task_list" (.fn1 "cij.core.tasks.PhononContributionTaskList" (.self ["calculator"])))
          = some (.cont ⟨("_phonon_contribution_task_list", .tl .fresh) :: attrs, [("_l0", .mat e)]⟩) := by
        simp [execStmt, evalX, X.eval, Kernel.hooks, hcalc, getPath, fun1]
      have e3 : execStmt C ⟨isProp cls, isPure cls, callM cls C (n + 3)⟩
            ⟨("_phonon_contribution_task_list", .tl .fresh) :: attrs, [("_l0", .mat e)]⟩
            (.callAttr "_phonon_contribution_task_list" "resolve" [.loc "_l0", .self ["modulus_keys"]])
          = some (.cont ⟨("_phonon_contribution_task_list", .tl (.resolved e C.calculator.modulusKeys)) ::
              ("_phonon_contribution_task_list", .tl .fresh) :: attrs, [("_l0", .mat e)]⟩) := by
        simp [execStmt, evalArgs, evalX, X.eval, Kernel.hooks, lookup, hk, getPath, allSomeL, tlCall]
      have e4 : execStmt C ⟨isProp cls, isPure cls, callM cls C (n + 3)⟩
            ⟨("_phonon_contribution_task_list", .tl (.resolved e C.calculator.modulusKeys)) ::
              ("_phonon_contribution_task_list", .tl .fresh) :: attrs, [("_l0", .mat e)]⟩
            (.callAttr "_phonon_contribution_task_list" "calculate" [])
          = some (.cont ⟨("_phonon_contribution_task_list", .tl (.calculated e C.calculator.modulusKeys)) ::
              ("_phonon_contribution_task_list", .tl (.resolved e C.calculator.modulusKeys)) ::
              ("_phonon_contribution_task_list", .tl .fresh) :: attrs, [("_l0", .mat e)]⟩) := by
        simp [execStmt, evalArgs, lookup, allSomeL, tlCall]
      have e5 : execStmt C ⟨isProp cls, isPure cls, callM cls C (n + 3)⟩
            ⟨("_phonon_contribution_task_list", .tl (.calculated e C.calculator.modulusKeys)) ::
              ("_phonon_contribution_task_list", .tl (.resolved e C.calculator.modulusKeys)) ::
              ("_phonon_contribution_task_list", .tl .fresh) :: attrs, [("_l0", .mat e)]⟩
            (.setSelf "_adiabatic_phonon_contribution" (.mcall0 (.self ["_phonon_contribution_task_list"]) "get_adiabatic_results"))
          = (results C.phA e C.calculator.modulusKeys).map fun dA => .cont
              ⟨("_adiabatic_phonon_contribution", .dict dA) ::
              ("_phonon_contribution_task_list", .tl (.calculated e C.calculator.modulusKeys)) ::
              ("_phonon_contribution_task_list", .tl (.resolved e C.calculator.modulusKeys)) ::
              ("_phonon_contribution_task_list", .tl .fresh) :: attrs, [("_l0", .mat e)]⟩ := by
        simp only [execStmt, isProp_adiabatic_store]
        simp only [evalX, X.eval, Kernel.hooks, isProp_task_list]
        simp only [lookup]
        simp [getPath, results]
        rfl
      have e6 : ∀ dA, execStmt C ⟨isProp cls, isPure cls, callM cls C (n + 3)⟩
            ⟨("_adiabatic_phonon_contribution", .dict dA) ::
              ("_phonon_contribution_task_list", .tl (.calculated e C.calculator.modulusKeys)) ::
              ("_phonon_contribution_task_list", .tl (.resolved e C.calculator.modulusKeys)) ::
              ("_phonon_contribution_task_list", .tl .fresh) :: attrs, [("_l0", .mat e)]⟩
            (.setSelf "_isothermal_phonon_contribution" (.mcall0 (.self ["_phonon_contribution_task_list"]) "get_isothermal_results"))
          = (results C.phI e C.calculator.modulusKeys).map fun dI => .cont
              ⟨("_isothermal_phonon_contribution", .dict dI) :: ("_adiabatic_phonon_contribution", .dict dA) ::
              ("_phonon_contribution_task_list", .tl (.calculated e C.calculator.modulusKeys)) ::
              ("_phonon_contribution_task_list", .tl (.resolved e C.calculator.modulusKeys)) ::
              ("_phonon_contribution_task_list", .tl .fresh) :: attrs, [("_l0", .mat e)]⟩ := by
        intro dA
        simp only [execStmt, isProp_isothermal_store]
        simp only [evalX, X.eval, Kernel.hooks, isProp_task_list]
        simp only [lookup]
        simp [getPath, results]
        rfl
      simp only [m_calculate_phonon_contribution, runStmts, e0, e1, e2, e3, e4, e5]
      cases hA : results C.phA e C.calculator.modulusKeys with
      | none => simp [hA]
      | some dA =>
          simp only [Option.map_some, e6, Option.bind_some]
          cases hI : results C.phI e C.calculator.modulusKeys with
          | none => simp [hA, hI]
          | some dI => simp [hA, hI]

/-- the instance attributes `__init__` assigns itself -/
def baseAttrs : Env α := [("elast_data", .edata), ("calculator", .calcObj)]

omit [Field α] [BEq α] in
theorem wired_base : Wired (baseAttrs : Env α) := ⟨by simp [baseAttrs, lookup], by simp [baseAttrs, lookup]⟩

/-- **`__init__(calculator)`** as translated: `self.calculator = calculator`, `self.elast_data = self.calculator.elast_data` (the
calculator's own parsed table, no copy, no other source), then `calculate_phonon_contribution()` -/
theorem init_src (C : Ctx α) (n : Nat) :
    callM cls C (n + 5) [] "__init__" [.calcObj]
      = (callM cls C (n + 4) baseAttrs "calculate_phonon_contribution" []).map fun r => (r.1, .unit) := by
  rw [callM, find_init]
  simp only [show bindParams m_init.params [Val.calcObj (α := α)] = some [("calculator", .calcObj)] from rfl]
  have e0 : execStmt C ⟨isProp cls, isPure cls, callM cls C (n + 4)⟩ ⟨[], [("calculator", .calcObj)]⟩
      (.setSelf "calculator" (.param "calculator")) = some (.cont ⟨[("calculator", .calcObj)], [("calculator", .calcObj)]⟩) := by
    simp [execStmt, evalX, X.eval, lookup]
  have e1 : execStmt C ⟨isProp cls, isPure cls, callM cls C (n + 4)⟩ ⟨[("calculator", .calcObj)], [("calculator", .calcObj)]⟩
      (.setSelf "elast_data" (.self ["calculator", "elast_data"])) = some (.cont ⟨baseAttrs, [("calculator", .calcObj)]⟩) := by
    simp [execStmt, evalX, X.eval, Kernel.hooks, lookup, getPath, getattr, baseAttrs]
  simp only [m_init, runStmts, e0, e1]
  simp only [execStmt]
  cases callM cls C (n + 4) baseAttrs "calculate_phonon_contribution" [] with
  | none => rfl
  | some r => rfl

/-! ### `modulus_adiabatic` / `modulus_isothermal` -/

/-- `static[nax, :] + phonon` with numpy's shape check: every row of the phonon part must be as long as the static part -/
def addChecked (st : List α) (p : List (List α)) : Option (List (List α)) :=
  allSomeL (p.map fun row => zipSame (fun a b => a + b) st row)

omit [BEq α] in
theorem addChecked_eq (st : List α) (p : List (List α)) (h : ∀ row ∈ p, row.length = st.length) :
    addChecked st p = some (addStatic st p) := by
  unfold addChecked addStatic
  rw [allSomeL_congr (fun row => zipSame (fun a b => a + b) st row) (fun row => some (List.zipWith (fun s p => s + p) st row)) p]
  · exact allSomeL_map_some _ p
  · intro row hr
    simp [zipSame, h row hr]

/-- the static part of one key: its values per volume in file order, `_from_gpa`, `fit_modulus` with the default order -/
def staticOf (C : Ctx α) (table : List (String × List α)) (k : Key) : Option (List α) :=
  (columnOf C k).bind fun col => fitModulus (inputsOf C table) (fromGpa C.gpa col)

/-- one entry of `modulus_adiabatic` / `modulus_isothermal`: `get_static_modulus(key)[nax, :] + store[key]` -/
def totalEntry (C : Ctx α) (table : List (String × List α)) (d : List (Key × List (List α))) (k : Key) :
    Option (Key × List (List α)) :=
  (staticOf C table k).bind fun st => (dictLookup d k).bind fun p => (addChecked st p).map fun m => (k, m)

/-- the body of `for key in self.modulus_keys` reading the store `store` -/
def totalBody (store : String) : List LStmt :=
  [.setItem "_l0" (.loc "_l1")
    (.add (.nax (.callSelf1 "get_static_modulus" (.loc "_l1"))) (.item (.self [store]) (.loc "_l1")))]

theorem adiabatic_body : m_modulus_adiabatic.body
    = [.newDict "_l0", .forIn "_l1" (.self ["modulus_keys"]) (totalBody "_adiabatic_phonon_contribution"), .ret (.loc "_l0")] := rfl

theorem isothermal_body : m_modulus_isothermal.body
    = [.newDict "_l0", .forIn "_l1" (.self ["modulus_keys"]) (totalBody "_isothermal_phonon_contribution"), .ret (.loc "_l0")] := rfl

/-- one pass of the loop -/
theorem total_iter (C : Ctx α) (n : Nat) (attrs : Env α) (hw : Wired attrs) (table : List (String × List α)) (hv : vols C ≠ [])
    (store : String) (hs : isProp cls store = false) (d : List (Key × List (List α))) (hd : lookup attrs store = some (.dict d))
    (loc : Env α) (k : Key) (acc : List (Key × List (List α))) (hacc : lookup loc "_l0" = some (.dict acc)) :
    execLs C (Kn C (n + 3)) (totalBody store) ⟨attrs, ("_l1", .key k) :: loc⟩
      = (totalEntry C table d k).map fun e => ⟨attrs, ("_l0", .dict (e :: acc)) :: ("_l1", .key k) :: loc⟩ := by
  have hst := static_src C n attrs hw table k hv
  unfold totalEntry
  change callM cls C (n + 3) attrs "get_static_modulus" [.key k] = (staticOf C table k).map fun r => (attrs, .ar r) at hst
  cases h1 : staticOf C table k with
  | none =>
      rw [h1] at hst
      simp [totalBody, execLs, execL, evalX, X.eval, Kn, Kernel.hooks, lookup, hacc, hst]
  | some st =>
      rw [h1] at hst
      cases h2 : dictLookup d k with
      | none =>
          simp [totalBody, execLs, execL, evalX, X.eval, Kn, Kernel.hooks, lookup, hacc, hst, hs, hd, getPath, h2]
      | some p =>
          cases h3 : addChecked st p with
          | none =>
              have h3' := h3
              unfold addChecked at h3'
              simp [totalBody, execLs, execL, evalX, X.eval, Kn, Kernel.hooks, lookup, hacc, hst, hs, hd, getPath, h2, bin, h3', h3]
          | some m =>
              have h3' := h3
              unfold addChecked at h3'
              simp [totalBody, execLs, execL, evalX, X.eval, Kn, Kernel.hooks, lookup, hacc, hst, hs, hd, getPath, h2, bin, h3', h3]

/-- the whole loop: the entries in key order, latest write first -/
theorem total_loop (C : Ctx α) (n : Nat) (attrs : Env α) (hw : Wired attrs) (table : List (String × List α)) (hv : vols C ≠ [])
    (store : String) (hs : isProp cls store = false) (d : List (Key × List (List α))) (hd : lookup attrs store = some (.dict d)) :
    ∀ (ks : List Key) (loc : Env α) (acc : List (Key × List (List α))), lookup loc "_l0" = some (.dict acc) →
      match allSomeL (ks.map (totalEntry C table d)) with
      | none => runLoop C (Kn C (n + 3)) "_l1" (totalBody store) (ks.map .key) ⟨attrs, loc⟩ = none
      | some l => ∃ loc', runLoop C (Kn C (n + 3)) "_l1" (totalBody store) (ks.map .key) ⟨attrs, loc⟩ = some ⟨attrs, loc'⟩ ∧
          lookup loc' "_l0" = some (.dict (l.reverse ++ acc)) := by
  intro ks
  induction ks with
  | nil =>
      intro loc acc hacc
      exact ⟨loc, rfl, by simpa using hacc⟩
  | cons k r ih =>
      intro loc acc hacc
      have hit := total_iter C n attrs hw table hv store hs d hd loc k acc hacc
      simp only [List.map_cons, runLoop, hit]
      cases he : totalEntry C table d k with
      | none => simp [allSomeL]
      | some e =>
          have := ih (("_l0", .dict (e :: acc)) :: ("_l1", .key k) :: loc) (e :: acc) (by simp [lookup])
          simp only [allSomeL, Option.map_some, Option.bind_some]
          cases hr : allSomeL (r.map (totalEntry C table d)) with
          | none => rw [hr] at this; simpa using this
          | some l =>
              rw [hr] at this
              obtain ⟨loc', h, hl⟩ := this
              exact ⟨loc', by simp [h], by simp [hl]⟩

/-- **`modulus_adiabatic` / `modulus_isothermal`** as translated, for the store `store` they read: a fresh dictionary with, for
every key of `self.modulus_keys`, `get_static_modulus(key)[nax, :] + store[key]` -/
theorem total_src (C : Ctx α) (n : Nat) (attrs : Env α) (hw : Wired attrs) (table : List (String × List α)) (hv : vols C ≠ [])
    (name store : String) (m : Method) (hfind : findMethod cls name = some m) (hpar : m.params = [])
    (hbody : m.body = [.newDict "_l0", .forIn "_l1" (.self ["modulus_keys"]) (totalBody store), .ret (.loc "_l0")])
    (hs : isProp cls store = false) (d : List (Key × List (List α))) (hd : lookup attrs store = some (.dict d)) :
    callM cls C (n + 4) attrs name []
      = (allSomeL (C.calculator.modulusKeys.map (totalEntry C table d))).map fun l => (attrs, .dict l.reverse) := by
  have hk := modulus_keys_src C (n + 2) attrs hw
  rw [callM, hfind]
  simp only [hpar, hbody]
  have e0 : execStmt C ⟨isProp cls, isPure cls, callM cls C (n + 3)⟩ ⟨attrs, []⟩ (.newDict "_l0")
      = some (.cont ⟨attrs, [("_l0", .dict [])]⟩) := rfl
  have hloop := total_loop C n attrs hw table hv store hs d hd C.calculator.modulusKeys [("_l0", .dict [])] [] (by simp [lookup])
  simp only [bindParams, runStmts, e0]
  have e1 : execStmt C ⟨isProp cls, isPure cls, callM cls C (n + 3)⟩ ⟨attrs, [("_l0", .dict [])]⟩
        (.forIn "_l1" (.self ["modulus_keys"]) (totalBody store))
      = (runLoop C (Kn C (n + 3)) "_l1" (totalBody store) (C.calculator.modulusKeys.map .key) ⟨attrs, [("_l0", .dict [])]⟩).map .cont := by
    simp [execStmt, evalX, X.eval, Kernel.hooks, hk, getPath, Kn]
  rw [e1]
  cases hl : allSomeL (C.calculator.modulusKeys.map (totalEntry C table d)) with
  | none =>
      rw [hl] at hloop
      simp [hloop]
  | some l =>
      rw [hl] at hloop
      obtain ⟨loc', h, hl'⟩ := hloop
      simp [h, execStmt, evalX, X.eval, hl']

/-! ### `Calculator._calculate_pressure_static` -/

/-- the volumes / static energies of the PHONON file, in file order -/
def qvols (C : Ctx α) : List α := C.calculator.qhaVolumes.map (·.1)
def qenergies (C : Ctx α) : List α := C.calculator.qhaVolumes.map (·.2)

omit [BEq α] in
theorem gradient_length (y g : List α) (h : gradient y = some g) : g.length = y.length := by
  unfold gradient at h
  simp only at h
  split_ifs at h
  simp only [Option.some.injEq] at h
  subst h
  simp

omit [BEq α] in
theorem gradient_none_of_length (y z : List α) (hl : y.length = z.length) (h : gradient y = none) : gradient z = none := by
  unfold gradient at h ⊢
  simp only at h ⊢
  split_ifs at h with h1
  rw [hl] at h1
  simp [h1]

omit [BEq α] in
theorem gradient_isSome_of_length (y z g : List α) (hl : y.length = z.length) (h : gradient y = some g) : ∃ g', gradient z = some g' := by
  unfold gradient at h ⊢
  simp only at h ⊢
  split_ifs at h with h1
  rw [hl] at h1
  simp [h1]

omit [Field α] [BEq α] in
theorem allSomeL_qvolAttr (l : List (α × α)) :
    allSomeL (l.map (qvolAttr "volume")) = some (l.map (·.1)) ∧ allSomeL (l.map (qvolAttr "energy")) = some (l.map (·.2)) := by
  have h1 : (qvolAttr "volume" : α × α → Option α) = fun v => some v.1 := by funext v; simp [qvolAttr]
  have h2 : (qvolAttr "energy" : α × α → Option α) = fun v => some v.2 := by funext v; simp [qvolAttr]
  rw [h1, h2]
  exact ⟨allSomeL_map_some _ l, allSomeL_map_some _ l⟩

/-- **`_calculate_pressure_static(order)`** as translated = the model's `staticPressure` on the Eulerian strains of the PHONON file's
volumes and of the grid (both referred to that file's first volume), the file's static energies and the grid -/
theorem pressure_src (C : Ctx α) (k : Nat) (hq : qvols C ≠ []) :
    runOnCalc C pressureStatic [.nat k]
      = (staticPressure ((qvols C).map (C.strain (nth (qvols C) 0))) (qenergies C)
            (C.calculator.vArray.map (C.strain (nth (qvols C) 0))) C.calculator.vArray k).map fun p =>
          ([("static_p_array", .ar p), ("v_array", .ar C.calculator.vArray), ("qha_input", .qha)], .unit) := by
  obtain ⟨hv, he⟩ := allSomeL_qvolAttr C.calculator.qhaVolumes
  unfold runOnCalc
  simp only [show bindParams pressureStatic.params [Val.nat (α := α) k] = some [("order", .nat k)] from rfl]
  -- the statements one at a time
  have e0 : execStmt C ⟨fun _ => false, fun _ => false, fun _ _ _ => none⟩
        ⟨[("v_array", .ar C.calculator.vArray), ("qha_input", .qha)], [("order", .nat k)]⟩
        (.assign "_l0" (.fn1 "numpy.array" (.compAttr "volume" (.self ["qha_input", "volumes"]))))
      = some (.cont ⟨[("v_array", .ar C.calculator.vArray), ("qha_input", .qha)], [("_l0", .ar (qvols C)), ("order", .nat k)]⟩) := by
    simp [execStmt, evalX, X.eval, Kernel.hooks, lookup, getPath, getattr, hv, fun1, qvols]
  have e1 : execStmt C ⟨fun _ => false, fun _ => false, fun _ _ _ => none⟩
        ⟨[("v_array", .ar C.calculator.vArray), ("qha_input", .qha)], [("_l0", .ar (qvols C)), ("order", .nat k)]⟩
        (.assign "_l1" (.fn1 "numpy.array" (.compAttr "energy" (.self ["qha_input", "volumes"]))))
      = some (.cont ⟨[("v_array", .ar C.calculator.vArray), ("qha_input", .qha)],
          [("_l1", .ar (qenergies C)), ("_l0", .ar (qvols C)), ("order", .nat k)]⟩) := by
    simp [execStmt, evalX, X.eval, Kernel.hooks, lookup, getPath, getattr, he, fun1, qenergies]
  have e2 : execStmt C ⟨fun _ => false, fun _ => false, fun _ _ _ => none⟩
        ⟨[("v_array", .ar C.calculator.vArray), ("qha_input", .qha)],
          [("_l1", .ar (qenergies C)), ("_l0", .ar (qvols C)), ("order", .nat k)]⟩
        (.assign "_l2" (.fn2 "qha.grid_interpolation.calculate_eulerian_strain" (.index (.loc "_l0") 0) (.loc "_l0")))
      = some (.cont ⟨[("v_array", .ar C.calculator.vArray), ("qha_input", .qha)],
          [("_l2", .ar ((qvols C).map (C.strain (nth (qvols C) 0)))), ("_l1", .ar (qenergies C)), ("_l0", .ar (qvols C)),
           ("order", .nat k)]⟩) := by
    simp [execStmt, evalX, X.eval, lookup, pyIndex_zero _ hq, fun2]
  have e3 : execStmt C ⟨fun _ => false, fun _ => false, fun _ _ _ => none⟩
        ⟨[("v_array", .ar C.calculator.vArray), ("qha_input", .qha)],
          [("_l2", .ar ((qvols C).map (C.strain (nth (qvols C) 0)))), ("_l1", .ar (qenergies C)), ("_l0", .ar (qvols C)),
           ("order", .nat k)]⟩
        (.assign "_l3" (.fn2 "qha.grid_interpolation.calculate_eulerian_strain" (.index (.loc "_l0") 0) (.self ["v_array"])))
      = some (.cont ⟨[("v_array", .ar C.calculator.vArray), ("qha_input", .qha)],
          [("_l3", .ar (C.calculator.vArray.map (C.strain (nth (qvols C) 0)))),
           ("_l2", .ar ((qvols C).map (C.strain (nth (qvols C) 0)))), ("_l1", .ar (qenergies C)), ("_l0", .ar (qvols C)),
           ("order", .nat k)]⟩) := by
    simp [execStmt, evalX, X.eval, Kernel.hooks, lookup, getPath, pyIndex_zero _ hq, fun2]
  simp only [pressureStatic, runStmts, e0, e1, e2, e3]
  unfold staticPressure
  cases hfit : polynomialLeastSquareFitting ((qvols C).map (C.strain (nth (qvols C) 0))) (qenergies C)
      (C.calculator.vArray.map (C.strain (nth (qvols C) 0))) k with
  | none =>
      simp [execStmt, evalX, X.eval, lookup, fun4, hfit]
  | some e =>
      have hlen : e.length = C.calculator.vArray.length := by
        unfold polynomialLeastSquareFitting at hfit
        simp only [Option.map_eq_some_iff] at hfit
        obtain ⟨p, _, rfl⟩ := hfit
        simp
      cases hge : gradient e with
      | none =>
          have hgv := gradient_none_of_length e C.calculator.vArray hlen hge
          simp [execStmt, evalX, X.eval, Kernel.hooks, lookup, getPath, fun4, hfit, fun1, hge, hgv]
      | some ge =>
          obtain ⟨gv, hgv⟩ := gradient_isSome_of_length e C.calculator.vArray ge hlen hge
          have h1 := gradient_length _ _ hge
          have h2 := gradient_length _ _ hgv
          simp [execStmt, evalX, X.eval, Kernel.hooks, lookup, getPath, fun4, hfit, fun1, hge, hgv, bin, zipSame, h1, h2, hlen,
            List.zipWith_map_left]

theorem pressure_default_src (C : Ctx α) : runOnCalc C pressureStatic [] = runOnCalc C pressureStatic [.nat 3] := rfl

/-! ### what `fit_modulus` reads -/

/-- two calculators with the same strain function, the same volume column in their static tables and the same grid get the same
static fit — whatever their phonon files, table values, lattice blocks, key lists, settings and phonon parts are -/
theorem fit_reads_only (C C' : Ctx α) (n : Nat) (attrs attrs' : Env α) (hw : Wired attrs) (hw' : Wired attrs') (m : List α) (k : Nat)
    (hs : C.strain = C'.strain) (hvol : vols C = vols C') (hgrid : C.calculator.vArray = C'.calculator.vArray)
    (hv : vols C ≠ []) (hm : m.length = (vols C).length) :
    callV cls C (n + 2) attrs "fit_modulus" [.ar m, .nat k] = callV cls C' (n + 2) attrs' "fit_modulus" [.ar m, .nat k] := by
  unfold callV
  rw [fit_src C n attrs hw [] m k hv hm, fit_src C' n attrs' hw' [] m k (hvol ▸ hv) (hvol ▸ hm)]
  have : fitModulus (inputsOf C []) m k = fitModulus (inputsOf C' []) m k :=
    fitModulus_congr _ _ m k (by simp [inputsOf, hs, hvol]) (by simp [inputsOf, hs, hvol, hgrid]) (by simp [inputsOf, hvol])
      (by simp [inputsOf, hgrid])
  rw [this]
  cases fitModulus (inputsOf C' []) m k <;> rfl

end

/-! ### well-formed inputs; the constructed object -/

section
variable {α : Type} [Field α] [BEq α]

attribute [local irreducible] lookup isProp isPure findMethod

/-- the inputs the property quantifies over, as far as the class reads them: a non-empty static table, a non-empty grid, and either
no lattice block or one row of three axis lengths per volume of the table -/
structure WF (C : Ctx α) : Prop where
  vols_ne : vols C ≠ []
  grid_ne : C.calculator.vArray ≠ []
  lattice : C.calculator.elastData.lattice = [] ∨
    (C.calculator.elastData.lattice.length = (vols C).length ∧ ∀ row ∈ C.calculator.elastData.lattice, row.length = 3)

/-- the instance attributes of a constructed object, given the axial strains and the two result dictionaries -/
def builtAttrs (C : Ctx α) (e : List (List α)) (dA dI : List (Key × List (List α))) : Env α :=
  ("_isothermal_phonon_contribution", .dict dI) :: ("_adiabatic_phonon_contribution", .dict dA) ::
  ("_phonon_contribution_task_list", .tl (.calculated e C.calculator.modulusKeys)) ::
  ("_phonon_contribution_task_list", .tl (.resolved e C.calculator.modulusKeys)) ::
  ("_phonon_contribution_task_list", .tl .fresh) :: baseAttrs

omit [Field α] [BEq α] in
theorem builtAttrs_wired (C : Ctx α) (e : List (List α)) (dA dI : List (Key × List (List α))) : Wired (builtAttrs C e dA dI) :=
  ⟨by simp [builtAttrs, baseAttrs, lookup], by simp [builtAttrs, baseAttrs, lookup]⟩

omit [Field α] [BEq α] in
theorem builtAttrs_stores (C : Ctx α) (e : List (List α)) (dA dI : List (Key × List (List α))) :
    lookup (builtAttrs C e dA dI) "_adiabatic_phonon_contribution" = some (.dict dA) ∧
    lookup (builtAttrs C e dA dI) "_isothermal_phonon_contribution" = some (.dict dI) :=
  ⟨by simp [builtAttrs, lookup], by simp [builtAttrs, lookup]⟩

/-- **`FullThermalElasticModulus(calculator)`**: `__init__` and `calculate_phonon_contribution` together -/
theorem construct_src (C : Ctx α) (n : Nat) (table : List (String × List α)) (hwf : WF C)
    (hinit : ∃ v, callM cls C (n + 3) baseAttrs "_get_init_strain" [] = some (baseAttrs, v)) :
    construct cls C (n + 5)
      = (getAxialStrains (inputsOf C table)).bind fun e =>
        (results C.phA e C.calculator.modulusKeys).bind fun dA =>
        (results C.phI e C.calculator.modulusKeys).map fun dI => builtAttrs C e dA dI := by
  unfold construct
  rw [init_src, phonon_src C n baseAttrs wired_base table hwf.vols_ne hwf.grid_ne hwf.lattice hinit]
  cases getAxialStrains (inputsOf C table) with
  | none => rfl
  | some e =>
      simp only [Option.bind_some]
      cases results C.phA e C.calculator.modulusKeys with
      | none => rfl
      | some dA =>
          simp only [Option.bind_some]
          cases results C.phI e C.calculator.modulusKeys with
          | none => rfl
          | some dI => rfl

end

/-- a concrete calculator over ℚ for the non-vacuity examples of Properties/C05.lean -/
def glueExample : Ctx ℚ :=
  { strain := fun v0 v => (v0 / v) * (v0 / v) - 1, gpa := 1 / 100,
    calculator :=
      { vArray := [10, 19 / 2, 9, 17 / 2, 8, 7, 13 / 2],
        modulusKeys := [.raw "c11", .raw "c12"],
        elastData :=
          { vref := 0, nv := 5, cellmass := 1,
            volumes := [⟨10, [(.raw "c11", 100), (.raw "c12", 50)]⟩, ⟨9, [(.raw "c11", 120), (.raw "c12", 55)]⟩,
                        ⟨8, [(.raw "c11", 150), (.raw "c12", 61)]⟩, ⟨7, [(.raw "c11", 190), (.raw "c12", 70)]⟩,
                        ⟨6, [(.raw "c11", 250), (.raw "c12", 85)]⟩],
            lattice := [[2, 2, 3], [19 / 10, 39 / 20, 29 / 10], [9 / 5, 19 / 10, 14 / 5], [17 / 10, 37 / 20, 53 / 20],
                        [8 / 5, 9 / 5, 5 / 2]] },
        qhaVolumes := [(10, 1), (9, 2), (8, 4), (7, 9), (6, 20)],
        cfgLeaf := fun _ => none,
        cfgSection := fun p => p == ["elast"] || p == ["elast", "settings"] },
    phA := fun s _ => some [s.map fun r => r.getD 0 0, s.map fun r => r.getD 1 0],
    phI := fun s _ => some [s.map fun r => r.getD 2 0] }

/-! ### the strain-fraction formula at interior rows and at both ends -/

section
variable {α : Type} [Field α]

theorem tmpOf_zero (p : List α) : nth (tmpOf p) 0 = nth p 0 := by simp [tmpOf, nth]

theorem tmpOf_succ (p : List α) (j : Nat) (hj : j < p.length) : nth (tmpOf p) (j + 1) = nth p j := by
  simp [tmpOf, nth, List.getElem?_append_left hj]

theorem tmpOf_last (p : List α) : nth (tmpOf p) (p.length + 1) = nth p (p.length - 1) := by
  simp [tmpOf, nth]

/-- the column `(tmp[2:] - tmp[:-2]) / (tmp[2:] + tmp[:-2])` of `tmp = params[[0, *range(n), -1]]`, entry by entry: a one-sided
ratio at the first and at the last grid point, the centred ratio in between -/
theorem colF_entries (p : List α) (h2 : 2 ≤ p.length) :
    nth (colF p.length p) 0 = (nth p 1 - nth p 0) / (nth p 1 + nth p 0) ∧
    (∀ k, 0 < k → k + 1 < p.length →
      nth (colF p.length p) k = (nth p (k + 1) - nth p (k - 1)) / (nth p (k + 1) + nth p (k - 1))) ∧
    nth (colF p.length p) (p.length - 1)
      = (nth p (p.length - 1) - nth p (p.length - 2)) / (nth p (p.length - 1) + nth p (p.length - 2)) := by
  have hentry : ∀ k, k < p.length →
      nth (colF p.length p) k = (nth (tmpOf p) (k + 2) - nth (tmpOf p) k) / (nth (tmpOf p) (k + 2) + nth (tmpOf p) k) := by
    intro k hk
    rw [nth_eq_getElem _ k (by simpa [colF] using hk)]
    simp [colF]
  refine ⟨?_, ?_, ?_⟩
  · rw [hentry 0 (by omega), tmpOf_zero, tmpOf_succ p 1 (by omega)]
  · intro k h0 h1
    rw [hentry k (by omega), tmpOf_succ p (k + 1) (by omega)]
    obtain ⟨j, rfl⟩ : ∃ j, k = j + 1 := ⟨k - 1, by omega⟩
    rw [tmpOf_succ p j (by omega)]
    simp
  · rw [hentry (p.length - 1) (by omega)]
    have e1 : p.length - 1 + 2 = p.length + 1 := by omega
    have e2 : p.length - 1 = (p.length - 2) + 1 := by omega
    rw [e1, tmpOf_last]
    conv_lhs => rw [e2, tmpOf_succ p (p.length - 2) (by omega)]
    rw [← e2]

end

/-! ### the totals against the model's `modulusTotal` -/

section
variable {α : Type} [Field α] [BEq α]

attribute [local irreducible] lookup isProp isPure findMethod

omit [Field α] [BEq α] in
/-- what the task list returned for a requested key is what the store holds for it -/
theorem results_lookup (ph : List (List α) → Key → Option (List (List α))) (e : List (List α)) :
    ∀ (ks : List Key) (d : List (Key × List (List α))), results ph e ks = some d → ∀ k ∈ ks, dictLookup d k = ph e k := by
  intro ks
  induction ks with
  | nil => intro d _ k hk; simp at hk
  | cons k0 r ih =>
      intro d hd k hk
      unfold results at hd
      simp only [List.map_cons] at hd
      cases h0 : ph e k0 with
      | none => simp [h0, allSomeL] at hd
      | some r0 =>
          simp only [h0, Option.map_some, allSomeL, Option.map_eq_some_iff] at hd
          obtain ⟨d', hd', rfl⟩ := hd
          by_cases hkk : k0 = k
          · subst hkk
            simp [dictLookup, h0]
          · have hk' : k ∈ r := by
              rcases List.mem_cons.mp hk with h | h
              · exact absurd h.symm hkk
              · exact h
            have := ih d' hd' k hk'
            simp only [dictLookup] at this ⊢
            rw [List.find?_cons_of_neg (by simpa using hkk)]
            exact this

omit [BEq α] in
theorem option_bind_comm {β γ δ : Type} (a : Option β) (b : Option γ) (f : β → γ → Option δ) :
    (a.bind fun x => b.bind fun y => f x y) = (b.bind fun y => a.bind fun x => f x y) := by
  cases a <;> cases b <;> rfl

/-- one entry of the translated `modulus_*` is the model's `modulusTotal` for that key -/
theorem totalEntry_model (C : Ctx α) (table : List (String × List α)) (name : Key → String) (ph : Phonon α)
    (phK : List (List α) → Key → Option (List (List α))) (hph : ∀ e k, phK e k = ph e (name k))
    (e : List (List α)) (he : getAxialStrains (inputsOf C table) = some e)
    (d : List (Key × List (List α))) (k : Key) (hd : dictLookup d k = phK e k)
    (htab : table.lookup (name k) = columnOf C k)
    (hshape : ∀ p, phK e k = some p → ∀ row ∈ p, row.length = C.calculator.vArray.length) :
    totalEntry C table d k = (modulusTotal (inputsOf C table) ph (name k)).map fun m => (k, m) := by
  have hst : getStaticModulus (inputsOf C table) (name k) = staticOf C table k := by
    unfold getStaticModulus staticOf
    simp only [inputsOf, htab]
    rfl
  unfold totalEntry modulusTotal phononPart
  simp only [bind, pure, he, Option.bind_some, hst, hd, ← hph]
  cases hs : staticOf C table k with
  | none => cases phK e k <;> rfl
  | some st =>
      cases hp : phK e k with
      | none => rfl
      | some p =>
          have hlen : st.length = C.calculator.vArray.length := by
            unfold staticOf at hs
            simp only [Option.bind_eq_some_iff] at hs
            obtain ⟨col, _, hfit⟩ := hs
            have := fitModulus_length _ _ _ _ hfit
            simpa [inputsOf] using this
          have := addChecked_eq st p (fun row hr => by rw [hshape p hp row hr, hlen])
          simp [this]

end

/-! ### the sibling: `fit_modulus` of `cij/cli/static.py` -/

section Sibling
variable {α : Type} [Add α] [Sub α] [Mul α] [Div α] [Neg α] [OfNat α 0] [OfNat α 1] [NatCast α]
  [LE α] [DecidableLE α] [LT α] [DecidableLT α] [BEq α]

/-- **the two fit functions differ exactly where they should.**  `FullThermalElasticModulus.fit_modulus(c, order)` is
`run-static`'s `fit_modulus(volumes, v_array, ·, ·)` (as translated from static.py on this run, with qha's
`polynomial_least_square_fitting` = the model's least squares) applied to `volumes * c` instead of `c`, with degree `order + 1`
instead of `order`, and the result divided by `v_array`; the Eulerian strains are the same expressions of the same two arrays. -/
theorem fit_vs_static_fit (I : StaticSrc.Inp α) (hfit : I.fit = polynomialLeastSquareFitting) (v0 : α) (rest vArray m : List α) (k : Nat)
    (tbl : List (String × List α)) (lat : List (List α)) (gpa : α) :
    fitModulus ⟨(v0 :: rest).map (I.E.strain v0), vArray.map (I.E.strain v0), v0 :: rest, vArray, tbl, lat, gpa⟩ m k
      = ((StaticSrc.callFun I Generated.staticFitModulus
            [.ar (v0 :: rest), .ar vArray, .ar (List.zipWith (fun v c => v * c) (v0 :: rest) m), .nat (k + 1)]).bind
          StaticSrc.Val.toAr).map fun r => List.zipWith (fun a b => a / b) r vArray := by
  cases hp : polyfit ((v0 :: rest).map (I.E.strain v0)) (List.zipWith (fun v c => v * c) (v0 :: rest) m) (k + 1) with
  | none =>
      simp at hp
      simp [fitModulus, StaticSrc.callFun, StaticSrc.callFun.bind, Generated.staticFitModulus, StaticSrc.eval, StaticSrc.lookup,
        StaticSrc.Val.toAr, StaticSrc.Val.toSc, StaticSrc.Val.toNat, hfit, polynomialLeastSquareFitting, hp]
  | some p =>
      simp at hp
      simp [fitModulus, StaticSrc.callFun, StaticSrc.callFun.bind, Generated.staticFitModulus, StaticSrc.eval, StaticSrc.lookup,
        StaticSrc.Val.toAr, StaticSrc.Val.toSc, StaticSrc.Val.toNat, hfit, polynomialLeastSquareFitting, hp, List.zipWith_map_left]

end Sibling

/-- the syntactic side: after substituting the locals, `fit_modulus` of full_modulus.py returns
`polyval(polyfit(S, self.volumes * moduli, order + 1), SA) / self.v_array`, and `fit_modulus` of static.py returns
`lsq(S', moduli, SA', order)`, where `S'`, `SA'` are `S`, `SA` with `self.volumes` ↦ `volumes`, `self.v_array` ↦ `v_array` -/
theorem fit_trees_differ_exactly :
    ∃ S SA : X,
      inlineRet [] m_fit_modulus.body
        = some (.div (.fn2 "numpy.polyval" (.fn3 "numpy.polyfit" S (.mul (.self ["volumes"]) (.param "moduli"))
            (.add (.param "order") (.lit 1))) SA) (.self ["v_array"])) ∧
      (do let s ← toStatic S; let sa ← toStatic SA; pure (StaticSrc.X.lsq s (.loc "moduli") sa (.loc "order")))
        = some Generated.staticFitModulus.ret ∧
      S.selfReads = [["volumes"], ["volumes"]] ∧ SA.selfReads = [["volumes"], ["v_array"]] :=
  ⟨_, _, rfl, rfl, rfl, rfl⟩

end Cij.FMGlue
