/- Helper lemmas for C13 `interp_perm_equivariant_total` (no property statements here): when the loop of
`interpolate_modes` returns — exactly when every cell does — and a re-indexing of the (q, m) rectangle that is injective
and maps the rectangle into itself is onto it. -/
import CijProofs.Lemmas.Presentation
import Mathlib.Data.Finset.Card
import Mathlib.Data.Finset.Prod

namespace Cij.Interp

/-- a loop returns iff none of its iterations raises -/
theorem collect_isOk_iff {β : Type} (l : List (Except Err β)) :
    (∃ r, collect l = .ok r) ↔ ∀ x ∈ l, ∃ v, x = .ok v := by
  induction l with
  | nil => simp [collect]
  | cons e l ih =>
    cases e with
    | error err => simp [collect]
    | ok v =>
      simp only [collect]
      cases hc : collect l with
      | error err =>
        rw [hc] at ih
        simp only [reduceCtorEq, exists_false, false_iff, not_forall] at ih ⊢
        obtain ⟨x, hx, hne⟩ := ih
        exact ⟨x, List.mem_cons_of_mem _ hx, hne⟩
      | ok vs =>
        rw [hc] at ih
        have hall := ih.mp ⟨vs, rfl⟩
        simp only [Except.ok.injEq, exists_eq', true_iff]
        intro x hx
        rcases List.mem_cons.mp hx with rfl | hx
        · exact ⟨v, rfl⟩
        · exact hall x hx

section Glue
variable {α : Type} [Neg α] [Zero α] [ExpLog α]

/-- the double loop returns iff every cell of the `nq × np` rectangle does -/
theorem cells_isOk_iff (m : Method) (order : ℕ) (I : Interpolant α) (vols vArray : List α) (nq np : ℕ)
    (freqs : List (List (List α))) :
    (∃ c, cells m order I vols vArray nq np freqs = .ok c) ↔
      ∀ j < nq, ∀ k < np, ∃ col, cell m order I vols vArray j k (series freqs j k) = .ok col := by
  unfold cells
  rw [collect_isOk_iff]
  constructor
  · intro h j hj k hk
    have h1 := h _ (List.mem_map.mpr ⟨j, List.mem_range.mpr hj, rfl⟩)
    exact (collect_isOk_iff _).mp h1 _ (List.mem_map.mpr ⟨k, List.mem_range.mpr hk, rfl⟩)
  · intro h x hx
    obtain ⟨j, hj, rfl⟩ := List.mem_map.mp hx
    rw [collect_isOk_iff]
    intro y hy
    obtain ⟨k, hk, rfl⟩ := List.mem_map.mp hy
    exact h j (List.mem_range.mp hj) k (List.mem_range.mp hk)

/-- `interpolate_modes` returns iff its double loop does (the assembly of the three arrays cannot raise) -/
theorem interpolateModes_isOk_iff (m : Method) (order : ℕ) (I : Interpolant α) (vols vArray : List α) (nq np : ℕ)
    (freqs : List (List (List α))) :
    (∃ r, interpolateModes m order I vols vArray nq np freqs = .ok r) ↔
      ∀ j < nq, ∀ k < np, ∃ col, cell m order I vols vArray j k (series freqs j k) = .ok col := by
  rw [← cells_isOk_iff]
  unfold interpolateModes
  cases cells m order I vols vArray nq np freqs <;> simp [bind, Except.bind, pure, Except.pure]

/-- every run either returns or raises -/
theorem except_ok_or_error {ε β : Type} (x : Except ε β) : (∃ r, x = .ok r) ∨ ∃ e, x = .error e := by
  cases x with
  | ok r => exact Or.inl ⟨r, rfl⟩
  | error e => exact Or.inr ⟨e, rfl⟩

end Glue

/-- an injective map of the finite rectangle `[0, nq) × [0, np)` into itself is onto it -/
theorem rect_surj (nq np : ℕ) (σ : ℕ × ℕ → ℕ × ℕ)
    (hrange : ∀ j k, j < nq → k < np → (σ (j, k)).1 < nq ∧ (σ (j, k)).2 < np)
    (hinj : ∀ j k j' k', j < nq → k < np → j' < nq → k' < np → σ (j, k) = σ (j', k') → (j, k) = (j', k')) :
    ∀ j' k', j' < nq → k' < np → ∃ j k, j < nq ∧ k < np ∧ σ (j, k) = (j', k') := by
  intro j' k' hj' hk'
  set S : Finset (ℕ × ℕ) := Finset.range nq ×ˢ Finset.range np with hS
  have hmem : ∀ p : ℕ × ℕ, p ∈ S ↔ p.1 < nq ∧ p.2 < np := by
    intro p; simp [hS, Finset.mem_product]
  obtain ⟨a, ha, hb⟩ := Finset.surj_on_of_inj_on_of_card_le (s := S) (t := S) (fun a _ => σ a)
    (fun a ha => by
      obtain ⟨h1, h2⟩ := (hmem a).mp ha
      exact (hmem _).mpr (hrange a.1 a.2 h1 h2))
    (fun a a' ha ha' h => by
      obtain ⟨h1, h2⟩ := (hmem a).mp ha
      obtain ⟨h1', h2'⟩ := (hmem a').mp ha'
      exact hinj a.1 a.2 a'.1 a'.2 h1 h2 h1' h2' h)
    le_rfl (j', k') ((hmem _).mpr ⟨hj', hk'⟩)
  obtain ⟨h1, h2⟩ := (hmem a).mp ha
  exact ⟨a.1, a.2, h1, h2, hb.symm⟩

end Cij.Interp
