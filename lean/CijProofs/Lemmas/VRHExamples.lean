/-
  Concrete instances for C07 (no property statements here):
   * `exInp`/`exS`  — a cubic stiffness (c11 = 3, c12 = 1, c44 = 1) on a 1×1 grid with its exact inverse:
                      all hypotheses of the C07 theorems hold (non-vacuity);
   * `wInp`/`wS`    — regression instance: an orthorhombic positive-definite stiffness whose inverse has
                      s12 = 0 exactly (before repo commit 1b22ce6 the code dropped the key `s12` and reported no
                      Reuss modulus for it).
-/
import CijProofs.Lemmas.VRH

namespace Cij.VRH
open Cij Matrix

/-- orthotropic dictionary on a 1×1 grid from nine numbers -/
noncomputable def orthoDict (c11 c22 c33 c12 c23 c13 c44 c55 c66 : ℝ) : Dict ℝ :=
  [(keyOfVoigt (1, 1), [[c11]]), (keyOfVoigt (2, 2), [[c22]]), (keyOfVoigt (3, 3), [[c33]]),
   (keyOfVoigt (1, 2), [[c12]]), (keyOfVoigt (2, 3), [[c23]]), (keyOfVoigt (1, 3), [[c13]]),
   (keyOfVoigt (4, 4), [[c44]]), (keyOfVoigt (5, 5), [[c55]]), (keyOfVoigt (6, 6), [[c66]])]

/-- the 6×6 such a dictionary assembles to -/
noncomputable def orthoMat (c11 c22 c33 c12 c23 c13 c44 c55 c66 : ℝ) (i j : Int) : ℝ :=
  if i = 1 ∧ j = 1 then c11 else if i = 2 ∧ j = 2 then c22 else if i = 3 ∧ j = 3 then c33
  else if (i = 1 ∧ j = 2) ∨ (i = 2 ∧ j = 1) then c12
  else if (i = 2 ∧ j = 3) ∨ (i = 3 ∧ j = 2) then c23
  else if (i = 1 ∧ j = 3) ∨ (i = 3 ∧ j = 1) then c13
  else if i = 4 ∧ j = 4 then c44 else if i = 5 ∧ j = 5 then c55 else if i = 6 ∧ j = 6 then c66 else 0

theorem orthoDict_keys (c11 c22 c33 c12 c23 c13 c44 c55 c66 : ℝ) :
    ValidKeys ((orthoDict c11 c22 c33 c12 c23 c13 c44 c55 c66).map (·.1)) := by
  have : (orthoDict c11 c22 c33 c12 c23 c13 c44 c55 c66).map (·.1) = ortho9.map keyOfVoigt := rfl
  rw [this]
  exact ⟨by decide +kernel, by decide +kernel, fun p hp => List.mem_map.2 ⟨p, hp, rfl⟩⟩

theorem orthoDict_assemble (c11 c22 c33 c12 c23 c13 c44 c55 c66 : ℝ) :
    ∀ i j, (i, j) ∈ allPairs →
      assembleEntry (kvAt (orthoDict c11 c22 c33 c12 c23 c13 c44 c55 c66) 0 0) i j
        = orthoMat c11 c22 c33 c12 c23 c13 c44 c55 c66 i j := by
  apply of_fin
  intro a b
  fin_cases a <;> fin_cases b <;>
    simp (config := { decide := true }) [assembleEntry, kvAt, orthoDict, orthoMat, ix, fieldAt, writes]

theorem orthoMat_quad (c11 c22 c33 c12 c23 c13 c44 c55 c66 : ℝ) (x : Fin 6 → ℝ) :
    x ⬝ᵥ toMat (orthoMat c11 c22 c33 c12 c23 c13 c44 c55 c66) *ᵥ x =
      c11 * x 0 ^ 2 + c22 * x 1 ^ 2 + c33 * x 2 ^ 2 + 2 * c12 * x 0 * x 1 + 2 * c23 * x 1 * x 2
        + 2 * c13 * x 0 * x 2 + c44 * x 3 ^ 2 + c55 * x 4 ^ 2 + c66 * x 5 ^ 2 := by
  simp [dotProduct, Matrix.mulVec, Fin.sum_univ_six, toMat, ix, orthoMat]; ring

theorem orthoMat_mul (c11 c22 c33 c12 c23 c13 c44 c55 c66 s11 s22 s33 s12 s23 s13 s44 s55 s66 : ℝ)
    (h11 : c11 * s11 + c12 * s12 + c13 * s13 = 1) (h12 : c11 * s12 + c12 * s22 + c13 * s23 = 0)
    (h13 : c11 * s13 + c12 * s23 + c13 * s33 = 0) (h21 : c12 * s11 + c22 * s12 + c23 * s13 = 0)
    (h22 : c12 * s12 + c22 * s22 + c23 * s23 = 1) (h23 : c12 * s13 + c22 * s23 + c23 * s33 = 0)
    (h31 : c13 * s11 + c23 * s12 + c33 * s13 = 0) (h32 : c13 * s12 + c23 * s22 + c33 * s23 = 0)
    (h33 : c13 * s13 + c23 * s23 + c33 * s33 = 1) (h44 : c44 * s44 = 1) (h55 : c55 * s55 = 1)
    (h66 : c66 * s66 = 1) :
    toMat (orthoMat c11 c22 c33 c12 c23 c13 c44 c55 c66) * toMat (orthoMat s11 s22 s33 s12 s23 s13 s44 s55 s66)
      = 1 := by
  ext a b
  fin_cases a <;> fin_cases b <;>
    simp [Matrix.mul_apply, Fin.sum_univ_six, toMat, ix, orthoMat] <;> assumption

/-! #### the cubic instance -/

noncomputable def exInp : Inputs ℝ :=
  { modAd := orthoDict 3 3 3 1 1 1 1 1 1, nt := 1, nv := 1, vArray := [500],
    cellmass := 100, avogadro := 6.02214076e23, ryFactor := 2.1798723611e-24 }

noncomputable def exS : Nat → Nat → Int → Int → ℝ :=
  fun _ _ => orthoMat (2 / 5) (2 / 5) (2 / 5) (-1 / 10) (-1 / 10) (-1 / 10) 1 1 1

theorem ex_toMat : toMat (assembleEntry (kvAt exInp.modAd 0 0)) = toMat (orthoMat 3 3 3 1 1 1 1 1 1) :=
  toMat_congr _ _ (orthoDict_assemble 3 3 3 1 1 1 1 1 1)

theorem ex_posDef : PosDef6 (assembleEntry (kvAt exInp.modAd 0 0)) := by
  intro x hx
  rw [ex_toMat, orthoMat_quad]
  have := sq_sum_pos x hx
  nlinarith [sq_nonneg (x 0 + x 1 + x 2), sq_nonneg (x 0), sq_nonneg (x 1), sq_nonneg (x 2)]

theorem ex_inv : toMat (assembleEntry (kvAt exInp.modAd 0 0)) * toMat (exS 0 0) = 1 := by
  rw [ex_toMat]
  exact orthoMat_mul _ _ _ _ _ _ _ _ _ _ _ _ _ _ _ _ _ _ (by norm_num) (by norm_num) (by norm_num)
    (by norm_num) (by norm_num) (by norm_num) (by norm_num) (by norm_num) (by norm_num) (by norm_num)
    (by norm_num) (by norm_num)

/-! #### the regression instance: positive definite, s12 = 0 -/

noncomputable def wInp : Inputs ℝ :=
  { modAd := orthoDict 10 10 4 1 2 2 1 1 1, nt := 1, nv := 1, vArray := [500],
    cellmass := 100, avogadro := 6.02214076e23, ryFactor := 2.1798723611e-24 }

noncomputable def wS : Nat → Nat → Int → Int → ℝ :=
  fun _ _ => orthoMat (1 / 9) (1 / 9) (11 / 36) 0 (-1 / 18) (-1 / 18) 1 1 1

theorem w_toMat : toMat (assembleEntry (kvAt wInp.modAd 0 0)) = toMat (orthoMat 10 10 4 1 2 2 1 1 1) :=
  toMat_congr _ _ (orthoDict_assemble 10 10 4 1 2 2 1 1 1)

theorem w_posDef : PosDef6 (assembleEntry (kvAt wInp.modAd 0 0)) := by
  intro x hx
  rw [w_toMat, orthoMat_quad]
  have := sq_sum_pos x hx
  nlinarith [sq_nonneg (x 0 + x 1), sq_nonneg (x 0 + x 2), sq_nonneg (x 1 + x 2), sq_nonneg (x 0),
    sq_nonneg (x 1), sq_nonneg (x 2)]

theorem w_inv : toMat (assembleEntry (kvAt wInp.modAd 0 0)) * toMat (wS 0 0) = 1 := by
  rw [w_toMat]
  exact orthoMat_mul _ _ _ _ _ _ _ _ _ _ _ _ _ _ _ _ _ _ (by norm_num) (by norm_num) (by norm_num)
    (by norm_num) (by norm_num) (by norm_num) (by norm_num) (by norm_num) (by norm_num) (by norm_num)
    (by norm_num) (by norm_num)

end Cij.VRH
