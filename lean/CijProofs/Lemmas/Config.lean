/-
  Helper lemmas for C16 (merge part): the one-level characterisation of `updateConfig`, the complete
  path-by-path specification `walk_update`, `walk_update_taken`, and the success condition `ok_iff`.
-/
import CijModel.Config

namespace Cij.Config
open Cij

/-- the iteration order over a Python set: any function that returns a permutation of its argument -/
def OrdOK (ord : List String → List String) : Prop := ∀ l, (ord l).Perm l

theorem ordOK_id : OrdOK id := fun _ => List.Perm.refl _
theorem ordOK_reverse : OrdOK List.reverse := fun l => List.reverse_perm l

/-! ### association lists -/

theorem lookup_mem {k : String} {v : J} : ∀ {kv : KV}, lookup k kv = some v → (k, v) ∈ kv
  | [], h => by simp [lookup] at h
  | (k', x) :: r, h => by
      simp only [lookup] at h
      split at h
      · rename_i hk; cases h; subst hk; exact List.mem_cons_self
      · exact List.mem_cons_of_mem _ (lookup_mem h)

theorem lookup_isSome_iff {k : String} : ∀ {kv : KV}, (lookup k kv).isSome = true ↔ k ∈ keys kv
  | [] => by simp [lookup, keys]
  | (k', x) :: r => by
      simp only [lookup, keys, List.map_cons, List.mem_cons]
      split
      · rename_i hk; simp [hk]
      · rename_i hk
        have := @lookup_isSome_iff k r
        simp only [keys] at this
        rw [this]
        constructor
        · exact Or.inr
        · rintro (h | h)
          · exact absurd h.symm hk
          · exact h

theorem hasKey_iff {k : String} {kv : KV} : hasKey k kv = true ↔ k ∈ keys kv := lookup_isSome_iff

theorem lookup_none_iff {k : String} {kv : KV} : lookup k kv = none ↔ k ∉ keys kv := by
  rw [← lookup_isSome_iff]; cases lookup k kv <;> simp

theorem mem_keyUnion {k : String} {u d : KV} :
    k ∈ keyUnion u d ↔ ((lookup k u).isSome = true ∨ (lookup k d).isSome = true) := by
  simp only [keyUnion, List.mem_append, List.mem_filter, Bool.not_eq_true', hasKey]
  rw [lookup_isSome_iff, lookup_isSome_iff]
  constructor
  · rintro (h | ⟨h, _⟩)
    · exact Or.inl h
    · exact Or.inr h
  · rintro (h | h)
    · exact Or.inl h
    · by_cases hu : k ∈ keys u
      · exact Or.inl hu
      · refine Or.inr ⟨h, ?_⟩
        have : lookup k u = none := lookup_none_iff.2 hu
        simp [this]

theorem sizeOf_lookup_lt {k : String} {v : J} {kv : KV} (h : lookup k kv = some v) :
    sizeOf v < 1 + sizeOf kv := by
  have hm := List.sizeOf_lt_of_mem (lookup_mem h)
  have : sizeOf (k, v) = 1 + sizeOf k + sizeOf v := rfl
  omega

/-! ### the loop -/

theorem loop_ok_mem {f : String → Except Err J} {k : String} :
    ∀ {ks : List String} {r : KV}, loop f ks = .ok r → k ∈ ks → ∃ v, f k = .ok v ∧ lookup k r = some v
  | [], _, _, hk => by simp at hk
  | k' :: ks, r, h, hk => by
      simp only [loop] at h
      cases hf : f k' with
      | error e => simp [hf] at h
      | ok v' =>
        simp only [hf] at h
        cases hl : loop f ks with
        | error e => simp [hl] at h
        | ok r' =>
          simp only [hl, Except.ok.injEq] at h
          subst h
          by_cases hkk : k' = k
          · subst hkk; exact ⟨v', hf, by simp [lookup]⟩
          · have hk' : k ∈ ks := by
              rcases List.mem_cons.1 hk with h | h
              · exact absurd h.symm hkk
              · exact h
            obtain ⟨v, hv, hlk⟩ := loop_ok_mem hl hk'
            exact ⟨v, hv, by simp [lookup, hkk, hlk]⟩

theorem loop_ok_not_mem {f : String → Except Err J} {k : String} :
    ∀ {ks : List String} {r : KV}, loop f ks = .ok r → k ∉ ks → lookup k r = none
  | [], r, h, _ => by simp [loop] at h; subst h; rfl
  | k' :: ks, r, h, hk => by
      simp only [loop] at h
      cases hf : f k' with
      | error e => simp [hf] at h
      | ok v' =>
        simp only [hf] at h
        cases hl : loop f ks with
        | error e => simp [hl] at h
        | ok r' =>
          simp only [hl, Except.ok.injEq] at h
          subst h
          have hkk : ¬ k' = k := fun e => hk (e ▸ List.mem_cons_self)
          have hk' : k ∉ ks := fun e => hk (List.mem_cons_of_mem _ e)
          simp [lookup, hkk, loop_ok_not_mem hl hk']

theorem loop_ok_of_forall {f : String → Except Err J} :
    ∀ {ks : List String}, (∀ k ∈ ks, ∃ v, f k = .ok v) → ∃ r, loop f ks = .ok r
  | [], _ => ⟨[], rfl⟩
  | k :: ks, h => by
      obtain ⟨v, hv⟩ := h k List.mem_cons_self
      obtain ⟨r, hr⟩ := loop_ok_of_forall (ks := ks) (fun k' hk' => h k' (List.mem_cons_of_mem _ hk'))
      exact ⟨(k, v) :: r, by simp [loop, hv, hr]⟩

theorem loop_error {f : String → Except Err J} {e : Err} :
    ∀ {ks : List String}, loop f ks = .error e → ∃ k ∈ ks, f k = .error e
  | [], h => by simp [loop] at h
  | k :: ks, h => by
      simp only [loop] at h
      cases hf : f k with
      | error e' =>
        simp only [hf, Except.error.injEq] at h
        exact ⟨k, List.mem_cons_self, by rw [hf, h]⟩
      | ok v =>
        simp only [hf] at h
        cases hl : loop f ks with
        | error e' =>
          simp only [hl, Except.error.injEq] at h
          obtain ⟨k', hk', hfk⟩ := loop_error (ks := ks) (e := e') hl
          exact ⟨k', List.mem_cons_of_mem _ hk', by rw [hfk, h]⟩
        | ok r => simp [hl] at h

/-! ### unfolding `updateConfig` -/

theorem lookupF_updRecs (ord : List String → List String) (k : String) :
    ∀ u : KV, lookupF k (updRecs ord u) = (lookup k u).map (updateConfig ord)
  | [] => by simp [updRecs, lookupF, lookup]
  | (k', v) :: r => by
      simp only [updRecs, lookupF, lookup]
      split
      · simp
      · exact lookupF_updRecs ord k r

/-- the loop body with the recursive call written directly -/
def body' (ord : List String → List String) (u d : KV) (k : String) : Except Err J :=
  match lookup k u, lookup k d with
  | none, some dv => .ok dv
  | none, none => .error .keyError
  | some uv, none => .ok uv
  | some uv, some dv => if isObj uv && isObj dv then updateConfig ord uv dv else .ok uv

theorem body_eq (ord : List String → List String) (u d : KV) :
    body (fun k => lookupF k (updRecs ord u)) u d = body' ord u d := by
  funext k
  simp only [body, body', lookupF_updRecs]
  cases hu : lookup k u <;> cases hd : lookup k d <;> simp

theorem updateConfig_obj (ord : List String → List String) (u d : KV) :
    updateConfig ord (.obj u) (.obj d) =
      match loop (body' ord u d) (ord (keyUnion u d)) with
      | .ok r => .ok (.obj r)
      | .error e => .error e := by
  rw [updateConfig, body_eq]
  cases loop (body' ord u d) (ord (keyUnion u d)) <;> rfl

theorem updateConfig_nonobj_left (ord : List String → List String) (u d : J) (h : isObj u = false) :
    updateConfig ord u d = .error .attributeError := by
  cases u <;> simp_all [updateConfig, isObj]

theorem updateConfig_nonobj_right (ord : List String → List String) (u d : J) (h : isObj d = false) :
    updateConfig ord u d = .error .attributeError := by
  cases u <;> cases d <;> simp_all [updateConfig, isObj]

/-- success has the shape dict × dict → dict -/
theorem ok_shape {ord : List String → List String} {u d r : J} (h : updateConfig ord u d = .ok r) :
    ∃ ukv dkv rkv, u = .obj ukv ∧ d = .obj dkv ∧ r = .obj rkv ∧
      loop (body' ord ukv dkv) (ord (keyUnion ukv dkv)) = .ok rkv := by
  cases hu : isObj u with
  | false => rw [updateConfig_nonobj_left ord u d hu] at h; cases h
  | true =>
    cases hd : isObj d with
    | false => rw [updateConfig_nonobj_right ord u d hd] at h; cases h
    | true =>
      cases u <;> simp [isObj] at hu
      cases d <;> simp [isObj] at hd
      rename_i ukv dkv
      rw [updateConfig_obj] at h
      cases hl : loop (body' ord ukv dkv) (ord (keyUnion ukv dkv)) with
      | error e => simp [hl] at h
      | ok rkv =>
        simp only [hl, Except.ok.injEq] at h
        exact ⟨ukv, dkv, rkv, rfl, rfl, h.symm, hl⟩

/-- **One level of the merge**, key by key (the four branches of the loop body). -/
theorem lookup_update_cases {ord : List String → List String} (hord : OrdOK ord) {u d r : KV}
    (h : updateConfig ord (.obj u) (.obj d) = .ok (.obj r)) (k : String) :
    (lookup k u = none ∧ lookup k d = none ∧ lookup k r = none) ∨
    (lookup k u = none ∧ ∃ dv, lookup k d = some dv ∧ lookup k r = some dv) ∨
    (∃ uv, lookup k u = some uv ∧ lookup k d = none ∧ lookup k r = some uv) ∨
    (∃ uv dv, lookup k u = some uv ∧ lookup k d = some dv ∧ (isObj uv && isObj dv) = false ∧ lookup k r = some uv) ∨
    (∃ uv dv rv, lookup k u = some uv ∧ lookup k d = some dv ∧ isObj uv = true ∧ isObj dv = true ∧
        updateConfig ord uv dv = .ok rv ∧ lookup k r = some rv) := by
  obtain ⟨ukv, dkv, rkv, hu, hd, hr, hl⟩ := ok_shape h
  cases hu; cases hd; cases hr
  by_cases hk : k ∈ ord (keyUnion u d)
  · obtain ⟨v, hv, hlk⟩ := loop_ok_mem hl hk
    simp only [body'] at hv
    cases hu : lookup k u with
    | none =>
      cases hd : lookup k d with
      | none => simp [hu, hd] at hv
      | some dv =>
        simp only [hu, hd, Except.ok.injEq] at hv
        subst hv
        exact Or.inr (Or.inl ⟨rfl, dv, rfl, hlk⟩)
    | some uv =>
      cases hd : lookup k d with
      | none =>
        simp only [hu, hd, Except.ok.injEq] at hv
        subst hv
        exact Or.inr (Or.inr (Or.inl ⟨uv, rfl, rfl, hlk⟩))
      | some dv =>
        simp only [hu, hd] at hv
        cases ho : (isObj uv && isObj dv) with
        | false =>
          simp only [ho, Bool.false_eq_true, if_false, Except.ok.injEq] at hv
          subst hv
          exact Or.inr (Or.inr (Or.inr (Or.inl ⟨uv, dv, rfl, rfl, ho, hlk⟩)))
        | true =>
          simp only [ho, if_true] at hv
          rw [Bool.and_eq_true] at ho
          exact Or.inr (Or.inr (Or.inr (Or.inr ⟨uv, dv, v, rfl, rfl, ho.1, ho.2, hv, hlk⟩)))
  · have hlk := loop_ok_not_mem hl hk
    have hk' : k ∉ keyUnion u d := fun e => hk ((hord _).mem_iff.2 e)
    rw [mem_keyUnion] at hk'
    have h1 : lookup k u = none := by
      cases hu : lookup k u with
      | none => rfl
      | some _ => exact absurd (Or.inl (by simp [hu])) hk'
    have h2 : lookup k d = none := by
      cases hd : lookup k d with
      | none => rfl
      | some _ => exact absurd (Or.inr (by simp [hd])) hk'
    exact Or.inl ⟨h1, h2, hlk⟩

/-! ### walks -/

theorem walk_nonobj_nil {v : J} (h : isObj v = false) : walk v [] = .leafAt v := by
  cases v <;> simp_all [walk, isObj]

theorem walk_nonobj_cons {v : J} (h : isObj v = false) (k : String) (p : List String) :
    walk v (k :: p) = .shadowed := by
  cases v <;> simp_all [walk, isObj]

theorem walk_obj_nil (kv : KV) : walk (.obj kv) [] = .dictAt := by simp [walk]

theorem walk_obj_cons (kv : KV) (k : String) (p : List String) :
    walk (.obj kv) (k :: p) = match lookup k kv with | some v => walk v p | none => .fellOff := by
  cases h : lookup k kv <;> simp [walk, h]

theorem over_nonobj {v : J} (h : isObj v = false) (p : List String) (w : Walk) :
    (walk v p).over w = walk v p := by
  cases p with
  | nil => rw [walk_nonobj_nil h]; rfl
  | cons k q => rw [walk_nonobj_cons h]; rfl

theorem over_fellOff_right (a : Walk) : a.over .fellOff = a := by cases a <;> rfl
theorem over_idem (a b : Walk) : (a.over b).over b = a.over b := by cases a <;> cases b <;> rfl

theorem walk_eq_leafAt {t : J} {p : List String} {v : J} :
    walk t p = .leafAt v ↔ (get t p = some v ∧ isObj v = false) := by
  induction p generalizing t with
  | nil =>
    cases t <;> simp [walk, get, isObj] <;> (try constructor) <;> (try rintro rfl) <;> simp_all
  | cons k q ih =>
    cases t <;> simp [walk, get]
    rename_i kv
    cases hl : lookup k kv with
    | none => simp
    | some x => simp [ih]

theorem walk_eq_dictAt {t : J} {p : List String} :
    walk t p = .dictAt ↔ ∃ kv, get t p = some (.obj kv) := by
  induction p generalizing t with
  | nil => cases t <;> simp [walk, get]
  | cons k q ih =>
    cases t <;> simp [walk, get]
    rename_i kv
    cases hl : lookup k kv with
    | none => simp
    | some x => simp [ih]

theorem get_isSome_iff {t : J} {p : List String} :
    (get t p).isSome = true ↔ (walk t p = .dictAt ∨ ∃ v, walk t p = .leafAt v) := by
  induction p generalizing t with
  | nil => cases t <;> simp [walk, get]
  | cons k q ih =>
    cases t <;> simp [walk, get]
    rename_i kv
    cases hl : lookup k kv with
    | none => simp
    | some x => simpa using ih

/-- walking below a value reached by `get` is walking the longer path -/
theorem walk_of_get {t x : J} : ∀ (q s : List String), get t q = some x → walk x s = walk t (q ++ s) := by
  intro q
  induction q generalizing t with
  | nil => intro s h; simp only [get, Option.some.injEq] at h; subst h; rfl
  | cons k q ih =>
    intro s h
    cases t <;> simp only [get] at h <;> try (cases h)
    rename_i kv
    simp only [List.cons_append, walk_obj_cons]
    cases hl : lookup k kv with
    | none => simp [hl] at h
    | some y => simp only [hl] at h ⊢; exact ih s h

theorem walk_dictAt_isObj {v : J} {p : List String} (h : walk v p = .dictAt) : isObj v = true := by
  cases hv : isObj v with
  | true => rfl
  | false =>
    cases p with
    | nil => rw [walk_nonobj_nil hv] at h; cases h
    | cons k q => rw [walk_nonobj_cons hv] at h; cases h

theorem over_eq_fellOff {a b : Walk} (h : a.over b = .fellOff) : a = .fellOff ∧ b = .fellOff := by
  cases a <;> simp_all [Walk.over]

theorem walk_leafAt_isObj {t v : J} {p : List String} (h : walk t p = .leafAt v) : isObj v = false :=
  (walk_eq_leafAt.1 h).2

/-- along `p`, the user has a dictionary at a place where the default has a non-dictionary value: the user's
dictionary is taken whole there -/
def TakenWhole (u d : J) (p : List String) : Prop :=
  ∃ q r v, p = q ++ r ∧ walk u q = .dictAt ∧ walk d q = .leafAt v

theorem takenWhole_cons {ukv dkv : KV} {k : String} {p : List String} {uv dv : J}
    (h1 : lookup k ukv = some uv) (h2 : lookup k dkv = some dv) :
    TakenWhole (.obj ukv) (.obj dkv) (k :: p) ↔ TakenWhole uv dv p := by
  constructor
  · rintro ⟨q, r, v, hp, hu, hd⟩
    cases q with
    | nil => simp [walk] at hd
    | cons k' q' =>
      simp only [List.cons_append, List.cons.injEq] at hp
      obtain ⟨rfl, rfl⟩ := hp
      rw [walk_obj_cons, h1] at hu
      rw [walk_obj_cons, h2] at hd
      exact ⟨q', r, v, rfl, hu, hd⟩
  · rintro ⟨q, r, v, hp, hu, hd⟩
    refine ⟨k :: q, r, v, by simp [hp], ?_, ?_⟩
    · rw [walk_obj_cons, h1]; exact hu
    · rw [walk_obj_cons, h2]; exact hd

/-- **Specification of the merge, path by path (1)**: below a place where the user has a dictionary over a
non-dictionary default, the result shows exactly what the user has. -/
theorem walk_update_taken {ord : List String → List String} (hord : OrdOK ord) :
    ∀ (p : List String) {u d r : J}, updateConfig ord u d = .ok r → TakenWhole u d p → walk r p = walk u p := by
  intro p
  induction p with
  | nil =>
    intro u d r h ht
    obtain ⟨ukv, dkv, rkv, rfl, rfl, rfl, _⟩ := ok_shape h
    simp [walk]
  | cons k p ih =>
    intro u d r h ht
    obtain ⟨ukv, dkv, rkv, rfl, rfl, rfl, _⟩ := ok_shape h
    obtain ⟨q, r', v, hp, hu, hd⟩ := id ht
    cases q with
    | nil => simp [walk] at hd
    | cons k' q' =>
      simp only [List.cons_append, List.cons.injEq] at hp
      obtain ⟨rfl, rfl⟩ := hp
      rw [walk_obj_cons] at hu hd
      simp only [walk_obj_cons]
      rcases lookup_update_cases hord h k with
        ⟨h1, h2, h3⟩ | ⟨h1, dv, h2, h3⟩ | ⟨uv, h1, h2, h3⟩ | ⟨uv, dv, h1, h2, ho, h3⟩ | ⟨uv, dv, rv, h1, h2, ho1, ho2, hrec, h3⟩
      · simp [h1] at hu
      · simp [h1] at hu
      · simp [h2] at hd
      · simp [h1, h3]
      · simp only [h1, h3]
        exact ih hrec ((takenWhole_cons h1 h2).1 ht)

/-- **Specification of the merge, path by path (2)**: everywhere else the user's walk wins unless it fell off a
dict, in which case the default's walk is taken. -/
theorem walk_update {ord : List String → List String} (hord : OrdOK ord) :
    ∀ (p : List String) {u d r : J}, updateConfig ord u d = .ok r → ¬ TakenWhole u d p →
      walk r p = (walk u p).over (walk d p) := by
  intro p
  induction p with
  | nil =>
    intro u d r h _
    obtain ⟨ukv, dkv, rkv, rfl, rfl, rfl, _⟩ := ok_shape h
    simp [walk, Walk.over]
  | cons k q ih =>
    intro u d r h hnt
    obtain ⟨ukv, dkv, rkv, rfl, rfl, rfl, _⟩ := ok_shape h
    simp only [walk_obj_cons]
    rcases lookup_update_cases hord h k with
      ⟨h1, h2, h3⟩ | ⟨h1, dv, h2, h3⟩ | ⟨uv, h1, h2, h3⟩ | ⟨uv, dv, h1, h2, ho, h3⟩ | ⟨uv, dv, rv, h1, h2, ho1, ho2, hrec, h3⟩
    · simp [h1, h2, h3, Walk.over]
    · simp [h1, h2, h3, Walk.over]
    · simp [h1, h2, h3, over_fellOff_right]
    · simp only [h1, h2, h3]
      cases hou : isObj uv with
      | false => rw [over_nonobj hou]
      | true =>
        exfalso
        have hod : isObj dv = false := by simpa [hou] using ho
        apply hnt
        refine ⟨[k], q, dv, rfl, ?_, ?_⟩
        · rw [walk_obj_cons, h1]
          cases uv <;> simp [isObj] at hou
          simp [walk]
        · rw [walk_obj_cons, h2]; exact walk_nonobj_nil hod
    · simp only [h1, h2, h3]
      exact ih hrec (fun ht => hnt ((takenWhole_cons h1 h2).2 ht))

/-- at the end of a default LEAF path the user's dictionary cannot have been taken whole higher up, unless the
user has a dictionary exactly there -/
theorem not_takenWhole_of_leaf {u d : J} {p : List String} {v : J} (hd : walk d p = .leafAt v)
    (hu : walk u p ≠ .dictAt) : ¬ TakenWhole u d p := by
  rintro ⟨q, r, v', hp, huq, hdq⟩
  subst hp
  have hr : r = [] := by
    clear hu huq
    induction q generalizing d with
    | nil =>
      have hv' := walk_leafAt_isObj hdq
      simp only [walk_eq_leafAt, get, Option.some.injEq] at hdq
      obtain ⟨rfl, _⟩ := hdq
      cases r with
      | nil => rfl
      | cons k r' => simp only [List.nil_append] at hd; rw [walk_nonobj_cons hv'] at hd; cases hd
    | cons k q ih =>
      cases hod : isObj d with
      | false => rw [walk_nonobj_cons hod] at hdq; cases hdq
      | true =>
        cases d <;> simp [isObj] at hod
        rename_i kv
        simp only [List.cons_append, walk_obj_cons] at hd hdq
        cases hl : lookup k kv with
        | none => simp [hl] at hdq
        | some x => simp only [hl] at hd hdq; exact ih hdq hd
  subst hr
  simp only [List.append_nil] at hu
  exact hu huq

/-! ### the merge is total on dictionaries -/

theorem ok_of_obj {ord : List String → List String} (hord : OrdOK ord) :
    ∀ (u d : J), isObj u = true → isObj d = true → ∃ r, updateConfig ord u d = .ok r
  | .obj ukv, .obj dkv, _, _ => by
      rw [updateConfig_obj]
      have : ∃ r, loop (body' ord ukv dkv) (ord (keyUnion ukv dkv)) = .ok r := by
        apply loop_ok_of_forall
        intro k hk
        have hk' := (hord _).mem_iff.1 hk
        rw [mem_keyUnion] at hk'
        simp only [body']
        cases h1 : lookup k ukv with
        | none =>
          cases h2 : lookup k dkv with
          | none => simp [h1, h2] at hk'
          | some dv => exact ⟨dv, rfl⟩
        | some uv =>
          cases h2 : lookup k dkv with
          | none => exact ⟨uv, rfl⟩
          | some dv =>
            cases ho : (isObj uv && isObj dv) with
            | false => exact ⟨uv, by simp [ho]⟩
            | true =>
              have hlt := sizeOf_lookup_lt h1
              rw [Bool.and_eq_true] at ho
              obtain ⟨rv, hrv⟩ := ok_of_obj hord uv dv ho.1 ho.2
              exact ⟨rv, by simp [ho.1, ho.2, hrv]⟩
      obtain ⟨r, hr⟩ := this
      exact ⟨.obj r, by simp [hr]⟩
  | .obj _, .null, _, h => by simp [isObj] at h
  | .obj _, .bool _, _, h => by simp [isObj] at h
  | .obj _, .num _ _ _, _, h => by simp [isObj] at h
  | .obj _, .str _, _, h => by simp [isObj] at h
  | .obj _, .arr _, _, h => by simp [isObj] at h
  | .null, _, h, _ => by simp [isObj] at h
  | .bool _, _, h, _ => by simp [isObj] at h
  | .num _ _ _, _, h, _ => by simp [isObj] at h
  | .str _, _, h, _ => by simp [isObj] at h
  | .arr _, _, h, _ => by simp [isObj] at h
termination_by u => sizeOf u

/-- `update_config(u, d)` returns iff both arguments are dicts (otherwise `.keys()` raises AttributeError) -/
theorem ok_iff {ord : List String → List String} (hord : OrdOK ord) (u d : J) :
    (∃ r, updateConfig ord u d = .ok r) ↔ (isObj u = true ∧ isObj d = true) := by
  constructor
  · rintro ⟨r, h⟩
    obtain ⟨ukv, dkv, _, rfl, rfl, _, _⟩ := ok_shape h
    exact ⟨rfl, rfl⟩
  · rintro ⟨h1, h2⟩
    exact ok_of_obj hord u d h1 h2

/-- the only exception the merge can raise is the AttributeError of `.keys()` (top-level non-dict argument) -/
theorem error_is_attributeError {ord : List String → List String} (hord : OrdOK ord)
    (u d : J) (e : Err) (h : updateConfig ord u d = .error e) : e = .attributeError := by
  cases hu : isObj u with
  | false => rw [updateConfig_nonobj_left ord u d hu] at h; cases h; rfl
  | true =>
    cases hd : isObj d with
    | false => rw [updateConfig_nonobj_right ord u d hd] at h; cases h; rfl
    | true =>
      obtain ⟨r, hr⟩ := ok_of_obj hord u d hu hd
      rw [hr] at h; cases h

/-! ### "equal as maps" is what `walk` sees -/

/-- equality of configurations as Python values (dict key order invisible) -/
def MapEq (a b : J) : Prop := ∀ p, walk a p = walk b p

theorem MapEq.refl (a : J) : MapEq a a := fun _ => rfl
theorem MapEq.symm {a b : J} (h : MapEq a b) : MapEq b a := fun p => (h p).symm
theorem MapEq.trans {a b c : J} (h : MapEq a b) (h' : MapEq b c) : MapEq a c := fun p => (h p).trans (h' p)

/-- non-dict values are equal as maps iff they are the same value -/
theorem mapEq_nonobj {a b : J} (ha : isObj a = false) : MapEq a b ↔ a = b := by
  constructor
  · intro h
    have := h []
    rw [walk_nonobj_nil ha] at this
    cases hb : isObj b with
    | false => rw [walk_nonobj_nil hb] at this; cases this; rfl
    | true => cases b <;> simp [isObj] at hb; simp [walk] at this
  · rintro rfl; exact MapEq.refl _

/-- dicts are equal as maps iff they have the same keys and the values under every key are equal as maps
(this is the recursive definition of `dict.__eq__`) -/
theorem mapEq_obj {a b : KV} : MapEq (.obj a) (.obj b) ↔
    ∀ k, match lookup k a, lookup k b with
      | none, none => True
      | some x, some y => MapEq x y
      | _, _ => False := by
  constructor
  · intro h k
    cases ha : lookup k a with
    | none =>
      cases hb : lookup k b with
      | none => trivial
      | some y =>
        have := h [k]
        simp only [walk_obj_cons, ha, hb] at this
        cases y <;> simp [walk] at this
    | some x =>
      cases hb : lookup k b with
      | none =>
        have := h [k]
        simp only [walk_obj_cons, ha, hb] at this
        cases x <;> simp [walk] at this
      | some y =>
        intro p
        have := h (k :: p)
        simpa only [walk_obj_cons, ha, hb] using this
  · intro h p
    cases p with
    | nil => simp [walk]
    | cons k q =>
      have := h k
      simp only [walk_obj_cons]
      cases ha : lookup k a with
      | none =>
        cases hb : lookup k b with
        | none => rfl
        | some y => simp only [ha, hb] at this
      | some x =>
        cases hb : lookup k b with
        | none => simp only [ha, hb] at this
        | some y =>
          simp only [ha, hb] at this
          exact this q

end Cij.Config
