/-
  `CijModel/Extract.lean` IS the interpretation (`CijModel/ExtractSrc.lean`) of what `cij/cli/extract.py` and
  `cij/cli/geotherm.py` say now (`Generated/ExtractSpec.lean`, re-translated on every run by
  `tools/gens/extract_src.py`).  Helper lemmas only; the property-level statements are the
  `extract_model_is_source_*` theorems of `Properties/C19.lean`.
-/
import CijModel.ExtractSrc
import Generated.ExtractSpec
import CijProofs.Lemmas.Extract

namespace Cij.ExtractSrc

open Cij.Extract Generated.ExtractSpec
open Cij.Writer (dictGet dictSet optAll)

/-! ### glob -/

theorem patternOf_var_tp (var : String) : patternOf [(true, "var"), (false, "_tp_*")] var = var ++ "_tp_*" := by
  simp [patternOf, String.join]

theorem globMatchOf_var_tp (var fname : String) :
    globMatchOf [(true, "var"), (false, "_tp_*")] var fname = globMatches var fname := by
  unfold globMatchOf globMatches
  rw [patternOf_var_tp]
  have h : (var ++ "_tp_*").toList.reverse = '*' :: ((var ++ "_tp_").toList).reverse := by
    simp [String.toList_append]
  rw [h]
  simp

/-- `glob(f"{var}_tp_*")[0]` of BOTH modules is the model's `loadData` -/
theorem loadOf_eq_loadData {α} (L : LoadSpec) (hp : L.globParts = [(true, "var"), (false, "_tp_*")]) (h0 : L.globPick = 0)
    (dir : List (String × Tab α)) (var : String) : loadOf L dir var = loadData dir var := by
  unfold loadOf loadData
  rw [hp, h0]
  have : (fun e : String × Tab α => globMatchOf [(true, "var"), (false, "_tp_*")] var e.1) =
      fun e => globMatches var e.1 := by
    funext e; exact globMatchOf_var_tp var e.1
  rw [this]
  congr 1
  induction dir with
  | nil => rfl
  | cons e es ih =>
    by_cases he : globMatches var e.1 = true
    · simp [he]
    · simp only [Bool.not_eq_true] at he
      simp [he, ih]

/-! ### the nearest-index expression -/

section order
variable {α : Type} [LT α] [DecidableLT α] [Sub α] [Add α] [Neg α] [OfNat α 0]

/-- the tree read from `y_index = …` evaluates, on every table and request, to the model's `argminAbs` of the row
labels -/
theorem yIndex_eval (t : Tab α) (y : α) : extractMain.yIndex.eval t y = argminAbs t.rows y := by
  simp [extractMain, IExpr.eval, AExpr.eval, Val.map2, Val.map, argminAbs, Function.comp_def]

theorem selectRowOf_eq (t : Tab α) (T P : Option α) : selectRowOf extractMain t T P = selectRow t T P := by
  cases T with
  | some y =>
    simp [selectRowOf, selectOf, pickOf, envTP, selectRow, pick, extractMain, IExpr.eval, AExpr.eval, Val.map2,
      Val.map, argminAbs, Function.comp_def]
  | none =>
    cases P with
    | some y =>
      simp [selectRowOf, selectOf, pickOf, envTP, selectRow, pick, extractMain, IExpr.eval, AExpr.eval, Val.map2,
        Val.map, argminAbs, Function.comp_def]
    | none =>
      simp [selectRowOf, selectOf, envTP, selectRow, extractMain]

end order

theorem extractOf_eq {α} [LT α] [DecidableLT α] [Sub α] [Add α] [Neg α] [OfNat α 0] [BEq α]
    (dir : List (String × Tab α)) (vars : List String) (T P : Option α) :
    extractOf loadExtract extractMain dir vars T P = extract dir vars T P := by
  unfold extractOf extract
  simp only [loadOf_eq_loadData loadExtract rfl rfl, selectRowOf_eq]
  simp [extractMain]

/-! ### extract-geotherm -/

theorem fitOf_eq {α} (S : Spline α) (t : Tab α) : fitOf fitData S t = some (S t.rows t.cols t.vals) := by
  simp [fitOf, fitData, fitAxis]

theorem geothermStepOf_eq {α} (S : Spline α) (dir : List (String × Tab α)) (tCol pCol : String)
    (table : List (String × List α)) (var : String) :
    geothermStepOf loadGeotherm fitData geothermMain S dir (colEnv tCol pCol) table var =
      geothermStep S dir tCol pCol table var := by
  unfold geothermStepOf geothermStep
  rw [loadOf_eq_loadData loadGeotherm rfl rfl]
  cases loadData dir var with
  | none => simp [geothermMain]
  | some df =>
    simp only [geothermMain, fitOf_eq, colEnv, Option.bind_eq_bind, Option.bind_some, Option.pure_def]

theorem geothermOf_eq {α} (S : Spline α) (dir : List (String × Tab α)) (vars : List String)
    (geo : List (String × List α)) (tCol pCol : String) :
    geothermOf loadGeotherm fitData geothermMain geothermOptions S dir vars geo (some tCol) (some pCol) =
      geotherm S dir vars geo tCol pCol := by
  unfold geothermOf geotherm
  simp only [Option.orElse, Option.bind_eq_bind, Option.bind_some]
  congr 1
  funext table var
  exact geothermStepOf_eq S dir tCol pCol table var

/-- options left out: click supplies the declared defaults, which are the model's default arguments -/
theorem geothermOf_defaults_eq {α} (S : Spline α) (dir : List (String × Tab α)) (vars : List String)
    (geo : List (String × List α)) :
    geothermOf loadGeotherm fitData geothermMain geothermOptions S dir vars geo =
      geotherm S dir vars geo := by
  have ht : optDefault geothermOptions "t_col" = some "P" := by decide
  have hp : optDefault geothermOptions "p_col" = some "T" := by decide
  unfold geothermOf geotherm
  simp only [Option.orElse, ht, hp, Option.bind_eq_bind, Option.bind_some]
  congr 1
  funext table var
  exact geothermStepOf_eq S dir "P" "T" table var

end Cij.ExtractSrc
