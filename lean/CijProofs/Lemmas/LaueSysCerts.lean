/-
  Kernel checks of the certificates of the nine packaged systems against the relation rows translated from /repo
  on THIS run (`Generated.constraints_*`).  See LaueCertDefs.lean.  No Mathlib; everything is `decide +kernel`.
  An edited sign or factor in a constraints file makes the corresponding `cert_<system>` fail to check
  (tools/gen_certs.py then finds no certificate and writes an empty one).
-/
import CijProofs.Lemmas.LaueCertDefs
namespace Cij.Laue
open Cij.Certs

/-! #### the certificates of the nine packaged systems, against the relations as translated on this run -/

theorem cert_triclinic : certOK "triclinic" Generated.constraints_triclinic = true := by decide +kernel
theorem cert_monoclinic : certOK "monoclinic" Generated.constraints_monoclinic = true := by decide +kernel
theorem cert_orthorhombic : certOK "orthorhombic" Generated.constraints_orthorhombic = true := by decide +kernel
theorem cert_tetragonal7 : certOK "tetragonal7" Generated.constraints_tetragonal7 = true := by decide +kernel
theorem cert_tetragonal6 : certOK "tetragonal6" Generated.constraints_tetragonal6 = true := by decide +kernel
theorem cert_trigonal7 : certOK "trigonal7" Generated.constraints_trigonal7 = true := by decide +kernel
theorem cert_trigonal6 : certOK "trigonal6" Generated.constraints_trigonal6 = true := by decide +kernel
theorem cert_hexagonal : certOK "hexagonal" Generated.constraints_hexagonal = true := by decide +kernel
theorem cert_cubic : certOK "cubic" Generated.constraints_cubic = true := by decide +kernel


end Cij.Laue
