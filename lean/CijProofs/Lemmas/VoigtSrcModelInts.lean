/-
  The hand model `CijModel/Voigt.lean` against the translated source on the one-argument integer spellings, for ALL integers
  below `intBound`: the model spells `str(n)` with Lean's `toString`, the evaluator with `natCodes`; both are the decimal digits.
-/
import CijProofs.Lemmas.VoigtSrcDigits
import CijProofs.Lemmas.VoigtSrcInts

namespace Cij.VoigtSrc
open PyLite

/-! ### the model's digits -/

theorem digitChar_code {d : Nat} (h : d < 10) : Nat.digitChar d = Char.ofNat (48 + d) := by
  have : d = 0 ∨ d = 1 ∨ d = 2 ∨ d = 3 ∨ d = 4 ∨ d = 5 ∨ d = 6 ∨ d = 7 ∨ d = 8 ∨ d = 9 := by omega
  rcases this with rfl | rfl | rfl | rfl | rfl | rfl | rfl | rfl | rfl | rfl <;> rfl

theorem toDigits_eq_digs (n : Nat) : Nat.toDigits 10 n = (digs n).map Char.ofNat := by
  induction n using Nat.strongRecOn with
  | _ n ih =>
    rw [Nat.toDigits_eq_if (by decide)]
    by_cases h : n < 10
    · rw [if_pos h, digs_lt10 h, digitChar_code h]; rfl
    · rw [if_neg h, digs_ge10 (by omega), ih (n / 10) (by omega), digitChar_code (Nat.mod_lt n (by decide))]
      simp

def dInt (c : Nat) : Int := Int.ofNat (c - 48)

theorem digit_step {c : Nat} (h : isDigitCode c) :
    (if (Char.ofNat c).isDigit then some (Int.ofNat ((Char.ofNat c).toNat - '0'.toNat)) else none) = some (dInt c) := by
  obtain ⟨h1, h2⟩ := h
  have : c = 48 ∨ c = 49 ∨ c = 50 ∨ c = 51 ∨ c = 52 ∨ c = 53 ∨ c = 54 ∨ c = 55 ∨ c = 56 ∨ c = 57 := by omega
  rcases this with rfl | rfl | rfl | rfl | rfl | rfl | rfl | rfl | rfl | rfl <;> rfl

theorem mapM_digits (cs : List Nat) (h : ∀ c ∈ cs, isDigitCode c) :
    (cs.map Char.ofNat).mapM (fun c => if c.isDigit then some (Int.ofNat (c.toNat - '0'.toNat)) else none) = some (cs.map dInt) := by
  induction cs with
  | nil => rfl
  | cons c cs ih =>
    rw [List.map_cons, List.mapM_cons, digit_step (h c (by simp)), ih (fun c' hc' => h c' (by simp [hc']))]
    rfl

/-- the model's `str(n)` digits are the evaluator's -/
theorem intDigits_nat (n : Nat) : intDigits (Int.ofNat n) = some ((digs n).map dInt) := by
  unfold intDigits digitsOf
  rw [if_neg (by simp)]
  show ((toString n).toList).mapM _ = _
  rw [Nat.toString_eq_repr, Nat.toList_repr, toDigits_eq_digs]
  exact mapM_digits _ (digs_digits n)

theorem intDigits_neg (a : Nat) : intDigits (Int.negSucc a) = none := by
  unfold intDigits; rw [if_pos (Int.negSucc_lt_zero a)]

theorem dInt_code (a : Nat) : dInt (48 + a) = Int.ofNat a := by unfold dInt; rw [Nat.add_sub_cancel_left]

/-! ### agreement, all integers -/

theorem agree_exc {α} [BEq α] (dec : Val → Option α) {r : Result Val} {k : String} (h : excKind r = some k) :
    agreeWith dec r none = true := by
  cases r <;> simp_all [excKind, agreeWith]

theorem agree_strain (s : Strain) : agreeWith valToStrain (.ok (Strain.toVal s)) (some s) = true := by
  cases s with
  | mk i j =>
    show ((⟨i, j⟩ : Strain) == ⟨i, j⟩) = true
    show (i == i && j == j) = true
    simp

theorem model_fromStandard' (i j : Int) :
    Strain.fromStandard i j = if in3 i j then some ⟨min i j, max i j⟩ else none := model_fromStandard i j

theorem e_int (n : Int) : e_ [.int n] = srcCall "e_" [.int n] := rfl
theorem c_int (n : Int) : c_ [.int n] = srcCall "c_" [.int n] := rfl

theorem model_fromVoigt_neg (a : Nat) : Strain.fromVoigt (Int.negSucc a) = none := by
  cases h : Strain.fromVoigt (Int.negSucc a) with
  | none => rfl
  | some s => have := strain_fromVoigt_range _ s h; have := Int.negSucc_lt_zero a; omega

theorem e_small : (dig10.all fun k => agreeE [.int (Int.ofNat k)]) = true := by decide +kernel

/-- **`e_(n)`: translated source = hand model for every integer below `intBound`** (negative: both reject; one digit: the Voigt
index; two digits: the standard pair; three or more digits: TypeError / rejected) -/
theorem agreeE_int (n : Int) (hb : n < Int.ofNat intBound) : agreeE [.int n] = true := by
  unfold agreeE
  rw [e_int]
  cases n with
  | negSucc a =>
    have hm : Strain.create [.int (Int.negSucc a)] = none := by
      show (if Int.negSucc a < 10 then Strain.fromVoigt (Int.negSucc a) else _) = none
      rw [if_pos (by have := Int.negSucc_lt_zero a; omega), model_fromVoigt_neg]
    rw [hm]; exact agree_exc _ (e1_neg a)
  | ofNat k =>
    have hk : k < intBound := by exact Int.ofNat_lt.mp hb
    by_cases h10 : k < 10
    · exact List.all_eq_true.mp e_small k (mem_dig10 h10)
    · have hm : Strain.create [.int (Int.ofNat k)] =
          (match intDigits (Int.ofNat k) with | some [x, y] => Strain.fromStandard x y | _ => none) := by
        show (if Int.ofNat k < 10 then _ else _) = _
        rw [if_neg (by have : (Int.ofNat k) = (k : Int) := rfl; omega)]
        rfl
      rw [hm, intDigits_nat]
      by_cases h100 : k < 100
      · rw [digs_two (by omega) h100]
        simp only [List.map_cons, List.map_nil, dInt_code]
        rw [model_fromStandard']
        obtain ⟨r, a⟩ := src_e1_two k (by omega) h100
        by_cases hin : in3 (Int.ofNat (k / 10)) (Int.ofNat (k % 10))
        · rw [if_pos hin, a hin]; exact agree_strain _
        · rw [if_neg hin]; exact agree_exc _ (r hin)
      · obtain ⟨a, b, c, r, e⟩ := digs_ge3 (by omega : 100 ≤ k)
        rw [e]
        exact agree_exc _ (src_e1_many k (by omega) hk)

/-- **`c_(n)`: translated source = hand model for every integer below `intBound`** -/
theorem agreeC_int (n : Int) (hb : n < Int.ofNat intBound) : agreeC [.int n] = true := by
  unfold agreeC
  rw [c_int]
  have hm : Modulus.create [.int n] = (match intDigits n with
      | some [i, j, k, l] => Modulus.fromStandard i j k l
      | some [i, j] => Modulus.fromVoigt i j
      | _ => none) := rfl
  rw [hm]
  cases n with
  | negSucc a => rw [intDigits_neg]; exact agree_exc _ (c1_neg a)
  | ofNat k =>
    have hk : k < intBound := by exact Int.ofNat_lt.mp hb
    rw [intDigits_nat]
    by_cases h10 : k < 10
    · rw [digs_lt10 h10]; exact agree_exc _ (src_c1_one k h10)
    · by_cases h100 : k < 100
      · rw [digs_two (by omega) h100]
        simp only [List.map_cons, List.map_nil, dInt_code]
        exact src_c1_two k (by omega) h100
      · by_cases h1000 : k < 1000
        · rw [digs_three (by omega) h1000]; exact agree_exc _ (src_c1_three k (by omega) h1000)
        · by_cases h10000 : k < 10000
          · rw [digs_four (by omega) h10000]
            simp only [List.map_cons, List.map_nil, dInt_code]
            obtain ⟨r, a⟩ := src_c1_four k (by omega) h10000
            by_cases hin : in3 (Int.ofNat (k / 1000)) (Int.ofNat (k / 100 % 10)) ∧ in3 (Int.ofNat (k / 10 % 10)) (Int.ofNat (k % 10))
            · exact a hin
            · rw [model_fromStandard4, if_neg hin]; exact agree_exc _ (r hin)
          · obtain ⟨a0, a1, a2, a3, a4, r, e⟩ := digs_ge5 (by omega : 10000 ≤ k)
            rw [e]
            exact agree_exc _ (src_c1_many k (by omega) hk)

/-! ### positional integer spellings, all integers -/

/-- **`e_(i, j)`: translated source = hand model for ALL integers** -/
theorem agreeE_pair (i j : Int) : agreeE [.int i, .int j] = true := by
  show agreeWith valToStrain (srcCall "e_" [.int i, .int j]) (Strain.fromStandard i j) = true
  rw [model_fromStandard']
  obtain ⟨r, a⟩ := src_e2_all i j
  by_cases hin : in3 i j
  · rw [if_pos hin, a hin]; exact agree_strain _
  · rw [if_neg hin]; exact agree_exc _ (r hin)

/-- **`c_(i, j, k, l)`: translated source = hand model for ALL integers** -/
theorem agreeC_quad (i j k l : Int) : agreeC [.int i, .int j, .int k, .int l] = true := by
  show agreeWith valToModulus (srcCall "c_" [.int i, .int j, .int k, .int l]) (Modulus.fromStandard i j k l) = true
  by_cases hin : in3 i j ∧ in3 k l
  · exact src_c4_accepts i j k l hin
  · rw [model_fromStandard4, if_neg hin]; exact agree_exc _ (src_c4_rejects i j k l hin)

theorem c_pairs_agree : ∀ p ∈ allPairs, agreeC [.int p.1, .int p.2] = true := by decide +kernel

/-- **`c_(i, j)`: translated source = hand model for ALL integers** -/
theorem agreeC_pair (i j : Int) : agreeC [.int i, .int j] = true := by
  by_cases h : (1 ≤ i ∧ i ≤ 6) ∧ (1 ≤ j ∧ j ≤ 6)
  · exact c_pairs_agree (i, j) ((mem_allPairs i j).2 h)
  · show agreeWith valToModulus (srcCall "c_" [.int i, .int j]) (Modulus.fromVoigt i j) = true
    have hm : Modulus.fromVoigt i j = none := by
      cases hm : Modulus.fromVoigt i j with
      | none => rfl
      | some m =>
        exfalso
        obtain ⟨a, b, ha, hb⟩ := modulus_fromVoigt_some i j m hm
        have h1 := strain_fromVoigt_range i a ha
        have h2 := strain_fromVoigt_range j b hb
        omega
    rw [hm]; exact agree_exc _ (src_c2_rejects i j h)

end Cij.VoigtSrc
