/-
  Helper lemmas for C13 — results do not depend on how the same physical data are presented.
  (No property statements here; they are in `Properties/C13.lean`.)

  * NonShear: `averageOverModes` as a quotient of two list sums; its invariance under a permutation of the q-points
    after the first, under permutations of the modes inside a q-point (Γ: of the non-acoustic modes), and under a common
    factor on the weights; the arrays of one (T, V) point written as maps over a list of q-point records / of a
    spectrum of mode records, so that "the same permutation applied to freq and to the three mode-γ arrays" is ONE
    `List.Perm` of records.
  * Interp / LeastSq: normal matrix, right-hand side and the normal-equation certificate are sums over the rows
    `(x_r, y_r)`, hence invariant under `List.Perm` of the zipped rows; both executable solvers are functions of these.
  * Uniqueness of the least-squares polynomial under an affine change of abscissa (`affine_unique`).
  * ElastDat: picking columns by an index list that is a permutation of `range n`.
-/
import CijProofs.Lemmas.NonShearCalculus
import CijProofs.Lemmas.Interp
import CijProofs.Lemmas.LeastSq
import CijProofs.Lemmas.FullModulus
import CijProofs.Lemmas.ElastDat
import Mathlib.Algebra.BigOperators.Group.List.Basic
import Mathlib.Algebra.Polynomial.Eval.Degree
import Mathlib.Analysis.SpecialFunctions.Pow.Real

/-! ## NonShear: the weighted mode average -/
namespace Cij.NonShear

theorem sumL_eq_list_sum (l : List ℝ) : sumL l = l.sum := by
  induction l with
  | nil => simp
  | cons a l ih => simp [ih]

theorem sumL_perm {l l' : List ℝ} (h : l.Perm l') : sumL l = sumL l' := by
  rw [sumL_eq_list_sum, sumL_eq_list_sum, h.sum_eq]

theorem mean_perm {r r' : List ℝ} (h : r.Perm r') : mean r = mean r' := by
  unfold mean
  rw [sumL_perm h, h.length_eq]

/-- the mean of the Γ row after `clear_gamma_point`: only the entries from the fourth on, and the row length, matter -/
theorem mean_zeroFirst (r : List ℝ) : mean (zeroFirst 3 r) = sumL (r.drop 3) / (r.length : ℝ) := by
  simp [mean, zeroFirst_length, sumL_zeroFirst]

theorem zipWith_mul_eq (xs ws : List ℝ) :
    sumL (List.zipWith (fun x wq => x * wq) xs ws) = ((xs.zip ws).map fun p => p.1 * p.2).sum := by
  rw [sumL_eq_list_sum, Cij.LeastSq.zipWith_eq_map_zip]

/-- `average_over_modes` on a `[q][m]` slice with at least one q-point, as a quotient of two sums: the Γ row enters through
`zeroFirst 3`, every other q-point through the pair (row, weight) -/
theorem average_cons (r0 : List ℝ) (rs : List (List ℝ)) (w0 : ℝ) (ws : List ℝ) :
    averageOverModes (r0 :: rs) (w0 :: ws)
      = (mean (zeroFirst 3 r0) * w0 + ((rs.zip ws).map fun p => mean p.1 * p.2).sum) / (w0 + ws.sum) := by
  unfold averageOverModes clearGamma
  simp only [List.map_cons, List.zipWith_cons_cons, sumL_cons]
  rw [zipWith_mul_eq, sumL_eq_list_sum, List.zip_map_left, List.map_map]
  rfl

/-- raw form of `avg_perm_q` -/
theorem average_perm_q (r0 : List ℝ) (w0 : ℝ) (rs rs' : List (List ℝ)) (ws ws' : List ℝ)
    (hl : rs.length = ws.length) (hl' : rs'.length = ws'.length) (h : (rs.zip ws).Perm (rs'.zip ws')) :
    averageOverModes (r0 :: rs) (w0 :: ws) = averageOverModes (r0 :: rs') (w0 :: ws') := by
  rw [average_cons, average_cons, (h.map _).sum_eq]
  have e : ws = (rs.zip ws).map Prod.snd := (List.map_snd_zip (by omega)).symm
  have e' : ws' = (rs'.zip ws').map Prod.snd := (List.map_snd_zip (by omega)).symm
  rw [e, e', (h.map Prod.snd).sum_eq]

/-- arrays that are projections of ONE list of q-point records: elementwise operations commute with the projection -/
theorem zw2_mapq {κ : Type} (l : List κ) (f : ℝ → ℝ → ℝ) (a b : κ → List ℝ) :
    zw2 f (l.map a) (l.map b) = l.map fun q => List.zipWith f (a q) (b q) := by
  unfold zw2
  induction l with
  | nil => rfl
  | cons q l ih => simp only [List.map_cons, List.zipWith_cons_cons, ih]

theorem map2_mapq {κ : Type} (l : List κ) (f : ℝ → ℝ) (a : κ → List ℝ) :
    map2 f (l.map a) = l.map fun q => (a q).map f := by
  simp [map2, List.map_map, Function.comp_def]

/-- `avg_perm_q` for arrays given as projections of a list of records: Γ record first, the others in any order -/
theorem average_perm_q_map {κ : Type} (A : κ → List ℝ) (wt : κ → ℝ) (g : κ) (qs qs' : List κ) (h : qs.Perm qs') :
    averageOverModes ((g :: qs).map A) ((g :: qs).map wt) = averageOverModes ((g :: qs').map A) ((g :: qs').map wt) := by
  simp only [List.map_cons]
  apply average_perm_q
  · simp
  · simp
  · rw [List.zip_map', List.zip_map']
    exact h.map _

/-- raw form of `avg_perm_modes`: every non-Γ row may be listed in another order; of the Γ row only the entries after the
three acoustic slots matter, as a multiset -/
theorem average_perm_modes (r0 r0' : List ℝ) (rs rs' : List (List ℝ)) (w : List ℝ)
    (hΓ : (r0.drop 3).Perm (r0'.drop 3)) (hlen : r0.length = r0'.length) (hrs : List.Forall₂ List.Perm rs rs') :
    averageOverModes (r0 :: rs) w = averageOverModes (r0' :: rs') w := by
  unfold averageOverModes clearGamma
  have h0 : mean (zeroFirst 3 r0) = mean (zeroFirst 3 r0') := by
    rw [mean_zeroFirst, mean_zeroFirst, sumL_perm hΓ, hlen]
  have hm : rs.map mean = rs'.map mean := by
    induction hrs with
    | nil => rfl
    | cons hab _ ih => simp only [List.map_cons, mean_perm hab, ih]
  simp only [List.map_cons, h0, hm]

/-- the same for arrays that are images `[φ m]` of a spectrum of mode records -/
theorem average_perm_modes_map {μ : Type} (φ : μ → ℝ) (g g' : List μ) (S S' : List (List μ)) (w : List ℝ)
    (hΓ : (g.drop 3).Perm (g'.drop 3)) (hlen : g.length = g'.length) (hS : List.Forall₂ List.Perm S S') :
    averageOverModes ((g :: S).map (List.map φ)) w = averageOverModes ((g' :: S').map (List.map φ)) w := by
  simp only [List.map_cons]
  apply average_perm_modes
  · rw [← List.map_drop, ← List.map_drop]; exact hΓ.map φ
  · simp [hlen]
  · induction hS with
    | nil => exact List.Forall₂.nil
    | cons hab _ ih => exact List.Forall₂.cons (hab.map φ) ih

theorem zipWith_scale (c : ℝ) (xs ws : List ℝ) :
    sumL (List.zipWith (fun x wq => x * wq) xs (ws.map fun x => c * x))
      = c * sumL (List.zipWith (fun x wq => x * wq) xs ws) := by
  induction xs generalizing ws with
  | nil => simp
  | cons x xs ih => cases ws with
    | nil => simp
    | cons a ws => simp only [List.map_cons, List.zipWith_cons_cons, sumL_cons, ih]; ring

/-- raw form of `avg_weight_scale` -/
theorem average_weight_scale (X : List (List ℝ)) (w : List ℝ) (c : ℝ) (hc : c ≠ 0) (hw : sumL w ≠ 0) :
    averageOverModes X (w.map fun x => c * x) = averageOverModes X w := by
  unfold averageOverModes
  have hs : sumL (w.map fun x => c * x) = c * sumL w := by
    have := sumL_map_mul_left w c id
    simpa using this
  rw [zipWith_scale, hs]
  field_simp

end Cij.NonShear

/-! ## least squares: everything the solvers read is a sum over the rows -/
namespace Cij.Interp

/-- position `(j, k)` is a Γ-point acoustic entry (the loop of `interpolate_modes` skips it: `j == 0 and k < 3`) -/
def isΓac (jk : ℕ × ℕ) : Bool := jk.1 == 0 && decide (jk.2 < 3)

section RowPerm
variable {K : Type} [Field K]

theorem fst_perm_of_zip_perm {β γ : Type} {xs xs' : List β} {ys ys' : List γ} (hl : xs.length = ys.length)
    (hl' : xs'.length = ys'.length) (h : (xs.zip ys).Perm (xs'.zip ys')) : xs.Perm xs' := by
  have e : xs = (xs.zip ys).map Prod.fst := (List.map_fst_zip (by omega)).symm
  have e' : xs' = (xs'.zip ys').map Prod.fst := (List.map_fst_zip (by omega)).symm
  rw [e, e']
  exact h.map _

theorem powerSum_perm {xs xs' : List K} (h : xs.Perm xs') (k : ℕ) : powerSum xs k = powerSum xs' k := by
  unfold powerSum
  rw [sumL_eq_sum, sumL_eq_sum, (h.map _).sum_eq]

theorem moment_perm {xs xs' ys ys' : List K} (h : (xs.zip ys).Perm (xs'.zip ys')) (k : ℕ) :
    moment xs ys k = moment xs' ys' k := by
  unfold moment
  rw [sumL_eq_sum, sumL_eq_sum, zipWith_eq_map_zip', zipWith_eq_map_zip', (h.map _).sum_eq]

theorem normalMatrix_perm {xs xs' : List K} (h : xs.Perm xs') (n : ℕ) : normalMatrix xs n = normalMatrix xs' n := by
  unfold normalMatrix
  simp only [powerSum_perm h]

theorem normalRhs_perm {xs xs' ys ys' : List K} (h : (xs.zip ys).Perm (xs'.zip ys')) (n : ℕ) :
    normalRhs xs ys n = normalRhs xs' ys' n := by
  unfold normalRhs
  simp only [moment_perm h]

theorem moment_residuals_perm {xs xs' ys ys' : List K} (h : (xs.zip ys).Perm (xs'.zip ys')) (a : List K) (k : ℕ) :
    moment xs (residuals xs ys a) k = moment xs' (residuals xs' ys' a) k := by
  rw [moment_residuals, moment_residuals, (h.map _).sum_eq]

variable [DecidableEq K]

theorem normalEq_perm {xs xs' ys ys' : List K} (h : (xs.zip ys).Perm (xs'.zip ys')) (order : ℕ) (a : List K) :
    normalEq xs ys order a = normalEq xs' ys' order a := by
  unfold normalEq
  simp only [moment_residuals_perm h]

/-- `mode_gamma.lstsq_polyfit` does not see the order of the rows -/
theorem lstsqPolyfit_perm {xs xs' ys ys' : List K} (hl : xs.length = ys.length) (hl' : xs'.length = ys'.length)
    (h : (xs.zip ys).Perm (xs'.zip ys')) (order : ℕ) : lstsqPolyfit xs ys order = lstsqPolyfit xs' ys' order := by
  unfold lstsqPolyfit
  simp only [normalMatrix_perm (fst_perm_of_zip_perm hl hl' h), normalRhs_perm h, normalEq_perm h]

end RowPerm
end Cij.Interp

namespace Cij.LeastSq
section RowPerm
variable {α : Type} [Field α]

theorem normalAug_perm {xs xs' ys ys' : List α} (hl : xs.length = ys.length) (hl' : xs'.length = ys'.length)
    (h : (xs.zip ys).Perm (xs'.zip ys')) (deg : ℕ) : normalAug xs ys deg = normalAug xs' ys' deg := by
  have hx := Cij.Interp.fst_perm_of_zip_perm hl hl' h
  unfold normalAug
  refine List.map_congr_left fun j _ => ?_
  congr 1
  · refine List.map_congr_left fun k _ => ?_
    rw [sumL_eq_sum, sumL_eq_sum, (hx.map _).sum_eq]
  · rw [sumL_eq_sum, sumL_eq_sum, zipWith_eq_map_zip, zipWith_eq_map_zip, (h.map _).sum_eq]

theorem normalResidual_perm {xs xs' ys ys' : List α} (h : (xs.zip ys).Perm (xs'.zip ys')) (p : List α) (j : ℕ) :
    normalResidual xs ys p j = normalResidual xs' ys' p j := by
  unfold normalResidual
  rw [sumL_eq_sum, sumL_eq_sum, zipWith_eq_map_zip, zipWith_eq_map_zip, (h.map _).sum_eq]

variable [BEq α]

theorem normalEqHolds_perm {xs xs' ys ys' : List α} (h : (xs.zip ys).Perm (xs'.zip ys')) (deg : ℕ) (p : List α) :
    normalEqHolds xs ys deg p = normalEqHolds xs' ys' deg p := by
  unfold normalEqHolds
  simp only [normalResidual_perm h]

/-- `numpy.polyfit` (the model of it) does not see the order of the rows -/
theorem polyfit_perm {xs xs' ys ys' : List α} (hl : xs.length = ys.length) (hl' : xs'.length = ys'.length)
    (h : (xs.zip ys).Perm (xs'.zip ys')) (deg : ℕ) : polyfit xs ys deg = polyfit xs' ys' deg := by
  unfold polyfit
  simp only [hl, hl', bne_self_eq_false, normalAug_perm hl hl' h, normalEqHolds_perm h]

end RowPerm
end Cij.LeastSq

/-! ## uniqueness of the least-squares polynomial and an affine change of abscissa -/
namespace Cij.Interp
section Affine
open Polynomial
variable {K : Type} [Field K]

/-- the normal equations of the fit of degree ≤ `d` to the rows `(x_r, y_r)`, in list-sum form: `Vᵀ(V p − y) = 0` column by
column.  This is what both executable solvers verify before they answer (`normalEq`, `LeastSq.normalEqHolds`). -/
def NormalEqs (xs ys : List K) (d : ℕ) (p : List K) : Prop :=
  p.length ≤ d + 1 ∧ ∀ j < d + 1, ((xs.zip ys).map fun q => q.1 ^ j * (polyval p q.1 - q.2)).sum = 0

theorem natDegree_comp_affine_lt (P : K[X]) (a b : K) (n : ℕ) (h : P.natDegree < n) :
    (P.comp (C a * X + C b)).natDegree < n := by
  refine lt_of_le_of_lt (natDegree_comp_le) ?_
  have : (C a * X + C b : K[X]).natDegree ≤ 1 := natDegree_linear_le
  calc P.natDegree * (C a * X + C b : K[X]).natDegree ≤ P.natDegree * 1 := Nat.mul_le_mul_left _ this
    _ = P.natDegree := Nat.mul_one _
    _ < n := h

variable [LinearOrder K] [IsStrictOrderedRing K]

/-- **Uniqueness under an affine change of abscissa.**  `p` solves the normal equations on `(x_r, y_r)`, `p'` those on
`(a·x_r + b, y_r)` with `a ≠ 0`, there are at least `d + 1` distinct abscissae: then `p'(a·x + b) = p(x)` for EVERY `x`
(the affine image of a polynomial of degree ≤ d is one, and the least-squares polynomial is unique). -/
theorem affine_unique (xs ys : List K) (hlen : xs.length = ys.length) (a b : K) (ha : a ≠ 0) (d : ℕ) (p p' : List K)
    (hp : NormalEqs xs ys d p) (hp' : NormalEqs (xs.map fun x => a * x + b) ys d p')
    (hdist : d + 1 ≤ xs.toFinset.card) : ∀ x, polyval p' (a * x + b) = polyval p x := by
  obtain ⟨hl, hm⟩ := hp
  obtain ⟨hl', hm'⟩ := hp'
  have hdP : (toPoly p).natDegree < d + 1 := natDegree_toPoly_lt p _ hl (Nat.succ_pos _)
  have hdP' : (toPoly p').natDegree < d + 1 := natDegree_toPoly_lt p' _ hl' (Nat.succ_pos _)
  set Q : K[X] := (toPoly p').comp (C a * X + C b) with hQ
  have hdQ : Q.natDegree < d + 1 := natDegree_comp_affine_lt _ a b _ hdP'
  set D : K[X] := Q - toPoly p with hD
  have hdD : D.natDegree < d + 1 := lt_of_le_of_lt (natDegree_sub_le _ _) (max_lt hdQ hdP)
  have hQe : ∀ x, Q.eval x = polyval p' (a * x + b) := fun x => by simp [hQ, polyval_eq_eval]
  -- D is orthogonal to the residual of p on the original rows
  have h1 := moments_kill (xs.zip ys) (fun q => q.1) (fun q => polyval p q.1 - q.2) (d + 1) hm D hdD
  -- D ∘ (affine)⁻¹ is orthogonal to the residual of p' on the transformed rows
  set R : K[X] := D.comp (C a⁻¹ * X + C (-(a⁻¹ * b))) with hR
  have hdR : R.natDegree < d + 1 := natDegree_comp_affine_lt _ _ _ _ hdD
  have hRe : ∀ x, R.eval (a * x + b) = D.eval x := fun x => by
    simp only [hR, eval_comp, eval_add, eval_mul, eval_C, eval_X]
    congr 1
    field_simp
    ring
  have hm2 : ∀ j < d + 1,
      ((xs.zip ys).map fun q => (a * q.1 + b) ^ j * (polyval p' (a * q.1 + b) - q.2)).sum = 0 := fun j hj => by
    have := hm' j hj
    rw [List.zip_map_left, List.map_map] at this
    exact this
  have h2 := moments_kill (xs.zip ys) (fun q => a * q.1 + b) (fun q => polyval p' (a * q.1 + b) - q.2) (d + 1) hm2 R hdR
  simp only [hRe] at h2
  -- hence Σ D(x_r)² = 0
  have hsq : ((xs.zip ys).map fun q => D.eval q.1 * D.eval q.1).sum = 0 := by
    have e : (fun q : K × K => D.eval q.1 * D.eval q.1)
        = fun q => D.eval q.1 * (polyval p' (a * q.1 + b) - q.2) + (-1) * (D.eval q.1 * (polyval p q.1 - q.2)) := by
      funext q
      simp only [hD, eval_sub, hQe, ← polyval_eq_eval]
      ring
    rw [e, List.sum_map_add, List.sum_map_mul_left, h1, h2]
    simp
  have hz : ∀ v ∈ (xs.zip ys).map (fun q => D.eval q.1 * D.eval q.1), v = 0 :=
    list_sum_eq_zero_of_nonneg _ (fun v hv => by
      obtain ⟨q, _, rfl⟩ := List.mem_map.mp hv
      exact mul_self_nonneg _) hsq
  have hfst : (xs.zip ys).map Prod.fst = xs := List.map_fst_zip (by omega)
  have hroot : ∀ x ∈ xs.toFinset, D.eval x = 0 := fun x hx => by
    have hx' : x ∈ (xs.zip ys).map Prod.fst := by rw [hfst]; exact List.mem_toFinset.mp hx
    obtain ⟨q, hq, rfl⟩ := List.mem_map.mp hx'
    exact mul_self_eq_zero.mp (hz _ (List.mem_map_of_mem (f := fun q : K × K => D.eval q.1 * D.eval q.1) hq))
  have hD0 : D = 0 := eq_zero_of_natDegree_lt_card_of_eval_eq_zero' D xs.toFinset hroot (lt_of_lt_of_le hdD hdist)
  intro x
  have : Q.eval x = (toPoly p).eval x := by rw [sub_eq_zero.mp hD0]
  rw [← hQe, this, polyval_eq_eval]

/-- special case `a = 1, b = 0`: two solutions of the same normal equations are the same function -/
theorem normalEqs_unique (xs ys : List K) (hlen : xs.length = ys.length) (d : ℕ) (p p' : List K)
    (hp : NormalEqs xs ys d p) (hp' : NormalEqs xs ys d p') (hdist : d + 1 ≤ xs.toFinset.card) :
    ∀ x, polyval p' x = polyval p x := by
  have hp'' : NormalEqs (xs.map fun x => (1 : K) * x + 0) ys d p' := by simpa using hp'
  intro x
  have := affine_unique xs ys hlen 1 0 one_ne_zero d p p' hp hp'' hdist x
  simpa using this

end Affine

section Tie
variable {K : Type} [Field K] [DecidableEq K]

theorem normalEqs_of_normalEq (xs ys : List K) (order : ℕ) (a : List K) (h : normalEq xs ys order a = true) :
    NormalEqs xs ys order a := by
  obtain ⟨hl, hm⟩ := (normalEq_iff xs ys order a).mp h
  exact ⟨hl.le, hm⟩

end Tie
end Cij.Interp

namespace Cij.LeastSq
section Tie
variable {α : Type} [Field α] [LinearOrder α] [IsStrictOrderedRing α]

omit [LinearOrder α] [IsStrictOrderedRing α] in
/-- the two models spell Horner's rule identically -/
theorem polyval_eq_interp (p : List α) (x : α) : polyval p x = Cij.Interp.polyval p x := rfl

omit [IsStrictOrderedRing α] in
/-- what `polyfit` returns solves the normal equations in the list-sum form of `Interp.NormalEqs` -/
theorem normalEqs_of_polyfit (xs ys : List α) (deg : ℕ) (p : List α) (h : polyfit xs ys deg = some p) :
    xs.length = ys.length ∧ Cij.Interp.NormalEqs xs ys deg p := by
  obtain ⟨hlen, hl, hn⟩ := polyfit_spec xs ys deg p h
  refine ⟨hlen, hl.le, fun j hj => ?_⟩
  have := hn j hj
  unfold normalResidual at this
  rw [sumL_eq_sum, zipWith_eq_map_zip] at this
  simp only [powN_eq] at this
  exact this

end Tie
end Cij.LeastSq

/-! ## static table: columns listed in another order -/
namespace Cij.ElastDat
open Cij Cij.Lex
section Pick
variable {β γ : Type}

/-- the entries of `l` listed in the order `idx` (`[l[i] for i in idx]`; an index out of range is skipped) -/
def pick (idx : List Nat) (l : List β) : List β := idx.filterMap (l[·]?)

theorem filterMap_range_getElem? (l : List β) : (List.range l.length).filterMap (l[·]?) = l := by
  induction l using List.reverseRecOn with
  | nil => rfl
  | append_singleton l a ih =>
    rw [List.length_append, List.length_singleton, List.range_succ, List.filterMap_append]
    have h1 : (List.range l.length).filterMap ((l ++ [a])[·]?) = (List.range l.length).filterMap (l[·]?) := by
      apply List.filterMap_congr
      intro i hi
      rw [List.getElem?_append_left (List.mem_range.mp hi)]
    rw [h1, ih]
    simp

/-- a permutation of `range n` lists every column exactly once -/
theorem pick_perm (idx : List Nat) (l : List β) (h : idx.Perm (List.range l.length)) : (pick idx l).Perm l := by
  have := h.filterMap (l[·]?)
  rwa [filterMap_range_getElem?] at this

theorem pick_map (f : β → γ) (idx : List Nat) (l : List β) : pick idx (l.map f) = (pick idx l).map f := by
  unfold pick
  rw [List.map_filterMap]
  apply List.filterMap_congr
  intro i _
  simp

theorem pick_zip (idx : List Nat) (l : List β) (m : List γ) (hlen : l.length = m.length) :
    pick idx (l.zip m) = (pick idx l).zip (pick idx m) := by
  unfold pick
  induction idx with
  | nil => rfl
  | cons i idx ih =>
    simp only [List.filterMap_cons]
    by_cases hi : i < l.length
    · have hi' : i < m.length := hlen ▸ hi
      have hz : i < (l.zip m).length := by simp [List.length_zip, hi, hi']
      rw [List.getElem?_eq_getElem hi, List.getElem?_eq_getElem hi', List.getElem?_eq_getElem hz]
      simp [ih]
    · have hi' : ¬ i < m.length := hlen ▸ hi
      have hz : ¬ i < (l.zip m).length := by simp [List.length_zip]; omega
      rw [List.getElem?_eq_none (by omega), List.getElem?_eq_none (by omega), List.getElem?_eq_none (by omega)]
      exact ih

theorem pick_length (idx : List Nat) (l : List β) (h : ∀ i ∈ idx, i < l.length) : (pick idx l).length = idx.length := by
  unfold pick
  induction idx with
  | nil => rfl
  | cons i idx ih =>
    have hi : i < l.length := h i (by simp)
    simp only [List.filterMap_cons, List.getElem?_eq_getElem hi, List.length_cons]
    rw [ih fun j hj => h j (by simp [hj])]

theorem mem_pick (idx : List Nat) (l : List β) (x : β) (h : x ∈ pick idx l) : x ∈ l := by
  unfold pick at h
  obtain ⟨i, _, hi⟩ := List.mem_filterMap.mp h
  exact List.mem_of_getElem? hi

theorem mapM_getElem? (f : β → Option γ) (l : List β) (r : List γ) (h : l.mapM f = some r) (i : Nat) :
    l[i]?.map f = r[i]?.map some := by
  induction l generalizing r i with
  | nil =>
    simp only [List.mapM_nil, Option.pure_def, Option.some.injEq] at h
    subst h; simp
  | cons a l ih =>
    rw [List.mapM_cons] at h
    cases hfa : f a with
    | none => simp [hfa] at h
    | some b =>
      cases hl : l.mapM f with
      | none => simp [hfa, hl] at h
      | some r' =>
        simp only [hfa, hl, Option.pure_def, Option.bind_eq_bind, Option.bind_some, Option.some.injEq] at h
        subst h
        cases i with
        | zero => simp [hfa]
        | succ i => simpa using ih r' hl i

/-- `mapM` of picked entries = picked entries of `mapM` -/
theorem pick_mapM (f : β → Option γ) (idx : List Nat) (l : List β) (r : List γ) (h : l.mapM f = some r) :
    (pick idx l).mapM f = some (pick idx r) := by
  unfold pick
  induction idx with
  | nil => rfl
  | cons i idx ih =>
    simp only [List.filterMap_cons]
    have := mapM_getElem? f l r h i
    cases hli : l[i]? with
    | none =>
      rw [hli] at this
      cases hri : r[i]? with
      | none => simpa using ih
      | some y => rw [hri] at this; simp at this
    | some x =>
      rw [hli] at this
      cases hri : r[i]? with
      | none => rw [hri] at this; simp at this
      | some y =>
        rw [hri] at this
        simp only [Option.map_some, Option.some.injEq] at this
        simp [List.mapM_cons, this, ih]

/-- `mapM f` only sees the images under `f` -/
theorem mapM_congr_map (f : β → Option γ) (l l' : List β) (h : l.map f = l'.map f) : l.mapM f = l'.mapM f := by
  induction l generalizing l' with
  | nil =>
    cases l' with
    | nil => rfl
    | cons _ _ => simp at h
  | cons a l ih =>
    cases l' with
    | nil => simp at h
    | cons a' l' =>
      simp only [List.map_cons, List.cons.injEq] at h
      rw [List.mapM_cons, List.mapM_cons, h.1, ih l' h.2]

end Pick

section Lookup
variable {κ ν : Type} [DecidableEq κ]

theorem lookup_of_mem_nodup (l : List (κ × ν)) (hnd : (l.map Prod.fst).Nodup) (k : κ) (v : ν) (h : (k, v) ∈ l) :
    l.lookup k = some v := by
  induction l with
  | nil => cases h
  | cons e l ih =>
    obtain ⟨k', v'⟩ := e
    simp only [List.map_cons, List.nodup_cons] at hnd
    rcases List.mem_cons.mp h with heq | hmem
    · cases heq; simp [List.lookup]
    · have hne : k ≠ k' := fun hk => hnd.1 (hk ▸ List.mem_map.mpr ⟨(k, v), hmem, rfl⟩)
      rw [List.lookup_cons]
      have : (k == k') = false := by simpa using hne
      rw [this]
      exact ih hnd.2 hmem

/-- two listings of the same key ↦ value pairs (distinct keys) are the same map -/
theorem lookup_perm (l l' : List (κ × ν)) (h : l'.Perm l) (hnd : (l.map Prod.fst).Nodup) (k : κ) :
    l'.lookup k = l.lookup k := by
  have hnd' : (l'.map Prod.fst).Nodup := (h.map Prod.fst).nodup_iff.mpr hnd
  cases hl : l.lookup k with
  | some v =>
    have hm : (k, v) ∈ l := by
      obtain ⟨l₁, l₂, rfl, -⟩ := List.lookup_eq_some_iff.mp hl
      simp
    exact lookup_of_mem_nodup l' hnd' k v (h.mem_iff.mpr hm)
  | none =>
    cases hl' : l'.lookup k with
    | none => rfl
    | some v =>
      have hm : (k, v) ∈ l' := by
        obtain ⟨l₁, l₂, rfl, -⟩ := List.lookup_eq_some_iff.mp hl'
        simp
      rw [lookup_of_mem_nodup l hnd k v (h.mem_iff.mp hm)] at hl
      cases hl

end Lookup

section Recolumn
variable {Num : Type}

/-- the table `t` with its component columns listed in the order `idx` under the names `names'` -/
def TableFile.recolumn (t : TableFile Num) (idx : List Nat) (names' : List Token) : TableFile Num :=
  { t with names := names', rows := t.rows.map fun r => (r.1, pick idx r.2) }

/-- two parses denote the same data: same header numbers, same lattice block, and volume by volume the same volume and
the same map key ↦ value (as a list: a permutation; as a dictionary: equal look-ups) -/
def SameData (d d' : ElastData Num) : Prop :=
  d'.vref = d.vref ∧ d'.nv = d.nv ∧ d'.cellmass = d.cellmass ∧ d'.lattice = d.lattice ∧
    List.Forall₂ (fun v v' : ElastVolume Num => v'.volume = v.volume ∧ v'.moduli.Perm v.moduli ∧
      ∀ k, v'.moduli.lookup k = v.moduli.lookup k) d.volumes d'.volumes

/-- both reads fail, or both succeed with the same data -/
def SameRead (o o' : Option (ElastData Num)) : Prop :=
  match o, o' with
  | some d, some d' => SameData d d'
  | none, none => True
  | _, _ => False

theorem recolumn_ok (F : NumFmt Num) (t : TableFile Num) (kv : Key) (keys : List Key) (h : t.Ok F kv keys)
    (idx : List Nat) (names' : List Token)
    (hnames : names'.map findModulusKey = (pick idx t.names).map findModulusKey) :
    (t.recolumn idx names').Ok F kv (pick idx keys) := by
  refine ⟨h.vref, h.mass, ?_, h.vkey, ?_, ?_⟩
  · simpa [TableFile.recolumn] using h.nv
  · have h1 := pick_mapM findModulusKey idx t.names keys h.keys
    show names'.mapM findModulusKey = _
    rw [mapM_congr_map findModulusKey _ _ hnames, h1]
  · intro r hr
    simp only [TableFile.recolumn, List.mem_map] at hr
    obtain ⟨r0, hr0, rfl⟩ := hr
    have := h.rows r0 hr0
    exact ⟨this.1, fun c hc => this.2 c (mem_pick idx r0.2 c hc)⟩

end Recolumn
end Cij.ElastDat

/-! ## records: one q-point / one mode at one (T, V) grid point, and what the classes compute there -/
namespace Cij.NonShear

/-- one q-point as the code holds it at one (T, V) point: its rows of `freq_array` and of the three
`calculator.mode_gamma` arrays, and its weight.  Arrays are the projections of a list of these, so ONE `List.Perm`
of records is "the same permutation applied to all five arrays". -/
structure QPoint where
  freq : List ℝ
  mg0 : List ℝ
  mg1 : List ℝ
  mg2 : List ℝ
  w : ℝ

/-- one mode of one q-point at one (T, V) point: its entries of `freq_array` and of the three mode-γ arrays -/
structure ModeRec where
  f : ℝ
  m0 : ℝ
  m1 : ℝ
  m2 : ℝ

/-- the five quantities the phonon-contribution classes compute at one (T, V) point from the `[q][m]` slices, for ANY
prefactors `p` (longitudinal and off-diagonal classes differ only in `p`): zero-point and thermal part of both classes and
the isothermal→adiabatic term.  `value_isothermal`, `value_adiabatic` are sums of these (+ a pressure term that does not
read the arrays). -/
noncomputable def pointValues (h k hdk : ℝ) (na : ℕ) (T V cv : ℝ) (p : Pref ℝ)
    (freq mg0 mg1 mg2 : List (List ℝ)) (w : List ℝ) : List ℝ :=
  [zeroPointLongAt h na V (modeGamma p mg0 mg1 mg2) freq w,
   thermalLongAt k hdk na T V (modeGamma p mg0 mg1 mg2) freq w,
   zeroPointOffAt h na V (modeGamma p mg0 mg1 mg2) freq w,
   thermalOffAt k hdk na T V (modeGamma p mg0 mg1 mg2) freq w,
   isoToAdiaAt k hdk na T V cv (modeGamma p mg0 mg1 mg2) freq w]

/-- the four results of the non-shear classes at one (T, V) point of one volume slice: `value_isothermal` and `value_adiabatic`
of the longitudinal and of the off-diagonal class (`P` = `pressures[t][v]`, `cv` = `heat_capacity[t][v]`) -/
noncomputable def values (c : Consts ℝ) (T P cv : ℝ) (s : VolSlice ℝ) (w : List ℝ) : List ℝ :=
  [valueIsothermalLongAt c w T s, valueIsothermalOffAt c w T P s, valueAdiabaticLongAt c w T cv s,
   valueAdiabaticOffAt c w T P cv s]

/-- the four results are functions of the five point quantities (with each class's prefactors) and of V, P, P_static -/
theorem values_eq_of_pointValues (c : Consts ℝ) (T P cv : ℝ) (s s' : VolSlice ℝ) (w w' : List ℝ)
    (hV : s'.V = s.V) (he0 : s'.e0 = s.e0) (he1 : s'.e1 = s.e1) (hp : s'.pstatic = s.pstatic)
    (hL : pointValues c.h c.k c.hdk c.na T s.V cv (prefactorsLong s.e0 s.e1) s.freq s.mg0 s.mg1 s.mg2 w
      = pointValues c.h c.k c.hdk c.na T s.V cv (prefactorsLong s.e0 s.e1) s'.freq s'.mg0 s'.mg1 s'.mg2 w')
    (hO : pointValues c.h c.k c.hdk c.na T s.V cv (prefactorsOff s.e0 s.e1) s.freq s.mg0 s.mg1 s.mg2 w
      = pointValues c.h c.k c.hdk c.na T s.V cv (prefactorsOff s.e0 s.e1) s'.freq s'.mg0 s'.mg1 s'.mg2 w') :
    values c T P cv s w = values c T P cv s' w' := by
  simp only [pointValues, List.cons.injEq, and_true] at hL hO
  obtain ⟨l1, l2, -, -, l5⟩ := hL
  obtain ⟨-, -, o3, o4, o5⟩ := hO
  unfold values valueAdiabaticLongAt valueAdiabaticOffAt valueIsothermalLongAt valueIsothermalOffAt mgLong mgOff
  rw [hV, he0, he1, hp, l1, l2, l5, o3, o4, o5]

/-- the volume slice whose arrays are the projections of a list of q-point records -/
def sliceOfQ (V e0 e1 pst : ℝ) (qs : List QPoint) : VolSlice ℝ :=
  { V := V, e0 := e0, e1 := e1, pstatic := pst, freq := qs.map (·.freq), mg0 := qs.map (·.mg0), mg1 := qs.map (·.mg1),
    mg2 := qs.map (·.mg2) }

/-- the volume slice whose arrays are the images of a spectrum of mode records -/
def sliceOfM (V e0 e1 pst : ℝ) (S : List (List ModeRec)) : VolSlice ℝ :=
  { V := V, e0 := e0, e1 := e1, pstatic := pst, freq := S.map (List.map (·.f)), mg0 := S.map (List.map (·.m0)),
    mg1 := S.map (List.map (·.m1)), mg2 := S.map (List.map (·.m2)) }

end Cij.NonShear

/-! ## Eulerian strain with another reference volume -/
namespace Cij.FullModulus

/-- qha `calculate_eulerian_strain(v0, v) = 1/2 · ((v0 / v)^(2/3) − 1)` -/
noncomputable def eulerian (v0 v : ℝ) : ℝ := 1 / 2 * ((v0 / v) ^ ((2 : ℝ) / 3) - 1)

/-- changing the reference volume `V₀ → V₀'` (what reordering the rows of the static table does: `V₀ = volumes[0]`)
changes every Eulerian strain by ONE affine map `f ↦ c·f + (c − 1)/2`, `c = (V₀'/V₀)^(2/3) > 0` -/
theorem eulerian_affine (v0 v0' v : ℝ) (h0 : 0 < v0) (h0' : 0 < v0') (hv : 0 < v) :
    eulerian v0' v = (v0' / v0) ^ ((2 : ℝ) / 3) * eulerian v0 v + ((v0' / v0) ^ ((2 : ℝ) / 3) - 1) / 2 := by
  unfold eulerian
  have e : v0' / v = (v0' / v0) * (v0 / v) := by field_simp
  rw [e, Real.mul_rpow (by positivity) (by positivity)]
  ring

theorem eulerian_factor_pos (v0 v0' : ℝ) (h0 : 0 < v0) (h0' : 0 < v0') : 0 < (v0' / v0) ^ ((2 : ℝ) / 3) :=
  Real.rpow_pos_of_pos (by positivity) _

end Cij.FullModulus
