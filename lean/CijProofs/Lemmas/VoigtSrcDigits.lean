/-
  One-argument integer spellings `c_(n)` / `e_(n)` of the translated source, for symbolic `n`:
  `str(n)` (the evaluator's `natCodes`), the generator expression `int(k) for k in <str>` over a string of symbolic length
  (`genLoop`, by induction on the string, the fuel counted), and the dispatch of `create` on the number of digits.
-/
import CijProofs.Lemmas.VoigtSrcSort

namespace Cij.VoigtSrc
open PyLite

/-! ### `str(n)`: decimal digits -/

/-- the decimal digits of `n` as code points, most significant first (specification of `natCodes`) -/
def digs (n : Nat) : List Nat := if n < 10 then [48 + n] else digs (n / 10) ++ [48 + n % 10]
decreasing_by omega

theorem natCodesAux_eq : ∀ (f n : Nat) (acc : List Nat), n < f → natCodesAux f n acc = digs n ++ acc := by
  intro f
  induction f with
  | zero => intro n acc h; omega
  | succ f ih =>
    intro n acc h
    rw [digs]
    by_cases h10 : n < 10
    · simp [natCodesAux, h10]
    · simp only [natCodesAux, h10, if_false]
      rw [ih (n / 10) _ (by omega)]
      simp

theorem natCodes_eq (n : Nat) : natCodes n = digs n := by
  unfold natCodes; rw [natCodesAux_eq _ _ _ (by omega)]; simp

theorem digs_lt10 {n : Nat} (h : n < 10) : digs n = [48 + n] := by rw [digs, if_pos h]
theorem digs_ge10 {n : Nat} (h : 10 ≤ n) : digs n = digs (n / 10) ++ [48 + n % 10] := by rw [digs, if_neg (by omega)]

def isDigitCode (c : Nat) : Prop := 48 ≤ c ∧ c ≤ 57

theorem digs_digits (n : Nat) : ∀ c ∈ digs n, isDigitCode c := by
  induction n using Nat.strongRecOn with
  | _ n ih =>
    by_cases h : n < 10
    · rw [digs_lt10 h]; intro c hc; simp at hc; subst hc; unfold isDigitCode; omega
    · rw [digs_ge10 (by omega)]
      intro c hc
      rcases List.mem_append.mp hc with hc | hc
      · exact ih (n / 10) (by omega) c hc
      · simp at hc; subst hc; unfold isDigitCode; omega

theorem digs_two {n : Nat} (h1 : 10 ≤ n) (h2 : n < 100) : digs n = [48 + n / 10, 48 + n % 10] := by
  rw [digs_ge10 h1, digs_lt10 (by omega)]; rfl
theorem digs_three {n : Nat} (h1 : 100 ≤ n) (h2 : n < 1000) : digs n = [48 + n / 100, 48 + n / 10 % 10, 48 + n % 10] := by
  rw [digs_ge10 (by omega), digs_two (by omega) (by omega)]
  simp; omega
theorem digs_four {n : Nat} (h1 : 1000 ≤ n) (h2 : n < 10000) :
    digs n = [48 + n / 1000, 48 + n / 100 % 10, 48 + n / 10 % 10, 48 + n % 10] := by
  rw [digs_ge10 (by omega), digs_three (by omega) (by omega)]
  simp; omega

theorem digs_length_le (k : Nat) : ∀ n, n < 10 ^ (k + 1) → (digs n).length ≤ k + 1 := by
  induction k with
  | zero => intro n h; rw [digs_lt10 (by simpa using h)]; simp
  | succ k ih =>
    intro n h
    by_cases h10 : n < 10
    · rw [digs_lt10 h10]; simp
    · rw [digs_ge10 (by omega)]
      have : n / 10 < 10 ^ (k + 1) := by
        rw [Nat.div_lt_iff_lt_mul (by decide)]; rw [Nat.pow_succ] at h; exact h
      have := ih (n / 10) this
      simp; omega

/-- three or more digits: the first three and a tail -/
theorem digs_ge3 {n : Nat} (h : 100 ≤ n) : ∃ a b c r, digs n = a :: b :: c :: r := by
  induction n using Nat.strongRecOn with
  | _ n ih =>
    by_cases h3 : n < 1000
    · exact ⟨_, _, _, [], digs_three h h3⟩
    · obtain ⟨a, b, c, r, e⟩ := ih (n / 10) (by omega) (by omega)
      exact ⟨a, b, c, r ++ [48 + n % 10], by rw [digs_ge10 (by omega), e]; rfl⟩

/-- five or more digits -/
theorem digs_ge5 {n : Nat} (h : 10000 ≤ n) : ∃ a b c d e r, digs n = a :: b :: c :: d :: e :: r := by
  induction n using Nat.strongRecOn with
  | _ n ih =>
    by_cases h3 : n < 100000
    · refine ⟨48 + n / 10000, 48 + n / 1000 % 10, 48 + n / 100 % 10, 48 + n / 10 % 10, 48 + n % 10, [], ?_⟩
      rw [digs_ge10 (by omega), digs_four (by omega) (by omega)]
      simp; omega
    · obtain ⟨a, b, c, d, e, r, q⟩ := ih (n / 10) (by omega) (by omega)
      exact ⟨a, b, c, d, e, r ++ [48 + n % 10], by rw [digs_ge10 (by omega), q]; rfl⟩

/-- the largest integers the statements about `c_(n)` / `e_(n)` cover: fewer than 1900 digits (see the end of the file) -/
def intBound : Nat := 10 ^ 1900

set_option exponentiation.threshold 2000 in
theorem digs_length_bound {n : Nat} (h : n < intBound) : (digs n).length ≤ 1900 := digs_length_le 1899 n h
set_option exponentiation.threshold 2000 in
theorem lt_intBound {n : Nat} (h : n < 10000) : n < intBound :=
  Nat.lt_of_lt_of_le h (Nat.pow_le_pow_right (by decide) (by decide) : 10 ^ 4 ≤ 10 ^ (1900 : Nat))

/-! ### `int(k) for k in <digit string>` -/

def digitInt (c : Nat) : Val := .int (Int.ofNat (c - 48))

theorem intOfStr_digit {c : Nat} (h : isDigitCode c) : intOfStr [c] = .ok (Int.ofNat (c - 48)) := by
  obtain ⟨h1, h2⟩ := h
  have : c = 48 ∨ c = 49 ∨ c = 50 ∨ c = 51 ∨ c = 52 ∨ c = 53 ∨ c = 54 ∨ c = 55 ∨ c = 56 ∨ c = 57 := by omega
  rcases this with rfl | rfl | rfl | rfl | rfl | rfl | rfl | rfl | rfl | rfl <;> rfl

theorem genLoop_nil (f d : Nat) (env : Env) (elt : Expr) (t : Target) :
    genLoop src 60 genv0 (f + 1) d env elt t [] = .ok [] := rfl
theorem genLoop_cons (f d : Nat) (env : Env) (elt : Expr) (t : Target) (v : Val) (vs : List Val) :
    genLoop src 60 genv0 (f + 1) d env elt t (v :: vs) =
      (bindTarget t v env).bind fun env' => (evalExpr src 60 genv0 f d env' elt).bind fun w =>
        (genLoop src 60 genv0 f d env elt t vs).bind fun rest => .ok (w :: rest) := rfl

/-- the generator expression over a digit string yields the digits as ints, provided the element expression is `int(<target>)`
in this environment (hypothesis `H`, discharged by kernel evaluation for each of the two `create` functions) and the fuel covers
the length of the string (one unit per character) -/
theorem genLoop_digits (d : Nat) (env : Env) (elt : Expr) (x : String)
    (H : ∀ g c, evalExpr src 60 genv0 (g + 4) d ((x, .str [c]) :: env) elt = (intOfStr [c]).bind fun n => .ok (.int n)) :
    ∀ (cs : List Nat) (f : Nat), (∀ c ∈ cs, isDigitCode c) → cs.length + 5 ≤ f →
      genLoop src 60 genv0 f d env elt (.name x) (cs.map fun c => .str [c]) = .ok (cs.map digitInt) := by
  intro cs
  induction cs with
  | nil => intro f _ hf; obtain ⟨f', rfl⟩ : ∃ f', f = f' + 1 := ⟨f - 1, by omega⟩; rfl
  | cons c cs ih =>
    intro f hd hf
    obtain ⟨g, rfl⟩ : ∃ g, f = g + 4 + 1 := ⟨f - 5, by simp at hf; omega⟩
    rw [List.map_cons, genLoop_cons]
    show (Result.ok ((x, Val.str [c]) :: env)).bind _ = _
    show (evalExpr src 60 genv0 (g + 4) d ((x, .str [c]) :: env) elt).bind _ = _
    rw [H g c, intOfStr_digit (hd c (by simp)), ih (g + 4) (fun c' hc' => hd c' (by simp [hc'])) (by simp at hf; omega)]
    rfl

def frGen (x : Result (List Val)) : Result Val := do let xs ← x; pure (.gen xs)


/-! ### `StrainRepresentation.create` -/

def fdCE : FunDef := funOf "StrainRepresentation" "create"
def envCE (iv jv : Val) : Env := [("cls", SRc), ("i", iv), ("j", jv)]
theorem ce_params1 (v : Val) : bindParams fdCE.params fdCE.vararg [SRc, v] = .ok (envCE v .none) := by kernel_rfl
theorem ce_params2 (v w : Val) : bindParams fdCE.params fdCE.vararg [SRc, v, w] = .ok (envCE v w) := by kernel_rfl
theorem ce_params3 (a b c : Val) (r : List Val) :
    bindParams fdCE.params fdCE.vararg (SRc :: a :: b :: c :: r) = .exc "TypeError" [] := by kernel_rfl

/-- the generator expression `int(k) for k in i` of the `str` branch -/
def ceGen : Expr := match fdCE.body with
  | [.ifElse _ _ [.ifElse _ _ [.ifElse _ [.ret (some (.call _ [.starred g] _))] _]]] => g
  | _ => .const .none
def ceElt : Expr := match ceGen with | .genexp e _ _ => e | _ => .const .none
def ceVar : String := match ceGen with | .genexp _ (.name x) _ => x | _ => ""
def ceFn : Val := .classmeth "StrainRepresentation" "create"

theorem ce_elt (d : Nat) (s : List Nat) (g c : Nat) :
    evalExpr src 60 genv0 (g + 4) d ((ceVar, .str [c]) :: envCE (.str s) .none) ceElt = (intOfStr [c]).bind fun n => .ok (.int n) := by
  kernel_rfl

def bodyCE (F d : Nat) (iv jv : Val) : Result Flow := execStmts src 60 genv0 F d (envCE iv jv) fdCE.body

set_option maxHeartbeats 4000 in
theorem ce_str_spine (m d : Nat) (s : List Nat) : bodyCE (m + 12) d (.str s) .none =
    frIf (recAt (m + 11)) d [] (frIf (recAt (m + 10)) d [] (frIf (recAt (m + 9)) d [] (frRet
      (frArgs (recAt (m + 7)) d (envCE (.str s) .none) [] ceFn (frStar (recAt (m + 6)) d (envCE (.str s) .none) []
        (frGen (genLoop src 60 genv0 (m + 5) d (envCE (.str s) .none) ceElt (.name ceVar) (s.map fun c => .str [c])))))))) := by
  kernel_rfl

set_option maxHeartbeats 4000 in
theorem ce_after_gen (m d : Nat) (env : Env) (xs : List Val) :
    frArgs (recAt (m + 7)) d env [] ceFn (frStar (recAt (m + 6)) d env [] (frGen (.ok xs))) =
      callFun src 60 genv0 (m + 6) d fdCE SRc (xs ++ []) := by kernel_rfl

theorem frFun_frIf3 (r1 r2 r3 : Rec) (d : Nat) (x : Result Val) :
    frFun (frIf r1 d [] (frIf r2 d [] (frIf r3 d [] (frRet x)))) = x := by cases x <;> rfl
theorem frFun_frIf1 (r1 : Rec) (d : Nat) (x : Result Val) : frFun (frIf r1 d [] (frRet x)) = x := by cases x <;> rfl
theorem frFun_frIf2 (r1 r2 : Rec) (d : Nat) (x : Result Val) : frFun (frIf r1 d [] (frIf r2 d [] (frRet x))) = x := by
  cases x <;> rfl

/-- `E_.create(<digit string>)` = `E_.create(*digits)`, one call deeper -/
theorem createE_str (m d : Nat) (hd : d < 60) (s : List Nat) (hs : ∀ c ∈ s, isDigitCode c) (hl : s.length ≤ m) :
    callFun src 60 genv0 (m + 13) d fdCE SRc [.str s] = callFun src 60 genv0 (m + 6) (d + 1) fdCE SRc (s.map digitInt) := by
  rw [callFun_enter (m + 12) d fdCE SRc _ hd, ce_params1]
  show frFun (bodyCE (m + 12) (d + 1) (.str s) .none) = _
  rw [ce_str_spine, frFun_frIf3,
    genLoop_digits (d + 1) (envCE (.str s) .none) ceElt ceVar (ce_elt (d + 1) s) s (m + 5) hs (by omega),
    ce_after_gen, List.append_nil]

set_option maxHeartbeats 4000 in
/-- `E_.create(a, b)` = `E_.from_standard(a, b)` -/
theorem ce_two_spine (m d : Nat) (a b : Int) : bodyCE (m + 45) d (.int a) (.int b) =
    frIf (recAt (m + 44)) d [] (frRet (callFS (m + 41) d a b)) := by kernel_rfl

theorem createE_two (m d : Nat) (hd : d < 60) (a b : Int) :
    callFun src 60 genv0 (m + 46) d fdCE SRc [.int a, .int b] = callFS (m + 41) (d + 1) a b := by
  rw [callFun_enter (m + 45) d fdCE SRc _ hd, ce_params2]
  show frFun (bodyCE (m + 45) (d + 1) (.int a) (.int b)) = _
  rw [ce_two_spine, frFun_frIf1]

theorem createE_many (m d : Nat) (hd : d < 60) (a b c : Val) (r : List Val) :
    callFun src 60 genv0 (m + 1) d fdCE SRc (a :: b :: c :: r) = .exc "TypeError" [] := by
  rw [callFun_enter m d fdCE SRc _ hd, ce_params3]; rfl

/-- the frames of `_` → `create` → `elif type(i) == int` → `else` (i ≥ 10) → `return cls.create(str(i))` -/
def wrapE1 (x : Result Val) : Result Val :=
  frFun (frRet (frFun (frIf (recAt 1994) 2 [] (frIf (recAt 1993) 2 [] (frIf (recAt 1992) 2 [] (frRet x))))))
theorem wrapE1_id (x : Result Val) : wrapE1 x = x := by cases x <;> rfl

set_option maxHeartbeats 20000 in
theorem e1_spine (k : Nat) : srcCall "e_" [.int (Int.ofNat (k + 10))] =
    wrapE1 (callFun src 60 genv0 1989 2 fdCE SRc [.str (natCodes (k + 10))]) := by kernel_rfl


/-! ### `ModulusRepresentation.create` -/

def fdCC : FunDef := funOf "ModulusRepresentation" "create"
def envCC (args : List Val) : Env := [("cls", MRc), ("args", .tuple args)]
theorem cc_params (args : List Val) : bindParams fdCC.params fdCC.vararg (MRc :: args) = .ok (envCC args) := by kernel_rfl

def ccGen : Expr := match fdCC.body with
  | [.ifElse _ _ [.ifElse _ _ [.ifElse _ [.ret (some (.call _ [.starred g] _))] _]]] => g
  | _ => .const .none
def ccElt : Expr := match ccGen with | .genexp e _ _ => e | _ => .const .none
def ccVar : String := match ccGen with | .genexp _ (.name x) _ => x | _ => ""
def ccFn : Val := .classmeth "ModulusRepresentation" "create"

theorem cc_elt (d : Nat) (s : List Nat) (g c : Nat) :
    evalExpr src 60 genv0 (g + 4) d ((ccVar, .str [c]) :: envCC [.str s]) ccElt = (intOfStr [c]).bind fun n => .ok (.int n) := by
  kernel_rfl

def bodyCC (F d : Nat) (args : List Val) : Result Flow := execStmts src 60 genv0 F d (envCC args) fdCC.body

set_option maxHeartbeats 4000 in
theorem cc_str_spine (m d : Nat) (s : List Nat) : bodyCC (m + 12) d [.str s] =
    frIf (recAt (m + 11)) d [] (frIf (recAt (m + 10)) d [] (frIf (recAt (m + 9)) d [] (frRet
      (frArgs (recAt (m + 7)) d (envCC [.str s]) [] ccFn (frStar (recAt (m + 6)) d (envCC [.str s]) []
        (frGen (genLoop src 60 genv0 (m + 5) d (envCC [.str s]) ccElt (.name ccVar) (s.map fun c => .str [c])))))))) := by
  kernel_rfl

set_option maxHeartbeats 4000 in
theorem cc_after_gen (m d : Nat) (env : Env) (xs : List Val) :
    frArgs (recAt (m + 7)) d env [] ccFn (frStar (recAt (m + 6)) d env [] (frGen (.ok xs))) =
      callFun src 60 genv0 (m + 6) d fdCC MRc (xs ++ []) := by kernel_rfl

set_option maxHeartbeats 4000 in
theorem cc_int_spine (m d : Nat) (n : Int) : bodyCC (m + 20) d [.int n] =
    frIf (recAt (m + 19)) d [] (frIf (recAt (m + 18)) d [] (frIf (recAt (m + 17)) d [] (frIf (recAt (m + 16)) d [] (frRet
      (callFun src 60 genv0 (m + 13) d fdCC MRc [.str (intCodes n)]))))) := by kernel_rfl

set_option maxHeartbeats 4000 in
theorem cc_four_spine (m d : Nat) (a b c e : Int) : bodyCC (m + 65) d [.int a, .int b, .int c, .int e] =
    frIf (recAt (m + 64)) d [] (frRet (callC4 (m + 61) d a b c e)) := by kernel_rfl

/-! five or more arguments: the final `else: raise RuntimeError(f"… {args}")`, whose message formats a tuple of symbolic length -/

def frRaise (x : Result Val) : Result Flow := do let v ← x; raiseVal v
def frFStr (x : Result (List Str)) : Result Val := do let ss ← x; pure (.str ss.flatten)
def frFConst (s : String) (x : Result (List Str)) : Result (List Str) := do let rs ← x; pure (codes s :: rs)
def frFStrOf (r : Rec) (d : Nat) (env : Env) (ps : List Expr) (x : Result Str) : Result (List Str) := do
  let s ← x
  let rs ← r.fparts d env ps
  pure (s :: rs)

/-- the literal part of the message of the final `raise` -/
def ccMsg : String := match fdCC.body with
  | [.ifElse _ _ [.ifElse _ _ [.ifElse _ _ [.ifElse _ _ [.raise (.call _ [.fstring (.const (.str s) :: _)] _)]]]]] => s
  | _ => ""

def ccRaise (m d : Nat) (vs : List Val) (x : Result Str) : Result Flow :=
  frIf (recAt (m + 19)) d [] (frIf (recAt (m + 18)) d [] (frIf (recAt (m + 17)) d [] (frIf (recAt (m + 16)) d [] (frRaise
    (frArgs (recAt (m + 14)) d (envCC vs) [] (.builtin "RuntimeError") (frHead (recAt (m + 13)) d (envCC vs) []
      (frFStr (frFConst ccMsg (frFStrOf (recAt (m + 10)) d (envCC vs) [] x)))))))))

set_option maxHeartbeats 4000 in
theorem cc_many_spine (m d : Nat) (v0 v1 v2 v3 v4 : Val) (r : List Val) :
    bodyCC (m + 20) d (v0 :: v1 :: v2 :: v3 :: v4 :: r) =
      ccRaise m d (v0 :: v1 :: v2 :: v3 :: v4 :: r) (strOf (.tuple (v0 :: v1 :: v2 :: v3 :: v4 :: r))) := by kernel_rfl

theorem cc_raise_kind (m d : Nat) (vs : List Val) (str : Str) : excK (frFun (ccRaise m d vs (.ok str))) = RTE' := by kernel_rfl

theorem reprAll_digitInts (cs : List Nat) : reprAll (cs.map digitInt) = .ok (cs.map fun c => intCodes (Int.ofNat (c - 48))) := by
  induction cs with
  | nil => rfl
  | cons c cs ih => simp only [List.map_cons, digitInt, reprAll, reprOf, bind, Result.bind, pure] at ih ⊢; rw [ih]

theorem strOf_digit_tuple (a b : Nat) (cs : List Nat) : ∃ str, strOf (.tuple ((a :: b :: cs).map digitInt)) = .ok str := by
  have h := reprAll_digitInts (a :: b :: cs)
  simp only [List.map_cons] at h
  refine ⟨40 :: joinCodes [44, 32] ((a :: b :: cs).map fun c => intCodes (Int.ofNat (c - 48))) ++ [41], ?_⟩
  simp only [List.map_cons, strOf, reprOf, h, bind, Result.bind, pure]

theorem frFun_frIf4 (r1 r2 r3 r4 : Rec) (d : Nat) (x : Result Val) :
    frFun (frIf r1 d [] (frIf r2 d [] (frIf r3 d [] (frIf r4 d [] (frRet x))))) = x := by cases x <;> rfl

/-- `C_.create(<digit string>)` = `C_.create(*digits)`, one call deeper -/
theorem createC_str (m d : Nat) (hd : d < 60) (s : List Nat) (hs : ∀ c ∈ s, isDigitCode c) (hl : s.length ≤ m) :
    callFun src 60 genv0 (m + 13) d fdCC MRc [.str s] = callFun src 60 genv0 (m + 6) (d + 1) fdCC MRc (s.map digitInt) := by
  rw [callFun_enter (m + 12) d fdCC MRc _ hd, cc_params]
  show frFun (bodyCC (m + 12) (d + 1) [.str s]) = _
  rw [cc_str_spine, frFun_frIf3,
    genLoop_digits (d + 1) (envCC [.str s]) ccElt ccVar (cc_elt (d + 1) s) s (m + 5) hs (by omega),
    cc_after_gen, List.append_nil]

/-- `C_.create(n)` = `C_.create(str(n))`, one call deeper -/
theorem createC_int (m d : Nat) (hd : d < 60) (n : Int) :
    callFun src 60 genv0 (m + 21) d fdCC MRc [.int n] = callFun src 60 genv0 (m + 13) (d + 1) fdCC MRc [.str (intCodes n)] := by
  rw [callFun_enter (m + 20) d fdCC MRc _ hd, cc_params]
  show frFun (bodyCC (m + 20) (d + 1) [.int n]) = _
  rw [cc_int_spine, frFun_frIf4]

/-- `C_.create(a, b, c, e)` = `C_.from_standard(a, b, c, e)` -/
theorem createC_four (m d : Nat) (hd : d < 60) (a b c e : Int) :
    callFun src 60 genv0 (m + 66) d fdCC MRc [.int a, .int b, .int c, .int e] = callC4 (m + 61) (d + 1) a b c e := by
  rw [callFun_enter (m + 65) d fdCC MRc _ hd, cc_params]
  show frFun (bodyCC (m + 65) (d + 1) _) = _
  rw [cc_four_spine, frFun_frIf1]

/-- five or more digits: "Invalid modulus representation" -/
theorem createC_many (m d : Nat) (hd : d < 60) (a0 a1 a2 a3 a4 : Nat) (r : List Nat) :
    excK (callFun src 60 genv0 (m + 21) d fdCC MRc ((a0 :: a1 :: a2 :: a3 :: a4 :: r).map digitInt)) = RTE' := by
  rw [callFun_enter (m + 20) d fdCC MRc _ hd, cc_params]
  show excK (frFun (bodyCC (m + 20) (d + 1) (digitInt a0 :: digitInt a1 :: digitInt a2 :: digitInt a3 :: digitInt a4 :: r.map digitInt))) = _
  rw [cc_many_spine]
  obtain ⟨str, hstr⟩ := strOf_digit_tuple a0 a1 (a2 :: a3 :: a4 :: r)
  simp only [List.map_cons] at hstr
  rw [hstr]
  exact cc_raise_kind m (d + 1) _ str

/-! the public spelling `c_(…)`: `_` passes its arguments on to `create` -/

set_option maxHeartbeats 20000 in
theorem c_top_spine (args : List Val) :
    srcCall "c_" args = frFun (frRet (callFun src 60 genv0 1996 1 fdCC MRc (args ++ []))) := by kernel_rfl

theorem c_top (args : List Val) : srcCall "c_" args = callFun src 60 genv0 1996 1 fdCC MRc args := by
  rw [c_top_spine, frFun_frRet, List.append_nil]

/-- `c_(n)` for a natural number = `C_.create(*digits of n)` three calls down -/
theorem c1_digits (n : Nat) (hn : n < intBound) :
    srcCall "c_" [.int (Int.ofNat n)] = callFun src 60 genv0 1981 3 fdCC MRc ((digs n).map digitInt) := by
  rw [c_top, createC_int 1975 1 (by omega), createC_str 1975 2 (by omega) _ _ _]
  · show callFun src 60 genv0 1981 3 fdCC MRc ((natCodes n).map digitInt) = _
    rw [natCodes_eq]
  · show ∀ c ∈ natCodes n, isDigitCode c
    rw [natCodes_eq]; exact digs_digits n
  · show (natCodes n).length ≤ 1975
    rw [natCodes_eq]; have := digs_length_bound hn; omega

/-- negative integers: `str(n)` starts with `-`, and `int('-')` raises ValueError -/
theorem c1_neg (a : Nat) : excKind (srcCall "c_" [.int (Int.negSucc a)]) = some "ValueError" := by kernel_rfl

def dig10 : List Nat := [0, 1, 2, 3, 4, 5, 6, 7, 8, 9]

/-- two digits: every pair of digits, decided -/
theorem c1_two_digits : (dig10.all fun a => dig10.all fun b =>
    agreeWith valToModulus (callFun src 60 genv0 1981 3 fdCC MRc [digitInt (48 + a), digitInt (48 + b)])
      (Modulus.fromVoigt (Int.ofNat a) (Int.ofNat b))) = true := by kernel_rfl

/-- three digits -/
theorem c1_three_digits (a b c : Nat) :
    excK (callFun src 60 genv0 1981 3 fdCC MRc [digitInt a, digitInt b, digitInt c]) = RTE' := by kernel_rfl

/-- one digit: `create(5)` → `create("5")` → `create(5)` → … until the recursion limit -/
theorem c1_one_digit_lo : (([0, 1, 2, 3, 4] : List Nat).all fun a =>
    excKind (srcCall "c_" [.int (Int.ofNat a)]) == some "RecursionError") = true := by kernel_rfl
theorem c1_one_digit_hi : (([5, 6, 7, 8, 9] : List Nat).all fun a =>
    excKind (srcCall "c_" [.int (Int.ofNat a)]) == some "RecursionError") = true := by kernel_rfl


/-! ### assembled: `e_(n)` and `c_(n)` for natural numbers `n < intBound`

The bound is the evaluator's: the generator expression consumes one unit of fuel per digit, and the budget `fuel.depth = 2000`
covers 1975 digits (beyond it the answer is `outOfFuel`, which is never an answer; CPython itself stops converting at 4300
digits: `str(n)` raises ValueError from 10 ^ 4300 on). -/

theorem digitInt_code (a : Nat) : digitInt (48 + a) = .int (Int.ofNat a) := by
  unfold digitInt; rw [Nat.add_sub_cancel_left]

/-- `e_(n)`, n ≥ 10, = `E_.create(*digits of n)` two calls down -/
theorem e1_digits (n : Nat) (h10 : 10 ≤ n) (hn : n < intBound) :
    srcCall "e_" [.int (Int.ofNat n)] = callFun src 60 genv0 1982 3 fdCE SRc ((digs n).map digitInt) := by
  obtain ⟨k, rfl⟩ : ∃ k, n = k + 10 := ⟨n - 10, by omega⟩
  rw [e1_spine, wrapE1_id, natCodes_eq, createE_str 1976 2 (by omega) _ (digs_digits _)]
  have := digs_length_bound hn; omega

/-- two digits: `e_(10 a + b)` is `E_.from_standard(a, b)` -/
theorem src_e1_two (n : Nat) (h1 : 10 ≤ n) (h2 : n < 100) :
    (¬in3 (Int.ofNat (n / 10)) (Int.ofNat (n % 10)) → excKind (srcCall "e_" [.int (Int.ofNat n)]) = some "RuntimeError") ∧
    (in3 (Int.ofNat (n / 10)) (Int.ofNat (n % 10)) → srcCall "e_" [.int (Int.ofNat n)] =
      .ok (Strain.toVal ⟨min (Int.ofNat (n / 10)) (Int.ofNat (n % 10)), max (Int.ofNat (n / 10)) (Int.ofNat (n % 10))⟩)) := by
  have hn : n < intBound := lt_intBound (by omega)
  rw [e1_digits n h1 hn, digs_two h1 h2]
  simp only [List.map_cons, List.map_nil, digitInt_code]
  rw [createE_two 1936 3 (by omega), excKind_eq_excK]
  exact callFS_spec 1936 4 (by omega) _ _

/-- three or more digits: `create` gets more than two positional arguments — TypeError -/
theorem src_e1_many (n : Nat) (h1 : 100 ≤ n) (hn : n < intBound) :
    excKind (srcCall "e_" [.int (Int.ofNat n)]) = some "TypeError" := by
  rw [e1_digits n (by omega) hn]
  obtain ⟨a, b, c, r, e⟩ := digs_ge3 h1
  rw [e, List.map_cons, List.map_cons, List.map_cons, createE_many 1981 3 (by omega)]
  rfl

theorem mem_dig10 {a : Nat} (h : a < 10) : a ∈ dig10 := by simp [dig10]; omega

theorem src_c1_one (n : Nat) (h : n < 10) : excKind (srcCall "c_" [.int (Int.ofNat n)]) = some "RecursionError" := by
  have : n ∈ ([0, 1, 2, 3, 4] : List Nat) ∨ n ∈ ([5, 6, 7, 8, 9] : List Nat) := by simp; omega
  rcases this with h | h
  · exact eq_of_beq (List.all_eq_true.mp c1_one_digit_lo n h)
  · exact eq_of_beq (List.all_eq_true.mp c1_one_digit_hi n h)

/-- two digits: `c_(10 a + b)` is the model's `C_.from_voigt(a, b)` (a key, or rejected by both) -/
theorem src_c1_two (n : Nat) (h1 : 10 ≤ n) (h2 : n < 100) :
    agreeWith valToModulus (srcCall "c_" [.int (Int.ofNat n)]) (Modulus.fromVoigt (Int.ofNat (n / 10)) (Int.ofNat (n % 10))) = true := by
  have hn : n < intBound := lt_intBound (by omega)
  rw [c1_digits n hn, digs_two h1 h2]
  exact List.all_eq_true.mp (List.all_eq_true.mp c1_two_digits (n / 10) (mem_dig10 (by omega))) (n % 10) (mem_dig10 (by omega))

theorem src_c1_three (n : Nat) (h1 : 100 ≤ n) (h2 : n < 1000) :
    excKind (srcCall "c_" [.int (Int.ofNat n)]) = some "RuntimeError" := by
  have hn : n < intBound := lt_intBound (by omega)
  rw [c1_digits n hn, digs_three h1 h2, excKind_eq_excK]
  exact c1_three_digits _ _ _

/-- four digits: `c_(1000 a + 100 b + 10 c + e)` is `C_.from_standard(a, b, c, e)` -/
theorem src_c1_four (n : Nat) (h1 : 1000 ≤ n) (h2 : n < 10000) :
    let a := Int.ofNat (n / 1000); let b := Int.ofNat (n / 100 % 10); let c := Int.ofNat (n / 10 % 10); let e := Int.ofNat (n % 10)
    (¬(in3 a b ∧ in3 c e) → excKind (srcCall "c_" [.int (Int.ofNat n)]) = some "RuntimeError") ∧
    (in3 a b ∧ in3 c e → agreeWith valToModulus (srcCall "c_" [.int (Int.ofNat n)]) (Modulus.fromStandard a b c e) = true) := by
  have hn : n < intBound := lt_intBound (by omega)
  intro a b c e
  rw [c1_digits n hn, digs_four h1 h2]
  simp only [List.map_cons, List.map_nil, digitInt_code]
  rw [createC_four 1915 3 (by omega), excKind_eq_excK]
  exact ⟨callC4_rejects 1915 4 (by omega) a b c e, callC4_accepts 1915 4 (by omega) a b c e⟩

/-- five or more digits: "Invalid modulus representation" -/
theorem src_c1_many (n : Nat) (h1 : 10000 ≤ n) (hn : n < intBound) :
    excKind (srcCall "c_" [.int (Int.ofNat n)]) = some "RuntimeError" := by
  rw [c1_digits n hn, excKind_eq_excK]
  obtain ⟨a0, a1, a2, a3, a4, r, e⟩ := digs_ge5 h1
  rw [e]
  exact createC_many 1960 3 (by omega) a0 a1 a2 a3 a4 r

end Cij.VoigtSrc
