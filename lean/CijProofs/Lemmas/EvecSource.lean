/-
  The eigenvector-tool model (`CijModel/Evec.lean`) IS what `cij/misc/evec_sort.py`, `evec_disp2eig.py`, `evec_load.py` say now:
  `tools/gens/evec_src.py` extracts set construction, tests, matrix expressions, loop statements, regex literals, column slices,
  converters and step lists as DATA (`Generated/EvecSpec.lean`); `CijModel/EvecSrc.lean` gives that data its Python/numpy meaning
  (interpreters `runSort`, `runDisp`, `Rx.run`, `evecLoadS`); here: on the generated data the interpreters are the hand-written model
  functions, for all inputs.
-/
import CijModel.EvecSrc
import Generated.EvecSpec
import CijProofs.Lemmas.Evec

set_option linter.unusedSectionVars false
set_option linter.unusedVariables false
set_option linter.unusedSimpArgs false

namespace Cij.EvecSrc
open Cij.Evec

/-! ### the dimension test of `evec_sort` -/

theorem mem_distinct (l : List Nat) (x : Nat) : x ∈ distinct l ↔ x ∈ l := by
  induction l with
  | nil => simp [distinct]
  | cons y r ih =>
    simp only [distinct, List.mem_cons, List.mem_filter, ih, bne_iff_ne, ne_eq]
    by_cases h : x = y <;> simp [h]

/-- the set of lengths has exactly one member and that member is `n`  ⇔  the list is non-empty and constant `n` -/
theorem distinct_length_eq_one (l : List Nat) (n : Nat) :
    ((distinct l).length = 1 ∧ n ∈ l) ↔ (l ≠ [] ∧ ∀ x ∈ l, x = n) := by
  cases l with
  | nil => simp [distinct]
  | cons y r =>
    have hlen : (distinct (y :: r)).length = 1 ↔ ∀ x ∈ r, x = y := by
      simp only [distinct, List.length_cons, Nat.add_eq_right, List.length_eq_zero_iff, List.filter_eq_nil_iff,
        bne_iff_ne, ne_eq, Decidable.not_not]
      constructor
      · intro h x hx; exact h x ((mem_distinct r x).2 hx)
      · intro h x hx; exact h x ((mem_distinct r x).1 hx)
    rw [hlen]
    constructor
    · rintro ⟨h1, h2⟩
      refine ⟨by simp, ?_⟩
      have hn : n = y := by
        rcases List.mem_cons.mp h2 with h | h
        · exact h
        · exact h1 n h
      intro x hx
      rcases List.mem_cons.mp hx with h | h
      · rw [h, hn]
      · rw [h1 x h, hn]
    · rintro ⟨_, h⟩
      have hy : y = n := h y (by simp)
      refine ⟨fun x hx => by rw [h x (by simp [hx]), hy], by simp [hy]⟩

/-- `len(s) != 1 or n not in s` on a non-empty display  =  "not every length is n" -/
theorem reject_iff_not_all (l : List Nat) (n : Nat) (hl : l ≠ []) :
    ((distinct l).length != 1 || !l.contains n) = !(l.all (· == n)) := by
  have h := distinct_length_eq_one l n
  by_cases hall : ∀ x ∈ l, x = n
  · obtain ⟨h1, h2⟩ := h.2 ⟨hl, hall⟩
    have : l.all (· == n) = true := by simpa using hall
    simp [h1, h2, this]
  · have hnot : ¬ ((distinct l).length = 1 ∧ n ∈ l) := fun hc => hall (h.1 hc).2
    have : l.all (· == n) = false := by
      rw [Bool.eq_false_iff]; intro hc; exact hall (by simpa using hc)
    rw [this]
    by_cases h1 : (distinct l).length = 1
    · have h2 : n ∉ l := fun hc => hnot ⟨h1, hc⟩
      simp [h1, h2]
    · simp [h1]

/-- DIMENSION TEST.  The extracted set display and rejection test, with their Python meaning, reject exactly when the model's
`dimsOk` is false — for all vector lists (all length vectors) and every `ndim`. -/
theorem sort_dim_test_is_model {β : Type} (ndim : Nat) (T B : List (List β)) :
    Generated.sortSpec.dimReject.eval ndim (Generated.sortSpec.dimSet.flatMap (SetElem.eval T B)) = !dimsOk ndim T B := by
  have h := reject_iff_not_all (T.length :: B.length :: (T ++ B).map List.length) ndim (by simp)
  simp only [Generated.sortSpec, List.flatMap_cons, List.flatMap_nil, SetElem.eval, SeqE.eval, BoolE.eval, IntE.eval,
    List.append_nil, List.cons_append, List.nil_append, dimsOk]
  simpa using h

/-! ### matrix expressions -/

section mat
variable {ρ : Type} [Add ρ] [Sub ρ] [Mul ρ] [Div ρ] [Neg ρ] [OfNat ρ 0] [HasSqrt ρ]

/-- a left fold over `range n` reading two lists by index is the left fold over their zip -/
theorem foldl_range_zip {γ : Type} (g : γ → Cx ρ → Cx ρ → γ) :
    ∀ (n : Nat) (b t : List (Cx ρ)) (z : γ), b.length = n → t.length = n →
      (List.range n).foldl (fun acc k => g acc (b[k]?.getD Cx.zero) (t[k]?.getD Cx.zero)) z
        = (b.zip t).foldl (fun acc p => g acc p.1 p.2) z := by
  intro n
  induction n with
  | zero =>
    intro b t z hb ht
    rw [List.length_eq_zero_iff.mp hb]; simp
  | succ n ih =>
    intro b t z hb ht
    obtain ⟨x, b', rfl⟩ := List.exists_cons_of_length_eq_add_one hb
    obtain ⟨y, t', rfl⟩ := List.exists_cons_of_length_eq_add_one ht
    rw [List.range_succ_eq_map, List.foldl_cons, List.foldl_map]
    simp only [List.getElem?_cons_zero, Option.getD_some, List.getElem?_cons_succ, List.zip_cons_cons, List.foldl_cons]
    exact ih b' t' _ (by simpa using hb) (by simpa using ht)

theorem matOf_row (rows : List (List (Cx ρ))) (i k : Nat) (hi : i < rows.length) :
    matOf rows i k = (rows[i])[k]?.getD Cx.zero := by
  simp [matOf, hi]

/-- `(conj(X) @ Y.T)[i, j]` over the contracted dimension `n` is `overlap X[i] Y[j]` (the conjugated operand is the LEFT one,
rows of the result are indexed by the left array, columns by the transposed right array) -/
theorem conj_matmul_tr_eval (env : String → Nat → Nat → Cx ρ) (x y : String) (X Y : List (List (Cx ρ)))
    (hx : env x = matOf X) (hy : env y = matOf Y) (n i j : Nat) (hi : i < X.length) (hj : j < Y.length)
    (hXi : (X[i]).length = n) (hYj : (Y[j]).length = n) :
    (MatE.matmul (.conj (.arr x)) (.tr (.arr y))).eval env n i j = overlap X[i] Y[j] := by
  simp only [MatE.eval, hx, hy, matOf_row X i _ hi, matOf_row Y j _ hj]
  exact foldl_range_zip (fun acc a b => Cx.add acc (Cx.mul (Cx.conj a) b)) n X[i] Y[j] Cx.zero hXi hYj

end mat

/-! ### the loop of `evec_sort` -/

section loop
variable {α : Type} [LT α] [DecidableRel (fun a b : α => a < b)] [OfNat α 0] {ι : Type}

theorem mem_pairs' (n : Nat) (p : Nat × Nat) : p ∈ pairs n ↔ p.1 < n ∧ p.2 < n := by
  obtain ⟨i, j⟩ := p
  simp only [pairs, List.mem_flatMap, List.mem_range, List.mem_map, Prod.mk.injEq]
  constructor
  · rintro ⟨a, ha, b, hb, rfl, rfl⟩; exact ⟨ha, hb⟩
  · rintro ⟨hi, hj⟩; exact ⟨i, hi, j, hj, rfl, rfl⟩

/-- the pick only reads the entries with both indices below `n` -/
theorem foldl_argmax_congr (n : Nat) (a a' : Nat → Nat → α) (h : ∀ i < n, ∀ j < n, a i j = a' i j) :
    ∀ (L : List (Nat × Nat)) (b0 : Nat × Nat), (∀ p ∈ L, p.1 < n ∧ p.2 < n) → (b0.1 < n ∧ b0.2 < n) →
      L.foldl (fun best p => if a best.1 best.2 < a p.1 p.2 then p else best) b0
        = L.foldl (fun best p => if a' best.1 best.2 < a' p.1 p.2 then p else best) b0 := by
  intro L
  induction L with
  | nil => intro b0 _ _; rfl
  | cons q L ih =>
    intro b0 hL hb
    have hq := hL q (by simp)
    simp only [List.foldl_cons]
    rw [h b0.1 hb.1 b0.2 hb.2, h q.1 hq.1 q.2 hq.2]
    apply ih _ (fun p hp => hL p (by simp [hp]))
    split
    · exact hq
    · exact hb

theorem argmax2_congr (n : Nat) (a a' : Nat → Nat → α) (h : ∀ i < n, ∀ j < n, a i j = a' i j) :
    argmax2 n a = argmax2 n a' := by
  unfold argmax2
  cases n with
  | zero => simp [pairs]
  | succ n =>
    exact foldl_argmax_congr (n + 1) a a' h _ _ (fun p hp => (mem_pairs' _ p).1 hp) ⟨Nat.succ_pos n, Nat.succ_pos n⟩

theorem greedyLoop_congr (n : Nat) (target : Nat → ι) :
    ∀ (k : Nat) (a a' : Nat → Nat → α) (s : Nat → Option ι), (∀ i < n, ∀ j < n, a i j = a' i j) →
      greedyLoop n target k a s = greedyLoop n target k a' s := by
  intro k
  induction k with
  | zero => intro a a' s _; rfl
  | succ k ih =>
    intro a a' s h
    simp only [greedyLoop]
    rw [argmax2_congr n a a' h]
    apply ih
    intro i hi j hj
    simp only [zeroRC]
    rw [h i hi j hj]

theorem greedyLoop_eq_assign' (n : Nat) (target : Nat → ι) (k : Nat) (a : Nat → Nat → α) (s : Nat → Option ι) :
    greedyLoop n target k a s = assign target (greedyPairs n k a) s := by
  induction k generalizing a s with
  | zero => rfl
  | succ k ih => simp only [greedyLoop, greedyPairs, assign, List.foldl_cons]; rw [ih]; rfl

theorem evecSortRun_eq' (n : Nat) (a : Nat → Nat → α) (target : Nat → ι) :
    evecSortRun n a target = (List.range n).map (evecSortMag n a target) := by
  unfold evecSortRun evecSortMag
  rw [greedyLoop_eq_assign']

end loop

section sortsrc
variable {ρ : Type} [Add ρ] [Sub ρ] [Mul ρ] [Div ρ] [Neg ρ] [OfNat ρ 0] [HasSqrt ρ]
  [LT ρ] [DecidableRel (fun a b : ρ => a < b)] [BEq ρ] {ι : Type}

/-- LOOP.  With no threshold, `k` rounds of the extracted loop (pick on `|m|`, the extracted statements in order) never raise and leave
in `sorted_arr` exactly what `k` rounds of the model's `greedyLoop` on the magnitude matrix leave — row `idx[0]` and column `idx[1]` are
the ones zeroed, `sorted_arr[idx[0]] = target_arr[idx[1]]`.  (`|0| = 0` is the only fact about the scalar that is used.) -/
theorem sortLoop_is_greedy (habs0 : Cx.abs (Cx.zero : Cx ρ) = 0) (n : Nat) (target : Nat → ι) :
    ∀ (k : Nat) (st : SortState ρ ι),
      (sortLoop Generated.sortSpec n none target k st).map (·.sorted)
        = some (greedyLoop n target k (fun i j => Cx.abs (st.m i j)) st.sorted) := by
  intro k
  induction k with
  | zero => intro st; rfl
  | succ k ih =>
    intro st
    simp only [sortLoop, Generated.sortSpec, ThrE.eval, List.foldl_cons, List.foldl_nil, LoopStmt.exec, comp,
      greedyLoop]
    have := ih ⟨fun i j => if j = (argmax2 n fun i j => Cx.abs (st.m i j)).2 then Cx.zero
        else if i = (argmax2 n fun i j => Cx.abs (st.m i j)).1 then Cx.zero else st.m i j,
      setAt st.sorted (argmax2 n fun i j => Cx.abs (st.m i j)).1 (target (argmax2 n fun i j => Cx.abs (st.m i j)).2)⟩
    simp only [Generated.sortSpec] at this
    simp only [Nat.one_ne_zero, if_false, if_true] at this ⊢
    rw [this]
    congr 2
    funext i j
    simp only [zeroRC]
    by_cases hj : j = (argmax2 n fun i j => Cx.abs (st.m i j)).2
    · simp [hj, habs0]
    · by_cases hi : i = (argmax2 n fun i j => Cx.abs (st.m i j)).1
      · simp [hi, hj, habs0]
      · simp [hi, hj]

/-- the magnitude matrix inside `evecSort` at an index pair inside the arrays -/
theorem modelMag_apply (T B : List (List (Cx ρ))) (i j : Nat) (hi : i < B.length) (hj : j < T.length) :
    ((((B.toArray.map fun b => T.toArray.map fun t => Cx.abs (overlap b t))[i]?).bind (·[j]?)).getD (0 : ρ))
      = Cx.abs (overlap B[i] T[j]) := by
  simp [hi, hj]

/-- SORT = SOURCE.  `evec_sort` as the source says it now (extracted set display, rejection test, overlap expression
`conj(array(base)) @ array(target).T`, `range(ndim)`, argmax of `abs`, threshold test, zeroing and placement statements), run with the
defaults `filter=None`, `threshold=None`, is the model's `evecSort` — for all items and all vector lists. -/
theorem runSort_is_evecSort (habs0 : Cx.abs (Cx.zero : Cx ρ) = 0) (items : List ι) (T B : List (List (Cx ρ))) :
    runSort Generated.sortSpec none none items T B = evecSort items T B := by
  unfold runSort evecSort
  dsimp only
  rw [sort_dim_test_is_model]
  by_cases hd : dimsOk items.length T B = true
  · have hd' := hd
    simp only [dimsOk, List.all_cons, List.all_map, Bool.and_eq_true, beq_iff_eq, List.all_eq_true, Function.comp] at hd'
    obtain ⟨hT, hB, hv⟩ := hd'
    simp only [hd, Bool.not_true, Bool.false_eq_true, if_false, if_true]
    have hred : (Generated.sortSpec.reducer != "argmax" || Generated.sortSpec.modulus != "abs") = false := by decide
    simp only [hred, Bool.false_eq_true, if_false]
    have hit : Generated.sortSpec.iterations.eval items.length
        (Generated.sortSpec.dimSet.flatMap (SetElem.eval T B)) = items.length := rfl
    rw [hit]
    have hloop := sortLoop_is_greedy habs0 items.length (fun j => items.toArray[j]?) items.length
      ⟨Generated.sortSpec.overlap.eval (fun name =>
          if name == "base_evecs" then matOf B else if name == "target_evecs" then matOf T else fun _ _ => Cx.zero) items.length,
        fun _ => none⟩
    cases hs : sortLoop Generated.sortSpec items.length none (fun j => items.toArray[j]?) items.length
        ⟨Generated.sortSpec.overlap.eval (fun name =>
          if name == "base_evecs" then matOf B else if name == "target_evecs" then matOf T else fun _ _ => Cx.zero) items.length,
        fun _ => none⟩ with
    | none => rw [hs] at hloop; simp at hloop
    | some st =>
      rw [hs] at hloop
      simp only [Option.map_some, Option.some.injEq] at hloop
      simp only [Option.some.injEq]
      rw [evecSortRun_eq', List.map_map]
      apply List.map_congr_left
      intro i hi
      simp only [Function.comp, evecSortMag, hloop]
      congr 1
      refine congrFun (greedyLoop_congr items.length _ items.length _ _ _ ?_) i
      intro r hr c hc
      rw [modelMag_apply T B r c (hB ▸ hr) (hT ▸ hc)]
      congr 1
      exact conj_matmul_tr_eval _ "base_evecs" "target_evecs" B T (by simp) (by simp) items.length r c (hB ▸ hr) (hT ▸ hc)
        (hv _ (by simp)) (hv _ (by simp))
  · simp only [Bool.not_eq_true] at hd
    simp [hd]

end sortsrc

/-! ### evec_disp2eig -/

section dispsrc

theorem repeatEach_three (v : List ℝ) : repeatEach 3 v = repeat3 v := by
  unfold repeatEach repeat3
  congr 1

/-- SHAPE TEST.  The extracted test `a.shape[1] == 3*N` with its meaning on an `M × K` array and `N` masses: true exactly when
`K = 3·N`, whatever `M` is — in particular `3N ∣ M·K` does not help. -/
theorem disp_shape_test_iff (M K N : Nat) : Generated.dispSpec.shapeTest.eval M K N = true ↔ K = 3 * N := by
  simp [Generated.dispSpec, ShapeB.eval, ShapeI.eval]

/-- the function contains no call or attribute that changes the shape of `a` -/
theorem disp_no_reshape :
    ∀ f ∈ ["reshape", "ravel", "flatten", "resize", "squeeze", "atleast_2d", "transpose", "swapaxes", "flat"],
      f ∉ Generated.dispSpec.attributes ∧ ("numpy." ++ f) ∉ Generated.dispSpec.calls := by
  decide

/-- the accepted branch: scale every column by √m, `norm = diag(conj(a) @ a.T)`, divide every row by √norm — on a `· × K` array with
`K = len(repeat(mass, 3))` this is the model's `disp2eigRow` on every row -/
theorem disp_body_is_model (a : List (List (Cx ℝ))) (mass : List ℝ) (K : Nat) (hK : ∀ r ∈ a, r.length = K)
    (hm : (repeat3 mass).length = K) :
    (Generated.dispSpec.body.foldlM (fun (st : DispState ℝ) (s : DispStmt) => s.exec K st)
      (⟨a, [("m", repeatEach Generated.dispSpec.times mass)]⟩ : DispState ℝ)).map (·.a) = some (a.map (disp2eigRow (repeat3 mass))) := by
  have ht : Generated.dispSpec.times = 3 := rfl
  rw [ht, repeatEach_three]
  have e1 : ("m" == "m") = true := by decide
  have e2 : ("norm" == "norm") = true := by decide
  have hall : a.all (fun row => row.length == (repeat3 mass).length) = true := by
    simp only [List.all_eq_true, beq_iff_eq]; intro r hr; rw [hK r hr, hm]
  simp only [Generated.dispSpec, List.foldlM_cons, List.foldlM_nil, DispStmt.exec, lookupVec, List.lookup_cons, List.lookup_nil,
    e1, e2, Option.getD_some, hall, if_true, Option.bind_eq_bind, Option.bind_some, List.length_map, List.length_range, beq_self_eq_true,
    Option.pure_def, Option.map_some, Option.some.injEq]
  apply List.ext_getElem
  · simp
  · intro i h1 h2
    have hi : i < a.length := by simpa using h2
    simp only [List.getElem_zipWith, List.getElem_map, List.getElem_range]
    rw [disp2eigRow_eq]
    unfold scaledRow
    have hlen : (List.zipWith (fun z f => scaleCell ScaleOp.mul f z) a[i] (repeat3 mass)).length = K := by
      rw [List.length_zipWith, hK _ (List.getElem_mem hi), hm, Nat.min_self]
    have hov := conj_matmul_tr_eval
      (fun n => if n == "a" then matOf (a.map fun row => List.zipWith (fun z f => scaleCell ScaleOp.mul f z) row (repeat3 mass))
        else fun _ _ => Cx.zero) "a" "a"
      (a.map fun row => List.zipWith (fun z f => scaleCell ScaleOp.mul f z) row (repeat3 mass))
      (a.map fun row => List.zipWith (fun z f => scaleCell ScaleOp.mul f z) row (repeat3 mass))
      (by simp) (by simp) K i i (by simpa using hi) (by simpa using hi)
      (by simpa using hlen) (by simpa using hlen)
    rw [hov, overlap_self]
    simp only [List.getElem_map, scaleCell, sqrt_real]
    rfl

/-- DISP2EIG = SOURCE.  `evec_disp2eig` as the source says it now (`numpy.repeat(mass, 3)`, the shape test and which branch raises, the
three statements of the accepted branch in order) is the model's `disp2eig`, for every list of rows and every mass list. -/
theorem runDisp_is_disp2eig (a : List (List (Cx ℝ))) (mass : List ℝ) :
    runDisp Generated.dispSpec a mass = disp2eig a mass := by
  unfold runDisp disp2eig
  dsimp only
  cases a with
  | nil => simp
  | cons r0 a' =>
    simp only [List.isEmpty_cons, Bool.false_or, Bool.not_false, Bool.true_and, List.head?_cons, Option.map_some, Option.getD_some,
      List.length_cons]
    have hraise : Generated.dispSpec.raiseWhen = false := rfl
    have hrep : (Generated.dispSpec.repeated == "mass") = true := by decide
    rw [hraise, hrep]
    simp only [if_true]
    by_cases hrect : (r0 :: a').all (fun r => r.length == r0.length) = true
    · simp only [hrect, Bool.not_true, Bool.false_eq_true, if_false]
      have hrect' : ∀ r ∈ r0 :: a', r.length = r0.length := by simpa using hrect
      by_cases hK : r0.length = 3 * mass.length
      · have htest : Generated.dispSpec.shapeTest.eval (a'.length + 1) r0.length mass.length = true :=
          (disp_shape_test_iff _ _ _).2 hK
        have hall : (r0 :: a').all (fun r => r.length == 3 * mass.length) = true := by
          simp only [List.all_eq_true, beq_iff_eq]
          intro r hr; rw [hrect' r hr, hK]
        rw [htest, hall]
        simp only [beq_iff_eq, Bool.true_eq_false, if_false, if_true]
        exact disp_body_is_model (r0 :: a') mass r0.length hrect' (by rw [length_repeat3, hK])
      · have htest : Generated.dispSpec.shapeTest.eval (a'.length + 1) r0.length mass.length = false := by
          rw [Bool.eq_false_iff]; exact fun h => hK ((disp_shape_test_iff _ _ _).1 h)
        have hall : (r0 :: a').all (fun r => r.length == 3 * mass.length) = false := by
          rw [Bool.eq_false_iff]; intro h
          simp only [List.all_eq_true, beq_iff_eq] at h
          exact hK (h r0 (by simp))
        rw [htest, hall]
        simp
    · have hall : (r0 :: a').all (fun r => r.length == 3 * mass.length) = false := by
        rw [Bool.eq_false_iff]; intro h
        apply hrect
        simp only [List.all_eq_true, beq_iff_eq] at h ⊢
        intro r hr; rw [h r hr, h r0 (by simp)]
      simp only [Bool.not_eq_true] at hrect
      rw [hrect, hall]
      simp

/-- REJECTION for every shape: a non-empty rectangular `M × K` array is rejected exactly when `K ≠ 3·len(mass)` -/
theorem runDisp_rejects_iff (a : List (List (Cx ℝ))) (mass : List ℝ) (K : Nat) (hne : a ≠ []) (hK : ∀ r ∈ a, r.length = K) :
    runDisp Generated.dispSpec a mass = none ↔ K ≠ 3 * mass.length := by
  rw [runDisp_is_disp2eig]
  unfold disp2eig
  cases a with
  | nil => exact absurd rfl hne
  | cons r0 a' =>
    simp only [List.isEmpty_cons, Bool.not_false, Bool.true_and]
    by_cases h : K = 3 * mass.length
    · have : (r0 :: a').all (fun r => r.length == 3 * mass.length) = true := by
        simp only [List.all_eq_true, beq_iff_eq]; intro r hr; rw [hK r hr, h]
      simp [this, h]
    · have : (r0 :: a').all (fun r => r.length == 3 * mass.length) = false := by
        rw [Bool.eq_false_iff]; intro hc
        simp only [List.all_eq_true, beq_iff_eq] at hc
        exact h (by rw [← hK r0 (by simp), hc r0 (by simp)])
      simp [this, h]

/-- the diagonal of `conj(a) @ a.T` is real over ℝ: entry (i, i) is `⟨Σ_k |a_ik|², 0⟩` — why the interpreter may keep the real part -/
theorem disp_norm_is_real (a : List (List (Cx ℝ))) (K i : Nat) (hi : i < a.length) (hK : (a[i]).length = K) :
    ∀ name e, DispStmt.normDiag name e ∈ Generated.dispSpec.body →
      e.eval (fun n => if n == "a" then matOf a else fun _ _ => Cx.zero) K i i = ⟨sumNormSq a[i], 0⟩ := by
  intro name e he
  simp only [Generated.dispSpec, List.mem_cons, List.mem_nil_iff, or_false, reduceCtorEq, false_or, DispStmt.normDiag.injEq] at he
  obtain ⟨_, rfl⟩ := he
  rw [conj_matmul_tr_eval _ "a" "a" a a (by simp) (by simp) K i i hi hi hK hK, overlap_self]

theorem abs_zero_real : Cx.abs (Cx.zero : Cx ℝ) = 0 := by
  simp [Cx.abs, Cx.normSq, Cx.zero, sqrt_real]

end dispsrc

/-! ### the two regexes of `evec_load.py`: the backtracking matcher on the extracted patterns IS the model's deterministic scanner -/

namespace Rx

/-- `a` or else `b` -/
def orE {β : Type} (a b : Option β) : Option β :=
  match a with
  | some r => some r
  | none => b

@[simp] theorem orE_none_right {β : Type} (a : Option β) : orE a none = a := by cases a <;> rfl
@[simp] theorem orE_none_left {β : Type} (b : Option β) : orE none b = b := rfl
@[simp] theorem orE_some {β : Type} (r : β) (b : Option β) : orE (some r) b = some r := rfl
theorem orE_self {β : Type} (a : Option β) : orE a a = a := by cases a <;> rfl
theorem orE_orE_same {β : Type} (a b : Option β) : orE (orE a b) b = orE a b := by cases a <;> cases b <;> rfl

theorem starK_cons {β : Type} (p : Char → Bool) (k : List Char → Option β) (c : Char) (t : List Char) :
    starK p k (c :: t) = if p c then orE (starK p k t) (k (c :: t)) else k (c :: t) := by
  simp only [starK, orE]
  split <;> rfl

theorem dropWhile_dropWhile (p : Char → Bool) (l : List Char) : (l.dropWhile p).dropWhile p = l.dropWhile p := by
  induction l with
  | nil => rfl
  | cons c t ih =>
    by_cases h : p c
    · simp [List.dropWhile_cons, h, ih]
    · simp [List.dropWhile_cons, h]

/-- greedy star whose continuation cannot start with a character of the class: no backtracking, all of the run is consumed -/
theorem starK_reject {β : Type} (p : Char → Bool) (k : List Char → Option β)
    (hk : ∀ c t, p c = true → k (c :: t) = none) (cs : List Char) : starK p k cs = k (cs.dropWhile p) := by
  induction cs with
  | nil => rfl
  | cons c t ih =>
    rw [starK_cons]
    by_cases h : p c = true
    · simp [h, ih, hk c t h, List.dropWhile_cons]
    · simp [h, List.dropWhile_cons]

/-- greedy star whose continuation always succeeds: the first alternative tried (all of the run) is the answer -/
theorem starK_total {β : Type} (p : Char → Bool) (k : List Char → Option β)
    (hk : ∀ cs, (k cs).isSome = true) (cs : List Char) : starK p k cs = k (cs.dropWhile p) := by
  induction cs with
  | nil => rfl
  | cons c t ih =>
    rw [starK_cons]
    by_cases h : p c = true
    · obtain ⟨r, hr⟩ := Option.isSome_iff_exists.mp (hk (t.dropWhile p))
      simp [h, ih, hr, List.dropWhile_cons]
    · simp [h, List.dropWhile_cons]

/-- greedy star whose continuation, started inside the run, depends only on where the run ends -/
theorem starK_tail {β : Type} (p : Char → Bool) (k w : List Char → Option β)
    (hk : ∀ c t, p c = true → k (c :: t) = w (t.dropWhile p)) (cs : List Char) :
    starK p k cs = orE (k (cs.dropWhile p)) (if cs.head?.any p then w (cs.dropWhile p) else none) := by
  induction cs with
  | nil => simp [starK]
  | cons c t ih =>
    rw [starK_cons]
    by_cases h : p c = true
    · simp only [h, if_true, ih, hk c t h, List.dropWhile_cons, List.head?_cons, Option.any_some]
      by_cases h2 : t.head?.any p = true
      · simp [h2, orE_orE_same]
      · simp [h2]
    · simp [h, List.dropWhile_cons]

/-- the items cannot match an input whose first character satisfies `P` -/
def Rejects (items : List Item) (P : Char → Prop) : Prop := ∀ st c t, P c → run items st (c :: t) = none

theorem rejects_one (a : Atom) (r : List Item) (P : Char → Prop) (h : ∀ c, P c → a.test c = false) :
    Rejects (.tok a .one :: r) P := by
  intro st c t hc; simp [run, tokK, h c hc]

theorem rejects_plus (a : Atom) (r : List Item) (P : Char → Prop) (h : ∀ c, P c → a.test c = false) :
    Rejects (.tok a .plus :: r) P := by
  intro st c t hc; simp [run, tokK, h c hc]

theorem rejects_star (a : Atom) (r : List Item) (P : Char → Prop) (h : ∀ c, P c → a.test c = false) (hr : Rejects r P) :
    Rejects (.tok a .star :: r) P := by
  intro st c t hc; simp [run, tokK, starK_cons, h c hc, hr st c t hc]

theorem rejects_opt (a : Atom) (r : List Item) (P : Char → Prop) (h : ∀ c, P c → a.test c = false) (hr : Rejects r P) :
    Rejects (.tok a .opt :: r) P := by
  intro st c t hc; simp [run, tokK, h c hc, hr st c t hc]

theorem rejects_opn (r : List Item) (P : Char → Prop) (hr : Rejects r P) : Rejects (.opn :: r) P := by
  intro st c t hc; simp [run, hr _ c t hc]

theorem rejects_cls (r : List Item) (P : Char → Prop) (hr : Rejects r P) : Rejects (.cls :: r) P := by
  intro st c t hc; simp [run, hr _ c t hc]

/-! #### single items against the model's scanner primitives -/

theorem run_lit (x : Char) (r : List Item) (st : St) (cs : List Char) :
    run (.tok (.chr x) .one :: r) st cs = (lit [x] cs).bind (run r st) := by
  cases cs with
  | nil => simp [run, tokK, lit]
  | cons c t =>
    by_cases h : c = x
    · subst h; simp [run, tokK, lit, Atom.test]
    · have h' : ¬ x = c := fun e => h e.symm
      simp [run, tokK, lit, Atom.test, h, h']

theorem run_space_star (r : List Item) (st : St) (cs : List Char) (hr : Rejects r (fun c => isSpace c = true)) :
    run (.tok .space .star :: r) st cs = run r st (skipWs cs) := by
  simp only [run, tokK, Atom.test, skipWs]
  exact starK_reject _ _ (fun c t hc => hr st c t hc) cs

theorem run_space_plus (r : List Item) (st : St) (cs : List Char) (hr : Rejects r (fun c => isSpace c = true)) :
    run (.tok .space .plus :: r) st cs = (ws1 cs).bind (run r st) := by
  cases cs with
  | nil => simp [run, tokK, ws1]
  | cons c t =>
    by_cases h : isSpace c = true
    · simp only [run, tokK, Atom.test, h, if_true, ws1, skipWs, Option.bind_some]
      exact starK_reject _ _ (fun c t hc => hr st c t hc) t
    · simp [run, tokK, Atom.test, ws1, h]

/-! #### the groups -/

theorem take_of_split (txt rest : List Char) : (txt ++ rest).take ((txt ++ rest).length - rest.length) = txt := by
  simp

theorem test_digit : Atom.test .digit = Char.isDigit := by funext x; rfl
theorem test_space : Atom.test .space = isSpace := by funext x; rfl
theorem test_chr (c : Char) : Atom.test (.chr c) = fun x => x == c := by funext x; rfl

theorem run_opn (r : List Item) (caps : List (List Char)) (mk cs : List Char) :
    run (.opn :: r) ⟨caps, mk⟩ cs = run r ⟨caps, cs⟩ cs := rfl
theorem run_tok' (a : Atom) (q : Quant) (r : List Item) (st : St) : run (.tok a q :: r) st = tokK a q (run r st) := by
  funext cs; rfl
theorem run_cls (r : List Item) (st : St) (cs : List Char) :
    run (.cls :: r) st cs = run r ⟨(st.mark.take (st.mark.length - cs.length)) :: st.caps, []⟩ cs := rfl
theorem run_tok (a : Atom) (q : Quant) (r : List Item) (st : St) (cs : List Char) :
    run (.tok a q :: r) st cs = tokK a q (run r st) cs := rfl

theorem natTok_split (cs txt rest : List Char) (h : natTok cs = some (txt, rest)) : cs = txt ++ rest := by
  simp only [natTok] at h
  split at h
  · cases h
  · simp only [Option.some.injEq, Prod.mk.injEq] at h
    rw [← h.1, ← h.2, List.takeWhile_append_dropWhile]

/-- `(\d+)` followed by something that cannot start with a digit: the model's `natTok` -/
theorem run_nat_group (r : List Item) (caps' : List (List Char)) (mk cs : List Char)
    (hr : Rejects r (fun c => c.isDigit = true)) :
    run (.opn :: .tok .digit .plus :: .cls :: r) ⟨caps', mk⟩ cs
      = (natTok cs).bind fun p => run r ⟨p.1 :: caps', []⟩ p.2 := by
  have hk : ∀ c t, c.isDigit = true → run (.cls :: r) ⟨caps', cs⟩ (c :: t) = none :=
    fun c t hc => rejects_cls r _ hr _ c t hc
  rw [run_opn, run_tok]
  cases cs with
  | nil => simp [tokK, natTok]
  | cons c t =>
    by_cases h : c.isDigit = true
    · have hnt : natTok (c :: t) = some ((c :: t).takeWhile Char.isDigit, (c :: t).dropWhile Char.isDigit) := by
        simp [natTok, List.takeWhile_cons, h]
      have hs := natTok_split _ _ _ hnt
      simp only [tokK, Atom.test, h, if_true]
      rw [test_digit, starK_reject _ _ hk t, run_cls, hnt]
      simp only [Option.bind_some]
      have hd : (c :: t).dropWhile Char.isDigit = t.dropWhile Char.isDigit := by simp [List.dropWhile_cons, h]
      rw [← hd]
      congr 3
      have := take_of_split ((c :: t).takeWhile Char.isDigit) ((c :: t).dropWhile Char.isDigit)
      rw [← hs] at this
      exact this
    · simp [tokK, Atom.test, natTok, List.takeWhile_cons, h]


/-- `numTok` without the sign: digits, optionally a dot and more digits; (consumed text after `sign`, rest) -/
def numBody (sign r : List Char) : Option (List Char × List Char) :=
  if (r.takeWhile Char.isDigit).isEmpty then none else
  match r.dropWhile Char.isDigit with
  | '.' :: r' => some (sign ++ r.takeWhile Char.isDigit ++ ['.'] ++ r'.takeWhile Char.isDigit, r'.dropWhile Char.isDigit)
  | u => some (sign ++ r.takeWhile Char.isDigit, u)

theorem numTok_minus (t : List Char) : numTok ('-' :: t) = numBody ['-'] t := by
  simp only [numTok, numBody]
  split
  · rfl
  · split <;> simp_all

theorem numTok_other (cs : List Char) (h : ∀ t, cs ≠ '-' :: t) : numTok cs = numBody [] cs := by
  cases cs with
  | nil => rfl
  | cons c t =>
    have hc : c ≠ '-' := fun e => h t (by rw [e])
    simp only [numTok, numBody]
    split
    · rename_i heq; simp_all
    · rename_i heq
      split
      · simp_all
      · split <;> simp_all

theorem numBody_split (sign r txt rest : List Char) (h : numBody sign r = some (txt, rest)) : sign ++ r = txt ++ rest := by
  unfold numBody at h
  split at h
  · cases h
  · split at h
    · rename_i r' hr'
      simp only [Option.some.injEq, Prod.mk.injEq] at h
      rw [← h.1, ← h.2]
      have h1 := List.takeWhile_append_dropWhile (p := Char.isDigit) (l := r)
      have h2 := List.takeWhile_append_dropWhile (p := Char.isDigit) (l := r')
      rw [hr'] at h1
      calc sign ++ r = sign ++ (List.takeWhile Char.isDigit r ++ '.' :: (List.takeWhile Char.isDigit r' ++ List.dropWhile Char.isDigit r')) := by
            rw [h2, h1]
        _ = _ := by simp
    · simp only [Option.some.injEq, Prod.mk.injEq] at h
      rw [← h.1, ← h.2, List.append_assoc, List.takeWhile_append_dropWhile]

theorem numTok_split (cs txt rest : List Char) (h : numTok cs = some (txt, rest)) : cs = txt ++ rest := by
  by_cases hm : ∃ t, cs = '-' :: t
  · obtain ⟨t, rfl⟩ := hm
    rw [numTok_minus] at h
    exact numBody_split _ _ _ _ h
  · have hm' : ∀ t, cs ≠ '-' :: t := fun t e => hm ⟨t, e⟩
    rw [numTok_other _ hm'] at h
    exact numBody_split [] _ _ _ h

theorem opt_minus_digits {β : Type} (k2 : List Char → Option β) (t : List Char) :
    tokK (.chr '-') .opt (tokK .digit .plus k2) ('-' :: t) = tokK .digit .plus k2 t := by
  have hminus : Char.isDigit '-' = false := by decide
  have e : tokK (.chr '-') .opt (tokK .digit .plus k2) ('-' :: t)
      = orE (tokK .digit .plus k2 t) (tokK .digit .plus k2 ('-' :: t)) := rfl
  rw [e]
  have : tokK .digit .plus k2 ('-' :: t) = none := by simp [tokK, Atom.test, hminus]
  rw [this, orE_none_right]

theorem opt_minus_other {β : Type} (k2 : List Char → Option β) (x : List Char) (h : ∀ t, x ≠ '-' :: t) :
    tokK (.chr '-') .opt (tokK .digit .plus k2) x = tokK .digit .plus k2 x := by
  cases x with
  | nil => simp [tokK]
  | cons c t =>
    have hc : c ≠ '-' := fun e => h t (by rw [e])
    simp [tokK, Atom.test, hc]

/-- the rest after the number does not depend on the sign text -/
theorem numBody_rest (sign r : List Char) : (numBody sign r).map Prod.snd = (numBody [] r).map Prod.snd := by
  unfold numBody
  split
  · rfl
  · split <;> rfl

theorem dropWhile_head_not (p : Char → Bool) (l : List Char) (c : Char) (t : List Char) (e : l.dropWhile p = c :: t) :
    p c = false := by
  induction l with
  | nil => simp at e
  | cons d l ih =>
    by_cases h : p d = true
    · rw [List.dropWhile_cons, if_pos h] at e; exact ih e
    · rw [List.dropWhile_cons, if_neg h] at e
      simp only [List.cons.injEq] at e
      rw [← e.1]; simpa using h

/-- `\d+\.?\d*` followed by a continuation that EITHER cannot start with a digit or a dot OR always succeeds: Python's backtracking
order (all digits, the dot if there is one, all digits; then shorter alternatives) finds exactly what the deterministic scanner finds. -/
theorem num_core {β : Type} (K' : List Char → Option β)
    (H : (∀ c t, (c.isDigit = true ∨ c = '.') → K' (c :: t) = none) ∨ (∀ cs, (K' cs).isSome = true)) (x : List Char) :
    tokK .digit .plus (tokK (.chr '.') .opt (tokK .digit .star K')) x = (numBody [] x).bind fun p => K' p.2 := by
  have hdot : Char.isDigit '.' = false := by decide
  -- \d* K'
  have h3 : ∀ y, tokK .digit .star K' y = K' (y.dropWhile Char.isDigit) := by
    intro y
    simp only [tokK, test_digit]
    rcases H with H | H
    · exact starK_reject _ _ (fun c t hc => H c t (Or.inl hc)) y
    · exact starK_total _ _ H y
  -- \.? \d* K'
  have h2dot : ∀ t, tokK (.chr '.') .opt (tokK .digit .star K') ('.' :: t) = tokK .digit .star K' t := by
    intro t
    have e : tokK (.chr '.') .opt (tokK .digit .star K') ('.' :: t)
        = orE (tokK .digit .star K' t) (tokK .digit .star K' ('.' :: t)) := by
      rfl
    rw [e]
    rcases H with H | H
    · rw [h3 ('.' :: t)]
      simp [List.dropWhile_cons, hdot, H '.' t (Or.inr rfl)]
    · rw [h3 t]
      obtain ⟨r, hr⟩ := Option.isSome_iff_exists.mp (H (t.dropWhile Char.isDigit))
      simp [hr]
  have h2other : ∀ c t, c ≠ '.' → tokK (.chr '.') .opt (tokK .digit .star K') (c :: t) = tokK .digit .star K' (c :: t) := by
    intro c t hc
    simp [tokK, Atom.test, hc]
  have h2nil : tokK (.chr '.') .opt (tokK .digit .star K') [] = tokK .digit .star K' [] := by simp [tokK]
  -- value of \.?\d*K' at a position where no digit follows
  have h2u : ∀ u, (∀ c t, u = c :: t → c.isDigit = false) →
      tokK (.chr '.') .opt (tokK .digit .star K') u =
        match u with
        | '.' :: r' => K' (r'.dropWhile Char.isDigit)
        | u => K' u := by
    intro u hu
    split
    · rw [h2dot, h3]
    · rename_i hnd
      cases u with
      | nil => rw [h2nil, h3]; rfl
      | cons c t =>
        have hc : c ≠ '.' := fun e => hnd t (by rw [e])
        rw [h2other c t hc, h3]
        simp [List.dropWhile_cons, hu c t rfl]
  -- \d+ …
  have hstar : ∀ t, starK Char.isDigit (tokK (.chr '.') .opt (tokK .digit .star K')) t
      = tokK (.chr '.') .opt (tokK .digit .star K') (t.dropWhile Char.isDigit) := by
    intro t
    rcases H with H | H
    · have hk : ∀ c t', c.isDigit = true →
          tokK (.chr '.') .opt (tokK .digit .star K') (c :: t') = K' (t'.dropWhile Char.isDigit) := by
        intro c t' hc
        have hne : c ≠ '.' := fun e => by rw [e, hdot] at hc; cases hc
        rw [h2other c t' hne, h3]
        simp [List.dropWhile_cons, hc]
      rw [starK_tail _ _ K' hk t]
      have hu : ∀ c t', t.dropWhile Char.isDigit = c :: t' → c.isDigit = false := by
        intro c t' e
        exact dropWhile_head_not _ _ _ _ e
      rw [h2u _ hu]
      generalize List.dropWhile Char.isDigit t = u at hu
      by_cases hd : ∃ r', u = '.' :: r'
      · obtain ⟨r', rfl⟩ := hd
        simp [H '.' r' (Or.inr rfl)]
      · split
        · rename_i r' ; exact absurd ⟨r', rfl⟩ hd
        · split <;> simp [orE_self]
    · apply starK_total
      intro cs
      cases cs with
      | nil => rw [h2nil, h3]; exact H _
      | cons c t =>
        by_cases hc : c = '.'
        · subst hc; rw [h2dot, h3]; exact H _
        · rw [h2other c t hc, h3]; exact H _
  cases x with
  | nil => simp [tokK, numBody]
  | cons c t =>
    by_cases hc : c.isDigit = true
    · have hu : ∀ c' t', t.dropWhile Char.isDigit = c' :: t' → c'.isDigit = false := by
        intro c' t' e
        exact dropWhile_head_not _ _ _ _ e
      have e1 : tokK .digit .plus (tokK (.chr '.') .opt (tokK .digit .star K')) (c :: t)
          = starK Char.isDigit (tokK (.chr '.') .opt (tokK .digit .star K')) t := by
        simp [tokK, Atom.test, hc, test_digit]
      rw [e1, hstar, h2u _ hu]
      simp only [numBody, List.takeWhile_cons, hc, if_true, List.isEmpty_cons, Bool.false_eq_true, if_false, List.dropWhile_cons]
      split <;> simp_all
    · simp [tokK, Atom.test, numBody, List.takeWhile_cons, hc]

/-- `(-?\d+\.?\d*)` followed by items that cannot start with a digit or a dot, or by the end of the pattern: the model's `numTok` -/
theorem run_num_group (r : List Item) (caps' : List (List Char)) (mk cs : List Char)
    (hr : Rejects r (fun c => c.isDigit = true ∨ c = '.') ∨ r = []) :
    run (.opn :: .tok (.chr '-') .opt :: .tok .digit .plus :: .tok (.chr '.') .opt :: .tok .digit .star :: .cls :: r) ⟨caps', mk⟩ cs
      = (numTok cs).bind fun p => run r ⟨p.1 :: caps', []⟩ p.2 := by
  have H : (∀ c t, (c.isDigit = true ∨ c = '.') → run (.cls :: r) ⟨caps', cs⟩ (c :: t) = none) ∨
      (∀ x, (run (.cls :: r) ⟨caps', cs⟩ x).isSome = true) := by
    rcases hr with hr | hr
    · exact Or.inl fun c t hc => rejects_cls r _ hr _ c t hc
    · right; intro x; subst hr; simp [run]
  rw [run_opn, run_tok', run_tok', run_tok', run_tok']
  have hcore := num_core (run (.cls :: r) ⟨caps', cs⟩) H
  have fin : ∀ sign x, sign ++ x = cs →
      ((numBody [] x).bind fun p => run (.cls :: r) ⟨caps', cs⟩ p.2) = (numBody sign x).bind fun p => run r ⟨p.1 :: caps', []⟩ p.2 := by
    intro sign x hsx
    have hrest := numBody_rest sign x
    cases h1 : numBody sign x with
    | none =>
      rw [h1] at hrest
      cases h2 : numBody [] x with
      | none => rfl
      | some q => rw [h2] at hrest; simp at hrest
    | some p =>
      rw [h1] at hrest
      cases h2 : numBody [] x with
      | none => rw [h2] at hrest; simp at hrest
      | some q =>
        rw [h2] at hrest
        simp only [Option.map_some, Option.some.injEq] at hrest
        simp only [Option.bind_some, run_cls]
        have hsp := numBody_split sign x p.1 p.2 h1
        rw [hsx] at hsp
        rw [← hrest]
        congr 3
        rw [hsp]; exact take_of_split _ _
  by_cases hm : ∃ t, cs = '-' :: t
  · obtain ⟨t, rfl⟩ := hm
    rw [opt_minus_digits, numTok_minus, hcore t]
    exact fin ['-'] t rfl
  · have hm' : ∀ t, cs ≠ '-' :: t := fun t e => hm ⟨t, e⟩
    rw [opt_minus_other _ _ hm', numTok_other _ hm', hcore cs]
    exact fin [] cs rfl


/-! #### character facts -/

theorem isSpace_cases (c : Char) (h : isSpace c = true) :
    ((((c = ' ' ∨ c = '\t') ∨ c = '\n') ∨ c = '\r') ∨ c = '\x0b') ∨ c = '\x0c' := by
  simpa [isSpace] using h

theorem space_not_digit (c : Char) (h : isSpace c = true) : c.isDigit = false := by
  rcases isSpace_cases c h with ((((rfl | rfl) | rfl) | rfl) | rfl) | rfl <;> decide

theorem space_ne (x : Char) (hx : isSpace x = false) (c : Char) (h : isSpace c = true) : (c == x) = false := by
  rw [beq_eq_false_iff_ne]; intro e; rw [e, hx] at h; cases h

theorem digit_not_space (c : Char) (h : c.isDigit = true) : isSpace c = false := by
  cases hs : isSpace c with
  | false => rfl
  | true => rw [space_not_digit c hs] at h; cases h

theorem digit_ne (x : Char) (hx : x.isDigit = false) (c : Char) (h : c.isDigit = true) : (c == x) = false := by
  rw [beq_eq_false_iff_ne]; intro e; rw [e, hx] at h; cases h

theorem digdot_not_space (c : Char) (h : c.isDigit = true ∨ c = '.') : isSpace c = false := by
  rcases h with h | rfl
  · exact digit_not_space c h
  · decide

theorem digdot_ne (x : Char) (hx : x.isDigit = false) (hx' : x ≠ '.') (c : Char) (h : c.isDigit = true ∨ c = '.') :
    (c == x) = false := by
  rcases h with h | rfl
  · exact digit_ne x hx c h
  · rw [beq_eq_false_iff_ne]; exact fun e => hx' e.symm

/-- the number group cannot start with a blank -/
theorem rejects_num_space (r : List Item) :
    Rejects (.opn :: .tok (.chr '-') .opt :: .tok .digit .plus :: r) (fun c => isSpace c = true) :=
  rejects_opn _ _ (rejects_opt _ _ _ (fun c hc => space_ne '-' (by decide) c hc)
    (rejects_plus _ _ _ (fun c hc => space_not_digit c hc)))

/-- `\s* x …` with `x` neither blank, digit nor dot cannot start with a digit or a dot -/
theorem rejects_star_lit_digdot (x : Char) (hx : x.isDigit = false) (hx' : x ≠ '.') (r : List Item) :
    Rejects (.tok .space .star :: .tok (.chr x) .one :: r) (fun c => c.isDigit = true ∨ c = '.') :=
  rejects_star _ _ _ (fun c hc => digdot_not_space c hc) (rejects_one _ _ _ (fun c hc => digdot_ne x hx hx' c hc))

/-- Q_COORDS_REGEX.  The backtracking matcher on the extracted pattern, anchored at the head of any string, finds the groups the model's
scanner `matchQAt` finds (and fails exactly when it fails). -/
theorem run_qCoords (cs : List Char) :
    run Generated.qCoordsRegex ⟨[], []⟩ cs = (matchQAt cs).map fun p => [p.1, p.2.1, p.2.2] := by
  have g3 : ∀ caps mk x, run [.opn, .tok (.chr '-') .opt, .tok .digit .plus, .tok (.chr '.') .opt, .tok .digit .star, .cls] ⟨caps, mk⟩ x
      = (numTok x).bind fun p => run [] ⟨p.1 :: caps, []⟩ p.2 :=
    fun caps mk x => run_num_group [] caps mk x (Or.inr rfl)
  have s2 : ∀ st x, run [.tok .space .plus, .opn, .tok (.chr '-') .opt, .tok .digit .plus, .tok (.chr '.') .opt, .tok .digit .star, .cls] st x
      = (ws1 x).bind (run [.opn, .tok (.chr '-') .opt, .tok .digit .plus, .tok (.chr '.') .opt, .tok .digit .star, .cls] st) :=
    fun st x => run_space_plus _ st x (rejects_num_space _)
  have g2 : ∀ caps mk x, run [.opn, .tok (.chr '-') .opt, .tok .digit .plus, .tok (.chr '.') .opt, .tok .digit .star, .cls,
        .tok .space .plus, .opn, .tok (.chr '-') .opt, .tok .digit .plus, .tok (.chr '.') .opt, .tok .digit .star, .cls] ⟨caps, mk⟩ x
      = (numTok x).bind fun p => run [.tok .space .plus, .opn, .tok (.chr '-') .opt, .tok .digit .plus, .tok (.chr '.') .opt,
          .tok .digit .star, .cls] ⟨p.1 :: caps, []⟩ p.2 :=
    fun caps mk x => run_num_group _ caps mk x (Or.inl (rejects_plus _ _ _ (fun c hc => digdot_not_space c hc)))
  have s1 : ∀ st x, run [.tok .space .plus, .opn, .tok (.chr '-') .opt, .tok .digit .plus, .tok (.chr '.') .opt, .tok .digit .star, .cls,
        .tok .space .plus, .opn, .tok (.chr '-') .opt, .tok .digit .plus, .tok (.chr '.') .opt, .tok .digit .star, .cls] st x
      = (ws1 x).bind (run [.opn, .tok (.chr '-') .opt, .tok .digit .plus, .tok (.chr '.') .opt, .tok .digit .star, .cls,
        .tok .space .plus, .opn, .tok (.chr '-') .opt, .tok .digit .plus, .tok (.chr '.') .opt, .tok .digit .star, .cls] st) :=
    fun st x => run_space_plus _ st x (rejects_num_space _)
  have g1 : ∀ caps mk x, run [.opn, .tok (.chr '-') .opt, .tok .digit .plus, .tok (.chr '.') .opt, .tok .digit .star, .cls,
        .tok .space .plus, .opn, .tok (.chr '-') .opt, .tok .digit .plus, .tok (.chr '.') .opt, .tok .digit .star, .cls,
        .tok .space .plus, .opn, .tok (.chr '-') .opt, .tok .digit .plus, .tok (.chr '.') .opt, .tok .digit .star, .cls] ⟨caps, mk⟩ x
      = (numTok x).bind fun p => run [.tok .space .plus, .opn, .tok (.chr '-') .opt, .tok .digit .plus, .tok (.chr '.') .opt,
          .tok .digit .star, .cls, .tok .space .plus, .opn, .tok (.chr '-') .opt, .tok .digit .plus, .tok (.chr '.') .opt,
          .tok .digit .star, .cls] ⟨p.1 :: caps, []⟩ p.2 :=
    fun caps mk x => run_num_group _ caps mk x (Or.inl (rejects_plus _ _ _ (fun c hc => digdot_not_space c hc)))
  simp only [Generated.qCoordsRegex]
  rw [run_lit, matchQAt]
  cases h1 : lit ['q'] cs with
  | none => rfl
  | some r1 =>
    simp only [Option.bind_some, Option.bind_eq_bind]
    rw [run_space_star _ _ _ (rejects_one (.chr '=') _ _ (fun c hc => space_ne '=' (by decide) c hc)), run_lit]
    cases h2 : lit ['='] (skipWs r1) with
    | none => rfl
    | some r2 =>
      simp only [Option.bind_some]
      rw [run_space_star _ _ _ (rejects_num_space _), g1]
      cases h3 : numTok (skipWs r2) with
      | none => rfl
      | some p1 =>
        obtain ⟨a, r3⟩ := p1
        simp only [Option.bind_some, s1]
        cases h4 : ws1 r3 with
        | none => rfl
        | some r4 =>
          simp only [Option.bind_some, g2]
          cases h5 : numTok r4 with
          | none => rfl
          | some p2 =>
            obtain ⟨b, r5⟩ := p2
            simp only [Option.bind_some, s2]
            cases h6 : ws1 r5 with
            | none => rfl
            | some r6 =>
              simp only [Option.bind_some, g3]
              cases h7 : numTok r6 with
              | none => rfl
              | some p3 =>
                obtain ⟨c, r7⟩ := p3
                rfl


theorem lit_cons (c : Char) (p cs : List Char) : lit (c :: p) cs = (lit [c] cs).bind (lit p) := by
  cases cs with
  | nil => simp [lit]
  | cons d t =>
    by_cases h : c = d
    · subst h; simp [lit, List.isPrefixOf]
    · simp [lit, List.isPrefixOf, h]

/-- a run of literal characters is the model's `lit` -/
theorem run_lits (p : List Char) (r : List Item) (st : St) (cs : List Char) :
    run (p.foldr (fun c acc => Item.tok (.chr c) .one :: acc) r) st cs = (lit p cs).bind (run r st) := by
  induction p generalizing cs with
  | nil => simp [lit]
  | cons c p ih =>
    simp only [List.foldr_cons]
    rw [run_lit, lit_cons c p cs, Option.bind_assoc]
    congr 1
    funext x
    exact ih x

theorem run_lit4 (a b c d : Char) (r : List Item) (st : St) (cs : List Char) :
    run (.tok (.chr a) .one :: .tok (.chr b) .one :: .tok (.chr c) .one :: .tok (.chr d) .one :: r) st cs
      = (lit [a, b, c, d] cs).bind (run r st) := run_lits [a, b, c, d] r st cs

theorem run_lit5 (a b c d e : Char) (r : List Item) (st : St) (cs : List Char) :
    run (.tok (.chr a) .one :: .tok (.chr b) .one :: .tok (.chr c) .one :: .tok (.chr d) .one :: .tok (.chr e) .one :: r) st cs
      = (lit [a, b, c, d, e] cs).bind (run r st) := run_lits [a, b, c, d, e] r st cs

theorem run_lit6 (a b c d e f : Char) (r : List Item) (st : St) (cs : List Char) :
    run (.tok (.chr a) .one :: .tok (.chr b) .one :: .tok (.chr c) .one :: .tok (.chr d) .one :: .tok (.chr e) .one ::
        .tok (.chr f) .one :: r) st cs
      = (lit [a, b, c, d, e, f] cs).bind (run r st) := run_lits [a, b, c, d, e, f] r st cs

/-- MODE_INDEX_REGEX.  The backtracking matcher on the extracted pattern finds the groups the model's scanner `matchFreqAt` finds. -/
theorem run_modeIndex (cs : List Char) :
    run Generated.modeIndexRegex ⟨[], []⟩ cs = (matchFreqAt cs).map fun p => [p.1, p.2.1, p.2.2] := by
  have hfreq : "freq".toList = ['f', 'r', 'e', 'q'] := by decide
  have hthz : "[THz]".toList = ['[', 'T', 'H', 'z', ']'] := by decide
  have hcm : "[cm-1]".toList = ['[', 'c', 'm', '-', '1', ']'] := by decide
  have sp_lit : ∀ (x : Char) (hx : isSpace x = false) (r : List Item) (st : St) (y : List Char),
      run (.tok .space .star :: .tok (.chr x) .one :: r) st y = (lit [x] (skipWs y)).bind (run r st) := by
    intro x hx r st y
    rw [run_space_star _ _ _ (rejects_one (.chr x) _ _ (fun c hc => space_ne x hx c hc)), run_lit]
  simp only [Generated.modeIndexRegex]
  rw [matchFreqAt, hfreq, hthz, hcm, run_lit4]
  cases h1 : lit ['f', 'r', 'e', 'q'] cs with
  | none => rfl
  | some r1 =>
    simp only [Option.bind_some, Option.bind_eq_bind]
    rw [sp_lit '(' (by decide)]
    cases h2 : lit ['('] (skipWs r1) with
    | none => rfl
    | some r2 =>
      simp only [Option.bind_some]
      rw [run_space_star _ _ _ (rejects_opn _ _ (rejects_plus .digit _ _ (fun c hc => space_not_digit c hc))),
        run_nat_group _ _ _ _ (rejects_one (.chr ')') _ _ (fun c hc => digit_ne ')' (by decide) c hc))]
      cases h3 : natTok (skipWs r2) with
      | none => rfl
      | some p0 =>
        obtain ⟨i, r3⟩ := p0
        simp only [Option.bind_some]
        rw [run_lit]
        cases h4 : lit [')'] r3 with
        | none => rfl
        | some r4 =>
          simp only [Option.bind_some]
          rw [sp_lit '=' (by decide)]
          cases h5 : lit ['='] (skipWs r4) with
          | none => rfl
          | some r5 =>
            simp only [Option.bind_some]
            rw [run_space_star _ _ _ (rejects_num_space _),
              run_num_group _ _ _ _ (Or.inl (rejects_star_lit_digdot '[' (by decide) (by decide) _))]
            cases h6 : numTok (skipWs r5) with
            | none => rfl
            | some p1 =>
              obtain ⟨a, r6⟩ := p1
              simp only [Option.bind_some]
              rw [run_space_star _ _ _ (rejects_one (.chr '[') _ _ (fun c hc => space_ne '[' (by decide) c hc)), run_lit5]
              cases h7 : lit ['[', 'T', 'H', 'z', ']'] (skipWs r6) with
              | none => rfl
              | some r7 =>
                simp only [Option.bind_some]
                rw [sp_lit '=' (by decide)]
                cases h8 : lit ['='] (skipWs r7) with
                | none => rfl
                | some r8 =>
                  simp only [Option.bind_some]
                  rw [run_space_star _ _ _ (rejects_num_space _),
                    run_num_group _ _ _ _ (Or.inl (rejects_star_lit_digdot '[' (by decide) (by decide) _))]
                  cases h9 : numTok (skipWs r8) with
                  | none => rfl
                  | some p2 =>
                    obtain ⟨b, r9⟩ := p2
                    simp only [Option.bind_some]
                    rw [run_space_star _ _ _ (rejects_one (.chr '[') _ _ (fun c hc => space_ne '[' (by decide) c hc)), run_lit6]
                    cases h10 : lit ['[', 'c', 'm', '-', '1', ']'] (skipWs r9) with
                    | none => rfl
                    | some r10 => rfl

/-- `re.search`: at the leftmost start position -/
theorem search_qCoords (l : List Char) :
    search Generated.qCoordsRegex l = (Evec.search matchQAt l).map fun p => [p.1, p.2.1, p.2.2] := by
  unfold search
  induction l with
  | nil => simp only [Evec.search]; exact run_qCoords []
  | cons c t ih =>
    simp only [Evec.search]
    rw [run_qCoords (c :: t)]
    cases matchQAt (c :: t) with
    | none => simpa using ih
    | some p => rfl

theorem search_modeIndex (l : List Char) :
    search Generated.modeIndexRegex l = (Evec.search matchFreqAt l).map fun p => [p.1, p.2.1, p.2.2] := by
  unfold search
  induction l with
  | nil => simp only [Evec.search]; exact run_modeIndex []
  | cons c t ih =>
    simp only [Evec.search]
    rw [run_modeIndex (c :: t)]
    cases matchFreqAt (c :: t) with
    | none => simpa using ih
    | some p => rfl

end Rx

/-! ### evec_load -/

section loadsrc
variable {Num : Type}

/-- the three line readers built from the extracted regexes, converters and column slices are the model's `concrete` readers -/
theorem specReaders_is_concrete (pf : List Char → Option Num) : specReaders Generated.loadSpec pf = concrete pf := by
  have hq : (specReaders Generated.loadSpec pf).readQ = (concrete pf).readQ := by
    funext l
    simp only [specReaders, concrete, Generated.loadSpec, Rx.search_qCoords]
    cases Evec.search matchQAt l with
    | none => rfl
    | some p => obtain ⟨a, b, c⟩ := p; rfl
  have hf : (specReaders Generated.loadSpec pf).readFreq = (concrete pf).readFreq := by
    funext l
    simp only [specReaders, concrete, Generated.loadSpec, Rx.search_modeIndex]
    cases Evec.search matchFreqAt l with
    | none => rfl
    | some p => obtain ⟨i, a, b⟩ := p; rfl
  have hv : (specReaders Generated.loadSpec pf).readVec = (concrete pf).readVec := by
    funext raw
    simp only [specReaders, concrete, Generated.loadSpec, readVecLine, if_true, List.mapM_cons, List.mapM_nil]
    cases pf (slice (strip raw) 2 12) <;> cases pf (slice (strip raw) 13 23) <;> cases pf (slice (strip raw) 26 36) <;>
      cases pf (slice (strip raw) 37 47) <;> cases pf (slice (strip raw) 50 60) <;> cases pf (slice (strip raw) 61 71) <;> rfl
  cases h1 : specReaders Generated.loadSpec pf
  cases h2 : concrete pf
  rw [h1] at hq hf hv
  rw [h2] at hq hf hv
  simp only at hq hf hv
  rw [hq, hf, hv]

theorem readModesS_is_model (R : LineReaders Num) (np : Nat) :
    ∀ (k : Nat) (ls : List (List Char)), readModesS Generated.loadSpec R np k ls = readModes R np k ls := by
  intro k
  induction k with
  | zero => intro ls; rfl
  | succ k ih =>
    intro ls
    cases ls with
    | nil => rfl
    | cons l ls =>
      simp only [readModesS, readModes, Generated.loadSpec, if_true]
      cases R.readFreq (strip l) with
      | none => rfl
      | some h =>
        simp only [Option.bind_some, Option.bind_eq_bind]
        cases readVecs R (np / 3) ls with
        | none => rfl
        | some p =>
          obtain ⟨v, r⟩ := p
          simp only [Option.bind_some]
          have := ih r
          simp only [Generated.loadSpec] at this
          rw [this]

/-- STEPS.  `nq` rounds of the extracted step list (two lines skipped, the q line, one skipped, `np` modes, one skipped) are the model's
`readQPoints`, for any line readers and any list of lines -/
theorem readQPointsS_is_model (R : LineReaders Num) (np : Nat) :
    ∀ (k : Nat) (ls : List (List Char)), readQPointsS Generated.loadSpec R np k ls = readQPoints R np k ls := by
  intro k
  induction k with
  | zero => intro ls; rfl
  | succ k ih =>
    intro ls
    have hm := readModesS_is_model R np np
    match ls with
    | [] => simp [readQPointsS, readQPoints, runQSteps, Generated.loadSpec]
    | [_] => simp [readQPointsS, readQPoints, runQSteps, Generated.loadSpec]
    | [_, _] => simp [readQPointsS, readQPoints, runQSteps, Generated.loadSpec]
    | [_, _, ql] =>
      simp only [readQPointsS, readQPoints, runQSteps, Generated.loadSpec, List.length_cons, List.length_nil, List.drop_succ_cons,
        List.drop_zero, if_true]
      cases R.readQ (strip ql) <;> simp
    | l1 :: l2 :: ql :: l4 :: rest =>
      simp only [Generated.loadSpec] at hm
      simp only [readQPointsS, readQPoints, runQSteps, Generated.loadSpec, List.length_cons, List.drop_succ_cons, List.drop_zero, if_true,
        hm]
      cases R.readQ (strip ql) with
      | none => simp
      | some q =>
        simp only [Option.bind_some, Option.bind_eq_bind]
        cases readModes R np np rest with
        | none => simp
        | some p =>
          obtain ⟨ms, r⟩ := p
          cases r with
          | nil => simp
          | cons x r' =>
            have := ih r'
            simp only [Generated.loadSpec] at this
            simp [this]

/-- LOADER = SOURCE.  `evec_load` as the source says it now (both regex literals run by a backtracking matcher, the six column slices
paired real/imaginary as written, `np // 3` lines per mode, `(int, float, float)` on the groups, the step list of `_read_q_points`,
every line stripped before it is used) is the model's `evecLoad` — for every `float`, every `nq`, `np` and every list of lines. -/
theorem evecLoadS_is_evecLoad (pf : List Char → Option Num) (nq np : Nat) (file : List (List Char)) :
    evecLoadS Generated.loadSpec pf nq np file = evecLoad pf nq np file := by
  unfold evecLoadS evecLoad
  have h3 : (Generated.loadSpec.vecLinesDiv == 0) = false := by decide
  rw [h3, specReaders_is_concrete]
  exact readQPointsS_is_model _ np nq file

end loadsrc

end Cij.EvecSrc
