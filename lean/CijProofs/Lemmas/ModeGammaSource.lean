/-
  The glue of `CijModel/Interp.lean` (`finishMode`, `modeNodes`) IS what `cij/core/mode_gamma.py` says now: the translator
  (`tools/gen_tables.py: gen_modegamma_spec`) extracts, on every run, for each `interpolate_mode_*` function the shape of the
  returned triple and the node preparation; the theorems below compare them with the model's definitions.
-/
import CijModel.Interp
import Generated.ModeGammaSpec

namespace Cij.Interp

/-- the Python function a method dispatches to (`interpolate_modes`) -/
def Method.pyFunction : Method → Option String
  | .spline => some "interpolate_mode_spline"
  | .lagrange => some "interpolate_mode_lagrange"
  | .krogh => some "interpolate_mode_krogh"
  | .pchip | .akima | .hermite => some "interpolate_mode_ppoly"
  | .lsqPoly => some "interpolate_mode_lsq_poly"
  | .unknown => none

/-- interpretation of one extracted triple element `(exp?, negated?, derivative order)` on the samples `(s, s', s'')` -/
def applyElem {α : Type} [Neg α] [ExpLog α] (t : Triple α) (e : Bool × Bool × Nat) : α :=
  let v := match e.2.2 with | 0 => t.1 | 1 => t.2.1 | _ => t.2.2
  let v := if e.1 then ExpLog.exp v else v
  if e.2.1 then -v else v

/-- interpretation of the extracted node preparation `(thinned?, flipped?)` -/
def nodesBySpec {β : Type} (sp : Bool × Bool) (order : Nat) (l : List β) : List β :=
  let l := if sp.1 then thin order l else l
  if sp.2 then l.reverse else l

/-- what `finishMode` implements: `(exp s, −s', −s'')` -/
def canonicalPattern : List (Bool × Bool × Nat) := [(true, false, 0), (false, true, 1), (false, true, 2)]

/-- every `interpolate_mode_*` function of the source returns the canonical triple pattern -/
theorem return_pattern_is_source : ∀ e ∈ Generated.modeReturnPattern, e.2 = canonicalPattern := by decide

/-- every method dispatches to a function the translator found -/
theorem every_method_has_source (m : Method) (f : String) (h : m.pyFunction = some f) :
    (Generated.modeReturnPattern.lookup f).isSome = true ∧ (Generated.modeNodesSpec.lookup f).isSome = true := by
  cases m <;> simp [Method.pyFunction] at h <;> subst h <;> decide

/-- `finishMode` maps the kernel's samples exactly as the extracted (canonical) pattern says -/
theorem finish_is_pattern {α : Type} [Neg α] [Zero α] [ExpLog α] (I : Interpolant α) (nv nf va : List α) :
    finishMode I nv nf va = (do
      let r ← I (nv.map ExpLog.log) (nf.map ExpLog.log) (va.map ExpLog.log)
      pure (r.map fun t => (applyElem t (true, false, 0), applyElem t (false, true, 1), applyElem t (false, true, 2)))) := by
  rfl

/-- `modeNodes` prepares the nodes exactly as the source function the method dispatches to does (order ≥ 1) -/
theorem mode_nodes_is_source {β : Type} (m : Method) (f : String) (h : m.pyFunction = some f) (order : Nat) (ho : order ≠ 0)
    (vols freqs : List β) :
    ∃ sp, Generated.modeNodesSpec.lookup f = some sp ∧
      modeNodes m order vols freqs = .ok (nodesBySpec sp order vols, nodesBySpec sp order freqs) := by
  cases m <;> simp [Method.pyFunction] at h <;> subst h <;>
    simp [Generated.modeNodesSpec, List.lookup, modeNodes, nodesBySpec, ho]

end Cij.Interp
