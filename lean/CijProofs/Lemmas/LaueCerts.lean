/- The assembled table theorem (parts A and B) + re-export of the system certificates.  See LaueCertDefs.lean. -/
import CijProofs.Lemmas.LaueTablesA
import CijProofs.Lemmas.LaueTablesB
import CijProofs.Lemmas.LaueSysCerts
namespace Cij.Laue
open Cij.Certs

theorem defect_table (g : Gen) (a b : Fin 21) : defectZ g a b = look (defectLit g) a.val b.val := by
  rw [defectFast_eq]
  cases g
  · exact defect_twoX a b
  · exact defect_twoY a b
  · exact defect_twoZ a b
  · exact defect_fourZ a b
  · exact defect_threeZ a b
  · exact defect_sixZ a b
  · exact defect_three111 a b

end Cij.Laue
